(* C18 proofs, part 1: resolution order of lookupModule. *)
From Coq Require Import List NArith Bool Lia.
From Verif Require Import c18.PathModel.
Import ListNotations.
Open Scope N_scope.

Lemma bytes_eqb_true : forall a b, bytes_eqb a b = true -> a = b.
Proof.
  induction a as [| x a IH]; destruct b as [| y b]; cbn; try discriminate; auto.
  intro H. apply andb_true_iff in H. destruct H as [E H]. apply N.eqb_eq in E. subst. f_equal. now apply IH.
Qed.

Lemma bytes_eqb_refl : forall a, bytes_eqb a a = true.
Proof. induction a; cbn; [reflexivity |]. now rewrite N.eqb_refl. Qed.

(* lookup returns the FIRST existing candidate of [b/name.ext; b/name/base(name).ext | b <- bases] *)
Lemma lookup_in_find : forall w bases name ext,
  lookup_in w bases name ext = find (w_exists w) (candidates bases name ext).
Proof.
  induction bases as [| b r IH]; intros name ext; cbn; [reflexivity |].
  destruct (w_exists w (cand1 b name ext)); [reflexivity |].
  destruct (w_exists w (cand2 b name ext)); [reflexivity |]. apply IH.
Qed.

Lemma resolution_order : forall w paths search name ext,
  lookup_module w paths search name ext
  = find (w_exists w) (candidates (search_bases w paths search) name ext).
Proof. intros. unfold lookup_module. apply lookup_in_find. Qed.

Lemma find_first : forall {A} (p : A -> bool) l x,
  find p l = Some x -> exists l1 l2, l = l1 ++ x :: l2 /\ p x = true /\ forall y, In y l1 -> p y = false.
Proof.
  induction l as [| a l IH]; intros x H; cbn in H; [discriminate |].
  destruct (p a) eqn:E.
  - inversion H; subst. exists [], l. repeat split; auto. intros y [].
  - destruct (IH x H) as (l1 & l2 & -> & Px & Hn). exists (a :: l1), l2. repeat split; auto.
    intros y [<- | Hy]; auto.
Qed.

Lemma resolution_first : forall w paths search name ext p,
  lookup_module w paths search name ext = Some p ->
  exists before after, candidates (search_bases w paths search) name ext = before ++ p :: after
                       /\ w_exists w p = true /\ forall q, In q before -> w_exists w q = false.
Proof. intros until p. rewrite resolution_order. apply find_first. Qed.

Lemma resolution_none : forall w paths search name ext,
  lookup_module w paths search name ext = None <->
  forall q, In q (candidates (search_bases w paths search) name ext) -> w_exists w q = false.
Proof.
  intros. rewrite resolution_order. split.
  - intros H q Hq. apply (find_none _ _ H q Hq).
  - intro H. destruct (find (w_exists w) _) as [x |] eqn:F; [| reflexivity].
    apply find_some in F. destruct F as [Hin Hx]. rewrite (H x Hin) in Hx. discriminate.
Qed.

(* the search entry is tried before every loader path; the loader paths keep their order *)
Lemma search_first : forall w paths s, resolve_path w s [] <> [] ->
  search_bases w paths (Some s) = resolve_path w s [] :: paths.
Proof. intros w paths s H. unfold search_bases. destruct (resolve_path w s []); [congruence | reflexivity]. Qed.

(* a relative `search` of an import inside a module file is resolved against that file's directory *)
Lemma search_relative_to_importer : forall w file s,
  is_abs s = false -> has_prefix tilde_slash s = false -> has_prefix origin_slash s = false ->
  rewrite_search w file s = match join [dir file; s] with [] => None | p => Some p end.
Proof. intros w file s A T O. unfold rewrite_search, resolve_path. now rewrite A, T, O. Qed.

Lemma search_absolute_kept : forall w file s, is_abs s = true -> rewrite_search w file s = Some s.
Proof.
  intros w file s A. unfold rewrite_search, resolve_path. rewrite A. destruct s; [discriminate | reflexivity].
Qed.

Lemma search_home : forall w file s h, is_abs s = false -> has_prefix tilde_slash s = true -> w_home w = Some h ->
  rewrite_search w file s = match join [h; skipn 2 s] with [] => None | p => Some p end.
Proof. intros w file s h A T H. unfold rewrite_search, resolve_path. now rewrite A, T, H. Qed.

(* ~/.jq (any loader path named .jq): a FILE is auto-included, a DIRECTORY stays a search path *)
Lemma init_modules_spec : forall w paths p,
  In p (init_modules w paths) <->
  In p paths /\ base p = dot_jq /\ w_exists w p = true /\ w_is_dir w p = false.
Proof.
  intros w paths p. unfold init_modules. rewrite filter_In. split.
  - intros [Hin H]. apply andb_true_iff in H. destruct H as [H H3]. apply andb_true_iff in H. destruct H as [H1 H2].
    repeat split; auto.
    + now apply bytes_eqb_true.
    + now apply negb_true_iff in H3.
  - intros (Hin & Hb & He & Hd). split; [exact Hin |]. rewrite Hb, He, Hd, bytes_eqb_refl. reflexivity.
Qed.
