(* C18 proofs, part 3: modulemeta's defs list. *)
From Coq Require Import List NArith Bool Sorting.Permutation Sorting.Sorted.
From Verif Require Import c18.MetaModel.
Import ListNotations.

(* the defs list is the visible definitions, rearranged, and no element is followed by a smaller one
   under Go's comparison (name, then arity) *)
Lemma modulemeta_defs_sorted : forall defs,
  Permutation (filter visible_def defs) (list_module_defs defs)
  /\ Sorted (fun x y => na_less y x = false) (list_module_defs defs).
Proof.
  intro defs. unfold list_module_defs. split.
  - apply NASort.Permuted_sort.
  - generalize (NASort.Sorted_sort (filter visible_def defs)).
    apply Sorted_ind with (P := fun l => Sorted (fun x y => na_less y x = false) l); [constructor |].
    intros a l _ IH Hd. constructor; [exact IH |].
    inversion Hd; constructor. unfold is_true, NAOrder.leb, na_leb in H. now apply negb_true_iff in H.
Qed.

Lemma modulemeta_defs_hidden : forall defs n a, In (n, a) (list_module_defs defs) ->
  In (n, a) defs /\ visible_def (n, a) = true.
Proof.
  intros defs n a H. unfold list_module_defs in H.
  apply (Permutation_in _ (Permutation_sym (NASort.Permuted_sort _))) in H.
  now apply filter_In in H.
Qed.
