(* C18 proofs, part 3: modulemeta's defs list. *)
From Coq Require Import List NArith Bool Sorting.Permutation Sorting.Sorted.
From Verif Require Import c18.MetaModel.
Import ListNotations.

(* the defs list is the visible definitions, rearranged, and no element is followed by a smaller one
   under Go's comparison (name, then arity) *)
Lemma modulemeta_defs_sorted : forall defs,
  Permutation (filter visible_def defs) (list_module_defs defs)
  /\ Sorted (fun x y => na_less y x = false) (list_module_defs defs).
Proof.
  intro defs. unfold list_module_defs. split.
  - apply NASort.Permuted_sort.
  - generalize (NASort.Sorted_sort (filter visible_def defs)).
    apply Sorted_ind with (P := fun l => Sorted (fun x y => na_less y x = false) l); [constructor |].
    intros a l _ IH Hd. constructor; [exact IH |].
    inversion Hd; constructor. unfold is_true, NAOrder.leb, na_leb in H. now apply negb_true_iff in H.
Qed.

Lemma modulemeta_defs_hidden : forall defs n a, In (n, a) (list_module_defs defs) ->
  In (n, a) defs /\ visible_def (n, a) = true.
Proof.
  intros defs n a H. unfold list_module_defs in H.
  apply (Permutation_in _ (Permutation_sym (NASort.Permuted_sort _))) in H.
  now apply filter_In in H.
Qed.

(* the order, spelled out: names compared bytewise (Go string <), equal names by arity as a NUMBER
   (so f/2 precedes f/10, which a sort of the printed strings "f/10" < "f/2" would not give) *)
Lemma na_less_spec : forall n1 a1 n2 a2,
  na_less (n1, a1) (n2, a2) = true <-> bytes_ltb n1 n2 = true \/ (n1 = n2 /\ (a1 < a2)%N).
Proof.
  intros n1 a1 n2 a2. unfold na_less. cbn [fst snd]. rewrite orb_true_iff, andb_true_iff, N.ltb_lt.
  assert (E : bytes_eqb n1 n2 = true <-> n1 = n2).
  { revert n2. induction n1 as [| x l IH]; destruct n2 as [| y l2]; cbn; split; try discriminate; try reflexivity.
    - intro H. apply andb_true_iff in H. destruct H as [H1 H2]. apply N.eqb_eq in H1. apply IH in H2. congruence.
    - intro H. inversion H; subst. rewrite N.eqb_refl. cbn. now apply IH. }
  rewrite E. tauto.
Qed.
