(* C18 model, part 3: funcModulemeta's listModuleDefs / listModuleDeps (compiler.go).
   defs: the module's own FuncDefs whose name does not start with '_', sorted by name (byte order) then
   arity, printed name/arity (the harness splits at the last '/').  sort.Slice is modelled by a merge sort:
   the order is total on (name, arity), equal elements print identically, so stability does not matter. *)
From Coq Require Import List NArith Bool Orders Sorting.Mergesort.
Import ListNotations.
Open Scope N_scope.

Fixpoint bytes_ltb (a b : list N) : bool :=      (* Go string < *)
  match a, b with
  | [], [] => false
  | [], _ :: _ => true
  | _ :: _, [] => false
  | x :: a', y :: b' => if x <? y then true else if y <? x then false else bytes_ltb a' b'
  end.
Fixpoint bytes_eqb (a b : list N) : bool :=
  match a, b with
  | [], [] => true
  | x :: a', y :: b' => (x =? y) && bytes_eqb a' b'
  | _, _ => false
  end.

Definition name_arity := (list N * N)%type.
(* xs[i].name < xs[j].name || xs[i].name == xs[j].name && xs[i].arity < xs[j].arity *)
Definition na_less (x y : name_arity) : bool :=
  bytes_ltb (fst x) (fst y) || (bytes_eqb (fst x) (fst y) && (snd x <? snd y)).
Definition na_leb (x y : name_arity) : bool := negb (na_less y x).

Module NAOrder <: TotalLeBool.
  Definition t := name_arity.
  Definition leb := na_leb.
  Lemma bytes_ltb_asym : forall a b, bytes_ltb a b = true -> bytes_ltb b a = false.
  Proof.
    induction a as [| x a IH]; destruct b as [| y b]; cbn; try discriminate; auto.
    destruct (N.ltb_spec x y); destruct (N.ltb_spec y x); try discriminate; auto;
      try (exfalso; apply (N.lt_irrefl x); eapply N.lt_trans; eassumption).
  Qed.
  Lemma bytes_eqb_sym : forall a b, bytes_eqb a b = bytes_eqb b a.
  Proof.
    induction a as [| x a IH]; destruct b as [| y b]; cbn; auto. now rewrite N.eqb_sym, IH.
  Qed.
  Lemma bytes_ltb_eqb : forall a b, bytes_ltb a b = true -> bytes_eqb a b = false.
  Proof.
    induction a as [| x a IH]; destruct b as [| y b]; cbn; try discriminate; auto.
    destruct (N.ltb_spec x y).
    - intros _. destruct (N.eqb_spec x y); [subst; exfalso; eapply N.lt_irrefl; eauto | reflexivity].
    - destruct (N.ltb_spec y x); [discriminate |]. intro Hl. rewrite (IH _ Hl). apply andb_false_r.
  Qed.
  Theorem leb_total : forall a1 a2, leb a1 a2 = true \/ leb a2 a1 = true.
  Proof.
    intros [n1 a1] [n2 a2]. unfold leb, na_leb, na_less. cbn [fst snd].
    destruct (bytes_ltb n2 n1) eqn:L21.
    - right. rewrite (bytes_ltb_asym _ _ L21). cbn.
      rewrite bytes_eqb_sym, (bytes_ltb_eqb _ _ L21). reflexivity.
    - cbn. destruct (bytes_eqb n2 n1 && (a2 <? a1)) eqn:E; [| now left].
      right. apply andb_true_iff in E. destruct E as [E1 E2].
      destruct (bytes_ltb n1 n2) eqn:L12.
      + rewrite bytes_eqb_sym, (bytes_ltb_eqb _ _ L12) in E1. discriminate.
      + cbn. rewrite bytes_eqb_sym, E1. cbn. apply negb_true_iff. apply N.ltb_ge. apply N.ltb_lt in E2.
        apply N.lt_le_incl. exact E2.
  Qed.
End NAOrder.
Module NASort := Sort NAOrder.

Definition underscore : N := 95.
Definition visible_def (d : name_arity) : bool :=
  match fst d with c :: _ => negb (c =? underscore) | [] => true end.

Definition list_module_defs (defs : list name_arity) : list name_arity :=
  NASort.sort (filter visible_def defs).
