(* C01vm — the backtracking stack VM of /repo/execute.go (env.Next, pushfork, popfork, index, popscope)
   for the opcodes of the fragment.  Definitions only.

   Data stack, scope stack and fork stack are persistent lists (stack.go's / scope_stack.go's array stacks
   refine lists under the LIFO fork discipline: coq/vm/StackProofs.v Stack_refines).  A scope-stack index
   (saveindex, outerindex, the index captured by oppushpc) is the list that has that node on top.
   popscope's test `free := scopes.index > scopes.limit` is stated at list level with a ghost push counter:
   a block is pushed at position max(index,limit)+1 and limit is the largest index saved by a pending fork
   (StackProofs: PendOK), so index > limit holds exactly when the top frame was pushed after the newest
   pending fork was created: every frame carries the value of the push counter [ctr] at its push, every fork
   the value at its creation.
   Go panics (pop of the empty stack, failed type assertion, index out of range, env.index) are the explicit
   outcome [Stuck]; nothing is defaulted.

   Not modelled (unobservable in the fragment, where the paths stack is always empty): env.expdepth
   (opexpbegin/opexpend only count), env.paths, ctx polling, opcallrec. *)
From Coq Require Import List NArith ZArith Bool Arith.
From Verif Require Import c01vm2.Syntax c01vm2.Code.
Import ListNotations.

(* scope{id, offset, pc, saveindex, outerindex} *)
Inductive frame := Frame (fid foff fpc fstamp : nat) (fsave fouter : list frame).

(* what can sit on the data stack / in env.values *)
Inductive sv :=
| SV (v : jv)              (* a JSON value *)
| SIt (xs : list jv)       (* []pathValue: the rest of an opiter enumeration *)
| SLbl (n : nat)           (* env.label, pushed/stored by opforklabel *)
| SPc (p : nat) (sc : list frame).   (* [2]int{pc, scopes.index} pushed by oppushpc *)

Inductive err := EV (v : jv) | EM (m : list N) | EB (n : nat).   (* EB: *breakError{v: label} *)
Inductive verr := VE (e : err) | VT (x : verr).                  (* VT: *tryEndError{err} *)

Definition err_of (e : err0) : err := match e with EVal v => EV v | EMsg m => EM m end.

Record fork := { f_pc : nat; f_stk : list sv; f_scopes : list frame; f_off : nat; f_ctr : nat }.

(* state that popfork does not restore, besides vars and lbl: the ghost push counter and the locals
   (callpc, index) of Next that a call instruction hands to the opscope it jumps to *)
Record gx := { ctr : nat; creg : option nat * list frame }.   (* callpc = -1 (opcallrec) is None *)

Record mem := { stk : list sv; scopes : list frame; forks : list fork; vars : list sv; lbl : nat;
                offset : nat; gxs : gx }.

Inductive state :=
| Run (pc : nat) (bt : bool) (e : option verr) (m : mem)     (* top of the loop body, about to execute codes[pc] *)
| Brk (e : option verr) (fk : list fork) (vs : list sv) (l : nat) (g : gx).
    (* after `break loop`: stack, scopes and offset are dead (popfork overwrites them; with no fork Next returns) *)

Inductive outcome :=
| Next (s : state)
| Emit (v : jv) (s : state)          (* Next() returned (v, true) from opret *)
| Halt (e : option verr)             (* Next() returned (err, true) or (nil, false) *)
| Stuck.                             (* a Go panic *)

Definition set_stk (m : mem) (s : list sv) : mem :=
  {| stk := s; scopes := scopes m; forks := forks m; vars := vars m; lbl := lbl m; offset := offset m; gxs := gxs m |}.
Definition set_vars (m : mem) (s : list sv) (v : list sv) : mem :=
  {| stk := s; scopes := scopes m; forks := forks m; vars := v; lbl := lbl m; offset := offset m; gxs := gxs m |}.
Definition pushfork (pc : nat) (m : mem) : mem :=
  {| stk := stk m; scopes := scopes m;
     forks := {| f_pc := pc; f_stk := stk m; f_scopes := scopes m; f_off := offset m; f_ctr := ctr (gxs m) |} :: forks m;
     vars := vars m; lbl := lbl m; offset := offset m; gxs := gxs m |}.

Definition brk (e : option verr) (m : mem) : outcome := Next (Brk e (forks m) (vars m) (lbl m) (gxs m)).

(* env.index: walk the scope chain through outerindex *)
Fixpoint findf (f : frame) (x : var) {struct f} : option nat :=
  match f with
  | Frame i off _ _ _ outer =>
      if Nat.eqb i (fst x) then Some (off + snd x)
      else match outer with [] => None | g :: _ => findf g x end
  end.
Definition index_of (sc : list frame) (x : var) : option nat :=
  match sc with [] => None (* panic("env.index") *) | f :: _ => findf f x end.

Fixpoint update {A} (l : list A) (i : nat) (a : A) : option (list A) :=
  match l, i with
  | [], _ => None
  | _ :: r, O => Some (a :: r)
  | b :: r, S j => match update r j a with Some r' => Some (b :: r') | None => None end
  end.

(* opobject: the n pairs on top of the stack (the last value on top), returned in source order.  Only JSON values
   are expected there (anything else is reported as Stuck: the compiled code never leaves another kind of item
   below a value of an entry) *)
Fixpoint take_pairs (n : nat) (s : list sv) (acc : list (jv * jv)) : option (list (jv * jv) * list sv) :=
  match n with
  | O => Some (acc, s)
  | S m => match s with
           | SV v :: SV k :: r => take_pairs m r ((k, v) :: acc)
           | _ => None
           end
  end.

Section VM.
Variable nt : natives.
Variable code : list instr.

Definition step (s : state) : outcome :=
  match s with
  | Brk e fk vs l g =>
      match fk with
      | [] => Halt e
      | f :: r => Next (Run (f_pc f) true e
                    {| stk := f_stk f; scopes := f_scopes f; forks := r; vars := vs; lbl := l;
                       offset := f_off f; gxs := g |})
      end
  | Run pc bt e m =>
      let goto pc' := Next (Run pc' bt e m) in
      let cont m' := Next (Run (S pc) bt e m') in
      match nth_error code pc with
      | None => brk e m                               (* pc >= len(codes): the for loop ends *)
      | Some i =>
        match i with
        | Inop | Iexpbegin | Iexpend => cont m
        | Ipush c => cont (set_stk m (SV c :: stk m))
        | Ipop => match stk m with _ :: r => cont (set_stk m r) | [] => Stuck end
        | Idup => match stk m with v :: r => cont (set_stk m (v :: v :: r)) | [] => Stuck end
        | Iconst c => match stk m with _ :: r => cont (set_stk m (SV c :: r)) | [] => Stuck end
        | Iload x =>
            match index_of (scopes m) x with
            | Some k => match nth_error (vars m) k with
                        | Some v => cont (set_stk m (v :: stk m))
                        | None => Stuck end
            | None => Stuck
            end
        | Istore x =>
            match index_of (scopes m) x, stk m with
            | Some k, v :: r => match update (vars m) k v with
                                | Some vs => cont (set_vars m r vs)
                                | None => Stuck end
            | _, _ => Stuck
            end
        | Iappend x =>
            match index_of (scopes m) x, stk m with
            | Some k, SV v :: r =>
                match nth_error (vars m) k with
                | Some (SV (VArr l)) =>
                    match update (vars m) k (SV (VArr (l ++ [v]))) with
                    | Some vs => cont (set_vars m r vs)
                    | None => Stuck end
                | _ => Stuck
                end
            | _, _ => Stuck
            end
        | Ifork t =>
            if bt then match e with
                       | Some _ => brk e m
                       | None => Next (Run t false None m)
                       end
            else cont (pushfork pc m)
        | Iforktrybegin t =>
            if bt then
              match e with
              | None => brk e m
              | Some (VT x) => brk (Some x) m
              | Some (VE (EB _)) => brk e m
              | Some (VE (EV v)) =>
                  match stk m with _ :: r => Next (Run t false None (set_stk m (SV v :: r))) | [] => Stuck end
              | Some (VE (EM s)) =>
                  match stk m with _ :: r => Next (Run t false None (set_stk m (SV (VStr s) :: r))) | [] => Stuck end
              end
            else cont (pushfork pc m)
        | Iforktryend =>
            if bt then brk (option_map VT e) m
            else cont (pushfork pc m)
        | Iforklabel x =>
            if bt then
              match stk m with
              | l :: _ =>
                  match e, l with
                  | Some (VE (EB n)), SLbl n' => if Nat.eqb n n' then brk None m else brk e m
                  | _, _ => brk e m
                  end
              | [] => Stuck
              end
            else
              match index_of (scopes m) x with
              | Some k =>
                  let m1 := pushfork pc (set_stk m (SLbl (lbl m) :: stk m)) in
                  match update (vars m) k (SLbl (lbl m)) with
                  | Some vs => cont {| stk := stk m; scopes := scopes m; forks := forks m1;
                                       vars := vs; lbl := S (lbl m); offset := offset m; gxs := gxs m |}
                  | None => Stuck
                  end
              | None => Stuck
              end
        | Ibacktrack => brk e m
        | Ijump t => goto t
        | Ijumpifnot t =>
            match stk m with
            | v :: r =>
                match v with
                | SV VNull | SV (VBool false) => Next (Run t bt e (set_stk m r))
                | _ => cont (set_stk m r)
                end
            | [] => Stuck
            end
        | Iindex k =>
            if bt then brk e m else
            match stk m with
            | SV v :: r =>
                match n_index nt v k with
                | inl w => cont (set_stk m (SV w :: r))
                | inr x => brk (Some (VE (err_of x))) m
                end
            | _ => Stuck
            end
        | Icall f =>
            if bt then brk e m else
            match f with
            | NF0 g =>
                match stk m with
                | SV x :: r =>
                    match n_fn0 nt g x with
                    | inl w => cont (set_stk m (SV w :: r))
                    | inr x => brk (Some (VE (err_of x))) m
                    end
                | _ => Stuck
                end
            | NF2 o =>
                match stk m with
                | SV x :: SV a0 :: SV a1 :: r =>
                    match n_fn2 nt o x a0 a1 with
                    | inl w => cont (set_stk m (SV w :: r))
                    | inr x => brk (Some (VE (err_of x))) m
                    end
                | _ => Stuck
                end
            | NF1 g =>            (* fn(x, [a]) *)
                match stk m with
                | SV x :: SV a0 :: r =>
                    match n_fn1 nt g x a0 with
                    | inl w => cont (set_stk m (SV w :: r))
                    | inr x => brk (Some (VE (err_of x))) m
                    end
                | _ => Stuck
                end
            | NBreak =>
                match stk m with
                | SLbl n :: _ => brk (Some (VE (EB n))) m
                | _ => Stuck
                end
            | NIndex2 =>          (* _index: fn(x, [v, k]) = funcIndex2(x, v, k) *)
                match stk m with
                | SV x :: SV a0 :: SV a1 :: r =>
                    match n_index nt a0 a1 with
                    | inl w => cont (set_stk m (SV w :: r))
                    | inr x => brk (Some (VE (err_of x))) m
                    end
                | _ => Stuck
                end
            | NSlice3 =>          (* _slice: fn(x, [v, e, s]) = funcSlice(x, v, e, s) *)
                match stk m with
                | SV x :: SV a0 :: SV a1 :: SV a2 :: r =>
                    match n_slice nt a0 a1 a2 with
                    | inl w => cont (set_stk m (SV w :: r))
                    | inr x => brk (Some (VE (err_of x))) m
                    end
                | _ => Stuck
                end
            end
        | Ipushpc p => cont (set_stk m (SPc p (scopes m) :: stk m))
        | Icallpc =>
            match stk m with
            | SPc p sc' :: r =>
                (* pc, callpc, index = xs[0], pc, xs[1] ; goto loop *)
                Next (Run p bt e {| stk := r; scopes := scopes m; forks := forks m; vars := vars m; lbl := lbl m;
                                    offset := offset m; gxs := {| ctr := ctr (gxs m); creg := (Some pc, sc') |} |})
            | _ => Stuck
            end
        | Iscope id nv na =>
            (* entered through a call that set the locals (callpc, index) *)
            let '(cpc, idx) := creg (gxs m) in
            let outer := match idx with
                         | Frame i _ _ _ _ out :: _ => if Nat.eqb i id then out else idx
                         | [] => []
                         end in
            let enter callpc save off0 :=
              let fr := Frame id off0 callpc (ctr (gxs m)) save outer in
              let off := off0 + nv in
              cont {| stk := stk m; scopes := fr :: save; forks := forks m;
                      vars := if length (vars m) <? off then vars m ++ repeat (SV VNull) (2 * off - length (vars m)) else vars m;
                      lbl := lbl m; offset := off; gxs := {| ctr := S (ctr (gxs m)); creg := creg (gxs m) |} |} in
            match cpc with
            | Some callpc =>
                (* callpc >= 0: saveindex = scopes.index in both branches of the Go code *)
                enter callpc (scopes m) (offset m)
            | None =>
                (* opcallrec (index = scopes.index, callpc < 0): callpc, saveindex = env.popscope() *)
                match scopes m with
                | Frame _ off' rpc' stamp' save' _ :: _ =>
                    let free := match forks m with [] => true | f :: _ => f_ctr f <=? stamp' end in
                    enter rpc' save' (if free then off' else offset m)
                | [] => Stuck
                end
            end
        | Iret =>
            if bt then brk e m else
            match scopes m with
            | Frame _ off rpc stamp save _ :: _ =>
                (* popscope: free := scopes.index > scopes.limit *)
                let free := match forks m with [] => true | f :: _ => f_ctr f <=? stamp end in
                let off' := if free then off else offset m in
                match save with
                | [] => match stk m with
                        | SV v :: r =>
                            Emit v (Run rpc true None
                              {| stk := r; scopes := []; forks := forks m; vars := vars m; lbl := lbl m; offset := off';
                                 gxs := {| ctr := ctr (gxs m); creg := (Some (length code - 1), []) |} |})
                        | _ => Stuck
                        end
                | _ => Next (Run (S rpc) bt e
                          {| stk := stk m; scopes := save; forks := forks m; vars := vars m; lbl := lbl m; offset := off';
                             gxs := gxs m |})
                end
            | [] => Stuck
            end
        | Icallf p =>
            (* opcall with a pc: pc, callpc, index = v, pc, env.scopes.index ; goto loop *)
            if bt then brk e m else
            Next (Run p bt e {| stk := stk m; scopes := scopes m; forks := forks m; vars := vars m; lbl := lbl m;
                                offset := offset m; gxs := {| ctr := ctr (gxs m); creg := (Some pc, scopes m) |} |})
        | Icallrec p =>
            (* opcallrec: pc, callpc, index = v, -1, env.scopes.index ; goto loop (no backtrack test) *)
            Next (Run p bt e {| stk := stk m; scopes := scopes m; forks := forks m; vars := vars m; lbl := lbl m;
                                offset := offset m; gxs := {| ctr := ctr (gxs m); creg := (None, scopes m) |} |})
        | Iindexarray i =>
            if bt then brk e m else
            match stk m with
            | SV v :: r =>
                match v with
                | VNull | VArr _ =>
                    match n_index nt v (VNum (Z.of_nat i)) with
                    | inl w => cont (set_stk m (SV w :: r))
                    | inr x => brk (Some (VE (err_of x))) m
                    end
                | _ => brk (Some (VE (EM []))) m        (* expectedArrayError *)
                end
            | _ => Stuck
            end
        | Iobject n =>
            if bt then brk e m else
            match take_pairs n (stk m) [] with
            | Some (ps, r) =>
                match mk_obj ps with
                | inl w => cont (set_stk m (SV w :: r))
                | inr x => brk (Some (VE (err_of x))) m
                end
            | None => Stuck
            end
        | Iiter =>
            match e with
            | Some _ => brk e m
            | None =>
                match stk m with
                | top :: r =>
                    let go (xs : list jv) :=
                      match xs with
                      | [] => Stuck                     (* xs[0] of an empty []pathValue *)
                      | x :: rest =>
                          match rest with
                          | [] => Next (Run (S pc) false None (set_stk m (SV x :: r)))
                          | _ => Next (Run (S pc) false None
                                        (set_stk (pushfork pc (set_stk m (SIt rest :: r))) (SV x :: r)))
                          end
                      end in
                    match top with
                    | SIt xs => go xs
                    | SV v =>
                        match n_iter nt v with
                        | inl [] => brk None m
                        | inl xs => go xs
                        | inr x => brk (Some (VE (err_of x))) m
                        end
                    | _ => Stuck
                    end
                | [] => Stuck
                end
            end
        end
      end
  end.

(* observation of a whole run: outputs in order, then how it ended (the first error is terminal) *)
Inductive ending := End | Error (e : verr) | IsStuck | OutOfFuel.

Fixpoint run (fuel : nat) (s : state) : list jv * ending :=
  match fuel with
  | O => ([], OutOfFuel)
  | S f =>
      match step s with
      | Next s' => run f s'
      | Emit v s' => let '(o, e) := run f s' in (v :: o, e)
      | Halt None => ([], End)
      | Halt (Some e) => ([], Error e)
      | Stuck => ([], IsStuck)
      end
  end.

(* env.execute: push the input; pc = 0; the locals of Next: callpc = len(codes)-1, index = -1 *)
Definition init (v : jv) : state :=
  Run 0 false None {| stk := [SV v]; scopes := []; forks := []; vars := []; lbl := 0; offset := 0;
                      gxs := {| ctr := 0; creg := (Some (length code - 1), []) |} |}.

End VM.
