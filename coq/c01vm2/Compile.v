(* C01vm — the bytecode compiler of /repo/compiler.go for fragment F.  Definitions only.

   [comp q ce pc nv] is the code emitted by compileQuery for q when len(c.codes) = pc and the main
   scope's variablecnt = nv; it returns the instructions and the new variablecnt.  Absolute jump and
   fork targets are those the Go code back-patches through c.lazy (a lazy slot evaluated at
   len(c.codes) = the pc after the sub-segment).  All variables live in the main scope (id 1; the
   builtin scope has id 0).  The emission-time rewrites are transcribed: compileIf (expbegin removal,
   constant results), compileBind (expbegin -> nop), compileArray constant folding, argument
   inlining of compileCallInternal; the final pass optimizeCodeOps is [peephole]. *)
From Coq Require Import List NArith ZArith Bool Arith.
From Verif Require Import c01vm2.Syntax c01vm2.Code.
Import ListNotations.

(* what a name is bound to at compile time (scopeinfo.variables / scopeinfo.funcs, innermost first): a value
   variable ($x: its slot), a defined function (the pc of its opscope and its number of parameters), a filter
   parameter (the slot that holds the closure) *)
Inductive cbind := CV (y : var) | CF (p argc : nat) | CP (y : var).
(* ce_ghost is not used by the compiler: the proofs record there the addresses the environments of the closures
   bound in ce_env depend on *)
Record cenv := { ce_env : list (N * cbind); ce_lbls : list (lname * var); ce_ghost : nat -> Prop }.
Definition ce_empty : cenv := {| ce_env := []; ce_lbls := []; ce_ghost := fun _ => False |}.
Definition add_var (ce : cenv) (x : vname) (k : var) : cenv :=
  {| ce_env := (x, CV k) :: ce_env ce; ce_lbls := ce_lbls ce; ce_ghost := ce_ghost ce |}.
Definition add_lbl (ce : cenv) (l : lname) (k : var) : cenv :=
  {| ce_env := ce_env ce; ce_lbls := (l, k) :: ce_lbls ce; ce_ghost := ce_ghost ce |}.
Definition add_fun (ce : cenv) (f : fname) (p argc : nat) : cenv :=
  {| ce_env := (f, CF p argc) :: ce_env ce; ce_lbls := ce_lbls ce; ce_ghost := ce_ghost ce |}.
Definition add_env (ce : cenv) (l : list (N * cbind)) : cenv :=
  {| ce_env := l ++ ce_env ce; ce_lbls := ce_lbls ce; ce_ghost := ce_ghost ce |}.
(* the body of a function definition (and a closure passed to a user-defined function) sees the names visible
   at the definition; in this model it sees no label (a break out of a function body to a label around the
   definition is outside the fragment) *)
Definition fun_env (ce : cenv) : cenv := {| ce_env := ce_env ce; ce_lbls := []; ce_ghost := ce_ghost ce |}.

Fixpoint lookup_cv (x : vname) (l : list (N * cbind)) : option var :=
  match l with
  | [] => None
  | (y, CV k) :: r => if N.eqb x y then Some k else lookup_cv x r
  | _ :: r => lookup_cv x r
  end.
(* compileFunc: a function f/argc, or (argc = 0) a filter parameter named f; innermost first *)
Fixpoint lookup_cf (f : fname) (argc : nat) (l : list (N * cbind)) : option cbind :=
  match l with
  | [] => None
  | (g, CF p n) :: r => if N.eqb f g && Nat.eqb n argc then Some (CF p n) else lookup_cf f argc r
  | (g, CP y) :: r => if N.eqb f g && Nat.eqb argc 0 then Some (CP y) else lookup_cf f argc r
  | _ :: r => lookup_cf f argc r
  end.
(* every slot visible at compile time belongs to a scope created before scope id sn (a sanity check of the
   model: scope ids are allocated in increasing order) *)
Definition ce_lt (ce : cenv) (sn : nat) : bool :=
  forallb (fun e => match snd e with CV y | CP y => Nat.ltb (fst y) sn | CF _ _ => true end) (ce_env ce) &&
  forallb (fun e => Nat.ltb (fst (snd e)) sn) (ce_lbls ce).

(* compileFuncDef with parameters: the input is stored in slot 0 of the new scope, the closures of the parameters
   in slots 1..n; every $x parameter is then evaluated (load v; load closure; callpc) and stored in a further slot *)
Fixpoint pv_params (ps : list param) (i : nat) : list (nat * vname) :=
  match ps with
  | [] => []
  | PV x :: r => (i, x) :: pv_params r (S i)
  | PF _ :: r => pv_params r (S i)
  end.
Fixpoint pf_env (sn : nat) (ps : list param) (i : nat) : list (N * cbind) :=     (* innermost (last) first *)
  match ps with
  | [] => []
  | PF g :: r => pf_env sn r (S i) ++ [(g, CP (sn, S i))]
  | PV _ :: r => pf_env sn r (S i)
  end.
Fixpoint pv_env (sn n : nat) (pvs : list (nat * vname)) (j : nat) : list (N * cbind) :=
  match pvs with
  | [] => []
  | (_, x) :: r => pv_env sn n r (S j) ++ [(x, CV (sn, S n + j))]
  end.
Fixpoint pv_code (sn n : nat) (pvs : list (nat * vname)) (j : nat) : list instr :=
  match pvs with
  | [] => []
  | (i, _) :: r => [Iload (sn, 0); Iexpbegin; Iload (sn, S i); Icallpc; Istore (sn, S n + j); Iexpend] ++ pv_code sn n r (S j)
  end.
Definition prelude (sn : nat) (ps : list param) : list instr :=
  match ps with
  | [] => []
  | _ => Istore (sn, 0) :: map (fun i => Istore (sn, S i)) (seq 0 (length ps)) ++
         pv_code sn (length ps) (pv_params ps 0) 0 ++ [Iload (sn, 0)]
  end.
Definition param_slots (ps : list param) : nat :=
  match ps with [] => 0 | _ => S (length ps) + length (pv_params ps 0) end.
Definition param_env (sn : nat) (ps : list param) : list (N * cbind) :=
  pv_env sn (length ps) (pv_params ps 0) 0 ++ pf_env sn ps 0.

Definition mainscope : nat := 1.       (* the builtin scope has id 0 *)

(* queries that emit no code *)
Fixpoint emptycode (q : query) : bool :=
  match q with QId => true | QPipe a b => emptycode a && emptycode b | _ => false end.

(* compileArray folds [q] to a constant exactly when the code of q is the code of a left-nested
   comma of single opconst instructions (fork/jump targets included, see compiler.go) *)
(* the (key, value) pairs of an object all of whose keys are constant and whose values are single constants *)
Section ObjConsts.
Variable A : query -> option (list jv).
Fixpoint obj_consts (es : list ((list N + query) * query)) : option (list (jv * jv)) :=
  match es with
  | [] => Some []
  | (inl k, qv) :: r =>
      match A qv, obj_consts r with
      | Some [c], Some l => Some ((VStr k, c) :: l)
      | _, _ => None
      end
  | _ => None
  end.
End ObjConsts.
Fixpoint acl (q : query) : option (list jv) :=
  match q with
  | QConst c => Some [c]
  | QArray q' =>
      match q' with
      | QPipe _ _ => None
      | _ => match acl q' with Some cs => Some [VArr cs] | None => None end
      end
  | QPipe a b => if emptycode a then acl b else if emptycode b then acl a else None
  | QComma a b =>
      match acl a, acl b with
      | Some cs, Some [c] => Some (cs ++ [c])
      | _, _ => None
      end
  | QObject es =>
      (* an object that compileObject folds to one opconst (every value a single opconst, every key a constant) *)
      match es with
      | [] => Some [VObj []]
      | _ =>
          match obj_consts acl es with
          | Some kcs => match mk_obj kcs with inl w => Some [w] | inr _ => None end
          | None => None
          end
      end
  | _ => None
  end.
Definition array_fold (q : query) : option (list jv) :=
  match q with QPipe _ _ => None | _ => acl q end.

(* variables allocated while compiling (independent of the folding decision) *)
Definition simple_const (c : jv) : bool := Nat.eqb (lit_vars c) 0.

Definition is_const1 (l : list instr) : option jv := match l with [Iconst x] => Some x | _ => None end.

(* [comp q ce cur pc nv sn]: cur = id of the scope being compiled, nv = its variablecnt, sn = c.scopecnt;
   returns the code, the new variablecnt of scope cur and the new scopecnt *)
Definition res := option (list instr * nat * nat).

(* the arguments of a call of a user-defined function, from the last to the first: each one a function definition
   (jump over it; opscope; body; opret) followed by pushpc.  C compiles the body of an argument in a new scope *)
Section Args.
Variable C : query -> nat -> nat -> res.
Fixpoint comp_args (l : list query) (p sn : nat) : option (list instr * nat * nat) :=
  match l with
  | [] => Some ([], p, sn)
  | a :: r =>
      match comp_args r p sn with
      | Some (cr, p', s') =>
          match C a s' p' with
          | Some (cb, nvc, s1) =>
              let blk := Ijump (p' + 2 + length cb + 1) :: Iscope s' nvc 0 :: cb ++ [Iret; Ipushpc (S p')] in
              Some (cr ++ blk, p' + length blk, s1)
          | None => None end
      | None => None end
  end.
End Args.

(* compilePattern: the value on top of the stack is consumed.  $x: a fresh variable, store.  An array / object
   pattern: a fresh anonymous variable v, store v, then per element  load v; indexarray i; <pattern>  resp. per entry
   load v; index k; [dup; store $x;] <pattern>.  Returns the code, the variables bound (innermost = last first) and
   the new variablecnt.  (pushVariable would reuse the slot of a name bound earlier in the same `as`: patterns that
   repeat a name are outside the fragment, see pat_ok / names_nodup.) *)
Fixpoint pcomp (p : pattern) (cur nv : nat) : list instr * list (vname * var) * nat :=
  match p with
  | PVar x => ([Istore (cur, nv)], [(x, (cur, nv))], S nv)
  | PArr l => let '(c, b, n) := parr_comp l 0 (cur, nv) cur (S nv) in (Istore (cur, nv) :: c, b, n)
  | PObj l => let '(c, b, n) := pobj_comp l (cur, nv) cur (S nv) in (Istore (cur, nv) :: c, b, n)
  end
with parr_comp (l : parr) (i : nat) (v : var) (cur nv : nat) : list instr * list (vname * var) * nat :=
  match l with
  | ANil => ([], [], nv)
  | ACons p r =>
      let '(c1, b1, n1) := pcomp p cur nv in
      let '(c2, b2, n2) := parr_comp r (S i) v cur n1 in
      (Iload v :: Iindexarray i :: c1 ++ c2, b2 ++ b1, n2)
  end
with pobj_comp (l : pobj) (v : var) (cur nv : nat) : list instr * list (vname * var) * nat :=
  match l with
  | ONil => ([], [], nv)
  | OKey k p r =>
      let '(c1, b1, n1) := pcomp p cur nv in
      let '(c2, b2, n2) := pobj_comp r v cur n1 in
      (Iload v :: Iindex (VStr k) :: c1 ++ c2, b2 ++ b1, n2)
  | OKeyVar k x p r =>
      let '(c1, b1, n1) := pcomp p cur (S nv) in
      let '(c2, b2, n2) := pobj_comp r v cur n1 in
      (Iload v :: Iindex (VStr k) :: Idup :: Istore (cur, nv) :: c1 ++ c2, b2 ++ b1 ++ [(x, (cur, nv))], n2)
  end.
(* "invalid pattern": an array / object pattern has at least one element *)
Fixpoint pat_ok (p : pattern) : bool :=
  match p with
  | PVar _ => true
  | PArr l => match l with ANil => false | _ => parr_ok l end
  | PObj l => match l with ONil => false | _ => pobj_ok l end
  end
with parr_ok (l : parr) : bool := match l with ANil => true | ACons p r => pat_ok p && parr_ok r end
with pobj_ok (l : pobj) : bool :=
  match l with ONil => true | OKey _ p r => pat_ok p && pobj_ok r | OKeyVar _ _ p r => pat_ok p && pobj_ok r end.
Fixpoint names_nodup (l : list (vname * var)) : bool :=
  match l with
  | [] => true
  | (x, _) :: r => negb (existsb (fun e => N.eqb x (fst e)) r) && names_nodup r
  end.
Fixpoint pat_nvars (p : pattern) : nat :=
  match p with
  | PVar _ => 1
  | PArr l => S (parr_nvars l)
  | PObj l => S (pobj_nvars l)
  end
with parr_nvars (l : parr) : nat := match l with ANil => 0 | ACons p r => pat_nvars p + parr_nvars r end
with pobj_nvars (l : pobj) : nat :=
  match l with ONil => 0 | OKey _ p r => pat_nvars p + pobj_nvars r | OKeyVar _ _ p r => S (pat_nvars p + pobj_nvars r) end.
Definition is_pvar (p : pattern) : bool := match p with PVar _ => true | _ => false end.
(* the variables of a pattern become visible, the last one innermost *)
Fixpoint add_vars (ce : cenv) (bs : list (vname * var)) : cenv :=
  match bs with
  | [] => ce
  | (x, y) :: r => add_var (add_vars ce r) x y
  end.

(* compileObject: the entries in order, all in the current scope; an entry is  push k | load v; <key query>  followed
   by  load v; <value query>  (compileObjectKeyVal).  C compiles a sub-query at a pc with a variable and a scope count.
   The result keeps the code of each entry apart (the constant-folding test looks at them) *)
Section Ents.
Variable C : query -> nat -> nat -> nat -> option (list instr * nat * nat).
Variable v : var.
Fixpoint comp_ents (es : list ((list N + query) * query)) (p n s : nat) : option (list (list instr) * nat * nat) :=
  match es with
  | [] => Some ([], n, s)
  | (k, qv) :: r =>
      match (match k with
             | inl str => Some ([Ipush (VStr str)], n, s)
             | inr kq => match C kq (S p) n s with
                         | Some (ck, n', s') => Some (Iload v :: ck, n', s')
                         | None => None end
             end) with
      | Some (ck, n1, s1) =>
          match C qv (p + length ck + 1) n1 s1 with
          | Some (cv, n2, s2) =>
              match comp_ents r (p + length ck + 1 + length cv) n2 s2 with
              | Some (cr, n3, s3) => Some ((ck ++ Iload v :: cv) :: cr, n3, s3)
              | None => None end
          | None => None end
      | None => None end
  end.
End Ents.
(* "optimize constant objects": every entry is  push k; load v; const c.  compiler.go tests the opcodes at the positions
   pc+3i, pc+3i+1, pc+3i+2 of the flat list after checking its length (3 per entry); the model tests entry by entry
   (the same unless an entry whose code is not 3 instructions long re-aligns with that pattern; the executable
   comparison of the instruction lists covers near-fold shapes) *)
Fixpoint ents_const (cs : list (list instr)) : option (list (jv * jv)) :=
  match cs with
  | [] => Some []
  | [Ipush (VStr k); Iload _; Iconst c] :: r =>
      match ents_const r with Some l => Some ((VStr k, c) :: l) | None => None end
  | _ => None
  end.

(* the code of an argument of an internal function (compileCallInternal / compileFuncDef) *)
Definition arg_code (v : var) (p sn : nat) (cb : list instr) (nvc : nat) : list instr :=
  match cb with
  | [] => [Iload v]
  | [x] => if Nat.eqb nvc 0
           then match x with Iconst c => [Ipush c] | _ => [Iload v; x] end
           else Ijump (p + 2 + 1 + 1) :: Iscope sn nvc 0 :: [x] ++ [Iret; Iload v; Ipushpc (S p); Icallpc]
  | _ => Ijump (p + 2 + length cb + 1) :: Iscope sn nvc 0 :: cb ++ [Iret; Iload v; Ipushpc (S p); Icallpc]
  end.


(* Index.toIndexKey: an index / a slice bound that is a literal (or absent) makes the key a constant *)
(* Query.toIndexKey looks at the Term of the query only: function definitions in front of a literal are dropped
   (`.[def f: 1; 0]` is `.[0]`); such index queries are outside the fragment as well *)
Fixpoint lit_under_defs (q : query) : option jv :=
  match q with QConst c => Some c | QDef _ _ _ r => lit_under_defs r | _ => None end.
Definition keyc_index (q : query) : bool := match lit_under_defs q with Some (VNum _) | Some (VStr _) => true | _ => false end.
Definition keyc_bound (q : query) : bool := match q with QConst VNull => true | _ => keyc_index q end.
(* compileCallInternal with indexing = 1: the argument(s) after the first are wrapped in expbegin .. expend, and the
   expbegin is dropped (no expend) when they are one instruction *)
Definition wrap_exp (c : list instr) : list instr := match c with [_] => c | _ => Iexpbegin :: c ++ [Iexpend] end.

(* compileObject.  {}: one opconst.  Otherwise  store v; the entries; opobject n  -- or, when every entry is
   push k; load v; const c,  one opconst *)
Definition comp_object (C : query -> nat -> nat -> nat -> option (list instr * nat * nat)) (v : var)
  (es : list ((list N + query) * query)) (pc nv sn : nat) : option (list instr * nat * nat) :=
  match es with
  | [] => Some ([Iconst (VObj [])], nv, sn)
  | _ =>
      match comp_ents C v es (S pc) (S nv) sn with
      | Some (cs, n1, s1) =>
          match ents_const cs with
          | Some kcs => match mk_obj kcs with
                        | inl w => Some ([Iconst w], n1, s1)
                        | inr _ => None           (* unreachable: the keys are strings *)
                        end
          | None => Some (Istore v :: concat cs ++ [Iobject (length es)], n1, s1)
          end
      | None => None end
  end.

(* ---- optimizeTailRec, as part of the compiler ----
   tl = Some (p, Some cj): the query is in tail position of the parameterless function whose opscope is at p (the
   code after it leads to that function's opret through jumps only); a call of that function is then emitted as
   opcallrec p, or as jump (p + 1) when the function's scope has no variable (cj).  tl = Some (p, None): a position
   that optimizeTailRec also treats as a tail position but that the theorem does not cover (the right side of //, a
   catch handler, the extract part of foreach, the body of a label): a call of p there is outside the fragment.
   Compile.tailrec below is the pass as the Go code does it (a scan over the emitted code); Run.v checks on every
   sampled program that both give the same code. *)
(* queries whose code is only jumps over function definitions: what follows them is reached by jumps alone *)
Fixpoint transparent (q : query) : bool :=
  match q with
  | QId => true
  | QPipe a b => transparent a && transparent b
  | QDef _ _ _ rest => transparent rest
  | _ => false
  end.
Definition tailpos := option (nat * option bool).
Definition tl_fb (tl : tailpos) : tailpos := match tl with Some (p, _) => Some (p, None) | None => None end.
Definition tail_call (tl : tailpos) (p : nat) : option instr :=
  match tl with
  | Some (p', r) =>
      if Nat.eqb p' p then
        match r with Some true => Some (Ijump (S p)) | Some false => Some (Icallrec p) | None => None end
      else Some (Icallf p)
  | None => Some (Icallf p)
  end.
(* the number of variables a query allocates in the scope it is compiled in (independent of the mode) *)
Fixpoint nvars (q : query) : nat :=
  match q with
  | QId | QEmpty | QBreak _ | QVar _ | QCall0 _ => 0
  | QConst c => lit_vars c
  | QPipe a b | QComma a b => nvars a + nvars b
  | QIter t | QIndex t _ => nvars t
  | QIf c a b => nvars c + nvars a + nvars b
  | QAlt a b => S (nvars a + nvars b)
  | QTry a h => nvars a + match h with Some h' => nvars h' | None => 0 end
  | QArray q' => S (nvars q')
  | QReduce s p i u => S (nvars i + nvars s + (pat_nvars p + nvars u))
  | QForeach s p i u e => S (nvars i + nvars s + (pat_nvars p + nvars u)) + match e with Some e' => nvars e' | None => 0 end
  | QLabel _ b => S (nvars b)
  | QBind s _ b => nvars s + S (nvars b)
  | QBinop _ _ _ => 1
  | QDef _ _ _ rest => nvars rest
  | QCallF _ args => match args with [] => 0 | _ => 1 end
  | QBindP s p b => nvars s + pat_nvars p + nvars b
  | QIndexQ _ _ | QSlice _ _ _ | QCall1 _ _ => 1
  | QObject es =>
      match es with
      | [] => 0
      | _ => S ((fix go (es : list ((list N + query) * query)) : nat :=
                   match es with
                   | [] => 0
                   | (k, qv) :: r => match k with inl _ => 0 | inr kq => nvars kq end + nvars qv + go r
                   end) es)
      end
  end.

Section Tco.
Variable tco : bool.      (* optimizeTailRec on / off *)
Definition tl_body (p : nat) (ps : list param) (body : query) : tailpos :=
  if tco && Nat.eqb (length ps) 0 then Some (p, Some (Nat.eqb (nvars body) 0)) else None.

Fixpoint compg (q : query) (ce : cenv) (tp : tailpos) (cur pc nv sn : nat) {struct q} : res :=
  let V := fun k : nat => (cur, k) in
  match q with
  | QId => Some ([], nv, sn)
  | QConst c => Some ([Iconst c], nv + lit_vars c, sn)
  | QPipe a b =>
      (* when b only jumps over definitions, a is followed (through jumps) by whatever follows the pipe *)
      match compg a ce (match tp with None => None | Some _ => if transparent b then tp else None end) cur pc nv sn with
      | Some (ca, n1, s1) =>
          match compg b ce tp cur (pc + length ca) n1 s1 with
          | Some (cb, n2, s2) => Some (ca ++ cb, n2, s2)
          | None => None end
      | None => None end
  | QComma a b =>
      match compg a ce tp cur (S pc) nv sn with
      | Some (ca, n1, s1) =>
          let l := pc + 1 + length ca + 1 in
          match compg b ce tp cur l n1 s1 with
          | Some (cb, n2, s2) => Some (Ifork l :: ca ++ Ijump (l + length cb) :: cb, n2, s2)
          | None => None end
      | None => None end
  | QEmpty => Some ([Ibacktrack], nv, sn)
  | QIter t =>
      match compg t ce None cur pc nv sn with
      | Some (ct, n1, s1) => Some (ct ++ [Iiter], n1, s1)
      | None => None end
  | QIndex t k =>
      match compg t ce None cur pc nv sn with
      | Some (ct, n1, s1) => Some (ct ++ [Iindex k], n1, s1)
      | None => None end
  | QIf c a b =>
      (* an `if` without else (e.Else == nil; elif chains are nested ifs) is QIf c a QId: compileIf then emits
         pre; jumpifnot e; a; jump e with e the position after the jump, which is this clause for cb = [] *)
      match compg c ce None cur (pc + 2) nv sn with
      | Some (cc, n1, s1) =>
          let pre := match cc with [] => [Idup] | _ => Idup :: Iexpbegin :: cc ++ [Iexpend] end in
          let pcc := pc + length pre in
          match compg a ce tp cur (S pcc) n1 s1 with
          | Some (ca, n2, s2) =>
              let e := pcc + 1 + length ca + 1 in
              match compg b ce tp cur e n2 s2 with
              | Some (cb, n3, s3) =>
                  match is_const1 ca, is_const1 cb with
                  | Some x, Some y =>     (* optimize constant results *)
                      Some (Inop :: tl pre ++ [Ijumpifnot e; Ipush x; Ijump (e + 1); Ipush y], n3, s3)
                  | _, _ =>
                      Some (pre ++ Ijumpifnot e :: ca ++ Ijump (e + length cb) :: cb, n3, s3)
                  end
              | None => None end
          | None => None end
      | None => None end
  | QAlt a b =>
      let f := V nv in
      match compg a ce None cur (pc + 3) (S nv) sn with
      | Some (ca, n1, s1) =>
          let p1 := pc + 3 + length ca in
          match compg b ce (tl_fb tp) cur (p1 + 11) n1 s1 with
          | Some (cb, n2, s2) =>
              Some (Ipush (VBool false) :: Istore f :: Ifork (p1 + 7) :: ca ++
                    [Idup; Ijumpifnot (p1 + 5); Ipush (VBool true); Istore f; Ijump (p1 + 11 + length cb);
                     Ipop; Ibacktrack; Iload f; Ijumpifnot (p1 + 11); Ibacktrack; Ipop] ++ cb, n2, s2)
          | None => None end
      | None => None end
  | QTry a h =>
      match compg a ce None cur (S pc) nv sn with
      | Some (ca, n1, s1) =>
          let hp := pc + 1 + length ca + 2 in
          match h with
          | Some h =>
              match compg h ce (tl_fb tp) cur hp n1 s1 with
              | Some (ch, n2, s2) => Some (Iforktrybegin hp :: ca ++ Iforktryend :: Ijump (hp + length ch) :: ch, n2, s2)
              | None => None end
          | None => Some (Iforktrybegin hp :: ca ++ [Iforktryend; Ijump (hp + 1); Ibacktrack], n1, s1)
          end
      | None => None end
  | QArray q =>
      let arr := V nv in
      match compg q ce None cur (pc + 3) (S nv) sn with
      | Some (cq, n1, s1) =>
          match array_fold q with
          | Some cs => Some ([Iconst (VArr cs)], n1, s1)
          | None =>
              Some (Ipush (VArr []) :: Istore arr :: Ifork (pc + 3 + length cq + 2) :: cq ++
                    [Iappend arr; Ibacktrack; Ipop; Iload arr], n1, s1)
          end
      | None => None end
  | QReduce src p init upd =>
      (* compileReduce: dup; init; store acc; fork; source; PATTERN (compilePattern: a plain $x is one store);
         load acc; update; store acc; backtrack; pop; load acc *)
      let acc := V nv in
      match compg init ce None cur (S pc) (S nv) sn with
      | Some (ci, n1, s1) =>
          let p1 := pc + 1 + length ci in        (* store acc; fork *)
          match compg src ce None cur (p1 + 2) n1 s1 with
          | Some (cs, n2, s2) =>
              let p2 := p1 + 2 + length cs in    (* pattern; load acc *)
              let '(cp, bs, n2') := pcomp p cur n2 in
              if pat_ok p && names_nodup bs then
              match compg upd (add_vars ce bs) None cur (p2 + length cp + 1) n2' s2 with
              | Some (cu, n3, s3) =>
                  let p3 := p2 + length cp + 1 + length cu in
                  Some (Idup :: ci ++ Istore acc :: Ifork (p3 + 2) :: cs ++
                        cp ++ Iload acc :: cu ++ [Istore acc; Ibacktrack; Ipop; Iload acc], n3, s3)
              | None => None end
              else None
          | None => None end
      | None => None end
  | QForeach src p init upd ext =>
      let acc := V nv in
      match compg init ce None cur (S pc) (S nv) sn with
      | Some (ci, n1, s1) =>
          let p1 := pc + 1 + length ci in        (* store acc *)
          match compg src ce None cur (p1 + 1) n1 s1 with
          | Some (cs, n2, s2) =>
              let p2 := p1 + 1 + length cs in    (* pattern; load acc *)
              let '(cp, bs, n2') := pcomp p cur n2 in
              if pat_ok p && names_nodup bs then
              match compg upd (add_vars ce bs) None cur (p2 + length cp + 1) n2' s2 with
              | Some (cu, n3, s3) =>
                  let p3 := p2 + length cp + 1 + length cu in   (* dup; store acc *)
                  match ext with
                  | Some e =>
                      match compg e (add_vars ce bs) (tl_fb tp) cur (p3 + 2) n3 s3 with
                      | Some (cx, n4, s4) =>
                          Some (Idup :: ci ++ Istore acc :: cs ++ cp ++ Iload acc :: cu ++
                                Idup :: Istore acc :: cx, n4, s4)
                      | None => None end
                  | None =>
                      Some (Idup :: ci ++ Istore acc :: cs ++ cp ++ Iload acc :: cu ++
                            [Idup; Istore acc], n3, s3)
                  end
              | None => None end
              else None
          | None => None end
      | None => None end
  | QLabel l body =>
      match compg body (add_lbl ce l (V nv)) (tl_fb tp) cur (S pc) (S nv) sn with
      | Some (cb, n1, s1) => Some (Iforklabel (V nv) :: cb, n1, s1)
      | None => None end
  | QBreak l =>
      match lookup l (ce_lbls ce) with
      | Some k => Some ([Ipop; Iload k; Icall NBreak], nv, sn)
      | None => None end
  | QBind src x body =>
      match compg src ce None cur (pc + 2) nv sn with
      | Some (cs, n1, s1) =>
          let pre := match cs with
                     | [] => [Idup; Inop; Istore (V n1)]
                     | _ => Idup :: Iexpbegin :: cs ++ [Istore (V n1); Iexpend]
                     end in
          match compg body (add_var ce x (V n1)) tp cur (pc + length pre) (S n1) s1 with
          | Some (cb, n2, s2) => Some (pre ++ cb, n2, s2)
          | None => None end
      | None => None end
  | QVar x =>
      match lookup_cv x (ce_env ce) with
      | Some k => Some ([Ipop; Iload k], nv, sn)
      | None => None end
  | QCall0 f => Some ([Icall (NF0 f)], nv, sn)
  | QBinop o a b =>
      (* compileCallInternal([fn, 2, name], [a, b], internal, -1): store v; argument b; argument a; load v; call.
         An argument is a function definition (jump over it; opscope; body; opret) called through
         load v; pushpc; callpc -- unless its body is empty (load v) or a single instruction that owns no
         variable of the lambda scope (push c, or load v; X) *)
      let v := V nv in
      let arg := fun (q : query) (p sn : nat) =>
        match compg q ce None sn (p + 2) 0 (S sn) with       (* the lambda scope has id sn *)
        | Some (cb, nvc, s1) =>
            Some (match cb with
                  | [] => [Iload v]
                  | [x] => if Nat.eqb nvc 0
                           then match x with Iconst c => [Ipush c] | _ => [Iload v; x] end
                           else Ijump (p + 2 + 1 + 1) :: Iscope sn nvc 0 :: [x] ++ [Iret; Iload v; Ipushpc (S p); Icallpc]
                  | _ => Ijump (p + 2 + length cb + 1) :: Iscope sn nvc 0 :: cb ++ [Iret; Iload v; Ipushpc (S p); Icallpc]
                  end, s1)
        | None => None
        end in
      (* scope ids grow: the id of a new scope exceeds the id of the scope being compiled (always true for the
         calls made by compile_raw: cur = 1, sn = 2 initially) *)
      if Nat.ltb cur sn && ce_lt ce sn then
      match arg b (S pc) sn with
      | Some (cb, s1) =>
          match arg a (S pc + length cb) s1 with
          | Some (ca, s2) => Some (Istore v :: cb ++ ca ++ [Iload v; Icall (NF2 o)], S nv, s2)
          | None => None end
      | None => None end
      else None
  | QDef f ps body rest =>
      (* compileFuncDef: jump over the definition; funcs += {f, pc of opscope, argcnt}; a new scope; opscope (lazy);
         the parameters; the body; opret.  Then the rest of the query, in the current scope, with f visible *)
      if Nat.ltb cur sn && ce_lt ce sn then
      let ce' := add_fun ce f (S pc) (length ps) in
      let pre := prelude sn ps in
      match compg body (add_env (fun_env ce') (param_env sn ps)) (tl_body (S pc) ps body) sn (pc + 2 + length pre) (param_slots ps) (S sn) with
      | Some (cb, nvb, s1) =>
          let l := pc + 2 + length pre + length cb + 1 in
          match compg rest ce' tp cur l nv s1 with
          | Some (cr, nv', s2) => Some (Ijump l :: Iscope sn nvb (length ps) :: pre ++ cb ++ Iret :: cr, nv', s2)
          | None => None end
      | None => None end
      else None
  | QCallF f args =>
      match lookup_cf f (length args) (ce_env ce) with
      | Some (CP y) => Some ([Iload y; Icallpc], nv, sn)        (* a filter parameter: load the closure; callpc *)
      | Some (CF p _) =>
          match args with
          | [] => match tail_call tp p with                     (* compileCallPc with no argument: opcall pc *)
                  | Some x => Some ([x], nv, sn)
                  | None => None end
          | _ =>
              (* compileCallInternal(pc, args, internal = false): store v; for the arguments from the last to the
                 first: the argument as a function definition, pushpc; load v; opcall pc *)
              if Nat.ltb cur sn && ce_lt ce sn then
              match comp_args (fun a s' p' => compg a (fun_env ce) None s' (p' + 2) 0 (S s')) args (S pc) sn with
              | Some (cas, _, s2) => Some (Istore (V nv) :: cas ++ [Iload (V nv); Icallf p], S nv, s2)
              | None => None end
              else None
          end
      | _ => None
      end
  | QObject es => comp_object (fun a p n s => compg a ce None cur p n s) (V nv) es pc nv sn
  | QIndexQ t q =>
      (* compileCall("_index", [t, q]) = compileCallInternal(.., internal, indexing = 1):
         store v; expbegin; argument q; expend; argument t; push null; call _index *)
      let v := V nv in
      let arg := fun (q : query) (p sn : nat) =>
        match compg q ce None sn (p + 2) 0 (S sn) with
        | Some (cb, nvc, s1) => Some (arg_code v p sn cb nvc, s1)
        | None => None
        end in
      if negb (keyc_index q) && Nat.ltb cur sn && ce_lt ce sn then
      match arg q (S (S pc)) sn with
      | Some (cq, s1) =>
          match arg t (S pc + length (wrap_exp cq)) s1 with
          | Some (ct, s2) => Some (Istore v :: wrap_exp cq ++ ct ++ [Ipush VNull; Icall NIndex2], S nv, s2)
          | None => None end
      | None => None end
      else None
  | QSlice t a b =>
      (* compileCall("_slice", [t, b, a]): store v; expbegin; argument a (start); argument b (end); expend; argument t;
         push null; call _slice *)
      let v := V nv in
      let arg := fun (q : query) (p sn : nat) =>
        match compg q ce None sn (p + 2) 0 (S sn) with
        | Some (cb, nvc, s1) => Some (arg_code v p sn cb nvc, s1)
        | None => None
        end in
      if negb (keyc_bound a && keyc_bound b) && Nat.ltb cur sn && ce_lt ce sn then
      match arg a (S (S pc)) sn with
      | Some (ca, s1) =>
          match arg b (S (S pc) + length ca) s1 with
          | Some (cb, s2) =>
              match arg t (S (S pc) + length ca + length cb + 1) s2 with
              | Some (ct, s3) =>
                  Some (Istore v :: Iexpbegin :: ca ++ cb ++ Iexpend :: ct ++ [Ipush VNull; Icall NSlice3], S nv, s3)
              | None => None end
          | None => None end
      | None => None end
      else None
  | QCall1 f a =>
      (* compileCallInternal([fn, 1, name], [a], internal, -1): store v; argument a; load v; call *)
      let v := V nv in
      if Nat.ltb cur sn && ce_lt ce sn then
      match compg a ce None sn (S pc + 2) 0 (S sn) with
      | Some (cb, nvc, s1) => Some (Istore v :: arg_code v (S pc) sn cb nvc ++ [Iload v; Icall (NF1 f)], S nv, s1)
      | None => None end
      else None
  | QBindP src p body =>
      (* compileBind with one destructuring pattern: dup; expbegin; source; pattern; expend; body.  (The rewrite of
         expbegin to nop needs a one-instruction pattern after an empty source: a plain $x, which is QBind.)
         A self tail call in the body is outside the fragment (tl_fb) *)
      if negb (is_pvar p) && pat_ok p then
        match compg src ce None cur (pc + 2) nv sn with
        | Some (cs, n1, s1) =>
            let '(cp, bs, n2) := pcomp p cur n1 in
            if names_nodup bs then
              match compg body (add_vars ce bs) (tl_fb tp) cur (pc + 2 + length cs + length cp + 1) n2 s1 with
              | Some (cb, n3, s2) => Some (Idup :: Iexpbegin :: cs ++ cp ++ Iexpend :: cb, n3, s2)
              | None => None end
            else None
        | None => None end
      else None
  end.

(* Compile(): opscope (lazy: final variablecnt), the query, opret *)
Definition compile_raw_g (q : query) : option (list instr) :=
  match compg q ce_empty None mainscope 1 0 2 with
  | Some (c, nv, _) => Some (Iscope mainscope nv 0 :: c ++ [Iret])
  | None => None
  end.

End Tco.
Definition compile_raw : query -> option (list instr) := compile_raw_g false.

(* ---- optimizeCodeOps ---- *)
Definition set_nth (l : list instr) (i : nat) (x : instr) : list instr :=
  firstn i l ++ match skipn i l with [] => [] | _ :: r => x :: r end.

Definition jump_targets (l : list instr) : list nat :=
  flat_map (fun i => match i with
                     | Ifork t | Iforktrybegin t | Ijump t | Ijumpifnot t => [t]
                     | _ => [] end) l.
Definition is_target (tg : list nat) (i : nat) : bool := existsb (Nat.eqb i) tg.

Definition peep_at (tg : list nat) (codes : list instr) (i : nat) : list instr :=
  match nth_error codes i with
  | Some (Ipush _) | Some Idup | Some (Iload _) =>
      if is_target tg (S i) then codes
      else match nth_error codes (S i) with
           | Some Ipop => set_nth (set_nth codes (S i) Inop) i Inop
           | Some (Iconst k) => set_nth (set_nth codes (S i) (Ipush k)) i Inop
           | _ => codes
           end
  | Some (Ijump j) =>
      if Nat.eqb j (S i) then set_nth codes i Inop
      else match nth_error codes j with
           | Some (Ijump j') => set_nth codes i (Ijump j')
           | _ => codes end
  | Some (Ijumpifnot j) =>
      if Nat.eqb j (S i) then set_nth codes i Inop
      else match nth_error codes j with
           | Some (Ijump j') => set_nth codes i (Ijumpifnot j')
           | _ => codes end
  | _ => codes
  end.

(* for i := len-1; i >= 0; i-- *)
Fixpoint peep_loop (tg : list nat) (codes : list instr) (n : nat) : list instr :=
  match n with
  | O => codes
  | S i => peep_loop tg (peep_at tg codes i) i
  end.

Definition peephole_arr (codes : list instr) : list instr :=
  peep_loop (jump_targets codes) codes (length codes).

(* the same pass as a right fold over the instruction list (the Go loop runs i from len-1 down to 0: when
   instruction i is processed, the instructions after it are final, those before it untouched).  This is the
   version the theorems are about; Run.v checks on every sampled program that both versions coincide. *)
Fixpoint peepR (tg : list nat) (call : list instr) (i : nat) (l : list instr) : list instr :=
  match l with
  | [] => []
  | x :: r =>
      let r' := peepR tg call (S i) r in
      let look j := if S i <=? j then nth_error r' (j - S i)
                    else if j =? i then Some x else nth_error call j in
      match x with
      | Ipush _ | Idup | Iload _ =>
          if is_target tg (S i) then x :: r'
          else match r' with
               | Ipop :: r'' => Inop :: Inop :: r''
               | Iconst k :: r'' => Inop :: Ipush k :: r''
               | _ => x :: r'
               end
      | Ijump j =>
          if j =? S i then Inop :: r'
          else match look j with Some (Ijump j') => Ijump j' :: r' | _ => x :: r' end
      | Ijumpifnot j =>
          if j =? S i then Inop :: r'
          else match look j with Some (Ijump j') => Ijumpifnot j' :: r' | _ => x :: r' end
      | _ => x :: r'
      end
  end.

Definition peephole (c : list instr) : list instr := peepR (jump_targets c) c 0 c.

(* ---- optimizeTailRec ---- *)
(* from pc j, following jumps: is the next instruction executed an opret? *)
Fixpoint tr_scan (codes : list instr) (fuel j : nat) : bool :=
  match fuel with
  | O => false
  | S f => match nth_error codes j with
           | Some (Ijump t) => tr_scan codes f t
           | Some Iret => true
           | _ => false
           end
  end.
Fixpoint tr_loop (codes l : list instr) (i : nat) (pcs : list nat) (scs : list (nat * bool)) : list instr :=
  match l with
  | [] => []
  | x :: r =>
      match x with
      | Iscope id nv na =>
          x :: tr_loop codes r (S i) (i :: pcs) (if Nat.eqb na 0 then (i, Nat.eqb nv 0) :: scs else scs)
      | Icallf j =>
          let x' := match pcs with
                    | top :: _ =>
                        if Nat.eqb top j then
                          match find (fun e => Nat.eqb (fst e) j) scs with
                          | Some (_, canjump) =>
                              if tr_scan codes (S (length codes)) (S i)
                              then (if canjump then Ijump (S top) else Icallrec j)
                              else x
                          | None => x
                          end
                        else x
                    | [] => x
                    end in
          x' :: tr_loop codes r (S i) pcs scs
      | Iret => match pcs with
                | [] => x :: r
                | _ :: pcs' => x :: tr_loop codes r (S i) pcs' scs
                end
      | _ => x :: tr_loop codes r (S i) pcs scs
      end
  end.
Definition tailrec (c : list instr) : list instr := tr_loop c c 0 [] [].

Definition compile (q : query) : option (list instr) := option_map (fun c => peephole (tailrec c)) (compile_raw q).
(* the same with optimizeTailRec done by the compiler *)
Definition compile_tco (q : query) : option (list instr) := option_map peephole (compile_raw_g true q).

(* the side conditions of the peephole theorem (Peep.v), as an executable test: no opjumpifnot targets the next
   instruction; the targets of oppushpc / opcall pc / opcallrec are opscope instructions *)
Fixpoint checki (f : nat -> instr -> bool) (l : list instr) (i : nat) : bool :=
  match l with [] => true | x :: r => f i x && checki f r (S i) end.
Definition is_scope (c : list instr) (p : nat) : bool := match nth_error c p with Some (Iscope _ _ _) => true | _ => false end.
Definition side_okb (c : list instr) : bool :=
  checki (fun p x => match x with
                     | Ijumpifnot j => negb (Nat.eqb j (S p))
                     | Ipushpc t | Icallf t | Icallrec t => is_scope c t
                     | _ => true end) c 0.
