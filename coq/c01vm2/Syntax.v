(* C01vm — fragment F of jq: values, errors, syntax.  Definitions only.
   Every compound sub-query is printed in parentheses by the harness (harness/c01vm), so each
   node below corresponds to exactly one Term/Query shape of /repo/query.go. *)
From Coq Require Import List NArith ZArith Bool.
Import ListNotations.

(* JSON values (numbers: integers only; the natives are abstract in the theorems) *)
Inductive jv :=
| VNull | VBool (b : bool) | VNum (z : Z) | VStr (s : list N)
| VArr (l : list jv) | VObj (l : list (list N * jv)).

Definition truthy (v : jv) : bool :=
  match v with VNull | VBool false => false | _ => true end.

(* errors that are values of the error type (execute.go: err) *)
Inductive err0 :=
| EVal (v : jv)          (* ValueError: raised by `error`; try/catch hands the payload to the handler *)
| EMsg (m : list N).     (* any other error; the handler receives the message string *)

Definition errval (e : err0) : jv := match e with EVal v => v | EMsg m => VStr m end.

Definition vname := N.   (* $name *)
Definition lname := N.   (* label name *)
Definition fname := N.   (* function name *)

(* a formal parameter of a function definition: a filter (def f(g): ...) or a value (def f($x): ...) *)
Inductive param := PF (g : fname) | PV (x : vname).

(* native functions reachable from F through opcall *)
Inductive fn0 := F0Error | F0Length.
Inductive binop := OAdd | OSub | OEq | ONe | OLt | OLe | OGt | OGe.

Inductive query :=
| QId
| QConst (c : jv)                       (* literal, incl. constant arrays / objects *)
| QPipe (a b : query)
| QComma (a b : query)
| QEmpty
| QIter (t : query)                     (* t[]  *)
| QIndex (t : query) (k : jv)           (* t[k], t.k  with constant key *)
| QIf (c a b : query)                   (* elif = QIf in the else branch *)
| QAlt (a b : query)                    (* a // b *)
| QTry (a : query) (h : option query)   (* try a catch h ; a? *)
| QArray (q : query)                    (* [q] *)
| QReduce (src : query) (x : vname) (init upd : query)
| QForeach (src : query) (x : vname) (init upd : query) (ext : option query)
| QLabel (l : lname) (body : query)
| QBreak (l : lname)
| QBind (src : query) (x : vname) (body : query)
| QVar (x : vname)
| QCall0 (f : fn0)
| QBinop (o : binop) (a b : query)    (* a o b : the operands are compiled as argument closures *)
| QDef (f : fname) (ps : list param) (body rest : query)   (* def f(ps): body; rest *)
| QCallF (f : fname) (args : list query).                  (* f(args): a user-defined function or a filter parameter *)

(* number of anonymous variables the compiler allocates while compiling a literal
   (compileArray / compileObject call newVariable before folding) *)
Fixpoint lit_vars (c : jv) : nat :=
  match c with
  | VArr [] => 0
  | VArr l => S ((fix go (l : list jv) := match l with [] => 0 | x :: r => lit_vars x + go r end) l)
  | VObj [] => 0
  | VObj l => S ((fix go (l : list (list N * jv)) := match l with [] => 0 | (_, x) :: r => lit_vars x + go r end) l)
  | _ => 0
  end.

Fixpoint lookup {A} (x : N) (l : list (N * A)) : option A :=
  match l with
  | [] => None
  | (y, a) :: r => if N.eqb x y then Some a else lookup x r
  end.
