(* C01vm — fragment F of jq: values, errors, syntax.  Definitions only.
   Every compound sub-query is printed in parentheses by the harness (harness/c01vm), so each
   node below corresponds to exactly one Term/Query shape of /repo/query.go. *)
From Coq Require Import List NArith ZArith Bool.
Import ListNotations.

(* JSON values (numbers: integers only; the natives are abstract in the theorems) *)
Inductive jv :=
| VNull | VBool (b : bool) | VNum (z : Z) | VStr (s : list N)
| VArr (l : list jv) | VObj (l : list (list N * jv)).

Definition truthy (v : jv) : bool :=
  match v with VNull | VBool false => false | _ => true end.

(* errors that are values of the error type (execute.go: err) *)
Inductive err0 :=
| EVal (v : jv)          (* ValueError: raised by `error`; try/catch hands the payload to the handler *)
| EMsg (m : list N).     (* any other error; the handler receives the message string *)

Definition errval (e : err0) : jv := match e with EVal v => v | EMsg m => VStr m end.

Definition vname := N.   (* $name *)
Definition lname := N.   (* label name *)
Definition fname := N.   (* function name *)

(* a formal parameter of a function definition: a filter (def f(g): ...) or a value (def f($x): ...) *)
Inductive param := PF (g : fname) | PV (x : vname).

(* native functions reachable from F through opcall *)
Inductive fn0 := F0Error | F0Length | F0ToString | F0ToJson   (* tostring / tojson: what string interpolation applies *)
  | F0ToHtml | F0ToUri | F0ToCsv | F0ToTsv | F0ToSh | F0ToBase64   (* @html @uri @csv @tsv @sh @base64: _tohtml ... (compileFormat) *)
  | F0Keys | F0Type.                                              (* keys, type: used by builtins written in jq *)
(* natives with one argument (compileCallInternal with one argument): error(msg) *)
Inductive fn1 := F1Error.
Inductive binop := OAdd | OSub | OEq | ONe | OLt | OLe | OGt | OGe.

(* destructuring patterns of `as` (query.go Pattern): $x, [p, ...], {k: p, "k": p, $x, $x: p}.
   `$x` in an object pattern is  k: $x  with k the name of x (compilePattern emits the same code); `$x: p` binds x to the
   field named like x AND destructures it with p (OKeyVar k x p; the harness supplies k = the name).
   Keys computed by a query `(q): p` or by an interpolated string are not in the fragment. *)
Inductive pattern :=
| PVar (x : vname)
| PArr (l : parr)
| PObj (l : pobj)
with parr := ANil | ACons (p : pattern) (r : parr)
with pobj := ONil
  | OKey (k : list N) (p : pattern) (r : pobj)
  | OKeyVar (k : list N) (x : vname) (p : pattern) (r : pobj).

Inductive query :=
| QId
| QConst (c : jv)                       (* literal, incl. constant arrays / objects *)
| QPipe (a b : query)
| QComma (a b : query)
| QEmpty
| QIter (t : query)                     (* t[]  *)
| QIndex (t : query) (k : jv)           (* t[k], t.k  with constant key *)
| QIf (c a b : query)                   (* elif = QIf in the else branch *)
| QAlt (a b : query)                    (* a // b *)
| QTry (a : query) (h : option query)   (* try a catch h ; a? *)
| QArray (q : query)                    (* [q] *)
| QReduce (src : query) (p : pattern) (init upd : query)      (* reduce src as PATTERN (init; upd); $x is PVar x *)
| QForeach (src : query) (p : pattern) (init upd : query) (ext : option query)
| QLabel (l : lname) (body : query)
| QBreak (l : lname)
| QBind (src : query) (x : vname) (body : query)
| QVar (x : vname)
| QCall0 (f : fn0)
| QBinop (o : binop) (a b : query)    (* a o b : the operands are compiled as argument closures *)
| QDef (f : fname) (ps : list param) (body rest : query)   (* def f(ps): body; rest *)
| QCallF (f : fname) (args : list query)                   (* f(args): a user-defined function or a filter parameter *)
| QObject (es : list ((list N + query) * query))
| QBindP (src : query) (p : pattern) (body : query)
| QIndexQ (t q : query)           (* t[q] with a computed index (compileIndex -> _index); a literal number / string index is QIndex *)
| QSlice (t a b : query)
| QCall1 (f : fn1) (a : query).   (* f(a) for a native f with one argument: error(a) *)         (* t[a:b] with at least one computed bound (-> _slice); an absent bound is QConst VNull;
                                     both bounds literal / absent is QIndex with the key {"start": a, "end": b} *)
    (* QObject: {e1, ..., en}: an entry is (key, value); the key is a constant string (inl: `k: v`, `"k": v`, and the
       shorthands `k` = (inl k, .[k]), `$x` = (inl "x", $x)) or a query (inr: `(q): v`, `$x: v` = (inr $x, v)) *)

(* number of anonymous variables the compiler allocates while compiling a literal
   (compileArray / compileObject call newVariable before folding) *)
Fixpoint lit_vars (c : jv) : nat :=
  match c with
  | VArr [] => 0
  | VArr l => S ((fix go (l : list jv) := match l with [] => 0 | x :: r => lit_vars x + go r end) l)
  | VObj [] => 0
  | VObj l => S ((fix go (l : list (list N * jv)) := match l with [] => 0 | (_, x) :: r => lit_vars x + go r end) l)
  | _ => 0
  end.

(* ---- object construction (execute.go opobject; compiler.go compileObject's constant folding) ----
   objects are association lists sorted by key (bytewise string order), one entry per key *)
Fixpoint str_cmp (a b : list N) : comparison :=
  match a, b with
  | [], [] => Eq | [], _ => Lt | _, [] => Gt
  | x :: ra, y :: rb => match N.compare x y with Eq => str_cmp ra rb | c => c end
  end.
Definition str_eqb (a b : list N) : bool := match str_cmp a b with Eq => true | _ => false end.
Fixpoint obj_has (k : list N) (l : list (list N * jv)) : bool :=
  match l with
  | [] => false
  | (k', _) :: r => str_eqb k k' || obj_has k r
  end.
Fixpoint obj_put (k : list N) (v : jv) (l : list (list N * jv)) : list (list N * jv) :=
  match l with
  | [] => [(k, v)]
  | (k', v') :: r => match str_cmp k k' with
                     | Lt => (k, v) :: l
                     | Eq => (k, v) :: r
                     | Gt => (k', v') :: obj_put k v r
                     end
  end.
(* opobject pops the pairs from the last to the first; a key that is not a string is an error
   (objectKeyNotStringError); a key already present is not overwritten (so the LAST pair of the source wins) *)
Fixpoint mk_obj_rev (ps : list (jv * jv)) (m : list (list N * jv)) : jv + err0 :=
  match ps with
  | [] => inl (VObj m)
  | (VStr s, v) :: r => mk_obj_rev r (if obj_has s m then m else obj_put s v m)
  | _ :: _ => inr (EMsg [])
  end.
(* the pairs in source order *)
Definition mk_obj (ps : list (jv * jv)) : jv + err0 := mk_obj_rev (rev ps) [].

Fixpoint lookup {A} (x : N) (l : list (N * A)) : option A :=
  match l with
  | [] => None
  | (y, a) :: r => if N.eqb x y then Some a else lookup x r
  end.
