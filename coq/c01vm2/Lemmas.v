(* C01vm — proof infrastructure: code layout, environments, the statement proved per construct. *)
From Coq Require Import List NArith ZArith Bool Arith Lia.
From Verif Require Import c01vm2.Syntax c01vm2.Code c01vm2.VM c01vm2.Den c01vm2.Compile c01vm2.Mach c01vm2.Gen.
Import ListNotations.

(* ---- environments ---- *)
Section E.
Variable code : list instr.

(* a value variable lives at an address below [lim] and holds the value of the environment *)
Definition valOK (sc : list frame) (vs : list sv) (lim : nat) (y : var) (w : jv) : Prop :=
  exists a, index_of sc y = Some a /\ a < lim /\ nth_error vs a = Some (SV w).
(* a defined function: at pc p there is its opscope, followed by the code of its body compiled in the environment
   that starts at the function's own entry (with no label), and opret; the slots visible in the body belong to
   scopes older than the function's *)
Definition funOK (p : nat) (body : query) (cel : list (BinNums.N * cbind)) : Prop :=
  exists idf nvb cb s0 s1,
    nth_error code p = Some (Iscope idf nvb 0) /\
    comp body {| ce_env := cel; ce_lbls := [] |} idf (p + 1) 0 s0 = Some (cb, nvb, s1) /\
    (forall i x, nth_error (cb ++ [Iret]) i = Some x -> nth_error code (p + 1 + i) = Some x) /\
    ce_lt {| ce_env := cel; ce_lbls := [] |} idf = true.

(* the compile-time environment and the semantic environment are parallel lists *)
Fixpoint envOKl (sc : list frame) (vs : list sv) (lim : nat) (cel : list (BinNums.N * cbind)) (rho : venv) : Prop :=
  match cel, rho with
  | [], [] => True
  | (x, CV y) :: cr, (x', BV w) :: rr => x = x' /\ valOK sc vs lim y w /\ envOKl sc vs lim cr rr
  | (f, CF p) :: cr, (f', BF body) :: rr => f = f' /\ funOK p body cel /\ envOKl sc vs lim cr rr
  | _, _ => False
  end.

Definition envOK (sc : list frame) (ce : cenv) (rho : venv) (vs : list sv) (n0 lim : nat) : Prop :=
  envOKl sc vs lim (ce_env ce) rho /\
  (forall l y, lookup l (ce_lbls ce) = Some y ->
     exists a id, index_of sc y = Some a /\ a < lim /\ nth_error vs a = Some (SLbl id) /\ id < n0).

Lemma envOKl_var : forall sc vs lim cel rho x y, envOKl sc vs lim cel rho -> lookup_cv x cel = Some y ->
  exists a w, index_of sc y = Some a /\ a < lim /\ lookup_v x rho = Some w /\ nth_error vs a = Some (SV w).
Proof.
  induction cel as [|[z [k|p]] cr IH]; intros rho x y H Hl; simpl in *; [discriminate| |].
  - destruct rho as [|[z' [w|b]] rr]; try contradiction. destruct H as (-> & (a & Ha & Hlt & Hn) & Hr). simpl.
    destruct (N.eqb x z'); [inversion Hl; subst; eauto 8|eauto].
  - destruct rho as [|[z' [w|b]] rr]; try contradiction. destruct H as (-> & _ & Hr). simpl. eauto.
Qed.
Lemma envOK_var : forall sc ce rho vs n0 lim x y, envOK sc ce rho vs n0 lim -> lookup_cv x (ce_env ce) = Some y ->
  exists a w, index_of sc y = Some a /\ a < lim /\ lookup_v x rho = Some w /\ nth_error vs a = Some (SV w).
Proof. intros sc ce rho vs n0 lim x y [H _]. eapply envOKl_var; eauto. Qed.

(* a visible function: its body, its own environment (a suffix of both lists) *)
Lemma envOKl_fun : forall sc vs lim cel rho f p, envOKl sc vs lim cel rho -> lookup_cf f cel = Some p ->
  exists body cel' rho' pre, lookup_f f rho = Some (body, rho') /\ funOK p body cel' /\ envOKl sc vs lim cel' rho' /\
                             cel = pre ++ cel'.
Proof.
  induction cel as [|[z [k|q]] cr IH]; intros rho f p H Hl; simpl in *; [discriminate| |].
  - destruct rho as [|[z' [w|b]] rr]; try contradiction. destruct H as (-> & _ & Hr). simpl.
    destruct (IH _ _ _ Hr Hl) as (body & cel' & rho' & pre & H1 & H2 & H3 & ->). exists body, cel', rho', ((z', CV k) :: pre). auto.
  - destruct rho as [|[z' [w|b]] rr]; try contradiction. pose proof H as (-> & Hf & Hr). simpl.
    destruct (N.eqb f z').
    + inversion Hl; subst. exists b, ((z', CF p) :: cr), ((z', BF b) :: rr), []. simpl. auto.
    + destruct (IH _ _ _ Hr Hl) as (body & cel' & rho' & pre & H1 & H2 & H3 & ->). exists body, cel', rho', ((z', CF q) :: pre). auto.
Qed.

Lemma envOKl_kept_lt : forall sc vs lim cel rho x y k, envOKl sc vs lim cel rho -> In (x, CV y) cel -> index_of sc y = Some k -> k < lim.
Proof.
  induction cel as [|[z [k0|p]] cr IH]; intros rho x y k H Hin Hi; simpl in *; [contradiction| |].
  - destruct rho as [|[z' [w|b]] rr]; try contradiction. destruct H as (-> & (a & Ha & Hlt & Hn) & Hr).
    destruct Hin as [E|Hin]; [inversion E; subst; congruence|eauto].
  - destruct rho as [|[z' [w|b]] rr]; try contradiction. destruct H as (-> & _ & Hr).
    destruct Hin as [E|Hin]; [discriminate|eauto].
Qed.
Lemma kept_lt : forall sc ce rho vs n0 lim k, envOK sc ce rho vs n0 lim -> kept sc ce k -> k < lim.
Proof.
  intros sc ce rho vs n0 lim k [Hv Hl] [(x & y & Hx & Hi)|(l & y & Hx & Hi)].
  - eapply envOKl_kept_lt; eauto.
  - destruct (Hl _ _ Hx) as (a & w & Ha & Hlt & _). congruence.
Qed.

Lemma envOKl_same : forall sc vs vs' lim cel rho, envOKl sc vs lim cel rho ->
  (forall x y k, In (x, CV y) cel -> index_of sc y = Some k -> nth_error vs k = nth_error vs' k) -> envOKl sc vs' lim cel rho.
Proof.
  induction cel as [|[z [k0|p]] cr IH]; intros rho H Hs; simpl in *; auto.
  - destruct rho as [|[z' [w|b]] rr]; try contradiction. destruct H as (-> & (a & Ha & Hlt & Hn) & Hr).
    split; [auto|]. split; [exists a; rewrite <- (Hs z' k0 a); auto|]. apply IH; auto. intros; eapply Hs; eauto.
  - destruct rho as [|[z' [w|b]] rr]; try contradiction. destruct H as (-> & Hf & Hr).
    split; [auto|]. split; [auto|]. apply IH; auto. intros; eapply Hs; eauto.
Qed.
Lemma envOK_same : forall sc ce rho vs vs' n0 lim,
  envOK sc ce rho vs n0 lim -> (forall k, kept sc ce k -> nth_error vs k = nth_error vs' k) -> envOK sc ce rho vs' n0 lim.
Proof.
  intros sc ce rho vs vs' n0 lim [Hv Hl] H. split.
  - eapply envOKl_same; eauto. intros x y k Hin Hi. apply H. left; eauto.
  - intros l y Hx. destruct (Hl _ _ Hx) as (a & id & Ha & Hk & Hn & Hid). exists a, id. repeat split; auto.
    rewrite <- H; auto. right; eauto.
Qed.

Lemma envOK_chg : forall sc ce rho vs vs' n0 lim (P : nat -> Prop),
  envOK sc ce rho vs n0 lim -> chg P vs vs' -> (forall i, P i -> lim <= i) -> envOK sc ce rho vs' n0 lim.
Proof.
  intros sc ce rho vs vs' n0 lim P H [_ C] HP. eapply envOK_same; eauto.
  intros k Hk. apply C. intro Hp. apply HP in Hp. pose proof (kept_lt _ _ _ _ _ _ _ H Hk). lia.
Qed.

Lemma envOK_keep : forall (K : nat -> Prop) sc ce rho vs vs' n0 lim,
  envOK sc ce rho vs n0 lim -> keepX K vs vs' -> (forall i, kept sc ce i -> K i) -> envOK sc ce rho vs' n0 lim.
Proof. intros K sc ce rho vs vs' n0 lim H [_ C] HK. eapply envOK_same; eauto. Qed.

Lemma envOKl_lim : forall sc vs lim lim' cel rho, envOKl sc vs lim cel rho -> lim <= lim' -> envOKl sc vs lim' cel rho.
Proof.
  induction cel as [|[z [k0|p]] cr IH]; intros rho H Hle; simpl in *; auto.
  - destruct rho as [|[z' [w|b]] rr]; try contradiction. destruct H as (-> & (a & Ha & Hlt & Hn) & Hr).
    split; [auto|]. split; [exists a; repeat split; auto; lia|auto].
  - destruct rho as [|[z' [w|b]] rr]; try contradiction. destruct H as (-> & Hf & Hr). auto.
Qed.
Lemma envOK_lim : forall sc ce rho vs n0 lim lim', envOK sc ce rho vs n0 lim -> lim <= lim' -> envOK sc ce rho vs n0 lim'.
Proof.
  intros sc ce rho vs n0 lim lim' [Hv Hl] H. split; [eapply envOKl_lim; eauto|]. intros a k Hx.
  destruct (Hl _ _ Hx) as (b & w & ? & ? & ? & ?). exists b, w. repeat split; auto. lia.
Qed.

Lemma envOK_n0 : forall sc ce rho vs n0 n0' lim, envOK sc ce rho vs n0 lim -> n0 <= n0' -> envOK sc ce rho vs n0' lim.
Proof.
  intros sc ce rho vs n0 n0' lim [Hv Hl] H. split; auto. intros a k Hx.
  destruct (Hl _ _ Hx) as (b & id & ? & ? & ? & ?). exists b, id. repeat split; auto. lia.
Qed.

Lemma envOK_lblOK : forall sc ce rho vs n0 lim, envOK sc ce rho vs n0 lim -> lblOK sc ce vs n0.
Proof. intros sc ce rho vs n0 lim [_ Hl] l k Hx. destruct (Hl _ _ Hx) as (a & id & ? & ? & ? & ?). eauto. Qed.

Lemma envOK_add_var : forall sc ce rho vs n0 lim x y a w,
  envOK sc ce rho vs n0 lim -> index_of sc y = Some a -> a < lim -> nth_error vs a = Some (SV w) ->
  envOK sc (add_var ce x y) ((x, BV w) :: rho) vs n0 lim.
Proof.
  intros sc ce rho vs n0 lim x y a w [Hv Hl] Hi Hk Hn. split; simpl; auto.
  split; [auto|]. split; [exists a; auto|auto].
Qed.

Lemma envOK_add_lbl : forall sc ce rho vs n0 lim l y a id,
  envOK sc ce rho vs n0 lim -> index_of sc y = Some a -> a < lim -> nth_error vs a = Some (SLbl id) -> id < n0 ->
  envOK sc (add_lbl ce l y) rho vs n0 lim.
Proof.
  intros sc ce rho vs n0 lim l y a id [Hv Hl] Hi Hk Hn Hid. split; simpl; auto.
  intros z j. destruct (N.eqb z l); [|apply Hl]. intros E. inversion E; subst. exists a, id. auto.
Qed.

(* a function definition: the new entry describes the code just emitted *)
Lemma envOK_add_fun : forall sc ce rho vs n0 lim f p body,
  envOK sc ce rho vs n0 lim -> funOK p body ((f, CF p) :: ce_env ce) ->
  envOK sc (add_fun ce f p) ((f, BF body) :: rho) vs n0 lim.
Proof. intros sc ce rho vs n0 lim f p body [Hv Hl] Hf. split; simpl; auto. Qed.

Lemma kept_add_var : forall sc ce x y a i, index_of sc y = Some a -> kept sc (add_var ce x y) i -> i = a \/ kept sc ce i.
Proof.
  intros sc ce x y a i Ha [(z & w & Hz & Hi)|(l & w & Hl & Hi)]; simpl in *.
  - destruct Hz as [E|Hz]; [inversion E; subst; left; congruence|right; left; eauto].
  - right; right; eauto.
Qed.
Lemma kept_add_lbl : forall sc ce x y a i, index_of sc y = Some a -> kept sc (add_lbl ce x y) i -> i = a \/ kept sc ce i.
Proof.
  intros sc ce x y a i Ha [(z & w & Hz & Hi)|(l & w & Hl & Hi)]; simpl in *.
  - right; left; eauto.
  - destruct (N.eqb l x); [inversion Hl; subst; left; congruence|right; right; eauto].
Qed.
Lemma kept_add_fun : forall sc ce f p i, kept sc (add_fun ce f p) i -> kept sc ce i.
Proof.
  intros sc ce f p i [(z & w & Hz & Hi)|(l & w & Hl & Hi)]; simpl in *.
  - destruct Hz as [E|Hz]; [discriminate|left; eauto].
  - right; eauto.
Qed.
End E.
Arguments envOKl_var {code}.
Arguments envOK_var {code}.
Arguments envOKl_fun {code}.
Arguments envOKl_kept_lt {code}.
Arguments kept_lt {code}.
Arguments envOKl_same {code}.
Arguments envOK_same {code}.
Arguments envOK_chg {code}.
Arguments envOK_keep {code}.
Arguments envOKl_lim {code}.
Arguments envOK_lim {code}.
Arguments envOK_n0 {code}.
Arguments envOK_lblOK {code}.
Arguments envOK_add_var {code}.
Arguments envOK_add_lbl {code}.
Arguments envOK_add_fun {code}.

Section L.
Variable nt : natives.
Variable code : list instr.

Notation steps := (steps nt code).
Notation G2 := (G2 nt code).
Notation G c ws T := (Gen.G2 nt code c ws T T).
Notation Tend := (Tend nt code).
Notation at_ := (at_ code).
Notation envOK := (envOK code).

Definition code_at (pc : nat) (cq : list instr) : Prop :=
  forall i x, nth_error cq i = Some x -> nth_error code (pc + i) = Some x.

Lemma code_at_app : forall pc a b, code_at pc (a ++ b) -> code_at pc a /\ code_at (pc + length a) b.
Proof.
  intros pc a b H. split; intros i x Hi.
  - apply H. rewrite nth_error_app1; auto. apply nth_error_Some. congruence.
  - replace (pc + length a + i) with (pc + (length a + i)) by lia. apply H.
    rewrite nth_error_app2 by lia. replace (length a + i - length a) with i by lia. auto.
Qed.
Lemma code_at_cons : forall pc i r, code_at pc (i :: r) -> at_ pc i /\ code_at (S pc) r.
Proof.
  intros pc i r H. split.
  - unfold Mach.at_. replace pc with (pc + 0) by lia. apply H. reflexivity.
  - intros j x Hj. replace (S pc + j) with (pc + S j) by lia. apply H. auto.
Qed.

(* a context for code of the frame on top of sc: own variables at addresses [lo,hi), entered at offset o *)
Definition ctx_of (sc : list frame) (pc' : nat) (st : list sv) (fk : list fork) (lo hi o ko : nat) (K K0 : nat -> Prop)
  (ce : cenv) (n0 t : nat) : gctx :=
  {| g_sc := sc; g_pc := pc'; g_st := st; g_base := fk; g_own := fun i => lo <= i < hi \/ o <= i; g_keep := K;
     g_keep0 := K0; g_ce := ce; g_n0 := n0; g_off := o; g_koff := ko; g_ctr := t |}.

(* P is stable under the generator's own writes and under a continuation that preserves the slots that are
   kept even after the generator is over *)
Definition stable (c : gctx) (P : list sv -> nat -> gx -> Prop) : Prop :=
  (forall a b m g m' g', P a m g -> chg (g_own c) a b -> cle m g m' g' -> P b m' g') /\
  (forall a b m g m' g', P a m g -> keepK0 c a b -> cle m g m' g' -> P b m' g').

(* the frame on top of sc is an activation of the scope being executed (id cur) with offset base *)
Definition frameOK (sc : list frame) (cur base : nat) : Prop :=
  exists rpc stamp save outer r, sc = Frame cur base rpc stamp save outer :: r.
Lemma frameOK_cur : forall sc cur base, frameOK sc cur base -> forall k, index_of sc (cur, k) = Some (base + k).
Proof. intros sc cur base (rpc & stamp & save & outer & r & ->) k. simpl. rewrite Nat.eqb_refl. reflexivity. Qed.
Lemma frameOK_ne : forall sc cur base, frameOK sc cur base -> sc <> [].
Proof. intros sc cur base (rpc & stamp & save & outer & r & ->). discriminate. Qed.

(* the chain seen from a new frame of scope id: opscope links it to the frame the call captured, or to that
   frame's outer frame when it is an activation of the same scope *)
Lemma index_of_outer : forall sc id y, fst y <> id -> index_of (outer_of sc id sc) y = index_of sc y.
Proof.
  intros [|[i o p s sv out] r] id y H; simpl; [reflexivity|].
  destruct (Nat.eqb_spec i id) as [->|Hne]; [|reflexivity].
  destruct (Nat.eqb_spec id (fst y)); [congruence|]. destruct out; reflexivity.
Qed.
Definition pushed (sc : list frame) (id : nat) (sc' : list frame) : Prop :=
  exists off rpc stamp save tl, sc' = Frame id off rpc stamp save (outer_of sc id sc) :: tl.
Lemma index_of_pushed : forall sc id sc' y, pushed sc id sc' -> fst y <> id -> index_of sc' y = index_of sc y.
Proof.
  intros sc id sc' y (off & rpc & stamp & save & tl & ->) H. simpl.
  destruct (Nat.eqb_spec id (fst y)); [congruence|].
  rewrite <- (index_of_outer sc id y H). destruct (outer_of sc id sc); reflexivity.
Qed.
Lemma outer_of_self : forall sc cur base sn, frameOK sc cur base -> cur <> sn -> outer_of sc sn sc = sc.
Proof.
  intros sc cur base sn (rpc & stamp & save & outer & r & ->) Hne. simpl. destruct (Nat.eqb_spec cur sn); [congruence|reflexivity].
Qed.

Lemma ce_lt_var : forall ce sn x y, ce_lt ce sn = true -> In (x, CV y) (ce_env ce) -> fst y < sn.
Proof.
  intros ce sn x y H Hin. unfold ce_lt in H. apply andb_true_iff in H. destruct H as [H _].
  rewrite forallb_forall in H. specialize (H _ Hin). simpl in H. apply Nat.ltb_lt. exact H.
Qed.
Lemma lookup_In : forall {A} (l : list (BinNums.N * A)) x a, lookup x l = Some a -> exists x', In (x', a) l.
Proof.
  induction l as [|[z b] r IH]; intros x a H; simpl in H; [discriminate|].
  destruct (N.eqb x z); [inversion H; subst; exists z; left; auto|]. destruct (IH _ _ H) as (x' & Hx). exists x'. right; auto.
Qed.
Lemma ce_lt_lbl : forall ce sn l y, ce_lt ce sn = true -> lookup l (ce_lbls ce) = Some y -> fst y < sn.
Proof.
  intros ce sn l y H Hl. unfold ce_lt in H. apply andb_true_iff in H. destruct H as [_ H].
  rewrite forallb_forall in H. destruct (lookup_In _ _ _ Hl) as (l' & Hin). specialize (H _ Hin). simpl in H. apply Nat.ltb_lt. exact H.
Qed.
Lemma lookup_cv_In : forall cel x y, lookup_cv x cel = Some y -> exists x', In (x', CV y) cel.
Proof.
  induction cel as [|[z [k|p]] r IH]; intros x y H; simpl in H; [discriminate| |].
  - destruct (N.eqb x z); [inversion H; subst; exists z; left; auto|]. destruct (IH _ _ H) as (x' & Hx). exists x'. right; auto.
  - destruct (IH _ _ H) as (x' & Hx). exists x'. right; auto.
Qed.

Lemma envOKl_pushed : forall sc id sc' vs vs' lim cel rho, pushed sc id sc' ->
  (forall x y, In (x, CV y) cel -> fst y <> id) -> (forall a, a < lim -> nth_error vs' a = nth_error vs a) ->
  envOKl code sc vs lim cel rho -> envOKl code sc' vs' lim cel rho.
Proof.
  intros sc id sc' vs vs' lim cel. induction cel as [|[z [k0|p]] cr IH]; intros rho Hp Hne Hn H; simpl in *; auto.
  - destruct rho as [|[z' [w|b]] rr]; try contradiction. destruct H as (-> & (a & Ha & Hlt & Hnth) & Hr).
    split; [auto|]. split.
    + exists a. rewrite (index_of_pushed _ _ _ _ Hp (Hne z' k0 (or_introl eq_refl))). rewrite Hn by auto. auto.
    + apply IH; auto. intros; eapply Hne; right; eauto.
  - destruct rho as [|[z' [w|b]] rr]; try contradiction. destruct H as (-> & Hf & Hr).
    split; [auto|]. split; [auto|]. apply IH; auto. intros; eapply Hne; right; eauto.
Qed.
Lemma envOK_pushed : forall sc id sc' ce rho vs vs' n0 lim, pushed sc id sc' -> ce_lt ce id = true ->
  envOK sc ce rho vs n0 lim -> (forall a, a < lim -> nth_error vs' a = nth_error vs a) ->
  envOK sc' ce rho vs' n0 lim.
Proof.
  intros sc id sc' ce rho vs vs' n0 lim Hp Hlt [Hv Hl] Hn. split.
  - eapply envOKl_pushed; eauto. intros x y Hin. pose proof (ce_lt_var _ _ _ _ Hlt Hin). lia.
  - intros l y Hx. destruct (Hl _ _ Hx) as (a & id' & Ha & Hk & Hnth & Hid). exists a, id'.
    pose proof (ce_lt_lbl _ _ _ _ Hlt Hx).
    split; [rewrite (index_of_pushed _ _ _ _ Hp); [exact Ha|lia]|]. split; [auto|]. split; [rewrite Hn; auto|auto].
Qed.
Lemma kept_pushed : forall sc id sc' ce i, pushed sc id sc' -> ce_lt ce id = true -> kept sc' ce i -> kept sc ce i.
Proof.
  intros sc id sc' ce i Hp Hlt [(x & y & Hx & Hi)|(l & y & Hx & Hi)].
  - pose proof (ce_lt_var _ _ _ _ Hlt Hx). rewrite (index_of_pushed _ _ _ _ Hp) in Hi by lia. left. eauto.
  - pose proof (ce_lt_lbl _ _ _ _ Hlt Hx). rewrite (index_of_pushed _ _ _ _ Hp) in Hi by lia. right. eauto.
Qed.
Lemma encR_pushed : forall sc id sc' ce vs fin e, pushed sc id sc' -> ce_lt ce id = true ->
  encR sc' ce vs fin e -> encR sc ce vs fin e.
Proof.
  intros sc id sc' ce vs fin e Hp Hlt HE. destruct fin as [[e0|l|]|]; cbn [encR] in *; auto.
  destruct HE as (y & k & id' & Hk & Hi & Hn & E). exists y, k, id'.
  pose proof (ce_lt_lbl _ _ _ _ Hlt Hk). rewrite (index_of_pushed _ _ _ _ Hp) in Hi by lia. auto.
Qed.

Definition Impl (fu : nat) (q : query) : Prop :=
  forall sc cur base, frameOK sc cur base ->
  forall ce pc nv sn cq nv' sn', comp q ce cur pc nv sn = Some (cq, nv', sn') -> code_at pc cq ->
  forall rho v st fk vs n n0 o ko g (K K0 : nat -> Prop) (P : list sv -> nat -> gx -> Prop),
    envOK sc ce rho vs n0 (base + nv) -> n0 <= n -> base + nv' <= ko -> ko <= o -> o <= length vs ->
    (forall i, base + nv <= i < base + nv' -> K i) -> (forall i, kept sc ce i -> K i) -> (forall i, K0 i -> K i) ->
    let c := ctx_of sc (pc + length cq) st fk (base + nv) (base + nv') o ko K K0 ce n0 (ctr g) in
    stable c P -> P vs n g ->
    G c (fst (den1 nt (call_of nt fu) q rho v)) (Tend c (snd (den1 nt (call_of nt fu) q rho v)) P) (N sc pc (SV v :: st) fk vs n o g).

(* one output, no new fork *)
Lemma G_single : forall c w s vs3 n3 o3 g3 (P : list sv -> nat -> gx -> Prop),
  steps s (N (g_sc c) (g_pc c) (SV w :: g_st c) (g_base c) vs3 n3 o3 g3) -> chg (g_own c) (vars_of s) vs3 ->
  cle (lbl_of s) (gx_of s) n3 g3 -> g_off c <= o3 <= length vs3 ->
  (forall vs2 n2 g2, keepK0 c vs3 vs2 -> cle n3 g3 n2 g2 -> P vs2 n2 g2) ->
  G c [w] (Tend c None P) s.
Proof.
  intros c w s vs3 n3 o3 g3 P St Ch Le Ho HP. simpl. exists [], vs3, n3, o3, g3. simpl.
  split; [auto|]. split; [auto|]. split; [auto|]. split; [auto|]. split; [reflexivity|]. intros vs2 n2 g2 K L.
  exists None, vs2, n2, g2. split; [constructor|]. split; [apply chg_refl|]. split; [apply cle_refl|]. split; [reflexivity|auto].
Qed.

(* no output: the enumeration ends *)
Lemma G_end : forall c s e vs3 n3 g3 fin (P : list sv -> nat -> gx -> Prop),
  steps s (B e (g_base c) vs3 n3 g3) -> chg (g_own c) (vars_of s) vs3 -> cle (lbl_of s) (gx_of s) n3 g3 ->
  encR (g_sc c) (g_ce c) vs3 fin e -> P vs3 n3 g3 ->
  G c [] (Tend c fin P) s.
Proof.
  intros c s e vs3 n3 g3 fin P St Ch Le HE HP. simpl. exists s.
  split; [constructor|]. split; [apply chg_refl|]. split; [apply cle_refl|].
  apply Tend_of. exists e, vs3, n3, g3. auto.
Qed.

Lemma G_cons : forall c w ws (T Tw : state -> Prop) s f0 fk0 vs3 n3 o3 g3,
  steps s (N (g_sc c) (g_pc c) (SV w :: g_st c) ((f0 :: fk0) ++ g_base c) vs3 n3 o3 g3) ->
  chg (g_own c) (vars_of s) vs3 -> cle (lbl_of s) (gx_of s) n3 g3 ->
  g_off c <= o3 <= length vs3 -> Forall (fun f => g_ctr c <= f_ctr f) (f0 :: fk0) ->
  (forall vs2 n2 g2, keepS c o3 vs3 vs2 -> cle n3 g3 n2 g2 ->
     G2 c ws T Tw (B None ((f0 :: fk0) ++ g_base c) vs2 n2 g2) /\
     (forall x, okerr (g_n0 c) x -> exists vs4 n4 g4,
         steps (B (Some x) ((f0 :: fk0) ++ g_base c) vs2 n2 g2) (B (Some x) (g_base c) vs4 n4 g4) /\
         chg (g_own c) vs2 vs4 /\ cle n2 g2 n4 g4)) ->
  G2 c (w :: ws) T Tw s.
Proof. intros. simpl. exists (f0 :: fk0), vs3, n3, o3, g3. split; [auto|]. split; [auto|]. split; [auto|]. split; auto. Qed.

(* change of the exit pc by silent steps that keep the state *)
Lemma G_exit : forall sc pc1 pc2 st fk (O K K0 : nat -> Prop) ce n0 o ko t (T Tw : state -> Prop),
  (forall w f vs n o' g, steps (N sc pc1 (SV w :: st) f vs n o' g) (N sc pc2 (SV w :: st) f vs n o' g)) ->
  forall ws s,
  G2 {| g_sc := sc; g_pc := pc1; g_st := st; g_base := fk; g_own := O; g_keep := K; g_keep0 := K0; g_ce := ce; g_n0 := n0; g_off := o; g_koff := ko; g_ctr := t |} ws T Tw s ->
  G2 {| g_sc := sc; g_pc := pc2; g_st := st; g_base := fk; g_own := O; g_keep := K; g_keep0 := K0; g_ce := ce; g_n0 := n0; g_off := o; g_koff := ko; g_ctr := t |} ws T Tw s.
Proof.
  intros sc pc1 pc2 st fk O K K0 ce n0 o ko t T Tw Hs. induction ws; simpl; intros s HG; auto.
  destruct HG as (fk' & vs3 & n3 & o3 & g3 & St & Ch & Le & Ho & R). exists fk', vs3, n3, o3, g3.
  split; [eapply steps_trans; [exact St|apply Hs]|]. split; [auto|]. split; [auto|]. split; [auto|].
  destruct fk' as [|f0 fk0]; [exact R|].
  intros vs2 n2 g2 Kp L2. destruct (R vs2 n2 g2 Kp L2) as [R1 R2]. split; auto.
Qed.

(* weakening: larger own set, same keep set, smaller n0 *)
Lemma G2_sub : forall cb c (T T' Tw Tw' : state -> Prop),
  g_sc cb = g_sc c -> g_pc cb = g_pc c -> g_st cb = g_st c -> g_base cb = g_base c ->
  (forall i, g_own cb i -> g_own c i) -> (forall o a b, keepS c o a b -> keepS cb o a b) -> (forall a b, keepK0 c a b -> keepK0 cb a b) -> g_n0 c <= g_n0 cb ->
  g_off c <= g_off cb -> g_ctr c <= g_ctr cb ->
  (forall s, T s -> T' s) -> (forall s, Tw s -> Tw' s) ->
  forall ws s, G2 cb ws T Tw s -> G2 c ws T' Tw' s.
Proof.
  intros cb c T T' Tw Tw' H0 H1 H2 H3 H4 H5 H5' H6 H8 H9 H7 H7' ws s HG.
  refine (G_ctx nt code cb c [] (fun _ _ _ => True) T Tw T' Tw' H0 H1 H2 H3 H4 H5 (fun _ a b H => H5' a b H) H6 H8 H9 (Forall_nil _) _ _ _ _ _ ws s I HG); auto.
  intros x vs n g _ _. exists vs, n, g. split; [constructor|]. split; [apply chg_refl|apply cle_refl].
Qed.
Lemma G_sub : forall cb c (T T' : state -> Prop),
  g_sc cb = g_sc c -> g_pc cb = g_pc c -> g_st cb = g_st c -> g_base cb = g_base c ->
  (forall i, g_own cb i -> g_own c i) -> (forall o a b, keepS c o a b -> keepS cb o a b) -> (forall a b, keepK0 c a b -> keepK0 cb a b) -> g_n0 c <= g_n0 cb ->
  g_off c <= g_off cb -> g_ctr c <= g_ctr cb ->
  (forall s, T s -> T' s) ->
  forall ws s, G cb ws T s -> G c ws T' s.
Proof. intros. eapply G2_sub; eauto. Qed.

Lemma seq_nil_r : forall r, seq r ([], None) = r.
Proof. intros [ws [x|]]; simpl; auto. rewrite app_nil_r. auto. Qed.

End L.

(* ---- induction over queries (option query arguments included) ---- *)
Section QInd.
Variable P : query -> Prop.
Definition Popt (h : option query) : Prop := match h with Some h' => P h' | None => True end.
Hypothesis Hid : P QId.
Hypothesis Hconst : forall c, P (QConst c).
Hypothesis Hpipe : forall a b, P a -> P b -> P (QPipe a b).
Hypothesis Hcomma : forall a b, P a -> P b -> P (QComma a b).
Hypothesis Hempty : P QEmpty.
Hypothesis Hiter : forall t, P t -> P (QIter t).
Hypothesis Hindex : forall t k, P t -> P (QIndex t k).
Hypothesis Hif : forall c a b, P c -> P a -> P b -> P (QIf c a b).
Hypothesis Halt : forall a b, P a -> P b -> P (QAlt a b).
Hypothesis Htry : forall a h, P a -> Popt h -> P (QTry a h).
Hypothesis Harr : forall q, P q -> P (QArray q).
Hypothesis Hreduce : forall s x i u, P s -> P i -> P u -> P (QReduce s x i u).
Hypothesis Hforeach : forall s x i u e, P s -> P i -> P u -> Popt e -> P (QForeach s x i u e).
Hypothesis Hlabel : forall l b, P b -> P (QLabel l b).
Hypothesis Hbreak : forall l, P (QBreak l).
Hypothesis Hbind : forall s x b, P s -> P b -> P (QBind s x b).
Hypothesis Hvar : forall x, P (QVar x).
Hypothesis Hcall0 : forall f, P (QCall0 f).
Hypothesis Hbinop : forall o a b, P a -> P b -> P (QBinop o a b).
Hypothesis Hdef : forall f ps body rest, P body -> P rest -> P (QDef f ps body rest).
Hypothesis Hcallf : forall f args, Forall P args -> P (QCallF f args).

Fixpoint query_ind' (q : query) : P q :=
  match q with
  | QId => Hid
  | QConst c => Hconst c
  | QPipe a b => Hpipe a b (query_ind' a) (query_ind' b)
  | QComma a b => Hcomma a b (query_ind' a) (query_ind' b)
  | QEmpty => Hempty
  | QIter t => Hiter t (query_ind' t)
  | QIndex t k => Hindex t k (query_ind' t)
  | QIf c a b => Hif c a b (query_ind' c) (query_ind' a) (query_ind' b)
  | QAlt a b => Halt a b (query_ind' a) (query_ind' b)
  | QTry a h => Htry a h (query_ind' a)
      (match h as o return Popt o with Some h' => query_ind' h' | None => I end)
  | QArray q => Harr q (query_ind' q)
  | QReduce s x i u => Hreduce s x i u (query_ind' s) (query_ind' i) (query_ind' u)
  | QForeach s x i u e => Hforeach s x i u e (query_ind' s) (query_ind' i) (query_ind' u)
      (match e as o return Popt o with Some e' => query_ind' e' | None => I end)
  | QLabel l b => Hlabel l b (query_ind' b)
  | QBreak l => Hbreak l
  | QBind s x b => Hbind s x b (query_ind' s) (query_ind' b)
  | QVar x => Hvar x
  | QCall0 f => Hcall0 f
  | QBinop o a b => Hbinop o a b (query_ind' a) (query_ind' b)
  | QDef f ps body rest => Hdef f ps body rest (query_ind' body) (query_ind' rest)
  | QCallF f args => Hcallf f args
      ((fix go (l : list query) : Forall P l :=
          match l with [] => Forall_nil P | x :: r => Forall_cons x (query_ind' x) (go r) end) args)
  end.
End QInd.

Ltac dcomp :=
  repeat match goal with
  | H : match comp ?q ?ce ?cur ?pc ?nv ?sn with _ => _ end = Some _ |- _ =>
      let E := fresh "Ec" in destruct (comp q ce cur pc nv sn) as [[[? ?] ?]|] eqn:E; [|discriminate H]
  | H : match lookup ?x ?l with _ => _ end = Some _ |- _ =>
      let E := fresh "El" in destruct (lookup x l) eqn:E; [|discriminate H]
  | H : match lookup_cv ?x ?l with _ => _ end = Some _ |- _ =>
      let E := fresh "El" in destruct (lookup_cv x l) eqn:E; [|discriminate H]
  end.


Ltac qind q :=
  induction q as [ | c | a b IHa IHb | a b IHa IHb | | t IHt | t k IHt | c a b IHc IHa IHb | a b IHa IHb
                 | a h IHa IHh | q IHq | s x i u IHs IHi IHu | s x i u e IHs IHi IHu IHe | l b IHb | l
                 | s x b IHs IHb | x | f | o a b IHa IHb | f ps body rest IHbody IHrest | f args IHargs ] using query_ind'.

Lemma comp_mono : forall q ce cur pc nv sn cq nv' sn', comp q ce cur pc nv sn = Some (cq, nv', sn') -> nv <= nv' /\ sn <= sn'.
Proof.
  qind q; intros ce cur pc nv sn cq nv' sn' Hc; simpl in Hc; dcomp;
    repeat match goal with
    | IH : forall ce cur pc nv sn cq nv' sn', comp ?q ce cur pc nv sn = Some (cq, nv', sn') -> _,
      E : comp ?q _ _ _ _ _ = Some _ |- _ => apply IH in E
    end;
    try (inversion Hc; subst; lia).
  - (* if *) destruct (is_const1 l0), (is_const1 l1); inversion Hc; subst; lia.
  - (* try *) destruct h as [h|]; simpl in *; dcomp; inversion Hc; subst; clear Hc.
    + apply IHh in Ec0. lia. + lia.
  - (* array *) destruct (array_fold q); inversion Hc; subst; lia.
  - (* foreach *) destruct e as [e|]; simpl in *; dcomp; inversion Hc; subst; clear Hc.
    + apply IHe in Ec2. lia. + lia.
  - (* binop *) destruct (Nat.ltb cur sn && ce_lt ce sn); [|discriminate].
    match type of Hc with context [comp b ce ?c ?p ?n ?s] =>
      destruct (comp b ce c p n s) as [[[cb nb] s1]|] eqn:Eb; [|discriminate] end. cbv iota beta in Hc.
    match type of Hc with context [comp a ce ?c ?p ?n ?s] =>
      destruct (comp a ce c p n s) as [[[ca na] s2]|] eqn:Ea; [|discriminate] end. cbv iota beta in Hc.
    inversion Hc; subst. apply IHb in Eb. apply IHa in Ea. lia.
  - (* def *) destruct ps; [|discriminate]. destruct (Nat.ltb cur sn && ce_lt ce sn); [|discriminate].
    dcomp. inversion Hc; subst. apply IHbody in Ec. apply IHrest in Ec0. lia.
  - (* callf *) destruct args; [|discriminate]. destruct (lookup_cf f (ce_env ce)); [|discriminate]. inversion Hc; subst; lia.
Qed.

(* ---- den-level facts ---- *)
Lemma foldgen_bind : forall (f : jv -> result) ws,
  foldgen unit (fun _ w => (fst (f w), snd (f w), tt)) ws tt =
  (fst (bind_list ws f), snd (bind_list ws f), tt).
Proof.
  intros f. induction ws; simpl; auto.
  destruct (f a) as [os [x|]]; simpl; auto.
  rewrite IHws. destruct (bind_list ws f) as [os' x']. reflexivity.
Qed.
