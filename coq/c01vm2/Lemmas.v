(* C01vm — proof infrastructure: code layout, environments, the statement proved per construct. *)
From Coq Require Import List NArith ZArith Bool Arith Lia.
From Verif Require Import c01vm2.Syntax c01vm2.Code c01vm2.VM c01vm2.Den c01vm2.Compile c01vm2.Mach c01vm2.Gen.
Import ListNotations.

(* the visible variables and labels live at addresses below [lim] and hold the values of the environment *)
Definition envOK (sc : list frame) (ce : cenv) (rho : venv) (vs : list sv) (n0 lim : nat) : Prop :=
  (forall x y, lookup x (ce_vars ce) = Some y ->
     exists a w, index_of sc y = Some a /\ a < lim /\ lookup x rho = Some w /\ nth_error vs a = Some (SV w)) /\
  (forall l y, lookup l (ce_lbls ce) = Some y ->
     exists a id, index_of sc y = Some a /\ a < lim /\ nth_error vs a = Some (SLbl id) /\ id < n0).

Lemma kept_lt : forall sc ce rho vs n0 lim k, envOK sc ce rho vs n0 lim -> kept sc ce k -> k < lim.
Proof.
  intros sc ce rho vs n0 lim k [Hv Hl] [(x & y & Hx & Hi)|(l & y & Hx & Hi)].
  - destruct (Hv _ _ Hx) as (a & w & Ha & Hlt & _). congruence.
  - destruct (Hl _ _ Hx) as (a & w & Ha & Hlt & _). congruence.
Qed.

Lemma envOK_same : forall sc ce rho vs vs' n0 lim,
  envOK sc ce rho vs n0 lim -> (forall k, kept sc ce k -> nth_error vs k = nth_error vs' k) -> envOK sc ce rho vs' n0 lim.
Proof.
  intros sc ce rho vs vs' n0 lim [Hv Hl] H. split.
  - intros x y Hx. destruct (Hv _ _ Hx) as (a & w & Ha & Hk & Hw & Hn). exists a, w. repeat split; auto.
    rewrite <- H; auto. left; eauto.
  - intros l y Hx. destruct (Hl _ _ Hx) as (a & id & Ha & Hk & Hn & Hid). exists a, id. repeat split; auto.
    rewrite <- H; auto. right; eauto.
Qed.

Lemma envOK_chg : forall sc ce rho vs vs' n0 lim (P : nat -> Prop),
  envOK sc ce rho vs n0 lim -> chg P vs vs' -> (forall i, P i -> lim <= i) -> envOK sc ce rho vs' n0 lim.
Proof.
  intros sc ce rho vs vs' n0 lim P H [_ C] HP. eapply envOK_same; eauto.
  intros k Hk. apply C. intro Hp. apply HP in Hp. pose proof (kept_lt _ _ _ _ _ _ _ H Hk). lia.
Qed.

Lemma envOK_keep : forall (K : nat -> Prop) sc ce rho vs vs' n0 lim,
  envOK sc ce rho vs n0 lim -> keepX K vs vs' -> (forall i, kept sc ce i -> K i) -> envOK sc ce rho vs' n0 lim.
Proof. intros K sc ce rho vs vs' n0 lim H [_ C] HK. eapply envOK_same; eauto. Qed.

Lemma envOK_lim : forall sc ce rho vs n0 lim lim', envOK sc ce rho vs n0 lim -> lim <= lim' -> envOK sc ce rho vs n0 lim'.
Proof.
  intros sc ce rho vs n0 lim lim' [Hv Hl] H. split; intros a k Hx.
  - destruct (Hv _ _ Hx) as (b & w & ? & ? & ? & ?). exists b, w. repeat split; auto. lia.
  - destruct (Hl _ _ Hx) as (b & w & ? & ? & ? & ?). exists b, w. repeat split; auto. lia.
Qed.

Lemma envOK_n0 : forall sc ce rho vs n0 n0' lim, envOK sc ce rho vs n0 lim -> n0 <= n0' -> envOK sc ce rho vs n0' lim.
Proof.
  intros sc ce rho vs n0 n0' lim [Hv Hl] H. split; auto. intros a k Hx.
  destruct (Hl _ _ Hx) as (b & id & ? & ? & ? & ?). exists b, id. repeat split; auto. lia.
Qed.

Lemma envOK_lblOK : forall sc ce rho vs n0 lim, envOK sc ce rho vs n0 lim -> lblOK sc ce vs n0.
Proof. intros sc ce rho vs n0 lim [_ Hl] l k Hx. destruct (Hl _ _ Hx) as (a & id & ? & ? & ? & ?). eauto. Qed.

Lemma envOK_add_var : forall sc ce rho vs n0 lim x y a w,
  envOK sc ce rho vs n0 lim -> index_of sc y = Some a -> a < lim -> nth_error vs a = Some (SV w) ->
  envOK sc (add_var ce x y) ((x, w) :: rho) vs n0 lim.
Proof.
  intros sc ce rho vs n0 lim x y a w [Hv Hl] Hi Hk Hn. split; simpl; auto.
  intros z j. destruct (N.eqb z x); [|apply Hv]. intros E. inversion E; subst. exists a, w. auto.
Qed.

Lemma envOK_add_lbl : forall sc ce rho vs n0 lim l y a id,
  envOK sc ce rho vs n0 lim -> index_of sc y = Some a -> a < lim -> nth_error vs a = Some (SLbl id) -> id < n0 ->
  envOK sc (add_lbl ce l y) rho vs n0 lim.
Proof.
  intros sc ce rho vs n0 lim l y a id [Hv Hl] Hi Hk Hn Hid. split; simpl; auto.
  intros z j. destruct (N.eqb z l); [|apply Hl]. intros E. inversion E; subst. exists a, id. auto.
Qed.

Lemma kept_add_var : forall sc ce x y a i, index_of sc y = Some a -> kept sc (add_var ce x y) i -> i = a \/ kept sc ce i.
Proof.
  intros sc ce x y a i Ha [(z & w & Hz & Hi)|(l & w & Hl & Hi)]; simpl in *.
  - destruct (N.eqb z x); [inversion Hz; subst; left; congruence|right; left; eauto].
  - right; right; eauto.
Qed.
Lemma kept_add_lbl : forall sc ce x y a i, index_of sc y = Some a -> kept sc (add_lbl ce x y) i -> i = a \/ kept sc ce i.
Proof.
  intros sc ce x y a i Ha [(z & w & Hz & Hi)|(l & w & Hl & Hi)]; simpl in *.
  - right; left; eauto.
  - destruct (N.eqb l x); [inversion Hl; subst; left; congruence|right; right; eauto].
Qed.

Section L.
Variable nt : natives.
Variable code : list instr.

Notation steps := (steps nt code).
Notation G2 := (G2 nt code).
Notation G c ws T := (Gen.G2 nt code c ws T T).
Notation Tend := (Tend nt code).
Notation at_ := (at_ code).

Definition code_at (pc : nat) (cq : list instr) : Prop :=
  forall i x, nth_error cq i = Some x -> nth_error code (pc + i) = Some x.

Lemma code_at_app : forall pc a b, code_at pc (a ++ b) -> code_at pc a /\ code_at (pc + length a) b.
Proof.
  intros pc a b H. split; intros i x Hi.
  - apply H. rewrite nth_error_app1; auto. apply nth_error_Some. congruence.
  - replace (pc + length a + i) with (pc + (length a + i)) by lia. apply H.
    rewrite nth_error_app2 by lia. replace (length a + i - length a) with i by lia. auto.
Qed.
Lemma code_at_cons : forall pc i r, code_at pc (i :: r) -> at_ pc i /\ code_at (S pc) r.
Proof.
  intros pc i r H. split.
  - unfold Mach.at_. replace pc with (pc + 0) by lia. apply H. reflexivity.
  - intros j x Hj. replace (S pc + j) with (pc + S j) by lia. apply H. auto.
Qed.

(* a context for code of the frame on top of sc: own variables at addresses [lo,hi), entered at offset o *)
Definition ctx_of (sc : list frame) (pc' : nat) (st : list sv) (fk : list fork) (lo hi o ko : nat) (K K0 : nat -> Prop)
  (ce : cenv) (n0 t : nat) : gctx :=
  {| g_sc := sc; g_pc := pc'; g_st := st; g_base := fk; g_own := fun i => lo <= i < hi \/ o <= i; g_keep := K;
     g_keep0 := K0; g_ce := ce; g_n0 := n0; g_off := o; g_koff := ko; g_ctr := t |}.

(* P is stable under the generator's own writes and under a continuation that preserves the slots that are
   kept even after the generator is over *)
Definition stable (c : gctx) (P : list sv -> nat -> gx -> Prop) : Prop :=
  (forall a b m g m' g', P a m g -> chg (g_own c) a b -> cle m g m' g' -> P b m' g') /\
  (forall a b m g m' g', P a m g -> keepK0 c a b -> cle m g m' g' -> P b m' g').

(* the frame on top of sc has scope id cur and offset base; the ids along the scope chain do not exceed cur
   (a frame's outer frames belong to lexically enclosing scopes, which were created earlier) *)
Definition frameOK (sc : list frame) (cur base : nat) : Prop :=
  (forall k, index_of sc (cur, k) = Some (base + k)) /\ (forall y a, index_of sc y = Some a -> fst y <= cur).

(* a frame of a new scope pushed on top: the older scopes are found through its outer link *)
Lemma index_of_push : forall id off rpc stamp sc y, fst y <> id ->
  index_of (Frame id off rpc stamp sc sc :: sc) y = index_of sc y.
Proof.
  intros id off rpc stamp sc y H. simpl. destruct (Nat.eqb_spec id (fst y)); [congruence|]. destruct sc; reflexivity.
Qed.
Lemma frameOK_top : forall sc cur base, frameOK sc cur base -> exists i o p s sv out r, sc = Frame i o p s sv out :: r /\ i <= cur.
Proof.
  intros sc cur base [H1 H2]. destruct sc as [|[i o p s sv out] r]; [specialize (H1 0); discriminate|].
  exists i, o, p, s, sv, out, r. split; [reflexivity|].
  apply (H2 (i, 0) (o + 0)). simpl. rewrite Nat.eqb_refl. reflexivity.
Qed.
Lemma outer_of_self : forall sc cur base sn, frameOK sc cur base -> cur < sn -> outer_of sc sn sc = sc.
Proof.
  intros sc cur base sn H Hlt. destruct (frameOK_top _ _ _ H) as (i & o & p & s & sv & out & r & -> & Hi).
  simpl. destruct (Nat.eqb_spec i sn); [lia|reflexivity].
Qed.
Lemma frameOK_push : forall sc cur base sn off rpc stamp, frameOK sc cur base -> cur < sn ->
  frameOK (Frame sn off rpc stamp sc sc :: sc) sn off.
Proof.
  intros sc cur base sn off rpc stamp [H1 H2] Hlt. split.
  - intros k. simpl. rewrite Nat.eqb_refl. reflexivity.
  - intros y a Hy. destruct (Nat.eq_dec (fst y) sn) as [E|E]; [lia|].
    rewrite index_of_push in Hy by exact E. apply H2 in Hy. lia.
Qed.
Lemma index_of_push_ok : forall sc cur base sn off rpc stamp y a, frameOK sc cur base -> cur < sn ->
  index_of sc y = Some a -> index_of (Frame sn off rpc stamp sc sc :: sc) y = Some a.
Proof.
  intros sc cur base sn off rpc stamp y a H Hlt Hy. rewrite index_of_push; [exact Hy|].
  apply (proj2 H) in Hy. lia.
Qed.
Lemma envOK_push : forall sc cur base sn off rpc stamp ce rho vs vs' n0 lim, frameOK sc cur base -> cur < sn ->
  envOK sc ce rho vs n0 lim -> (forall a, a < lim -> nth_error vs' a = nth_error vs a) ->
  envOK (Frame sn off rpc stamp sc sc :: sc) ce rho vs' n0 lim.
Proof.
  intros sc cur base sn off rpc stamp ce rho vs vs' n0 lim H Hlt [Hv Hl] Hn. split.
  - intros x y Hx. destruct (Hv _ _ Hx) as (a & w & Ha & Hk & Hw & Hnth). exists a, w.
    split; [eapply index_of_push_ok; eauto|]. split; [auto|]. split; [auto|]. rewrite Hn; auto.
  - intros l y Hx. destruct (Hl _ _ Hx) as (a & id & Ha & Hk & Hnth & Hid). exists a, id.
    split; [eapply index_of_push_ok; eauto|]. split; [auto|]. split; [rewrite Hn; auto|auto].
Qed.
Lemma kept_push : forall sc cur base sn off rpc stamp ce rho vs n0 lim i, frameOK sc cur base -> cur < sn ->
  envOK sc ce rho vs n0 lim -> kept (Frame sn off rpc stamp sc sc :: sc) ce i -> kept sc ce i.
Proof.
  intros sc cur base sn off rpc stamp ce rho vs n0 lim i H Hlt [Hv Hl] [(x & y & Hx & Hi)|(l & y & Hx & Hi)].
  - destruct (Hv _ _ Hx) as (a & w & Ha & _). pose proof (index_of_push_ok _ _ _ sn off rpc stamp _ _ H Hlt Ha) as E.
    rewrite E in Hi. inversion Hi; subst. left. eauto.
  - destruct (Hl _ _ Hx) as (a & w & Ha & _). pose proof (index_of_push_ok _ _ _ sn off rpc stamp _ _ H Hlt Ha) as E.
    rewrite E in Hi. inversion Hi; subst. right. eauto.
Qed.
Lemma encR_push : forall sc cur base sn off rpc stamp ce rho vs0 n0 lim vs fin e, frameOK sc cur base -> cur < sn ->
  envOK sc ce rho vs0 n0 lim -> encR (Frame sn off rpc stamp sc sc :: sc) ce vs fin e -> encR sc ce vs fin e.
Proof.
  intros sc cur base sn off rpc stamp ce rho vs0 n0 lim vs fin e H Hlt [Hv Hl] HE. destruct fin as [[e0|l]|]; cbn [encR] in *; auto.
  destruct HE as (y & k & id & Hk & Hi & Hn & E). exists y, k, id.
  destruct (Hl _ _ Hk) as (a & id' & Ha & _). pose proof (index_of_push_ok _ _ _ sn off rpc stamp _ _ H Hlt Ha) as E0.
  rewrite E0 in Hi. inversion Hi; subst. auto.
Qed.

Definition Impl (q : query) : Prop :=
  forall sc cur base, frameOK sc cur base ->
  forall ce pc nv sn cq nv' sn', comp q ce cur pc nv sn = Some (cq, nv', sn') -> code_at pc cq ->
  forall rho v st fk vs n n0 o ko g (K K0 : nat -> Prop) (P : list sv -> nat -> gx -> Prop),
    envOK sc ce rho vs n0 (base + nv) -> n0 <= n -> base + nv' <= ko -> ko <= o -> o <= length vs ->
    (forall i, base + nv <= i < base + nv' -> K i) -> (forall i, kept sc ce i -> K i) -> (forall i, K0 i -> K i) ->
    let c := ctx_of sc (pc + length cq) st fk (base + nv) (base + nv') o ko K K0 ce n0 (ctr g) in
    stable c P -> P vs n g ->
    G c (fst (den nt q rho v)) (Tend c (snd (den nt q rho v)) P) (N sc pc (SV v :: st) fk vs n o g).

(* one output, no new fork *)
Lemma G_single : forall c w s vs3 n3 o3 g3 (P : list sv -> nat -> gx -> Prop),
  steps s (N (g_sc c) (g_pc c) (SV w :: g_st c) (g_base c) vs3 n3 o3 g3) -> chg (g_own c) (vars_of s) vs3 ->
  cle (lbl_of s) (gx_of s) n3 g3 -> g_off c <= o3 <= length vs3 ->
  (forall vs2 n2 g2, keepK0 c vs3 vs2 -> cle n3 g3 n2 g2 -> P vs2 n2 g2) ->
  G c [w] (Tend c None P) s.
Proof.
  intros c w s vs3 n3 o3 g3 P St Ch Le Ho HP. simpl. exists [], vs3, n3, o3, g3. simpl.
  split; [auto|]. split; [auto|]. split; [auto|]. split; [auto|]. split; [reflexivity|]. intros vs2 n2 g2 K L.
  exists None, vs2, n2, g2. split; [constructor|]. split; [apply chg_refl|]. split; [apply cle_refl|]. split; [reflexivity|auto].
Qed.

(* no output: the enumeration ends *)
Lemma G_end : forall c s e vs3 n3 g3 fin (P : list sv -> nat -> gx -> Prop),
  steps s (B e (g_base c) vs3 n3 g3) -> chg (g_own c) (vars_of s) vs3 -> cle (lbl_of s) (gx_of s) n3 g3 ->
  encR (g_sc c) (g_ce c) vs3 fin e -> P vs3 n3 g3 ->
  G c [] (Tend c fin P) s.
Proof.
  intros c s e vs3 n3 g3 fin P St Ch Le HE HP. simpl. exists s.
  split; [constructor|]. split; [apply chg_refl|]. split; [apply cle_refl|].
  exists e, vs3, n3, g3. auto.
Qed.

Lemma G_cons : forall c w ws (T Tw : state -> Prop) s f0 fk0 vs3 n3 o3 g3,
  steps s (N (g_sc c) (g_pc c) (SV w :: g_st c) ((f0 :: fk0) ++ g_base c) vs3 n3 o3 g3) ->
  chg (g_own c) (vars_of s) vs3 -> cle (lbl_of s) (gx_of s) n3 g3 ->
  g_off c <= o3 <= length vs3 -> Forall (fun f => g_ctr c <= f_ctr f) (f0 :: fk0) ->
  (forall vs2 n2 g2, keepS c o3 vs3 vs2 -> cle n3 g3 n2 g2 ->
     G2 c ws T Tw (B None ((f0 :: fk0) ++ g_base c) vs2 n2 g2) /\
     (forall x, okerr (g_n0 c) x -> exists vs4 n4 g4,
         steps (B (Some x) ((f0 :: fk0) ++ g_base c) vs2 n2 g2) (B (Some x) (g_base c) vs4 n4 g4) /\
         chg (g_own c) vs2 vs4 /\ cle n2 g2 n4 g4)) ->
  G2 c (w :: ws) T Tw s.
Proof. intros. simpl. exists (f0 :: fk0), vs3, n3, o3, g3. split; [auto|]. split; [auto|]. split; [auto|]. split; auto. Qed.

(* change of the exit pc by silent steps that keep the state *)
Lemma G_exit : forall sc pc1 pc2 st fk (O K K0 : nat -> Prop) ce n0 o ko t (T Tw : state -> Prop),
  (forall w f vs n o' g, steps (N sc pc1 (SV w :: st) f vs n o' g) (N sc pc2 (SV w :: st) f vs n o' g)) ->
  forall ws s,
  G2 {| g_sc := sc; g_pc := pc1; g_st := st; g_base := fk; g_own := O; g_keep := K; g_keep0 := K0; g_ce := ce; g_n0 := n0; g_off := o; g_koff := ko; g_ctr := t |} ws T Tw s ->
  G2 {| g_sc := sc; g_pc := pc2; g_st := st; g_base := fk; g_own := O; g_keep := K; g_keep0 := K0; g_ce := ce; g_n0 := n0; g_off := o; g_koff := ko; g_ctr := t |} ws T Tw s.
Proof.
  intros sc pc1 pc2 st fk O K K0 ce n0 o ko t T Tw Hs. induction ws; simpl; intros s HG; auto.
  destruct HG as (fk' & vs3 & n3 & o3 & g3 & St & Ch & Le & Ho & R). exists fk', vs3, n3, o3, g3.
  split; [eapply steps_trans; [exact St|apply Hs]|]. split; [auto|]. split; [auto|]. split; [auto|].
  destruct fk' as [|f0 fk0]; [exact R|].
  intros vs2 n2 g2 Kp L2. destruct (R vs2 n2 g2 Kp L2) as [R1 R2]. split; auto.
Qed.

(* weakening: larger own set, same keep set, smaller n0 *)
Lemma G2_sub : forall cb c (T T' Tw Tw' : state -> Prop),
  g_sc cb = g_sc c -> g_pc cb = g_pc c -> g_st cb = g_st c -> g_base cb = g_base c ->
  (forall i, g_own cb i -> g_own c i) -> (forall o a b, keepS c o a b -> keepS cb o a b) -> (forall a b, keepK0 c a b -> keepK0 cb a b) -> g_n0 c <= g_n0 cb ->
  g_off c <= g_off cb -> g_ctr c <= g_ctr cb ->
  (forall s, T s -> T' s) -> (forall s, Tw s -> Tw' s) ->
  forall ws s, G2 cb ws T Tw s -> G2 c ws T' Tw' s.
Proof.
  intros cb c T T' Tw Tw' H0 H1 H2 H3 H4 H5 H5' H6 H8 H9 H7 H7' ws s HG.
  refine (G_ctx nt code cb c [] (fun _ _ _ => True) T Tw T' Tw' H0 H1 H2 H3 H4 H5 (fun _ a b H => H5' a b H) H6 H8 H9 (Forall_nil _) _ _ _ _ _ ws s I HG); auto.
  intros x vs n g _ _. exists vs, n, g. split; [constructor|]. split; [apply chg_refl|apply cle_refl].
Qed.
Lemma G_sub : forall cb c (T T' : state -> Prop),
  g_sc cb = g_sc c -> g_pc cb = g_pc c -> g_st cb = g_st c -> g_base cb = g_base c ->
  (forall i, g_own cb i -> g_own c i) -> (forall o a b, keepS c o a b -> keepS cb o a b) -> (forall a b, keepK0 c a b -> keepK0 cb a b) -> g_n0 c <= g_n0 cb ->
  g_off c <= g_off cb -> g_ctr c <= g_ctr cb ->
  (forall s, T s -> T' s) ->
  forall ws s, G cb ws T s -> G c ws T' s.
Proof. intros. eapply G2_sub; eauto. Qed.

Lemma seq_nil_r : forall r, seq r ([], None) = r.
Proof. intros [ws [x|]]; simpl; auto. rewrite app_nil_r. auto. Qed.

End L.

(* ---- induction over queries (option query arguments included) ---- *)
Section QInd.
Variable P : query -> Prop.
Definition Popt (h : option query) : Prop := match h with Some h' => P h' | None => True end.
Hypothesis Hid : P QId.
Hypothesis Hconst : forall c, P (QConst c).
Hypothesis Hpipe : forall a b, P a -> P b -> P (QPipe a b).
Hypothesis Hcomma : forall a b, P a -> P b -> P (QComma a b).
Hypothesis Hempty : P QEmpty.
Hypothesis Hiter : forall t, P t -> P (QIter t).
Hypothesis Hindex : forall t k, P t -> P (QIndex t k).
Hypothesis Hif : forall c a b, P c -> P a -> P b -> P (QIf c a b).
Hypothesis Halt : forall a b, P a -> P b -> P (QAlt a b).
Hypothesis Htry : forall a h, P a -> Popt h -> P (QTry a h).
Hypothesis Harr : forall q, P q -> P (QArray q).
Hypothesis Hreduce : forall s x i u, P s -> P i -> P u -> P (QReduce s x i u).
Hypothesis Hforeach : forall s x i u e, P s -> P i -> P u -> Popt e -> P (QForeach s x i u e).
Hypothesis Hlabel : forall l b, P b -> P (QLabel l b).
Hypothesis Hbreak : forall l, P (QBreak l).
Hypothesis Hbind : forall s x b, P s -> P b -> P (QBind s x b).
Hypothesis Hvar : forall x, P (QVar x).
Hypothesis Hcall0 : forall f, P (QCall0 f).
Hypothesis Hbinop : forall o a b, P a -> P b -> P (QBinop o a b).

Fixpoint query_ind' (q : query) : P q :=
  match q with
  | QId => Hid
  | QConst c => Hconst c
  | QPipe a b => Hpipe a b (query_ind' a) (query_ind' b)
  | QComma a b => Hcomma a b (query_ind' a) (query_ind' b)
  | QEmpty => Hempty
  | QIter t => Hiter t (query_ind' t)
  | QIndex t k => Hindex t k (query_ind' t)
  | QIf c a b => Hif c a b (query_ind' c) (query_ind' a) (query_ind' b)
  | QAlt a b => Halt a b (query_ind' a) (query_ind' b)
  | QTry a h => Htry a h (query_ind' a)
      (match h as o return Popt o with Some h' => query_ind' h' | None => I end)
  | QArray q => Harr q (query_ind' q)
  | QReduce s x i u => Hreduce s x i u (query_ind' s) (query_ind' i) (query_ind' u)
  | QForeach s x i u e => Hforeach s x i u e (query_ind' s) (query_ind' i) (query_ind' u)
      (match e as o return Popt o with Some e' => query_ind' e' | None => I end)
  | QLabel l b => Hlabel l b (query_ind' b)
  | QBreak l => Hbreak l
  | QBind s x b => Hbind s x b (query_ind' s) (query_ind' b)
  | QVar x => Hvar x
  | QCall0 f => Hcall0 f
  | QBinop o a b => Hbinop o a b (query_ind' a) (query_ind' b)
  end.
End QInd.

Ltac dcomp :=
  repeat match goal with
  | H : match comp ?q ?ce ?cur ?pc ?nv ?sn with _ => _ end = Some _ |- _ =>
      let E := fresh "Ec" in destruct (comp q ce cur pc nv sn) as [[[? ?] ?]|] eqn:E; [|discriminate H]
  | H : match lookup ?x ?l with _ => _ end = Some _ |- _ =>
      let E := fresh "El" in destruct (lookup x l) eqn:E; [|discriminate H]
  end.


Ltac qind q :=
  induction q as [ | c | a b IHa IHb | a b IHa IHb | | t IHt | t k IHt | c a b IHc IHa IHb | a b IHa IHb
                 | a h IHa IHh | q IHq | s x i u IHs IHi IHu | s x i u e IHs IHi IHu IHe | l b IHb | l
                 | s x b IHs IHb | x | f | o a b IHa IHb ] using query_ind'.

Lemma comp_mono : forall q ce cur pc nv sn cq nv' sn', comp q ce cur pc nv sn = Some (cq, nv', sn') -> nv <= nv' /\ sn <= sn'.
Proof.
  qind q; intros ce cur pc nv sn cq nv' sn' Hc; simpl in Hc; dcomp;
    repeat match goal with
    | IH : forall ce cur pc nv sn cq nv' sn', comp ?q ce cur pc nv sn = Some (cq, nv', sn') -> _,
      E : comp ?q _ _ _ _ _ = Some _ |- _ => apply IH in E
    end;
    try (inversion Hc; subst; lia).
  - (* if *) destruct (is_const1 l0), (is_const1 l1); inversion Hc; subst; lia.
  - (* try *) destruct h as [h|]; simpl in *; dcomp; inversion Hc; subst; clear Hc.
    + apply IHh in Ec0. lia. + lia.
  - (* array *) destruct (array_fold q); inversion Hc; subst; lia.
  - (* foreach *) destruct e as [e|]; simpl in *; dcomp; inversion Hc; subst; clear Hc.
    + apply IHe in Ec2. lia. + lia.
  - (* binop *) destruct (Nat.ltb cur sn); [|discriminate].
    match type of Hc with context [comp b ce ?c ?p ?n ?s] =>
      destruct (comp b ce c p n s) as [[[cb nb] s1]|] eqn:Eb; [|discriminate] end. cbv iota beta in Hc.
    match type of Hc with context [comp a ce ?c ?p ?n ?s] =>
      destruct (comp a ce c p n s) as [[[ca na] s2]|] eqn:Ea; [|discriminate] end. cbv iota beta in Hc.
    inversion Hc; subst. apply IHb in Eb. apply IHa in Ea. lia.
Qed.

(* ---- den-level facts ---- *)
Lemma foldgen_bind : forall (f : jv -> result) ws,
  foldgen unit (fun _ w => (fst (f w), snd (f w), tt)) ws tt =
  (fst (bind_list ws f), snd (bind_list ws f), tt).
Proof.
  intros f. induction ws; simpl; auto.
  destruct (f a) as [os [x|]]; simpl; auto.
  rewrite IHws. destruct (bind_list ws f) as [os' x']. reflexivity.
Qed.
