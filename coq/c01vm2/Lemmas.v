(* C01vm — proof infrastructure: code layout, environments, the statement proved per construct. *)
From Coq Require Import List NArith ZArith Bool Arith Lia.
From Verif Require Import c01vm2.Syntax c01vm2.Code c01vm2.VM c01vm2.Den c01vm2.Compile c01vm2.Mach c01vm2.Gen.
Import ListNotations.

(* the lower bound claimed when the denotation runs out of fuel fu (Gen.Tfuel): fu frame pushes -- except with
   optimizeTailRec, where a tail call turned into a jump pushes no frame and nothing is claimed *)
Definition lbf (tco : bool) (fu : nat) : nat := match fu with 0 => 0 | S m => if tco then 0 else S m end.
Lemma lbf_S : forall tco m, lbf tco (S m) <= S (lbf tco m).
Proof. intros [|] [|m]; simpl; lia. Qed.
Lemma lbf_le : forall tco m, lbf tco m <= m.
Proof. intros [|] [|m]; simpl; lia. Qed.
Lemma lbf_false : forall m, lbf false m = m.
Proof. intros [|m]; reflexivity. Qed.
Lemma lbf_true : forall m, lbf true m = 0.
Proof. intros [|m]; reflexivity. Qed.
(* no fork on the stack was created after the frame stamped [stamp] was pushed (popscope's free test) *)
Definition unpin (fk : list fork) (stamp : nat) : bool := match fk with [] => true | f :: _ => f_ctr f <=? stamp end.

(* ---- environments ---- *)
Definition top_frame (sc : list frame) (cur base : nat) : Prop :=
  exists rpc stamp save outer r, sc = Frame cur base rpc stamp save outer :: r.

Section E.
Variable code : list instr.
Variable tco : bool.
Notation comp q ce := (compg tco q ce None).

(* a value variable lives at an address below [lim] and holds the value of the environment *)
Definition valOK (sc : list frame) (vs : list sv) (lim : nat) (y : var) (w : jv) : Prop :=
  exists a, index_of sc y = Some a /\ a < lim /\ nth_error vs a = Some (SV w).
(* a defined function (or, with no parameter, a closure passed to a user-defined function): at pc p there is its
   opscope, followed by the parameter prelude, the code of its body compiled in the environment that starts at the
   function's own entry (with no label) extended by the parameters, and opret; the slots visible in the body
   belong to scopes older than the function's *)
Definition funOK (p : nat) (ps : list param) (body : query) (cel : list (BinNums.N * cbind)) (tlb : tailpos) : Prop :=
  exists idf nvb cb s0 s1,
    nth_error code p = Some (Iscope idf nvb (length ps)) /\
    (forall G, compg tco body {| ce_env := param_env idf ps ++ cel; ce_lbls := []; ce_ghost := G |} tlb idf
                 (p + 1 + length (prelude idf ps)) (param_slots ps) s0 = Some (cb, nvb, s1)) /\
    (forall i x, nth_error (prelude idf ps ++ cb ++ [Iret]) i = Some x -> nth_error code (p + 1 + i) = Some x) /\
    ce_lt {| ce_env := cel; ce_lbls := []; ce_ghost := fun _ => False |} idf = true.

(* the compile-time environment and the semantic environment are parallel lists; G: the addresses the
   environments of the closures bound here depend on *)
Inductive envOKl (G : nat -> Prop) (sc : list frame) (vs : list sv) (lim : nat) : list (BinNums.N * cbind) -> venv -> Prop :=
| EO_nil : envOKl G sc vs lim [] []
| EO_var : forall x y w cr rr, valOK sc vs lim y w -> envOKl G sc vs lim cr rr ->
    envOKl G sc vs lim ((x, CV y) :: cr) ((x, BV w) :: rr)
| EO_fun : forall f p ps body cr rr, funOK p ps body ((f, CF p (length ps)) :: cr) (tl_body tco p ps body) -> envOKl G sc vs lim cr rr ->
    envOKl G sc vs lim ((f, CF p (length ps)) :: cr) ((f, BF ps body) :: rr)
| EO_par : forall g y a rho_a cr rr addr p idx cel_a cur_a base_a lim_a Ga,
    index_of sc y = Some addr -> addr < lim -> nth_error vs addr = Some (SPc p idx) ->
    funOK p [] a cel_a None -> top_frame idx cur_a base_a -> lim_a <= lim ->
    envOKl Ga idx vs lim_a cel_a rho_a ->
    (forall i, kept idx {| ce_env := cel_a; ce_lbls := []; ce_ghost := Ga |} i -> G i /\ i < lim_a) ->
    envOKl G sc vs lim cr rr ->
    envOKl G sc vs lim ((g, CP y) :: cr) ((g, BP a rho_a) :: rr).

Definition envOK (sc : list frame) (ce : cenv) (rho : venv) (vs : list sv) (n0 lim : nat) : Prop :=
  envOKl (ce_ghost ce) sc vs lim (ce_env ce) rho /\
  (forall l y, lookup l (ce_lbls ce) = Some y ->
     exists a id, index_of sc y = Some a /\ a < lim /\ nth_error vs a = Some (SLbl id) /\ id < n0) /\
  (forall i, ce_ghost ce i -> i < lim).

Lemma envOKl_var : forall G sc vs lim cel rho x y, envOKl G sc vs lim cel rho -> lookup_cv x cel = Some y ->
  exists a w, index_of sc y = Some a /\ a < lim /\ lookup_v x rho = Some w /\ nth_error vs a = Some (SV w).
Proof.
  intros G sc vs lim cel rho x y H. induction H; intros Hl; simpl in *; try discriminate; auto.
  destruct H as (a & Ha & Hlt & Hn). destruct (N.eqb x x0); [inversion Hl; subst; eauto 8|eauto].
Qed.
Lemma envOK_var : forall sc ce rho vs n0 lim x y, envOK sc ce rho vs n0 lim -> lookup_cv x (ce_env ce) = Some y ->
  exists a w, index_of sc y = Some a /\ a < lim /\ lookup_v x rho = Some w /\ nth_error vs a = Some (SV w).
Proof. intros sc ce rho vs n0 lim x y [H _]. eapply envOKl_var; eauto. Qed.

(* a visible function f/argc: its body, its own environment (a suffix of both lists) *)
Lemma envOKl_fun : forall G sc vs lim cel rho f argc p n, envOKl G sc vs lim cel rho -> lookup_cf f argc cel = Some (CF p n) ->
  exists ps body cel' rho' pre, n = argc /\ length ps = argc /\ lookup_f f argc rho = Some (BF ps body, rho') /\
     funOK p ps body cel' (tl_body tco p ps body) /\ envOKl G sc vs lim cel' rho' /\ cel = pre ++ cel'.
Proof.
  intros G sc vs lim cel rho f argc p n H. induction H; intros Hl; simpl in *; try discriminate.
  - destruct (IHenvOKl Hl) as (ps & body & cel' & rho' & pre & H1 & H2 & H3 & H4 & H5 & ->).
    exists ps, body, cel', rho', ((x, CV y) :: pre). auto 8.
  - destruct (N.eqb f f0 && Nat.eqb (length ps) argc) eqn:E.
    + inversion Hl; subst. apply andb_true_iff in E. destruct E as [_ E]. apply Nat.eqb_eq in E.
      exists ps, body, ((f0, CF p (length ps)) :: cr), ((f0, BF ps body) :: rr), []. simpl. repeat split; auto.
      constructor; auto.
    + destruct (IHenvOKl Hl) as (ps' & body' & cel' & rho' & pre & H1 & H2 & H3 & H4 & H5 & ->).
      exists ps', body', cel', rho', ((f0, CF p0 (length ps)) :: pre). auto 8.
  - destruct (N.eqb f g && Nat.eqb argc 0) eqn:E; [discriminate|].
    destruct (IHenvOKl2 Hl) as (ps' & body' & cel' & rho' & pre & H8 & H9 & H10 & H11 & H12 & ->).
    exists ps', body', cel', rho', ((g, CP y) :: pre). auto 8.
Qed.
(* a visible filter parameter: the closure in its slot *)
Lemma envOKl_par : forall G sc vs lim cel rho f y, envOKl G sc vs lim cel rho -> lookup_cf f 0 cel = Some (CP y) ->
  exists a rho_a rho' addr p idx cel_a cur_a base_a lim_a Ga,
    lookup_f f 0 rho = Some (BP a rho_a, rho') /\
    index_of sc y = Some addr /\ addr < lim /\ nth_error vs addr = Some (SPc p idx) /\
    funOK p [] a cel_a None /\ top_frame idx cur_a base_a /\ lim_a <= lim /\ envOKl Ga idx vs lim_a cel_a rho_a /\
    (forall i, kept idx {| ce_env := cel_a; ce_lbls := []; ce_ghost := Ga |} i -> G i /\ i < lim_a).
Proof.
  intros G sc vs lim cel rho f y H. induction H; intros Hl; simpl in *; try discriminate.
  - destruct (IHenvOKl Hl) as (a & rho_a & rho' & addr & p & idx & cel_a & cur_a & base_a & lim_a & Ga & H1 & Hr).
    exists a, rho_a, rho', addr, p, idx, cel_a, cur_a, base_a, lim_a, Ga. auto.
  - destruct (N.eqb f f0 && Nat.eqb (length ps) 0) eqn:E; [discriminate|].
    destruct (IHenvOKl Hl) as (a & rho_a & rho' & addr & p' & idx & cel_a & cur_a & base_a & lim_a & Ga & H1 & Hr).
    exists a, rho_a, rho', addr, p', idx, cel_a, cur_a, base_a, lim_a, Ga. auto.
  - destruct (N.eqb f g) eqn:E; simpl in *.
    + inversion Hl; subst. exists a, rho_a, ((g, BP a rho_a) :: rr), addr, p, idx, cel_a, cur_a, base_a, lim_a, Ga. auto 12.
    + destruct (IHenvOKl2 Hl) as (a' & rho_a' & rho' & addr' & p' & idx' & cel_a' & cur_a' & base_a' & lim_a' & Ga' & H8 & Hr).
      exists a', rho_a', rho', addr', p', idx', cel_a', cur_a', base_a', lim_a', Ga'. auto.
Qed.

Lemma envOKl_kept_lt : forall G sc vs lim cel rho x y k, envOKl G sc vs lim cel rho ->
  In (x, CV y) cel \/ In (x, CP y) cel -> index_of sc y = Some k -> k < lim.
Proof.
  intros G sc vs lim cel rho x y k H. induction H; intros Hin Hi; simpl in *.
  - destruct Hin; contradiction.
  - destruct H as (a & Ha & Hlt & Hn).
    destruct Hin as [[E|Hin]|[E|Hin]]; try discriminate; [inversion E; subst; congruence|auto|auto].
  - destruct Hin as [[E|Hin]|[E|Hin]]; try discriminate; auto.
  - destruct Hin as [[E|Hin]|[E|Hin]]; try discriminate; [auto|inversion E; subst; congruence|auto].
Qed.
Lemma kept_lt : forall sc ce rho vs n0 lim k, envOK sc ce rho vs n0 lim -> kept sc ce k -> k < lim.
Proof.
  intros sc ce rho vs n0 lim k (Hv & Hl & Hg) [(x & y & Hx & Hi)|[(l & y & Hx & Hi)|Hk]].
  - eapply envOKl_kept_lt; eauto.
  - destruct (Hl _ _ Hx) as (a & w & Ha & Hlt & _). congruence.
  - auto.
Qed.

Lemma envOKl_same : forall G sc vs vs' lim cel rho, envOKl G sc vs lim cel rho ->
  (forall x y k, In (x, CV y) cel \/ In (x, CP y) cel -> index_of sc y = Some k -> nth_error vs k = nth_error vs' k) ->
  (forall k, G k -> nth_error vs k = nth_error vs' k) ->
  envOKl G sc vs' lim cel rho.
Proof.
  intros G sc vs vs' lim cel rho H. induction H; intros Hs Hg.
  - constructor.
  - destruct H as (a & Ha & Hlt & Hn). constructor.
    + exists a. rewrite <- (Hs x y a); auto. left; left; auto.
    + apply IHenvOKl; auto. intros x0 y0 k [Hin|Hin] Hk; apply (Hs x0 y0); auto; [left|right]; right; auto.
  - constructor; auto. apply IHenvOKl; auto. intros x0 y0 k [Hin|Hin] Hk; apply (Hs x0 y0); auto; [left|right]; right; auto.
  - econstructor; eauto.
    + rewrite <- (Hs g y addr); auto. right; left; auto.
    + apply IHenvOKl1.
      * intros x0 y0 k Hin Hk. apply Hg. apply H6. left. exists x0, y0. auto.
      * intros k Hk. apply Hg. apply H6. right. right. exact Hk.
    + apply IHenvOKl2; auto. intros x0 y0 k [Hin|Hin] Hk; apply (Hs x0 y0); auto; [left|right]; right; auto.
Qed.
Lemma envOK_same : forall sc ce rho vs vs' n0 lim,
  envOK sc ce rho vs n0 lim -> (forall k, kept sc ce k -> nth_error vs k = nth_error vs' k) -> envOK sc ce rho vs' n0 lim.
Proof.
  intros sc ce rho vs vs' n0 lim (Hv & Hl & Hg) H. split; [|split; [|exact Hg]].
  - eapply envOKl_same; eauto.
    + intros x y k Hin Hi. apply H. left; eauto.
    + intros k Hk. apply H. right; right; exact Hk.
  - intros l y Hx. destruct (Hl _ _ Hx) as (a & id & Ha & Hk & Hn & Hid). exists a, id. repeat split; auto.
    rewrite <- H; auto. right; left; eauto.
Qed.

Lemma envOK_chg : forall sc ce rho vs vs' n0 lim (P : nat -> Prop),
  envOK sc ce rho vs n0 lim -> chg P vs vs' -> (forall i, P i -> lim <= i) -> envOK sc ce rho vs' n0 lim.
Proof.
  intros sc ce rho vs vs' n0 lim P H [_ C] HP. eapply envOK_same; eauto.
  intros k Hk. apply C. intro Hp. apply HP in Hp. pose proof (kept_lt _ _ _ _ _ _ _ H Hk). lia.
Qed.

Lemma envOK_keep : forall (K : nat -> Prop) sc ce rho vs vs' n0 lim,
  envOK sc ce rho vs n0 lim -> keepX K vs vs' -> (forall i, kept sc ce i -> K i) -> envOK sc ce rho vs' n0 lim.
Proof. intros K sc ce rho vs vs' n0 lim H [_ C] HK. eapply envOK_same; eauto. Qed.

Lemma envOKl_lim : forall G sc vs lim lim' cel rho, envOKl G sc vs lim cel rho -> lim <= lim' -> envOKl G sc vs lim' cel rho.
Proof.
  intros G sc vs lim lim' cel rho H. induction H; intros Hle.
  - constructor.
  - destruct H as (a & Ha & Hlt & Hn). constructor; auto. exists a; repeat split; auto; lia.
  - constructor; auto.
  - apply (EO_par G sc vs lim' g y a rho_a cr rr addr p idx cel_a cur_a base_a lim_a Ga); auto; lia.
Qed.
(* lowering the limit: all the slots (and the addresses closure environments depend on) are below lim' *)
Lemma envOKl_lower : forall G sc vs lim cel rho, envOKl G sc vs lim cel rho -> forall lim',
  (forall x y i, In (x, CV y) cel \/ In (x, CP y) cel -> index_of sc y = Some i -> i < lim') -> (forall i, G i -> i < lim') ->
  envOKl G sc vs lim' cel rho.
Proof.
  intros G sc vs lim cel rho H. induction H; intros lim' Hs Hg.
  - constructor.
  - destruct H as (a & Ha & Hlt & Hn). constructor.
    + exists a. split; [exact Ha|]. split; [|exact Hn]. apply (Hs x y a); [left; left; reflexivity|exact Ha].
    + apply IHenvOKl; auto. intros x0 y0 i [Hin|Hin] Hi; apply (Hs x0 y0 i); auto; [left|right]; right; exact Hin.
  - constructor; auto. apply IHenvOKl; auto. intros x0 y0 i [Hin|Hin] Hi; apply (Hs x0 y0 i); auto; [left|right]; right; exact Hin.
  - apply (EO_par G sc vs lim' g y a rho_a cr rr addr p idx cel_a cur_a base_a lim' Ga); auto.
    + apply (Hs g y addr); [right; left; reflexivity|exact H].
    + apply IHenvOKl1.
      * intros x0 y0 i Hin Hi. apply Hg. apply H6. left. exists x0, y0. auto.
      * intros i Hi. apply Hg. apply H6. right. right. exact Hi.
    + intros i Hi. split; [apply H6; exact Hi|]. apply Hg. apply H6. exact Hi.
    + apply IHenvOKl2; auto. intros x0 y0 i [Hin|Hin] Hi; apply (Hs x0 y0 i); auto; [left|right]; right; exact Hin.
Qed.
Lemma envOK_lim : forall sc ce rho vs n0 lim lim', envOK sc ce rho vs n0 lim -> lim <= lim' -> envOK sc ce rho vs n0 lim'.
Proof.
  intros sc ce rho vs n0 lim lim' (Hv & Hl & Hg) H. split; [eapply envOKl_lim; eauto|]. split.
  - intros a k Hx. destruct (Hl _ _ Hx) as (b & w & ? & ? & ? & ?). exists b, w. repeat split; auto. lia.
  - intros i Hi. apply Hg in Hi. lia.
Qed.

Lemma envOK_n0 : forall sc ce rho vs n0 n0' lim, envOK sc ce rho vs n0 lim -> n0 <= n0' -> envOK sc ce rho vs n0' lim.
Proof.
  intros sc ce rho vs n0 n0' lim (Hv & Hl & Hg) H. split; auto. split; auto. intros a k Hx.
  destruct (Hl _ _ Hx) as (b & id & ? & ? & ? & ?). exists b, id. repeat split; auto. lia.
Qed.

Lemma envOK_lblOK : forall sc ce rho vs n0 lim, envOK sc ce rho vs n0 lim -> lblOK sc ce vs n0.
Proof. intros sc ce rho vs n0 lim (_ & Hl & _) l k Hx. destruct (Hl _ _ Hx) as (a & id & ? & ? & ? & ?). eauto. Qed.

Lemma envOK_add_var : forall sc ce rho vs n0 lim x y a w,
  envOK sc ce rho vs n0 lim -> index_of sc y = Some a -> a < lim -> nth_error vs a = Some (SV w) ->
  envOK sc (add_var ce x y) ((x, BV w) :: rho) vs n0 lim.
Proof.
  intros sc ce rho vs n0 lim x y a w (Hv & Hl & Hg) Hi Hk Hn. split; [|split]; simpl; auto.
  constructor; auto. exists a; auto.
Qed.

Lemma envOK_add_lbl : forall sc ce rho vs n0 lim l y a id,
  envOK sc ce rho vs n0 lim -> index_of sc y = Some a -> a < lim -> nth_error vs a = Some (SLbl id) -> id < n0 ->
  envOK sc (add_lbl ce l y) rho vs n0 lim.
Proof.
  intros sc ce rho vs n0 lim l y a id (Hv & Hl & Hg) Hi Hk Hn Hid. split; [|split]; simpl; auto.
  intros z j. destruct (N.eqb z l); [|apply Hl]. intros E. inversion E; subst. exists a, id. auto.
Qed.

(* a function definition: the new entry describes the code just emitted *)
Lemma envOK_add_fun : forall sc ce rho vs n0 lim f p ps body,
  envOK sc ce rho vs n0 lim -> funOK p ps body ((f, CF p (length ps)) :: ce_env ce) (tl_body tco p ps body) ->
  envOK sc (add_fun ce f p (length ps)) ((f, BF ps body) :: rho) vs n0 lim.
Proof. intros sc ce rho vs n0 lim f p ps body (Hv & Hl & Hg) Hf. split; [|split]; simpl; auto. constructor; auto. Qed.

Lemma kept_add_var : forall sc ce x y a i, index_of sc y = Some a -> kept sc (add_var ce x y) i -> i = a \/ kept sc ce i.
Proof.
  intros sc ce x y a i Ha [(z & w & Hz & Hi)|[(l & w & Hl & Hi)|Hg]]; simpl in *.
  - destruct Hz as [[E|Hz]|[E|Hz]]; try discriminate; [inversion E; subst; left; congruence|right; left; eauto|right; left; eauto].
  - right; right; left; eauto.
  - right; right; right; auto.
Qed.
Lemma kept_add_lbl : forall sc ce x y a i, index_of sc y = Some a -> kept sc (add_lbl ce x y) i -> i = a \/ kept sc ce i.
Proof.
  intros sc ce x y a i Ha [(z & w & Hz & Hi)|[(l & w & Hl & Hi)|Hg]]; simpl in *.
  - right; left; eauto.
  - destruct (N.eqb l x); [inversion Hl; subst; left; congruence|right; right; left; eauto].
  - right; right; right; auto.
Qed.
Lemma kept_add_fun : forall sc ce f p n i, kept sc (add_fun ce f p n) i -> kept sc ce i.
Proof.
  intros sc ce f p n i [(z & w & Hz & Hi)|[(l & w & Hl & Hi)|Hg]]; simpl in *.
  - destruct Hz as [[E|Hz]|[E|Hz]]; try discriminate; left; eauto.
  - right; left; eauto.
  - right; right; auto.
Qed.
End E.
Arguments envOKl_var {code tco}.
Arguments envOK_var {code tco}.
Arguments envOKl_fun {code tco}.
Arguments envOKl_par {code tco}.
Arguments envOKl_kept_lt {code tco}.
Arguments kept_lt {code tco}.
Arguments envOKl_same {code tco}.
Arguments envOK_same {code tco}.
Arguments envOK_chg {code tco}.
Arguments envOK_keep {code tco}.
Arguments envOKl_lim {code tco}.
Arguments envOKl_lower {code tco}.
Arguments envOK_lim {code tco}.
Arguments envOK_n0 {code tco}.
Arguments envOK_lblOK {code tco}.
Arguments envOK_add_var {code tco}.
Arguments envOK_add_lbl {code tco}.
Arguments envOK_add_fun {code tco}.

Section L.
Variable nt : natives.
Variable code : list instr.
Variable tco : bool.
Notation comp q ce := (compg tco q ce None).

Notation steps := (steps nt code).
Notation G2 := (G2 nt code).
Notation G c ws T := (Gen.G2 nt code c ws T T).
Notation Tend := (Tend nt code).
Notation at_ := (at_ code).
Notation envOK := (envOK code tco).

Definition code_at (pc : nat) (cq : list instr) : Prop :=
  forall i x, nth_error cq i = Some x -> nth_error code (pc + i) = Some x.

Lemma code_at_app : forall pc a b, code_at pc (a ++ b) -> code_at pc a /\ code_at (pc + length a) b.
Proof.
  intros pc a b H. split; intros i x Hi.
  - apply H. rewrite nth_error_app1; auto. apply nth_error_Some. congruence.
  - replace (pc + length a + i) with (pc + (length a + i)) by lia. apply H.
    rewrite nth_error_app2 by lia. replace (length a + i - length a) with i by lia. auto.
Qed.
Lemma code_at_cons : forall pc i r, code_at pc (i :: r) -> at_ pc i /\ code_at (S pc) r.
Proof.
  intros pc i r H. split.
  - unfold Mach.at_. replace pc with (pc + 0) by lia. apply H. reflexivity.
  - intros j x Hj. replace (S pc + j) with (pc + S j) by lia. apply H. auto.
Qed.

(* a context for code of the frame on top of sc: own variables at addresses [lo,hi), entered at offset o *)
Definition ctx_of (sc : list frame) (pc' : nat) (st : list sv) (fk : list fork) (lo hi o ko : nat) (K K0 : nat -> Prop)
  (ce : cenv) (n0 t : nat) : gctx :=
  {| g_sc := sc; g_pc := pc'; g_st := st; g_base := fk; g_own := fun i => lo <= i < hi \/ o <= i; g_keep := K;
     g_keep0 := K0; g_ce := ce; g_n0 := n0; g_off := o; g_koff := ko; g_ctr := t |}.

(* P is stable under the generator's own writes and under a continuation that preserves the slots that are
   kept even after the generator is over *)
Definition stable (c : gctx) (P : list sv -> nat -> gx -> Prop) : Prop :=
  (forall a b m g m' g', P a m g -> chg (g_own c) a b -> cle m g m' g' -> P b m' g') /\
  (forall a b m g m' g', P a m g -> keepK0 c a b -> cle m g m' g' -> P b m' g').

(* the frame on top of sc is an activation of the scope being executed (id cur) with offset base *)
Definition frameOK (sc : list frame) (cur base : nat) : Prop := top_frame sc cur base.
Lemma frameOK_cur : forall sc cur base, frameOK sc cur base -> forall k, index_of sc (cur, k) = Some (base + k).
Proof. intros sc cur base (rpc & stamp & save & outer & r & ->) k. simpl. rewrite Nat.eqb_refl. reflexivity. Qed.
Lemma frameOK_ne : forall sc cur base, frameOK sc cur base -> sc <> [].
Proof. intros sc cur base (rpc & stamp & save & outer & r & ->). discriminate. Qed.

(* the chain seen from a new frame of scope id: opscope links it to the frame the call captured, or to that
   frame's outer frame when it is an activation of the same scope *)
Lemma index_of_outer : forall sc id y, fst y <> id -> index_of (outer_of sc id sc) y = index_of sc y.
Proof.
  intros [|[i o p s sv out] r] id y H; simpl; [reflexivity|].
  destruct (Nat.eqb_spec i id) as [->|Hne]; [|reflexivity].
  destruct (Nat.eqb_spec id (fst y)); [congruence|]. destruct out; reflexivity.
Qed.
Definition pushed (sc : list frame) (id : nat) (sc' : list frame) : Prop :=
  exists off rpc stamp save tl, sc' = Frame id off rpc stamp save (outer_of sc id sc) :: tl.
Lemma index_of_pushed : forall sc id sc' y, pushed sc id sc' -> fst y <> id -> index_of sc' y = index_of sc y.
Proof.
  intros sc id sc' y (off & rpc & stamp & save & tl & ->) H. simpl.
  destruct (Nat.eqb_spec id (fst y)); [congruence|].
  rewrite <- (index_of_outer sc id y H). destruct (outer_of sc id sc); reflexivity.
Qed.
Lemma outer_of_self : forall sc cur base sn, frameOK sc cur base -> cur <> sn -> outer_of sc sn sc = sc.
Proof.
  intros sc cur base sn (rpc & stamp & save & outer & r & ->) Hne. simpl. destruct (Nat.eqb_spec cur sn); [congruence|reflexivity].
Qed.

Lemma ce_lt_var : forall ce sn x y, ce_lt ce sn = true -> In (x, CV y) (ce_env ce) \/ In (x, CP y) (ce_env ce) -> fst y < sn.
Proof.
  intros ce sn x y H Hin. unfold ce_lt in H. apply andb_true_iff in H. destruct H as [H _].
  rewrite forallb_forall in H. destruct Hin as [Hin|Hin]; specialize (H _ Hin); simpl in H; apply Nat.ltb_lt; exact H.
Qed.
Lemma lookup_In : forall {A} (l : list (BinNums.N * A)) x a, lookup x l = Some a -> exists x', In (x', a) l.
Proof.
  induction l as [|[z b] r IH]; intros x a H; simpl in H; [discriminate|].
  destruct (N.eqb x z); [inversion H; subst; exists z; left; auto|]. destruct (IH _ _ H) as (x' & Hx). exists x'. right; auto.
Qed.
Lemma ce_lt_lbl : forall ce sn l y, ce_lt ce sn = true -> lookup l (ce_lbls ce) = Some y -> fst y < sn.
Proof.
  intros ce sn l y H Hl. unfold ce_lt in H. apply andb_true_iff in H. destruct H as [_ H].
  rewrite forallb_forall in H. destruct (lookup_In _ _ _ Hl) as (l' & Hin). specialize (H _ Hin). simpl in H. apply Nat.ltb_lt. exact H.
Qed.

Lemma envOKl_pushed : forall G sc id sc' vs vs' lim cel rho, pushed sc id sc' ->
  (forall a, a < lim -> nth_error vs' a = nth_error vs a) ->
  envOKl code tco G sc vs lim cel rho ->
  (forall x y, In (x, CV y) cel \/ In (x, CP y) cel -> fst y <> id) ->
  envOKl code tco G sc' vs' lim cel rho.
Proof.
  intros G sc id sc' vs vs' lim cel rho Hp Hn H. induction H; intros Hne.
  - constructor.
  - destruct H as (a & Ha & Hlt & Hnth). constructor.
    + exists a. rewrite (index_of_pushed _ _ _ _ Hp (Hne x y (or_introl (or_introl eq_refl)))). rewrite Hn by auto. auto.
    + apply IHenvOKl; auto. intros x0 y0 [Hin|Hin]; apply (Hne x0 y0); [left|right]; right; auto.
  - constructor; auto. apply IHenvOKl; auto. intros x0 y0 [Hin|Hin]; apply (Hne x0 y0); [left|right]; right; auto.
  - apply (EO_par code tco G sc' vs' lim g y a rho_a cr rr addr p idx cel_a cur_a base_a lim_a Ga); auto.
    + rewrite (index_of_pushed _ _ _ _ Hp (Hne g y (or_intror (or_introl eq_refl)))). auto.
    + rewrite Hn by auto. auto.
    + eapply envOKl_same; [exact H5| |].
      * intros x0 y0 k Hin Hk. symmetry. apply Hn. assert (k < lim_a) by (apply H6; left; exists x0, y0; auto). lia.
      * intros k Hk. symmetry. apply Hn. assert (k < lim_a) by (apply H6; right; right; exact Hk). lia.
    + apply IHenvOKl2; auto. intros x0 y0 [Hin|Hin]; apply (Hne x0 y0); [left|right]; right; auto.
Qed.
Lemma envOK_pushed : forall sc id sc' ce rho vs vs' n0 lim, pushed sc id sc' -> ce_lt ce id = true ->
  envOK sc ce rho vs n0 lim -> (forall a, a < lim -> nth_error vs' a = nth_error vs a) ->
  envOK sc' ce rho vs' n0 lim.
Proof.
  intros sc id sc' ce rho vs vs' n0 lim Hp Hlt (Hv & Hl & Hg) Hn. split; [|split; [|exact Hg]].
  - eapply envOKl_pushed; eauto. intros x y Hin. pose proof (ce_lt_var _ _ _ _ Hlt Hin). lia.
  - intros l y Hx. destruct (Hl _ _ Hx) as (a & id' & Ha & Hk & Hnth & Hid). exists a, id'.
    pose proof (ce_lt_lbl _ _ _ _ Hlt Hx).
    split; [rewrite (index_of_pushed _ _ _ _ Hp); [exact Ha|lia]|]. split; [auto|]. split; [rewrite Hn; auto|auto].
Qed.
Lemma kept_pushed : forall sc id sc' ce i, pushed sc id sc' -> ce_lt ce id = true -> kept sc' ce i -> kept sc ce i.
Proof.
  intros sc id sc' ce i Hp Hlt [(x & y & Hx & Hi)|[(l & y & Hx & Hi)|Hg]].
  - pose proof (ce_lt_var _ _ _ _ Hlt Hx). rewrite (index_of_pushed _ _ _ _ Hp) in Hi by lia. left. eauto.
  - pose proof (ce_lt_lbl _ _ _ _ Hlt Hx). rewrite (index_of_pushed _ _ _ _ Hp) in Hi by lia. right. left. eauto.
  - right. right. exact Hg.
Qed.
Lemma encR_pushed : forall sc id sc' ce vs fin e, pushed sc id sc' -> ce_lt ce id = true ->
  encR sc' ce vs fin e -> encR sc ce vs fin e.
Proof.
  intros sc id sc' ce vs fin e Hp Hlt HE. destruct fin as [[e0|l|]|]; cbn [encR] in *; auto.
  destruct HE as (y & k & id' & Hk & Hi & Hn & E). exists y, k, id'.
  pose proof (ce_lt_lbl _ _ _ _ Hlt Hk). rewrite (index_of_pushed _ _ _ _ Hp) in Hi by lia. auto.
Qed.

Definition Impl (fu : nat) (q : query) : Prop :=
  forall sc cur base, frameOK sc cur base ->
  forall ce pc nv sn cq nv' sn', comp q ce cur pc nv sn = Some (cq, nv', sn') -> code_at pc cq ->
  forall rho v st fk vs n n0 o ko g (K K0 : nat -> Prop) (P : list sv -> nat -> gx -> Prop),
    envOK sc ce rho vs n0 (base + nv) -> n0 <= n -> base + nv' <= ko -> ko <= o -> o <= length vs ->
    (forall i, base + nv <= i < base + nv' -> K i) -> (forall i, kept sc ce i -> K i) -> (forall i, K0 i -> K i) ->
    let c := ctx_of sc (pc + length cq) st fk (base + nv) (base + nv') o ko K K0 ce n0 (ctr g) in
    stable c P -> P vs n g ->
    G c (fst (den1 nt (call_of nt fu) q rho v)) (Tend (lbf tco fu) c (snd (den1 nt (call_of nt fu) q rho v)) P) (N sc pc (SV v :: st) fk vs n o g).

(* the statement for a query in tail position of a parameterless function (optimizeTailRec on): F1 = the frame on
   top is an activation of the function whose opscope is at pe; the code after the query leads to F1's opret; cx
   describes F1's caller.  The outputs are delivered to the caller, whether the query ends in an ordinary way (through
   opret) or by a tail call (opcallrec / jump), which replaces F1 *)
Definition ImplT (fu : nat) (q : query) : Prop :=
  tco = true ->
  forall scR, scR <> [] -> forall idf oF rpc stampF outerF pe nvF cj,
  let sc1 := Frame idf oF rpc stampF scR outerF :: scR in
  at_ pe (Iscope idf nvF 0) -> (cj = true -> nvF = 0) ->
  forall ce pc nv sn cq nv' sn', compg tco q ce (Some (pe, Some cj)) idf pc nv sn = Some (cq, nv', sn') -> code_at pc cq ->
  ce_lbls ce = [] -> nv' <= nvF ->
  forall pr, at_ pr Iret ->
  forall cx, (forall w f vs n o g, steps (N sc1 (pc + length cq) (SV w :: g_st cx) f vs n o g) (N sc1 pr (SV w :: g_st cx) f vs n o g)) ->
  forall rho v vs n o g (P : list sv -> nat -> gx -> Prop),
    g_sc cx = scR -> g_pc cx = S rpc -> (forall i, kept scR (g_ce cx) i -> i < oF) ->
    envOK sc1 ce rho vs (g_n0 cx) (oF + nv) -> g_n0 cx <= n -> oF + nvF <= o -> o <= length vs ->
    g_ctr cx <= ctr g -> stampF < ctr g ->
    g_off cx <= o -> g_koff cx <= oF ->
    (forall i, oF + nv <= i < oF + nvF \/ o <= i -> g_own cx i) ->
    (unpin (g_base cx) stampF = true -> g_off cx <= oF /\ forall i, oF <= i -> g_own cx i) ->
    (forall x y i, In (x, CV y) (ce_env ce) \/ In (x, CP y) (ce_env ce) -> index_of sc1 y = Some i -> fst y = idf \/ (g_keep cx i /\ i < oF)) ->
    (forall i, ce_ghost ce i -> g_keep cx i /\ i < oF) ->
    (forall i, g_keep0 cx i -> g_keep cx i) ->
    stable cx P -> P vs n g ->
    G cx (fst (den1 nt (call_of nt fu) q rho v)) (Tend (lbf tco fu) cx (snd (den1 nt (call_of nt fu) q rho v)) P)
      (N sc1 pc (SV v :: g_st cx) (g_base cx) vs n o g).

(* one output, no new fork *)
Lemma G_single : forall lb c w s vs3 n3 o3 g3 (P : list sv -> nat -> gx -> Prop),
  steps s (N (g_sc c) (g_pc c) (SV w :: g_st c) (g_base c) vs3 n3 o3 g3) -> chg (g_own c) (vars_of s) vs3 ->
  cle (lbl_of s) (gx_of s) n3 g3 -> g_off c <= o3 <= length vs3 ->
  (forall vs2 n2 g2, keepK0 c vs3 vs2 -> cle n3 g3 n2 g2 -> P vs2 n2 g2) ->
  G c [w] (Tend lb c None P) s.
Proof.
  intros lb c w s vs3 n3 o3 g3 P St Ch Le Ho HP. simpl. exists [], vs3, n3, o3, g3. simpl.
  split; [auto|]. split; [auto|]. split; [auto|]. split; [auto|]. split; [reflexivity|]. intros vs2 n2 g2 K L.
  exists None, vs2, n2, g2. split; [constructor|]. split; [apply chg_refl|]. split; [apply cle_refl|]. split; [reflexivity|auto].
Qed.

(* no output: the enumeration ends *)
Lemma G_end : forall lb c s e vs3 n3 g3 fin (P : list sv -> nat -> gx -> Prop),
  steps s (B e (g_base c) vs3 n3 g3) -> chg (g_own c) (vars_of s) vs3 -> cle (lbl_of s) (gx_of s) n3 g3 ->
  encR (g_sc c) (g_ce c) vs3 fin e -> P vs3 n3 g3 ->
  G c [] (Tend lb c fin P) s.
Proof.
  intros lb c s e vs3 n3 g3 fin P St Ch Le HE HP. simpl. exists s.
  split; [constructor|]. split; [apply chg_refl|]. split; [apply cle_refl|].
  apply Tend_of. exists e, vs3, n3, g3. auto.
Qed.

Lemma G_cons : forall c w ws (T Tw : state -> Prop) s f0 fk0 vs3 n3 o3 g3,
  steps s (N (g_sc c) (g_pc c) (SV w :: g_st c) ((f0 :: fk0) ++ g_base c) vs3 n3 o3 g3) ->
  chg (g_own c) (vars_of s) vs3 -> cle (lbl_of s) (gx_of s) n3 g3 ->
  g_off c <= o3 <= length vs3 -> Forall (fun f => g_ctr c <= f_ctr f) (f0 :: fk0) ->
  (forall vs2 n2 g2, keepS c o3 vs3 vs2 -> cle n3 g3 n2 g2 ->
     G2 c ws T Tw (B None ((f0 :: fk0) ++ g_base c) vs2 n2 g2) /\
     (forall x, okerr (g_n0 c) x -> exists vs4 n4 g4,
         steps (B (Some x) ((f0 :: fk0) ++ g_base c) vs2 n2 g2) (B (Some x) (g_base c) vs4 n4 g4) /\
         chg (g_own c) vs2 vs4 /\ cle n2 g2 n4 g4)) ->
  G2 c (w :: ws) T Tw s.
Proof. intros. simpl. exists (f0 :: fk0), vs3, n3, o3, g3. split; [auto|]. split; [auto|]. split; [auto|]. split; auto. Qed.

(* change of the exit pc by silent steps that keep the state *)
Lemma G_exit : forall sc pc1 pc2 st fk (O K K0 : nat -> Prop) ce n0 o ko t (T Tw : state -> Prop),
  (forall w f vs n o' g, steps (N sc pc1 (SV w :: st) f vs n o' g) (N sc pc2 (SV w :: st) f vs n o' g)) ->
  forall ws s,
  G2 {| g_sc := sc; g_pc := pc1; g_st := st; g_base := fk; g_own := O; g_keep := K; g_keep0 := K0; g_ce := ce; g_n0 := n0; g_off := o; g_koff := ko; g_ctr := t |} ws T Tw s ->
  G2 {| g_sc := sc; g_pc := pc2; g_st := st; g_base := fk; g_own := O; g_keep := K; g_keep0 := K0; g_ce := ce; g_n0 := n0; g_off := o; g_koff := ko; g_ctr := t |} ws T Tw s.
Proof.
  intros sc pc1 pc2 st fk O K K0 ce n0 o ko t T Tw Hs. induction ws; simpl; intros s HG; auto.
  destruct HG as (fk' & vs3 & n3 & o3 & g3 & St & Ch & Le & Ho & R). exists fk', vs3, n3, o3, g3.
  split; [eapply steps_trans; [exact St|apply Hs]|]. split; [auto|]. split; [auto|]. split; [auto|].
  destruct fk' as [|f0 fk0]; [exact R|].
  intros vs2 n2 g2 Kp L2. destruct (R vs2 n2 g2 Kp L2) as [R1 R2]. split; auto.
Qed.

(* weakening: larger own set, same keep set, smaller n0 *)
Lemma G2_sub : forall cb c (T T' Tw Tw' : state -> Prop),
  g_sc cb = g_sc c -> g_pc cb = g_pc c -> g_st cb = g_st c -> g_base cb = g_base c ->
  (forall i, g_own cb i -> g_own c i) -> (forall o a b, keepS c o a b -> keepS cb o a b) -> (forall a b, keepK0 c a b -> keepK0 cb a b) -> g_n0 c <= g_n0 cb ->
  g_off c <= g_off cb -> g_ctr c <= g_ctr cb ->
  (forall s, T s -> T' s) -> (forall s, Tw s -> Tw' s) ->
  forall ws s, G2 cb ws T Tw s -> G2 c ws T' Tw' s.
Proof.
  intros cb c T T' Tw Tw' H0 H1 H2 H3 H4 H5 H5' H6 H8 H9 H7 H7' ws s HG.
  refine (G_ctx nt code cb c [] (fun _ _ _ => True) T Tw T' Tw' H0 H1 H2 H3 H4 H5 (fun _ a b H => H5' a b H) H6 H8 H9 (Forall_nil _) _ _ _ _ _ ws s I HG); auto.
  intros x vs n g _ _. exists vs, n, g. split; [constructor|]. split; [apply chg_refl|apply cle_refl].
Qed.
Lemma G_sub : forall cb c (T T' : state -> Prop),
  g_sc cb = g_sc c -> g_pc cb = g_pc c -> g_st cb = g_st c -> g_base cb = g_base c ->
  (forall i, g_own cb i -> g_own c i) -> (forall o a b, keepS c o a b -> keepS cb o a b) -> (forall a b, keepK0 c a b -> keepK0 cb a b) -> g_n0 c <= g_n0 cb ->
  g_off c <= g_off cb -> g_ctr c <= g_ctr cb ->
  (forall s, T s -> T' s) ->
  forall ws s, G cb ws T s -> G c ws T' s.
Proof. intros. eapply G2_sub; eauto. Qed.

Lemma seq_nil_r : forall r, seq r ([], None) = r.
Proof. intros [ws [x|]]; simpl; auto. rewrite app_nil_r. auto. Qed.

End L.

(* ---- induction over queries (option query arguments included) ---- *)
Section QInd.
Variable P : query -> Prop.
Definition Popt (h : option query) : Prop := match h with Some h' => P h' | None => True end.
Hypothesis Hid : P QId.
Hypothesis Hconst : forall c, P (QConst c).
Hypothesis Hpipe : forall a b, P a -> P b -> P (QPipe a b).
Hypothesis Hcomma : forall a b, P a -> P b -> P (QComma a b).
Hypothesis Hempty : P QEmpty.
Hypothesis Hiter : forall t, P t -> P (QIter t).
Hypothesis Hindex : forall t k, P t -> P (QIndex t k).
Hypothesis Hif : forall c a b, P c -> P a -> P b -> P (QIf c a b).
Hypothesis Halt : forall a b, P a -> P b -> P (QAlt a b).
Hypothesis Htry : forall a h, P a -> Popt h -> P (QTry a h).
Hypothesis Harr : forall q, P q -> P (QArray q).
Hypothesis Hreduce : forall s x i u, P s -> P i -> P u -> P (QReduce s x i u).
Hypothesis Hforeach : forall s x i u e, P s -> P i -> P u -> Popt e -> P (QForeach s x i u e).
Hypothesis Hlabel : forall l b, P b -> P (QLabel l b).
Hypothesis Hbreak : forall l, P (QBreak l).
Hypothesis Hbind : forall s x b, P s -> P b -> P (QBind s x b).
Hypothesis Hvar : forall x, P (QVar x).
Hypothesis Hcall0 : forall f, P (QCall0 f).
Hypothesis Hbinop : forall o a b, P a -> P b -> P (QBinop o a b).
Hypothesis Hdef : forall f ps body rest, P body -> P rest -> P (QDef f ps body rest).
Hypothesis Hcallf : forall f args, Forall P args -> P (QCallF f args).
Definition Pkey (k : list BinNums.N + query) : Prop := match k with inl _ => True | inr kq => P kq end.
Definition Pent (e : (list BinNums.N + query) * query) : Prop := Pkey (fst e) /\ P (snd e).
Hypothesis Hobject : forall es, Forall Pent es -> P (QObject es).
Hypothesis Hbindp : forall s p b, P s -> P b -> P (QBindP s p b).
Hypothesis Hindexq : forall t q, P t -> P q -> P (QIndexQ t q).
Hypothesis Hslice : forall t a b, P t -> P a -> P b -> P (QSlice t a b).
Hypothesis Hcall1 : forall f a, P a -> P (QCall1 f a).

Fixpoint query_ind' (q : query) : P q :=
  match q with
  | QId => Hid
  | QConst c => Hconst c
  | QPipe a b => Hpipe a b (query_ind' a) (query_ind' b)
  | QComma a b => Hcomma a b (query_ind' a) (query_ind' b)
  | QEmpty => Hempty
  | QIter t => Hiter t (query_ind' t)
  | QIndex t k => Hindex t k (query_ind' t)
  | QIf c a b => Hif c a b (query_ind' c) (query_ind' a) (query_ind' b)
  | QAlt a b => Halt a b (query_ind' a) (query_ind' b)
  | QTry a h => Htry a h (query_ind' a)
      (match h as o return Popt o with Some h' => query_ind' h' | None => I end)
  | QArray q => Harr q (query_ind' q)
  | QReduce s x i u => Hreduce s x i u (query_ind' s) (query_ind' i) (query_ind' u)
  | QForeach s x i u e => Hforeach s x i u e (query_ind' s) (query_ind' i) (query_ind' u)
      (match e as o return Popt o with Some e' => query_ind' e' | None => I end)
  | QLabel l b => Hlabel l b (query_ind' b)
  | QBreak l => Hbreak l
  | QBind s x b => Hbind s x b (query_ind' s) (query_ind' b)
  | QVar x => Hvar x
  | QCall0 f => Hcall0 f
  | QBinop o a b => Hbinop o a b (query_ind' a) (query_ind' b)
  | QDef f ps body rest => Hdef f ps body rest (query_ind' body) (query_ind' rest)
  | QCallF f args => Hcallf f args
      ((fix go (l : list query) : Forall P l :=
          match l with [] => Forall_nil P | x :: r => Forall_cons x (query_ind' x) (go r) end) args)
  | QBindP s p b => Hbindp s p b (query_ind' s) (query_ind' b)
  | QIndexQ t q => Hindexq t q (query_ind' t) (query_ind' q)
  | QSlice t a b => Hslice t a b (query_ind' t) (query_ind' a) (query_ind' b)
  | QCall1 f a => Hcall1 f a (query_ind' a)
  | QObject es => Hobject es
      ((fix go (l : list ((list BinNums.N + query) * query)) : Forall Pent l :=
          match l with
          | [] => Forall_nil Pent
          | (k, qv) :: r =>
              Forall_cons (k, qv)
                (@conj (Pkey k) (P qv)
                   (match k as k0 return Pkey k0 with inl _ => I | inr kq => query_ind' kq end) (query_ind' qv)) (go r)
          end) es)
  end.
End QInd.

Ltac dcomp :=
  repeat match goal with
  | H : match compg ?t ?q ?ce ?tp ?cur ?pc ?nv ?sn with _ => _ end = Some _ |- _ =>
      let E := fresh "Ec" in destruct (compg t q ce tp cur pc nv sn) as [[[? ?] ?]|] eqn:E; [|discriminate H]
  | H : match lookup ?x ?l with _ => _ end = Some _ |- _ =>
      let E := fresh "El" in destruct (lookup x l) eqn:E; [|discriminate H]
  | H : match lookup_cv ?x ?l with _ => _ end = Some _ |- _ =>
      let E := fresh "El" in destruct (lookup_cv x l) eqn:E; [|discriminate H]
  end.

(* the pattern of reduce / foreach: name the code of the pattern and decide the fragment test *)
Ltac dpat Hc :=
  match type of Hc with context [pcomp ?p ?c ?n] =>
    let E := fresh "Ep" in destruct (pcomp p c n) as [[? ?] ?] eqn:E;
    match type of Hc with context [pat_ok ?p' && names_nodup ?b] => destruct (pat_ok p' && names_nodup b); [|discriminate Hc] end
  end.

Ltac qind q :=
  induction q as [ | c | a b IHa IHb | a b IHa IHb | | t IHt | t k IHt | c a b IHc IHa IHb | a b IHa IHb
                 | a h IHa IHh | q IHq | s x i u IHs IHi IHu | s x i u e IHs IHi IHu IHe | l b IHb | l
                 | s x b IHs IHb | x | f | o a b IHa IHb | f ps body rest IHbody IHrest | f args IHargs | es IHes | s p b IHs IHb | t q IHt IHq | t a b IHt IHa IHb | f a IHa ] using query_ind'.

Lemma comp_args_mono : forall (C : query -> nat -> nat -> res) l p sn cas p' s2, comp_args C l p sn = Some (cas, p', s2) ->
  Forall (fun a => forall s p0 cb nvc s1, C a s p0 = Some (cb, nvc, s1) -> s <= s1) l -> sn <= s2.
Proof.
  induction l as [|a r IH]; intros p sn cas p' s2 H HF; simpl in H.
  - inversion H; subst. lia.
  - destruct (comp_args C r p sn) as [[[cr p1] s1]|] eqn:Er; [|discriminate].
    destruct (C a s1 p1) as [[[cb nvc] s3]|] eqn:Ea; [|discriminate]. inversion H; subst.
    inversion HF; subst. apply IH in Er; auto. apply H2 in Ea. lia.
Qed.

(* ---- comp_ents, generically in the compile function of the sub-queries ---- *)
Definition ent := ((list BinNums.N + query) * query)%type.
Definition EntP (P : query -> Prop) (e : ent) : Prop := Pkey P (fst e) /\ P (snd e).
Lemma comp_ents_mono : forall (C : query -> nat -> nat -> nat -> res) v (es : list ent) p n s cs n' s',
  comp_ents C v es p n s = Some (cs, n', s') ->
  Forall (EntP (fun a => forall p n s c n' s', C a p n s = Some (c, n', s') -> n <= n' /\ s <= s')) es -> n <= n' /\ s <= s'.
Proof.
  induction es as [|[k qv] r IH]; intros p n s cs n' s' H HF; simpl in H.
  - inversion H; subst. lia.
  - inversion HF as [|? ? [Hk Hv] HF']; subst. simpl in Hk, Hv.
    destruct k as [str|kq].
    + destruct (C qv (p + length [Ipush (VStr str)] + 1) n s) as [[[cv n2] s2]|] eqn:Ev; [|discriminate].
      destruct (comp_ents C v r _ n2 s2) as [[[cr n3] s3]|] eqn:Er; [|discriminate]. inversion H; subst.
      apply Hv in Ev. apply IH in Er; auto. lia.
    + destruct (C kq (S p) n s) as [[[ck n1] s1]|] eqn:Ek; [|discriminate].
      destruct (C qv (p + length (Iload v :: ck) + 1) n1 s1) as [[[cv n2] s2]|] eqn:Ev; [|discriminate].
      destruct (comp_ents C v r _ n2 s2) as [[[cr n3] s3]|] eqn:Er; [|discriminate]. inversion H; subst.
      apply Hk in Ek. apply Hv in Ev. apply IH in Er; auto. lia.
Qed.
Lemma comp_ents_ext : forall (C C' : query -> nat -> nat -> nat -> res) v (es : list ent),
  Forall (EntP (fun a => forall p n s, C a p n s = C' a p n s)) es -> forall p n s, comp_ents C v es p n s = comp_ents C' v es p n s.
Proof.
  induction es as [|[k qv] r IH]; intros HF p n s; simpl; [reflexivity|].
  inversion HF as [|? ? [Hk Hv] HF']; subst. simpl in Hk, Hv.
  destruct k as [str|kq].
  - rewrite Hv. destruct (C' qv _ n s) as [[[cv n2] s2]|]; [|reflexivity]. rewrite (IH HF'). reflexivity.
  - rewrite Hk. destruct (C' kq (S p) n s) as [[[ck n1] s1]|]; [|reflexivity].
    rewrite Hv. destruct (C' qv _ n1 s1) as [[[cv n2] s2]|]; [|reflexivity]. rewrite (IH HF'). reflexivity.
Qed.
Fixpoint ents_nvars (es : list ent) : nat :=
  match es with
  | [] => 0
  | (k, qv) :: r => match k with inl _ => 0 | inr kq => nvars kq end + nvars qv + ents_nvars r
  end.
Lemma nvars_object : forall e es, nvars (QObject (e :: es)) = S (ents_nvars (e :: es)).
Proof. intros [k qv] es. reflexivity. Qed.
Lemma comp_ents_nvars : forall (C : query -> nat -> nat -> nat -> res) v (es : list ent) p n s cs n' s',
  comp_ents C v es p n s = Some (cs, n', s') ->
  Forall (EntP (fun a => forall p n s c n' s', C a p n s = Some (c, n', s') -> n' = n + nvars a)) es -> n' = n + ents_nvars es.
Proof.
  induction es as [|[k qv] r IH]; intros p n s cs n' s' H HF; simpl in H.
  - inversion H; subst. simpl. lia.
  - inversion HF as [|? ? [Hk Hv] HF']; subst. simpl in Hk, Hv.
    destruct k as [str|kq].
    + destruct (C qv (p + length [Ipush (VStr str)] + 1) n s) as [[[cv n2] s2]|] eqn:Ev; [|discriminate].
      destruct (comp_ents C v r _ n2 s2) as [[[cr n3] s3]|] eqn:Er; [|discriminate]. inversion H; subst.
      apply Hv in Ev. apply IH in Er; auto. simpl. lia.
    + destruct (C kq (S p) n s) as [[[ck n1] s1]|] eqn:Ek; [|discriminate].
      destruct (C qv (p + length (Iload v :: ck) + 1) n1 s1) as [[[cv n2] s2]|] eqn:Ev; [|discriminate].
      destruct (comp_ents C v r _ n2 s2) as [[[cr n3] s3]|] eqn:Er; [|discriminate]. inversion H; subst.
      apply Hk in Ek. apply Hv in Ev. apply IH in Er; auto. simpl. lia.
Qed.
Lemma Forall_EntP_impl : forall (P Q : query -> Prop) (es : list ent), (forall a, P a -> Q a) -> Forall (EntP P) es -> Forall (EntP Q) es.
Proof.
  intros P Q es H HF. eapply Forall_impl; [|exact HF]. intros [k qv] [Hk Hv]. split; [destruct k; simpl in *; auto|simpl in *; auto].
Qed.

(* ---- compilePattern ---- *)
Scheme pattern_mind := Induction for pattern Sort Prop
  with parr_mind := Induction for parr Sort Prop
  with pobj_mind := Induction for pobj Sort Prop.
Combined Scheme pattern_mutind from pattern_mind, parr_mind, pobj_mind.

Lemma pcomp_nvars :
  (forall p cur nv c b n, pcomp p cur nv = (c, b, n) -> n = nv + pat_nvars p) /\
  (forall l i v cur nv c b n, parr_comp l i v cur nv = (c, b, n) -> n = nv + parr_nvars l) /\
  (forall l v cur nv c b n, pobj_comp l v cur nv = (c, b, n) -> n = nv + pobj_nvars l).
Proof.
  apply pattern_mutind; simpl; intros.
  - inversion H; subst. lia.
  - destruct (parr_comp l 0 (cur, nv) cur (S nv)) as [[c0 b0] n0] eqn:E. inversion H0; subst. apply H in E. lia.
  - destruct (pobj_comp l (cur, nv) cur (S nv)) as [[c0 b0] n0] eqn:E. inversion H0; subst. apply H in E. lia.
  - inversion H; subst. lia.
  - destruct (pcomp p cur nv) as [[c1 b1] n1] eqn:E1. destruct (parr_comp r (S i) v cur n1) as [[c2 b2] n2] eqn:E2.
    inversion H1; subst. apply H in E1. apply H0 in E2. lia.
  - inversion H; subst. lia.
  - destruct (pcomp p cur nv) as [[c1 b1] n1] eqn:E1. destruct (pobj_comp r v cur n1) as [[c2 b2] n2] eqn:E2.
    inversion H1; subst. apply H in E1. apply H0 in E2. lia.
  - destruct (pcomp p cur (S nv)) as [[c1 b1] n1] eqn:E1. destruct (pobj_comp r v cur n1) as [[c2 b2] n2] eqn:E2.
    inversion H1; subst. apply H in E1. apply H0 in E2. lia.
Qed.
Lemma add_vars_lbls : forall bs ce, ce_lbls (add_vars ce bs) = ce_lbls ce.
Proof. induction bs as [|[x y] r IH]; intros ce; simpl; auto. Qed.
Lemma add_vars_ghost : forall bs ce, ce_ghost (add_vars ce bs) = ce_ghost ce.
Proof. induction bs as [|[x y] r IH]; intros ce; simpl; auto. Qed.
Lemma add_vars_env : forall bs ce, ce_env (add_vars ce bs) = map (fun e => (fst e, CV (snd e))) bs ++ ce_env ce.
Proof. induction bs as [|[x y] r IH]; intros ce; simpl; auto. rewrite IH. reflexivity. Qed.

Section CF.
Variable tco : bool.

(* compileIndex with a computed index / computed slice bounds *)
Lemma comp_indexq_inv : forall t q ce tp cur pc nv sn cq nv' sn', compg tco (QIndexQ t q) ce tp cur pc nv sn = Some (cq, nv', sn') ->
  keyc_index q = false /\ cur < sn /\ ce_lt ce sn = true /\ exists cb nb s1 ca na,
    compg tco q ce None sn (S (S pc) + 2) 0 (S sn) = Some (cb, nb, s1) /\
    compg tco t ce None s1 (S pc + length (wrap_exp (arg_code (cur, nv) (S (S pc)) sn cb nb)) + 2) 0 (S s1) = Some (ca, na, sn') /\
    cq = Istore (cur, nv) :: wrap_exp (arg_code (cur, nv) (S (S pc)) sn cb nb) ++
           arg_code (cur, nv) (S pc + length (wrap_exp (arg_code (cur, nv) (S (S pc)) sn cb nb))) s1 ca na ++ [Ipush VNull; Icall NIndex2] /\
    nv' = S nv.
Proof.
  intros t q ce tp cur pc nv sn cq nv' sn' Hc. cbn -[Nat.add Nat.ltb Nat.eqb ce_lt arg_code wrap_exp keyc_index] in Hc.
  destruct (keyc_index q); [discriminate|]. split; [reflexivity|]. cbn [negb andb] in Hc.
  destruct (Nat.ltb_spec cur sn) as [Hlt|]; [|discriminate]. split; [exact Hlt|].
  destruct (ce_lt ce sn) eqn:Hce; [|discriminate]. split; [reflexivity|]. cbn [andb] in Hc.
  destruct (compg tco q ce None sn (S (S pc) + 2) 0 (S sn)) as [[[cb nb] s1]|] eqn:Eb; [|discriminate]. cbv iota beta in Hc.
  match type of Hc with context [compg tco t ?ce0 ?t0 ?c0 ?p0 ?n0 ?s0] =>
    destruct (compg tco t ce0 t0 c0 p0 n0 s0) as [[[ca na] s2]|] eqn:Ea; [|discriminate] end.
  cbv iota beta in Hc. inversion Hc; subst. exists cb, nb, s1, ca, na. auto.
Qed.
Lemma comp_slice_inv : forall t a b ce tp cur pc nv sn cq nv' sn', compg tco (QSlice t a b) ce tp cur pc nv sn = Some (cq, nv', sn') ->
  keyc_bound a && keyc_bound b = false /\ cur < sn /\ ce_lt ce sn = true /\ exists ca na s1 cb nb s2 ct nt0,
    let ca' := arg_code (cur, nv) (S (S pc)) sn ca na in
    let cb' := arg_code (cur, nv) (S (S pc) + length ca') s1 cb nb in
    compg tco a ce None sn (S (S pc) + 2) 0 (S sn) = Some (ca, na, s1) /\
    compg tco b ce None s1 (S (S pc) + length ca' + 2) 0 (S s1) = Some (cb, nb, s2) /\
    compg tco t ce None s2 (S (S pc) + length ca' + length cb' + 1 + 2) 0 (S s2) = Some (ct, nt0, sn') /\
    cq = Istore (cur, nv) :: Iexpbegin :: ca' ++ cb' ++ Iexpend ::
           arg_code (cur, nv) (S (S pc) + length ca' + length cb' + 1) s2 ct nt0 ++ [Ipush VNull; Icall NSlice3] /\
    nv' = S nv.
Proof.
  intros t a b ce tp cur pc nv sn cq nv' sn' Hc. cbn -[Nat.add Nat.ltb Nat.eqb ce_lt arg_code keyc_bound] in Hc.
  destruct (keyc_bound a && keyc_bound b); [discriminate|]. split; [reflexivity|]. cbn [negb andb] in Hc.
  destruct (Nat.ltb_spec cur sn) as [Hlt|]; [|discriminate]. split; [exact Hlt|].
  destruct (ce_lt ce sn) eqn:Hce; [|discriminate]. split; [reflexivity|]. cbn [andb] in Hc.
  destruct (compg tco a ce None sn (S (S pc) + 2) 0 (S sn)) as [[[ca na] s1]|] eqn:Ea; [|discriminate]. cbv iota beta in Hc.
  match type of Hc with context [compg tco b ?ce0 ?t0 ?c0 ?p0 ?n0 ?s0] =>
    destruct (compg tco b ce0 t0 c0 p0 n0 s0) as [[[cb nb] s2]|] eqn:Eb; [|discriminate] end. cbv iota beta in Hc.
  match type of Hc with context [compg tco t ?ce0 ?t0 ?c0 ?p0 ?n0 ?s0] =>
    destruct (compg tco t ce0 t0 c0 p0 n0 s0) as [[[ct nt0] s3]|] eqn:Et; [|discriminate] end.
  cbv iota beta in Hc. inversion Hc; subst. exists ca, na, s1, cb, nb, s2, ct, nt0. cbv zeta. auto 8.
Qed.

(* a native with one argument *)
Lemma comp_call1_inv : forall f a ce tp cur pc nv sn cq nv' sn', compg tco (QCall1 f a) ce tp cur pc nv sn = Some (cq, nv', sn') ->
  cur < sn /\ ce_lt ce sn = true /\ exists cb nb,
    compg tco a ce None sn (S pc + 2) 0 (S sn) = Some (cb, nb, sn') /\
    cq = Istore (cur, nv) :: arg_code (cur, nv) (S pc) sn cb nb ++ [Iload (cur, nv); Icall (NF1 f)] /\ nv' = S nv.
Proof.
  intros f a ce tp cur pc nv sn cq nv' sn' Hc. cbn -[Nat.add Nat.ltb Nat.eqb ce_lt arg_code] in Hc.
  destruct (Nat.ltb_spec cur sn) as [Hlt|]; [|discriminate]. split; [exact Hlt|].
  destruct (ce_lt ce sn) eqn:Hce; [|discriminate]. split; [reflexivity|]. cbn [andb] in Hc.
  destruct (compg tco a ce None sn (S pc + 2) 0 (S sn)) as [[[cb nb] s1]|] eqn:Eb; [|discriminate].
  inversion Hc; subst. exists cb, nb. auto.
Qed.

(* compileBind with a destructuring pattern *)
Lemma comp_bindp_inv : forall qs p qb ce tp cur pc nv sn cq nv' sn', compg tco (QBindP qs p qb) ce tp cur pc nv sn = Some (cq, nv', sn') ->
  is_pvar p = false /\ pat_ok p = true /\
  exists cs n1 s1 cp bs n2 cb, compg tco qs ce None cur (pc + 2) nv sn = Some (cs, n1, s1) /\
    pcomp p cur n1 = (cp, bs, n2) /\ names_nodup bs = true /\
    compg tco qb (add_vars ce bs) (tl_fb tp) cur (pc + 2 + length cs + length cp + 1) n2 s1 = Some (cb, nv', sn') /\
    cq = Idup :: Iexpbegin :: cs ++ cp ++ Iexpend :: cb.
Proof.
  intros qs p qb ce tp cur pc nv sn cq nv' sn' Hc. cbn [compg] in Hc.
  destruct (is_pvar p); [discriminate|]. destruct (pat_ok p); [|discriminate]. cbn [negb andb] in Hc.
  split; [reflexivity|]. split; [reflexivity|].
  destruct (compg tco qs ce None cur (pc + 2) nv sn) as [[[cs n1] s1]|] eqn:Es; [|discriminate].
  destruct (pcomp p cur n1) as [[cp bs] n2] eqn:Ep.
  destruct (names_nodup bs) eqn:En; [|discriminate].
  match type of Hc with context [compg tco qb ?ce0 ?t0 ?c0 ?p0 ?n0 ?s0] =>
    destruct (compg tco qb ce0 t0 c0 p0 n0 s0) as [[[cb n3] s2]|] eqn:Eb; [|discriminate] end.
  inversion Hc; subst. exists cs, n1, s1, cp, bs, n2, cb. auto 8.
Qed.

(* compileReduce / compileForeach *)
Lemma comp_reduce_inv : forall qs p qi qu ce tp cur pc nv sn cq nv' sn',
  compg tco (QReduce qs p qi qu) ce tp cur pc nv sn = Some (cq, nv', sn') ->
  pat_ok p = true /\ exists ci n1 s1 cs n2 s2 cp bs n2' cu,
    compg tco qi ce None cur (S pc) (S nv) sn = Some (ci, n1, s1) /\
    compg tco qs ce None cur (pc + 1 + length ci + 2) n1 s1 = Some (cs, n2, s2) /\
    pcomp p cur n2 = (cp, bs, n2') /\ names_nodup bs = true /\
    compg tco qu (add_vars ce bs) None cur (pc + 1 + length ci + 2 + length cs + length cp + 1) n2' s2 = Some (cu, nv', sn') /\
    cq = Idup :: ci ++ Istore (cur, nv) :: Ifork (pc + 1 + length ci + 2 + length cs + length cp + 1 + length cu + 2) :: cs ++
           cp ++ Iload (cur, nv) :: cu ++ [Istore (cur, nv); Ibacktrack; Ipop; Iload (cur, nv)].
Proof.
  intros qs p qi qu ce tp cur pc nv sn cq nv' sn' Hc. cbn [compg] in Hc.
  destruct (compg tco qi ce None cur (S pc) (S nv) sn) as [[[ci n1] s1]|] eqn:Ei; [|discriminate].
  destruct (compg tco qs ce None cur (pc + 1 + length ci + 2) n1 s1) as [[[cs n2] s2]|] eqn:Es; [|discriminate].
  destruct (pcomp p cur n2) as [[cp bs] n2'] eqn:Ep.
  destruct (pat_ok p); [|discriminate]. destruct (names_nodup bs) eqn:En; [|discriminate]. cbn [andb] in Hc.
  match type of Hc with context [compg tco qu ?ce0 ?t0 ?c0 ?p0 ?n0 ?s0] =>
    destruct (compg tco qu ce0 t0 c0 p0 n0 s0) as [[[cu n3] s3]|] eqn:Eu; [|discriminate] end.
  inversion Hc; subst. split; [reflexivity|]. exists ci, n1, s1, cs, n2, s2, cp, bs, n2', cu. auto 8.
Qed.
Lemma comp_foreach_inv : forall qs p qi qu ext ce tp cur pc nv sn cq nv' sn',
  compg tco (QForeach qs p qi qu ext) ce tp cur pc nv sn = Some (cq, nv', sn') ->
  pat_ok p = true /\ exists ci n1 s1 cs n2 s2 cp bs n2' cu n3 s3 cx,
    compg tco qi ce None cur (S pc) (S nv) sn = Some (ci, n1, s1) /\
    compg tco qs ce None cur (pc + 1 + length ci + 1) n1 s1 = Some (cs, n2, s2) /\
    pcomp p cur n2 = (cp, bs, n2') /\ names_nodup bs = true /\
    compg tco qu (add_vars ce bs) None cur (pc + 1 + length ci + 1 + length cs + length cp + 1) n2' s2 = Some (cu, n3, s3) /\
    match ext with
    | Some e => compg tco e (add_vars ce bs) (tl_fb tp) cur (pc + 1 + length ci + 1 + length cs + length cp + 1 + length cu + 2) n3 s3 = Some (cx, nv', sn')
    | None => cx = [] /\ nv' = n3 /\ sn' = s3
    end /\
    cq = Idup :: ci ++ Istore (cur, nv) :: cs ++ cp ++ Iload (cur, nv) :: cu ++ Idup :: Istore (cur, nv) :: cx.
Proof.
  intros qs p qi qu ext ce tp cur pc nv sn cq nv' sn' Hc. cbn [compg] in Hc.
  destruct (compg tco qi ce None cur (S pc) (S nv) sn) as [[[ci n1] s1]|] eqn:Ei; [|discriminate].
  destruct (compg tco qs ce None cur (pc + 1 + length ci + 1) n1 s1) as [[[cs n2] s2]|] eqn:Es; [|discriminate].
  destruct (pcomp p cur n2) as [[cp bs] n2'] eqn:Ep.
  destruct (pat_ok p); [|discriminate]. destruct (names_nodup bs) eqn:En; [|discriminate]. cbn [andb] in Hc.
  match type of Hc with context [compg tco qu ?ce0 ?t0 ?c0 ?p0 ?n0 ?s0] =>
    destruct (compg tco qu ce0 t0 c0 p0 n0 s0) as [[[cu n3] s3]|] eqn:Eu; [|discriminate] end.
  split; [reflexivity|]. destruct ext as [e|].
  - match type of Hc with context [compg tco e ?ce0 ?t0 ?c0 ?p0 ?n0 ?s0] =>
      destruct (compg tco e ce0 t0 c0 p0 n0 s0) as [[[cx n4] s4]|] eqn:Ex; [|discriminate] end.
    inversion Hc; subst. exists ci, n1, s1, cs, n2, s2, cp, bs, n2', cu, n3, s3, cx. auto 10.
  - inversion Hc; subst. exists ci, n1, s1, cs, n2, s2, cp, bs, n2', cu, nv', sn', []. auto 10.
Qed.

(* compileObject *)
Lemma comp_object_inv : forall C v e es pc nv sn cq nv' sn',
  comp_object C v (e :: es) pc nv sn = Some (cq, nv', sn') ->
  exists cs, comp_ents C v (e :: es) (S pc) (S nv) sn = Some (cs, nv', sn') /\
    ((exists kcs w, ents_const cs = Some kcs /\ mk_obj kcs = inl w /\ cq = [Iconst w]) \/
     (ents_const cs = None /\ cq = Istore v :: concat cs ++ [Iobject (length (e :: es))])).
Proof.
  intros C v e es pc nv sn cq nv' sn' Hc. unfold comp_object in Hc.
  destruct (comp_ents C v (e :: es) (S pc) (S nv) sn) as [[[cs n1] s1]|] eqn:E; [|discriminate].
  exists cs. destruct (ents_const cs) as [kcs|] eqn:Ek.
  - destruct (mk_obj kcs) as [w|] eqn:Em; [|discriminate]. inversion Hc; subst. split; [reflexivity|]. left. exists kcs, w. auto.
  - inversion Hc; subst. split; [reflexivity|]. right. auto.
Qed.

Lemma comp_mono : forall q ce tp cur pc nv sn cq nv' sn', compg tco q ce tp cur pc nv sn = Some (cq, nv', sn') -> nv <= nv' /\ sn <= sn'.
Proof.
  qind q; intros ce tp cur pc nv sn cq nv' sn' Hc; simpl in Hc; dcomp;
    repeat match goal with
    | IH : forall ce tp cur pc nv sn cq nv' sn', compg tco ?q ce tp cur pc nv sn = Some (cq, nv', sn') -> _,
      E : compg tco ?q _ _ _ _ _ _ = Some _ |- _ => apply IH in E
    end;
    try (inversion Hc; subst; lia).
  - (* if *) destruct (is_const1 l0), (is_const1 l1); inversion Hc; subst; lia.
  - (* try *) destruct h as [h|]; simpl in *; dcomp; inversion Hc; subst; clear Hc.
    + apply IHh in Ec0. lia. + lia.
  - (* array *) destruct (array_fold q); inversion Hc; subst; lia.
  - (* reduce *) dpat Hc. dcomp. apply IHu in Ec1. apply pcomp_nvars in Ep. inversion Hc; subst; lia.
  - (* foreach *) dpat Hc. dcomp. apply IHu in Ec1. apply pcomp_nvars in Ep.
    destruct e as [e|]; simpl in *; dcomp; inversion Hc; subst; clear Hc.
    + apply IHe in Ec2. lia. + lia.
  - (* binop *) destruct (Nat.ltb cur sn && ce_lt ce sn); [|discriminate].
    match type of Hc with context [compg tco b ce ?t ?c ?p ?n ?s] =>
      destruct (compg tco b ce t c p n s) as [[[cb nb] s1]|] eqn:Eb; [|discriminate] end. cbv iota beta in Hc.
    match type of Hc with context [compg tco a ce ?t ?c ?p ?n ?s] =>
      destruct (compg tco a ce t c p n s) as [[[ca na] s2]|] eqn:Ea; [|discriminate] end. cbv iota beta in Hc.
    inversion Hc; subst. apply IHb in Eb. apply IHa in Ea. lia.
  - (* def *) destruct (Nat.ltb cur sn && ce_lt ce sn); [|discriminate].
    dcomp. inversion Hc; subst. apply IHbody in Ec. apply IHrest in Ec0. lia.
  - (* callf *) destruct (lookup_cf f (length args) (ce_env ce)) as [[y|p n|y]|]; try discriminate.
    + destruct args as [|a0 args']; [destruct (tail_call tp p); [inversion Hc; subst; lia|discriminate]|].
      destruct (Nat.ltb cur sn && ce_lt ce sn); [|discriminate].
      match type of Hc with context [comp_args ?C ?l ?p ?s] => destruct (comp_args C l p s) as [[[cas p'] s2]|] eqn:Ea; [|discriminate] end.
      inversion Hc; subst. split; [lia|].
      eapply (comp_args_mono _ _ _ _ _ _ _ Ea).
      eapply Forall_impl; [|exact IHargs]. simpl. intros a Ha s p0 cb nvc s1 Hca. apply Ha in Hca. lia.
    + inversion Hc; subst; lia.
  - (* object *) destruct es as [|e es]; [inversion Hc; subst; lia|].
    destruct (comp_object_inv _ _ _ _ _ _ _ _ _ _ Hc) as (cs & E & _).
    apply comp_ents_mono in E; [lia|]. eapply Forall_EntP_impl; [|exact IHes]. simpl. intros a Ha p n s c n' s' H. eapply Ha; eauto.
  - (* bindp *) change (compg tco (QBindP s p b) ce tp cur pc nv sn = Some (cq, nv', sn')) in Hc.
    destruct (comp_bindp_inv _ _ _ _ _ _ _ _ _ _ _ _ Hc) as (_ & _ & cs & n1 & s1 & cp & bs & n2 & cb & Es & Ep & _ & Eb & _).
    apply IHs in Es. apply IHb in Eb. apply pcomp_nvars in Ep. lia.
  - (* indexq *) change (compg tco (QIndexQ t q) ce tp cur pc nv sn = Some (cq, nv', sn')) in Hc.
    destruct (comp_indexq_inv _ _ _ _ _ _ _ _ _ _ _ Hc) as (_ & _ & _ & cb & nb & s1 & ca & na & Eb & Ea & _ & ->).
    apply IHq in Eb. apply IHt in Ea. lia.
  - (* slice *) change (compg tco (QSlice t a b) ce tp cur pc nv sn = Some (cq, nv', sn')) in Hc.
    destruct (comp_slice_inv _ _ _ _ _ _ _ _ _ _ _ _ Hc) as (_ & _ & _ & ca & na & s1 & cb & nb & s2 & ct & nt0 & Ea & Eb & Et & _ & ->).
    apply IHa in Ea. apply IHb in Eb. apply IHt in Et. lia.
  - (* call1 *) change (compg tco (QCall1 f a) ce tp cur pc nv sn = Some (cq, nv', sn')) in Hc.
    destruct (comp_call1_inv _ _ _ _ _ _ _ _ _ _ _ Hc) as (_ & _ & cb & nb & Eb & _ & ->). apply IHa in Eb. lia.
Qed.

(* the compiler does not look at the ghost field of the environment *)
Lemma comp_args_ext : forall (C C' : query -> nat -> nat -> res) l,
  Forall (fun a => forall s p, C a s p = C' a s p) l -> forall p sn, comp_args C l p sn = comp_args C' l p sn.
Proof.
  induction l as [|a r IH]; intros HF p sn; simpl; [reflexivity|]. inversion HF; subst.
  rewrite (IH H2). destruct (comp_args C' r p sn) as [[[cr p1] s1]|]; [|reflexivity]. rewrite H1. reflexivity.
Qed.

Ltac cg1 ce ce' :=
  match goal with
  | IH : (forall c1 c2 : cenv, ce_env c1 = ce_env c2 -> ce_lbls c1 = ce_lbls c2 -> forall tp cur pc nv sn, compg tco ?s c1 tp cur pc nv sn = compg tco ?s c2 tp cur pc nv sn)
    |- context [compg tco ?s ?c ?t ?a1 ?a2 ?a3 ?a4] =>
      lazymatch c with context [ce'] => fail | context [ce] => idtac end;
      let f := (eval pattern ce in c) in
      match f with ?F _ => let c' := (eval cbv beta in (F ce')) in
         rewrite (IH c c' ltac:(rewrite ?add_vars_env; simpl; congruence) ltac:(rewrite ?add_vars_lbls; simpl; congruence) t a1 a2 a3 a4) end
  end.

Ltac cg ce ce' :=
  repeat first
    [ reflexivity
    | cg1 ce ce'
    | match goal with
      | |- (if ?g then _ else _) = (if ?g then _ else _) => destruct g; [|reflexivity]
      | |- context [pcomp ?p ?c ?n] => destruct (pcomp p c n) as [[? ?] ?]
      | |- context [compg tco ?s ?c ?t ?a1 ?a2 ?a3 ?a4] => destruct (compg tco s c t a1 a2 a3 a4) as [[[? ?] ?]|]; cbv iota beta
      end ].

Lemma comp_ghost : forall q ce ce', ce_env ce = ce_env ce' -> ce_lbls ce = ce_lbls ce' ->
  forall tp cur pc nv sn, compg tco q ce tp cur pc nv sn = compg tco q ce' tp cur pc nv sn.
Proof.
  qind q; intros ce ce' He Hl tp cur pc nv sn; cbn -[Nat.add Nat.ltb Nat.eqb ce_lt prelude param_env param_slots comp_args tl_body tail_call tl_fb emptycode transparent comp_object arg_code wrap_exp keyc_index keyc_bound];
    try reflexivity; unfold ce_lt; rewrite ?He, ?Hl.
  - cg ce ce'.
  - cg ce ce'.
  - cg ce ce'.
  - cg ce ce'.
  - cg ce ce'.
  - cg ce ce'.
  - destruct h as [h|]; simpl in IHh; cg ce ce'.
  - cg ce ce'.
  - cg ce ce'.
  - destruct e as [e|]; simpl in IHe; cg ce ce'.
  - cg ce ce'.
  - reflexivity.
  - cg ce ce'.
  - reflexivity.
  - cg ce ce'.
  - cg ce ce'.
  - destruct (lookup_cf f (length args) (ce_env ce')) as [[y|p n|y]|]; try reflexivity.
    destruct args as [|a0 args']; [reflexivity|].
    rewrite (comp_args_ext (fun a s' p' => compg tco a (fun_env ce) None s' (p' + 2) 0 (S s')) (fun a s' p' => compg tco a (fun_env ce') None s' (p' + 2) 0 (S s'))); [reflexivity|].
    eapply Forall_impl; [|exact IHargs]. simpl. intros a Ha s p0. apply Ha; simpl; congruence.
  - (* object *) destruct es as [|e es]; [reflexivity|]. unfold comp_object.
    rewrite (comp_ents_ext (fun a p n s => compg tco a ce None cur p n s) (fun a p n s => compg tco a ce' None cur p n s)); [reflexivity|].
    eapply Forall_EntP_impl; [|exact IHes]. simpl. intros a Ha p n s. apply Ha; auto.
  - (* bindp *) destruct (negb (is_pvar p) && pat_ok p); [|reflexivity].
    rewrite (IHs ce ce' He Hl). destruct (compg tco s ce' None cur (pc + 2) nv sn) as [[[cs n1] s1]|]; [|reflexivity].
    destruct (pcomp p cur n1) as [[cp bs] n2]. destruct (names_nodup bs); [|reflexivity].
    rewrite (IHb (add_vars ce bs) (add_vars ce' bs)); [reflexivity| |].
    + rewrite !add_vars_env. congruence.
    + rewrite !add_vars_lbls. exact Hl.
  - (* indexq *) cg ce ce'.
  - (* slice *) cg ce ce'.
  - (* call1 *) cg ce ce'.
Qed.

Lemma lookup_cf_cp : forall l f n y, lookup_cf f n l = Some (CP y) -> n = 0.
Proof.
  induction l as [|[z [k|q m|k]] r IH]; intros f n y H; simpl in H; try discriminate; eauto.
  - destruct (N.eqb f z && Nat.eqb m n); [discriminate|eauto].
  - destruct (Nat.eqb_spec n 0); [auto|]. rewrite andb_false_r in H. eauto.
Qed.

(* a position that optimizeTailRec treats as a tail position but the theorem does not (tl = Some (pe, None)): if the
   query compiles there, it compiles to the same code in the ordinary mode *)
Lemma comp_forbid : forall pe q ce cur pc nv sn r,
  compg tco q ce (Some (pe, None)) cur pc nv sn = Some r -> compg tco q ce None cur pc nv sn = Some r.
Proof.
  intros pe. qind q; intros ce cur pc nv sn r Hc; cbn -[Nat.add Nat.ltb Nat.eqb ce_lt prelude param_env param_slots comp_args tl_body emptycode transparent comp_object arg_code wrap_exp keyc_index keyc_bound] in Hc |- *;
    try exact Hc;
    try (destruct (transparent b));
    repeat match goal with
    | Hc : context [match compg ?t ?q0 ?ce0 ?tp ?c ?p ?n ?s with _ => _ end] |- _ =>
        let E := fresh "E" in destruct (compg t q0 ce0 tp c p n s) as [[[? ?] ?]|] eqn:E; [|discriminate Hc];
        try (match tp with Some _ =>
               match goal with IH : forall ce cur pc nv sn r, compg _ q0 ce (Some (pe, None)) cur pc nv sn = Some r -> _ |- _ => apply IH in E end end);
        try rewrite E
    end; try exact Hc.
  - (* try *) destruct h as [h|]; simpl in *; [|exact Hc].
    match type of Hc with context [compg tco h ?ce0 ?tp ?c ?p ?n1 ?s] =>
      destruct (compg tco h ce0 tp c p n1 s) as [[[? ?] ?]|] eqn:Eh; [|discriminate Hc] end.
    apply IHh in Eh. rewrite Eh. exact Hc.
  - (* foreach *) dpat Hc.
    match type of Hc with context [compg tco u ?ce0 ?tp ?c ?p ?n1 ?s] =>
      destruct (compg tco u ce0 tp c p n1 s) as [[[? ?] ?]|] eqn:Eu; [|discriminate Hc] end.
    destruct e as [e|]; simpl in *; [|exact Hc].
    match type of Hc with context [compg tco e ?ce0 ?tp ?c ?p ?n1 ?s] =>
      destruct (compg tco e ce0 tp c p n1 s) as [[[? ?] ?]|] eqn:Ee; [|discriminate Hc]; apply IHe in Ee; rewrite Ee end. exact Hc.
  - (* def *) destruct (Nat.ltb cur sn && ce_lt ce sn); [|discriminate Hc].
    repeat match goal with
    | Hc : context [match compg ?t ?q0 ?ce0 ?tp ?c ?p ?n ?s with _ => _ end] |- _ =>
        let E := fresh "E" in destruct (compg t q0 ce0 tp c p n s) as [[[? ?] ?]|] eqn:E; [|discriminate Hc];
        try (match tp with Some (_, None) => apply IHrest in E end);
        try rewrite E
    end. exact Hc.
  - (* callf *) destruct (lookup_cf f (length args) (ce_env ce)) as [[y|p n|y]|]; try exact Hc.
    destruct args as [|a0 args']; [|exact Hc]. unfold tail_call in *. destruct (Nat.eqb pe p); [discriminate Hc|exact Hc].
  (* bindp (twice: the case split on `transparent b` above also fired here) *)
  - destruct r as [[cq nv'] sn'];
    change (compg tco (QBindP s p b) ce (Some (pe, None)) cur pc nv sn = Some (cq, nv', sn')) in Hc;
    destruct (comp_bindp_inv _ _ _ _ _ _ _ _ _ _ _ _ Hc) as (Hpv & Hok & cs & n1 & s1 & cp & bs & n2 & cb & Es & Ep & En & Eb & ->);
    cbn [tl_fb] in Eb; apply IHb in Eb;
    change (compg tco (QBindP s p b) ce None cur pc nv sn = Some (Idup :: Iexpbegin :: cs ++ cp ++ Iexpend :: cb, nv', sn'));
    cbn [compg]; rewrite Hpv, Hok; cbn [negb andb]; rewrite Es, Ep, En; cbn [tl_fb]; rewrite Eb; reflexivity.
  - destruct r as [[cq nv'] sn'];
    change (compg tco (QBindP s p b) ce (Some (pe, None)) cur pc nv sn = Some (cq, nv', sn')) in Hc;
    destruct (comp_bindp_inv _ _ _ _ _ _ _ _ _ _ _ _ Hc) as (Hpv & Hok & cs & n1 & s1 & cp & bs & n2 & cb & Es & Ep & En & Eb & ->);
    cbn [tl_fb] in Eb; apply IHb in Eb;
    change (compg tco (QBindP s p b) ce None cur pc nv sn = Some (Idup :: Iexpbegin :: cs ++ cp ++ Iexpend :: cb, nv', sn'));
    cbn [compg]; rewrite Hpv, Hok; cbn [negb andb]; rewrite Es, Ep, En; cbn [tl_fb]; rewrite Eb; reflexivity.
Qed.

(* a query that emits no code does so in every mode *)
Lemma comp_empty : forall q, emptycode q = true -> forall ce tp cur pc nv sn, compg tco q ce tp cur pc nv sn = Some ([], nv, sn).
Proof.
  induction q; intros H ce tp cur pc nv sn; simpl in H; try discriminate; [reflexivity|].
  apply andb_true_iff in H. destruct H as [H1 H2]. simpl. rewrite IHq1 by exact H1. simpl. rewrite IHq2 by exact H2. reflexivity.
Qed.

(* the number of variables does not depend on the mode *)
Lemma comp_nvars : forall q ce tp cur pc nv sn cq nv' sn', compg tco q ce tp cur pc nv sn = Some (cq, nv', sn') -> nv' = nv + nvars q.
Proof.
  qind q; intros ce tp cur pc nv sn cq nv' sn' Hc; simpl in Hc; dcomp;
    repeat match goal with
    | IH : forall ce tp cur pc nv sn cq nv' sn', compg tco ?q ce tp cur pc nv sn = Some (cq, nv', sn') -> _,
      E : compg tco ?q _ _ _ _ _ _ = Some _ |- _ => apply IH in E
    end;
    try (inversion Hc; subst; simpl; lia).
  - (* if *) destruct (is_const1 l0), (is_const1 l1); inversion Hc; subst; simpl; lia.
  - (* try *) destruct h as [h|]; simpl in *; dcomp; inversion Hc; subst; clear Hc.
    + apply IHh in Ec0. lia. + lia.
  - (* array *) destruct (array_fold q); inversion Hc; subst; simpl; lia.
  - (* reduce *) dpat Hc. dcomp. apply IHu in Ec1. apply pcomp_nvars in Ep. inversion Hc; subst. cbn [nvars]. lia.
  - (* foreach *) dpat Hc. dcomp. apply IHu in Ec1. apply pcomp_nvars in Ep.
    destruct e as [e|]; cbn [nvars] in *; dcomp; inversion Hc; subst; clear Hc.
    + apply IHe in Ec2. lia. + lia.
  - (* binop *) destruct (Nat.ltb cur sn && ce_lt ce sn); [|discriminate].
    match type of Hc with context [compg tco b ce ?t ?c ?p ?n ?s] =>
      destruct (compg tco b ce t c p n s) as [[[cb nb] s1]|] eqn:Eb; [|discriminate] end. cbv iota beta in Hc.
    match type of Hc with context [compg tco a ce ?t ?c ?p ?n ?s] =>
      destruct (compg tco a ce t c p n s) as [[[ca na] s2]|] eqn:Ea; [|discriminate] end. cbv iota beta in Hc.
    inversion Hc; subst. simpl. lia.
  - (* def *) destruct (Nat.ltb cur sn && ce_lt ce sn); [|discriminate].
    dcomp. inversion Hc; subst. apply IHrest in Ec0. simpl. lia.
  - (* callf *) destruct (lookup_cf f (length args) (ce_env ce)) as [[y|p n|y]|] eqn:Ef; try discriminate.
    + destruct args as [|a0 args']; [destruct (tail_call tp p); [inversion Hc; subst; simpl; lia|discriminate]|].
      destruct (Nat.ltb cur sn && ce_lt ce sn); [|discriminate].
      match type of Hc with context [comp_args ?C ?l ?p ?s] => destruct (comp_args C l p s) as [[[cas p'] s2]|] eqn:Ea; [|discriminate] end.
      inversion Hc; subst. simpl. lia.
    + apply lookup_cf_cp in Ef. destruct args; [|discriminate Ef]. inversion Hc; subst; simpl; lia.
  - (* object *) destruct es as [|e es]; [inversion Hc; subst; simpl; lia|].
    destruct (comp_object_inv _ _ _ _ _ _ _ _ _ _ Hc) as (cs & E & _). rewrite nvars_object.
    apply comp_ents_nvars in E; [lia|]. eapply Forall_EntP_impl; [|exact IHes]. simpl. intros a Ha p n s c n' s' H. eapply Ha; eauto.
  - (* bindp *) change (compg tco (QBindP s p b) ce tp cur pc nv sn = Some (cq, nv', sn')) in Hc.
    destruct (comp_bindp_inv _ _ _ _ _ _ _ _ _ _ _ _ Hc) as (_ & _ & cs & n1 & s1 & cp & bs & n2 & cb & Es & Ep & _ & Eb & _).
    apply IHs in Es. apply IHb in Eb. apply pcomp_nvars in Ep. cbn [nvars]. lia.
  - (* indexq *) change (compg tco (QIndexQ t q) ce tp cur pc nv sn = Some (cq, nv', sn')) in Hc.
    destruct (comp_indexq_inv _ _ _ _ _ _ _ _ _ _ _ Hc) as (_ & _ & _ & cb & nb & s1 & ca & na & Eb & Ea & _ & ->). simpl. lia.
  - (* slice *) change (compg tco (QSlice t a b) ce tp cur pc nv sn = Some (cq, nv', sn')) in Hc.
    destruct (comp_slice_inv _ _ _ _ _ _ _ _ _ _ _ _ Hc) as (_ & _ & _ & ca & na & s1 & cb & nb & s2 & ct & nt0 & Ea & Eb & Et & _ & ->). simpl. lia.
  - (* call1 *) change (compg tco (QCall1 f a) ce tp cur pc nv sn = Some (cq, nv', sn')) in Hc.
    destruct (comp_call1_inv _ _ _ _ _ _ _ _ _ _ _ Hc) as (_ & _ & cb & nb & Eb & _ & ->). simpl. lia.
Qed.
End CF.
Arguments comp_mono {tco} q ce {tp}.
Arguments comp_ghost {tco} q ce ce' _ _ {tp}.

(* ---- den-level facts ---- *)
Lemma foldgen_bind : forall (f : jv -> result) ws,
  foldgen unit (fun _ w => (fst (f w), snd (f w), tt)) ws tt =
  (fst (bind_list ws f), snd (bind_list ws f), tt).
Proof.
  intros f. induction ws; simpl; auto.
  destruct (f a) as [os [x|]]; simpl; auto.
  rewrite IHws. destruct (bind_list ws f) as [os' x']. reflexivity.
Qed.
