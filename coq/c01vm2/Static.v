(* C01vm — facts relating the shape of compiled code to the denotation (used where the compiler
   rewrites code according to its shape: compileIf, compileBind, compileArray). *)
From Coq Require Import List NArith ZArith Bool Arith Lia.
From Verif Require Import c01vm2.Syntax c01vm2.Code c01vm2.VM c01vm2.Den c01vm2.Compile c01vm2.Mach c01vm2.Gen c01vm2.Lemmas.
Import ListNotations.

Section S.
Variable nt : natives.
Variable tco : bool.
Notation comp q ce := (compg tco q ce None).
Variable call : query -> venv -> jv -> result.
Notation den := (den1 nt call).

Lemma emptycode_den : forall q, emptycode q = true -> forall rho v, den q rho v = ([v], None).
Proof.
  induction q; simpl; intros H rho v; try discriminate; auto.
  apply andb_true_iff in H. destruct H as [H1 H2].
  rewrite (IHq1 H1). unfold bind. simpl. rewrite (IHq2 H2). reflexivity.
Qed.

Lemma bind_list_id : forall ws, bind_list ws (fun w => ([w], None)) = (ws, None).
Proof. induction ws; simpl; auto. rewrite IHws. reflexivity. Qed.

Lemma bind_list_ext : forall (f g : jv -> result) ws, (forall w, f w = g w) -> bind_list ws f = bind_list ws g.
Proof. intros f g ws H. induction ws; simpl; auto. rewrite H, IHws. reflexivity. Qed.

Lemma bind_single : forall v f, bind ([v], None) f = f v.
Proof.
  intros v f. unfold bind. simpl. rewrite seq_nil_r. destruct (f v) as [os [x|]]; reflexivity.
Qed.

(* constant objects: when every entry is  push k; load v; const c  the object is the constant mk_obj builds *)
Lemma ents_const_den : forall (C : query -> nat -> nat -> nat -> res) (ev : query -> result) x (es : list ent) p n s cs n' s' kcs,
  comp_ents C x es p n s = Some (cs, n', s') -> ents_const cs = Some kcs ->
  Forall (EntP (fun a => forall p n s n' s' k0, C a p n s = Some ([Iconst k0], n', s') -> ev a = ([k0], None))) es ->
  forall acc, den_ents ev es acc = of_sum (mk_obj (acc ++ kcs)).
Proof.
  induction es as [|[k qv] r IH]; intros p n s cs n' s' kcs H Hk HF acc; simpl in H.
  - inversion H; subst. simpl in Hk. inversion Hk; subst. rewrite app_nil_r. reflexivity.
  - inversion HF as [|? ? [_ Hv] HF']; subst. simpl in Hv.
    destruct k as [str|kq].
    + destruct (C qv (p + length [Ipush (VStr str)] + 1) n s) as [[[cv n2] s2]|] eqn:Ev; [|discriminate].
      destruct (comp_ents C x r _ n2 s2) as [[[cr n3] s3]|] eqn:Er; [|discriminate]. inversion H; subst. clear H.
      cbn [app ents_const] in Hk. destruct cv as [|[] [|? ?]]; try discriminate Hk.
      destruct (ents_const cr) as [l|] eqn:El; [|discriminate]. inversion Hk; subst.
      cbn [den_ents]. rewrite bind_single. rewrite (Hv _ _ _ _ _ _ Ev), bind_single.
      rewrite (IH _ _ _ _ _ _ _ Er El HF'). rewrite <- app_assoc. reflexivity.
    + destruct (C kq (S p) n s) as [[[ck n1] s1]|] eqn:Ek; [|discriminate].
      destruct (C qv (p + length (Iload x :: ck) + 1) n1 s1) as [[[cv n2] s2]|] eqn:Ev; [|discriminate].
      destruct (comp_ents C x r _ n2 s2) as [[[cr n3] s3]|] eqn:Er; [|discriminate]. inversion H; subst.
      simpl in Hk. discriminate.
Qed.

Lemma acl_sound : forall q cs, acl q = Some cs -> forall rho v, den q rho v = (cs, None).
Proof.
  qind q;
    intros cs Hc rho v; simpl in Hc; try discriminate.
  - inversion Hc; subst. reflexivity.
  - (* pipe *) destruct (emptycode a) eqn:E1.
    + simpl. rewrite (emptycode_den _ E1). rewrite bind_single. auto.
    + destruct (emptycode b) eqn:E2; [|discriminate].
      simpl. rewrite (IHa _ Hc). unfold bind. simpl.
      rewrite (bind_list_ext _ (fun w => ([w], None))), bind_list_id; [reflexivity|].
      intros w. apply (emptycode_den _ E2).
  - (* comma *) destruct (acl a) as [cs1|] eqn:E1; [|discriminate].
    destruct (acl b) as [[|c [|]]|] eqn:E2; try discriminate. inversion Hc; subst.
    simpl. rewrite (IHa _ eq_refl), (IHb _ eq_refl). reflexivity.
  - (* array *) assert (Hq : exists cs', acl q = Some cs' /\ cs = [VArr cs']).
    { destruct q; try discriminate; simpl in *;
        repeat match goal with H : match ?x with _ => _ end = Some _ |- _ => destruct x eqn:?; try discriminate end;
        inversion Hc; eauto. }
    destruct Hq as (cs' & Hq & ->). simpl. rewrite (IHq _ Hq). reflexivity.
  - (* object *) destruct es as [|e es]; [inversion Hc; subst; reflexivity|].
    change (match obj_consts acl (e :: es) with
            | Some kcs => match mk_obj kcs with inl w => Some [w] | inr _ => None end
            | None => None end = Some cs) in Hc.
    destruct (obj_consts acl (e :: es)) as [kcs|] eqn:Eg; [|discriminate].
    destruct (mk_obj kcs) as [w|] eqn:Em; [|discriminate]. inversion Hc; subst cs. clear Hc.
    assert (H : forall l kcs0, obj_consts acl l = Some kcs0 ->
                Forall (Pent (fun q => forall cs, acl q = Some cs -> forall rho v, den q rho v = (cs, None))) l ->
                forall acc, den_ents (fun a => den a rho v) l acc = of_sum (mk_obj (acc ++ kcs0))).
    { induction l as [|[k qv] r IHr]; intros kcs0 Hg HF acc.
      - simpl in Hg. inversion Hg; subst. rewrite app_nil_r. reflexivity.
      - simpl in Hg. destruct k as [str|kq]; [|discriminate].
        destruct (acl qv) as [[|c [|? ?]]|] eqn:Ea; try discriminate.
        destruct (obj_consts acl r) as [l0|] eqn:Er; [|discriminate]. inversion Hg; subst.
        pose proof (Forall_inv HF) as [_ Hv]. pose proof (Forall_inv_tail HF) as HF'. simpl in Hv.
        cbn [den_ents]. rewrite bind_single, (Hv _ Ea), bind_single. rewrite (IHr _ eq_refl HF'), <- app_assoc. reflexivity. }
    change (den (QObject (e :: es)) rho v) with (den_ents (fun a => den a rho v) (e :: es) []).
    pose proof (H _ _ Eg IHes []) as X. simpl app in X. rewrite Em in X. exact X.
Qed.

Ltac len_contra H :=
  apply (f_equal (@length instr)) in H; simpl in H; repeat (rewrite app_length in H; simpl in H); lia.

Ltac len_contra' Hc :=
  let H := fresh in
  assert (H := f_equal (fun o : option (list instr * nat * nat) => match o with Some (l, _, _) => length l | None => 0 end) Hc);
  simpl in H; repeat (rewrite app_length in H; simpl in H); lia.

(* the code of a binary operator has at least 4 instructions *)
Ltac binop_contra Hc :=
  match type of Hc with context [if (Nat.ltb ?c ?s && ?r) then _ else _] => destruct (Nat.ltb c s && r); [|discriminate] end;
  match type of Hc with context [comp ?b ?ce ?c ?p ?n ?s] =>
    destruct (comp b ce c p n s) as [[[? ?] ?]|]; [|discriminate] end; cbv iota beta in Hc;
  match type of Hc with context [comp ?a ?ce ?c ?p ?n ?s] =>
    destruct (comp a ce c p n s) as [[[? ?] ?]|]; [|discriminate] end; cbv iota beta in Hc;
  len_contra' Hc.

Ltac def_contra Hc :=
  match type of Hc with context [if (Nat.ltb ?c ?s && ?r) then _ else _] => destruct (Nat.ltb c s && r); [|discriminate] end;
  dcomp; len_contra' Hc.
(* the code of a call: opcall pc (no argument) | load y; callpc (a filter parameter) | at least 3 instructions *)
Ltac callf_inv Hc :=
  match type of Hc with context [lookup_cf ?f ?n ?l] => destruct (lookup_cf f n l) as [[?y|?p ?n0|?y]|] eqn:?; try discriminate end;
  try (match type of Hc with context [match ?args with [] => _ | _ :: _ => _ end] => destruct args as [|?a0 ?args'] end;
       [|match type of Hc with context [if (Nat.ltb ?c ?s && ?r) then _ else _] => destruct (Nat.ltb c s && r); [|discriminate] end;
         match type of Hc with context [comp_args ?C ?l ?p ?s] => destruct (comp_args C l p s) as [[[? ?] ?]|]; [|discriminate] end;
         len_contra' Hc]).

Lemma arg_code_len : forall v p sn cb nvc, 1 <= length (arg_code v p sn cb nvc).
Proof.
  intros v p sn cb nvc. unfold arg_code. destruct cb as [|x [|y r]]; simpl; [lia| |lia].
  destruct (Nat.eqb nvc 0); [destruct x; simpl; lia|simpl; lia].
Qed.
Ltac indexq_contra Hc :=
  let H := fresh in
  destruct (comp_indexq_inv _ _ _ _ _ _ _ _ _ _ _ _ Hc) as (_ & _ & _ & ?cb & ?nb & ?s1 & ?ca & ?na & _ & _ & H & _);
  apply (f_equal (@length instr)) in H; simpl in H; rewrite !app_length in H; simpl in H;
  match type of H with context [length (arg_code ?v ?p ?s ?c ?n)] => pose proof (arg_code_len v p s c n) end; lia.
Ltac call1_contra Hc :=
  let H := fresh in
  destruct (comp_call1_inv _ _ _ _ _ _ _ _ _ _ _ _ Hc) as (_ & _ & ?cb & ?nb & _ & H & _);
  apply (f_equal (@length instr)) in H; simpl in H; rewrite !app_length in H; simpl in H;
  match type of H with context [length (arg_code ?v ?p ?s ?c ?n)] => pose proof (arg_code_len v p s c n) end; lia.
Ltac slice_contra Hc :=
  let H := fresh in
  destruct (comp_slice_inv _ _ _ _ _ _ _ _ _ _ _ _ _ Hc) as (_ & _ & _ & ?ca & ?na & ?s1 & ?cb & ?nb & ?s2 & ?ct & ?nt0 & _ & _ & _ & H & _);
  apply (f_equal (@length instr)) in H; simpl in H; rewrite !app_length in H; simpl in H; lia.

Lemma comp_nil : forall q ce tp cur pc nv sn nv' sn', compg tco q ce tp cur pc nv sn = Some ([], nv', sn') -> emptycode q = true /\ nv' = nv /\ sn' = sn.
Proof.
  qind q; intros ce tp cur pc nv sn nv' sn' Hc; simpl in Hc; dcomp; try (inversion Hc; subst; auto; fail);
    try (len_contra' Hc).
  - (* pipe *) injection Hc as H1 H2 H3. subst. apply app_eq_nil in H1. destruct H1; subst.
    destruct (IHa _ _ _ _ _ _ _ _ Ec) as (E1 & -> & ->). destruct (IHb _ _ _ _ _ _ _ _ Ec0) as (E2 & -> & ->). simpl. rewrite E1, E2. auto.
  - (* if *) destruct (is_const1 l0), (is_const1 l1); destruct l; len_contra' Hc.
  - (* try *) destruct h; simpl in *; dcomp; len_contra' Hc.
  - (* array *) destruct (array_fold q); len_contra' Hc.
  - (* reduce *) dpat Hc. dcomp. len_contra' Hc.
  - (* foreach *) dpat Hc. dcomp. destruct e; simpl in *; dcomp; len_contra' Hc.
  - (* bind *) destruct l; len_contra' Hc.
  - (* binop *) binop_contra Hc.
  - (* def *) def_contra Hc.
  - (* callf *) callf_inv Hc. destruct (tail_call tp p); discriminate.
  - (* object *) destruct es as [|e es]; [discriminate|].
    destruct (comp_object_inv _ _ _ _ _ _ _ _ _ _ Hc) as (cs & _ & [(kcs & w & _ & _ & H)|[_ H]]); discriminate.
  - (* bindp *) change (compg tco (QBindP s p b) ce tp cur pc nv sn = Some ([], nv', sn')) in Hc.
    destruct (comp_bindp_inv _ _ _ _ _ _ _ _ _ _ _ _ _ Hc) as (_ & _ & cs & n1 & s1 & cp & bs & n2 & cb & _ & _ & _ & _ & H). len_contra H.
  - (* indexq *) change (compg tco (QIndexQ t q) ce tp cur pc nv sn = Some ([], nv', sn')) in Hc. indexq_contra Hc.
  - (* slice *) change (compg tco (QSlice t a b) ce tp cur pc nv sn = Some ([], nv', sn')) in Hc. slice_contra Hc.
  - (* call1 *) change (compg tco (QCall1 f a) ce tp cur pc nv sn = Some ([], nv', sn')) in Hc. call1_contra Hc.
Qed.

Lemma app_single : forall (a b : list instr) x, a ++ b = [x] -> (a = [] /\ b = [x]) \/ (a = [x] /\ b = []).
Proof.
  intros [|y a] b x H; simpl in *; auto. inversion H; subst. apply app_eq_nil in H2. destruct H2; subst. auto.
Qed.

Lemma comp_const1 : forall q ce tp cur pc nv sn nv' sn' k0, compg tco q ce tp cur pc nv sn = Some ([Iconst k0], nv', sn') ->
  forall rho v, den q rho v = ([k0], None).
Proof.
  qind q; intros ce tp cur pc nv sn nv' sn' k0 Hc rho v; simpl in Hc; dcomp; try (inversion Hc; subst; auto; fail);
    try (len_contra' Hc).
  - (* pipe *) injection Hc as H1 H2 H3. subst. destruct (app_single _ _ _ H1) as [[-> ->]|[-> ->]].
    + destruct (comp_nil _ _ _ _ _ _ _ _ _ Ec) as [E1 _]. simpl. rewrite (emptycode_den _ E1), bind_single. eauto.
    + destruct (comp_nil _ _ _ _ _ _ _ _ _ Ec0) as [E2 _]. simpl. rewrite (IHa _ _ _ _ _ _ _ _ _ Ec). unfold bind. simpl.
      rewrite (emptycode_den _ E2). reflexivity.
  - (* iter *) injection Hc as H1 H2 H3. destruct (app_single _ _ _ H1) as [[_ H]|[_ H]]; discriminate.
  - (* index *) injection Hc as H1 H2 H3. destruct (app_single _ _ _ H1) as [[_ H]|[_ H]]; discriminate.
  - (* if *) destruct (is_const1 l0), (is_const1 l1); destruct l; len_contra' Hc.
  - (* try *) destruct h; simpl in *; dcomp; len_contra' Hc.
  - (* array *) destruct (array_fold q) as [cs|] eqn:Ef; [|len_contra' Hc].
    injection Hc as Hk Hn Hs. subst. assert (Ha : acl q = Some cs) by (destruct q; simpl in Ef; auto; discriminate).
    simpl. rewrite (acl_sound _ _ Ha). reflexivity.
  - (* reduce *) dpat Hc. dcomp. len_contra' Hc.
  - (* foreach *) dpat Hc. dcomp. destruct e; simpl in *; dcomp; len_contra' Hc.
  - (* bind *) destruct l; len_contra' Hc.
  - (* binop *) binop_contra Hc.
  - (* def *) def_contra Hc.
  - (* callf *) callf_inv Hc. unfold tail_call in Hc. destruct tp as [[p' [[|]|]]|]; try destruct (Nat.eqb p' p); discriminate.
  - (* object *) destruct es as [|e es]; [inversion Hc; subst; reflexivity|].
    destruct (comp_object_inv _ _ _ _ _ _ _ _ _ _ Hc) as (cs & E & [(kcs & w & Hk & Hm & H)|[_ H]]); [|len_contra H].
    inversion H; subst. cbn [den1].
    rewrite (ents_const_den _ (fun a => den a rho v) _ _ _ _ _ _ _ _ _ E Hk); [simpl; rewrite Hm; reflexivity|].
    eapply Forall_EntP_impl; [|exact IHes]. simpl. intros a Ha p n s n' s' k1 H1. eapply Ha; eauto.
  - (* bindp *) change (compg tco (QBindP s p b) ce tp cur pc nv sn = Some ([Iconst k0], nv', sn')) in Hc.
    destruct (comp_bindp_inv _ _ _ _ _ _ _ _ _ _ _ _ _ Hc) as (_ & _ & cs & n1 & s1 & cp & bs & n2 & cb & _ & _ & _ & _ & H). len_contra H.
  - (* indexq *) change (compg tco (QIndexQ t q) ce tp cur pc nv sn = Some ([Iconst k0], nv', sn')) in Hc. indexq_contra Hc.
  - (* slice *) change (compg tco (QSlice t a b) ce tp cur pc nv sn = Some ([Iconst k0], nv', sn')) in Hc. slice_contra Hc.
  - (* call1 *) change (compg tco (QCall1 f a) ce tp cur pc nv sn = Some ([Iconst k0], nv', sn')) in Hc. call1_contra Hc.
Qed.

Lemma bind_list_ext' : forall r (f g : jv -> result), (forall w, f w = g w) -> bind r f = bind r g.
Proof. intros r f g H. unfold bind. rewrite (bind_list_ext f g (fst r) H). reflexivity. Qed.
Lemma bind_unit : forall r, bind r (fun w => ([w], None)) = r.
Proof. intros [ws x]. unfold bind. rewrite bind_list_id. reflexivity. Qed.
Lemma den_pipe_l : forall a b, emptycode a = true -> forall rho v, den (QPipe a b) rho v = den b rho v.
Proof. intros a b E rho v. simpl. rewrite (emptycode_den _ E), bind_single. reflexivity. Qed.
Lemma den_pipe_r : forall a b, emptycode b = true -> forall rho v, den (QPipe a b) rho v = den a rho v.
Proof.
  intros a b E rho v. simpl. rewrite (bind_list_ext' (den a rho v) _ (fun w => ([w], None))); [apply bind_unit|]. intros w. apply (emptycode_den _ E).
Qed.

(* queries compiled to a single instruction that allocates no variable (the arguments compileCallInternal
   inlines as  load v; X) *)
(* queries that only define functions (and pass their input on) *)
Lemma transparent_den : forall q, transparent q = true -> forall rho v, den q rho v = ([v], None).
Proof.
  induction q; simpl; intros H rho v; try discriminate; auto.
  apply andb_true_iff in H. destruct H as [H1 H2].
  rewrite (IHq1 H1). unfold bind. simpl. rewrite (IHq2 H2). reflexivity.
Qed.
Lemma den_pipe_rt : forall a b, transparent b = true -> forall rho v, den (QPipe a b) rho v = den a rho v.
Proof.
  intros a b E rho v. simpl. rewrite (bind_list_ext' (den a rho v) _ (fun w => ([w], None))); [apply bind_unit|]. intros w. apply (transparent_den _ E).
Qed.
Lemma transparent_nvars : forall q, transparent q = true -> nvars q = 0.
Proof.
  induction q; simpl; intros H; try discriminate; auto.
  apply andb_true_iff in H. destruct H as [H1 H2]. rewrite IHq1, IHq2; auto.
Qed.

Definition den_instr (x : instr) (v : jv) : result :=
  match x with
  | Iconst c => ([c], None)
  | Iindex k => of_sum (n_index nt v k)
  | Iiter => iter_res nt v
  | Ibacktrack => ([], None)
  | Icall (NF0 f) => of_sum (n_fn0 nt f v)
  | _ => ([], None)
  end.
Definition is_single (x : instr) : bool :=
  match x with Iconst _ | Iindex _ | Iiter | Ibacktrack | Icall (NF0 _) => true | _ => false end.

(* a query compiled to one instruction that allocates no variable is a native generator on the input, or a call
   of a user-defined function *)
Definition single_sem (q : query) (ce : cenv) (x : instr) : Prop :=
  (is_single x = true /\ forall rho v, den q rho v = den_instr x v) \/
  (exists f p n, x = Icallf p /\ lookup_cf f 0 (ce_env ce) = Some (CF p n) /\ forall rho v, den q rho v = den (QCallF f []) rho v).

Lemma comp_single : forall q ce cur pc nv sn x sn', comp q ce cur pc nv sn = Some ([x], nv, sn') -> single_sem q ce x.
Proof.
  qind q; intros ce cur pc nv sn x0 sn' Hc; simpl in Hc; dcomp;
    try (len_contra' Hc).
  - (* const *) inversion Hc; subst. left. split; auto.
  - (* pipe *) injection Hc as H1 H2 H3. subst.
    destruct (comp_mono _ _ _ _ _ _ _ _ _ Ec) as [Ma _]. destruct (comp_mono _ _ _ _ _ _ _ _ _ Ec0) as [Mb _].
    assert (n = nv) by lia. subst n.
    destruct (app_single _ _ _ H1) as [[-> ->]|[-> ->]].
    + destruct (comp_nil _ _ _ _ _ _ _ _ _ Ec) as [E1 _].
      destruct (IHb _ _ _ _ _ _ _ Ec0) as [[Hs Hd]|(f & p & nf & -> & Hl & Hd)].
      * left. split; auto. intros rho v. rewrite (den_pipe_l _ _ E1). auto.
      * right. exists f, p, nf. split; [auto|]. split; [auto|]. intros rho v. rewrite (den_pipe_l _ _ E1). auto.
    + destruct (comp_nil _ _ _ _ _ _ _ _ _ Ec0) as [E2 _].
      destruct (IHa _ _ _ _ _ _ _ Ec) as [[Hs Hd]|(f & p & nf & -> & Hl & Hd)].
      * left. split; auto. intros rho v. rewrite (den_pipe_r _ _ E2). auto.
      * right. exists f, p, nf. split; [auto|]. split; [auto|]. intros rho v. rewrite (den_pipe_r _ _ E2). auto.
  - (* empty *) inversion Hc; subst. left. split; auto.
  - (* iter *) injection Hc as H1 H2 H3. subst. destruct (app_single _ _ _ H1) as [[-> H]|[_ H]]; [|discriminate].
    inversion H; subst. destruct (comp_nil _ _ _ _ _ _ _ _ _ Ec) as [E1 _]. left. split; auto.
    intros rho v. simpl. rewrite (emptycode_den _ E1), bind_single. reflexivity.
  - (* index *) injection Hc as H1 H2 H3. subst. destruct (app_single _ _ _ H1) as [[-> H]|[_ H]]; [|discriminate].
    inversion H; subst. destruct (comp_nil _ _ _ _ _ _ _ _ _ Ec) as [E1 _]. left. split; auto.
    intros rho v. simpl. rewrite (emptycode_den _ E1), bind_single. reflexivity.
  - (* if *) destruct (is_const1 l0), (is_const1 l1); destruct l; len_contra' Hc.
  - (* try *) destruct h; simpl in *; dcomp; len_contra' Hc.
  - (* array *) destruct (comp_mono _ _ _ _ _ _ _ _ _ Ec) as [M _].
    destruct (array_fold q) as [cs|]; [|len_contra' Hc]. injection Hc as H1 H2 H3. lia.
  - (* reduce *) dpat Hc. dcomp. len_contra' Hc.
  - (* foreach *) dpat Hc. dcomp. destruct e; simpl in *; dcomp; len_contra' Hc.
  - (* label *) injection Hc as H1 H2 H3. destruct (comp_mono _ _ _ _ _ _ _ _ _ Ec) as [M _]. lia.
  - (* bind *) destruct l; len_contra' Hc.
  - (* call0 *) inversion Hc; subst. left. split; auto.
  - (* binop *) binop_contra Hc.
  - (* def *) def_contra Hc.
  - (* callf *) callf_inv Hc. inversion Hc; subst. right. exists f, p, n0. auto.
  - (* object *) destruct es as [|e es]; [inversion Hc; subst; left; split; auto|].
    assert (Hc' : comp (QObject (e :: es)) ce cur pc nv sn = Some ([x0], nv, sn')) by exact Hc.
    apply comp_nvars in Hc'. rewrite nvars_object in Hc'. lia.
  - (* bindp *) change (compg tco (QBindP s p b) ce None cur pc nv sn = Some ([x0], nv, sn')) in Hc.
    destruct (comp_bindp_inv _ _ _ _ _ _ _ _ _ _ _ _ _ Hc) as (_ & _ & cs & n1 & s1 & cp & bs & n2 & cb & _ & _ & _ & _ & H). len_contra H.
  - (* indexq *) change (compg tco (QIndexQ t q) ce None cur pc nv sn = Some ([x0], nv, sn')) in Hc. indexq_contra Hc.
  - (* slice *) change (compg tco (QSlice t a b) ce None cur pc nv sn = Some ([x0], nv, sn')) in Hc. slice_contra Hc.
  - (* call1 *) change (compg tco (QCall1 f a) ce None cur pc nv sn = Some ([x0], nv, sn')) in Hc. call1_contra Hc.
Qed.

Lemma comp_binop_inv : forall o a b ce cur pc nv sn cq nv' sn', comp (QBinop o a b) ce cur pc nv sn = Some (cq, nv', sn') ->
  cur < sn /\ ce_lt ce sn = true /\ exists cb nb s1 ca na,
    comp b ce sn (S pc + 2) 0 (S sn) = Some (cb, nb, s1) /\
    comp a ce s1 (S pc + length (arg_code (cur, nv) (S pc) sn cb nb) + 2) 0 (S s1) = Some (ca, na, sn') /\
    cq = Istore (cur, nv) :: arg_code (cur, nv) (S pc) sn cb nb ++
           arg_code (cur, nv) (S pc + length (arg_code (cur, nv) (S pc) sn cb nb)) s1 ca na ++ [Iload (cur, nv); Icall (NF2 o)] /\
    nv' = S nv.
Proof.
  intros o a b ce cur pc nv sn cq nv' sn' Hc. unfold arg_code. cbn -[Nat.add Nat.ltb Nat.eqb ce_lt] in Hc |- *.
  destruct (Nat.ltb_spec cur sn) as [Hlt|]; [|discriminate]. split; [exact Hlt|].
  destruct (ce_lt ce sn) eqn:Hce; [|discriminate]. split; [reflexivity|]. cbn [andb] in Hc.
  destruct (comp b ce sn (S pc + 2) 0 (S sn)) as [[[cb nb] s1]|] eqn:Eb; [|discriminate]. cbv iota beta in Hc.
  match type of Hc with context [comp a ?ce0 ?c0 ?p0 ?n0 ?s0] =>
    destruct (comp a ce0 c0 p0 n0 s0) as [[[ca na] s2]|] eqn:Ea; [|discriminate] end.
  cbv iota beta in Hc. inversion Hc; subst. exists cb, nb, s1, ca, na.
  split; [reflexivity|]. split; [exact Ea|]. split; reflexivity.
Qed.

Lemma comp_def_inv : forall f ps body rest ce tp cur pc nv sn cq nv' sn',
  compg tco (QDef f ps body rest) ce tp cur pc nv sn = Some (cq, nv', sn') ->
  cur < sn /\ ce_lt ce sn = true /\ exists cb nvb s1 cr,
    let ce' := add_fun ce f (S pc) (length ps) in
    let pre := prelude sn ps in
    compg tco body (add_env (fun_env ce') (param_env sn ps)) (tl_body tco (S pc) ps body) sn (pc + 2 + length pre) (param_slots ps) (S sn) = Some (cb, nvb, s1) /\
    compg tco rest ce' tp cur (pc + 2 + length pre + length cb + 1) nv s1 = Some (cr, nv', sn') /\
    cq = Ijump (pc + 2 + length pre + length cb + 1) :: Iscope sn nvb (length ps) :: pre ++ cb ++ Iret :: cr.
Proof.
  intros f ps body rest ce tp cur pc nv sn cq nv' sn' Hc. cbn -[Nat.add Nat.ltb ce_lt prelude param_env param_slots] in Hc.
  destruct (Nat.ltb_spec cur sn) as [Hlt|]; [|discriminate]. split; [exact Hlt|].
  destruct (ce_lt ce sn) eqn:Hce; [|discriminate]. split; [reflexivity|]. cbn [andb] in Hc.
  match type of Hc with context [compg tco body ?ce0 ?t0 ?c0 ?p0 ?n0 ?s0] =>
    destruct (compg tco body ce0 t0 c0 p0 n0 s0) as [[[cb nvb] s1]|] eqn:Eb; [|discriminate] end.
  match type of Hc with context [compg tco rest ?ce0 ?t0 ?c0 ?p0 ?n0 ?s0] =>
    destruct (compg tco rest ce0 t0 c0 p0 n0 s0) as [[[cr nv2] s2]|] eqn:Er; [|discriminate] end.
  inversion Hc; subst. exists cb, nvb, s1, cr. cbv zeta. auto.
Qed.

End S.
Arguments comp_nil {tco} q ce {tp}.
Arguments comp_const1 nt {tco} call q ce {tp}.
Arguments comp_single nt {tco}.
Arguments comp_binop_inv {tco}.
Arguments comp_def_inv {tco} f ps body rest ce {tp}.
