(* C01vm / C04 — soundness of the final pass optimizeCodeOps (peephole_sound).
   [peepR] is the pass written as a right fold (the Go loop runs i from len-1 down to 0);
   Compile.peephole is the same pass written with array updates (Run.v checks on every sampled program
   that both give the same code). *)
From Coq Require Import List NArith ZArith Bool Arith Lia.
From Verif Require Import c01vm2.Syntax c01vm2.Code c01vm2.VM c01vm2.Compile.
Import ListNotations.

Definition is_pdl (x : instr) : bool := match x with Ipush _ | Idup | Iload _ => true | _ => false end.
Definition is_popconst (x : instr) : bool := match x with Ipop | Iconst _ => true | _ => false end.

Definition peephole_fold := peephole.

Lemma peepR_length : forall tg call l i, length (peepR tg call i l) = length l.
Proof.
  induction l; intros i; simpl; auto.
  specialize (IHl (S i)).
  destruct a; simpl; try (rewrite IHl; reflexivity);
    try (destruct (is_target tg (S i)); simpl; [rewrite IHl; reflexivity|];
         destruct (peepR tg call (S i) l) as [|[] ?]; simpl in *; lia);
    try (destruct (Nat.eqb t (S i)); simpl; [rewrite IHl; reflexivity|];
         match goal with |- context [match ?e with _ => _ end] => destruct e as [[]|] end; simpl; rewrite IHl; reflexivity).
Qed.

Section Spec.
Variable tg : list nat.
Variable call : list instr.

Definition fused_at (i : nat) : bool :=
  match nth_error call i, nth_error call (S i) with
  | Some x, Some y => is_pdl x && is_popconst y && negb (is_target tg (S i))
  | _, _ => false
  end.

Inductive Reach : nat -> nat -> Prop :=
| R0 : forall p, Reach p p
| R1 : forall p j q, nth_error call p = Some (Ijump j) -> Reach j q -> Reach p q.

(* the final instruction at position p when p is not the second half of a fused pair *)
Definition Fin (p : nat) (y : instr) : Prop :=
  match nth_error call p with
  | None => False
  | Some x =>
      if fused_at p then y = Inop
      else match x with
           | Ijump j => (y = Inop /\ j = S p) \/ (exists j', y = Ijump j' /\ Reach j j' /\ j <> S p)
           | Ijumpifnot j => (y = Inop /\ j = S p) \/ (exists j', y = Ijumpifnot j' /\ Reach j j' /\ j <> S p)
           | _ => y = x
           end
  end.
(* ... and when it is *)
Definition FinS (p : nat) (y : instr) : Prop :=
  match nth_error call p with
  | Some Ipop => y = Inop
  | Some (Iconst k) => y = Ipush k
  | _ => False
  end.

Definition SpecAt (i k : nat) (y : instr) : Prop :=
  match k with
  | O => Fin i y
  | S k' => if fused_at (i + k') then FinS (i + k) y else Fin (i + k) y
  end.

Lemma Fin_popconst : forall p y, Fin p y -> is_popconst y = true ->
  exists x, nth_error call p = Some x /\ y = x /\ is_popconst x = true.
Proof.
  intros p y H Hy. unfold Fin in H. destruct (nth_error call p) as [x|] eqn:E; [|contradiction].
  destruct (fused_at p); [subst; discriminate|].
  destruct x; try (subst y; eauto; fail).
  - destruct H as [[-> _]|(j' & -> & _)]; discriminate.
  - destruct H as [[-> _]|(j' & -> & _)]; discriminate.
Qed.

Lemma Fin_jump : forall p y j', Fin p y -> y = Ijump j' -> Reach p j'.
Proof.
  intros p y j' H ->. unfold Fin in H. destruct (nth_error call p) as [x|] eqn:E; [|contradiction].
  destruct (fused_at p); [discriminate|].
  destruct x; try discriminate.
  - destruct H as [[H _]|(j'' & H & R & _)]; [discriminate|]. inversion H; subst. eapply R1; eauto.
  - destruct H as [[H _]|(j'' & H & R & _)]; discriminate.
Qed.

Lemma fused_at_spec : forall i, fused_at i = true ->
  exists x y, nth_error call i = Some x /\ nth_error call (S i) = Some y /\ is_pdl x = true /\
              is_popconst y = true /\ is_target tg (S i) = false.
Proof.
  intros i H. unfold fused_at in H.
  destruct (nth_error call i) as [x|]; [|discriminate]. destruct (nth_error call (S i)) as [y|]; [|discriminate].
  apply andb_true_iff in H. destruct H as [H H3]. apply andb_true_iff in H. destruct H as [H1 H2].
  exists x, y. repeat split; auto. destruct (is_target tg (S i)); auto; discriminate.
Qed.

Lemma peepR_spec : forall l pre, call = pre ++ l ->
  forall k y, nth_error (peepR tg call (length pre) l) k = Some y -> SpecAt (length pre) k y.
Proof.
  induction l as [|x r IH]; intros pre Hc k y Hk.
  - destruct k; discriminate.
  - set (i := length pre) in *.
    assert (Hc' : call = (pre ++ [x]) ++ r) by (rewrite <- app_assoc; exact Hc).
    assert (Hl : length (pre ++ [x]) = S i) by (rewrite app_length; simpl; unfold i; lia).
    specialize (IH (pre ++ [x]) Hc'). rewrite Hl in IH.
    assert (Hx : nth_error call i = Some x).
    { rewrite Hc. rewrite nth_error_app2 by (unfold i; lia). unfold i. rewrite Nat.sub_diag. reflexivity. }
    assert (Hr : forall m, nth_error call (S i + m) = nth_error r m).
    { intros m. rewrite Hc'. rewrite nth_error_app2 by lia. f_equal. lia. }
    set (r' := peepR tg call (S i) r) in *.
    (* facts about the processed suffix *)
    assert (IH0 : forall y0, nth_error r' 0 = Some y0 -> Fin (S i) y0) by (intros y0 H0; exact (IH 0 y0 H0)).
    assert (IHk : forall k' y0, nth_error r' (S k') = Some y0 ->
              if fused_at (S i + k') then FinS (S i + S k') y0 else Fin (S i + S k') y0)
      by (intros k' y0 H0; exact (IH (S k') y0 H0)).
    (* the generic "not fused at i" case: result x' :: r' with Fin i x' *)
    assert (Gen : forall x', fused_at i = false -> Fin i x' ->
              forall k y, nth_error (x' :: r') k = Some y -> SpecAt i k y).
    { intros x' Hf HF k0 y0 H0. destruct k0 as [|k0]; simpl in H0.
      - inversion H0; subst. exact HF.
      - simpl. destruct k0 as [|k0].
        + rewrite Nat.add_0_r, Hf. replace (i + 1) with (S i) by lia. apply IH0; auto.
        + replace (i + S k0) with (S i + k0) by lia. replace (i + S (S k0)) with (S i + S k0) by lia.
          apply IHk; auto. }
    assert (Fx : is_pdl x = false -> fused_at i = false).
    { intros Hp. unfold fused_at. rewrite Hx. destruct (nth_error call (S i)); auto. rewrite Hp. reflexivity. }
    assert (FinSame : fused_at i = false ->
              (match x with Ijump _ | Ijumpifnot _ => False | _ => True end) -> Fin i x).
    { intros Hf Hnj. unfold Fin. rewrite Hx, Hf. destruct x; auto; contradiction. }
    assert (Lr : length r' = length r) by (unfold r'; apply peepR_length).
    (* push | dup | load *)
    assert (PDL : is_pdl x = true -> forall k y,
              nth_error (if is_target tg (S i) then x :: r'
                         else match r' with
                              | Ipop :: r'' => Inop :: Inop :: r''
                              | Iconst c :: r'' => Inop :: Ipush c :: r''
                              | _ => x :: r'
                              end) k = Some y -> SpecAt i k y).
    { intros Hp k0 y0 H0.
      assert (Hnj : match x with Ijump _ | Ijumpifnot _ => False | _ => True end) by (destruct x; auto; discriminate).
      destruct (is_target tg (S i)) eqn:Et.
      - assert (Hf : fused_at i = false).
        { unfold fused_at. rewrite Hx. destruct (nth_error call (S i)); auto. rewrite Et. rewrite andb_false_r. auto. }
        apply (Gen _ Hf (FinSame Hf Hnj)); exact H0.
      - destruct r' as [|z r''] eqn:Er'.
        + assert (Hf : fused_at i = false).
          { unfold fused_at. rewrite Hx. replace (S i) with (S i + 0) by lia. rewrite Hr.
            destruct r; [reflexivity|simpl in Lr; discriminate]. }
          apply (Gen _ Hf (FinSame Hf Hnj)); exact H0.
        + assert (Hz : Fin (S i) z) by (apply IH0; reflexivity).
          assert (Other : is_popconst z = false -> forall k y, nth_error (x :: z :: r'') k = Some y -> SpecAt i k y).
          { intros Hpz. assert (Hf : fused_at i = false).
            { unfold fused_at. rewrite Hx. destruct (nth_error call (S i)) as [w|] eqn:Ew; auto.
              destruct (is_popconst w) eqn:Hw; [|rewrite andb_false_r; auto].
              exfalso. unfold Fin in Hz. rewrite Ew in Hz.
              assert (Hf1 : fused_at (S i) = false).
              { unfold fused_at. rewrite Ew. destruct (nth_error call (S (S i))); auto.
                destruct w; try discriminate; reflexivity. }
              rewrite Hf1 in Hz. destruct w; try discriminate; subst z; discriminate. }
            apply (Gen _ Hf (FinSame Hf Hnj)). }
          assert (Fused : is_popconst z = true -> fused_at i = true /\ nth_error call (S i) = Some z).
          { intros Hpz. destruct (Fin_popconst _ _ Hz Hpz) as (w & Ew & -> & Hw). split; auto.
            unfold fused_at. rewrite Hx, Ew, Hp, Hw, Et. reflexivity. }
          assert (Tail : forall k0 y0, nth_error r'' k0 = Some y0 -> SpecAt i (S (S k0)) y0).
          { intros k1 y1 H1. simpl. replace (i + S k1) with (S i + k1) by lia.
            replace (i + S (S k1)) with (S i + S k1) by lia. apply IHk. exact H1. }
          destruct z; try (apply (Other eq_refl); exact H0).
          * destruct (Fused eq_refl) as [Hf Ew].
            destruct k0 as [|[|k0]]; simpl in H0.
            -- inversion H0; subst. simpl. unfold Fin. rewrite Hx, Hf. reflexivity.
            -- inversion H0; subst. simpl. rewrite Nat.add_0_r, Hf. unfold FinS. replace (i + 1) with (S i) by lia.
               rewrite Ew. reflexivity.
            -- apply Tail; auto.
          * destruct (Fused eq_refl) as [Hf Ew].
            destruct k0 as [|[|k0]]; simpl in H0.
            -- inversion H0; subst. simpl. unfold Fin. rewrite Hx, Hf. reflexivity.
            -- inversion H0; subst. simpl. rewrite Nat.add_0_r, Hf. unfold FinS. replace (i + 1) with (S i) by lia.
               rewrite Ew. reflexivity.
            -- apply Tail; auto. }
    (* the processed instruction at a jump target *)
    assert (Look : forall j j', j <> S i ->
              (if S i <=? j then nth_error r' (j - S i) else if j =? i then Some x else nth_error call j) = Some (Ijump j') ->
              Reach j j').
    { intros j j' Hj Hlk. destruct (Nat.leb_spec (S i) j) as [Hle|Hlt].
      - destruct (j - S i) as [|k'] eqn:Ek; [lia|].
        pose proof (IHk k' _ Hlk) as HH. replace (S i + S k') with j in HH by lia.
        destruct (fused_at (S i + k')).
        + unfold FinS in HH. destruct (nth_error call j) as [[]|]; try contradiction; discriminate.
        + eapply Fin_jump; eauto.
      - destruct (Nat.eqb_spec j i) as [->|Hne].
        + inversion Hlk; subst. eapply R1; [exact Hx|apply R0].
        + eapply R1; [exact Hlk|apply R0]. }
    simpl in Hk. fold r' in Hk.
    destruct x; try (apply (Gen _ (Fx eq_refl) (FinSame (Fx eq_refl) I)); exact Hk).
    + apply (PDL eq_refl); exact Hk.
    + apply (PDL eq_refl); exact Hk.
    + apply (PDL eq_refl); exact Hk.
    + (* jump *)
      assert (Hf : fused_at i = false) by (apply Fx; reflexivity).
      destruct (Nat.eqb_spec t (S i)) as [->|Hne].
      * apply (Gen Inop Hf); [|exact Hk]. unfold Fin. rewrite Hx, Hf. left. auto.
      * match type of Hk with nth_error (match ?e with _ => _ end) _ = _ => destruct e as [z|] eqn:El end.
        -- destruct z; try (apply (Gen (Ijump t) Hf); [|exact Hk]; unfold Fin; rewrite Hx, Hf; right; exists t;
                            split; [reflexivity|split; [apply R0|exact Hne]]).
           apply (Gen (Ijump t0) Hf); [|exact Hk]. unfold Fin. rewrite Hx, Hf. right. exists t0.
           split; [reflexivity|split; [apply Look; auto|exact Hne]].
        -- apply (Gen (Ijump t) Hf); [|exact Hk]. unfold Fin. rewrite Hx, Hf. right. exists t.
           split; [reflexivity|split; [apply R0|exact Hne]].
    + (* jumpifnot *)
      assert (Hf : fused_at i = false) by (apply Fx; reflexivity).
      destruct (Nat.eqb_spec t (S i)) as [->|Hne].
      * apply (Gen Inop Hf); [|exact Hk]. unfold Fin. rewrite Hx, Hf. left. auto.
      * match type of Hk with nth_error (match ?e with _ => _ end) _ = _ => destruct e as [z|] eqn:El end.
        -- destruct z; try (apply (Gen (Ijumpifnot t) Hf); [|exact Hk]; unfold Fin; rewrite Hx, Hf; right; exists t;
                            split; [reflexivity|split; [apply R0|exact Hne]]).
           apply (Gen (Ijumpifnot t0) Hf); [|exact Hk]. unfold Fin. rewrite Hx, Hf. right. exists t0.
           split; [reflexivity|split; [apply Look; auto|exact Hne]].
        -- apply (Gen (Ijumpifnot t) Hf); [|exact Hk]. unfold Fin. rewrite Hx, Hf. right. exists t.
           split; [reflexivity|split; [apply R0|exact Hne]].
Qed.
End Spec.

(* ---- simulation: the machine on c and the machine on peephole_fold c ---- *)
Section Sim.
Variable nt : natives.
Variable c : list instr.
Let tg := jump_targets c.
Let c' := peephole_fold c.
Notation fused := (fused_at tg c).
Notation ReachC := (Reach c).

Hypothesis Hjin : forall p j, nth_error c p = Some (Ijumpifnot j) -> j <> S p.
Hypothesis Hlast : nth_error c (length c - 1) = Some Iret.
(* the targets of pushpc / opcall pc / opcallrec are opscope instructions (compileFuncDef, compileCallInternal);
   the Go pass does not put them into its `targets` *)
Hypothesis Hscope : forall pc p, nth_error c pc = Some (Ipushpc p) \/ nth_error c pc = Some (Icallf p) \/ nth_error c pc = Some (Icallrec p) ->
  exists id nv na, nth_error c p = Some (Iscope id nv na).

Definition fs (p : nat) : bool := match p with O => false | S q => fused q end.

Lemma len_eq : length c' = length c.
Proof. unfold c', peephole_fold. apply peepR_length. Qed.

Lemma spec_global : forall p y, nth_error c' p = Some y ->
  if fs p then FinS c p y else Fin tg c p y.
Proof.
  intros p y H. pose proof (peepR_spec tg c c [] eq_refl p y H) as HS. simpl in HS.
  destruct p; simpl in *; auto.
Qed.

Lemma in_targets : forall l p x t, nth_error l p = Some x ->
  match x with Ifork u | Iforktrybegin u | Ijump u | Ijumpifnot u => u = t | _ => False end ->
  is_target (jump_targets l) t = true.
Proof.
  induction l; intros p x t Hp Hx; [destruct p; discriminate|].
  unfold jump_targets, is_target in *. simpl. rewrite existsb_app. apply orb_true_iff.
  destruct p; simpl in Hp.
  - inversion Hp; subst. left. destruct x; try contradiction; subst; simpl; rewrite Nat.eqb_refl; reflexivity.
  - right. eapply IHl; eauto.
Qed.

Lemma target_not_fs : forall t, is_target tg t = true -> fs t = false.
Proof.
  intros [|q] H; simpl; auto. destruct (fused q) eqn:E; auto.
  destruct (fused_at_spec _ _ _ E) as (x & y & _ & _ & _ & _ & Ht). rewrite H in Ht. discriminate.
Qed.

Lemma reach_target : forall p q, ReachC p q -> is_target tg p = true -> is_target tg q = true.
Proof.
  induction 1; intros Hp; auto. apply IHReach. eapply in_targets; eauto. reflexivity.
Qed.

(* a position whose instruction is not pop / const is not the second half of a fused pair *)
Lemma not_popconst_fs : forall p x, nth_error c p = Some x -> is_popconst x = false -> fs p = false.
Proof.
  intros [|q] x Hx Hp; simpl; auto. destruct (fused q) eqn:E; auto.
  destruct (fused_at_spec _ _ _ E) as (x0 & y0 & _ & Hy & _ & Hq & _). rewrite Hx in Hy. inversion Hy; subst. congruence.
Qed.
(* ... and one whose instruction is not push / dup / load is not the first half *)
Lemma not_pdl_fused : forall p x, nth_error c p = Some x -> is_pdl x = false -> fused p = false.
Proof.
  intros p x Hx Hp. destruct (fused p) eqn:E; auto.
  destruct (fused_at_spec _ _ _ E) as (x0 & y0 & Hx0 & _ & Hp0 & _ & _). rewrite Hx in Hx0. inversion Hx0; subst. congruence.
Qed.
Lemma scope_fs : forall pc p, nth_error c pc = Some (Ipushpc p) \/ nth_error c pc = Some (Icallf p) \/ nth_error c pc = Some (Icallrec p) -> fs p = false.
Proof. intros pc p H. destruct (Hscope pc p H) as (id & nv & na & Hs). eapply not_popconst_fs; eauto. Qed.

(* a pc from which execution resumes after a return: the instruction there is a call (or the last opret), so the
   position after it is not the second half of a fused pair either *)
Definition pc_ok (p : nat) : Prop := fs p = false /\ fs (S p) = false.

Fixpoint frame_ok (f : frame) : Prop :=
  match f with
  | Frame _ _ rpc _ save _ =>
      pc_ok rpc /\ (fix all (l : list frame) : Prop := match l with [] => True | x :: r => frame_ok x /\ all r end) save
  end.
Fixpoint chain_ok (l : list frame) : Prop := match l with [] => True | x :: r => frame_ok x /\ chain_ok r end.
Lemma frame_ok_unfold : forall id off rpc stamp save outer,
  frame_ok (Frame id off rpc stamp save outer) <-> pc_ok rpc /\ chain_ok save.
Proof.
  intros. simpl. split; intros [H1 H2]; split; auto; clear H1; induction save; simpl in *; auto; destruct H2; split; auto.
Qed.
Lemma frame_ok_inv : forall id off rpc stamp save outer, frame_ok (Frame id off rpc stamp save outer) -> pc_ok rpc /\ chain_ok save.
Proof. intros id off rpc stamp save outer H. exact (proj1 (frame_ok_unfold id off rpc stamp save outer) H). Qed.
Lemma frame_ok_intro : forall id off rpc stamp save outer, pc_ok rpc -> chain_ok save -> frame_ok (Frame id off rpc stamp save outer).
Proof. intros id off rpc stamp save outer H1 H2. exact (proj2 (frame_ok_unfold id off rpc stamp save outer) (conj H1 H2)). Qed.
Arguments frame_ok : simpl never.
Definition sv_ok (x : sv) : Prop := match x with SPc p _ => fs p = false | _ => True end.
Definition creg_ok (g : gx) : Prop := match fst (creg g) with Some p => pc_ok p | None => True end.
Definition forks_ok (fk : list fork) : Prop :=
  Forall (fun f => fs (f_pc f) = false /\ chain_ok (f_scopes f) /\ Forall sv_ok (f_stk f)) fk.
Definition mem_ok (m : mem) : Prop :=
  forks_ok (forks m) /\ chain_ok (scopes m) /\ Forall sv_ok (stk m) /\ Forall sv_ok (vars m) /\ creg_ok (gxs m).

Lemma last_not_fs : fs (length c - 1) = false.
Proof. eapply not_popconst_fs; [exact Hlast|reflexivity]. Qed.
Lemma last_pc_ok : pc_ok (length c - 1).
Proof.
  split; [apply last_not_fs|].
  assert (Hl : length c - 1 < length c) by (apply nth_error_Some; rewrite Hlast; discriminate).
  assert (H : nth_error c (S (length c - 1)) = None) by (apply nth_error_None; lia).
  simpl. unfold fused_at. rewrite H. destruct (nth_error c (length c - 1)); reflexivity.
Qed.

Lemma update_Forall : forall (P : sv -> Prop) l k x l', update l k x = Some l' -> Forall P l -> P x -> Forall P l'.
Proof.
  induction l; intros k x l' H HF Hx; simpl in H; [discriminate|].
  inversion HF; subst. destruct k; [inversion H; subst; constructor; auto|].
  destruct (update l k x) eqn:E; [|discriminate]. inversion H; subst. constructor; eauto.
Qed.
Lemma nth_Forall : forall (P : sv -> Prop) l k x, nth_error l k = Some x -> Forall P l -> P x.
Proof. intros P l k x H HF. rewrite Forall_forall in HF. apply HF. eapply nth_error_In; eauto. Qed.
Lemma repeat_Forall : forall (P : sv -> Prop) x n, P x -> Forall P (repeat x n).
Proof. induction n; simpl; auto. Qed.

Definition out_ok (pc : nat) (o : outcome) : Prop :=
  match o with
  | Next (Run pc2 _ _ m2) => (pc2 = S pc \/ fs pc2 = false) /\ mem_ok m2
  | Next (Brk _ fk vs _ g) => forks_ok fk /\ Forall sv_ok vs /\ creg_ok g
  | Emit _ (Run pc2 _ _ m2) => fs pc2 = false /\ mem_ok m2
  | Emit _ (Brk _ _ _ _ _) => False
  | _ => True
  end.

Lemma take_pairs_Forall : forall (Q : sv -> Prop) n s acc ps r, take_pairs n s acc = Some (ps, r) -> Forall Q s -> Forall Q r.
Proof.
  induction n; intros s acc ps r H HF; simpl in H; [inversion H; subst; auto|].
  destruct s as [|[v| | |] [|[k| | |] s']]; try discriminate.
  inversion HF as [|? ? _ HF1]; subst. inversion HF1 as [|? ? _ HF2]; subst. eauto.
Qed.

Ltac okf :=
  repeat match goal with
  | |- _ /\ _ => split
  | |- Forall _ (_ :: _) => constructor
  | |- Forall _ (_ ++ _) => apply Forall_app; split
  | |- Forall _ (repeat _ _) => apply repeat_Forall
  | |- forks_ok (_ :: _) => constructor
  | H : Forall _ (_ :: _) |- _ => inversion H; clear H; subst
  | |- Forall sv_ok ?l' =>
      match goal with H : update ?l _ ?x = Some l', HF : Forall sv_ok ?l |- _ => apply (update_Forall sv_ok l _ x l' H HF) end
  | |- Forall sv_ok ?l' =>
      match goal with H : take_pairs _ ?l _ = Some (_, l'), HF : Forall sv_ok ?l |- _ => apply (take_pairs_Forall sv_ok _ _ _ _ _ H HF) end
  end; simpl; auto.

Ltac okm :=
  unfold mem_ok, forks_ok, creg_ok in *; cbn [stk scopes forks vars lbl offset gxs f_pc f_stk f_scopes creg fst] in *;
  repeat match goal with
  | H : stk ?m = _ |- _ => rewrite H in *
  | H : scopes ?m = _ |- _ => rewrite H in *
  | H : forks ?m = _ |- _ => rewrite H in *
  end;
  repeat match goal with
  | H : nth_error ?l _ = Some ?v, HF : Forall sv_ok ?l |- _ =>
      match goal with H' : sv_ok v |- _ => fail 1 | _ => pose proof (nth_Forall sv_ok l _ v H HF) end
  | H : update ?l _ ?x = Some ?l', HF : Forall sv_ok ?l |- Forall sv_ok ?l' => apply (update_Forall sv_ok l _ x l' H HF)
  end; okf.

Lemma step_shape : forall pc bt e m, fs pc = false -> mem_ok m -> out_ok pc (step nt c (Run pc bt e m)).
Proof.
  intros pc bt e m Hpc (Hf & Hs & Hst & Hv & Hcr).
  assert (Tg : forall x t, nth_error c pc = Some x ->
            match x with Ifork u | Iforktrybegin u | Ijump u | Ijumpifnot u => u = t | _ => False end ->
            fs t = false) by (intros; apply target_not_fs; eapply in_targets; eauto).
  unfold step. destruct (nth_error c pc) as [x|] eqn:Ex; [|simpl; unfold brk; simpl; auto].
  assert (Hsc : forall p, x = Ipushpc p \/ x = Icallf p \/ x = Icallrec p -> fs p = false).
  { intros p Hx. apply (scope_fs pc p). rewrite Ex. destruct Hx as [E|[E|E]]; subst x; auto. }
  assert (Hnp : is_pdl x = false -> pc_ok pc) by (intros Hp; split; [exact Hpc|exact (not_pdl_fused pc x Ex Hp)]).
  destruct x; unfold brk, set_stk, set_vars, pushfork; cbn [stk scopes forks vars lbl offset gxs];
    repeat match goal with
    | |- out_ok _ (match ?e with _ => _ end) => destruct e eqn:?
    | |- out_ok _ (if ?e then _ else _) => destruct e eqn:?
    | |- out_ok _ (let _ := _ in _) => cbv zeta
    end; simpl; auto.
  all: try (okf; fail).
  all: try solve [split; [left; reflexivity|okm]].
  all: try solve [split; [right; eapply Tg; eauto; reflexivity|okm]].
  all: try (split; [first [left; reflexivity|auto]|]; okm).
  all: try apply last_pc_ok.
  all: try (match goal with |- Forall sv_ok (if ?b then _ else _) => destruct b end; okf; fail).
  all: repeat match goal with
       | H : creg ?g = (_, _), Hc : match fst (creg ?g) with _ => _ end |- _ => rewrite H in Hc; simpl in Hc
       | H : chain_ok (Frame _ _ _ _ _ _ :: _) |- _ => destruct H as [?Hfr ?Hch]
       | H : frame_ok (Frame _ _ _ _ _ _) |- _ => apply frame_ok_inv in H; destruct H as [[?Hp1 ?Hp2] ?Hsv]
       | H : pc_ok _ |- _ => destruct H as [?Hp1 ?Hp2]
       | H : chain_ok (_ :: _) |- _ => destruct H as [?Hfr ?Hch]
       end.
  all: repeat match goal with
       | |- _ /\ _ => split
       | |- frame_ok (Frame _ _ _ _ _ _) => apply frame_ok_intro
       | |- pc_ok _ => split
       end; simpl; auto.
  all: try (subst; simpl in *; auto; fail).
  all: constructor; simpl; auto.
Qed.

Lemma step_same : forall pc bt e m, nth_error c' pc = nth_error c pc ->
  step nt c' (Run pc bt e m) = step nt c (Run pc bt e m).
Proof.
  intros pc bt e m H. unfold step. rewrite H. destruct (nth_error c pc) as [[]|]; try reflexivity.
  rewrite len_eq. reflexivity.
Qed.

Inductive Rel : state -> state -> Prop :=
| Rel_brk : forall e fk vs l g, forks_ok fk -> Forall sv_ok vs -> creg_ok g -> Rel (Brk e fk vs l g) (Brk e fk vs l g)
| Rel_run : forall pc pc' bt e m, ReachC pc pc' -> fs pc' = false -> (pc = pc' \/ is_target tg pc' = true) ->
    mem_ok m -> Rel (Run pc bt e m) (Run pc' bt e m)
| Rel_mid : forall i bt e x st sc fk vs l o g, fused i = true ->
    mem_ok {| stk := st; scopes := sc; forks := fk; vars := vs; lbl := l; offset := o; gxs := g |} ->
    Rel (Run (S i) bt e {| stk := x :: st; scopes := sc; forks := fk; vars := vs; lbl := l; offset := o; gxs := g |})
        (Run (S i) bt e {| stk := st; scopes := sc; forks := fk; vars := vs; lbl := l; offset := o; gxs := g |}).

Definition sim_ok (s' : state) (o : outcome) : Prop :=
  match o with
  | Next t => (exists t', step nt c' s' = Next t' /\ Rel t t') \/ Rel t s'
  | Emit v t => exists t', step nt c' s' = Emit v t' /\ Rel t t'
  | Halt e => step nt c' s' = Halt e
  | Stuck => True
  end.

Lemma rel_same : forall pc o, fs pc = false -> out_ok pc o ->
  (forall pc2 b e m2, o = Next (Run pc2 b e m2) -> pc2 = S pc -> fused pc = false) ->
  match o with
  | Next t => Rel t t
  | Emit _ t => Rel t t
  | _ => True
  end.
Proof.
  intros pc o Hpc Ho Hn. destruct o as [[pc2 b e m2|e fk vs l g]|v [pc2 b e m2|]| |]; simpl in Ho; auto.
  - destruct Ho as [Hp Hm]. apply Rel_run; auto; [apply R0| ].
    destruct Hp as [->|Ht]; [simpl; eapply Hn; eauto|exact Ht].
  - destruct Ho as (H1 & H2 & H3). apply Rel_brk; auto.
  - destruct Ho as [Hp Hm]. apply Rel_run; auto. apply R0.
  - contradiction.
Qed.

Lemma sim_step : forall s s', Rel s s' -> sim_ok s' (step nt c s).
Proof.
  intros s s' HR. destruct HR as [e fk vs l g Hf Hvs Hg | pc pc' bt e m HRe Hfs Htg Hm | i bt e x st sc fk vs l o g Hfu Hm].
  - (* after break loop: popfork is the same on both sides *)
    destruct fk as [|f r]; simpl; auto.
    left. eexists. split; [reflexivity|]. inversion Hf as [|f0 r0 (Hf1 & Hf2 & Hf3) Hf4]; subst.
    apply Rel_run; [apply R0|auto|auto|]. unfold mem_ok. simpl. auto.
  - destruct (Nat.eq_dec pc pc') as [<-|Hne].
    + (* same pc *)
      destruct (nth_error c pc) as [x|] eqn:Ex.
      2:{ (* past the end of the code *)
          assert (Ex' : nth_error c' pc = None).
          { apply nth_error_None. rewrite len_eq. apply nth_error_None. auto. }
          unfold step. rewrite Ex. simpl. left. eexists. split; [unfold step; rewrite Ex'; reflexivity|].
          destruct Hm as (H1 & H2 & H3 & H4 & H5). apply Rel_brk; auto. }
      assert (Ey : exists y, nth_error c' pc = Some y).
      { destruct (nth_error c' pc) eqn:E; eauto. apply nth_error_None in E. rewrite len_eq in E.
        apply nth_error_None in E. congruence. }
      destruct Ey as (y & Ey). pose proof (spec_global _ _ Ey) as HS. rewrite Hfs in HS.
      unfold Fin in HS. rewrite Ex in HS.
      destruct (fused pc) eqn:Efu.
      * (* first half of a fused pair: c runs push|dup|load, c' runs nop *)
        subst y. destruct (fused_at_spec _ _ _ Efu) as (x0 & y0 & Hx0 & _ & Hp & _ & _). rewrite Ex in Hx0. inversion Hx0; subst x0.
        destruct m as [st sc fk vs l o g].
        assert (E' : step nt c' (Run pc bt e {| stk := st; scopes := sc; forks := fk; vars := vs; lbl := l; offset := o; gxs := g |}) =
                     Next (Run (S pc) bt e {| stk := st; scopes := sc; forks := fk; vars := vs; lbl := l; offset := o; gxs := g |})).
        { unfold step. rewrite Ey. reflexivity. }
        unfold step. rewrite Ex. destruct x; try discriminate; simpl.
        -- left. eexists. split; [exact E'|]. apply Rel_mid; auto.
        -- destruct st as [|v0 st0]; simpl; auto. left. eexists. split; [exact E'|]. apply (Rel_mid pc bt e v0 (v0 :: st0)); auto.
        -- destruct (index_of sc x); simpl; auto. destruct (nth_error vs n); simpl; auto.
           left. eexists. split; [exact E'|]. apply Rel_mid; auto.
      * destruct x.
        all: try (subst y; rewrite <- (step_same pc bt e m) by congruence;
                  pose proof (step_shape pc bt e m Hfs Hm) as Hsh; rewrite <- (step_same pc bt e m) in Hsh by congruence;
                  pose proof (rel_same pc _ Hfs Hsh) as Hrs;
                  remember (step nt c' (Run pc bt e m)) as o eqn:Eo;
                  destruct o as [st1|v1 st1|eh|]; cbn [sim_ok]; auto;
                  [left; eexists; split; [symmetry; exact Eo|]; apply Hrs; intros; exact Efu
                  |eexists; split; [symmetry; exact Eo|]; apply Hrs; intros; exact Efu]).
        -- (* jump *)
           assert (Ht : is_target tg t = true) by (eapply in_targets; [exact Ex|reflexivity]).
           unfold step at 1. rewrite Ex. cbn [sim_ok]. left.
           destruct HS as [[-> ->]|(j' & -> & HR & Hne)].
           ++ eexists. split; [unfold step; rewrite Ey; reflexivity|].
              apply Rel_run; [apply R0|exact Efu|auto|exact Hm].
           ++ eexists. split; [unfold step; rewrite Ey; reflexivity|].
              pose proof (reach_target _ _ HR Ht) as Ht'.
              apply Rel_run; [exact HR|apply target_not_fs; exact Ht'|auto|exact Hm].
        -- (* jumpifnot *)
           assert (Ht : is_target tg t = true) by (eapply in_targets; [exact Ex|reflexivity]).
           destruct HS as [[-> ->]|(j' & -> & HR & Hne)]; [exfalso; eapply Hjin; eauto|].
           pose proof (reach_target _ _ HR Ht) as Ht'.
           destruct m as [st sc fk vs l o g]. destruct Hm as (Hm1 & Hm2 & Hm3 & Hm4 & Hm5). simpl in Hm1, Hm2, Hm3, Hm4, Hm5.
           unfold step at 1. rewrite Ex. destruct st as [|v0 r0]; cbn [sim_ok stk]; auto.
           assert (Hm' : mem_ok (set_stk {| stk := v0 :: r0; scopes := sc; forks := fk; vars := vs; lbl := l; offset := o; gxs := g |} r0)).
           { unfold mem_ok, set_stk. simpl. inversion Hm3; subst. auto. }
           destruct v0 as [[| [] | | | |]| | |]; cbn [sim_ok]; left; eexists;
             (split; [unfold step; rewrite Ey; reflexivity|]);
             first [apply Rel_run; [exact HR|apply target_not_fs; exact Ht'|auto|exact Hm']
                   |apply Rel_run; [apply R0|exact Efu|auto|exact Hm']].
    + (* c follows a chain of jumps that c' has threaded *)
      inversion HRe; subst; [congruence|].
      unfold step. rewrite H. simpl. right. apply Rel_run; auto. destruct Htg; [congruence|auto].
  - (* second half of a fused pair *)
    destruct (fused_at_spec _ _ _ Hfu) as (x0 & y0 & Hx0 & Hy0 & Hp & Hq & _).
    assert (Ey : exists y, nth_error c' (S i) = Some y).
    { destruct (nth_error c' (S i)) eqn:E; eauto. apply nth_error_None in E. rewrite len_eq in E.
      apply nth_error_None in E. congruence. }
    destruct Ey as (y & Ey). pose proof (spec_global _ _ Ey) as HS. simpl fs in HS. rewrite Hfu in HS.
    unfold FinS in HS. rewrite Hy0 in HS.
    assert (Hnf : fused (S i) = false).
    { unfold fused_at. rewrite Hy0. destruct (nth_error c (S (S i))); auto. destruct y0; try discriminate; reflexivity. }
    destruct Hm as (Hm1 & Hm2 & Hm3 & Hm4 & Hm5). simpl in Hm1, Hm2, Hm3, Hm4, Hm5.
    unfold step at 1. rewrite Hy0. destruct y0; try discriminate; subst y; cbn [sim_ok stk]; left; eexists;
      (split; [unfold step; rewrite Ey; reflexivity|]);
      (apply Rel_run; [apply R0|exact Hnf|auto|unfold mem_ok, set_stk; simpl; repeat split; auto; try (constructor; simpl; auto)]).
Qed.

Lemma run_S : forall code f s, run nt code (S f) s =
  match step nt code s with
  | Next s' => run nt code f s'
  | Emit v s' => let '(o, e) := run nt code f s' in (v :: o, e)
  | Halt None => ([], End)
  | Halt (Some e) => ([], Error e)
  | Stuck => ([], IsStuck)
  end.
Proof. reflexivity. Qed.

Lemma sim_run : forall f s s' o, Rel s s' -> run nt c f s = o -> snd o <> OutOfFuel -> snd o <> IsStuck ->
  exists f', run nt c' f' s' = o.
Proof.
  induction f; intros s s' o HR Ho H1 H2.
  - simpl in Ho. subst o. simpl in H1. congruence.
  - rewrite run_S in Ho. pose proof (sim_step s s' HR) as HS.
    destruct (step nt c s) as [t|v t|e|]; cbn [sim_ok] in HS.
    + destruct HS as [(t' & Es & HR')|HR'].
      * destruct (IHf t t' o HR' Ho H1 H2) as (f' & Hf'). exists (S f'). rewrite run_S, Es. exact Hf'.
      * exact (IHf t s' o HR' Ho H1 H2).
    + destruct HS as (t' & Es & HR'). destruct (run nt c f t) as [o1 e1] eqn:Er. subst o. simpl in H1, H2.
      destruct (IHf t t' (o1, e1) HR' Er H1 H2) as (f' & Hf'). exists (S f'). rewrite run_S, Es, Hf'. reflexivity.
    + exists 1. rewrite run_S, HS. exact Ho.
    + subst o. simpl in H2. congruence.
Qed.

Theorem peephole_fold_sound : forall v f o, run nt c f (init c v) = o -> snd o <> OutOfFuel -> snd o <> IsStuck ->
  exists f', run nt (peephole_fold c) f' (init (peephole_fold c) v) = o.
Proof.
  intros v f o Ho H1 H2.
  assert (Ei : init (peephole_fold c) v = init c v) by (unfold init; fold c'; rewrite len_eq; reflexivity).
  rewrite Ei. eapply sim_run; eauto.
  unfold init. apply Rel_run; [apply R0|reflexivity|auto|].
  unfold mem_ok, forks_ok, creg_ok. simpl. pose proof last_pc_ok as [L1 L2]. repeat split; auto. constructor; simpl; auto.
Qed.

End Sim.

(* ---- the side conditions, as an executable test on the code ---- *)
Lemma checki_spec : forall f l i, checki f l i = true -> forall k x, nth_error l k = Some x -> f (i + k) x = true.
Proof.
  induction l; intros i H k x Hk; [destruct k; discriminate|]. simpl in H. apply andb_true_iff in H. destruct H as [H1 H2].
  destruct k; simpl in Hk; [inversion Hk; subst; rewrite Nat.add_0_r; exact H1|].
  replace (i + S k) with (S i + k) by lia. eapply IHl; eauto.
Qed.
Lemma side_ok_jin : forall c, side_okb c = true -> forall p j, nth_error c p = Some (Ijumpifnot j) -> j <> S p.
Proof.
  intros c H p j Hp. pose proof (checki_spec _ _ _ H p _ Hp) as Hk. simpl in Hk. apply negb_true_iff, Nat.eqb_neq in Hk. exact Hk.
Qed.
Lemma side_ok_scope : forall c, side_okb c = true -> forall pc p,
  nth_error c pc = Some (Ipushpc p) \/ nth_error c pc = Some (Icallf p) \/ nth_error c pc = Some (Icallrec p) ->
  exists id nv na, nth_error c p = Some (Iscope id nv na).
Proof.
  intros c H pc p Hp.
  assert (Hs : is_scope c p = true) by (destruct Hp as [Hp|[Hp|Hp]]; exact (checki_spec _ _ _ H pc _ Hp)).
  unfold is_scope in Hs. destruct (nth_error c p) as [[]|]; try discriminate. eauto.
Qed.

From Verif Require Import c01vm2.Den c01vm2.Mach c01vm2.Gen c01vm2.Lemmas c01vm2.Static c01vm2.Correct.

(* ---- the side conditions hold for the code emitted by the compiler ---- *)
Definition jin_ok (pc : nat) (l : list instr) : Prop :=
  forall k j, nth_error l k = Some (Ijumpifnot j) -> pc + k + 2 <= j.

Lemma jin_nil : forall pc, jin_ok pc [].
Proof. intros pc [|k] j H; discriminate. Qed.
Lemma jin_cons : forall pc x r,
  match x with Ijumpifnot j => pc + 2 <= j | _ => True end -> jin_ok (S pc) r -> jin_ok pc (x :: r).
Proof.
  intros pc x r Hx Hr [|k] j H; simpl in H.
  - inversion H; subst. lia.
  - specialize (Hr k j H). lia.
Qed.
Lemma jin_app : forall pc a b, jin_ok pc a -> jin_ok (pc + length a) b -> jin_ok pc (a ++ b).
Proof.
  intros pc a b Ha Hb k j H. destruct (Nat.lt_ge_cases k (length a)).
  - rewrite nth_error_app1 in H by auto. apply Ha; auto.
  - rewrite nth_error_app2 in H by auto. specialize (Hb _ _ H). lia.
Qed.
Lemma jin_eq : forall pc pc' l, pc = pc' -> jin_ok pc l -> jin_ok pc' l.
Proof. intros; subst; auto. Qed.

Ltac jin_sub := eapply jin_eq; [|solve [eauto]]; simpl; repeat (rewrite app_length; simpl); lia.
Ltac jin :=
  repeat first
    [ apply jin_nil
    | apply jin_cons; [simpl; repeat (rewrite app_length; simpl); first [exact I|lia]|]
    | jin_sub
    | apply jin_app ].

Lemma arg_code_jin : forall v p sn cb nvc, jin_ok (p + 2) cb -> jin_ok p (arg_code v p sn cb nvc).
Proof.
  intros v p sn cb nvc H. unfold arg_code. destruct cb as [|x [|y r]].
  - jin.
  - destruct (Nat.eqb nvc 0).
    + intros k j Hk. destruct x; simpl in Hk; destruct k as [|[|[|k]]]; simpl in Hk; try discriminate.
      inversion Hk; subst. pose proof (H 0 _ eq_refl). lia.
    + jin.
  - jin.
Qed.

Lemma comp_args_len : forall (C : query -> nat -> nat -> res) l p sn cas p' s2, comp_args C l p sn = Some (cas, p', s2) -> p' = p + length cas.
Proof.
  induction l as [|a r IH]; intros p sn cas p' s2 H; simpl in H.
  - inversion H; subst. simpl. lia.
  - destruct (comp_args C r p sn) as [[[cr p1] s1]|] eqn:Er; [|discriminate].
    destruct (C a s1 p1) as [[[cb nvc] s3]|] eqn:Ea; [|discriminate]. inversion H; subst. apply IH in Er. subst p1.
    repeat (rewrite app_length; simpl). lia.
Qed.
Lemma comp_args_jin : forall (C : query -> nat -> nat -> res) l p sn cas p' s2, comp_args C l p sn = Some (cas, p', s2) ->
  Forall (fun a => forall s p0 cb nvc s1, C a s p0 = Some (cb, nvc, s1) -> jin_ok (p0 + 2) cb) l -> jin_ok p cas.
Proof.
  induction l as [|a r IH]; intros p sn cas p' s2 H HF; simpl in H.
  - inversion H; subst. jin.
  - destruct (comp_args C r p sn) as [[[cr p1] s1]|] eqn:Er; [|discriminate].
    destruct (C a s1 p1) as [[[cb nvc] s3]|] eqn:Ea; [|discriminate]. inversion H; subst. inversion HF; subst.
    pose proof (comp_args_len _ _ _ _ _ _ _ Er) as Ep. subst p1.
    apply jin_app; [eapply IH; eauto|]. apply H2 in Ea. jin.
Qed.

Definition nj (x : instr) : bool := match x with Ijumpifnot _ => false | _ => true end.
Lemma nj_jin : forall l pc, forallb nj l = true -> jin_ok pc l.
Proof.
  intros l pc H k j Hk. apply nth_error_In in Hk. rewrite forallb_forall in H. apply H in Hk. discriminate.
Qed.
Lemma pv_code_nj : forall sn n pvs j, forallb nj (pv_code sn n pvs j) = true.
Proof. induction pvs as [|[i x] r IH]; intros j; simpl; auto. Qed.
Lemma stores_nj : forall sn (l : list nat), forallb nj (map (fun i => Istore (sn, S i)) l) = true.
Proof. induction l; simpl; auto. Qed.
Lemma prelude_nj : forall sn ps, forallb nj (prelude sn ps) = true.
Proof.
  intros sn ps. unfold prelude. destruct ps as [|p0 ps']; [reflexivity|].
  cbn [forallb nj andb]. rewrite forallb_app, stores_nj, forallb_app, pv_code_nj. reflexivity.
Qed.

(* a property of code segments closed under concatenation and under a leading push / load holds for the entries of an
   object when it holds for the code of the key and value queries *)
Lemma comp_ents_Q : forall (Q : nat -> list instr -> Prop),
  (forall pc, Q pc []) -> (forall pc a b, Q pc a -> Q (pc + length a) b -> Q pc (a ++ b)) ->
  (forall pc x r, match x with Ipush _ | Iload _ => True | _ => False end -> Q (S pc) r -> Q pc (x :: r)) ->
  forall (C : query -> nat -> nat -> nat -> res) v (es : list ent) p n s cs n' s', comp_ents C v es p n s = Some (cs, n', s') ->
  Forall (EntP (fun a => forall p n s c n' s', C a p n s = Some (c, n', s') -> Q p c)) es -> Q p (concat cs).
Proof.
  intros Q Qnil Qapp Qcons C v. induction es as [|[k qv] r IH]; intros p n s cs n' s' H HF; simpl in H.
  - inversion H; subst. apply Qnil.
  - pose proof (Forall_inv HF) as [Hk Hv]. pose proof (Forall_inv_tail HF) as HF'. simpl in Hk, Hv.
    destruct k as [str|kq].
    + destruct (C qv (p + length [Ipush (VStr str)] + 1) n s) as [[[cv n2] s2]|] eqn:Ev; [|discriminate].
      destruct (comp_ents C v r _ n2 s2) as [[[cr n3] s3]|] eqn:Er; [|discriminate]. inversion H; subst.
      apply Hv in Ev. apply IH in Er; auto. cbn [concat app].
      apply Qcons; [exact I|]. apply Qcons; [exact I|]. apply Qapp.
      * replace (S (S p)) with (p + length [Ipush (VStr str)] + 1) by (simpl; lia). exact Ev.
      * match goal with H : Q ?a (concat cr) |- Q ?b (concat cr) => replace b with a by (simpl; lia); exact H end.
    + destruct (C kq (S p) n s) as [[[ck n1] s1]|] eqn:Ek; [|discriminate].
      destruct (C qv (p + length (Iload v :: ck) + 1) n1 s1) as [[[cv n2] s2]|] eqn:Ev; [|discriminate].
      destruct (comp_ents C v r _ n2 s2) as [[[cr n3] s3]|] eqn:Er; [|discriminate]. inversion H; subst.
      apply Hk in Ek. apply Hv in Ev. apply IH in Er; auto. cbn [concat app]. rewrite <- app_assoc.
      apply Qcons; [exact I|]. apply Qapp; [exact Ek|]. cbn [app]. apply Qcons; [exact I|]. apply Qapp.
      * match goal with H : Q ?a cv |- Q ?b cv => replace b with a by (simpl; lia); exact H end.
      * match goal with H : Q ?a (concat cr) |- Q ?b (concat cr) => replace b with a by (simpl; lia); exact H end.
Qed.

(* the code of a pattern contains neither a conditional jump nor a call-like instruction *)
Definition plain (x : instr) : bool := match x with Istore _ | Iload _ | Iindex _ | Iindexarray _ | Idup => true | _ => false end.
Lemma pcomp_plain :
  (forall p cur nv c b n, pcomp p cur nv = (c, b, n) -> forallb plain c = true) /\
  (forall l i v cur nv c b n, parr_comp l i v cur nv = (c, b, n) -> forallb plain c = true) /\
  (forall l v cur nv c b n, pobj_comp l v cur nv = (c, b, n) -> forallb plain c = true).
Proof.
  apply pattern_mutind; simpl; intros.
  - inversion H; subst. reflexivity.
  - destruct (parr_comp l 0 (cur, nv) cur (S nv)) as [[c0 b0] n0] eqn:E. inversion H0; subst. simpl. eauto.
  - destruct (pobj_comp l (cur, nv) cur (S nv)) as [[c0 b0] n0] eqn:E. inversion H0; subst. simpl. eauto.
  - inversion H; subst. reflexivity.
  - destruct (pcomp p cur nv) as [[c1 b1] n1] eqn:E1. destruct (parr_comp r (S i) v cur n1) as [[c2 b2] n2] eqn:E2.
    inversion H1; subst. simpl. rewrite forallb_app. erewrite H, H0; eauto.
  - inversion H; subst. reflexivity.
  - destruct (pcomp p cur nv) as [[c1 b1] n1] eqn:E1. destruct (pobj_comp r v cur n1) as [[c2 b2] n2] eqn:E2.
    inversion H1; subst. simpl. rewrite forallb_app. erewrite H, H0; eauto.
  - destruct (pcomp p cur (S nv)) as [[c1 b1] n1] eqn:E1. destruct (pobj_comp r v cur n1) as [[c2 b2] n2] eqn:E2.
    inversion H1; subst. simpl. rewrite forallb_app. erewrite H, H0; eauto.
Qed.
Lemma plain_nj : forall l, forallb plain l = true -> forallb nj l = true.
Proof. induction l as [|x r IH]; simpl; intros H; auto. apply andb_true_iff in H. destruct H as [H1 H2]. rewrite IH by auto. destruct x; try discriminate; reflexivity. Qed.

Lemma wrap_exp_jin : forall pc c, jin_ok (S pc) c -> jin_ok pc (wrap_exp c).
Proof.
  intros pc c H. unfold wrap_exp. destruct c as [|x [|y r]].
  - apply jin_cons; [exact I|]. apply jin_cons; [exact I|apply jin_nil].
  - intros k j Hk. destruct k as [|k]; [|destruct k; discriminate]. simpl in Hk. inversion Hk; subst. pose proof (H 0 j eq_refl). lia.
  - apply jin_cons; [exact I|]. apply jin_app; [exact H|]. apply jin_cons; [exact I|apply jin_nil].
Qed.

Ltac jinp :=
  repeat first
    [ apply jin_nil
    | apply jin_cons; [simpl; repeat (rewrite app_length; simpl); first [exact I|lia]|]
    | jin_sub
    | (apply nj_jin; apply plain_nj; eassumption)
    | apply jin_app ].
(* reduce / foreach are done through their inversion lemmas (the pattern code sits between the sub-queries) *)
Ltac not_fold Hc :=
  lazymatch type of Hc with
  | compg _ (QReduce _ _ _ _) _ _ _ _ _ _ = _ => fail
  | compg _ (QForeach _ _ _ _ _) _ _ _ _ _ _ = _ => fail
  | _ => idtac
  end.

Lemma comp_jin : forall tco q ce tp cur pc nv sn cq nv' sn', compg tco q ce tp cur pc nv sn = Some (cq, nv', sn') -> jin_ok pc cq.
Proof.
  intros tco. qind q; intros ce tp cur pc nv sn cq nv' sn' Hc; try (not_fold Hc; simpl in Hc; dcomp; try (inversion Hc; subst; clear Hc; jin; fail)).
  - (* if *) destruct (is_const1 l0), (is_const1 l1); inversion Hc; subst; clear Hc;
      (destruct l as [|i0 l']; [simpl|cbv iota; remember (i0 :: l') as cc; cbn [tl]]); jin.
  - (* try *) destruct h as [h|]; simpl in *; dcomp; inversion Hc; subst; clear Hc; jin.
  - (* array *) destruct (array_fold q); inversion Hc; subst; clear Hc; jin.
  - (* reduce *)
    destruct (comp_reduce_inv _ _ _ _ _ _ _ _ _ _ _ _ _ _ Hc) as (_ & ci & n1 & s1 & cs & n2 & s2 & cp & bs & n2' & cu & Ei & Es & Ep & _ & Eu & ->).
    apply IHi in Ei. apply IHs in Es. apply IHu in Eu. apply (proj1 pcomp_plain) in Ep. jinp.
  - (* foreach *)
    destruct (comp_foreach_inv _ _ _ _ _ _ _ _ _ _ _ _ _ _ _ Hc) as (_ & ci & n1 & s1 & cs & n2 & s2 & cp & bs & n2' & cu & n3 & s3 & cx & Ei & Es & Ep & _ & Eu & Hx & ->).
    apply IHi in Ei. apply IHs in Es. apply IHu in Eu. apply (proj1 pcomp_plain) in Ep.
    assert (Hcx : jin_ok (pc + 1 + length ci + 1 + length cs + length cp + 1 + length cu + 2) cx).
    { destruct e as [e|]; [simpl in IHe; exact (IHe _ _ _ _ _ _ _ _ _ Hx)|destruct Hx as (-> & _); apply jin_nil]. }
    clear Hx. jinp.
  - (* bind *) (destruct l as [|i0 l']; [simpl in Hc|cbv iota in Hc; remember (i0 :: l') as cc]); dcomp; inversion Hc; subst; clear Hc; jin.
  - (* binop *) change (compg tco (QBinop o a b) ce tp cur pc nv sn) with (compg tco (QBinop o a b) ce None cur pc nv sn) in Hc.
    destruct (comp_binop_inv _ _ _ _ _ _ _ _ _ _ _ Hc) as (_ & _ & cb & nb & s1 & ca & na & Eb & Ea & -> & _).
    apply IHb in Eb. apply IHa in Ea.
    apply jin_cons; [exact I|]. apply jin_app; [apply arg_code_jin; jin|].
    apply jin_app; [apply arg_code_jin; eapply jin_eq; [|exact Ea]; lia|jin].
  - (* def *) destruct (comp_def_inv _ _ _ _ _ _ _ _ _ _ _ _ Hc) as (_ & _ & cb & nvb & s1 & cr & Eb & Er & ->). cbv zeta in Eb, Er.
    apply IHbody in Eb. apply IHrest in Er.
    apply jin_cons; [exact I|]. apply jin_cons; [exact I|]. apply jin_app.
    + apply nj_jin. apply prelude_nj.
    + apply jin_app; [jin|]. apply jin_cons; [exact I|]. jin.
  - (* callf *) simpl in Hc. destruct (lookup_cf f (length args) (ce_env ce)) as [[y|p n|y]|]; try discriminate.
    + destruct args as [|a0 args'].
      * unfold tail_call in Hc. destruct tp as [[p' [[|]|]]|]; try destruct (Nat.eqb p' p); inversion Hc; subst; jin.
      * destruct (Nat.ltb cur sn && ce_lt ce sn); [|discriminate].
        match type of Hc with context [comp_args ?C ?l ?p ?s] => destruct (comp_args C l p s) as [[[cas p'] s2]|] eqn:Ea; [|discriminate] end.
        inversion Hc; subst. apply jin_cons; [exact I|]. apply jin_app; [|jin].
        eapply comp_args_jin; [exact Ea|]. eapply Forall_impl; [|exact IHargs]. simpl. intros a Ha s p0 cb nvc s1 Hca. exact (Ha _ _ _ _ _ _ _ _ _ Hca).
    + inversion Hc; subst. jin.
  - (* object *) change (comp_object (fun a p n s => compg tco a ce None cur p n s) (cur, nv) es pc nv sn = Some (cq, nv', sn')) in Hc.
    destruct es as [|e es]; [inversion Hc; subst; jin|].
    destruct (comp_object_inv _ _ _ _ _ _ _ _ _ _ Hc) as (cs & E & [(kcs & w & _ & _ & ->)|[_ ->]]); [jin|].
    apply jin_cons; [exact I|]. apply jin_app; [|jin].
    refine (comp_ents_Q jin_ok jin_nil jin_app _ _ _ _ _ _ _ _ _ _ E _).
    + intros pc0 x r Hx Hr. apply jin_cons; [destruct x; try contradiction; exact I|exact Hr].
    + eapply Forall_EntP_impl; [|exact IHes]. simpl. intros a Ha p n s c n' s' H. exact (Ha _ _ _ _ _ _ _ _ _ H).
  - (* bindp *)
    destruct (comp_bindp_inv _ _ _ _ _ _ _ _ _ _ _ _ _ Hc) as (_ & _ & cs & n1 & s1 & cp & bs & n2 & cb & Es & Ep & _ & Eb & ->).
    apply IHs in Es. apply IHb in Eb. apply (proj1 pcomp_plain) in Ep.
    apply jin_cons; [exact I|]. apply jin_cons; [exact I|]. apply jin_app; [jin|].
    apply jin_app; [apply nj_jin; apply plain_nj; exact Ep|]. apply jin_cons; [exact I|]. jin.
  - (* indexq *) change (compg tco (QIndexQ t q) ce tp cur pc nv sn = Some (cq, nv', sn')) in Hc.
    destruct (comp_indexq_inv _ _ _ _ _ _ _ _ _ _ _ _ Hc) as (_ & _ & _ & cb & nb & s1 & ca & na & Eb & Ea & -> & _).
    apply IHq in Eb. apply IHt in Ea.
    apply jin_cons; [exact I|]. apply jin_app; [apply wrap_exp_jin; apply arg_code_jin; eapply jin_eq; [|exact Eb]; lia|].
    apply jin_app; [apply arg_code_jin; eapply jin_eq; [|exact Ea]; lia|jin].
  - (* slice *) change (compg tco (QSlice t a b) ce tp cur pc nv sn = Some (cq, nv', sn')) in Hc.
    destruct (comp_slice_inv _ _ _ _ _ _ _ _ _ _ _ _ _ Hc) as (_ & _ & _ & ca & na & s1 & cb & nb & s2 & ct & nt0 & Ea & Eb & Et & -> & _).
    cbv zeta in Ea, Eb, Et. apply IHa in Ea. apply IHb in Eb. apply IHt in Et.
    apply jin_cons; [exact I|]. apply jin_cons; [exact I|].
    apply jin_app; [apply arg_code_jin; eapply jin_eq; [|exact Ea]; lia|].
    apply jin_app; [apply arg_code_jin; eapply jin_eq; [|exact Eb]; lia|].
    apply jin_cons; [exact I|]. apply jin_app; [|jin].
    eapply jin_eq; [|apply arg_code_jin; eapply jin_eq; [|exact Et]; lia]. lia.
  - (* call1 *) change (compg tco (QCall1 f a) ce tp cur pc nv sn = Some (cq, nv', sn')) in Hc.
    destruct (comp_call1_inv _ _ _ _ _ _ _ _ _ _ _ _ Hc) as (_ & _ & cb & nb & Eb & -> & _).
    apply IHa in Eb.
    apply jin_cons; [exact I|]. apply jin_app; [apply arg_code_jin; eapply jin_eq; [|exact Eb]; lia|jin].
Qed.


(* the targets of oppushpc / opcall pc / opcallrec: either a function of the environment (or the function of the tail
   position), or an opscope inside the segment itself *)
Definition call_tgt (x : instr) : option nat := match x with Ipushpc t | Icallf t | Icallrec t => Some t | _ => None end.
Definition internal (pc : nat) (l : list instr) (t : nat) : Prop :=
  exists k id nv na, t = pc + k /\ nth_error l k = Some (Iscope id nv na).
Definition scr (S : nat -> Prop) (pc : nat) (l : list instr) : Prop :=
  forall k x t, nth_error l k = Some x -> call_tgt x = Some t -> S t \/ internal pc l t.

Lemma internal_app_l : forall pc a b t, internal pc a t -> internal pc (a ++ b) t.
Proof. intros pc a b t (k & id & nv & na & E & H). exists k, id, nv, na. split; [auto|]. apply nth_error_prefix. exact H. Qed.
Lemma internal_app_r : forall pc a b t, internal (pc + length a) b t -> internal pc (a ++ b) t.
Proof.
  intros pc a b t (k & id & nv & na & E & H). exists (length a + k), id, nv, na. split; [lia|].
  rewrite nth_error_app2 by lia. replace (length a + k - length a) with k by lia. exact H.
Qed.
Lemma scr_nil : forall S pc, scr S pc [].
Proof. intros S pc [|k] x t H; discriminate. Qed.
Lemma scr_app : forall S pc a b, scr S pc a -> scr S (pc + length a) b -> scr S pc (a ++ b).
Proof.
  intros S pc a b Ha Hb k x t Hk Ht. destruct (Nat.lt_ge_cases k (length a)).
  - rewrite nth_error_app1 in Hk by auto. destruct (Ha k x t Hk Ht); [left; auto|right; apply internal_app_l; auto].
  - rewrite nth_error_app2 in Hk by auto. destruct (Hb _ x t Hk Ht); [left; auto|right; apply internal_app_r; auto].
Qed.
Lemma scr_cons : forall S pc x r,
  match call_tgt x with Some t => S t \/ internal pc (x :: r) t | None => True end -> scr S (Datatypes.S pc) r -> scr S pc (x :: r).
Proof.
  intros S pc x r Hx Hr [|k] y t Hk Ht; simpl in Hk.
  - inversion Hk; subst y. rewrite Ht in Hx. exact Hx.
  - destruct (Hr k y t Hk Ht) as [H|H]; [left; auto|right]. apply (internal_app_r pc [x] r t). simpl. replace (pc + 1) with (Datatypes.S pc) by lia. exact H.
Qed.
Lemma scr_eq : forall S pc pc' l, pc = pc' -> scr S pc l -> scr S pc' l.
Proof. intros; subst; auto. Qed.
Lemma scr_weaken : forall (S S' : nat -> Prop) pc l, (forall t, S t -> S' t) -> scr S pc l -> scr S' pc l.
Proof. intros S S' pc l H Hs k x t Hk Ht. destruct (Hs k x t Hk Ht); auto. Qed.
Lemma scr_discharge : forall (S : nat -> Prop) t0 pc l, scr (fun t => S t \/ t = t0) pc l -> internal pc l t0 -> scr S pc l.
Proof. intros S t0 pc l Hs Hi k x t Hk Ht. destruct (Hs k x t Hk Ht) as [[H|H]|H]; auto. subst t. auto. Qed.
(* a list without call-like instructions *)
Definition nc (x : instr) : bool := match call_tgt x with None => true | Some _ => false end.
Lemma nc_scr : forall S l pc, forallb nc l = true -> scr S pc l.
Proof.
  intros S l pc H k x t Hk Ht. apply nth_error_In in Hk. rewrite forallb_forall in H. apply H in Hk. unfold nc in Hk. rewrite Ht in Hk. discriminate.
Qed.
Lemma pv_code_nc : forall sn n pvs j, forallb nc (pv_code sn n pvs j) = true.
Proof. induction pvs as [|[i x] r IH]; intros j; simpl; auto. Qed.
Lemma stores_nc : forall sn (l : list nat), forallb nc (map (fun i => Istore (sn, S i)) l) = true.
Proof. induction l; simpl; auto. Qed.
Lemma prelude_nc : forall sn ps, forallb nc (prelude sn ps) = true.
Proof.
  intros sn ps. unfold prelude. destruct ps as [|p0 ps']; [reflexivity|].
  cbn [forallb nc call_tgt andb]. rewrite forallb_app, stores_nc, forallb_app, pv_code_nc. reflexivity.
Qed.

Lemma plain_nc : forall l, forallb plain l = true -> forallb nc l = true.
Proof. induction l as [|x r IH]; simpl; intros H; auto. apply andb_true_iff in H. destruct H as [H1 H2]. rewrite IH by auto. destruct x; try discriminate; reflexivity. Qed.

Ltac scr_sub := eapply scr_eq; [|solve [eauto]]; simpl; repeat (rewrite app_length; simpl); lia.
Ltac scrt :=
  repeat first
    [ apply scr_nil
    | apply scr_cons; [exact I|]
    | scr_sub
    | apply scr_app ].

(* the functions a query may call: those of the environment and the one of its tail position *)
Definition envS (ce : cenv) (tp : tailpos) (t : nat) : Prop :=
  (exists f n, In (f, CF t n) (ce_env ce)) \/ (exists r, tp = Some (t, r)).

Lemma lookup_cf_In : forall l f argc p n, lookup_cf f argc l = Some (CF p n) -> exists g, In (g, CF p n) l.
Proof.
  induction l as [|[z [k|q m|k]] r IH]; intros f argc p n H; simpl in H; try discriminate.
  - destruct (IH _ _ _ _ H) as (g & Hg). exists g. right; auto.
  - destruct (N.eqb f z && Nat.eqb m argc); [inversion H; subst; exists z; left; auto|].
    destruct (IH _ _ _ _ H) as (g & Hg). exists g. right; auto.
  - destruct (N.eqb f z && Nat.eqb argc 0); [discriminate|]. destruct (IH _ _ _ _ H) as (g & Hg). exists g. right; auto.
Qed.

(* a function definition block: jump over it; opscope; the code; opret; then instructions of which only a
   pushpc of the block's own opscope is call-like *)
Lemma block_scr : forall S p id nvc na L (cb tl : list instr), scr S (p + 2) cb ->
  (forall k x t, nth_error tl k = Some x -> call_tgt x = Some t -> t = Datatypes.S p) ->
  scr S p (Ijump L :: Iscope id nvc na :: cb ++ Iret :: tl).
Proof.
  intros S p id nvc na L cb tl H Htl k x t Hk Ht.
  destruct k as [|[|k]]; simpl in Hk; [inversion Hk; subst; discriminate|inversion Hk; subst; discriminate|].
  destruct (Nat.lt_ge_cases k (length cb)) as [Hl|Hl].
  - rewrite nth_error_app1 in Hk by exact Hl. destruct (H k x t Hk Ht) as [Hs|(k' & id' & nv' & na' & E & Hn)]; [left; exact Hs|right].
    exists (Datatypes.S (Datatypes.S k')), id', nv', na'. split; [lia|]. simpl. apply nth_error_prefix. exact Hn.
  - rewrite nth_error_app2 in Hk by exact Hl. destruct (k - length cb) as [|k2] eqn:Ek; simpl in Hk; [inversion Hk; subst; discriminate|].
    right. rewrite (Htl k2 x t Hk Ht). exists 1, id, nvc, na. split; [lia|reflexivity].
Qed.

Lemma arg_code_scr : forall S v p sn cb nvc, scr S (p + 2) cb -> scr S p (arg_code v p sn cb nvc).
Proof.
  intros S v p sn cb nvc H. unfold arg_code.
  assert (Hclo : forall cb', scr S (p + 2) cb' -> scr S p (Ijump (p + 2 + length cb' + 1) :: Iscope sn nvc 0 :: cb' ++ [Iret; Iload v; Ipushpc (Datatypes.S p); Icallpc])).
  { intros cb' H'. apply block_scr; [exact H'|]. intros k x t Hk Ht. destruct k as [|[|[|k]]]; simpl in Hk; try (destruct k; discriminate); inversion Hk; subst; simpl in Ht; try discriminate.
    inversion Ht; reflexivity. }
  destruct cb as [|x [|y r]].
  - scrt.
  - destruct (Nat.eqb nvc 0); [|exact (Hclo [x] H)].
    assert (Hx : match call_tgt x with Some t => S t | None => True end).
    { destruct (call_tgt x) as [t|] eqn:Et; [|exact I]. destruct (H 0 x t eq_refl Et) as [Hs|(k' & id' & nv' & na' & E & Hn)]; [exact Hs|].
      destruct k' as [|k']; simpl in Hn; [inversion Hn; subst; discriminate|destruct k'; discriminate]. }
    destruct x; try (apply scr_cons; [exact I|]; apply scr_cons; [simpl in *; auto|apply scr_nil]).
    scrt.
  - exact (Hclo (x :: y :: r) H).
Qed.


Lemma wrap_exp_scr : forall S pc c, scr S (Datatypes.S pc) c -> (match c with [x] => call_tgt x = None | _ => True end) -> scr S pc (wrap_exp c).
Proof.
  intros S pc c H H1. unfold wrap_exp. destruct c as [|x [|y r]].
  - apply scr_cons; [exact I|]. apply scr_cons; [exact I|apply scr_nil].
  - apply scr_cons; [rewrite H1; exact I|apply scr_nil].
  - apply scr_cons; [exact I|]. apply scr_app; [exact H|]. apply scr_cons; [exact I|apply scr_nil].
Qed.
Lemma arg_code_single_nc : forall v p sn cb nvc, match arg_code v p sn cb nvc with [x] => call_tgt x = None | _ => True end.
Proof.
  intros v p sn cb nvc. unfold arg_code. destruct cb as [|x [|y r]]; simpl; auto.
  destruct (Nat.eqb nvc 0); simpl; auto. destruct x; simpl; auto.
Qed.

Lemma comp_args_scr : forall S (C : query -> nat -> nat -> res) l p sn cas p' s2, comp_args C l p sn = Some (cas, p', s2) ->
  Forall (fun a => forall s p0 cb nvc s1, C a s p0 = Some (cb, nvc, s1) -> scr S (p0 + 2) cb) l -> scr S p cas.
Proof.
  intros S C. induction l as [|a r IH]; intros p sn cas p' s2 H HF; simpl in H.
  - inversion H; subst. apply scr_nil.
  - destruct (comp_args C r p sn) as [[[cr p1] s1]|] eqn:Er; [|discriminate].
    destruct (C a s1 p1) as [[[cb nvc] s3]|] eqn:Ea; [|discriminate]. inversion H; subst. inversion HF; subst.
    pose proof (comp_args_len _ _ _ _ _ _ _ Er) as Ep. subst p1.
    apply scr_app; [eapply IH; eauto|]. apply H2 in Ea.
    apply block_scr; [exact Ea|]. intros k x t Hk Ht. destruct k as [|k]; simpl in Hk; [|destruct k; discriminate].
    inversion Hk; subst. inversion Ht. reflexivity.
Qed.

Lemma envS_sub : forall ce ce' tp tp',
  (forall f t n, In (f, CF t n) (ce_env ce') -> In (f, CF t n) (ce_env ce)) ->
  (forall t r, tp' = Some (t, r) -> exists r', tp = Some (t, r')) ->
  forall t, envS ce' tp' t -> envS ce tp t.
Proof.
  intros ce ce' tp tp' He Ht t [(f & n & Hin)|(r & Hr)]; [left; exists f, n; auto|right; apply (Ht t r Hr)].
Qed.

Ltac incl_env := let Hin := fresh "Hin" in intros ? ? ? Hin; simpl in Hin; repeat (destruct Hin as [Hin|Hin]; [try discriminate|]); auto.
Ltac incl_tp :=
  let Ht := fresh "Ht" in
  intros ? ? Ht;
  repeat match goal with
  | H : context [transparent ?b] |- _ => destruct (transparent b)
  | tp : tailpos |- _ => destruct tp as [[? ?]|]
  end; simpl in Ht; try discriminate; try (inversion Ht; subst; eauto).
Ltac sci :=
  match goal with
  | E : compg _ ?q0 ?ce0 ?tp0 _ ?pc0 _ _ = Some (?c0, _, _) |- scr (envS ?ce ?tp) ?pc1 ?c0 =>
      eapply scr_eq; [|eapply scr_weaken; [|
        match goal with IH : forall ce tp cur pc nv sn cq nv' sn', compg _ q0 ce tp cur pc nv sn = Some (cq, nv', sn') -> _ |- _ =>
          exact (IH _ _ _ _ _ _ _ _ _ E) end]];
      [simpl; repeat (rewrite app_length; simpl); lia | apply envS_sub; [incl_env|incl_tp]]
  end.
Ltac scrt2 :=
  repeat first
    [ apply scr_nil
    | apply scr_cons; [exact I|]
    | sci
    | apply scr_app ].

Lemma pf_env_nocf : forall sn ps i f t n, ~ In (f, CF t n) (pf_env sn ps i).
Proof.
  induction ps as [|[g|x] ps IH]; intros i f t n H; simpl in H; auto.
  - apply in_app_or in H. destruct H as [H|[H|[]]]; [eapply IH; eauto|discriminate].
  - eapply IH; eauto.
Qed.
Lemma pv_env_nocf : forall sn m pvs j f t n, ~ In (f, CF t n) (pv_env sn m pvs j).
Proof.
  induction pvs as [|[i x] r IH]; intros j f t n H; simpl in H; auto.
  apply in_app_or in H. destruct H as [H|[H|[]]]; [eapply IH; eauto|discriminate].
Qed.

Lemma comp_scr : forall tco q ce tp cur pc nv sn cq nv' sn', compg tco q ce tp cur pc nv sn = Some (cq, nv', sn') -> scr (envS ce tp) pc cq.
Proof.
  intros tco. qind q; intros ce tp cur pc nv sn cq nv' sn' Hc; try (not_fold Hc; simpl in Hc; dcomp; try (inversion Hc; subst; clear Hc; scrt2; fail)).
  - (* if *) destruct (is_const1 l0), (is_const1 l1); inversion Hc; subst; clear Hc;
      (destruct l as [|i0 l']; [simpl|cbv iota; remember (i0 :: l') as cc; cbn [tl]]); scrt2.
  - (* try *) destruct h as [h|]; simpl in *; dcomp; inversion Hc; subst; clear Hc; scrt2.
  - (* array *) destruct (array_fold q); inversion Hc; subst; clear Hc; scrt2.
  - (* reduce *)
    destruct (comp_reduce_inv _ _ _ _ _ _ _ _ _ _ _ _ _ _ Hc) as (_ & ci & n1 & s1 & cs & n2 & s2 & cp & bs & n2' & cu & Ei & Es & Ep & _ & Eu & ->).
    apply IHi in Ei. apply IHs in Es. apply IHu in Eu. apply (proj1 pcomp_plain) in Ep.
    assert (W : forall t, envS ce None t -> envS ce tp t) by (apply envS_sub; [auto|intros t r Ht; discriminate]).
    assert (W3 : forall t, envS (add_vars ce bs) None t -> envS ce tp t).
    { intros t [(f & n & Hin)|(r & Hr)]; [|discriminate]. left. exists f, n. rewrite add_vars_env in Hin. apply in_app_or in Hin.
      destruct Hin as [Hin|Hin]; [|exact Hin]. apply in_map_iff in Hin. destruct Hin as (e0 & He & _). discriminate. }
    apply scr_cons; [exact I|]. apply scr_app; [eapply scr_eq; [|eapply scr_weaken; [exact W|exact Ei]]; lia|].
    apply scr_cons; [exact I|]. apply scr_cons; [exact I|].
    apply scr_app; [eapply scr_eq; [|eapply scr_weaken; [exact W|exact Es]]; simpl; repeat (rewrite app_length; simpl); lia|].
    apply scr_app; [apply nc_scr; apply plain_nc; exact Ep|]. apply scr_cons; [exact I|].
    apply scr_app; [eapply scr_eq; [|eapply scr_weaken; [exact W3|exact Eu]]; simpl; repeat (rewrite app_length; simpl); lia|].
    repeat (apply scr_cons; [exact I|]). apply scr_nil.
  - (* foreach *)
    destruct (comp_foreach_inv _ _ _ _ _ _ _ _ _ _ _ _ _ _ _ Hc) as (_ & ci & n1 & s1 & cs & n2 & s2 & cp & bs & n2' & cu & n3 & s3 & cx & Ei & Es & Ep & _ & Eu & Hx & ->).
    apply IHi in Ei. apply IHs in Es. apply IHu in Eu. apply (proj1 pcomp_plain) in Ep.
    assert (W : forall t, envS ce None t -> envS ce tp t) by (apply envS_sub; [auto|intros t r Ht; discriminate]).
    assert (W3 : forall tp', (forall t r, tp' = Some (t, r) -> exists r', tp = Some (t, r')) -> forall t, envS (add_vars ce bs) tp' t -> envS ce tp t).
    { intros tp' Htp t [(f & n & Hin)|(r & Hr)]; [|right; exact (Htp t r Hr)]. left. exists f, n. rewrite add_vars_env in Hin. apply in_app_or in Hin.
      destruct Hin as [Hin|Hin]; [|exact Hin]. apply in_map_iff in Hin. destruct Hin as (e0 & He & _). discriminate. }
    assert (Hcx : scr (envS ce tp) (pc + 1 + length ci + 1 + length cs + length cp + 1 + length cu + 2) cx).
    { destruct e as [e|]; [|destruct Hx as (-> & _); apply scr_nil]. simpl in IHe. apply IHe in Hx.
      eapply scr_weaken; [|exact Hx]. apply W3. intros t r Hr. destruct tp as [[t' r']|]; simpl in Hr; [|discriminate]. inversion Hr; subst. eauto. }
    clear Hx.
    apply scr_cons; [exact I|]. apply scr_app; [eapply scr_eq; [|eapply scr_weaken; [exact W|exact Ei]]; lia|].
    apply scr_cons; [exact I|].
    apply scr_app; [eapply scr_eq; [|eapply scr_weaken; [exact W|exact Es]]; simpl; repeat (rewrite app_length; simpl); lia|].
    apply scr_app; [apply nc_scr; apply plain_nc; exact Ep|]. apply scr_cons; [exact I|].
    apply scr_app; [eapply scr_eq; [|eapply scr_weaken; [apply (W3 None); intros t r Hr; discriminate|exact Eu]]; simpl; repeat (rewrite app_length; simpl); lia|].
    apply scr_cons; [exact I|]. apply scr_cons; [exact I|].
    eapply scr_eq; [|exact Hcx]. simpl; repeat (rewrite app_length; simpl); lia.
  - (* bind *) (destruct l as [|i0 l']; [simpl in Hc|cbv iota in Hc; remember (i0 :: l') as cc]); dcomp; inversion Hc; subst; clear Hc; scrt2.
  - (* binop *) change (compg tco (QBinop o a b) ce tp cur pc nv sn) with (compg tco (QBinop o a b) ce None cur pc nv sn) in Hc.
    destruct (comp_binop_inv _ _ _ _ _ _ _ _ _ _ _ Hc) as (_ & _ & cb & nb & s1 & ca & na & Eb & Ea & -> & _).
    apply IHb in Eb. apply IHa in Ea.
    assert (W : forall t, envS ce None t -> envS ce tp t) by (apply envS_sub; [auto|intros t r Ht; discriminate]).
    apply scr_cons; [exact I|]. apply scr_app; [apply arg_code_scr; eapply scr_eq; [|eapply scr_weaken; [exact W|exact Eb]]; lia|].
    apply scr_app; [apply arg_code_scr; eapply scr_eq; [|eapply scr_weaken; [exact W|exact Ea]]; lia|].
    apply scr_cons; [exact I|]. apply scr_cons; [exact I|]. apply scr_nil.
  - (* def *) destruct (comp_def_inv _ _ _ _ _ _ _ _ _ _ _ _ Hc) as (_ & _ & cb & nvb & s1 & cr & Eb & Er & ->). cbv zeta in Eb, Er.
    apply IHbody in Eb. apply IHrest in Er.
    apply (scr_discharge (envS ce tp) (Datatypes.S pc)); [|exists 1, sn, nvb, (length ps); split; [lia|reflexivity]].
    apply scr_cons; [exact I|]. apply scr_cons; [exact I|]. apply scr_app; [apply nc_scr; apply prelude_nc|].
    apply scr_app.
    + eapply scr_eq; [|eapply scr_weaken; [|exact Eb]]; [lia|].
      intros t [(g & n & Hin)|(r & Hr)].
      * simpl in Hin. unfold param_env in Hin. apply in_app_or in Hin. destruct Hin as [Hin|Hin].
        -- apply in_app_or in Hin. destruct Hin as [Hin|Hin]; [exfalso; eapply pv_env_nocf; eauto|exfalso; eapply pf_env_nocf; eauto].
        -- destruct Hin as [Hin|Hin]; [inversion Hin; subst; right; reflexivity|left; left; exists g, n; exact Hin].
      * unfold tl_body in Hr. destruct (tco && Nat.eqb (length ps) 0); [inversion Hr; subst; right; reflexivity|discriminate].
    + apply scr_cons; [exact I|]. eapply scr_eq; [|eapply scr_weaken; [|exact Er]]; [simpl; repeat (rewrite app_length; simpl); lia|].
      intros t [(g & n & Hin)|(r & Hr)].
      * simpl in Hin. destruct Hin as [Hin|Hin]; [inversion Hin; subst; right; reflexivity|left; left; exists g, n; exact Hin].
      * left. right. exists r. exact Hr.
  - (* callf *) simpl in Hc. destruct (lookup_cf f (length args) (ce_env ce)) as [[y|p n|y]|] eqn:Ef; try discriminate.
    + destruct (lookup_cf_In _ _ _ _ _ Ef) as (g0 & Hg0).
      assert (Hp : envS ce tp p) by (left; exists g0, n; exact Hg0).
      destruct args as [|a0 args'].
      * unfold tail_call in Hc. destruct tp as [[p' [[|]|]]|]; try destruct (Nat.eqb p' p); inversion Hc; subst;
          (apply scr_cons; [simpl; auto|apply scr_nil]).
      * destruct (Nat.ltb cur sn && ce_lt ce sn); [|discriminate].
        match type of Hc with context [comp_args ?C ?l ?p ?s] => destruct (comp_args C l p s) as [[[cas p'] s2]|] eqn:Ea; [|discriminate] end.
        inversion Hc; subst. apply scr_cons; [exact I|]. apply scr_app.
        -- eapply comp_args_scr; [exact Ea|]. eapply Forall_impl; [|exact IHargs]. simpl. intros a Ha s p0 cb nvc s1 Hca.
           eapply scr_weaken; [|exact (Ha _ _ _ _ _ _ _ _ _ Hca)]. apply envS_sub; [auto|intros t r Ht; discriminate].
        -- apply scr_cons; [exact I|]. apply scr_cons; [simpl; auto|apply scr_nil].
    + inversion Hc; subst. scrt2.
  - (* object *) change (comp_object (fun a p n s => compg tco a ce None cur p n s) (cur, nv) es pc nv sn = Some (cq, nv', sn')) in Hc.
    destruct es as [|e es]; [inversion Hc; subst; scrt2|].
    destruct (comp_object_inv _ _ _ _ _ _ _ _ _ _ Hc) as (cs & E & [(kcs & w & _ & _ & ->)|[_ ->]]); [scrt2|].
    apply scr_cons; [exact I|]. apply scr_app; [|apply scr_cons; [exact I|apply scr_nil]].
    refine (comp_ents_Q (scr (envS ce tp)) (scr_nil _) (scr_app _) _ _ _ _ _ _ _ _ _ _ E _).
    + intros pc0 x r Hx Hr. apply scr_cons; [destruct x; try contradiction; exact I|exact Hr].
    + eapply Forall_EntP_impl; [|exact IHes]. simpl. intros a Ha p n s c n' s' H.
      eapply scr_weaken; [|exact (Ha _ _ _ _ _ _ _ _ _ H)]. apply envS_sub; [auto|intros t r Ht; discriminate].
  - (* bindp *)
    destruct (comp_bindp_inv _ _ _ _ _ _ _ _ _ _ _ _ _ Hc) as (_ & _ & cs & n1 & s1 & cp & bs & n2 & cb & Es & Ep & _ & Eb & ->).
    apply IHs in Es. apply IHb in Eb. apply (proj1 pcomp_plain) in Ep.
    apply scr_cons; [exact I|]. apply scr_cons; [exact I|]. apply scr_app.
    + eapply scr_eq; [|eapply scr_weaken; [|exact Es]]; [lia|]. apply envS_sub; [auto|intros t r Ht; discriminate].
    + apply scr_app; [apply nc_scr; apply plain_nc; exact Ep|]. apply scr_cons; [exact I|].
      eapply scr_eq; [|eapply scr_weaken; [|exact Eb]]; [simpl; repeat (rewrite app_length; simpl); lia|].
      intros t [(f & n & Hin)|(r & Hr)].
      * left. exists f, n. rewrite add_vars_env in Hin. apply in_app_or in Hin. destruct Hin as [Hin|Hin]; [|exact Hin].
        apply in_map_iff in Hin. destruct Hin as (e & He & _). discriminate.
      * right. destruct tp as [[t' r']|]; simpl in Hr; [|discriminate]. inversion Hr; subst. eauto.
  - (* indexq *) change (compg tco (QIndexQ t q) ce tp cur pc nv sn = Some (cq, nv', sn')) in Hc.
    destruct (comp_indexq_inv _ _ _ _ _ _ _ _ _ _ _ _ Hc) as (_ & _ & _ & cb & nb & s1 & ca & na & Eb & Ea & -> & _).
    apply IHq in Eb. apply IHt in Ea.
    assert (W : forall t0, envS ce None t0 -> envS ce tp t0) by (apply envS_sub; [auto|intros t0 r Ht; discriminate]).
    apply scr_cons; [exact I|]. apply scr_app.
    + apply wrap_exp_scr; [|apply arg_code_single_nc]. apply arg_code_scr. eapply scr_eq; [|eapply scr_weaken; [exact W|exact Eb]]; lia.
    + apply scr_app; [apply arg_code_scr; eapply scr_eq; [|eapply scr_weaken; [exact W|exact Ea]]; lia|].
      apply scr_cons; [exact I|]. apply scr_cons; [exact I|]. apply scr_nil.
  - (* slice *) change (compg tco (QSlice t a b) ce tp cur pc nv sn = Some (cq, nv', sn')) in Hc.
    destruct (comp_slice_inv _ _ _ _ _ _ _ _ _ _ _ _ _ Hc) as (_ & _ & _ & ca & na & s1 & cb & nb & s2 & ct & nt0 & Ea & Eb & Et & -> & _).
    cbv zeta in Ea, Eb, Et. apply IHa in Ea. apply IHb in Eb. apply IHt in Et.
    assert (W : forall t0, envS ce None t0 -> envS ce tp t0) by (apply envS_sub; [auto|intros t0 r Ht; discriminate]).
    apply scr_cons; [exact I|]. apply scr_cons; [exact I|].
    apply scr_app; [apply arg_code_scr; eapply scr_eq; [|eapply scr_weaken; [exact W|exact Ea]]; lia|].
    apply scr_app; [apply arg_code_scr; eapply scr_eq; [|eapply scr_weaken; [exact W|exact Eb]]; lia|].
    apply scr_cons; [exact I|].
    apply scr_app; [eapply scr_eq; [|apply arg_code_scr; eapply scr_eq; [|eapply scr_weaken; [exact W|exact Et]]; lia]; lia|].
    apply scr_cons; [exact I|]. apply scr_cons; [exact I|]. apply scr_nil.
  - (* call1 *) change (compg tco (QCall1 f a) ce tp cur pc nv sn = Some (cq, nv', sn')) in Hc.
    destruct (comp_call1_inv _ _ _ _ _ _ _ _ _ _ _ _ Hc) as (_ & _ & cb & nb & Eb & -> & _).
    apply IHa in Eb.
    assert (W : forall t0, envS ce None t0 -> envS ce tp t0) by (apply envS_sub; [auto|intros t0 r Ht; discriminate]).
    apply scr_cons; [exact I|].
    apply scr_app; [apply arg_code_scr; eapply scr_eq; [|eapply scr_weaken; [exact W|exact Eb]]; lia|].
    apply scr_cons; [exact I|]. apply scr_cons; [exact I|]. apply scr_nil.
Qed.

Lemma checki_intro : forall f l i, (forall k x, nth_error l k = Some x -> f (i + k) x = true) -> checki f l i = true.
Proof.
  induction l; intros i H; simpl; [reflexivity|]. apply andb_true_iff. split.
  - specialize (H 0 a eq_refl). rewrite Nat.add_0_r in H. exact H.
  - apply IHl. intros k x Hk. replace (Datatypes.S i + k) with (i + Datatypes.S k) by lia. apply H. exact Hk.
Qed.

(* the compiler's output satisfies the side conditions *)
Lemma side_okb_raw : forall tco q raw, compile_raw_g tco q = Some raw -> side_okb raw = true.
Proof.
  intros tco q raw Hc. unfold compile_raw_g in Hc.
  destruct (compg tco q ce_empty None mainscope 1 0 2) as [[[cq nv] sn]|] eqn:Ec; [|discriminate]. inversion Hc; subst raw. clear Hc.
  pose proof (comp_jin _ _ _ _ _ _ _ _ _ _ _ Ec) as Hj. pose proof (comp_scr _ _ _ _ _ _ _ _ _ _ _ Ec) as Hs.
  unfold side_okb. apply checki_intro. intros k x Hk. simpl.
  destruct k as [|k]; [inversion Hk; subst; reflexivity|]. simpl in Hk.
  destruct (Nat.lt_ge_cases k (length cq)) as [Hl|Hl].
  - rewrite nth_error_app1 in Hk by exact Hl.
    destruct x; try reflexivity.
    + apply negb_true_iff, Nat.eqb_neq. pose proof (Hj k _ Hk). lia.
    + destruct (Hs k _ p Hk eq_refl) as [[(f & n & [])|(r & Hr)]|(k' & id & nv' & na & E & Hn)]; [discriminate|].
      subst p. unfold is_scope. simpl. rewrite (nth_error_prefix cq [Iret] k' _ Hn). reflexivity.
    + destruct (Hs k _ p Hk eq_refl) as [[(f & n & [])|(r & Hr)]|(k' & id & nv' & na & E & Hn)]; [discriminate|].
      subst p. unfold is_scope. simpl. rewrite (nth_error_prefix cq [Iret] k' _ Hn). reflexivity.
    + destruct (Hs k _ p Hk eq_refl) as [[(f & n & [])|(r & Hr)]|(k' & id & nv' & na & E & Hn)]; [discriminate|].
      subst p. unfold is_scope. simpl. rewrite (nth_error_prefix cq [Iret] k' _ Hn). reflexivity.
  - rewrite nth_error_app2 in Hk by exact Hl. destruct (k - length cq) as [|[|?]]; simpl in Hk; try discriminate. inversion Hk; subst. reflexivity.
Qed.

(* the theorem for the code the compiler finally emits (after optimizeTailRec, when tco is on, and optimizeCodeOps) *)
Theorem compile_g_correct : forall (nt : natives) (tco : bool) (q : query) (code : list instr),
  option_map peephole (compile_raw_g tco q) = Some code ->
  forall fu v, exists fuel, run_is (den nt fu q [] v) (run nt code fuel (init code v)).
Proof.
  intros nt tco q code Hc0 fu v.
  destruct (compile_raw_g tco q) as [raw|] eqn:Hc; [|discriminate]. inversion Hc0; subst code. clear Hc0.
  pose proof (side_okb_raw tco q raw Hc) as Hside.
  destruct (compile_raw_g_correct nt tco q raw Hc fu v) as (f & Hf).
  assert (Hlast : nth_error raw (length raw - 1) = Some Iret).
  { unfold compile_raw_g in Hc. destruct (compg tco q ce_empty None mainscope 1 0 2) as [[[cq nv] sn]|]; [|discriminate].
    inversion Hc; subst raw. simpl. rewrite app_length. simpl. replace (length cq + 1 - 0) with (S (length cq)) by lia.
    simpl. rewrite nth_error_app2 by lia. rewrite Nat.sub_diag. reflexivity. }
  unfold run_is in *. destruct (den nt fu q [] v) as [ws [[e0|l|]|]]; cbn [fst snd] in *; try contradiction; try (exists 0; exact I).
  - destruct (peephole_fold_sound nt raw (side_ok_jin raw Hside) Hlast (side_ok_scope raw Hside) v f _ Hf) as (f' & Hf'); try (simpl; discriminate). exists f'. exact Hf'.
  - destruct (peephole_fold_sound nt raw (side_ok_jin raw Hside) Hlast (side_ok_scope raw Hside) v f _ Hf) as (f' & Hf'); try (simpl; discriminate). exists f'. exact Hf'.
Qed.
