(* C01vm — compile_correct: one lemma per compile function, composed by structural induction. *)
From Coq Require Import List NArith ZArith Bool Arith Lia.
From Verif Require Import c01vm2.Syntax c01vm2.Code c01vm2.VM c01vm2.Den c01vm2.Compile c01vm2.Mach c01vm2.Gen c01vm2.Lemmas c01vm2.Static.
Import ListNotations.

Section C.
Variable nt : natives.
Variable code : list instr.

Notation steps := (steps nt code).
Notation G := (G nt code).
Notation Tend := (Tend nt code).
Notation at_ := (at_ code).
Notation code_at := (code_at code).
Notation Impl := (Impl nt code).
Notation den := (den nt).

Ltac one lem := eapply steps_step; [eapply lem; eauto|].
Ltac uncons H A := let H' := fresh "Hat" in destruct (code_at_cons _ _ _ _ H) as [A H']; clear H; rename H' into H.
Ltac impl_intro :=
  intros sc cur base Hcur ce pc nv sn cq nv' sn' Hc Hat rho v st fk vs n n0 o ko g K P HE Hn Hko Hoo Hlen HK1 HK2 c [S1 S2] HP.
Ltac cl := first [apply cle_refl | unfold cle; simpl; lia].

Lemma Tend_weaken : forall c fin (P P' : list sv -> nat -> gx -> Prop) s,
  (forall a m g, P a m g -> P' a m g) -> Tend c fin P s -> Tend c fin P' s.
Proof.
  intros c fin P P' s H (e & vs & n & g & St & Ch & Le & HE & HP). exists e, vs, n, g. auto 6.
Qed.

Lemma Tend_sub : forall cb c fin (P : list sv -> nat -> gx -> Prop) s,
  g_sc cb = g_sc c -> g_base cb = g_base c -> ce_lbls (g_ce cb) = ce_lbls (g_ce c) -> (forall i, g_own cb i -> g_own c i) ->
  Tend cb fin P s -> Tend c fin P s.
Proof.
  intros cb c fin P s H0 H1 H2 H3 (e & vs & n & g & St & Ch & Le & HE & HP). exists e, vs, n, g.
  rewrite <- H1, <- H0. split; [auto|]. split; [eapply chg_mono; eauto|]. split; [auto|]. split; [|auto].
  eapply encR_lbls; eauto.
Qed.

(* the standard invariant threaded through a composition: environment, sizes, the caller's P *)
Definition Jstd (sc : list frame) (ce : cenv) (rho : venv) (n0 lim o : nat) (P : list sv -> nat -> gx -> Prop)
  (vs : list sv) (n : nat) (g : gx) : Prop :=
  envOK sc ce rho vs n0 lim /\ n0 <= n /\ o <= length vs /\ P vs n g.

Lemma Jstd_chg : forall sc ce rho n0 lim o (P : list sv -> nat -> gx -> Prop) (O : nat -> Prop) a b m g m' g',
  (forall x y k h k' h', P x k h -> chg O x y -> cle k h k' h' -> P y k' h') ->
  (forall i, O i -> lim <= i) ->
  Jstd sc ce rho n0 lim o P a m g -> chg O a b -> cle m g m' g' -> Jstd sc ce rho n0 lim o P b m' g'.
Proof.
  intros sc ce rho n0 lim o P O a b m g m' g' HP HO (E & Hn & Hl & Hp) C Hm.
  split; [eapply envOK_chg; eauto|]. split; [destruct Hm; lia|]. split; [destruct C; lia|]. eapply HP; eauto.
Qed.
Lemma Jstd_keep : forall c o3 sc ce rho n0 lim o (P : list sv -> nat -> gx -> Prop) a b m g m' g',
  (forall x y k h k' h', P x k h -> keepS c o3 x y -> cle k h k' h' -> P y k' h') ->
  (forall i, kept sc ce i -> g_keep c i) ->
  Jstd sc ce rho n0 lim o P a m g -> keepS c o3 a b -> cle m g m' g' -> Jstd sc ce rho n0 lim o P b m' g'.
Proof.
  intros c o3 sc ce rho n0 lim o P a b m g m' g' HP HK (E & Hn & Hl & Hp) C Hm.
  split; [eapply envOK_keep; eauto|]. split; [destruct Hm; lia|]. split; [destruct C; lia|]. eapply HP; eauto.
Qed.

(* the caller's P is stable under any write inside the segment's own range or above its entry offset, and
   under any continuation keeping K and the area from ko on *)
Lemma stable_sub : forall sc pc' st fk lo hi o ko K ce n0 t (P : list sv -> nat -> gx -> Prop),
  stable (ctx_of sc pc' st fk lo hi o ko K ce n0 t) P ->
  (forall (O : nat -> Prop) x y k h k' h', (forall i, O i -> lo <= i < hi \/ o <= i) -> P x k h -> chg O x y -> cle k h k' h' -> P y k' h') /\
  (forall cx o3 x y k h k' h', g_keep cx = K -> g_koff cx = ko -> o <= o3 -> P x k h -> keepS cx o3 x y -> cle k h k' h' -> P y k' h').
Proof.
  intros sc pc' st fk lo hi o ko K ce n0 t P [S1 S2]. split.
  - intros O x y k h k' h' HO Hp C Hk. eapply S1; [exact Hp| |exact Hk]. eapply chg_mono; [|exact C]. exact HO.
  - intros cx o3 x y k h k' h' HK Hko Ho Hp C Hk. refine (S2 o3 x y k h k' h' Ho Hp _ Hk).
    unfold keepS in *. simpl. rewrite <- HK, <- Hko. exact C.
Qed.

Lemma impl_id : Impl QId.
Proof.
  impl_intro. simpl in Hc. inversion Hc; subst cq nv' sn'. cbn [Den.den fst snd].
  apply G_single with (vs3 := vs) (n3 := n) (o3 := o) (g3 := g).
  - subst c; simpl. rewrite Nat.add_0_r. constructor.
  - apply chg_refl.
  - cl.
  - simpl; lia.
  - intros vs2 n2 g2 Kp L. eapply (S2 o); eauto; simpl; lia.
Qed.

Lemma impl_const : forall k, Impl (QConst k).
Proof.
  intros k. impl_intro. simpl in Hc. inversion Hc; subst cq nv' sn'. cbn [Den.den fst snd]. uncons Hat A1.
  apply G_single with (vs3 := vs) (n3 := n) (o3 := o) (g3 := g).
  - subst c; simpl. replace (pc + 1) with (S pc) by lia. one st_const. constructor.
  - apply chg_refl.
  - cl.
  - simpl; lia.
  - intros vs2 n2 g2 Kp L. eapply (S2 o); eauto; simpl; lia.
Qed.

Lemma impl_empty : Impl QEmpty.
Proof.
  impl_intro. simpl in Hc. inversion Hc; subst cq nv' sn'. cbn [Den.den fst snd]. uncons Hat A1.
  eapply G_end with (vs3 := vs) (n3 := n) (g3 := g) (e := None).
  - subst c; simpl. one st_backtrack. constructor.
  - apply chg_refl.
  - cl.
  - reflexivity.
  - auto.
Qed.

Lemma impl_call0 : forall f, Impl (QCall0 f).
Proof.
  intros f. impl_intro. simpl in Hc. inversion Hc; subst cq nv' sn'. cbn [Den.den]. uncons Hat A1.
  destruct (n_fn0 nt f v) as [w|e] eqn:E; cbn [of_sum fst snd].
  - apply G_single with (vs3 := vs) (n3 := n) (o3 := o) (g3 := g).
    + subst c; simpl. replace (pc + 1) with (S pc) by lia. one st_call0_ok. constructor.
    + apply chg_refl.
    + cl.
    + simpl; lia.
    + intros vs2 n2 g2 Kp L. eapply (S2 o); eauto; simpl; lia.
  - eapply G_end with (vs3 := vs) (n3 := n) (g3 := g).
    + subst c; simpl. one st_call0_err. constructor.
    + apply chg_refl.
    + cl.
    + reflexivity.
    + auto.
Qed.

Lemma impl_var : forall x, Impl (QVar x).
Proof.
  intros x. impl_intro. simpl in Hc. destruct (lookup x (ce_vars ce)) as [y|] eqn:Ex; [|discriminate].
  inversion Hc; subst cq nv' sn'. uncons Hat A1. uncons Hat A2.
  destruct HE as [Hv Hl]. destruct (Hv _ _ Ex) as (a & w & Ha & Hk & Hw & Hnth).
  cbn [Den.den]. rewrite Hw. cbn [fst snd].
  apply G_single with (vs3 := vs) (n3 := n) (o3 := o) (g3 := g).
  - subst c; simpl. replace (pc + 2) with (S (S pc)) by lia. one st_pop. one st_load. constructor.
  - apply chg_refl.
  - cl.
  - simpl; lia.
  - intros vs2 n2 g2 Kp L. eapply (S2 o); eauto; simpl; lia.
Qed.

Lemma impl_break : forall l, Impl (QBreak l).
Proof.
  intros l. impl_intro. simpl in Hc. destruct (lookup l (ce_lbls ce)) as [y|] eqn:Ex; [|discriminate].
  inversion Hc; subst cq nv' sn'. uncons Hat A1. uncons Hat A2. uncons Hat A3.
  destruct HE as [Hv Hl]. destruct (Hl _ _ Ex) as (a & id & Ha & Hk & Hnth & Hid).
  cbn [Den.den fst snd].
  eapply G_end with (vs3 := vs) (n3 := n) (g3 := g).
  - subst c; simpl. one st_pop. one st_load. one st_break. constructor.
  - apply chg_refl.
  - cl.
  - simpl. exists y, a, id. auto.
  - auto.
Qed.

(* G_fold with the standard side conditions discharged *)
Lemma fold_std : forall sc pc1 st1 lo1 hi1 pc' st fk lo hi o ko K ce n0 t rho lim (P : list sv -> nat -> gx -> Prop)
   (X : Type) (Jg : X -> list sv -> Prop) (fb : X -> jv -> list jv * option exn * X)
   (ownb0 : nat -> Prop) (ceb : cenv),
   let c := ctx_of sc pc' st fk lo hi o ko K ce n0 t in
   let c1 := ctx_of sc pc1 st1 fk lo1 hi1 o o (fun i => lo1 <= i < hi1 \/ kept sc ce i) ce n0 t in
   let J := fun g a m x => Jstd sc ce rho n0 lim o P a m x /\ Jg g a in
   stable c P -> lo <= lo1 -> hi1 <= hi -> hi <= ko -> ko <= o -> lim <= lo -> lo <= hi ->
   (forall i, kept sc ce i -> i < lim) -> (forall i, lo <= i < hi -> K i) -> (forall i, kept sc ce i -> K i) ->
   (forall i, ownb0 i -> lo <= i < hi /\ ~ (lo1 <= i < hi1)) ->
   ce_lbls ceb = ce_lbls ce ->
   (forall g a b, Jg g a -> chg (fun i => lo1 <= i < hi1 \/ o <= i) a b -> Jg g b) ->
   (forall w g fk' vs n o' x os xx g', J g vs n x -> o <= o' <= length vs -> t <= ctr x -> Forall (fun f => t <= f_ctr f) fk' ->
        fb g w = (os, xx, g') ->
        G (cbody c ownb0 ceb fk' o' (ctr x)) os (Tend (cbody c ownb0 ceb fk' o' (ctr x)) xx (J g'))
          (N sc pc1 (SV w :: st1) (fk' ++ fk) vs n o' x)) ->
   forall ws1 g s fin1 os x g',
     G c1 ws1 (Tend c1 fin1 (fun _ _ _ => True)) s -> J g (vars_of s) (lbl_of s) (gx_of s) -> t <= ctr (gx_of s) ->
     foldgen X fb ws1 g = (os, x, g') ->
     G c os (Tend c (match x with Some e => Some e | None => fin1 end) (J g')) s.
Proof.
  intros sc pc1 st1 lo1 hi1 pc' st fk lo hi o ko K ce n0 t rho lim P X Jg fb ownb0 ceb c c1 J HS H1 H2 H3 H4 H5 H6 Hkl HK1 HK2 Hob Hlb HJg Hbody
         ws1 g s fin1 os x g' HA HJ Ht Ef.
  destruct (stable_sub _ _ _ _ _ _ _ _ _ _ _ _ _ HS) as [S1' S2'].
  refine (G_fold nt code c1 c X J fb ownb0 ceb eq_refl eq_refl eq_refl eq_refl eq_refl eq_refl eq_refl H4
            _ _ _ _ _ Hlb _ _ Hbody ws1 g s fin1 os x g' HA HJ Ht Ef).
  - simpl; intros; lia.
  - simpl. intros i Hi. apply Hob in Hi. lia.
  - simpl; intros; lia.
  - simpl. intros i [Hi|Hi]; (split; [|split]).
    + apply HK1; lia. + intro Ho. apply Hob in Ho. tauto. + lia.
    + apply HK2; auto. + intro Ho. apply Hob in Ho. apply Hkl in Hi. lia. + apply Hkl in Hi. lia.
  - simpl. intros i Hi. apply Hkl in Hi. lia.
  - intros g0 p q m x0 m' x0' [Hj Hg] C Hm. split; [|eapply HJg; eauto].
    refine (Jstd_chg _ _ _ _ _ _ _ _ _ _ _ _ _ _ (fun x y k h k' h' => S1' _ x y k h k' h' _) _ Hj C Hm); simpl; intros; lia.
  - intros g0 p m x0 [(E & _) _]. eapply envOK_lblOK; eauto.
Qed.

(* an Impl used as inner generator *)
Lemma impl_inner : forall q, Impl q -> forall sc cur base, (forall k, index_of sc (cur, k) = Some (base + k)) ->
  forall ce pc nv sn cq nv' sn', comp q ce cur pc nv sn = Some (cq, nv', sn') -> code_at pc cq ->
  forall rho v st fk vs n n0 o g, envOK sc ce rho vs n0 (base + nv) -> n0 <= n -> base + nv' <= o -> o <= length vs ->
  let c1 := ctx_of sc (pc + length cq) st fk (base + nv) (base + nv') o o (fun i => base + nv <= i < base + nv' \/ kept sc ce i) ce n0 (ctr g) in
  G c1 (fst (den q rho v)) (Tend c1 (snd (den q rho v)) (fun _ _ _ => True)) (N sc pc (SV v :: st) fk vs n o g).
Proof.
  intros q IH sc cur base Hcur ce pc nv sn cq nv' sn' Ec Hat rho v st fk vs n n0 o g HE Hn Ho Hl c1.
  apply (IH sc cur base Hcur ce pc nv sn cq nv' sn' Ec Hat rho v st fk vs n n0 o o g _ (fun _ _ _ => True)); auto.
  split; auto.
Qed.

(* generic bind: every output of an inner generator starts a body generator; Jg is an additional store
   invariant the bodies may rely on *)
Lemma bind_std : forall (f : jv -> result) (Jg : list sv -> Prop) sc pc1 st1 lo1 hi1 pc' st fk lo hi o ko K ce n0 t rho lim
   (P : list sv -> nat -> gx -> Prop) (ownb0 : nat -> Prop) (ceb : cenv),
   let c := ctx_of sc pc' st fk lo hi o ko K ce n0 t in
   let c1 := ctx_of sc pc1 st1 fk lo1 hi1 o o (fun i => lo1 <= i < hi1 \/ kept sc ce i) ce n0 t in
   let J := fun a m x => Jstd sc ce rho n0 lim o P a m x /\ Jg a in
   stable c P -> lo <= lo1 -> hi1 <= hi -> hi <= ko -> ko <= o -> lim <= lo -> lo <= hi ->
   (forall i, kept sc ce i -> i < lim) -> (forall i, lo <= i < hi -> K i) -> (forall i, kept sc ce i -> K i) ->
   (forall i, ownb0 i -> lo <= i < hi /\ ~ (lo1 <= i < hi1)) ->
   ce_lbls ceb = ce_lbls ce ->
   (forall a b, Jg a -> chg (fun i => lo1 <= i < hi1 \/ o <= i) a b -> Jg b) ->
   (forall w fk' vs n o' x, J vs n x -> o <= o' <= length vs -> t <= ctr x -> Forall (fun f => t <= f_ctr f) fk' ->
        G (cbody c ownb0 ceb fk' o' (ctr x)) (fst (f w)) (Tend (cbody c ownb0 ceb fk' o' (ctr x)) (snd (f w)) J)
          (N sc pc1 (SV w :: st1) (fk' ++ fk) vs n o' x)) ->
   forall r s, G c1 (fst r) (Tend c1 (snd r) (fun _ _ _ => True)) s -> J (vars_of s) (lbl_of s) (gx_of s) -> t <= ctr (gx_of s) ->
     G c (fst (bind r f)) (Tend c (snd (bind r f)) (fun a m x => P a m x /\ Jg a)) s.
Proof.
  intros f Jg sc pc1 st1 lo1 hi1 pc' st fk lo hi o ko K ce n0 t rho lim P ownb0 ceb c c1 J HS H1 H2 H3 H4 H5 H6 Hkl HK1 HK2 Hob Hlb HJg Hbody r s HA HJ Ht.
  set (fb := fun (_ : unit) w => (fst (f w), snd (f w), tt)).
  unfold bind.
  pose proof (foldgen_bind f (fst r)) as Ef. fold fb in Ef.
  destruct (bind_list (fst r) f) as [os x] eqn:Eb. cbn [fst snd] in Ef.
  pose proof (fold_std sc pc1 st1 lo1 hi1 pc' st fk lo hi o ko K ce n0 t rho lim P
                unit (fun _ => Jg) fb ownb0 ceb HS H1 H2 H3 H4 H5 H6 Hkl HK1 HK2 Hob Hlb (fun _ a b => HJg a b)) as HF.
  cbv zeta in HF.
  assert (HG' : G c os (Tend c (match x with Some e => Some e | None => snd r end) J) s).
  { refine (HF _ (fst r) tt s (snd r) os x tt HA HJ Ht Ef).
    intros w g fk' vs' n' o' x0 os' x' g' Hj Ho' Ht' Hfk Efb. unfold fb in Efb. inversion Efb; subst os' x' g'.
    apply Hbody; auto. }
  destruct x as [e|]; (eapply G_impl; [|exact HG']); intros s0; apply Tend_weaken;
    intros p m x0 ((_ & _ & _ & Hp) & Hg); auto.
Qed.

(* an Impl used as (part of) a body, in an arbitrary context whose own set contains its range *)
Lemma impl_body : forall q, Impl q -> forall sc cur base, (forall k, index_of sc (cur, k) = Some (base + k)) ->
  forall ceq pcq nvq sn cq nvq' sn', comp q ceq cur pcq nvq sn = Some (cq, nvq', sn') -> code_at pcq cq ->
  forall cx rhoq v vs n o g (P : list sv -> nat -> gx -> Prop),
    g_sc cx = sc -> g_pc cx = pcq + length cq -> ce_lbls (g_ce cx) = ce_lbls ceq -> g_off cx = o ->
    (forall i, base + nvq <= i < base + nvq' \/ o <= i -> g_own cx i) ->
    (forall i, base + nvq <= i < base + nvq' -> g_keep cx i) -> (forall i, kept sc ceq i -> g_keep cx i) ->
    envOK sc ceq rhoq vs (g_n0 cx) (base + nvq) -> g_n0 cx <= n -> base + nvq' <= g_koff cx -> g_koff cx <= o ->
    o <= length vs -> g_ctr cx <= ctr g ->
    (forall a b m x m' x', P a m x -> chg (fun i => base + nvq <= i < base + nvq' \/ o <= i) a b -> cle m x m' x' -> P b m' x') ->
    (forall o3 a b m x m' x', o <= o3 -> P a m x -> keepS cx o3 a b -> cle m x m' x' -> P b m' x') ->
    P vs n g ->
    G cx (fst (den q rhoq v)) (Tend cx (snd (den q rhoq v)) P) (N sc pcq (SV v :: g_st cx) (g_base cx) vs n o g).
Proof.
  intros q IH sc cur base Hcur ceq pcq nvq sn cq nvq' sn' Ec Hat cx rhoq v vs n o g P Hsc Hpc Hlb Hoff Hown Hk1 Hk2 HE Hn Hko Hoo Hl Hct HP1 HP2 HP.
  pose proof (IH sc cur base Hcur ceq pcq nvq sn cq nvq' sn' Ec Hat rhoq v (g_st cx) (g_base cx) vs n (g_n0 cx) o (g_koff cx) g
                (g_keep cx) P HE Hn Hko Hoo Hl Hk1 Hk2) as H.
  cbv zeta in H.
  refine (G_sub nt code (ctx_of sc (pcq + length cq) (g_st cx) (g_base cx) (base + nvq) (base + nvq') o (g_koff cx) (g_keep cx) ceq (g_n0 cx) (ctr g))
            cx _ _ (eq_sym Hsc) (eq_sym Hpc) eq_refl eq_refl Hown _ (le_n _) _ Hct _ _ _ (H _ HP)).
  - intros o3 a b Kp. exact Kp.
  - simpl. lia.
  - intros s0 (e & vs4 & n4 & g4 & St & Ch & Le & HE4 & HP4). exists e, vs4, n4, g4. simpl in *.
    split; [exact St|]. split; [exact (chg_mono _ _ _ _ Hown Ch)|]. split; [exact Le|]. split; [|exact HP4].
    rewrite Hsc. eapply encR_lbls; [|exact HE4]. auto.
  - split; [exact HP1|]. intros o3 a b m x m' x' Ho3 Hp Kp Hm. eapply HP2; eauto.
Qed.

(* Jstd is stable in any context that keeps K, the area from ko on, and writes above lim only *)
Lemma Jstd_stable_cx : forall cx sc ce rho n0 lim o ko lo hi (P : list sv -> nat -> gx -> Prop) K,
  (forall (O : nat -> Prop) x y k h k' h', (forall i, O i -> lo <= i < hi \/ o <= i) -> P x k h -> chg O x y -> cle k h k' h' -> P y k' h') ->
  (forall cx o3 x y k h k' h', g_keep cx = K -> g_koff cx = ko -> o <= o3 -> P x k h -> keepS cx o3 x y -> cle k h k' h' -> P y k' h') ->
  (forall i, kept sc ce i -> K i) -> g_keep cx = K -> g_koff cx = ko ->
  forall o3 a b m g m' g', o <= o3 -> Jstd sc ce rho n0 lim o P a m g -> keepS cx o3 a b -> cle m g m' g' -> Jstd sc ce rho n0 lim o P b m' g'.
Proof.
  intros cx sc ce rho n0 lim o ko lo hi P K S1' S2' HK2 HKe Hko o3 a b m g m' g' Ho Hj Kp Hm.
  refine (Jstd_keep cx o3 _ _ _ _ _ _ _ _ _ _ _ _ _ _ _ Hj Kp Hm).
  - intros x y k h k' h' Hp Kq Hk. exact (S2' cx o3 x y k h k' h' HKe Hko Ho Hp Kq Hk).
  - rewrite HKe. exact HK2.
Qed.

Lemma Jstd_chg' : forall sc ce rho n0 lim o lo hi (P : list sv -> nat -> gx -> Prop) (O : nat -> Prop) a b m g m' g',
  (forall (O : nat -> Prop) x y k h k' h', (forall i, O i -> lo <= i < hi \/ o <= i) -> P x k h -> chg O x y -> cle k h k' h' -> P y k' h') ->
  (forall i, O i -> (lo <= i < hi \/ o <= i) /\ lim <= i) ->
  Jstd sc ce rho n0 lim o P a m g -> chg O a b -> cle m g m' g' -> Jstd sc ce rho n0 lim o P b m' g'.
Proof.
  intros sc ce rho n0 lim o lo hi P O a b m g m' g' S1' HO Hj C Hm.
  refine (Jstd_chg _ _ _ _ _ _ _ O _ _ _ _ _ _ (fun x y k h k' h' => S1' O x y k h k' h' _) _ Hj C Hm); intros i Hi; apply HO; auto.
Qed.

(* the standard body: an Impl run in the body context of a composition, with P := Jstd /\ Jg *)
Ltac std_facts :=
  match goal with
  | HE : envOK ?sc ?ce ?rho ?vs ?n0 ?lim |- _ =>
      assert (Hkl : forall i, kept sc ce i -> i < lim) by (intros; eapply kept_lt; eauto)
  end.

Lemma impl_pipe : forall a b, Impl a -> Impl b -> Impl (QPipe a b).
Proof.
  intros a b IHa IHb. impl_intro. simpl in Hc.
  destruct (comp a ce cur pc nv sn) as [[[ca n1] s1]|] eqn:Ec; [|discriminate].
  destruct (comp b ce cur (pc + length ca) n1 s1) as [[[cb n2] s2]|] eqn:Ec0; [|discriminate].
  inversion Hc; subst cq nv' sn'. clear Hc.
  destruct (code_at_app _ _ _ _ Hat) as [Hata Hatb].
  destruct (comp_mono _ _ _ _ _ _ _ _ _ Ec) as [M1 _]. destruct (comp_mono _ _ _ _ _ _ _ _ _ Ec0) as [M2 _].
  std_facts. pose proof (conj S1 S2) as HS. destruct (stable_sub _ _ _ _ _ _ _ _ _ _ _ _ _ HS) as [S1' S2'].
  subst c. rewrite app_length, Nat.add_assoc in *.
  pose proof (impl_inner a IHa sc cur base Hcur ce pc nv sn ca n1 s1 Ec Hata rho v st fk vs n n0 o g HE Hn ltac:(lia) Hlen) as HA.
  cbv zeta in HA. cbn [Den.den].
  eapply G_impl; [|refine (bind_std (den b rho) (fun _ => True) sc (pc + length ca) st (base + nv) (base + n1) (pc + length ca + length cb) st fk
            (base + nv) (base + n2) o ko K ce n0 (ctr g) rho (base + nv) P (fun i => base + n1 <= i < base + n2) ce
            HS (le_n _) ltac:(lia) Hko Hoo (le_n _) ltac:(lia) Hkl HK1 HK2 _ eq_refl _ _ (den a rho v) _ HA _ (le_n _))].
  - intros s0. apply Tend_weaken. intros p m x [Hp _]. exact Hp.
  - intros i Hi. lia.
  - auto.
  - intros w fk' vs' n' o' x [(E' & Hn' & Hl' & Hp') _] Ho' Ht' Hfk.
    apply (impl_body b IHb sc cur base Hcur ce (pc + length ca) n1 s1 cb n2 s2 Ec0 Hatb
             (cbody (ctx_of sc (pc + length ca + length cb) st fk (base + nv) (base + n2) o ko K ce n0 (ctr g))
                    (fun i => base + n1 <= i < base + n2) ce fk' o' (ctr x)) rho w vs' n' o' x
             (fun a0 m x0 => Jstd sc ce rho n0 (base + nv) o P a0 m x0 /\ True)); simpl; auto; try lia.
    + intros; apply HK1; lia.
    + eapply envOK_lim; eauto. lia.
    + intros p q m y m' y' [Hj _] C Hm. split; auto.
      eapply (Jstd_chg' _ _ _ _ _ _ (base + nv) (base + n2)); [exact S1'| |exact Hj|exact C|exact Hm]. simpl; intros; lia.
    + intros o3 p q m y m' y' Ho3 [Hj _] C Hm. split; auto.
      refine (Jstd_stable_cx _ _ _ _ _ _ _ _ _ _ _ K S1' S2' HK2 _ _ o3 _ _ _ _ _ _ _ Hj C Hm); [reflexivity|reflexivity|lia].
    + split; auto. split; auto.
  - split; [|auto]. split; auto.
Qed.

(* P := Jstd is itself stable in a context whose own range lies inside [lo, hi) *)
Lemma Jstd_stable : forall sc' pc' st fk lo' hi' o' ko K ce' n0' t sc ce rho n0 lim o lo hi (P : list sv -> nat -> gx -> Prop),
  (forall (O : nat -> Prop) x y k h k' h', (forall i, O i -> lo <= i < hi \/ o <= i) -> P x k h -> chg O x y -> cle k h k' h' -> P y k' h') ->
  (forall cx o3 x y k h k' h', g_keep cx = K -> g_koff cx = ko -> o <= o3 -> P x k h -> keepS cx o3 x y -> cle k h k' h' -> P y k' h') ->
  (forall i, kept sc ce i -> K i) -> lo <= lo' -> hi' <= hi -> o <= o' -> lim <= lo -> lim <= o ->
  stable (ctx_of sc' pc' st fk lo' hi' o' ko K ce' n0' t) (Jstd sc ce rho n0 lim o P).
Proof.
  intros sc' pc' st fk lo' hi' o' ko K ce' n0' t sc ce rho n0 lim o lo hi P S1' S2' HK2 H1 H2 H3 H4 H5. split.
  - intros p q m g m' g' Hj C Hm.
    eapply (Jstd_chg' _ _ _ _ _ _ lo hi); [exact S1'| |exact Hj|exact C|exact Hm]. simpl; intros; lia.
  - intros o3 p q m g m' g' Ho3 Hj C Hm.
    refine (Jstd_stable_cx _ _ _ _ _ _ _ _ _ _ _ K S1' S2' HK2 _ _ o3 _ _ _ _ _ _ _ Hj C Hm); [reflexivity|reflexivity|simpl in Ho3; lia].
Qed.

Lemma fork_transparent : forall sc pc t st o u fk x vs n g, at_ pc (Ifork t) ->
  steps (B (Some x) (F sc pc st o u :: fk) vs n g) (B (Some x) fk vs n g).
Proof. intros. one st_popfork. one bt_fork_err. constructor. Qed.

Lemma impl_comma : forall a b, Impl a -> Impl b -> Impl (QComma a b).
Proof.
  intros a b IHa IHb. impl_intro. simpl in Hc.
  destruct (comp a ce cur (S pc) nv sn) as [[[ca n1] s1]|] eqn:Ec; [|discriminate].
  destruct (comp b ce cur (pc + 1 + length ca + 1) n1 s1) as [[[cb n2] s2]|] eqn:Ec0; [|discriminate].
  inversion Hc; subst cq nv' sn'. clear Hc.
  uncons Hat A1. destruct (code_at_app _ _ _ _ Hat) as [Hata Hat2]. uncons Hat2 A2. rename Hat2 into Hatb.
  destruct (comp_mono _ _ _ _ _ _ _ _ _ Ec) as [M1 _]. destruct (comp_mono _ _ _ _ _ _ _ _ _ Ec0) as [M2 _].
  std_facts. pose proof (conj S1 S2) as HS. destruct (stable_sub _ _ _ _ _ _ _ _ _ _ _ _ _ HS) as [S1' S2'].
  set (L := pc + 1 + length ca + 1) in *.
  replace (S (S pc + length ca)) with L in Hatb by (unfold L; lia).
  assert (Epc : pc + length (Ifork L :: ca ++ Ijump (L + length cb) :: cb) = L + length cb).
  { simpl. rewrite app_length. simpl. unfold L. lia. }
  subst c. rewrite Epc.
  set (c := ctx_of sc (L + length cb) st fk (base + nv) (base + n2) o ko K ce n0 (ctr g)).
  set (fx := F sc pc (SV v :: st) o (ctr g)).
  set (Pa := Jstd sc ce rho n0 (base + nv) o P).
  (* a, with the fork of the comma below its forks *)
  assert (HA : G (ctx_of sc (S pc + length ca) st (fx :: fk) (base + nv) (base + n1) o ko K ce n0 (ctr g)) (fst (den a rho v))
                 (Tend (ctx_of sc (S pc + length ca) st (fx :: fk) (base + nv) (base + n1) o ko K ce n0 (ctr g)) (snd (den a rho v)) Pa)
                 (N sc (S pc) (SV v :: st) (fx :: fk) vs n o g)).
  { apply (IHa sc cur base Hcur ce (S pc) nv sn ca n1 s1 Ec Hata rho v st (fx :: fk) vs n n0 o ko g K Pa); auto; try lia.
    - intros; apply HK1; lia.
    - eapply Jstd_stable; eauto; lia.
    - split; auto. }
  apply G_exit with (pc2 := L + length cb) in HA.
  2:{ intros w f vs' n' o' g'. one st_jump. constructor. }
  eapply G_pre; [one st_fork; constructor|apply chg_refl|cl|].
  set (ca' := {| g_sc := sc; g_pc := L + length cb; g_st := st; g_base := fx :: fk;
                 g_own := fun i => base + nv <= i < base + n1 \/ o <= i;
                 g_keep := K; g_ce := ce; g_n0 := n0; g_off := o; g_koff := ko; g_ctr := ctr g |}) in HA.
  assert (Hfx : Forall (fun f => g_ctr c <= f_ctr f) [fx]) by (constructor; [simpl; lia|constructor]).
  cbn [Den.den]. destruct (den a rho v) as [wsa [xa|]] eqn:Ea; cbn [seq fst snd] in *.
  - (* a raised: the fork propagates the error *)
    refine (G_ctx nt code ca' c [fx] (fun _ _ _ => True) _ _ eq_refl eq_refl eq_refl eq_refl _ _ (le_n _) (le_n _) (le_n _) Hfx _ _ _ _ _ _ I HA); auto.
    + simpl; intros; lia.
    + intros x vs' n' g' _ _. exists vs', n', g'. split; [eapply fork_transparent; eauto|]. split; [apply chg_refl|cl].
    + intros s1 _ (e & vs4 & n4 & g4 & St4 & Ch4 & Le4 & HE4 & HP4).
      destruct (encR_some _ _ _ _ _ HE4) as (y & ->). simpl in St4, Ch4.
      exists (Some y), vs4, n4, g4. split; [eapply steps_trans; [exact St4|eapply fork_transparent; eauto]|].
      split; [eapply chg_mono; [|exact Ch4]; simpl; intros; lia|]. split; [auto|]. split; [exact HE4|apply HP4].
  - (* a ended: the fork resumes at b *)
    apply G_app.
    refine (G_ctx nt code ca' c [fx] (fun _ _ _ => True) _ _ eq_refl eq_refl eq_refl eq_refl _ _ (le_n _) (le_n _) (le_n _) Hfx _ _ _ _ _ _ I HA); auto.
    + simpl; intros; lia.
    + intros x vs' n' g' _ _. exists vs', n', g'. split; [eapply fork_transparent; eauto|]. split; [apply chg_refl|cl].
    + intros s1 _ (e & vs4 & n4 & g4 & St4 & Ch4 & Le4 & HE4 & (E4 & Hn4 & Hl4 & HP4)). simpl in St4, Ch4, HE4. subst e.
      eapply G_pre; [eapply steps_trans; [exact St4|one st_popfork; one bt_fork_none; constructor]
                    |eapply chg_mono; [|exact Ch4]; simpl; intros; lia|exact Le4|].
      pose proof (IHb sc cur base Hcur ce L n1 s1 cb n2 s2 Ec0 Hatb rho v st fk vs4 n4 n0 o ko g4 K P) as HB. cbv zeta in HB.
      refine (G_sub nt code (ctx_of sc (L + length cb) st fk (base + n1) (base + n2) o ko K ce n0 (ctr g4)) c _ _
                eq_refl eq_refl eq_refl eq_refl _ _ (le_n _) (le_n _) _ _ _ _ (HB _ _ _ _ _ _ _ _ _)); auto; try lia.
      * simpl; intros; lia.
      * simpl. destruct Le4 as [_ Le4]. simpl in Le4. lia.
      * intros s2'. apply Tend_sub; auto. simpl; intros; lia.
      * eapply envOK_lim; eauto. lia.
      * intros; apply HK1; lia.
      * split; [intros p q m x m' x' Hp C Hm; eapply S1'; eauto; simpl; intros; lia
               |intros o3 p q m x m' x' Ho3 Hp C Hm; eapply (S2' _ o3); eauto; simpl in *; lia].
Qed.

End C.
