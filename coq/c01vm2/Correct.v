(* C01vm — compile_correct: one lemma per compile function, composed by structural induction. *)
From Coq Require Import List NArith ZArith Bool Arith Lia.
From Verif Require Import c01vm2.Syntax c01vm2.Code c01vm2.VM c01vm2.Den c01vm2.Compile c01vm2.Mach c01vm2.Gen c01vm2.Lemmas c01vm2.Static.
Import ListNotations.

Section C.
Variable nt : natives.
Variable code : list instr.
Variable tco : bool.

Notation steps := (steps nt code).
Notation G2 := (G2 nt code).
Notation G c ws T := (Gen.G2 nt code c ws T T).
Notation TendL := (Gen.Tend nt code).
Notation at_ := (at_ code).
Notation code_at := (code_at code).
Variable fu : nat.
Notation Tend := (Gen.Tend nt code (lbf tco fu)).
(* the statement for every smaller fuel (the outer induction of the theorem) *)
Hypothesis IHfu : forall m, m < fu -> forall q, Lemmas.Impl nt code tco m q.
Hypothesis IHfuT : forall m, m < fu -> forall q, Lemmas.ImplT nt code tco m q.
Notation comp q ce := (compg tco q ce None).
Notation Impl := (Impl nt code tco fu).
Notation ImplT := (ImplT nt code tco fu).
Notation den := (den1 nt (call_of nt fu)).
Notation envOK := (Lemmas.envOK code tco).

Ltac one lem := eapply steps_step; [eapply lem; eauto|].
Ltac uncons H A := let H' := fresh "Hat" in destruct (code_at_cons _ _ _ _ H) as [A H']; clear H; rename H' into H.
Ltac impl_intro :=
  intros sc cur base Hfr ce pc nv sn cq nv' sn' Hc Hat rho v st fk vs n n0 o ko g K K0 P HE Hn Hko Hoo Hlen HK1 HK2 HK0 c [S1 S2] HP;
  pose proof (frameOK_cur _ _ _ Hfr) as Hcur.
Ltac cl := first [apply cle_refl | unfold cle; simpl; lia].
Ltac ctrle := simpl; unfold cle in *; simpl in *; lia.
(* a tail: either the denotation ran out of fuel (nothing to show) or the machine reached the base forks *)
Tactic Notation "tend_inv" hyp(H) "as" simple_intropattern(p) :=
  let EF := fresh "EF" in
  let HFu := fresh "HFu" in
  destruct (Tend_inv _ _ _ _ _ _ _ H) as [[EF HFu]|p];
  [try (inversion EF; subst); try rewrite EF;
   try (apply Tend_fuel; first [exact HFu | eapply Tfuel_mono; [|exact HFu]; simpl; lia])|].

Lemma Tend_weaken : forall lb c fin (P P' : list sv -> nat -> gx -> Prop) s,
  (forall a m g, P a m g -> P' a m g) -> TendL lb c fin P s -> TendL lb c fin P' s.
Proof.
  intros lb c fin P P' s H HT. destruct (Tend_inv _ _ _ _ _ _ _ HT) as [[-> HFu]|(e & vs & n & g & St & Ch & Le & HE & HP)]; [exact HFu|].
  apply Tend_of. exists e, vs, n, g. auto 6.
Qed.

Lemma Tend_sub : forall lb cb c fin (P : list sv -> nat -> gx -> Prop) s,
  g_sc cb = g_sc c -> g_base cb = g_base c -> ce_lbls (g_ce cb) = ce_lbls (g_ce c) -> (forall i, g_own cb i -> g_own c i) ->
  g_ctr c <= g_ctr cb ->
  TendL lb cb fin P s -> TendL lb c fin P s.
Proof.
  intros lb cb c fin P s H0 H1 H2 H3 H4 HT. destruct (Tend_inv _ _ _ _ _ _ _ HT) as [[-> HFu]|(e & vs & n & g & St & Ch & Le & HE & HP)];
    [apply Tend_fuel; eapply Tfuel_mono; [|exact HFu]; lia|].
  apply Tend_of. exists e, vs, n, g.
  rewrite <- H1, <- H0. split; [auto|]. split; [eapply chg_mono; eauto|]. split; [auto|]. split; [|auto].
  eapply encR_lbls; eauto.
Qed.

Lemma Tend_lb_mono : forall lb lb' c fin (P : list sv -> nat -> gx -> Prop) s, lb' <= lb -> TendL lb c fin P s -> TendL lb' c fin P s.
Proof.
  intros lb lb' c fin P s H HT. destruct (Tend_inv _ _ _ _ _ _ _ HT) as [[-> HFu]|HX];
    [apply Tend_fuel; eapply Tfuel_mono; [|exact HFu]; lia|apply Tend_of; exact HX].
Qed.
Ltac tsub := apply Tend_sub; auto; try (simpl; intros; lia); try ctrle.

(* the standard invariant threaded through a composition: environment, sizes, the caller's P *)
Definition Jstd (sc : list frame) (ce : cenv) (rho : venv) (n0 lim o : nat) (P : list sv -> nat -> gx -> Prop)
  (vs : list sv) (n : nat) (g : gx) : Prop :=
  envOK sc ce rho vs n0 lim /\ n0 <= n /\ o <= length vs /\ P vs n g.

Lemma Jstd_chg : forall sc ce rho n0 lim o (P : list sv -> nat -> gx -> Prop) (O : nat -> Prop) a b m g m' g',
  (forall x y k h k' h', P x k h -> chg O x y -> cle k h k' h' -> P y k' h') ->
  (forall i, O i -> lim <= i) ->
  Jstd sc ce rho n0 lim o P a m g -> chg O a b -> cle m g m' g' -> Jstd sc ce rho n0 lim o P b m' g'.
Proof.
  intros sc ce rho n0 lim o P O a b m g m' g' HP HO (E & Hn & Hl & Hp) C Hm.
  split; [eapply envOK_chg; eauto|]. split; [destruct Hm; lia|]. split; [destruct C; lia|]. eapply HP; eauto.
Qed.
Lemma Jstd_keep : forall (Kx : nat -> Prop) sc ce rho n0 lim o (P : list sv -> nat -> gx -> Prop) a b m g m' g',
  (forall x y k h k' h', P x k h -> keepX Kx x y -> cle k h k' h' -> P y k' h') ->
  (forall i, kept sc ce i -> Kx i) ->
  Jstd sc ce rho n0 lim o P a m g -> keepX Kx a b -> cle m g m' g' -> Jstd sc ce rho n0 lim o P b m' g'.
Proof.
  intros Kx sc ce rho n0 lim o P a b m g m' g' HP HK (E & Hn & Hl & Hp) C Hm.
  split; [eapply envOK_keep; eauto|]. split; [destruct Hm; lia|]. split; [destruct C; lia|]. eapply HP; eauto.
Qed.

(* the caller's P is stable under any write inside the segment's own range or above its entry offset, and
   under any continuation keeping at least K0 *)
Lemma stable_sub : forall sc pc' st fk lo hi o ko K K0 ce n0 t (P : list sv -> nat -> gx -> Prop),
  stable (ctx_of sc pc' st fk lo hi o ko K K0 ce n0 t) P ->
  (forall (O : nat -> Prop) x y k h k' h', (forall i, O i -> lo <= i < hi \/ o <= i) -> P x k h -> chg O x y -> cle k h k' h' -> P y k' h') /\
  (forall (Kx : nat -> Prop) x y k h k' h', (forall i, K0 i -> Kx i) -> P x k h -> keepX Kx x y -> cle k h k' h' -> P y k' h').
Proof.
  intros sc pc' st fk lo hi o ko K K0 ce n0 t P [S1 S2]. split.
  - intros O x y k h k' h' HO Hp C Hk. eapply S1; [exact Hp| |exact Hk]. eapply chg_mono; [|exact C]. exact HO.
  - intros Kx x y k h k' h' HK Hp C Hk. refine (S2 x y k h k' h' Hp _ Hk).
    unfold keepK0. simpl. eapply keepX_mono; [|exact C]. exact HK.
Qed.

Lemma wk_K0 : forall (fk' : list fork) (K K0 : nat -> Prop) i, (forall i, K0 i -> K i) -> K0 i -> match fk' with [] => K0 | _ => K end i.
Proof. intros [|? ?] K K0 i H Hi; auto. Qed.
Lemma wk_K : forall (fk' : list fork) (K K0 : nat -> Prop) i, (forall i, K0 i -> K i) -> match fk' with [] => K0 | _ => K end i -> K i.
Proof. intros [|? ?] K K0 i H Hi; auto. Qed.
Lemma wk_same : forall (fk' : list fork) (P : list sv -> nat -> gx -> Prop), wk fk' P P = P.
Proof. intros [|? ?] P; reflexivity. Qed.

Lemma G_of_fuel : forall lb c (P : list sv -> nat -> gx -> Prop) s, Tfuel nt code lb c s -> G c [] (TendL lb c (Some XFuel) P) s.
Proof. intros lb c P s H. exists s. split; [apply steps_refl|]. split; [apply chg_refl|]. split; [apply cle_refl|exact H]. Qed.
Lemma G_fuel : forall c (P : list sv -> nat -> gx -> Prop) s, g_ctr c <= ctr (gx_of s) -> G c [] (TendL 0 c (Some XFuel) P) s.
Proof. intros c P s H. apply G_of_fuel. exists s. split; [apply steps_refl|lia]. Qed.

Lemma impl_id : Impl QId.
Proof.
  impl_intro. simpl in Hc. inversion Hc; subst cq nv' sn'. cbn [Den.den1 fst snd].
  apply G_single with (vs3 := vs) (n3 := n) (o3 := o) (g3 := g).
  - subst c; simpl. rewrite Nat.add_0_r. constructor.
  - apply chg_refl.
  - cl.
  - simpl; lia.
  - intros vs2 n2 g2 Kp L. eapply S2; eauto.
Qed.

Lemma impl_const : forall k, Impl (QConst k).
Proof.
  intros k. impl_intro. simpl in Hc. inversion Hc; subst cq nv' sn'. cbn [Den.den1 fst snd]. uncons Hat A1.
  apply G_single with (vs3 := vs) (n3 := n) (o3 := o) (g3 := g).
  - subst c; simpl. replace (pc + 1) with (S pc) by lia. one st_const. constructor.
  - apply chg_refl.
  - cl.
  - simpl; lia.
  - intros vs2 n2 g2 Kp L. eapply S2; eauto.
Qed.

Lemma impl_empty : Impl QEmpty.
Proof.
  impl_intro. simpl in Hc. inversion Hc; subst cq nv' sn'. cbn [Den.den1 fst snd]. uncons Hat A1.
  eapply G_end with (vs3 := vs) (n3 := n) (g3 := g) (e := None).
  - subst c; simpl. one st_backtrack. constructor.
  - apply chg_refl.
  - cl.
  - reflexivity.
  - auto.
Qed.

Lemma impl_call0 : forall f, Impl (QCall0 f).
Proof.
  intros f. impl_intro. simpl in Hc. inversion Hc; subst cq nv' sn'. cbn [Den.den1]. uncons Hat A1.
  destruct (n_fn0 nt f v) as [w|e] eqn:E; cbn [of_sum fst snd].
  - apply G_single with (vs3 := vs) (n3 := n) (o3 := o) (g3 := g).
    + subst c; simpl. replace (pc + 1) with (S pc) by lia. one st_call0_ok. constructor.
    + apply chg_refl.
    + cl.
    + simpl; lia.
    + intros vs2 n2 g2 Kp L. eapply S2; eauto.
  - eapply G_end with (vs3 := vs) (n3 := n) (g3 := g).
    + subst c; simpl. one st_call0_err. constructor.
    + apply chg_refl.
    + cl.
    + reflexivity.
    + auto.
Qed.

Lemma impl_var : forall x, Impl (QVar x).
Proof.
  intros x. impl_intro. simpl in Hc. destruct (lookup_cv x (ce_env ce)) as [y|] eqn:Ex; [|discriminate].
  inversion Hc; subst cq nv' sn'. uncons Hat A1. uncons Hat A2.
  destruct (envOK_var _ _ _ _ _ _ _ _ HE Ex) as (a & w & Ha & Hk & Hw & Hnth).
  cbn [Den.den1]. rewrite Hw. cbn [fst snd].
  apply G_single with (vs3 := vs) (n3 := n) (o3 := o) (g3 := g).
  - subst c; simpl. replace (pc + 2) with (S (S pc)) by lia. one st_pop. one st_load. constructor.
  - apply chg_refl.
  - cl.
  - simpl; lia.
  - intros vs2 n2 g2 Kp L. eapply S2; eauto.
Qed.

Lemma impl_break : forall l, Impl (QBreak l).
Proof.
  intros l. impl_intro. simpl in Hc. destruct (lookup l (ce_lbls ce)) as [y|] eqn:Ex; [|discriminate].
  inversion Hc; subst cq nv' sn'. uncons Hat A1. uncons Hat A2. uncons Hat A3.
  destruct HE as (Hv & Hl & Hgh). destruct (Hl _ _ Ex) as (a & id & Ha & Hk & Hnth & Hid).
  cbn [Den.den1 fst snd].
  eapply G_end with (vs3 := vs) (n3 := n) (g3 := g).
  - subst c; simpl. one st_pop. one st_load. one st_break. constructor.
  - apply chg_refl.
  - cl.
  - simpl. exists y, a, id. auto.
  - auto.
Qed.

Lemma wk_keep0 : forall c ownb0 ceb fk' o t (J Jf : list sv -> nat -> gx -> Prop),
  (forall a b m x m' x', J a m x -> keepK c a b -> cle m x m' x' -> J b m' x') ->
  (forall a b m x m' x', Jf a m x -> keepK0 c a b -> cle m x m' x' -> Jf b m' x') ->
  forall a b m x m' x', wk fk' J Jf a m x -> keepK0 (cbody c ownb0 ceb fk' o t) a b -> cle m x m' x' -> wk fk' J Jf b m' x'.
Proof. intros c ownb0 ceb [|f0 fk0] o t J Jf H1 H2 a b m x m' x' Hw Kp Hm; simpl in *; eauto. Qed.
Lemma wk_intro : forall fk' (J Jf : list sv -> nat -> gx -> Prop) a m x,
  (forall a m x, J a m x -> Jf a m x) -> J a m x -> wk fk' J Jf a m x.
Proof. intros [|f0 fk0] J Jf a m x H Hj; simpl; auto. Qed.
Lemma wk_chg : forall fk' (J Jf : list sv -> nat -> gx -> Prop) (O : nat -> Prop),
  (forall a b m x m' x', J a m x -> chg O a b -> cle m x m' x' -> J b m' x') ->
  (forall a b m x m' x', Jf a m x -> chg O a b -> cle m x m' x' -> Jf b m' x') ->
  forall a b m x m' x', wk fk' J Jf a m x -> chg O a b -> cle m x m' x' -> wk fk' J Jf b m' x'.
Proof. intros [|f0 fk0] J Jf O H1 H2 a b m x m' x' Hw C Hm; simpl in *; eauto. Qed.

(* G_fold with the standard side conditions discharged.  Jg: the part of the invariant about the slots of the
   composition (kept while it has pending forks); Jgf: what remains of it after a continuation that ran when no
   fork of the composition was left.  The bodies get the two facts they need about the tail predicate *)
Lemma fold_std : forall sc pc1 st1 lo1 hi1 pc' st fk lo hi o ko K K0 ce n0 t rho lim (P Jw : list sv -> nat -> gx -> Prop)
   (X : Type) (Jg Jgf : X -> list sv -> Prop) (fb : X -> jv -> list jv * option exn * X)
   (ownb0 : nat -> Prop) (ceb : cenv),
   let c := ctx_of sc pc' st fk lo hi o ko K K0 ce n0 t in
   let c1 := ctx_of sc pc1 st1 fk lo1 hi1 o o (fun i => lo1 <= i < hi1 \/ kept sc ce i) (fun _ => False) ce n0 t in
   let J := fun g a m x => Jstd sc ce rho n0 lim o P a m x /\ Jg g a in
   let Jf := fun g a m x => Jw a m x /\ Jgf g a in
   stable c P -> lo <= lo1 -> hi1 <= hi -> hi <= ko -> ko <= o -> lim <= lo -> lo <= hi ->
   (forall i, kept sc ce i -> i < lim) -> (forall i, lo <= i < hi -> K i) -> (forall i, kept sc ce i -> K i) -> (forall i, K0 i -> K i) ->
   (forall i, ownb0 i -> lo <= i < hi /\ ~ (lo1 <= i < hi1)) ->
   ce_lbls ceb = ce_lbls ce ->
   (forall a m x, Jstd sc ce rho n0 lim o P a m x -> Jw a m x) ->
   (forall a b m x m' x', Jw a m x -> chg (fun i => lo1 <= i < hi1 \/ o <= i) a b -> cle m x m' x' -> Jw b m' x') ->
   (forall a b m x m' x', Jw a m x -> keepX K0 a b -> cle m x m' x' -> Jw b m' x') ->
   (forall g a b, Jg g a -> chg (fun i => lo1 <= i < hi1 \/ o <= i) a b -> Jg g b) ->
   (forall g a b, Jgf g a -> chg (fun i => lo1 <= i < hi1 \/ o <= i) a b -> Jgf g b) ->
   (forall g a b, Jg g a -> keepX K a b -> Jg g b) ->
   (forall g a b, Jgf g a -> keepX K0 a b -> Jgf g b) ->
   (forall g a, Jg g a -> Jgf g a) ->
   (forall w g fk' vs n o' x os xx g', J g vs n x -> o <= o' <= length vs -> t <= ctr x -> Forall (fun f => t <= f_ctr f) fk' ->
        fb g w = (os, xx, g') ->
        (forall a b m y m' y', wk fk' (J g') (Jf g') a m y -> keepK0 (cbody c ownb0 ceb fk' o' (ctr x)) a b -> cle m y m' y' ->
                               wk fk' (J g') (Jf g') b m' y') ->
        (forall a m y, J g' a m y -> wk fk' (J g') (Jf g') a m y) ->
        G (cbody c ownb0 ceb fk' o' (ctr x)) os (Tend (cbody c ownb0 ceb fk' o' (ctr x)) xx (wk fk' (J g') (Jf g')))
          (N sc pc1 (SV w :: st1) (fk' ++ fk) vs n o' x)) ->
   forall ws1 g s fin1 os x g',
     G c1 ws1 (Tend c1 fin1 (fun _ _ _ => True)) s -> J g (vars_of s) (lbl_of s) (gx_of s) -> t <= ctr (gx_of s) ->
     foldgen X fb ws1 g = (os, x, g') ->
     G c os (Tend c (match x with Some e => Some e | None => fin1 end) (Jf g')) s.
Proof.
  intros sc pc1 st1 lo1 hi1 pc' st fk lo hi o ko K K0 ce n0 t rho lim P Jw X Jg Jgf fb ownb0 ceb c c1 J Jf HS H1 H2 H3 H4 H5 H6 Hkl HK1 HK2 HK0 Hob Hlb
         HJw HJw1 HJwK HJg HJgf HJgK HJgfK HJJ Hbody ws1 g s fin1 os x g' HA HJ Ht Ef.
  destruct (stable_sub _ _ _ _ _ _ _ _ _ _ _ _ _ _ HS) as [S1' S2'].
  assert (JJf : forall g0 a m x0, J g0 a m x0 -> Jf g0 a m x0).
  { intros g0 p m x0 [Hj Hg]. split; auto. }
  assert (JK : forall g0 a b m x0 m' x0', J g0 a m x0 -> keepK c a b -> cle m x0 m' x0' -> J g0 b m' x0').
  { intros g0 p q m x0 m' x0' [Hj Hg] C Hm. split; [|eapply HJgK; eauto].
    refine (Jstd_keep K _ _ _ _ _ _ _ _ _ _ _ _ _ _ HK2 Hj C Hm).
    intros x1 y k h k' h' Hp Kq Hk. exact (S2' K x1 y k h k' h' HK0 Hp Kq Hk). }
  assert (JfK : forall g0 a b m x0 m' x0', Jf g0 a m x0 -> keepK0 c a b -> cle m x0 m' x0' -> Jf g0 b m' x0').
  { intros g0 p q m x0 m' x0' [Hp Hg] C Hm. split; [eapply HJwK; eauto|eapply HJgfK; eauto]. }
  refine (G_fold nt code (lbf tco fu) c1 c X J Jf fb ownb0 ceb eq_refl eq_refl eq_refl eq_refl eq_refl eq_refl eq_refl H4
            _ _ _ _ _ _ Hlb _ _ JJf _ _ ws1 g s fin1 os x g' HA HJ Ht Ef).
  - simpl; intros; lia.
  - simpl. intros i Hi. apply Hob in Hi. lia.
  - simpl; intros; lia.
  - simpl. intros i [Hi|Hi]; (split; [|split]).
    + apply HK1; lia. + intro Ho. apply Hob in Ho. tauto. + lia.
    + apply HK2; auto. + intro Ho. apply Hob in Ho. apply Hkl in Hi. lia. + apply Hkl in Hi. lia.
  - simpl. intros i [].
  - simpl. intros i Hi. apply Hkl in Hi. lia.
  - intros g0 p q m x0 m' x0' [Hj Hg] C Hm. split; [|eapply HJg; eauto].
    refine (Jstd_chg _ _ _ _ _ _ _ _ _ _ _ _ _ _ (fun x y k h k' h' => S1' _ x y k h k' h' _) _ Hj C Hm); simpl; intros; lia.
  - intros g0 p q m x0 m' x0' [Hp Hg] C Hm. split; [eapply HJw1; eauto|eapply HJgf; eauto].
  - intros g0 p m x0 [(E & _) _]. eapply envOK_lblOK; eauto.
  - intros w g0 fk' vs' n' o' x0 os' x' g1 Hj Ho' Ht' Hfk Efb.
    apply (Hbody w g0 fk' vs' n' o' x0 os' x' g1 Hj Ho' Ht' Hfk Efb).
    + apply wk_keep0; [apply JK|apply JfK].
    + intros p m y Hq. apply wk_intro; auto.
Qed.

(* an Impl used as inner generator *)
Lemma impl_inner : forall q, Impl q -> forall sc cur base, frameOK sc cur base ->
  forall ce pc nv sn cq nv' sn', comp q ce cur pc nv sn = Some (cq, nv', sn') -> code_at pc cq ->
  forall rho v st fk vs n n0 o g, envOK sc ce rho vs n0 (base + nv) -> n0 <= n -> base + nv' <= o -> o <= length vs ->
  let c1 := ctx_of sc (pc + length cq) st fk (base + nv) (base + nv') o o (fun i => base + nv <= i < base + nv' \/ kept sc ce i) (fun _ => False) ce n0 (ctr g) in
  G c1 (fst (den q rho v)) (Tend c1 (snd (den q rho v)) (fun _ _ _ => True)) (N sc pc (SV v :: st) fk vs n o g).
Proof.
  intros q IH sc cur base Hfr ce pc nv sn cq nv' sn' Ec Hat rho v st fk vs n n0 o g HE Hn Ho Hl c1. pose proof (frameOK_cur _ _ _ Hfr) as Hcur.
  apply (IH sc cur base Hfr ce pc nv sn cq nv' sn' Ec Hat rho v st fk vs n n0 o o g _ _ (fun _ _ _ => True)); auto.
  - intros i [].
  - split; auto.
Qed.

(* generic bind: every output of an inner generator starts a body generator; Jg is an additional store
   invariant the bodies may rely on while the composition has pending forks *)
Lemma bind_std : forall (f : jv -> result) (Jg : list sv -> Prop) sc pc1 st1 lo1 hi1 pc' st fk lo hi o ko K K0 ce n0 t rho lim
   (P : list sv -> nat -> gx -> Prop) (ownb0 : nat -> Prop) (ceb : cenv),
   let c := ctx_of sc pc' st fk lo hi o ko K K0 ce n0 t in
   let c1 := ctx_of sc pc1 st1 fk lo1 hi1 o o (fun i => lo1 <= i < hi1 \/ kept sc ce i) (fun _ => False) ce n0 t in
   let J := fun a m x => Jstd sc ce rho n0 lim o P a m x /\ Jg a in
   let Jf := fun a m x => P a m x /\ True in
   stable c P -> lo <= lo1 -> hi1 <= hi -> hi <= ko -> ko <= o -> lim <= lo -> lo <= hi ->
   (forall i, kept sc ce i -> i < lim) -> (forall i, lo <= i < hi -> K i) -> (forall i, kept sc ce i -> K i) -> (forall i, K0 i -> K i) ->
   (forall i, ownb0 i -> lo <= i < hi /\ ~ (lo1 <= i < hi1)) ->
   ce_lbls ceb = ce_lbls ce ->
   (forall a b, Jg a -> chg (fun i => lo1 <= i < hi1 \/ o <= i) a b -> Jg b) ->
   (forall a b, Jg a -> keepX K a b -> Jg b) ->
   (forall w fk' vs n o' x, J vs n x -> o <= o' <= length vs -> t <= ctr x -> Forall (fun f => t <= f_ctr f) fk' ->
        (forall a b m y m' y', wk fk' J Jf a m y -> keepK0 (cbody c ownb0 ceb fk' o' (ctr x)) a b -> cle m y m' y' -> wk fk' J Jf b m' y') ->
        (forall a m y, J a m y -> wk fk' J Jf a m y) ->
        G (cbody c ownb0 ceb fk' o' (ctr x)) (fst (f w)) (Tend (cbody c ownb0 ceb fk' o' (ctr x)) (snd (f w)) (wk fk' J Jf))
          (N sc pc1 (SV w :: st1) (fk' ++ fk) vs n o' x)) ->
   forall r s, G c1 (fst r) (Tend c1 (snd r) (fun _ _ _ => True)) s -> J (vars_of s) (lbl_of s) (gx_of s) -> t <= ctr (gx_of s) ->
     G c (fst (bind r f)) (Tend c (snd (bind r f)) P) s.
Proof.
  intros f Jg sc pc1 st1 lo1 hi1 pc' st fk lo hi o ko K K0 ce n0 t rho lim P ownb0 ceb c c1 J Jf HS H1 H2 H3 H4 H5 H6 Hkl HK1 HK2 HK0 Hob Hlb HJg HJgK Hbody r s HA HJ Ht.
  set (fb := fun (_ : unit) w => (fst (f w), snd (f w), tt)).
  unfold bind.
  pose proof (foldgen_bind f (fst r)) as Ef. fold fb in Ef.
  destruct (bind_list (fst r) f) as [os x] eqn:Eb. cbn [fst snd] in Ef.
  destruct (stable_sub _ _ _ _ _ _ _ _ _ _ _ _ _ _ HS) as [S1' S2'].
  pose proof (fold_std sc pc1 st1 lo1 hi1 pc' st fk lo hi o ko K K0 ce n0 t rho lim P P
                unit (fun _ => Jg) (fun _ _ => True) fb ownb0 ceb HS H1 H2 H3 H4 H5 H6 Hkl HK1 HK2 HK0 Hob Hlb
                (fun a m x Hj => proj2 (proj2 (proj2 Hj)))
                (fun a b m x m' x' Hp C Hm => S1' (fun i => lo1 <= i < hi1 \/ o <= i) a b m x m' x' ltac:(simpl; intros; lia) Hp C Hm)
                (fun a b m x m' x' Hp C Hm => S2' K0 a b m x m' x' (fun i H => H) Hp C Hm)
                (fun _ a b => HJg a b)
                (fun _ _ _ _ _ => I) (fun _ a b => HJgK a b) (fun _ _ _ _ _ => I) (fun _ _ _ => I)) as HF.
  cbv zeta in HF.
  assert (HG' : G c os (Tend c (match x with Some e => Some e | None => snd r end) Jf) s).
  { refine (HF _ (fst r) tt s (snd r) os x tt HA HJ Ht Ef).
    intros w g fk' vs' n' o' x0 os' x' g' Hj Ho' Ht' Hfk Efb Hwk Hin. unfold fb in Efb. inversion Efb; subst os' x' g'.
    apply Hbody; auto. }
  destruct x as [e|]; (eapply G_impl; [|exact HG']); intros s0; apply Tend_weaken;
    intros p m x0 (Hp & Hg); auto.
Qed.

(* an Impl used as (part of) a body, in an arbitrary context whose own set contains its range *)
Lemma impl_body : forall m q, Lemmas.Impl nt code tco m q -> forall sc cur base, frameOK sc cur base ->
  forall ceq pcq nvq sn cq nvq' sn', comp q ceq cur pcq nvq sn = Some (cq, nvq', sn') -> code_at pcq cq ->
  forall cx rhoq v vs n o g (P : list sv -> nat -> gx -> Prop),
    g_sc cx = sc -> g_pc cx = pcq + length cq -> ce_lbls (g_ce cx) = ce_lbls ceq -> g_off cx = o ->
    (forall i, base + nvq <= i < base + nvq' \/ o <= i -> g_own cx i) ->
    (forall i, base + nvq <= i < base + nvq' -> g_keep cx i) -> (forall i, kept sc ceq i -> g_keep cx i) ->
    (forall i, g_keep0 cx i -> g_keep cx i) ->
    envOK sc ceq rhoq vs (g_n0 cx) (base + nvq) -> g_n0 cx <= n -> base + nvq' <= g_koff cx -> g_koff cx <= o ->
    o <= length vs -> g_ctr cx <= ctr g ->
    (forall a b m x m' x', P a m x -> chg (fun i => base + nvq <= i < base + nvq' \/ o <= i) a b -> cle m x m' x' -> P b m' x') ->
    (forall a b m x m' x', P a m x -> keepK0 cx a b -> cle m x m' x' -> P b m' x') ->
    P vs n g ->
    G cx (fst (den1 nt (call_of nt m) q rhoq v)) (TendL (lbf tco m) cx (snd (den1 nt (call_of nt m) q rhoq v)) P) (N sc pcq (SV v :: g_st cx) (g_base cx) vs n o g).
Proof.
  intros m q IH sc cur base Hfr ceq pcq nvq sn cq nvq' sn' Ec Hat cx rhoq v vs n o g P Hsc Hpc Hlb Hoff Hown Hk1 Hk2 Hk0 HE Hn Hko Hoo Hl Hct HP1 HP2 HP. pose proof (frameOK_cur _ _ _ Hfr) as Hcur.
  pose proof (IH sc cur base Hfr ceq pcq nvq sn cq nvq' sn' Ec Hat rhoq v (g_st cx) (g_base cx) vs n (g_n0 cx) o (g_koff cx) g
                (g_keep cx) (g_keep0 cx) P HE Hn Hko Hoo Hl Hk1 Hk2 Hk0) as H.
  cbv zeta in H.
  refine (G_sub nt code (ctx_of sc (pcq + length cq) (g_st cx) (g_base cx) (base + nvq) (base + nvq') o (g_koff cx) (g_keep cx) (g_keep0 cx) ceq (g_n0 cx) (ctr g))
            cx _ _ (eq_sym Hsc) (eq_sym Hpc) eq_refl eq_refl Hown _ _ (le_n _) _ Hct _ _ _ (H _ HP)).
  - intros o3 a b Kp. exact Kp.
  - intros a b Kp. exact Kp.
  - simpl. lia.
  - intros s0 HT. tend_inv HT as (e & vs4 & n4 & g4 & St & Ch & Le & HE4 & HP4). apply Tend_of. exists e, vs4, n4, g4. simpl in *.
    split; [exact St|]. split; [exact (chg_mono _ _ _ _ Hown Ch)|]. split; [exact Le|]. split; [|exact HP4].
    rewrite Hsc. eapply encR_lbls; [|exact HE4]. auto.
  - split; [exact HP1|exact HP2].
Qed.

(* Jstd is stable under any continuation that keeps at least K0, where K0 contains the visible slots *)
Lemma Jstd_stable_cx : forall (Kx : nat -> Prop) sc ce rho n0 lim o lo hi (P : list sv -> nat -> gx -> Prop) (K0 : nat -> Prop),
  (forall (O : nat -> Prop) x y k h k' h', (forall i, O i -> lo <= i < hi \/ o <= i) -> P x k h -> chg O x y -> cle k h k' h' -> P y k' h') ->
  (forall (Kx : nat -> Prop) x y k h k' h', (forall i, K0 i -> Kx i) -> P x k h -> keepX Kx x y -> cle k h k' h' -> P y k' h') ->
  (forall i, kept sc ce i -> Kx i) -> (forall i, K0 i -> Kx i) ->
  forall a b m g m' g', Jstd sc ce rho n0 lim o P a m g -> keepX Kx a b -> cle m g m' g' -> Jstd sc ce rho n0 lim o P b m' g'.
Proof.
  intros Kx sc ce rho n0 lim o lo hi P K0 S1' S2' HK3 HKx a b m g m' g' Hj Kp Hm.
  refine (Jstd_keep Kx _ _ _ _ _ _ _ _ _ _ _ _ _ _ HK3 Hj Kp Hm).
  intros x y k h k' h' Hp Kq Hk. exact (S2' Kx x y k h k' h' HKx Hp Kq Hk).
Qed.

Lemma Jstd_chg' : forall sc ce rho n0 lim o lo hi (P : list sv -> nat -> gx -> Prop) (O : nat -> Prop) a b m g m' g',
  (forall (O : nat -> Prop) x y k h k' h', (forall i, O i -> lo <= i < hi \/ o <= i) -> P x k h -> chg O x y -> cle k h k' h' -> P y k' h') ->
  (forall i, O i -> (lo <= i < hi \/ o <= i) /\ lim <= i) ->
  Jstd sc ce rho n0 lim o P a m g -> chg O a b -> cle m g m' g' -> Jstd sc ce rho n0 lim o P b m' g'.
Proof.
  intros sc ce rho n0 lim o lo hi P O a b m g m' g' S1' HO Hj C Hm.
  refine (Jstd_chg _ _ _ _ _ _ _ O _ _ _ _ _ _ (fun x y k h k' h' => S1' O x y k h k' h' _) _ Hj C Hm); intros i Hi; apply HO; auto.
Qed.

(* an Impl run as a body of a composition: while the composition has pending forks (fk') the tail is the
   standard invariant Jstd /\ Jg; otherwise only the caller's P and the part Jgf survive *)
Lemma std_body : forall q, Impl q -> forall sc cur base, frameOK sc cur base ->
  forall ceq pcq nvq sn cq nvq' sn', comp q ceq cur pcq nvq sn = Some (cq, nvq', sn') -> code_at pcq cq ->
  forall pc' st fk lo hi o ko (K K0 : nat -> Prop) ce n0 t (ownb0 : nat -> Prop) ceb fk' o' x rhoq rho lim
         (P : list sv -> nat -> gx -> Prop) (Jg Jgf : list sv -> Prop) v' vs' n',
    pc' = pcq + length cq -> ce_lbls ceb = ce_lbls ceq ->
    (forall i, base + nvq <= i < base + nvq' -> ownb0 i /\ K i) -> (forall i, kept sc ceq i -> K i) -> (forall i, kept sc ce i -> K i) ->
    (forall i, K0 i -> K i) ->
    envOK sc ceq rhoq vs' n0 (base + nvq) -> base + nvq' <= ko -> ko <= o -> lo <= base + nvq -> base + nvq' <= hi ->
    lim <= base + nvq -> lim <= o ->
    (forall (O : nat -> Prop) x y k h k' h', (forall i, O i -> lo <= i < hi \/ o <= i) -> P x k h -> chg O x y -> cle k h k' h' -> P y k' h') ->
    (forall (Kx : nat -> Prop) x y k h k' h', (forall i, K0 i -> Kx i) -> P x k h -> keepX Kx x y -> cle k h k' h' -> P y k' h') ->
    (forall a b, Jg a -> chg (fun i => base + nvq <= i < base + nvq' \/ o' <= i) a b -> Jg b) ->
    (forall a b, Jg a -> keepX K a b -> Jg b) ->
    (forall a b, Jgf a -> chg (fun i => base + nvq <= i < base + nvq' \/ o' <= i) a b -> Jgf b) ->
    (forall a b, Jgf a -> keepX K0 a b -> Jgf b) ->
    (forall a, Jg a -> Jgf a) ->
    Jstd sc ce rho n0 lim o P vs' n' x -> Jg vs' -> o <= o' <= length vs' -> t <= ctr x ->
    let cb := cbody (ctx_of sc pc' st fk lo hi o ko K K0 ce n0 t) ownb0 ceb fk' o' (ctr x) in
    G cb (fst (den q rhoq v')) (Tend cb (snd (den q rhoq v'))
            (wk fk' (fun a m y => Jstd sc ce rho n0 lim o P a m y /\ Jg a) (fun a m y => P a m y /\ Jgf a)))
      (N sc pcq (SV v' :: st) (fk' ++ fk) vs' n' o' x).
Proof.
  intros q IH sc cur base Hfr ceq pcq nvq sn cq nvq' sn' Ec Hat pc' st fk lo hi o ko K K0 ce n0 t ownb0 ceb fk' o' x rhoq rho lim P Jg Jgf v' vs' n'
         Hpc Hlb Hown HKq HK2 HK0 HEq Hko Hoo Hlo Hhi Hlim Hlimo S1' S2' Jg1 Jg2 Jgf1 Jgf2 JJ Hj Hg Ho' Ht cb. pose proof (frameOK_cur _ _ _ Hfr) as Hcur.
  pose proof Hj as (E' & Hn' & Hl' & Hp').
  apply (impl_body fu q IH sc cur base Hfr ceq pcq nvq sn cq nvq' sn' Ec Hat cb rhoq v' vs' n' o' x); subst cb; simpl; auto; try lia.
  - intros i [Hi|Hi]; [left; apply Hown; auto|right; auto].
  - intros i Hi. apply Hown; auto.
  - intros i Hi. exact (wk_K _ _ _ _ HK0 Hi).
  - apply wk_chg.
    + intros a b m y m' y' [Hja Hga] C Hm. split; [|eapply Jg1; eauto].
      eapply (Jstd_chg' _ _ _ _ _ _ lo hi); [exact S1'| |exact Hja|exact C|exact Hm]. simpl; intros; lia.
    + intros a b m y m' y' [Hp Hga] C Hm. split; [|eapply Jgf1; eauto].
      eapply (S1' _ a b m y m' y'); [|exact Hp|exact C|exact Hm]. simpl; intros; lia.
  - apply wk_keep0.
    + intros a b m y m' y' [Hja Hga] C Hm. split; [|eapply Jg2; eauto].
      exact (Jstd_stable_cx _ _ _ _ _ _ _ _ _ _ _ S1' S2' HK2 HK0 _ _ _ _ _ _ Hja C Hm).
    + intros a b m y m' y' [Hp Hga] C Hm. split; [|eapply Jgf2; eauto].
      exact (S2' K0 a b m y m' y' (fun i H => H) Hp C Hm).
  - apply wk_intro; [|split; auto]. intros a m y [(_ & _ & _ & Hp) Hga]. split; auto.
Qed.

(* the standard body: an Impl run in the body context of a composition, with P := Jstd /\ Jg *)
Ltac std_facts :=
  match goal with
  | HE : envOK ?sc ?ce ?rho ?vs ?n0 ?lim |- _ =>
      assert (Hkl : forall i, kept sc ce i -> i < lim) by (intros; eapply kept_lt; eauto)
  end.

Lemma impl_pipe : forall a b, Impl a -> Impl b -> Impl (QPipe a b).
Proof.
  intros a b IHa IHb. impl_intro. simpl in Hc.
  destruct (comp a ce cur pc nv sn) as [[[ca n1] s1]|] eqn:Ec; [|discriminate].
  destruct (comp b ce cur (pc + length ca) n1 s1) as [[[cb n2] s2]|] eqn:Ec0; [|discriminate].
  inversion Hc; subst cq nv' sn'. clear Hc.
  destruct (code_at_app _ _ _ _ Hat) as [Hata Hatb].
  destruct (comp_mono _ _ _ _ _ _ _ _ _ Ec) as [M1 _]. destruct (comp_mono _ _ _ _ _ _ _ _ _ Ec0) as [M2 _].
  std_facts. pose proof (conj S1 S2) as HS. destruct (stable_sub _ _ _ _ _ _ _ _ _ _ _ _ _ _ HS) as [S1' S2'].
  subst c. rewrite app_length, Nat.add_assoc in *.
  pose proof (impl_inner a IHa sc cur base Hfr ce pc nv sn ca n1 s1 Ec Hata rho v st fk vs n n0 o g HE Hn ltac:(lia) Hlen) as HA.
  cbv zeta in HA. cbn [Den.den1].
  refine (bind_std (den b rho) (fun _ => True) sc (pc + length ca) st (base + nv) (base + n1) (pc + length ca + length cb) st fk
            (base + nv) (base + n2) o ko K K0 ce n0 (ctr g) rho (base + nv) P (fun i => base + n1 <= i < base + n2) ce
            HS (le_n _) ltac:(lia) Hko Hoo (le_n _) ltac:(lia) Hkl HK1 HK2 HK0 _ eq_refl _ _ _ (den a rho v) _ HA _ (le_n _)).
  - intros i Hi. lia.
  - auto.
  - auto.
  - intros w fk' vs' n' o' x [Hj _] Ho' Ht' Hfk _ _. pose proof Hj as (E' & Hn' & Hl' & Hp').
    apply (std_body b IHb sc cur base Hfr ce (pc + length ca) n1 s1 cb n2 s2 Ec0 Hatb (pc + length ca + length cb) st fk (base + nv) (base + n2) o ko K K0 ce n0 (ctr g)
             (fun i => base + n1 <= i < base + n2) ce fk' o' x rho rho (base + nv) P (fun _ => True) (fun _ => True) w vs' n' eq_refl eq_refl); auto; try lia.
    + intros i Hi. split; [lia|apply HK1; lia].
    + eapply envOK_lim; eauto. lia.
  - split; [|auto]. split; auto.
Qed.

(* P := Jstd is itself stable in a context whose own range lies inside [lo, hi) and that keeps at least K0 *)
Lemma Jstd_stable : forall sc' pc' st fk lo' hi' o' ko (K Kx : nat -> Prop) ce' n0' t sc ce rho n0 lim o lo hi (P : list sv -> nat -> gx -> Prop) (K0 : nat -> Prop),
  (forall (O : nat -> Prop) x y k h k' h', (forall i, O i -> lo <= i < hi \/ o <= i) -> P x k h -> chg O x y -> cle k h k' h' -> P y k' h') ->
  (forall (Kx : nat -> Prop) x y k h k' h', (forall i, K0 i -> Kx i) -> P x k h -> keepX Kx x y -> cle k h k' h' -> P y k' h') ->
  (forall i, kept sc ce i -> Kx i) -> (forall i, K0 i -> Kx i) -> lo <= lo' -> hi' <= hi -> o <= o' -> lim <= lo -> lim <= o ->
  stable (ctx_of sc' pc' st fk lo' hi' o' ko K Kx ce' n0' t) (Jstd sc ce rho n0 lim o P).
Proof.
  intros sc' pc' st fk lo' hi' o' ko K Kx ce' n0' t sc ce rho n0 lim o lo hi P K0 S1' S2' HK3 HKx H1 H2 H3 H4 H5. split.
  - intros p q m g m' g' Hj C Hm.
    eapply (Jstd_chg' _ _ _ _ _ _ lo hi); [exact S1'| |exact Hj|exact C|exact Hm]. simpl; intros; lia.
  - intros p q m g m' g' Hj C Hm.
    exact (Jstd_stable_cx _ _ _ _ _ _ _ _ _ _ _ S1' S2' HK3 HKx _ _ _ _ _ _ Hj C Hm).
Qed.

Lemma fork_transparent : forall sc pc t st o u fk x vs n g, at_ pc (Ifork t) ->
  steps (B (Some x) (F sc pc st o u :: fk) vs n g) (B (Some x) fk vs n g).
Proof. intros. one st_popfork. one bt_fork_err. constructor. Qed.

Lemma stable_P_sub : forall sc' pc' st fk lo' hi' o' ko (K Kx : nat -> Prop) ce' n0' t lo hi o (P : list sv -> nat -> gx -> Prop) (K0 : nat -> Prop),
  (forall (O : nat -> Prop) x y k h k' h', (forall i, O i -> lo <= i < hi \/ o <= i) -> P x k h -> chg O x y -> cle k h k' h' -> P y k' h') ->
  (forall (Kx : nat -> Prop) x y k h k' h', (forall i, K0 i -> Kx i) -> P x k h -> keepX Kx x y -> cle k h k' h' -> P y k' h') ->
  (forall i, K0 i -> Kx i) -> lo <= lo' -> hi' <= hi -> o <= o' ->
  stable (ctx_of sc' pc' st fk lo' hi' o' ko K Kx ce' n0' t) P.
Proof.
  intros sc' pc' st fk lo' hi' o' ko K Kx ce' n0' t lo hi o P K0 S1' S2' HKx H1 H2 H3. split.
  - intros p q m x m' x' Hp C Hm. eapply (S1' _ p q m x m' x'); [|exact Hp|exact C|exact Hm]. simpl; intros; lia.
  - intros p q m x m' x' Hp C Hm. exact (S2' Kx p q m x m' x' HKx Hp C Hm).
Qed.

Lemma impl_comma : forall a b, Impl a -> Impl b -> Impl (QComma a b).
Proof.
  intros a b IHa IHb. impl_intro. simpl in Hc.
  destruct (comp a ce cur (S pc) nv sn) as [[[ca n1] s1]|] eqn:Ec; [|discriminate].
  destruct (comp b ce cur (pc + 1 + length ca + 1) n1 s1) as [[[cb n2] s2]|] eqn:Ec0; [|discriminate].
  inversion Hc; subst cq nv' sn'. clear Hc.
  uncons Hat A1. destruct (code_at_app _ _ _ _ Hat) as [Hata Hat2]. uncons Hat2 A2. rename Hat2 into Hatb.
  destruct (comp_mono _ _ _ _ _ _ _ _ _ Ec) as [M1 _]. destruct (comp_mono _ _ _ _ _ _ _ _ _ Ec0) as [M2 _].
  std_facts. pose proof (conj S1 S2) as HS. destruct (stable_sub _ _ _ _ _ _ _ _ _ _ _ _ _ _ HS) as [S1' S2'].
  set (L := pc + 1 + length ca + 1) in *.
  replace (S (S pc + length ca)) with L in Hatb by (unfold L; lia).
  assert (Epc : pc + length (Ifork L :: ca ++ Ijump (L + length cb) :: cb) = L + length cb).
  { simpl. rewrite app_length. simpl. unfold L. lia. }
  subst c. rewrite Epc.
  set (c := ctx_of sc (L + length cb) st fk (base + nv) (base + n2) o ko K K0 ce n0 (ctr g)).
  set (fx := F sc pc (SV v :: st) o (ctr g)).
  set (Pa := Jstd sc ce rho n0 (base + nv) o P).
  (* a, with the fork of the comma below its forks: the continuation keeps K even after a forkless output *)
  assert (HA : G (ctx_of sc (S pc + length ca) st (fx :: fk) (base + nv) (base + n1) o ko K K ce n0 (ctr g)) (fst (den a rho v))
                 (Tend (ctx_of sc (S pc + length ca) st (fx :: fk) (base + nv) (base + n1) o ko K K ce n0 (ctr g)) (snd (den a rho v)) Pa)
                 (N sc (S pc) (SV v :: st) (fx :: fk) vs n o g)).
  { apply (IHa sc cur base Hfr ce (S pc) nv sn ca n1 s1 Ec Hata rho v st (fx :: fk) vs n n0 o ko g K K Pa); auto; try lia.
    - intros; apply HK1; lia.
    - eapply Jstd_stable; eauto; lia.
    - split; auto. }
  apply G_exit with (pc2 := L + length cb) in HA.
  2:{ intros w f vs' n' o' g'. one st_jump. constructor. }
  eapply G_pre; [one st_fork; constructor|apply chg_refl|cl|].
  set (ca' := {| g_sc := sc; g_pc := L + length cb; g_st := st; g_base := fx :: fk;
                 g_own := fun i => base + nv <= i < base + n1 \/ o <= i;
                 g_keep := K; g_keep0 := K; g_ce := ce; g_n0 := n0; g_off := o; g_koff := ko; g_ctr := ctr g |}) in HA.
  assert (Hfx : Forall (fun f => g_ctr c <= f_ctr f) [fx]) by (constructor; [simpl; lia|constructor]).
  assert (Htr : forall x vs' n' g', (fun _ _ gg => ctr g <= ctr gg) vs' n' g' -> okerr (g_n0 c) x -> exists vs4 n4 g4,
            steps (B (Some x) ([fx] ++ g_base c) vs' n' g') (B (Some x) (g_base c) vs4 n4 g4) /\ chg (g_own c) vs' vs4 /\ cle n' g' n4 g4).
  { intros x vs' n' g' _ _. exists vs', n', g'. split; [eapply fork_transparent; eauto|]. split; [apply chg_refl|cl]. }
  cbn [Den.den1]. destruct (den a rho v) as [wsa [xa|]] eqn:Ea; cbn [seq fst snd] in *.
  - (* a raised: the fork propagates the error *)
    assert (Hm : forall z1, ctr g <= ctr (gx_of z1) -> Tend ca' (Some xa) Pa z1 -> Tend c (Some xa) P z1).
    { intros z1 _ HT. tend_inv HT as (e & vs4 & n4 & g4 & St4 & Ch4 & Le4 & HE4 & HP4).
      destruct (encR_some _ _ _ _ _ HE4) as (y & ->). simpl in St4, Ch4.
      apply Tend_of. exists (Some y), vs4, n4, g4. split; [eapply steps_trans; [exact St4|eapply fork_transparent; eauto]|].
      split; [eapply chg_mono; [|exact Ch4]; simpl; intros; lia|]. split; [auto|]. split; [exact HE4|apply HP4]. }
    match type of HA with G2 _ ?w0 _ _ ?st0 => refine (G_ctx nt code ca' c [fx] (fun _ _ gg => ctr g <= ctr gg) _ _ _ _ eq_refl eq_refl eq_refl eq_refl _ _ _ (le_n _) (le_n _) (le_n _) Hfx _ _ Htr Hm Hm w0 st0 (le_n _) HA) end; auto;
      try (intros; unfold cle in *; simpl in *; lia).
    intros o0 p q Kp. exact (keepS_K _ _ _ _ Kp).
  - (* a ended: the fork resumes at b *)
    apply G_app.
    assert (Hm : forall z1, ctr g <= ctr (gx_of z1) -> Tend ca' None Pa z1 ->
                   G c (fst (den b rho v)) (Tend c (snd (den b rho v)) P) z1).
    { intros z1 HQz HT. tend_inv HT as (e & vs4 & n4 & g4 & St4 & Ch4 & Le4 & HE4 & (E4 & Hn4 & Hl4 & HP4)). simpl in St4, Ch4, HE4. subst e.
      eapply G_pre; [eapply steps_trans; [exact St4|one st_popfork; one bt_fork_none; constructor]
                    |eapply chg_mono; [|exact Ch4]; simpl; intros; lia|exact Le4|].
      pose proof (IHb sc cur base Hfr ce L n1 s1 cb n2 s2 Ec0 Hatb rho v st fk vs4 n4 n0 o ko g4 K K0 P) as HB. cbv zeta in HB.
      refine (G_sub nt code (ctx_of sc (L + length cb) st fk (base + n1) (base + n2) o ko K K0 ce n0 (ctr g4)) c _ _
                eq_refl eq_refl eq_refl eq_refl _ _ _ (le_n _) (le_n _) _ _ _ _ (HB _ _ _ _ _ _ _ _ _ _)); auto; try lia.
      * simpl; intros; lia.
      * simpl. destruct Le4 as [_ Le4]. lia.
      * intros s2'. tsub.
      * eapply envOK_lim; eauto. lia.
      * intros; apply HK1; lia.
      * eapply stable_P_sub; [exact S1'|exact S2'|exact (fun i H => H)|lia|lia|lia]. }
    match type of HA with G2 _ ?w0 _ _ ?st0 => refine (G_ctx nt code ca' c [fx] (fun _ _ gg => ctr g <= ctr gg) _ _ _ _ eq_refl eq_refl eq_refl eq_refl _ _ _ (le_n _) (le_n _) (le_n _) Hfx _ _ Htr Hm Hm w0 st0 (le_n _) HA) end; auto;
      try (intros; unfold cle in *; simpl in *; lia).
    intros o0 p q Kp. exact (keepS_K _ _ _ _ Kp).
Qed.

(* opiter enumerating the rest of a list *)
Lemma G_iter_list : forall cx pcI o (P : list sv -> nat -> gx -> Prop), at_ pcI Iiter -> g_pc cx = S pcI -> g_off cx <= o ->
  (forall i, g_keep0 cx i -> g_keep cx i) ->
  (forall a b m x m' x', P a m x -> keepK0 cx a b -> cle m x m' x' -> P b m' x') ->
  forall xs vs n g, P vs n g -> o <= length vs -> g_ctr cx <= ctr g ->
  G cx xs (Tend cx None P) (iter_state (g_sc cx) pcI xs (g_st cx) (g_base cx) vs n o g).
Proof.
  intros cx pcI o P Hat Hpc Hoff HK0 HP. induction xs as [|x r IH]; intros vs n g Hp Hl Hc.
  - cbn [iter_state]. eapply G_end; [apply steps_refl|apply chg_refl|cl|reflexivity|auto].
  - destruct r as [|y r].
    + cbn [iter_state]. eapply G_single; [rewrite Hpc; apply steps_refl|apply chg_refl|cl|simpl; lia|].
      intros; eapply HP; eauto.
    + change (G cx (x :: y :: r) (Tend cx None P)
                (N (g_sc cx) (S pcI) (SV x :: g_st cx) (F (g_sc cx) pcI (SIt (y :: r) :: g_st cx) o (ctr g) :: g_base cx) vs n o g)).
      eapply (G_cons nt code cx x (y :: r) _ _ _ (F (g_sc cx) pcI (SIt (y :: r) :: g_st cx) o (ctr g)) [] vs n o g);
        [rewrite Hpc; apply steps_refl|apply chg_refl|cl|simpl; lia|constructor; [simpl; lia|constructor]|].
      intros vs2 n2 g2 Kp L2. split.
      * simpl app. eapply G_pre; [one st_popfork; one bt_iter_none; apply steps_refl|rewrite iter_state_vars; apply chg_refl
                                 |rewrite iter_state_lbl, iter_state_gx; cl|].
        apply IH; [eapply HP; [eauto|exact (keepX_mono _ _ _ _ HK0 (keepS_K _ _ _ _ Kp))|eauto]|destruct Kp; lia|destruct L2; lia].
      * intros e _. exists vs2, n2, g2. simpl app. split; [one st_popfork; one bt_iter_err; apply steps_refl|].
        split; [apply chg_refl|cl].
Qed.

Lemma G_iter : forall cx pcI o (P : list sv -> nat -> gx -> Prop) w vs n g, at_ pcI Iiter -> g_pc cx = S pcI -> g_off cx <= o ->
  (forall i, g_keep0 cx i -> g_keep cx i) ->
  (forall a b m x m' x', P a m x -> keepK0 cx a b -> cle m x m' x' -> P b m' x') -> P vs n g -> o <= length vs -> g_ctr cx <= ctr g ->
  G cx (fst (iter_res nt w)) (Tend cx (snd (iter_res nt w)) P) (N (g_sc cx) pcI (SV w :: g_st cx) (g_base cx) vs n o g).
Proof.
  intros cx pcI o P w vs n g Hat Hpc Hoff HK0 HP Hp Hl Hc. unfold iter_res. destruct (n_iter nt w) as [xs|e] eqn:E; cbn [fst snd].
  - eapply G_pre; [one st_iter_ok; apply steps_refl|rewrite iter_state_vars; apply chg_refl
                  |rewrite iter_state_lbl, iter_state_gx; cl|eapply G_iter_list; eauto].
  - eapply G_end; [one st_iter_err; apply steps_refl|apply chg_refl|cl|reflexivity|auto].
Qed.

Lemma G_index : forall cx pcI k o (P : list sv -> nat -> gx -> Prop) w vs n g, at_ pcI (Iindex k) -> g_pc cx = S pcI -> g_off cx <= o ->
  (forall i, g_keep0 cx i -> g_keep cx i) ->
  (forall a b m x m' x', P a m x -> keepK0 cx a b -> cle m x m' x' -> P b m' x') -> P vs n g -> o <= length vs -> g_ctr cx <= ctr g ->
  G cx (fst (of_sum (n_index nt w k))) (Tend cx (snd (of_sum (n_index nt w k))) P)
    (N (g_sc cx) pcI (SV w :: g_st cx) (g_base cx) vs n o g).
Proof.
  intros cx pcI k o P w vs n g Hat Hpc Hoff HK0 HP Hp Hl Hc. destruct (n_index nt w k) as [r|e] eqn:E; cbn [of_sum fst snd].
  - eapply G_single; [rewrite Hpc; one st_index_ok; apply steps_refl|apply chg_refl|cl|simpl; lia|].
    intros; eapply HP; eauto.
  - eapply G_end; [one st_index_err; apply steps_refl|apply chg_refl|cl|reflexivity|auto].
Qed.

(* t followed by one instruction that is a generator on the top of the stack *)
Lemma postfix_std : forall t (f : jv -> result) (i : instr), Impl t ->
  (forall cx pcI o (P : list sv -> nat -> gx -> Prop) w vs n g, at_ pcI i -> g_pc cx = S pcI -> g_off cx <= o ->
     (forall i, g_keep0 cx i -> g_keep cx i) ->
     (forall a b m x m' x', P a m x -> keepK0 cx a b -> cle m x m' x' -> P b m' x') -> P vs n g -> o <= length vs -> g_ctr cx <= ctr g ->
     G cx (fst (f w)) (Tend cx (snd (f w)) P) (N (g_sc cx) pcI (SV w :: g_st cx) (g_base cx) vs n o g)) ->
  forall sc cur base, frameOK sc cur base ->
  forall ce pc nv sn ct nv' sn', comp t ce cur pc nv sn = Some (ct, nv', sn') -> code_at pc (ct ++ [i]) ->
  forall rho v st fk vs n n0 o ko g (K K0 : nat -> Prop) (P : list sv -> nat -> gx -> Prop),
    envOK sc ce rho vs n0 (base + nv) -> n0 <= n -> base + nv' <= ko -> ko <= o -> o <= length vs ->
    (forall i, base + nv <= i < base + nv' -> K i) -> (forall i, kept sc ce i -> K i) -> (forall i, K0 i -> K i) ->
    let c := ctx_of sc (pc + length (ct ++ [i])) st fk (base + nv) (base + nv') o ko K K0 ce n0 (ctr g) in
    stable c P -> P vs n g ->
    G c (fst (bind (den t rho v) f)) (Tend c (snd (bind (den t rho v) f)) P) (N sc pc (SV v :: st) fk vs n o g).
Proof.
  intros t f i IHt Hbody sc cur base Hfr ce pc nv sn ct nv' sn' Ec Hat rho v st fk vs n n0 o ko g K K0 P HE Hn Hko Hoo Hlen HK1 HK2 HK0 c HS HP. pose proof (frameOK_cur _ _ _ Hfr) as Hcur.
  destruct (code_at_app _ _ _ _ Hat) as [Hatt Hati]. uncons Hati Ai.
  destruct (comp_mono _ _ _ _ _ _ _ _ _ Ec) as [M1 _].
  std_facts. destruct (stable_sub _ _ _ _ _ _ _ _ _ _ _ _ _ _ HS) as [S1' S2'].
  pose proof (impl_inner t IHt sc cur base Hfr ce pc nv sn ct nv' sn' Ec Hatt rho v st fk vs n n0 o g HE Hn ltac:(lia) Hlen) as HA.
  cbv zeta in HA.
  assert (Epc : pc + length (ct ++ [i]) = S (pc + length ct)) by (rewrite app_length; simpl; lia).
  subst c. rewrite Epc in *.
  refine (bind_std f (fun _ => True) sc (pc + length ct) st (base + nv) (base + nv') (S (pc + length ct)) st fk
            (base + nv) (base + nv') o ko K K0 ce n0 (ctr g) rho (base + nv) P (fun _ => False) ce
            HS (le_n _) (le_n _) Hko Hoo (le_n _) ltac:(lia) Hkl HK1 HK2 HK0 _ eq_refl _ _ _ (den t rho v) _ HA _ (le_n _)).
  - intros j [].
  - auto.
  - auto.
  - intros w fk' vs' n' o' x Hj Ho' Ht' Hfk Hwk Hin.
    apply (Hbody (cbody (ctx_of sc (S (pc + length ct)) st fk (base + nv) (base + nv') o ko K K0 ce n0 (ctr g)) (fun _ => False) ce fk' o' (ctr x))
                 (pc + length ct) o'); simpl; auto; try lia.
    intros j Hj'. exact (wk_K _ _ _ _ HK0 Hj').
  - split; [|auto]. split; auto.
Qed.

Lemma impl_iter : forall t, Impl t -> Impl (QIter t).
Proof.
  intros t IHt. impl_intro. simpl in Hc.
  destruct (comp t ce cur pc nv sn) as [[[ct n1] s1]|] eqn:Ec; [|discriminate]. inversion Hc; subst cq nv' sn'. clear Hc.
  cbn [Den.den1]. eapply postfix_std; eauto. intros; apply G_iter; auto. split; auto.
Qed.

Lemma impl_index : forall t k, Impl t -> Impl (QIndex t k).
Proof.
  intros t k IHt. impl_intro. simpl in Hc.
  destruct (comp t ce cur pc nv sn) as [[[ct n1] s1]|] eqn:Ec; [|discriminate]. inversion Hc; subst cq nv' sn'. clear Hc.
  cbn [Den.den1]. eapply (postfix_std t (fun w => of_sum (n_index nt w k))); eauto.
  intros; apply G_index; auto. split; auto.
Qed.

Lemma is_const1_some : forall l x, is_const1 l = Some x -> l = [Iconst x].
Proof. intros l y H. destruct l as [|[] [|]]; simpl in H; try discriminate. inversion H; auto. Qed.

Definition if_pre (cc : list instr) : list instr :=
  match cc with [] => [Idup] | _ => Idup :: Iexpbegin :: cc ++ [Iexpend] end.

(* the condition of an if: dup (or nop, when the results are constants), expbegin, c, expend *)
Lemma if_cond : forall c, Impl c -> forall sc cur base, frameOK sc cur base ->
  forall ce pc nv sn cc n1 s1, comp c ce cur (pc + 2) nv sn = Some (cc, n1, s1) ->
  forall (i0 : instr), code_at pc (i0 :: tl (if_pre cc)) ->
  forall rho v st0 st1 fk vs n n0 o g,
  (forall f vs n o g, step nt code (N sc pc (SV v :: st0) f vs n o g) = Next (N sc (S pc) (SV v :: st1) f vs n o g)) ->
  envOK sc ce rho vs n0 (base + nv) -> n0 <= n -> base + n1 <= o -> o <= length vs ->
  let c1 := ctx_of sc (pc + length (if_pre cc)) st1 fk (base + nv) (base + n1) o o (fun i => base + nv <= i < base + n1 \/ kept sc ce i) (fun _ => False) ce n0 (ctr g) in
  G c1 (fst (den c rho v)) (Tend c1 (snd (den c rho v)) (fun _ _ _ => True)) (N sc pc (SV v :: st0) fk vs n o g).
Proof.
  intros c IHc sc cur base Hfr ce pc nv sn cc n1 s1 Ec i0 Hat rho v st0 st1 fk vs n n0 o g Hstep HE Hn Ho Hl c1. pose proof (frameOK_cur _ _ _ Hfr) as Hcur.
  destruct cc as [|i cc'].
  - destruct (comp_nil _ _ _ _ _ _ _ _ Ec) as (E1 & -> & ->). rewrite (emptycode_den nt _ _ E1). cbn [fst snd].
    subst c1. simpl length. replace (pc + 1) with (S pc) by lia.
    eapply G_single; [eapply steps_step; [apply Hstep|apply steps_refl]|apply chg_refl|cl|simpl; lia|auto].
  - unfold if_pre in Hat, c1. simpl tl in Hat.
    uncons Hat A0. uncons Hat A1. change (i :: cc' ++ [Iexpend]) with ((i :: cc') ++ [Iexpend]) in Hat.
    remember (i :: cc') as cc eqn:Ecc.
    destruct (code_at_app _ _ _ _ Hat) as [Hatc Hat2]. uncons Hat2 A2.
    replace (S (S pc)) with (pc + 2) in * by lia.
    eapply G_pre; [eapply steps_step; [apply Hstep|one st_expbegin; apply steps_refl]|apply chg_refl|cl|].
    replace (S (S pc)) with (pc + 2) by lia.
    pose proof (impl_inner c IHc sc cur base Hfr ce (pc + 2) nv sn cc n1 s1 Ec Hatc rho v st1 fk vs n n0 o g HE Hn Ho Hl) as HA. cbv zeta in HA.
    subst c1. replace (pc + length (Idup :: Iexpbegin :: cc ++ [Iexpend])) with (S (pc + 2 + length cc)).
    2:{ simpl. rewrite app_length. simpl. lia. }
    eapply G_exit; [|exact HA]. intros w f vs' n' o' g'. one st_expend. apply steps_refl.
Qed.

Lemma comp_if_inv : forall c a b ce tp cur pc nv sn cq nv' sn', compg tco (QIf c a b) ce tp cur pc nv sn = Some (cq, nv', sn') ->
  exists cc n1 s1 ca n2 s2 cb,
    let pcc := pc + length (if_pre cc) in
    let e := pcc + 1 + length ca + 1 in
    comp c ce cur (pc + 2) nv sn = Some (cc, n1, s1) /\ compg tco a ce tp cur (S pcc) n1 s1 = Some (ca, n2, s2) /\
    compg tco b ce tp cur e n2 s2 = Some (cb, nv', sn') /\
    ((exists x y, ca = [Iconst x] /\ cb = [Iconst y] /\
        cq = Inop :: tl (if_pre cc) ++ [Ijumpifnot e; Ipush x; Ijump (e + 1); Ipush y]) \/
     cq = if_pre cc ++ Ijumpifnot e :: ca ++ Ijump (e + length cb) :: cb).
Proof.
  intros c a b ce tp cur pc nv sn cq nv' sn' Hc. simpl in Hc.
  destruct (comp c ce cur (pc + 2) nv sn) as [[[cc n1] s1]|] eqn:Ec; [|discriminate].
  change (match cc with [] => [Idup] | _ :: _ => Idup :: Iexpbegin :: cc ++ [Iexpend] end) with (if_pre cc) in Hc.
  destruct (compg tco a ce tp cur (S (pc + length (if_pre cc))) n1 s1) as [[[ca n2] s2]|] eqn:Ea; [|discriminate].
  destruct (compg tco b ce tp cur (pc + length (if_pre cc) + 1 + length ca + 1) n2 s2) as [[[cb n3] s3]|] eqn:Eb; [|discriminate].
  exists cc, n1, s1, ca, n2, s2, cb. cbv zeta.
  destruct (is_const1 ca) as [x|] eqn:E1; [destruct (is_const1 cb) as [y|] eqn:E2|]; inversion Hc; subst; clear Hc;
    (split; [reflexivity|]); (split; [exact Ea|]); (split; [exact Eb|]); auto.
  left. exists x, y. rewrite (is_const1_some _ _ E1), (is_const1_some _ _ E2) in *. auto.
Qed.

Lemma if_pre_cons : forall cc, if_pre cc = Idup :: tl (if_pre cc).
Proof. destruct cc; reflexivity. Qed.

Lemma impl_if : forall qc qa qb, Impl qc -> Impl qa -> Impl qb -> Impl (QIf qc qa qb).
Proof.
  intros qc qa qb IHc IHa IHb. impl_intro.
  destruct (comp_if_inv _ _ _ _ _ _ _ _ _ _ _ _ Hc) as (cc & n1 & s1 & ca & n2 & s2 & cb & Ec & Ea & Eb & Hcq). cbv zeta in *. clear Hc.
  set (pcc := pc + length (if_pre cc)) in *. set (e := pcc + 1 + length ca + 1) in *.
  destruct (comp_mono _ _ _ _ _ _ _ _ _ Ec) as [M1 _]. destruct (comp_mono _ _ _ _ _ _ _ _ _ Ea) as [M2 _].
  destruct (comp_mono _ _ _ _ _ _ _ _ _ Eb) as [M3 _].
  std_facts. pose proof (conj S1 S2) as HS. destruct (stable_sub _ _ _ _ _ _ _ _ _ _ _ _ _ _ HS) as [S1' S2'].
  assert (HJ0 : Jstd sc ce rho n0 (base + nv) o P vs n g) by (split; auto).
  cbn [Den.den1].
  destruct Hcq as [(x & y & -> & -> & ->)| ->].
  - (* constant results: nop ... jumpifnot; push x; jump; push y *)
    change (Inop :: tl (if_pre cc) ++ [Ijumpifnot e; Ipush x; Ijump (e + 1); Ipush y])
      with ((Inop :: tl (if_pre cc)) ++ [Ijumpifnot e; Ipush x; Ijump (e + 1); Ipush y]) in *.
    destruct (code_at_app _ _ _ _ Hat) as [Hpre Hat2].
    assert (Elen : pc + length (Inop :: tl (if_pre cc)) = pcc).
    { unfold pcc. rewrite (if_pre_cons cc) at 2. reflexivity. }
    rewrite Elen in Hat2. uncons Hat2 Aj. uncons Hat2 Ax. uncons Hat2 Ajmp. uncons Hat2 Ay.
    assert (Epc : pc + length ((Inop :: tl (if_pre cc)) ++ [Ijumpifnot e; Ipush x; Ijump (e + 1); Ipush y]) = e + 1).
    { rewrite app_length, Nat.add_assoc, Elen. unfold e. simpl. lia. }
    assert (Ee : e = S (S (S pcc))) by (unfold e; simpl; lia).
    subst c. rewrite Epc in *.
    pose proof (if_cond qc IHc sc cur base Hfr ce pc nv sn cc n1 s1 Ec Inop Hpre rho v st st fk vs n n0 o g) as HA. cbv zeta in HA.
    assert (A0 : at_ pc Inop) by (destruct (code_at_cons _ _ _ _ Hpre); auto).
    specialize (HA (fun f vs n o g => st_nop nt code sc pc _ f vs n o g A0) HE Hn ltac:(lia) Hlen). fold pcc in HA.
    rewrite (comp_const1 nt _ _ _ _ _ _ _ _ _ _ Ea), (comp_const1 nt _ _ _ _ _ _ _ _ _ _ Eb).
    refine (bind_std (fun w => if truthy w then ([x], None) else ([y], None)) (fun _ => True)
              sc pcc st (base + nv) (base + n1) (e + 1) st fk (base + nv) (base + nv') o ko K K0 ce n0 (ctr g) rho (base + nv) P
              (fun _ => False) ce HS (le_n _) ltac:(lia) Hko Hoo (le_n _) ltac:(lia) Hkl HK1 HK2 HK0 _ eq_refl _ _ _ _ _ HA _ (le_n _)).
    + intros i [].
    + auto.
    + auto.
    + intros w fk' vs' n' o' z Hj Ho' Ht' Hfk Hwk Hin.
      eapply G_pre; [one st_jumpifnot; apply steps_refl|apply chg_refl|cl|].
      assert (HK : forall vs2 n2' g2, keepK0 (cbody (ctx_of sc (e + 1) st fk (base + nv) (base + nv') o ko K K0 ce n0 (ctr g)) (fun _ => False) ce fk' o' (ctr z)) vs' vs2 ->
                    cle n' z n2' g2 ->
                    wk fk' (fun a m x0 => Jstd sc ce rho n0 (base + nv) o P a m x0 /\ True) (fun a m x0 => P a m x0 /\ True) vs2 n2' g2).
      { intros vs2 n2' g2 Kp L2. eapply Hwk; [apply Hin; exact Hj|exact Kp|exact L2]. }
      destruct (truthy w); cbn [fst snd].
      * eapply G_single; [simpl g_pc; simpl g_st; simpl g_base; simpl g_sc; one st_push; one st_jump; apply steps_refl
                         |apply chg_refl|cl|simpl; lia|exact HK].
      * eapply G_single; [simpl g_pc; simpl g_st; simpl g_base; simpl g_sc; rewrite Ee in *; one st_push;
                          replace (S (S (S (S pcc)))) with (S (S (S pcc)) + 1) by lia; apply steps_refl
                         |apply chg_refl|cl|simpl; lia|exact HK].
    + split; auto.
  - (* general *)
    destruct (code_at_app _ _ _ _ Hat) as [Hpre Hat2]. fold pcc in Hat2.
    uncons Hat2 Aj. destruct (code_at_app _ _ _ _ Hat2) as [Hata Hat3]. uncons Hat3 Ajmp.
    replace (S (S pcc + length ca)) with e in Hat3 by (unfold e; lia). rename Hat3 into Hatb.
    assert (Epc : pc + length (if_pre cc ++ Ijumpifnot e :: ca ++ Ijump (e + length cb) :: cb) = e + length cb).
    { rewrite app_length. simpl. rewrite app_length. simpl. unfold e, pcc. lia. }
    subst c. rewrite Epc in *.
    rewrite (if_pre_cons cc) in Hpre.
    pose proof (if_cond qc IHc sc cur base Hfr ce pc nv sn cc n1 s1 Ec Idup Hpre rho v st (SV v :: st) fk vs n n0 o g) as HA. cbv zeta in HA.
    assert (A0 : at_ pc Idup) by (destruct (code_at_cons _ _ _ _ Hpre); auto).
    specialize (HA (fun f vs n o g => st_dup nt code sc pc _ _ f vs n o g A0) HE Hn ltac:(lia) Hlen). fold pcc in HA.
    refine (bind_std (fun w => if truthy w then den qa rho v else den qb rho v) (fun _ => True)
              sc pcc (SV v :: st) (base + nv) (base + n1) (e + length cb) st fk (base + nv) (base + nv') o ko K K0 ce n0 (ctr g) rho (base + nv) P
              (fun i => base + n1 <= i < base + nv') ce
              HS (le_n _) ltac:(lia) Hko Hoo (le_n _) ltac:(lia) Hkl HK1 HK2 HK0 _ eq_refl _ _ _ _ _ HA _ (le_n _)).
    + intros i Hi. lia.
    + auto.
    + auto.
    + intros w fk' vs' n' o' z [Hj _] Ho' Ht' Hfk _ _. pose proof Hj as (E' & Hn' & Hl' & Hp').
      eapply G_pre; [one st_jumpifnot; apply steps_refl|apply chg_refl|cl|].
      destruct (truthy w).
      * (* then-branch, followed by the jump over the else-branch *)
        pose proof (std_body qa IHa sc cur base Hfr ce (S pcc) n1 s1 ca n2 s2 Ea Hata (S pcc + length ca) st fk (base + nv) (base + nv') o ko K K0 ce n0 (ctr g)
                      (fun i => base + n1 <= i < base + nv') ce fk' o' z rho rho (base + nv) P (fun _ => True) (fun _ => True) v vs' n' eq_refl eq_refl) as HB.
        cbv zeta in HB.
        eapply G_impl; [|eapply (G_exit nt code sc (S pcc + length ca) (e + length cb)); [|apply HB; auto; try lia]].
        -- intros s0. tsub.
        -- intros w' f vs2 n2' o2 g2. one st_jump. apply steps_refl.
        -- intros i Hi. split; [lia|apply HK1; lia].
        -- eapply envOK_lim; eauto. lia.
      * pose proof (std_body qb IHb sc cur base Hfr ce e n2 s2 cb nv' sn' Eb Hatb (e + length cb) st fk (base + nv) (base + nv') o ko K K0 ce n0 (ctr g)
                      (fun i => base + n1 <= i < base + nv') ce fk' o' z rho rho (base + nv) P (fun _ => True) (fun _ => True) v vs' n' eq_refl eq_refl) as HB.
        cbv zeta in HB. apply HB; auto; try lia.
        -- intros i Hi. split; [lia|apply HK1; lia].
        -- eapply envOK_lim; eauto. lia.
    + split; auto.
Qed.

Lemma Jstd_update : forall sc ce rho n0 lim o lo hi (P : list sv -> nat -> gx -> Prop) vs n g k x vs',
  (forall (O : nat -> Prop) x y k h k' h', (forall i, O i -> lo <= i < hi \/ o <= i) -> P x k h -> chg O x y -> cle k h k' h' -> P y k' h') ->
  Jstd sc ce rho n0 lim o P vs n g -> update vs k x = Some vs' -> lo <= k < hi -> lim <= k -> Jstd sc ce rho n0 lim o P vs' n g.
Proof.
  intros sc ce rho n0 lim o lo hi P vs n g k x vs' S1' Hj U Hk Hl.
  assert (C : chg (fun i => i = k) vs vs') by (eapply chg_update; eauto).
  eapply (Jstd_chg' _ _ _ _ _ _ lo hi); [exact S1'| |exact Hj|exact C|apply cle_refl]. simpl; intros; lia.
Qed.

Definition bind_pre (cs : list instr) (x : var) : list instr :=
  match cs with
  | [] => [Idup; Inop; Istore x]
  | _ => Idup :: Iexpbegin :: cs ++ [Istore x; Iexpend]
  end.

Lemma comp_bind_inv : forall qs x qb ce tp cur pc nv sn cq nv' sn', compg tco (QBind qs x qb) ce tp cur pc nv sn = Some (cq, nv', sn') ->
  exists cs n1 s1 cb, comp qs ce cur (pc + 2) nv sn = Some (cs, n1, s1) /\
    compg tco qb (add_var ce x (cur, n1)) tp cur (pc + length (bind_pre cs (cur, n1))) (S n1) s1 = Some (cb, nv', sn') /\
    cq = bind_pre cs (cur, n1) ++ cb.
Proof.
  intros qs x qb ce tp cur pc nv sn cq nv' sn' Hc. simpl in Hc.
  destruct (comp qs ce cur (pc + 2) nv sn) as [[[cs n1] s1]|] eqn:Es; [|discriminate].
  change (match cs with [] => [Idup; Inop; Istore (cur, n1)] | _ :: _ => Idup :: Iexpbegin :: cs ++ [Istore (cur, n1); Iexpend] end)
    with (bind_pre cs (cur, n1)) in Hc.
  destruct (compg tco qb (add_var ce x (cur, n1)) tp cur (pc + length (bind_pre cs (cur, n1))) (S n1) s1) as [[[cb n2] s2]|] eqn:Eb; [|discriminate].
  inversion Hc; subst. eauto 8.
Qed.

(* the body of a binding construct: the value w was stored in the fresh slot k of the current frame *)
Lemma bound_body : forall q, Impl q -> forall sc cur base, frameOK sc cur base ->
  forall ce x k pcq sn cq nvq' sn', comp q (add_var ce x (cur, k)) cur pcq (S k) sn = Some (cq, nvq', sn') -> code_at pcq cq ->
  forall pc' st fk lo hi o ko (K K0 : nat -> Prop) n0 t (ownb0 : nat -> Prop) fk' o' z rho lim
         (P : list sv -> nat -> gx -> Prop) w u vs' n',
    pc' = pcq + length cq ->
    (forall i, base + k <= i < base + nvq' -> ownb0 i /\ K i) -> (forall i, kept sc ce i -> K i) -> (forall i, K0 i -> K i) ->
    base + nvq' <= ko -> ko <= o -> lo <= base + k -> base + nvq' <= hi -> lim <= base + k -> lim <= o ->
    (forall (O : nat -> Prop) x y k h k' h', (forall i, O i -> lo <= i < hi \/ o <= i) -> P x k h -> chg O x y -> cle k h k' h' -> P y k' h') ->
    (forall (Kx : nat -> Prop) x y k h k' h', (forall i, K0 i -> Kx i) -> P x k h -> keepX Kx x y -> cle k h k' h' -> P y k' h') ->
    Jstd sc ce rho n0 lim o P vs' n' z -> nth_error vs' (base + k) = Some (SV w) -> o <= o' <= length vs' -> t <= ctr z ->
    let cb := cbody (ctx_of sc pc' st fk lo hi o ko K K0 ce n0 t) ownb0 ce fk' o' (ctr z) in
    G cb (fst (den q ((x, BV w) :: rho) u)) (Tend cb (snd (den q ((x, BV w) :: rho) u))
           (wk fk' (fun a m y => Jstd sc ce rho n0 lim o P a m y /\ True) (fun a m y => P a m y /\ True)))
      (N sc pcq (SV u :: st) (fk' ++ fk) vs' n' o' z).
Proof.
  intros q IH sc cur base Hfr ce x k pcq sn cq nvq' sn' Ec Hat pc' st fk lo hi o ko K K0 n0 t ownb0 fk' o' z rho lim P w u vs' n'
         Hpc Hown HK2 HK0 Hko Hoo Hlo Hhi Hlim Hlimo S1' S2' Hj Hnth Ho' Ht cb. pose proof (frameOK_cur _ _ _ Hfr) as Hcur.
  destruct (comp_mono _ _ _ _ _ _ _ _ _ Ec) as [M _]. pose proof Hj as (E & Hn & Hl & Hp).
  subst cb.
  apply (std_body q IH sc cur base Hfr (add_var ce x (cur, k)) pcq (S k) sn cq nvq' sn' Ec Hat pc' st fk lo hi o ko K K0 ce n0 t ownb0 ce fk' o' z
           ((x, BV w) :: rho) rho lim P (fun _ => True) (fun _ => True) u vs' n' Hpc eq_refl); auto; try lia.
  - intros i Hi. apply Hown. lia.
  - intros i Hi. destruct (kept_add_var _ _ _ _ _ _ (Hcur k) Hi) as [->|Hi']; [apply Hown; lia|auto].
  - eapply envOK_add_var; [eapply envOK_lim; [exact E|lia]|apply Hcur|lia|exact Hnth].
Qed.

Lemma impl_bind : forall qs x qb, Impl qs -> Impl qb -> Impl (QBind qs x qb).
Proof.
  intros qs x qb IHs IHb. impl_intro.
  destruct (comp_bind_inv _ _ _ _ _ _ _ _ _ _ _ _ Hc) as (cs & n1 & s1 & cb & Es & Eb & ->). clear Hc.
  destruct (comp_mono _ _ _ _ _ _ _ _ _ Es) as [M1 _]. destruct (comp_mono _ _ _ _ _ _ _ _ _ Eb) as [M2 _].
  std_facts. pose proof (conj S1 S2) as HS. destruct (stable_sub _ _ _ _ _ _ _ _ _ _ _ _ _ _ HS) as [S1' S2'].
  assert (HJ0 : Jstd sc ce rho n0 (base + nv) o P vs n g) by (split; auto).
  cbn [Den.den1].
  destruct (code_at_app _ _ _ _ Hat) as [Hpre Hatb].
  subst c. rewrite app_length, Nat.add_assoc in *.
  set (pcb := pc + length (bind_pre cs (cur, n1))) in *.
  destruct cs as [|i0 cs'].
  - (* the source emits no code: dup; nop; store x *)
    destruct (comp_nil _ _ _ _ _ _ _ _ Es) as (E1 & -> & ->). unfold bind_pre in Hpre. simpl in pcb.
    uncons Hpre A0. uncons Hpre A1. uncons Hpre A2.
    rewrite (emptycode_den nt _ _ E1).
    refine (bind_std (fun w => den qb ((x, BV w) :: rho) v) (fun _ => True) sc (S (S pc)) (SV v :: st) (base + nv) (base + nv)
              (pcb + length cb) st fk (base + nv) (base + nv') o ko K K0 ce n0 (ctr g) rho (base + nv) P
              (fun i => base + nv <= i < base + nv') ce HS (le_n _) ltac:(lia) Hko Hoo (le_n _) ltac:(lia) Hkl HK1 HK2 HK0 _ eq_refl _ _ _ ([v], None)
              (N sc pc (SV v :: st) fk vs n o g) _ _ (le_n _)).
    + intros i Hi. lia.
    + auto.
    + auto.
    + intros w fk' vs' n' o' z [Hj _] Ho' Ht' Hfk _ _. pose proof Hj as (E' & Hn' & Hl' & Hp').
      destruct (update_some vs' (base + nv) (SV w)) as [vs'' U]; [lia|].
      destruct (update_spec _ _ _ _ U) as (UL & UN & UO).
      eapply G_pre; [one st_store; apply steps_refl|eapply chg_update; [exact U|simpl; lia]|cl|].
      replace (S (S (S pc))) with pcb by (unfold pcb; lia).
      apply (bound_body qb IHb sc cur base Hfr ce x nv pcb sn cb nv' sn' Eb Hatb (pcb + length cb) st fk (base + nv) (base + nv') o ko K K0 n0 (ctr g)
               (fun i => base + nv <= i < base + nv') fk' o' z rho (base + nv) P w v vs'' n'); auto; try lia.
      all: try (intros i Hi; split; [lia|apply HK1; lia]).
      all: try (eapply Jstd_update; eauto; lia).
    + cbn [fst snd]. eapply G_single; [one st_dup; one st_nop; apply steps_refl|apply chg_refl|cl|simpl; lia|auto].
    + split; auto.
  - (* dup; expbegin; source; store x; expend *)
    remember (i0 :: cs') as cs eqn:Ecs.
    assert (Epre : bind_pre cs (cur, n1) = Idup :: Iexpbegin :: cs ++ [Istore (cur, n1); Iexpend]) by (subst cs; reflexivity).
    rewrite Epre in Hpre. uncons Hpre A0. uncons Hpre A1.
    destruct (code_at_app _ _ _ _ Hpre) as [Hats Hpre2]. uncons Hpre2 A2. uncons Hpre2 A3.
    replace (S (S pc)) with (pc + 2) in * by lia.
    assert (Epcb : pcb = S (S (pc + 2 + length cs))).
    { unfold pcb. rewrite Epre. simpl. rewrite app_length. simpl. lia. }
    pose proof (impl_inner qs IHs sc cur base Hfr ce (pc + 2) nv sn cs n1 s1 Es Hats rho v (SV v :: st) fk vs n n0 o g HE Hn ltac:(lia) Hlen) as HA.
    cbv zeta in HA.
    refine (bind_std (fun w => den qb ((x, BV w) :: rho) v) (fun _ => True) sc (pc + 2 + length cs) (SV v :: st) (base + nv) (base + n1)
              (pcb + length cb) st fk (base + nv) (base + nv') o ko K K0 ce n0 (ctr g) rho (base + nv) P
              (fun i => base + n1 <= i < base + nv') ce HS (le_n _) ltac:(lia) Hko Hoo (le_n _) ltac:(lia) Hkl HK1 HK2 HK0 _ eq_refl _ _ _ (den qs rho v)
              (N sc pc (SV v :: st) fk vs n o g) _ _ (le_n _)).
    + intros i Hi. lia.
    + auto.
    + auto.
    + intros w fk' vs' n' o' z [Hj _] Ho' Ht' Hfk _ _. pose proof Hj as (E' & Hn' & Hl' & Hp').
      destruct (update_some vs' (base + n1) (SV w)) as [vs'' U]; [lia|].
      destruct (update_spec _ _ _ _ U) as (UL & UN & UO).
      eapply G_pre; [one st_store; one st_expend; apply steps_refl|eapply chg_update; [exact U|simpl; lia]|cl|].
      rewrite <- Epcb.
      apply (bound_body qb IHb sc cur base Hfr ce x n1 pcb s1 cb nv' sn' Eb Hatb (pcb + length cb) st fk (base + nv) (base + nv') o ko K K0 n0 (ctr g)
               (fun i => base + n1 <= i < base + nv') fk' o' z rho (base + nv) P w v vs'' n'); auto; try lia.
      all: try (intros i Hi; split; [lia|apply HK1; lia]).
      all: try (eapply Jstd_update; eauto; lia).
    + eapply G_pre; [one st_dup; one st_expbegin; apply steps_refl|apply chg_refl|cl|].
      replace (S (S pc)) with (pc + 2) by lia. exact HA.
    + split; auto.
Qed.

Lemma impl_label : forall l qb, Impl qb -> Impl (QLabel l qb).
Proof.
  intros l qb IHb. impl_intro. simpl in Hc.
  destruct (comp qb (add_lbl ce l (cur, nv)) cur (S pc) (S nv) sn) as [[[cb n1] s1]|] eqn:Ec; [|discriminate].
  inversion Hc; subst cq nv' sn'. clear Hc. rename n1 into nv'.
  destruct (comp_mono _ _ _ _ _ _ _ _ _ Ec) as [M1 _]. uncons Hat A0.
  std_facts. pose proof (conj S1 S2) as HS. destruct (stable_sub _ _ _ _ _ _ _ _ _ _ _ _ _ _ HS) as [S1' S2'].
  assert (HJ0 : Jstd sc ce rho n0 (base + nv) o P vs n g) by (split; auto).
  assert (Epc : pc + length (Iforklabel (cur, nv) :: cb) = S pc + length cb) by (simpl; lia).
  subst c. rewrite Epc in *.
  set (c := ctx_of sc (S pc + length cb) st fk (base + nv) (base + nv') o ko K K0 ce n0 (ctr g)).
  destruct (update_some vs (base + nv) (SLbl n)) as [vs1 U]; [lia|].
  destruct (update_spec _ _ _ _ U) as (UL & UN & UO).
  set (fx := F sc pc (SLbl n :: SV v :: st) o (ctr g)).
  set (ceb := add_lbl ce l (cur, nv)).
  set (cx := {| g_sc := sc; g_pc := S pc + length cb; g_st := st; g_base := fx :: fk;
                g_own := fun i => base + S nv <= i < base + nv' \/ o <= i;
                g_keep := K; g_keep0 := K; g_ce := ceb; g_n0 := S n; g_off := o; g_koff := ko; g_ctr := ctr g |}).
  set (Pb := fun a m (x : gx) => Jstd sc ce rho n0 (base + nv) o P a m x /\ nth_error a (base + nv) = Some (SLbl n)).
  assert (HJ1 : Jstd sc ce rho n0 (base + nv) o P vs1 n g) by (eapply Jstd_update; eauto; lia).
  assert (HB : G cx (fst (den qb rho v)) (Tend cx (snd (den qb rho v)) Pb) (N sc (S pc) (SV v :: st) (fx :: fk) vs1 (S n) o g)).
  { apply (impl_body fu qb IHb sc cur base Hfr ceb (S pc) (S nv) sn cb nv' s1 Ec Hat cx rho v vs1 (S n) o g Pb); simpl; auto; try lia.
    - intros; apply HK1; lia.
    - intros i Hi. destruct (kept_add_lbl _ _ _ _ _ _ (Hcur nv) Hi) as [->|Hi']; [apply HK1; lia|auto].
    - destruct HJ1 as (E1 & _). apply envOK_add_lbl with (a := base + nv) (id := n); auto; try lia.
      apply envOK_n0 with (n0 := n0); [|lia]. eapply envOK_lim; eauto. lia.
    - intros p q m x m' x' [Hq Hq2] C Hm. split.
      + eapply (Jstd_chg' _ _ _ _ _ _ (base + nv) (base + nv')); [exact S1'| |exact Hq|exact C|exact Hm]. simpl; intros; lia.
      + rewrite <- Hq2. symmetry. apply C. lia.
    - intros p q m x m' x' [Hq Hq2] C Hm. split.
      + exact (Jstd_stable_cx _ _ _ _ _ _ _ _ _ _ _ S1' S2' HK2 HK0 _ _ _ _ _ _ Hq C Hm).
      + rewrite <- Hq2. symmetry. apply C. simpl. apply HK1. lia.
    - split; [|exact UN].
      eapply (Jstd_chg' _ _ _ _ _ _ (base + nv) (base + nv') P (fun _ => False)); [exact S1'| |exact HJ1|apply chg_refl|unfold cle; simpl; lia].
      intros i []. }
  eapply G_pre; [one st_forklabel; apply steps_refl|eapply chg_update; [exact U|simpl; lia]|cl|].
  assert (Htr : forall y vs' n' g', okerr n0 y -> steps (B (Some y) (fx :: fk) vs' n' g') (B (Some y) fk vs' n' g')).
  { intros y vs' n' g' Hy. one st_popfork. one bt_label.
    destruct y as [[| |m]|]; simpl; try apply steps_refl.
    simpl in Hy. destruct (Nat.eqb_spec m n); [lia|apply steps_refl]. }
  cbn [Den.den1]. destruct (den qb rho v) as [ws fin]. cbn [fst snd] in HB.
  match goal with |- G _ (fst ?r) _ _ => assert (Hf : fst r = ws)
    by (destruct fin as [[e0|l'|]|]; [|destruct (N.eqb l l')| |]; reflexivity); rewrite Hf end.
  assert (Hfx : Forall (fun f => g_ctr c <= f_ctr f) [fx]) by (constructor; [simpl; lia|constructor]).
  refine ((fun Hm => G_ctx nt code cx c [fx] (fun _ _ _ => True) _ _ _ _ eq_refl eq_refl eq_refl eq_refl _ _ _ _ (le_n _) (le_n _) Hfx _ _ _ Hm Hm _ _ I HB) _); auto.
  - simpl; intros; lia.
  - intros o0 p q Kp. exact (keepS_K _ _ _ _ Kp).
  - simpl; lia.
  - intros y vs' n' g' _ Hy. exists vs', n', g'. split; [apply Htr; auto|]. split; [apply chg_refl|cl].
  - intros z1 _ HT. tend_inv HT as (e & vs4 & n4 & g4 & St4 & Ch4 & Le4 & HE4 & ((E4 & Hn4 & Hl4 & HP4) & Hlab)). simpl in St4, Ch4. cbn [g_sc g_ce cx] in HE4.
    assert (Ch4' : chg (g_own c) (vars_of z1) vs4) by (eapply chg_mono; [|exact Ch4]; simpl; intros; lia).
    destruct fin as [[e0|l'|]|]; cbn [fst snd] in *; simpl in HE4; [| |contradiction|].
    + (* error *) subst e. exists (Some (VE (err_of e0))), vs4, n4, g4.
      split; [eapply steps_trans; [exact St4|apply Htr; destruct e0; simpl; auto]|]. split; [exact Ch4'|]. split; [exact Le4|]. split; [reflexivity|exact HP4].
    + (* break *) destruct HE4 as (y & k & id & Hk & Hik & Hid & ->). simpl in Hk. rewrite N.eqb_sym in Hk.
      destruct (N.eqb l l') eqn:El; cbn [snd].
      * inversion Hk; subst y. rewrite Hcur in Hik. inversion Hik; subst k. rewrite Hlab in Hid. inversion Hid; subst id.
        exists None, vs4, n4, g4. split; [|split; [exact Ch4'|split; [exact Le4|split; [reflexivity|exact HP4]]]].
        eapply steps_trans; [exact St4|]. one st_popfork. eapply steps_step; [eapply bt_label; eauto|]. cbv beta iota. rewrite Nat.eqb_refl. apply steps_refl.
      * destruct E4 as (_ & El4 & _). destruct (El4 _ _ Hk) as (a' & id' & Hia & _ & Hid' & Hlt). rewrite Hik in Hia. inversion Hia; subst a'.
        rewrite Hid in Hid'. inversion Hid'; subst id'.
        exists (Some (VE (EB id))), vs4, n4, g4. split; [eapply steps_trans; [exact St4|apply Htr; simpl; lia]|].
        split; [exact Ch4'|]. split; [exact Le4|]. split; [|exact HP4]. simpl. exists y, k, id. auto.
    + (* normal end *) subst e. exists None, vs4, n4, g4.
      split; [|split; [exact Ch4'|split; [exact Le4|split; [reflexivity|exact HP4]]]].
      eapply steps_trans; [exact St4|]. one st_popfork. one bt_label. apply steps_refl.
Qed.

(* the exit of a try body: forktryend pushes a fork per output, then jumps to the end *)
Lemma G_tryend : forall sc pe pend st fb fk (O K K0 K0' : nat -> Prop) ce n0 o ko t (T Tw T' Tw' : state -> Prop),
  at_ pe Iforktryend -> at_ (S pe) (Ijump pend) ->
  (forall x vs n g, steps (B (Some (VT x)) (fb :: fk) vs n g) (B (Some x) fk vs n g)) ->
  t <= f_ctr fb -> (forall i, K0 i -> K i) ->
  (forall s, T s -> T' s) -> (forall s, Tw s -> T' s) ->
  forall ws s, t <= ctr (gx_of s) ->
  G2 {| g_sc := sc; g_pc := pe; g_st := st; g_base := fb :: fk; g_own := O; g_keep := K; g_keep0 := K0; g_ce := ce; g_n0 := n0; g_off := o; g_koff := ko; g_ctr := t |} ws T Tw s ->
  G2 {| g_sc := sc; g_pc := pend; g_st := st; g_base := fk; g_own := O; g_keep := K; g_keep0 := K0'; g_ce := ce; g_n0 := n0; g_off := o; g_koff := ko; g_ctr := t |} ws T' Tw' s.
Proof.
  intros sc pe pend st fb fk O K K0 K0' ce n0 o ko t T Tw T' Tw' A1 A2 Hun Hfb HK0 HT HTw. induction ws; intros s Hs HG.
  - simpl in *. destruct HG as (s' & St & Ch & Le & H). exists s'. auto.
  - simpl in HG. destruct HG as (fk' & vs3 & n3 & o3 & g3 & St & Ch & Le & [Ho Hfk] & R).
    assert (Hc3 : t <= ctr g3) by (destruct Le; lia).
    eapply (G_cons nt code _ a ws _ _ _ (F sc pe (SV a :: st) o3 (ctr g3)) (fk' ++ [fb]) vs3 n3 o3 g3); simpl.
    + eapply steps_trans; [exact St|]. one st_forktryend. one st_jump. rewrite <- app_assoc. apply steps_refl.
    + exact Ch.
    + exact Le.
    + exact Ho.
    + constructor; [simpl; lia|]. apply Forall_app. split; [exact Hfk|constructor; [exact Hfb|constructor]].
    + intros vs2 n2 g2 Kp L2. rewrite <- app_assoc. simpl.
      destruct fk' as [|f0 fk0].
      * destruct R as [E R]. subst ws. simpl. split.
        -- exists (B None (fb :: fk) vs2 n2 g2). split; [one st_popfork; one bt_tryend; apply steps_refl|].
           split; [apply chg_refl|]. split; [cl|]. apply HTw. apply R; [|exact L2].
           exact (keepX_mono _ _ _ _ HK0 (keepS_K _ _ _ _ Kp)).
        -- intros x Hx. exists vs2, n2, g2. split; [|split; [apply chg_refl|cl]].
           one st_popfork. one bt_tryend. apply Hun.
      * destruct (R vs2 n2 g2 Kp L2) as [R1 R2]. split.
        -- eapply G_pre; [one st_popfork; one bt_tryend; apply steps_refl|apply chg_refl|cl|].
           apply IHws; [simpl; destruct L2; lia|exact R1].
        -- intros x Hx. destruct (R2 (VT x) I) as (vs4 & n4 & g4 & St4 & Ch4 & Le4). exists vs4, n4, g4.
           split; [|auto]. one st_popfork. one bt_tryend. eapply steps_trans; [exact St4|apply Hun].
Qed.

Lemma impl_try : forall qa h, Impl qa -> Popt Impl h -> Impl (QTry qa h).
Proof.
  intros qa h IHa IHh. impl_intro. simpl in Hc.
  destruct (comp qa ce cur (S pc) nv sn) as [[[ca n1] s1]|] eqn:Ea; [|discriminate].
  destruct (comp_mono _ _ _ _ _ _ _ _ _ Ea) as [M1 _].
  std_facts. pose proof (conj S1 S2) as HS. destruct (stable_sub _ _ _ _ _ _ _ _ _ _ _ _ _ _ HS) as [S1' S2'].
  set (hp := pc + 1 + length ca + 2) in *.
  set (fb := F sc pc (SV v :: st) o (ctr g)).
  assert (Hsh : exists ch, cq = Iforktrybegin hp :: ca ++ Iforktryend :: Ijump (hp + length ch) :: ch /\ n1 <= nv' /\
            match h with
            | Some h' => comp h' ce cur hp n1 s1 = Some (ch, nv', sn')
            | None => ch = [Ibacktrack] /\ nv' = n1
            end).
  { destruct h as [h'|].
    - destruct (comp h' ce cur hp n1 s1) as [[[ch n2] s2]|] eqn:Eh; [|discriminate]. inversion Hc; subst.
      exists ch. split; [auto|]. split; [exact (proj1 (comp_mono _ _ _ _ _ _ _ _ _ Eh))|auto].
    - inversion Hc; subst. exists [Ibacktrack]. auto. }
  destruct Hsh as (ch & -> & M2 & Hh). clear Hc.
  uncons Hat A0. destruct (code_at_app _ _ _ _ Hat) as [Hata Hat2]. uncons Hat2 A1. uncons Hat2 A2.
  replace (S (S (S pc + length ca))) with hp in Hat2 by (unfold hp; lia). rename Hat2 into Hath.
  assert (Epc : pc + length (Iforktrybegin hp :: ca ++ Iforktryend :: Ijump (hp + length ch) :: ch) = hp + length ch).
  { simpl. rewrite app_length. simpl. unfold hp. lia. }
  subst c. rewrite Epc in *.
  set (c := ctx_of sc (hp + length ch) st fk (base + nv) (base + nv') o ko K K0 ce n0 (ctr g)).
  set (Pa := Jstd sc ce rho n0 (base + nv) o P).
  set (ca0 := ctx_of sc (S pc + length ca) st (fb :: fk) (base + nv) (base + n1) o ko K K ce n0 (ctr g)).
  assert (HA : G ca0 (fst (den qa rho v)) (Tend ca0 (snd (den qa rho v)) Pa) (N sc (S pc) (SV v :: st) (fb :: fk) vs n o g)).
  { apply (IHa sc cur base Hfr ce (S pc) nv sn ca n1 s1 Ea Hata rho v st (fb :: fk) vs n n0 o ko g K K Pa); auto; try lia.
    - intros; apply HK1; lia.
    - eapply Jstd_stable; eauto; lia.
    - split; auto. }
  assert (Hun : forall x vs' n' g', steps (B (Some (VT x)) (fb :: fk) vs' n' g') (B (Some x) fk vs' n' g')).
  { intros. one st_popfork. one bt_trybegin_vt. apply steps_refl. }
  eapply G_pre; [one st_forktrybegin; apply steps_refl|apply chg_refl|cl|].
  (* what the try construct does when the body has been exhausted *)
  set (Tfin := fun z1 : state => ctr g <= ctr (gx_of z1) /\
     match snd (den qa rho v) with
     | Some (XErr e0) =>
         match h with
         | Some h' => G c (fst (den h' rho (errval e0))) (Tend c (snd (den h' rho (errval e0))) P) z1
         | None => Tend c None P z1
         end
     | fin => Tend c fin P z1
     end).
  assert (HT : forall z1, ctr g <= ctr (gx_of z1) /\ Tend ca0 (snd (den qa rho v)) Pa z1 -> Tfin z1).
  { intros z1 [Hz HT0]. unfold Tfin. split; [exact Hz|].
    tend_inv HT0 as (e & vs4 & n4 & g4 & St4 & Ch4 & Le4 & HE4 & (E4 & Hn4 & Hl4 & HP4)). simpl in St4, Ch4. cbn [g_sc g_ce ca0 ctx_of] in HE4.
    assert (Ch4' : chg (g_own c) (vars_of z1) vs4) by (eapply chg_mono; [|exact Ch4]; simpl; intros; lia).
    destruct (snd (den qa rho v)) as [[e0|l'|]|]; simpl in HE4; [| |contradiction|].
    - subst e. destruct h as [h'|].
      + eapply G_pre; [eapply steps_trans; [exact St4|one st_popfork; one bt_trybegin_catch; apply steps_refl]|exact Ch4'|exact Le4|].
        pose proof (IHh sc cur base Hfr ce hp n1 s1 ch nv' sn' Hh Hath rho (errval e0) st fk vs4 n4 n0 o ko g4 K K0 P) as HB. cbv zeta in HB.
        refine (G_sub nt code (ctx_of sc (hp + length ch) st fk (base + n1) (base + nv') o ko K K0 ce n0 (ctr g4)) c _ _
                  eq_refl eq_refl eq_refl eq_refl _ _ _ (le_n _) (le_n _) _ _ _ _ (HB _ _ _ _ _ _ _ _ _ _)); auto; try lia.
        * simpl; intros; lia.
        * simpl. destruct Le4; lia.
        * intros s2'. tsub.
        * eapply envOK_lim; eauto. lia.
        * intros; apply HK1; lia.
        * eapply stable_P_sub; [exact S1'|exact S2'|exact (fun i H => H)|lia|lia|lia].
      + destruct Hh as [-> ->]. uncons Hath A3.
        exists None, vs4, n4, g4. split; [|split; [exact Ch4'|split; [exact Le4|split; [reflexivity|exact HP4]]]].
        eapply steps_trans; [exact St4|]. one st_popfork. one bt_trybegin_catch. one st_backtrack. apply steps_refl.
    - destruct HE4 as (y & k & id & Hk & Hik & Hid & ->).
      exists (Some (VE (EB id))), vs4, n4, g4. split; [|split; [exact Ch4'|split; [exact Le4|split; [|exact HP4]]]].
      + eapply steps_trans; [exact St4|]. one st_popfork. one bt_trybegin_brk. apply steps_refl.
      + simpl. exists y, k, id. auto.
    - subst e. exists None, vs4, n4, g4. split; [|split; [exact Ch4'|split; [exact Le4|split; [reflexivity|exact HP4]]]].
      eapply steps_trans; [exact St4|]. one st_popfork. one bt_trybegin_none. apply steps_refl. }
  (* carry the counter bound to the tail *)
  assert (HA' : G ca0 (fst (den qa rho v)) (fun z1 => ctr g <= ctr (gx_of z1) /\ Tend ca0 (snd (den qa rho v)) Pa z1)
                  (N sc (S pc) (SV v :: st) (fb :: fk) vs n o g)).
  { match type of HA with G2 _ ?w0 _ _ ?st0 =>
      refine (G_ctx nt code ca0 ca0 [] (fun _ _ gg => ctr g <= ctr gg) _ _ _ _ eq_refl eq_refl eq_refl eq_refl (fun _ H => H) (fun _ _ _ H => H) (fun _ _ _ H => H)
                (le_n _) (le_n _) (le_n _) (Forall_nil _) _ _ _ _ _ w0 st0 (le_n _) HA) end.
    - intros; unfold cle in *; lia.
    - intros; unfold cle in *; lia.
    - intros x vs' n' g' _ _. exists vs', n', g'. split; [apply steps_refl|]. split; [apply chg_refl|cl].
    - intros z1 Hz Ht. split; auto.
    - intros z1 Hz Ht. split; auto. }
  assert (HG : forall Tw', G2 c (fst (den qa rho v)) Tfin Tw' (N sc (S pc) (SV v :: st) (fb :: fk) vs n o g)).
  { intros Tw'.
    pose proof (G_tryend sc (S pc + length ca) (hp + length ch) st fb fk _ K K K0 ce n0 o ko (ctr g) _ _ Tfin Tw' A1 A2 Hun (le_n _) (fun i H => H) HT HT
                  (fst (den qa rho v)) (N sc (S pc) (SV v :: st) (fb :: fk) vs n o g) (le_n _) HA') as HG.
    refine (G2_sub nt code (ctx_of sc (hp + length ch) st fk (base + nv) (base + n1) o ko K K0 ce n0 (ctr g)) c _ _ _ _
              eq_refl eq_refl eq_refl eq_refl _ _ _ (le_n _) (le_n _) (le_n _) (fun s H => H) (fun s H => H) _ _ HG); auto.
    simpl; intros; lia. }
  clear HA HA'. cbn [Den.den1].
  assert (HG2 : forall Tw', G2 c (fst (den qa rho v))
            (fun z1 => match snd (den qa rho v) with
                       | Some (XErr e0) => match h with
                                           | Some h' => G c (fst (den h' rho (errval e0))) (Tend c (snd (den h' rho (errval e0))) P) z1
                                           | None => Tend c None P z1 end
                       | fin => Tend c fin P z1 end) Tw' (N sc (S pc) (SV v :: st) (fb :: fk) vs n o g)).
  { intros Tw'. eapply G2_impl; [| |exact (HG Tw')]; [intros z1 [_ H]; exact H|auto]. }
  clear HG.
  destruct (den qa rho v) as [ws [[e0|l'|]|]]; cbn [fst snd] in *; try exact (HG2 _).
  destruct h as [h'|]; [|exact (HG2 _)].
  destruct (den h' rho (errval e0)) as [wh fh] eqn:Edh. cbn [seq fst snd] in *. apply G_app. exact (HG2 _).
Qed.

Lemma foldgen_collect : forall ws l0,
  foldgen (list jv) (fun l w => ([], None, l ++ [w])) ws l0 = ([], None, l0 ++ ws).
Proof.
  induction ws; intros l0; simpl. - rewrite app_nil_r. auto.
  - rewrite IHws. rewrite <- app_assoc. reflexivity.
Qed.

Lemma impl_array : forall q, Impl q -> Impl (QArray q).
Proof.
  intros q IHq. impl_intro. simpl in Hc.
  destruct (comp q ce cur (pc + 3) (S nv) sn) as [[[cq' n1] s1]|] eqn:Eq; [|discriminate].
  destruct (comp_mono _ _ _ _ _ _ _ _ _ Eq) as [M1 _].
  std_facts. pose proof (conj S1 S2) as HS. destruct (stable_sub _ _ _ _ _ _ _ _ _ _ _ _ _ _ HS) as [S1' S2'].
  cbn [Den.den1].
  destruct (array_fold q) as [cs|] eqn:Ef.
  - (* folded to a constant *)
    inversion Hc; subst cq nv' sn'. clear Hc. uncons Hat A0.
    assert (Ha : acl q = Some cs) by (destruct q; simpl in Ef; auto; discriminate).
    rewrite (acl_sound nt _ _ _ Ha). cbn [fst snd].
    eapply G_single; [subst c; simpl; replace (pc + 1) with (S pc) by lia; one st_const; apply steps_refl
                     |apply chg_refl|cl|simpl; lia|].
    intros; eapply S2; eauto.
  - inversion Hc; subst cq nv' sn'. clear Hc.
    uncons Hat A0. uncons Hat A1. uncons Hat A2. replace (S (S (S pc))) with (pc + 3) in Hat by lia.
    destruct (code_at_app _ _ _ _ Hat) as [Hatq Hat2]. uncons Hat2 A3. uncons Hat2 A4. uncons Hat2 A5. uncons Hat2 A6.
    set (pa := pc + 3 + length cq') in *.
    assert (Epc : pc + length (Ipush (VArr []) :: Istore (cur, nv) :: Ifork (pa + 2) :: cq' ++
                    [Iappend (cur, nv); Ibacktrack; Ipop; Iload (cur, nv)]) = pa + 4).
    { simpl. rewrite app_length. simpl. unfold pa. lia. }
    subst c. rewrite Epc in *.
    set (c := ctx_of sc (pa + 4) st fk (base + nv) (base + n1) o ko K K0 ce n0 (ctr g)).
    destruct (update_some vs (base + nv) (SV (VArr []))) as [vs1 U]; [lia|].
    destruct (update_spec _ _ _ _ U) as (UL & UN & UO).
    set (fx := F sc (S (S pc)) (SV v :: st) o (ctr g)).
    assert (HJ0 : Jstd sc ce rho n0 (base + nv) o P vs n g) by (split; auto).
    assert (HJ1 : Jstd sc ce rho n0 (base + nv) o P vs1 n g) by (eapply Jstd_update; eauto; lia).
    eapply G_pre; [one st_push; one st_store; one st_fork; apply steps_refl
                  |eapply chg_update; [exact U|simpl; lia]|cl|].
    replace (S (S (S pc))) with (pc + 3) by lia.
    destruct HJ1 as (E1 & Hn1 & Hl1 & HP1).
    pose proof (impl_inner q IHq sc cur base Hfr ce (pc + 3) (S nv) sn cq' n1 s1 Eq Hatq rho v st (fx :: fk) vs1 n n0 o g
                  ltac:(eapply envOK_lim; eauto; lia) Hn ltac:(lia) Hl1) as HA. cbv zeta in HA. fold pa in HA.
    set (fb := fun (l : list jv) (w : jv) => (@nil jv, @None exn, l ++ [w])).
    set (Jg := fun (l : list jv) (a : list sv) => nth_error a (base + nv) = Some (SV (VArr l))).
    assert (HS0 : stable (ctx_of sc 0 st (fx :: fk) (base + nv) (base + n1) o ko K K ce n0 (ctr g)) P)
      by (eapply stable_P_sub; [exact S1'|exact S2'|exact HK0|lia|lia|lia]).
    assert (HJg1 : forall (l : list jv) a b, Jg l a -> chg (fun i => base + S nv <= i < base + n1 \/ o <= i) a b -> Jg l b).
    { intros l a b Hg C. unfold Jg in *. rewrite <- Hg. symmetry. apply C. lia. }
    assert (HJgK : forall (l : list jv) a b, Jg l a -> keepX K a b -> Jg l b).
    { intros l a b Hg C. unfold Jg in *. rewrite <- Hg. symmetry. apply C. apply HK1. lia. }
    pose proof (fold_std sc pa st (base + S nv) (base + n1) 0 st (fx :: fk) (base + nv) (base + n1) o ko K K ce n0 (ctr g) rho (base + nv) P P
                  (list jv) Jg Jg fb (fun i => i = base + nv) ce
                  HS0 ltac:(lia) (le_n _) Hko Hoo (le_n _) ltac:(lia) Hkl HK1 HK2 (fun i H => H)) as HF. cbv zeta in HF.
    destruct (den q rho v) as [ws fin] eqn:Ed. cbn [fst snd] in HA.
    set (c0 := ctx_of sc 0 st (fx :: fk) (base + nv) (base + n1) o ko K K ce n0 (ctr g)).
    assert (HG : G c0 [] (Tend c0 fin (fun a m x => P a m x /\ Jg ws a))
                   (N sc (pc + 3) (SV v :: st) (fx :: fk) vs1 n o g)).
    { refine (HF _ eq_refl (fun a m x Hj => proj2 (proj2 (proj2 Hj)))
                (fun a b m x m' x' Hp C Hm => S1' (fun i => base + S nv <= i < base + n1 \/ o <= i) a b m x m' x' ltac:(simpl; intros; lia) Hp C Hm)
                (fun a b m x m' x' Hp C Hm => S2' K a b m x m' x' HK0 Hp C Hm)
                HJg1 HJg1 HJgK HJgK (fun _ _ H => H) _ ws [] _ fin [] None ws HA _ (le_n _) (foldgen_collect ws [])).
      - intros i ->. lia.
      - intros w l fk' vs' n' o' x os' x' g' [Hj Hg] Ho' Ht' Hfk Efb Hwk Hin. unfold fb in Efb. inversion Efb; subst os' x' g'.
        pose proof Hj as (E' & Hn' & Hl' & Hp').
        destruct (update_some vs' (base + nv) (SV (VArr (l ++ [w])))) as [vs'' U']; [lia|].
        destruct (update_spec _ _ _ _ U') as (UL' & UN' & UO').
        eapply G_end; [one st_append; one st_backtrack; apply steps_refl
                      |eapply chg_update; [exact U'|simpl; auto]|cl|reflexivity|].
        apply Hin. split; [eapply Jstd_update; eauto; lia|exact UN'].
      - split; [split; auto|exact UN]. }
    destruct HG as (s' & St & Ch & Le & HT). simpl in Ch, Le.
    destruct (Tend_inv _ _ _ _ _ _ _ HT) as [[-> HFu]|(e & vs4 & n4 & g4 & St4 & Ch4 & Le4 & HE4 & (HP4 & Hg4))];
      [cbn [fst snd]; apply G_of_fuel; eapply Tfuel_pre; [exact St|]; eapply Tfuel_mono; [|exact HFu]; ctrle|].
    simpl in St4, Ch4. cbn [g_sc g_ce c0 ctx_of] in HE4.
    assert (Ch' : chg (g_own c) vs1 vs4) by (eapply chg_trans; eauto).
    assert (Le' : cle n g n4 g4) by (eapply cle_trans; eauto).
    destruct fin as [x|]; simpl in HE4; cbn [fst snd].
    + destruct (encR_some _ _ _ _ _ HE4) as (y & ->).
      eapply G_end; [eapply steps_trans; [exact St|eapply steps_trans; [exact St4|eapply fork_transparent; eauto]]
                    |exact Ch'|exact Le'|exact HE4|exact HP4].
    + subst e.
      eapply G_single with (vs3 := vs4) (n3 := n4) (o3 := o) (g3 := g4);
        [eapply steps_trans; [exact St|eapply steps_trans; [exact St4|]]|exact Ch'|exact Le'|pose proof (proj1 Ch'); simpl; lia|].
      * one st_popfork. one bt_fork_none. replace (pa + 2) with (S (S pa)) by lia. one st_pop. one st_load.
        replace (S (S (S (S pa)))) with (pa + 4) by lia. apply steps_refl.
      * intros vs2 n2 g2 Kp L2. exact (S2' K0 _ _ _ _ _ _ (fun i H => H) HP4 Kp L2).
Qed.

Lemma foldgen_alt : forall ws g,
  foldgen bool (fun g w => if truthy w then ([w], None, true) else ([], None, g)) ws g =
  (filter truthy ws, None, match filter truthy ws with [] => g | _ => true end).
Proof.
  induction ws; intros g; simpl; auto.
  destruct (truthy a); rewrite IHws; simpl; auto.
  destruct (filter truthy ws); auto.
Qed.

Lemma impl_alt : forall qa qb, Impl qa -> Impl qb -> Impl (QAlt qa qb).
Proof.
  intros qa qb IHa IHb. impl_intro. simpl in Hc.
  destruct (comp qa ce cur (pc + 3) (S nv) sn) as [[[ca n1] s1]|] eqn:Ec; [|discriminate].
  destruct (comp qb ce cur (pc + 3 + length ca + 11) n1 s1) as [[[cb n2] s2]|] eqn:Ec0; [|discriminate].
  inversion Hc; subst cq nv' sn'. clear Hc.
  destruct (comp_mono _ _ _ _ _ _ _ _ _ Ec) as [M1 _]. destruct (comp_mono _ _ _ _ _ _ _ _ _ Ec0) as [M2 _].
  std_facts. pose proof (conj S1 S2) as HS. destruct (stable_sub _ _ _ _ _ _ _ _ _ _ _ _ _ _ HS) as [S1' S2'].
  assert (HJ0 : Jstd sc ce rho n0 (base + nv) o P vs n g) by (split; auto).
  set (p1 := pc + 3 + length ca) in *.
  uncons Hat A0. uncons Hat A1. uncons Hat A2. replace (S (S (S pc))) with (pc + 3) in Hat by lia.
  destruct (code_at_app _ _ _ _ Hat) as [Hata Hat2]. fold p1 in Hat2.
  change (Idup :: Ijumpifnot (p1 + 5) :: Ipush (VBool true) :: Istore (cur, nv) :: Ijump (p1 + 11 + length cb) ::
          Ipop :: Ibacktrack :: Iload (cur, nv) :: Ijumpifnot (p1 + 11) :: Ibacktrack :: Ipop :: cb)
    with ([Idup; Ijumpifnot (p1 + 5); Ipush (VBool true); Istore (cur, nv); Ijump (p1 + 11 + length cb);
           Ipop; Ibacktrack; Iload (cur, nv); Ijumpifnot (p1 + 11); Ibacktrack; Ipop] ++ cb) in Hat2.
  destruct (code_at_app _ _ _ _ Hat2) as [Hmid Hatb]. simpl length in Hatb.
  uncons Hmid B0. uncons Hmid B1. uncons Hmid B2. uncons Hmid B3. uncons Hmid B4. uncons Hmid B5.
  uncons Hmid B6. uncons Hmid B7. uncons Hmid B8. uncons Hmid B9.
  subst c.
  match goal with |- context [ctx_of sc (pc + length ?l)] =>
    assert (Epc : pc + length l = p1 + 11 + length cb)
      by (simpl; repeat (rewrite app_length; simpl); unfold p1; lia); rewrite Epc in * end.
  set (pend := p1 + 11 + length cb) in *.
  set (c := ctx_of sc pend st fk (base + nv) (base + n2) o ko K K0 ce n0 (ctr g)).
  destruct (update_some vs (base + nv) (SV (VBool false))) as [vs1 U]; [lia|].
  destruct (update_spec _ _ _ _ U) as (UL & UN & UO).
  set (fx := F sc (S (S pc)) (SV v :: st) o (ctr g)).
  assert (HJ1 : Jstd sc ce rho n0 (base + nv) o P vs1 n g) by (eapply Jstd_update; eauto; lia).
  eapply G_pre; [one st_push; one st_store; one st_fork; apply steps_refl
                |eapply chg_update; [exact U|simpl; lia]|cl|].
  replace (S (S (S pc))) with (pc + 3) by lia.
  pose proof HJ1 as (E1 & Hn1 & Hl1 & HP1).
  pose proof (impl_inner qa IHa sc cur base Hfr ce (pc + 3) (S nv) sn ca n1 s1 Ec Hata rho v st (fx :: fk) vs1 n n0 o g
                ltac:(eapply envOK_lim; eauto; lia) Hn ltac:(lia) Hl1) as HA. cbv zeta in HA. fold p1 in HA.
  set (fb := fun (b : bool) (w : jv) => if truthy w then ([w], @None exn, true) else ([], None, b)).
  set (Jg := fun (b : bool) (a : list sv) => nth_error a (base + nv) = Some (SV (VBool b))).
  assert (HS0 : stable (ctx_of sc pend st (fx :: fk) (base + nv) (base + n2) o ko K K ce n0 (ctr g)) P)
    by (eapply stable_P_sub; [exact S1'|exact S2'|exact HK0|lia|lia|lia]).
  assert (HJg1 : forall (b : bool) p q, Jg b p -> chg (fun i => base + S nv <= i < base + n1 \/ o <= i) p q -> Jg b q).
  { intros b p q Hg C. unfold Jg in *. rewrite <- Hg. symmetry. apply C. lia. }
  assert (HJgK : forall (b : bool) p q, Jg b p -> keepX K p q -> Jg b q).
  { intros b p q Hg C. unfold Jg in *. rewrite <- Hg. symmetry. apply C. apply HK1. lia. }
  pose proof (fold_std sc p1 st (base + S nv) (base + n1) pend st (fx :: fk) (base + nv) (base + n2) o ko K K ce n0 (ctr g) rho (base + nv) P
                (Jstd sc ce rho n0 (base + nv) o P)
                bool Jg Jg fb (fun i => i = base + nv) ce
                HS0 ltac:(lia) ltac:(lia) Hko Hoo (le_n _) ltac:(lia) Hkl HK1 HK2 (fun i H => H)) as HF. cbv zeta in HF.
  destruct (den qa rho v) as [ws fin] eqn:Ed. cbn [fst snd] in HA.
  set (ts := filter truthy ws).
  set (gf := match ts with [] => false | _ => true end).
  set (c0 := ctx_of sc pend st (fx :: fk) (base + nv) (base + n2) o ko K K ce n0 (ctr g)).
  assert (HG : G c0 ts (Tend c0 fin (fun a m x => Jstd sc ce rho n0 (base + nv) o P a m x /\ Jg gf a))
                 (N sc (pc + 3) (SV v :: st) (fx :: fk) vs1 n o g)).
  { refine (HF _ eq_refl (fun a m x Hj => Hj) _ _ HJg1 HJg1 HJgK HJgK (fun _ _ H => H) _ ws false _ fin ts None gf HA _ (le_n _) (foldgen_alt ws false)).
    - intros i ->. lia.
    - intros p q m x m' x' Hq C Hm. eapply (Jstd_chg' _ _ _ _ _ _ (base + nv) (base + n2)); [exact S1'| |exact Hq|exact C|exact Hm]. simpl; intros; lia.
    - intros p q m x m' x' Hq C Hm. exact (Jstd_stable_cx _ _ _ _ _ _ _ _ _ _ _ S1' S2' HK2 HK0 _ _ _ _ _ _ Hq C Hm).
    - intros w b fk' vs' n' o' x os' x' g' [Hj Hg] Ho' Ht' Hfk Efb Hwk Hin. unfold fb in Efb. pose proof Hj as (E' & Hn' & Hl' & Hp').
      eapply G_pre; [one st_dup; one st_jumpifnot; apply steps_refl|apply chg_refl|cl|].
      destruct (truthy w); inversion Efb; subst os' x' g'.
      + destruct (update_some vs' (base + nv) (SV (VBool true))) as [vs'' U']; [lia|].
        destruct (update_spec _ _ _ _ U') as (UL' & UN' & UO').
        eapply G_single with (vs3 := vs'') (n3 := n') (o3 := o') (g3 := x);
          [one st_push; one st_store; one st_jump; apply steps_refl|eapply chg_update; [exact U'|simpl; auto]|cl|simpl; lia|].
        intros vs2 n2' g2 Kp L2.
        eapply Hwk; [apply Hin; split; [eapply Jstd_update; eauto; lia|exact UN']|exact Kp|exact L2].
      + eapply G_end; [replace (p1 + 5) with (S (S (S (S (S p1))))) by lia; one st_pop; one st_backtrack; apply steps_refl
                      |apply chg_refl|cl|reflexivity|apply Hin; split; auto].
    - split; [exact HJ1|exact UN]. }
  (* from the base with the fork of // to the base below it *)
  cbn [Den.den1]. rewrite Ed. fold ts.
  set (Tfin := fun z1 : state =>
     match fin with
     | Some x => Tend c (Some x) P z1
     | None => match ts with
               | [] => G c (fst (den qb rho v)) (Tend c (snd (den qb rho v)) P) z1
               | _ => Tend c None P z1
               end
     end).
  assert (Hfx : Forall (fun f => g_ctr c <= f_ctr f) [fx]) by (constructor; [simpl; lia|constructor]).
  assert (HG2 : G c ts Tfin (N sc (pc + 3) (SV v :: st) (fx :: fk) vs1 n o g)).
  { match type of HG with G2 _ ?w0 _ _ ?st0 =>
      refine ((fun Hm => G_ctx nt code c0 c [fx] (fun _ _ gg => ctr g <= ctr gg) _ _ _ _
              eq_refl eq_refl eq_refl eq_refl (fun _ H => H) (fun _ _ _ H => H) (fun o a b H => keepS_K _ _ _ _ H) (le_n _) (le_n _) (le_n _) Hfx _ _ _ Hm Hm w0 st0 (le_n _) HG) _) end;
      try (intros; unfold cle in *; simpl in *; lia).
    - intros x vs' n' g' _ _. exists vs', n', g'. split; [eapply fork_transparent; eauto|]. split; [apply chg_refl|cl].
    - intros z1 Hz HT. unfold Tfin. tend_inv HT as (e & vs4 & n4 & g4 & St4 & Ch4 & Le4 & HE4 & ((E4 & Hn4 & Hl4 & HP4) & Hg4)). simpl in St4, Ch4. cbn [g_sc g_ce c0 ctx_of] in HE4.
      destruct fin as [x|]; simpl in HE4.
      + destruct (encR_some _ _ _ _ _ HE4) as (y & ->). apply Tend_of.
        exists (Some y), vs4, n4, g4. split; [eapply steps_trans; [exact St4|eapply fork_transparent; eauto]|].
        split; [exact Ch4|]. split; [exact Le4|]. split; [exact HE4|exact HP4].
      + subst e. unfold Jg, gf in Hg4.
        assert (StL : forall b, nth_error vs4 (base + nv) = Some (SV (VBool b)) ->
                  steps z1 (N sc (if b then S (S (S (S (S (S (S (S (S p1)))))))) else p1 + 11) (SV v :: st) fk vs4 n4 o g4)).
        { intros b Hb. eapply steps_trans; [exact St4|]. one st_popfork. one bt_fork_none.
          replace (p1 + 7) with (S (S (S (S (S (S (S p1))))))) by lia. one st_load.
          eapply steps_step; [eapply (st_jumpifnot nt code sc _ _ (VBool b)); eauto|]. destruct b; apply steps_refl. }
        destruct ts as [|t0 ts'].
        * eapply G_pre; [exact (StL false Hg4)|exact Ch4|exact Le4|].
          replace (S (S (S (S (S (S (S (S (S (S (S p1))))))))))) with (p1 + 11) in Hatb by lia.
          pose proof (IHb sc cur base Hfr ce (p1 + 11) n1 s1 cb n2 s2 Ec0 Hatb rho v st fk vs4 n4 n0 o ko g4 K K0 P) as HB. cbv zeta in HB.
          refine (G_sub nt code (ctx_of sc pend st fk (base + n1) (base + n2) o ko K K0 ce n0 (ctr g4)) c _ _
                    eq_refl eq_refl eq_refl eq_refl _ _ _ (le_n _) (le_n _) _ _ _ _ (HB _ _ _ _ _ _ _ _ _ _)); auto; try lia.
          -- simpl; intros; lia.
          -- simpl. simpl in Hz. destruct Le4; lia.
          -- intros s2'. tsub.
          -- eapply envOK_lim; eauto. lia.
          -- intros; apply HK1; lia.
          -- eapply stable_P_sub; [exact S1'|exact S2'|exact (fun i H => H)|lia|lia|lia].
        * exists None, vs4, n4, g4. split; [|split; [exact Ch4|split; [exact Le4|split; [reflexivity|exact HP4]]]].
          eapply steps_trans; [exact (StL true Hg4)|]. one st_backtrack. apply steps_refl. }
  unfold Tfin in HG2. destruct fin as [x|]; cbn [fst snd]; [exact HG2|].
  destruct ts as [|t0 ts'] eqn:Ets; cbn [fst snd]; [|exact HG2].
  apply G_app_nil. exact HG2.
Qed.

(* G_fold with the invariant J = Jstd /\ Jg, for contexts given by arbitrary own sets; Jf is the tail
   predicate the caller needs *)
Lemma fold_gen_lb : forall lb (c1 c : gctx) rho lim ol (P : list sv -> nat -> gx -> Prop) (X : Type) (Jg : X -> list sv -> Prop)
   (Jf : X -> list sv -> nat -> gx -> Prop)
   (fb : X -> jv -> list jv * option exn * X) (ownb0 : nat -> Prop) (ceb : cenv),
   let J := fun g a m x => Jstd (g_sc c) (g_ce c) rho (g_n0 c) lim ol P a m x /\ Jg g a in
   g_sc c1 = g_sc c -> g_base c1 = g_base c -> g_ce c1 = g_ce c -> g_n0 c1 = g_n0 c -> g_off c1 = g_off c -> g_ctr c1 = g_ctr c ->
   g_koff c1 = g_off c -> g_koff c <= g_off c ->
   (forall i, g_own c1 i -> g_own c i) -> (forall i, ownb0 i -> g_own c i /\ i < g_off c) -> (forall i, g_off c <= i -> g_own c i) ->
   (forall i, g_keep c1 i -> g_keep c i /\ ~ ownb0 i /\ i < g_off c) ->
   (forall i, g_keep0 c1 i -> g_keep0 c i /\ g_keep c i /\ ~ ownb0 i /\ i < g_off c) ->
   (forall i, kept (g_sc c) (g_ce c) i -> ~ g_own c i) ->
   ce_lbls ceb = ce_lbls (g_ce c) ->
   (forall a b m x m' x', P a m x -> chg (g_own c1) a b -> cle m x m' x' -> P b m' x') ->
   (forall g a b, Jg g a -> chg (g_own c1) a b -> Jg g b) ->
   (forall g a b m x m' x', Jf g a m x -> chg (g_own c1) a b -> cle m x m' x' -> Jf g b m' x') ->
   (forall g a m x, J g a m x -> Jf g a m x) ->
   (forall w g fk' vs n o x os xx g', J g vs n x -> g_off c <= o <= length vs -> g_ctr c <= ctr x ->
        Forall (fun f => g_ctr c <= f_ctr f) fk' -> fb g w = (os, xx, g') ->
        G (cbody c ownb0 ceb fk' o (ctr x)) os (TendL lb (cbody c ownb0 ceb fk' o (ctr x)) xx (wk fk' (J g') (Jf g')))
          (N (g_sc c) (g_pc c1) (SV w :: g_st c1) (fk' ++ g_base c) vs n o x)) ->
   forall ws1 g s fin1 os x g',
     G c1 ws1 (TendL lb c1 fin1 (fun _ _ _ => True)) s -> J g (vars_of s) (lbl_of s) (gx_of s) -> g_ctr c <= ctr (gx_of s) ->
     foldgen X fb ws1 g = (os, x, g') ->
     G c os (TendL lb c (match x with Some e => Some e | None => fin1 end) (Jf g')) s.
Proof.
  intros lb c1 c rho lim ol P X Jg Jf fb ownb0 ceb J Hsc Hb Hce Hn0 Hoff Hctr Hko1 Hko Ho1 Hob Hoo Hk1 Hk01 Hkept Hlb HP HJg HJf HJJ Hbody ws1 g s fin1 os x g' HA HJ Hct Ef.
  refine (G_fold nt code lb c1 c X J Jf fb ownb0 ceb Hsc Hb Hce Hn0 Hoff Hctr Hko1 Hko Ho1 Hob Hoo Hk1 Hk01 Hkept Hlb _ HJf HJJ _ Hbody ws1 g s fin1 os x g' HA HJ Hct Ef).
  - intros g0 p q m y m' y' [(E & Hn & Hl & Hp) Hg] C Hm. split; [|eapply HJg; eauto].
    split; [|split; [destruct Hm; lia|split; [destruct C; lia|eapply HP; eauto]]].
    eapply envOK_same; [exact E|]. intros k Hk. apply C. intro Hc1. apply (Hkept k Hk). auto.
  - intros g0 p m y [(E & _) _]. eapply envOK_lblOK; eauto.
Qed.

Definition fold_gen := fold_gen_lb (lbf tco fu).

Lemma Jstd_update_gen : forall sc ce rho n0 lim o (P : list sv -> nat -> gx -> Prop) vs n g k x vs',
  Jstd sc ce rho n0 lim o P vs n g -> update vs k x = Some vs' -> ~ kept sc ce k -> P vs' n g -> Jstd sc ce rho n0 lim o P vs' n g.
Proof.
  intros sc ce rho n0 lim o P vs n g k x vs' (E & Hn & Hl & Hp) U Hk Hp'.
  destruct (update_spec _ _ _ _ U) as (UL & UN & UO).
  split; [|split; [auto|split; [lia|auto]]].
  eapply envOK_same; [exact E|]. intros j Hj. symmetry. apply UO. intro; subst; auto.
Qed.

Lemma last_cons_default : forall (us : list jv) a d, last (a :: us) d = last us a.
Proof.
  induction us; intros a0 d; [reflexivity|].
  change (last (a0 :: a :: us) d) with (last (a :: us) d). rewrite (IHus a d).
  change (last (a :: us) a0) with (match us with [] => a | _ => last us a0 end).
  destruct us; [reflexivity|]. rewrite <- (IHus a a0). reflexivity.
Qed.

Lemma foldgen_last : forall us a, foldgen jv (fun (_ : jv) u => ([], None, u)) us a = ([], None, last us a).
Proof.
  induction us; intros a0; [reflexivity|].
  change (foldgen jv (fun (_ : jv) u => ([], None, u)) (a :: us) a0) with
    (let '(os', x', g'') := foldgen jv (fun (_ : jv) u => (@nil jv, @None exn, u)) us a in (@nil jv ++ os', x', g'')).
  rewrite IHus. simpl app. rewrite last_cons_default. reflexivity.
Qed.

Lemma reduce_foldgen : forall (updf : jv -> jv -> result) ws a,
  exists g, foldgen jv (fun a w => ([], snd (updf w a), last_or (fst (updf w a)) a)) ws a =
              ([], match reduce_fold updf ws a with inr e => Some e | inl _ => None end, g) /\
            (forall acc, reduce_fold updf ws a = inl acc -> g = acc).
Proof.
  intros updf. induction ws; intros a0; simpl.
  - exists a0. split; auto. intros acc H. inversion H; auto.
  - destruct (updf a a0) as [us [e|]] eqn:Eu; cbn [fst snd].
    + exists (last_or us a0). split; auto. intros acc H. discriminate.
    + destruct (IHws (last_or us a0)) as (g & Hf & Hg). rewrite Hf. exists g. split; auto.
Qed.

(* the variables bound by a pattern hold the values of its bindings (parallel lists, the last binding first) *)
Definition bound_ok (base cur lo hi : nat) (vs : list sv) (b : list (vname * var)) (bnds : venv) : Prop :=
  Forall2 (fun cb sb => fst cb = fst sb /\ exists k w, snd cb = (cur, k) /\ lo <= k < hi /\ snd sb = BV w /\
                        nth_error vs (base + k) = Some (SV w)) b bnds.
Lemma bound_ok_mono : forall base cur lo hi lo' hi' vs vs' b bnds, bound_ok base cur lo hi vs b bnds -> lo' <= lo -> hi <= hi' ->
  (forall k, lo <= k < hi -> nth_error vs' (base + k) = nth_error vs (base + k)) -> bound_ok base cur lo' hi' vs' b bnds.
Proof.
  intros base cur lo hi lo' hi' vs vs' b bnds H Hlo Hhi Hs. induction H as [|cb sb b' bnds' (E & k & w & Ek & Hk & Ew & Hn) _ IH]; constructor; auto.
  split; [exact E|]. exists k, w. split; [exact Ek|]. split; [lia|]. split; [exact Ew|]. rewrite Hs by lia. exact Hn.
Qed.
Lemma bound_ok_app : forall base cur lo hi vs b1 bnds1 b2 bnds2, bound_ok base cur lo hi vs b1 bnds1 -> bound_ok base cur lo hi vs b2 bnds2 ->
  bound_ok base cur lo hi vs (b1 ++ b2) (bnds1 ++ bnds2).
Proof. intros. apply Forall2_app; auto. Qed.

Definition pat_res (sc : list frame) (pc' : nat) (st : list sv) (fk : list fork) (n o : nat) (g : gx) (base cur lo hi : nat)
  (vs : list sv) (b : list (vname * var)) (r : venv + err0) (s : state) : Prop :=
  match r with
  | inl bnds => exists vs', steps s (N sc pc' st fk vs' n o g) /\ chg (fun i => base + lo <= i < base + hi) vs vs' /\
                            bound_ok base cur lo hi vs' b bnds
  | inr e => exists vs', steps s (B (Some (VE (err_of e))) fk vs' n g) /\ chg (fun i => base + lo <= i < base + hi) vs vs'
  end.

Lemma parr_match_cons : forall p r i w, parr_match nt (ACons p r) i w =
  match index_arr nt w i with
  | inl wi => match pmatch nt p wi with
              | inl b1 => match parr_match nt r (S i) w with inl b2 => inl (b2 ++ b1) | inr e => inr e end
              | inr e => inr e end
  | inr e => inr e
  end.
Proof. reflexivity. Qed.
Lemma pobj_match_key : forall k p r w, pobj_match nt (OKey k p r) w =
  match n_index nt w (VStr k) with
  | inl wk => match pmatch nt p wk with
              | inl b1 => match pobj_match nt r w with inl b2 => inl (b2 ++ b1) | inr e => inr e end
              | inr e => inr e end
  | inr e => inr e
  end.
Proof. reflexivity. Qed.
Lemma pobj_match_keyvar : forall k x p r w, pobj_match nt (OKeyVar k x p r) w =
  match n_index nt w (VStr k) with
  | inl wk => match pmatch nt p wk with
              | inl b1 => match pobj_match nt r w with inl b2 => inl (b2 ++ b1 ++ [(x, BV wk)]) | inr e => inr e end
              | inr e => inr e end
  | inr e => inr e
  end.
Proof. reflexivity. Qed.

Lemma pat_run : forall sc cur base, frameOK sc cur base ->
  (forall p nv c b n', pcomp p cur nv = (c, b, n') -> forall pc, code_at pc c ->
     forall w st fk vs n o g, base + n' <= length vs ->
     pat_res sc (pc + length c) st fk n o g base cur nv n' vs b (pmatch nt p w) (N sc pc (SV w :: st) fk vs n o g)) /\
  (forall l i kv nv c b n', parr_comp l i (cur, kv) cur nv = (c, b, n') -> kv < nv -> forall pc, code_at pc c ->
     forall w st fk vs n o g, base + n' <= length vs -> nth_error vs (base + kv) = Some (SV w) ->
     pat_res sc (pc + length c) st fk n o g base cur nv n' vs b (parr_match nt l i w) (N sc pc st fk vs n o g)) /\
  (forall l kv nv c b n', pobj_comp l (cur, kv) cur nv = (c, b, n') -> kv < nv -> forall pc, code_at pc c ->
     forall w st fk vs n o g, base + n' <= length vs -> nth_error vs (base + kv) = Some (SV w) ->
     pat_res sc (pc + length c) st fk n o g base cur nv n' vs b (pobj_match nt l w) (N sc pc st fk vs n o g)).
Proof.
  intros sc cur base Hfr. pose proof (frameOK_cur _ _ _ Hfr) as Hcur.
  apply pattern_mutind.
  - (* $x *)
    intros x nv c b n' Hc pc Hat w st fk vs n o g Hlen. simpl in Hc. inversion Hc; subst c b n'. clear Hc. uncons Hat A0.
    destruct (update_some vs (base + nv) (SV w)) as [vs1 U]; [lia|]. destruct (update_spec _ _ _ _ U) as (UL & UN & UO).
    cbn [pmatch parr_match pobj_match]. unfold pat_res. exists vs1. split; [simpl; replace (pc + 1) with (S pc) by lia; one st_store; apply steps_refl|].
    split; [eapply chg_update; [exact U|simpl; lia]|].
    constructor; [|constructor]. split; [reflexivity|]. exists nv, w. simpl. auto 6 with arith.
  - (* [ ... ] *)
    intros l IH nv c b n' Hc pc Hat w st fk vs n o g Hlen. simpl in Hc.
    destruct (parr_comp l 0 (cur, nv) cur (S nv)) as [[c0 b0] n0] eqn:E. inversion Hc; subst c b n'. clear Hc. uncons Hat A0.
    pose proof (proj1 (proj2 pcomp_nvars) _ _ _ _ _ _ _ _ E) as Mn.
    destruct (update_some vs (base + nv) (SV w)) as [vs1 U]; [lia|]. destruct (update_spec _ _ _ _ U) as (UL & UN & UO).
    pose proof (IH 0 nv (S nv) c0 b0 n0 E (le_n _) (S pc) Hat w st fk vs1 n o g ltac:(lia) UN) as HR.
    change (pmatch nt (PArr l) w) with (parr_match nt l 0 w). simpl length. replace (pc + S (length c0)) with (S pc + length c0) by lia.
    assert (C1 : chg (fun i => base + nv <= i < base + n0) vs vs1) by (eapply chg_update; [exact U|simpl; lia]).
    destruct (parr_match nt l 0 w) as [bnds|e]; unfold pat_res in *.
    + destruct HR as (vs' & St & Ch & Hb). exists vs'. split; [one st_store; exact St|].
      split; [eapply chg_trans; [exact C1|eapply chg_mono; [|exact Ch]; simpl; intros; lia]|].
      eapply bound_ok_mono; [exact Hb|lia|lia|auto].
    + destruct HR as (vs' & St & Ch). exists vs'. split; [one st_store; exact St|].
      eapply chg_trans; [exact C1|eapply chg_mono; [|exact Ch]; simpl; intros; lia].
  - (* { ... } *)
    intros l IH nv c b n' Hc pc Hat w st fk vs n o g Hlen. simpl in Hc.
    destruct (pobj_comp l (cur, nv) cur (S nv)) as [[c0 b0] n0] eqn:E. inversion Hc; subst c b n'. clear Hc. uncons Hat A0.
    pose proof (proj2 (proj2 pcomp_nvars) _ _ _ _ _ _ _ E) as Mn.
    destruct (update_some vs (base + nv) (SV w)) as [vs1 U]; [lia|]. destruct (update_spec _ _ _ _ U) as (UL & UN & UO).
    pose proof (IH nv (S nv) c0 b0 n0 E (le_n _) (S pc) Hat w st fk vs1 n o g ltac:(lia) UN) as HR.
    change (pmatch nt (PObj l) w) with (pobj_match nt l w). simpl length. replace (pc + S (length c0)) with (S pc + length c0) by lia.
    assert (C1 : chg (fun i => base + nv <= i < base + n0) vs vs1) by (eapply chg_update; [exact U|simpl; lia]).
    destruct (pobj_match nt l w) as [bnds|e]; unfold pat_res in *.
    + destruct HR as (vs' & St & Ch & Hb). exists vs'. split; [one st_store; exact St|].
      split; [eapply chg_trans; [exact C1|eapply chg_mono; [|exact Ch]; simpl; intros; lia]|].
      eapply bound_ok_mono; [exact Hb|lia|lia|auto].
    + destruct HR as (vs' & St & Ch). exists vs'. split; [one st_store; exact St|].
      eapply chg_trans; [exact C1|eapply chg_mono; [|exact Ch]; simpl; intros; lia].
  - (* no more elements *)
    intros i kv nv c b n' Hc Hkv pc Hat w st fk vs n o g Hlen Hv. simpl in Hc. inversion Hc; subst c b n'.
    cbn [pmatch parr_match pobj_match]. unfold pat_res. exists vs. simpl. rewrite Nat.add_0_r. split; [apply steps_refl|]. split; [apply chg_refl|constructor].
  - (* an element *)
    intros p IHp r IHr i kv nv c b n' Hc Hkv pc Hat w st fk vs n o g Hlen Hv. simpl in Hc.
    destruct (pcomp p cur nv) as [[c1 b1] n1] eqn:E1. destruct (parr_comp r (S i) (cur, kv) cur n1) as [[c2 b2] n2] eqn:E2.
    inversion Hc; subst c b n'. clear Hc.
    pose proof (proj1 pcomp_nvars _ _ _ _ _ _ E1) as M1. pose proof (proj1 (proj2 pcomp_nvars) _ _ _ _ _ _ _ _ E2) as M2.
    uncons Hat A0. uncons Hat A1. destruct (code_at_app _ _ _ _ Hat) as [Hat1 Hat2].
    rewrite parr_match_cons.
    assert (Epc : pc + length (Iload (cur, kv) :: Iindexarray i :: c1 ++ c2) = S (S pc) + length c1 + length c2) by (simpl; rewrite app_length; lia).
    rewrite Epc.
    destruct (index_arr nt w i) as [wi|e] eqn:Ei.
    2:{ unfold pat_res. exists vs. split; [eapply steps_step; [eapply st_load; [exact A0|apply Hcur|exact Hv]|]; one st_indexarray_err; apply steps_refl|apply chg_refl]. }
    pose proof (IHp nv c1 b1 n1 E1 (S (S pc)) Hat1 wi st fk vs n o g ltac:(lia)) as H1.
    destruct (pmatch nt p wi) as [bn1|e]; unfold pat_res in H1.
    2:{ destruct H1 as (vs1 & St1 & Ch1). unfold pat_res. exists vs1.
        split; [eapply steps_step; [eapply st_load; [exact A0|apply Hcur|exact Hv]|]; one st_indexarray_ok; exact St1|].
        eapply chg_mono; [|exact Ch1]. simpl; intros; lia. }
    destruct H1 as (vs1 & St1 & Ch1 & Hb1).
    assert (Hv1 : nth_error vs1 (base + kv) = Some (SV w)) by (rewrite <- (proj2 Ch1) by lia; exact Hv).
    pose proof (IHr (S i) kv n1 c2 b2 n2 E2 ltac:(lia) (S (S pc) + length c1) Hat2 w st fk vs1 n o g ltac:(destruct Ch1; lia) Hv1) as H2.
    destruct (parr_match nt r (S i) w) as [bn2|e]; unfold pat_res in H2 |- *.
    + destruct H2 as (vs2 & St2 & Ch2 & Hb2). exists vs2.
      split; [eapply steps_step; [eapply st_load; [exact A0|apply Hcur|exact Hv]|]; one st_indexarray_ok; eapply steps_trans; [exact St1|exact St2]|].
      split; [eapply chg_trans; eapply chg_mono; [|exact Ch1| |exact Ch2]; simpl; intros; lia|].
      apply bound_ok_app.
      * eapply bound_ok_mono; [exact Hb2|lia|lia|auto].
      * eapply bound_ok_mono; [exact Hb1|lia|lia|]. intros k Hk. symmetry. apply (proj2 Ch2). lia.
    + destruct H2 as (vs2 & St2 & Ch2). exists vs2.
      split; [eapply steps_step; [eapply st_load; [exact A0|apply Hcur|exact Hv]|]; one st_indexarray_ok; eapply steps_trans; [exact St1|exact St2]|].
      eapply chg_trans; eapply chg_mono; [|exact Ch1| |exact Ch2]; simpl; intros; lia.
  - (* no more entries *)
    intros kv nv c b n' Hc Hkv pc Hat w st fk vs n o g Hlen Hv. simpl in Hc. inversion Hc; subst c b n'.
    cbn [pmatch parr_match pobj_match]. unfold pat_res. exists vs. simpl. rewrite Nat.add_0_r. split; [apply steps_refl|]. split; [apply chg_refl|constructor].
  - (* k: p *)
    intros k p IHp r IHr kv nv c b n' Hc Hkv pc Hat w st fk vs n o g Hlen Hv. simpl in Hc.
    destruct (pcomp p cur nv) as [[c1 b1] n1] eqn:E1. destruct (pobj_comp r (cur, kv) cur n1) as [[c2 b2] n2] eqn:E2.
    inversion Hc; subst c b n'. clear Hc.
    pose proof (proj1 pcomp_nvars _ _ _ _ _ _ E1) as M1. pose proof (proj2 (proj2 pcomp_nvars) _ _ _ _ _ _ _ E2) as M2.
    uncons Hat A0. uncons Hat A1. destruct (code_at_app _ _ _ _ Hat) as [Hat1 Hat2].
    rewrite pobj_match_key.
    assert (Epc : pc + length (Iload (cur, kv) :: Iindex (VStr k) :: c1 ++ c2) = S (S pc) + length c1 + length c2) by (simpl; rewrite app_length; lia).
    rewrite Epc.
    destruct (n_index nt w (VStr k)) as [wi|e] eqn:Ei.
    2:{ unfold pat_res. exists vs. split; [eapply steps_step; [eapply st_load; [exact A0|apply Hcur|exact Hv]|]; one st_index_err; apply steps_refl|apply chg_refl]. }
    pose proof (IHp nv c1 b1 n1 E1 (S (S pc)) Hat1 wi st fk vs n o g ltac:(lia)) as H1.
    destruct (pmatch nt p wi) as [bn1|e]; unfold pat_res in H1.
    2:{ destruct H1 as (vs1 & St1 & Ch1). unfold pat_res. exists vs1.
        split; [eapply steps_step; [eapply st_load; [exact A0|apply Hcur|exact Hv]|]; one st_index_ok; exact St1|].
        eapply chg_mono; [|exact Ch1]. simpl; intros; lia. }
    destruct H1 as (vs1 & St1 & Ch1 & Hb1).
    assert (Hv1 : nth_error vs1 (base + kv) = Some (SV w)) by (rewrite <- (proj2 Ch1) by lia; exact Hv).
    pose proof (IHr kv n1 c2 b2 n2 E2 ltac:(lia) (S (S pc) + length c1) Hat2 w st fk vs1 n o g ltac:(destruct Ch1; lia) Hv1) as H2.
    destruct (pobj_match nt r w) as [bn2|e]; unfold pat_res in H2 |- *.
    + destruct H2 as (vs2 & St2 & Ch2 & Hb2). exists vs2.
      split; [eapply steps_step; [eapply st_load; [exact A0|apply Hcur|exact Hv]|]; one st_index_ok; eapply steps_trans; [exact St1|exact St2]|].
      split; [eapply chg_trans; eapply chg_mono; [|exact Ch1| |exact Ch2]; simpl; intros; lia|].
      apply bound_ok_app.
      * eapply bound_ok_mono; [exact Hb2|lia|lia|auto].
      * eapply bound_ok_mono; [exact Hb1|lia|lia|]. intros k0 Hk. symmetry. apply (proj2 Ch2). lia.
    + destruct H2 as (vs2 & St2 & Ch2). exists vs2.
      split; [eapply steps_step; [eapply st_load; [exact A0|apply Hcur|exact Hv]|]; one st_index_ok; eapply steps_trans; [exact St1|exact St2]|].
      eapply chg_trans; eapply chg_mono; [|exact Ch1| |exact Ch2]; simpl; intros; lia.
  - (* $x: p *)
    intros k x p IHp r IHr kv nv c b n' Hc Hkv pc Hat w st fk vs n o g Hlen Hv. simpl in Hc.
    destruct (pcomp p cur (S nv)) as [[c1 b1] n1] eqn:E1. destruct (pobj_comp r (cur, kv) cur n1) as [[c2 b2] n2] eqn:E2.
    inversion Hc; subst c b n'. clear Hc.
    pose proof (proj1 pcomp_nvars _ _ _ _ _ _ E1) as M1. pose proof (proj2 (proj2 pcomp_nvars) _ _ _ _ _ _ _ E2) as M2.
    uncons Hat A0. uncons Hat A1. uncons Hat A2. uncons Hat A3. destruct (code_at_app _ _ _ _ Hat) as [Hat1 Hat2].
    rewrite pobj_match_keyvar.
    assert (Epc : pc + length (Iload (cur, kv) :: Iindex (VStr k) :: Idup :: Istore (cur, nv) :: c1 ++ c2) = S (S (S (S pc))) + length c1 + length c2) by (simpl; rewrite app_length; lia).
    rewrite Epc.
    destruct (n_index nt w (VStr k)) as [wi|e] eqn:Ei.
    2:{ unfold pat_res. exists vs. split; [eapply steps_step; [eapply st_load; [exact A0|apply Hcur|exact Hv]|]; one st_index_err; apply steps_refl|apply chg_refl]. }
    destruct (update_some vs (base + nv) (SV wi)) as [vs0 U]; [lia|]. destruct (update_spec _ _ _ _ U) as (UL & UN & UO).
    assert (C0 : chg (fun i => base + nv <= i < base + n2) vs vs0) by (eapply chg_update; [exact U|simpl; lia]).
    assert (Hv0 : nth_error vs0 (base + kv) = Some (SV w)) by (rewrite UO by lia; exact Hv).
    assert (St0 : steps (N sc pc st fk vs n o g) (N sc (S (S (S (S pc)))) (SV wi :: st) fk vs0 n o g)).
    { eapply steps_step; [eapply st_load; [exact A0|apply Hcur|exact Hv]|]. one st_index_ok. one st_dup. one st_store. apply steps_refl. }
    pose proof (IHp (S nv) c1 b1 n1 E1 (S (S (S (S pc)))) Hat1 wi st fk vs0 n o g ltac:(lia)) as H1.
    destruct (pmatch nt p wi) as [bn1|e]; unfold pat_res in H1.
    2:{ destruct H1 as (vs1 & St1 & Ch1). unfold pat_res. exists vs1.
        split; [eapply steps_trans; [exact St0|exact St1]|].
        eapply chg_trans; [exact C0|]. eapply chg_mono; [|exact Ch1]. simpl; intros; lia. }
    destruct H1 as (vs1 & St1 & Ch1 & Hb1).
    assert (Hv1 : nth_error vs1 (base + kv) = Some (SV w)) by (rewrite <- (proj2 Ch1) by lia; exact Hv0).
    pose proof (IHr kv n1 c2 b2 n2 E2 ltac:(lia) (S (S (S (S pc))) + length c1) Hat2 w st fk vs1 n o g ltac:(destruct Ch1; lia) Hv1) as H2.
    destruct (pobj_match nt r w) as [bn2|e]; unfold pat_res in H2 |- *.
    + destruct H2 as (vs2 & St2 & Ch2 & Hb2). exists vs2.
      split; [eapply steps_trans; [exact St0|]; eapply steps_trans; [exact St1|exact St2]|].
      split; [eapply chg_trans; [exact C0|]; eapply chg_trans; eapply chg_mono; [|exact Ch1| |exact Ch2]; simpl; intros; lia|].
      apply bound_ok_app; [|apply bound_ok_app].
      * eapply bound_ok_mono; [exact Hb2|lia|lia|auto].
      * eapply bound_ok_mono; [exact Hb1|lia|lia|]. intros k0 Hk. symmetry. apply (proj2 Ch2). lia.
      * constructor; [|constructor]. split; [reflexivity|]. exists nv, wi. simpl. split; [reflexivity|]. split; [lia|]. split; [reflexivity|].
        rewrite <- (proj2 Ch2) by lia. rewrite <- (proj2 Ch1) by lia. exact UN.
    + destruct H2 as (vs2 & St2 & Ch2). exists vs2.
      split; [eapply steps_trans; [exact St0|]; eapply steps_trans; [exact St1|exact St2]|].
      eapply chg_trans; [exact C0|]. eapply chg_trans; eapply chg_mono; [|exact Ch1| |exact Ch2]; simpl; intros; lia.
Qed.

Lemma envOK_add_vars : forall sc cur base, (forall k, index_of sc (cur, k) = Some (base + k)) ->
  forall bs bnds ce rho vs n0 lim lo hi, bound_ok base cur lo hi vs bs bnds -> base + hi <= lim ->
  envOK sc ce rho vs n0 lim -> envOK sc (add_vars ce bs) (bnds ++ rho) vs n0 lim.
Proof.
  intros sc cur base Hcur bs bnds ce rho vs n0 lim lo hi Hb Hlim HE.
  induction Hb as [|[x y] [x' sb] b' bnds' (E & k & w & Ek & Hk & Ew & Hn) _ IH]; [exact HE|].
  simpl in *. subst x' y sb. eapply envOK_add_var; [exact IH|apply Hcur|lia|exact Hn].
Qed.
Lemma kept_add_vars : forall sc cur base, (forall k, index_of sc (cur, k) = Some (base + k)) ->
  forall bs bnds ce vs lo hi i, bound_ok base cur lo hi vs bs bnds -> kept sc (add_vars ce bs) i ->
  (exists k, lo <= k < hi /\ i = base + k) \/ kept sc ce i.
Proof.
  intros sc cur base Hcur bs bnds ce vs lo hi i Hb. induction Hb as [|[x y] [x' sb] b' bnds' (E & k & w & Ek & Hk & Ew & Hn) _ IH]; intros Hi; [right; exact Hi|].
  simpl in *. subst y. destruct (kept_add_var _ _ _ _ _ _ (Hcur k) Hi) as [->|Hi']; [left; exists k; auto|auto].
Qed.

(* the update of reduce/foreach: the pattern (compilePattern; a plain $x is one store), load the accumulator, run the
   update as a generator -- or the error of the pattern *)
Lemma upd_inner : forall qu, Impl qu -> forall sc cur base, frameOK sc cur base ->
  forall ce p n2 cp bs n2' p2 sn cu n3 sn',
  pcomp p cur n2 = (cp, bs, n2') -> code_at p2 cp ->
  comp qu (add_vars ce bs) cur (S (p2 + length cp)) n2' sn = Some (cu, n3, sn') -> code_at (S (p2 + length cp)) cu ->
  forall accs, at_ (p2 + length cp) (Iload (cur, accs)) ->
  forall rho w a st fk vs n n0 o g lim, accs < n2 -> lim <= base + n2 ->
  envOK sc ce rho vs n0 lim -> n0 <= n -> base + n3 <= o -> o <= length vs -> nth_error vs (base + accs) = Some (SV a) ->
  match pmatch nt p w with
  | inl bnds =>
      exists vs1, chg (fun i => base + n2 <= i < base + n2') vs vs1 /\
      steps (N sc p2 (SV w :: st) fk vs n o g) (N sc (S (p2 + length cp)) (SV a :: st) fk vs1 n o g) /\
      envOK sc (add_vars ce bs) (bnds ++ rho) vs1 n0 (base + n2') /\ nth_error vs1 (base + accs) = Some (SV a) /\
      bound_ok base cur n2 n2' vs1 bs bnds /\
      let c1 := ctx_of sc (S (p2 + length cp) + length cu) st fk (base + n2') (base + n3) o o
                  (fun i => base + n2' <= i < base + n3 \/ kept sc (add_vars ce bs) i) (fun _ => False) (add_vars ce bs) n0 (ctr g) in
      G c1 (fst (den qu (bnds ++ rho) a)) (Tend c1 (snd (den qu (bnds ++ rho) a)) (fun _ _ _ => True))
                   (N sc (S (p2 + length cp)) (SV a :: st) fk vs1 n o g)
  | inr e =>
      exists vs1, chg (fun i => base + n2 <= i < base + n2') vs vs1 /\
      steps (N sc p2 (SV w :: st) fk vs n o g) (B (Some (VE (err_of e))) fk vs1 n g)
  end.
Proof.
  intros qu IHu sc cur base Hfr ce p n2 cp bs n2' p2 sn cu n3 sn' Ep Hatp Eu Hatu accs A1 rho w a st fk vs n n0 o g lim Hacc Hlim HE Hn Ho Hl Ha.
  pose proof (frameOK_cur _ _ _ Hfr) as Hcur.
  destruct (comp_mono _ _ _ _ _ _ _ _ _ Eu) as [M _]. pose proof (proj1 pcomp_nvars _ _ _ _ _ _ Ep) as Mp.
  pose proof (proj1 (pat_run sc cur base Hfr) p n2 cp bs n2' Ep p2 Hatp w st fk vs n o g ltac:(lia)) as HR.
  destruct (pmatch nt p w) as [bnds|e]; unfold pat_res in HR.
  - destruct HR as (vs1 & St & Ch & Hb). exists vs1. split; [exact Ch|]. pose proof (proj1 Ch) as CL.
    assert (Ha1 : nth_error vs1 (base + accs) = Some (SV a)) by (rewrite <- (proj2 Ch) by lia; exact Ha).
    assert (HE1 : envOK sc (add_vars ce bs) (bnds ++ rho) vs1 n0 (base + n2')).
    { eapply envOK_add_vars; [exact Hcur|exact Hb|lia|].
      eapply envOK_lim; [|instantiate (1 := lim); lia].
      eapply envOK_same; [exact HE|]. intros k Hk. apply (proj2 Ch).
      pose proof (kept_lt _ _ _ _ _ _ _ HE Hk). lia. }
    split; [eapply steps_trans; [exact St|]; one st_load; apply steps_refl|]. split; [exact HE1|]. split; [exact Ha1|]. split; [exact Hb|].
    intros c1.
    apply (impl_inner qu IHu sc cur base Hfr (add_vars ce bs) (S (p2 + length cp)) n2' sn cu n3 sn' Eu Hatu (bnds ++ rho) a st fk vs1 n n0 o g); auto; try lia.
  - destruct HR as (vs1 & St & Ch). exists vs1. split; [exact Ch|exact St].
Qed.

(* the update phase of reduce/foreach for one source output w: the pattern; load acc; update; then, for every
   output u of the update, a body that maintains the accumulator (ghost) in slot nv of the current frame.
   K0C is what a continuation keeps after a forkless output at this level; JfC the tail the caller needs.  When the
   pattern does not match w the phase ends with that error (no update output) *)
Lemma upd_level : forall qu, Impl qu -> forall sc cur base, frameOK sc cur base ->
  forall ce p n2 cp bs n2' p2 sn cu n3 sn',
  pcomp p cur n2 = (cp, bs, n2') -> code_at p2 cp ->
  comp qu (add_vars ce bs) cur (S (p2 + length cp)) n2' sn = Some (cu, n3, sn') -> code_at (S (p2 + length cp)) cu ->
  forall nv, at_ (p2 + length cp) (Iload (cur, nv)) ->
  forall rho w st fk (K K0C : nat -> Prop) n0 hi o ko (P : list sv -> nat -> gx -> Prop) pcx (fbC : jv -> jv -> list jv * option exn * jv)
         (ownbC0 : nat -> Prop) oe y (JfC : jv -> list sv -> nat -> gx -> Prop),
  let ce3 := add_vars ce bs in
  let lo := base + nv in
  let P3 := Jstd sc ce rho n0 lo o P in
  let cC := {| g_sc := sc; g_pc := pcx; g_st := st; g_base := fk; g_own := fun i => i = lo \/ base + n2' <= i < hi \/ oe <= i;
               g_keep := K; g_keep0 := K0C; g_ce := ce3; g_n0 := n0; g_off := oe; g_koff := ko; g_ctr := ctr y |} in
  let cOut := {| g_sc := sc; g_pc := pcx; g_st := st; g_base := fk; g_own := fun i => (i = lo \/ base + n2 <= i < hi) \/ oe <= i;
                 g_keep := K; g_keep0 := K0C; g_ce := ce; g_n0 := n0; g_off := oe; g_koff := ko; g_ctr := ctr y |} in
  let JC := fun rho3 g a m z => Jstd sc ce3 rho3 n0 (base + n2') oe P3 a m z /\ nth_error a lo = Some (SV g) in
  nv < n2 -> base + n3 <= hi -> hi <= ko -> ko <= o -> o <= oe ->
  (forall i, lo <= i < hi -> K i) -> (forall i, kept sc ce i -> K i) -> (forall i, kept sc ce i -> i < lo) ->
  (forall (O : nat -> Prop) x y k h k' h', (forall i, O i -> lo <= i < hi \/ o <= i) -> P x k h -> chg O x y -> cle k h k' h' -> P y k' h') ->
  (forall i, ownbC0 i -> i = lo \/ base + n3 <= i < hi) ->
  (forall rho3 g a m z, JC rho3 g a m z -> JfC g a m z) ->
  (forall g a m z, Jstd sc ce rho n0 lo o P a m z -> nth_error a lo = Some (SV g) -> JfC g a m z) ->
  (forall g a b m z m' z', JfC g a m z -> chg (fun i => base + n2' <= i < base + n3 \/ oe <= i) a b -> cle m z m' z' -> JfC g b m' z') ->
  (forall bnds, pmatch nt p w = inl bnds -> (forall i, kept sc ce3 i -> base + n2 <= i < base + n2' \/ kept sc ce i) ->
     forall u g fk3 vs n o' z os xx g', JC (bnds ++ rho) g vs n z -> oe <= o' <= length vs -> ctr y <= ctr z ->
     Forall (fun f => ctr y <= f_ctr f) fk3 -> fbC g u = (os, xx, g') ->
     G (cbody cC ownbC0 ce3 fk3 o' (ctr z)) os (Tend (cbody cC ownbC0 ce3 fk3 o' (ctr z)) xx (wk fk3 (JC (bnds ++ rho) g') (JfC g')))
       (N sc (S (p2 + length cp) + length cu) (SV u :: st) (fk3 ++ fk) vs n o' z)) ->
  forall a vs n, Jstd sc ce rho n0 lo o P vs n y -> nth_error vs lo = Some (SV a) -> oe <= length vs ->
  forall updr, updr = match pmatch nt p w with inl bnds => den qu (bnds ++ rho) a | inr e => ([], Some (XErr e)) end ->
  forall os xx g', foldgen jv fbC (fst updr) a = (os, xx, g') ->
  G cOut os (Tend cOut (match xx with Some e => Some e | None => snd updr end) (JfC g'))
    (N sc p2 (SV w :: st) fk vs n oe y).
Proof.
  intros qu IHu sc cur base Hfr ce p n2 cp bs n2' p2 sn cu n3 sn' Ep Hatp Eu Hatu nv A1 rho w st fk K K0C n0 hi o ko P pcx fbC ownbC0 oe y JfC
         ce3 lo P3 cC cOut JC Hnv Hhi Hko Hoo Hoe HK1 HK2 Hkl S1' HobC HJJ HJ0f HJf1 HbodyC a vs n Hj Ha Hlen updr Eur os xx g' Ef. pose proof (frameOK_cur _ _ _ Hfr) as Hcur.
  destruct (comp_mono _ _ _ _ _ _ _ _ _ Eu) as [M _]. pose proof (proj1 pcomp_nvars _ _ _ _ _ _ Ep) as Mp. pose proof Hj as (E & Hn & Hl & Hp).
  pose proof (upd_inner qu IHu sc cur base Hfr ce p n2 cp bs n2' p2 sn cu n3 sn' Ep Hatp Eu Hatu nv A1 rho w a st fk vs n n0 oe y lo Hnv ltac:(unfold lo; lia)
              E Hn ltac:(lia) Hlen Ha) as HI.
  destruct (pmatch nt p w) as [bnds|e] eqn:Hpm; subst updr.
  2:{ destruct HI as (vs1 & Ch & St1). cbn [fst snd] in *. simpl in Ef. inversion Ef; subst os xx g'. clear Ef.
      eapply G_end; [exact St1|eapply chg_mono; [|exact Ch]; simpl; intros; lia|cl|reflexivity|].
      apply HJ0f; [|rewrite <- (proj2 Ch) by (unfold lo; lia); exact Ha].
      eapply (Jstd_chg' _ _ _ _ _ _ lo hi); [exact S1'| |exact Hj|exact Ch|apply cle_refl]. simpl; unfold lo; intros; lia. }
  destruct HI as (vs1 & Ch & St1 & HE1 & Ha1 & Hb & HU). cbv zeta in HU. pose proof (proj1 Ch) as CL.
  set (rho3 := bnds ++ rho) in *.
  assert (HP3 : P3 vs1 n y).
  { unfold P3. eapply (Jstd_chg' _ _ _ _ _ _ lo hi); [exact S1'| |exact Hj|exact Ch|apply cle_refl]. simpl; unfold lo; intros; lia. }
  assert (Hk3 : forall i, kept sc ce3 i -> base + n2 <= i < base + n2' \/ kept sc ce i).
  { intros i Hi. destruct (kept_add_vars sc cur base Hcur bs bnds ce vs1 n2 n2' i Hb Hi) as [(k & Hk & ->)|Hi']; [left; lia|right; exact Hi']. }
  assert (HG : G cC os (Tend cC (match xx with Some e => Some e | None => snd (den qu rho3 a) end) (JfC g'))
                 (N sc (S (p2 + length cp)) (SV a :: st) fk vs1 n oe y)).
  { refine (fold_gen (ctx_of sc (S (p2 + length cp) + length cu) st fk (base + n2') (base + n3) oe oe
                        (fun i => base + n2' <= i < base + n3 \/ kept sc ce3 i) (fun _ => False) ce3 n0 (ctr y))
              cC rho3 (base + n2') oe P3 jv (fun g a' => nth_error a' lo = Some (SV g)) JfC fbC ownbC0 ce3
              eq_refl eq_refl eq_refl eq_refl eq_refl eq_refl eq_refl _ _ _ _ _ _ _ eq_refl _ _ _ (HJJ rho3) (HbodyC bnds eq_refl Hk3) _ a _ _ os xx g' HU _ (le_n _) Ef).
    - simpl. lia.
    - simpl; intros; lia.
    - simpl. intros i Hi. apply HobC in Hi. unfold lo in *. lia.
    - simpl; intros; lia.
    - simpl. intros i [Hi|Hi].
      + split; [apply HK1; unfold lo; lia|]. split; [intro Ho; apply HobC in Ho; unfold lo in *; lia|lia].
      + destruct (Hk3 i Hi) as [Hr|Hi'].
        * split; [apply HK1; unfold lo; lia|]. split; [intro Ho; apply HobC in Ho; unfold lo in *; lia|lia].
        * pose proof (Hkl i Hi'). split; [apply HK2; auto|]. split; [intro Ho; apply HobC in Ho; unfold lo in *; lia|unfold lo in *; lia].
    - simpl. intros i [].
    - simpl. intros i Hi. destruct (Hk3 i Hi) as [Hr|Hi']; [unfold lo; lia|apply Hkl in Hi'; unfold lo in *; lia].
    - intros p0 q m z m' z' Hq C Hm. unfold P3 in *.
      eapply (Jstd_chg' _ _ _ _ _ _ lo hi); [exact S1'| |exact Hq|exact C|exact Hm]. simpl; unfold lo; intros; lia.
    - intros g p0 q Hg C. rewrite <- Hg. symmetry. apply C. simpl. unfold lo. lia.
    - exact HJf1.
    - simpl. split; [|exact Ha1]. split; [exact HE1|]. split; [exact Hn|]. split; [lia|exact HP3]. }
  eapply G_pre; [exact St1|eapply chg_mono; [|exact Ch]; simpl; intros; lia|cl|].
  refine (G_sub nt code cC cOut _ _ eq_refl eq_refl eq_refl eq_refl _ _ _ (le_n _) (le_n _) (le_n _) _ _ _ HG).
  - simpl; intros; lia.
  - intros o3 p0 q Kp. exact Kp.
  - intros p0 q Kp. exact Kp.
  - intros s0 HT. tend_inv HT as (e & vs4 & n4 & g4 & St4 & Ch4 & Le4 & HE4 & HJ4). apply Tend_of.
    exists e, vs4, n4, g4. split; [exact St4|]. split; [eapply chg_mono; [|exact Ch4]; simpl; intros; lia|].
    split; [exact Le4|]. split; [eapply encR_lbls; [|exact HE4]; simpl; unfold ce3; rewrite ?add_vars_lbls; reflexivity|exact HJ4].
Qed.

Lemma impl_reduce : forall qs pt qi qu, Impl qs -> Impl qi -> Impl qu -> Impl (QReduce qs pt qi qu).
Proof.
  intros qs pt qi qu IHs IHi IHu. impl_intro.
  destruct (comp_reduce_inv _ _ _ _ _ _ _ _ _ _ _ _ _ _ Hc) as (Hok & ci & n1 & s1 & cs & n2 & s2 & cp & bs & n2' & cu & Ec & Ec0 & Ep & En & Ec1 & Ecq). clear Hc.
  rename nv' into n3. rename sn' into s3.
  destruct (comp_mono _ _ _ _ _ _ _ _ _ Ec) as [M1 _]. destruct (comp_mono _ _ _ _ _ _ _ _ _ Ec0) as [M2 _].
  destruct (comp_mono _ _ _ _ _ _ _ _ _ Ec1) as [M3 _]. pose proof (proj1 pcomp_nvars _ _ _ _ _ _ Ep) as Mp.
  std_facts. pose proof (conj S1 S2) as HS. destruct (stable_sub _ _ _ _ _ _ _ _ _ _ _ _ _ _ HS) as [S1' S2'].
  assert (HJ0 : Jstd sc ce rho n0 (base + nv) o P vs n g) by (split; auto).
  set (q1 := S pc + length ci) in *.
  replace (pc + 1 + length ci) with q1 in * by (unfold q1; lia).
  replace (q1 + 2) with (S (S q1)) in * by lia.
  set (q2 := S (S q1) + length cs) in *.
  replace (q2 + length cp + 1) with (S (q2 + length cp)) in * by lia.
  set (q3 := S (q2 + length cp) + length cu) in *.
  replace (q3 + 2) with (S (S q3)) in * by lia.
  subst cq.
  uncons Hat A0. destruct (code_at_app _ _ _ _ Hat) as [Hati Hat2]. fold q1 in Hat2.
  uncons Hat2 A1. uncons Hat2 A2. destruct (code_at_app _ _ _ _ Hat2) as [Hats Hat3]. fold q2 in Hat3.
  destruct (code_at_app _ _ _ _ Hat3) as [Hatp Hat3']. uncons Hat3' A4. destruct (code_at_app _ _ _ _ Hat3') as [Hatu Hat4]. fold q3 in Hat4.
  uncons Hat4 A5. uncons Hat4 A6. uncons Hat4 A7. uncons Hat4 A8.
  subst c.
  match goal with |- context [ctx_of sc (pc + length ?l)] =>
    assert (Epc : pc + length l = S (S (S (S q3))))
      by (simpl; repeat (rewrite app_length; simpl); unfold q3, q2, q1; lia); rewrite Epc in * end.
  set (pend := S (S (S (S q3)))) in *.
  set (lo := base + nv) in *. set (hi := base + n3) in *.
  set (c := ctx_of sc pend st fk lo hi o ko K K0 ce n0 (ctr g)).
  cbn [Den.den1].
  set (updf := fun w acc => match pmatch nt pt w with inl bs0 => den qu (bs0 ++ rho) acc | inr e => ([], Some (XErr e)) end).
  match goal with |- G _ (fst (bind _ ?f)) _ _ => set (f0 := f) end.
  pose proof (impl_inner qi IHi sc cur base Hfr ce (S pc) (S nv) sn ci n1 s1 Ec Hati rho v (SV v :: st) fk vs n n0 o g
                ltac:(eapply envOK_lim; eauto; lia) Hn ltac:(unfold hi in *; lia) Hlen) as HA. cbv zeta in HA. fold q1 in HA.
  eapply G_pre; [one st_dup; apply steps_refl|apply chg_refl|cl|].
  refine (bind_std f0 (fun _ => True) sc q1 (SV v :: st) (base + S nv) (base + n1) pend st fk lo hi o ko K K0 ce n0 (ctr g) rho lo P
            (fun i => i = lo \/ base + n1 <= i < hi) ce HS ltac:(unfold lo; lia) ltac:(unfold hi; lia) Hko Hoo (le_n _) ltac:(unfold lo, hi; lia)
            Hkl HK1 HK2 HK0 _ eq_refl _ _ _ (den qi rho v) _ HA _ (le_n _)).
  { intros i [->|Hi]; unfold lo, hi in *; lia. }
  { auto. }
  { auto. }
  2:{ split; auto. }
  (* one accumulator start value s0 *)
  intros s0 fk' vs' n' o' z [Hj _] Ho' Ht' Hfk Hwk Hin. pose proof Hj as (E' & Hn' & Hl' & Hp').
  destruct (update_some vs' lo (SV s0)) as [vs1 U]; [unfold lo, hi in *; lia|].
  destruct (update_spec _ _ _ _ U) as (UL & UN & UO).
  assert (HJ1 : Jstd sc ce rho n0 lo o P vs1 n' z) by (eapply (Jstd_update _ _ _ _ _ _ lo hi); eauto; unfold lo, hi in *; lia).
  set (F0 := fk' ++ fk) in *.
  set (fx := F sc (S q1) (SV v :: st) o' (ctr z)).
  eapply G_pre; [one st_store; one st_fork; apply steps_refl|eapply chg_update; [exact U|simpl; auto]|cl|].
  pose proof HJ1 as (E1 & Hn1 & Hl1 & Hp1).
  pose proof (impl_inner qs IHs sc cur base Hfr ce (S (S q1)) n1 s1 cs n2 s2 Ec0 Hats rho v st (fx :: F0) vs1 n' n0 o' z
                ltac:(eapply envOK_lim; eauto; unfold lo; lia) Hn1 ltac:(unfold hi in *; lia) ltac:(lia)) as HB. cbv zeta in HB. fold q2 in HB.
  set (fbB := fun a w => (@nil jv, snd (updf w a), last_or (fst (updf w a)) a)).
  set (ownbB0 := fun i => i = lo \/ base + n2 <= i < hi).
  set (cB := {| g_sc := sc; g_pc := 0; g_st := st; g_base := fx :: F0; g_own := fun i => (i = lo \/ base + n1 <= i < hi) \/ o' <= i;
                g_keep := K; g_keep0 := K; g_ce := ce; g_n0 := n0; g_off := o'; g_koff := ko; g_ctr := ctr z |}).
  set (JgB := fun (a : jv) (a' : list sv) => nth_error a' lo = Some (SV a)).
  destruct (den qs rho v) as [ws sx] eqn:Eds. cbn [fst snd] in HB.
  destruct (reduce_foldgen updf ws s0) as (gB & EfB & HgB).
  assert (HGB : G cB [] (Tend cB (match (match reduce_fold updf ws s0 with inr e => Some e | inl _ => None end)
                                      with Some e => Some e | None => sx end)
                            (fun a' m y => Jstd sc ce rho n0 lo o P a' m y /\ JgB gB a'))
                  (N sc (S (S q1)) (SV v :: st) (fx :: F0) vs1 n' o' z)).
  { refine (fold_gen (ctx_of sc q2 st (fx :: F0) (base + n1) (base + n2) o' o' (fun i => base + n1 <= i < base + n2 \/ kept sc ce i) (fun _ => False) ce n0 (ctr z))
              cB rho lo o P jv JgB (fun a a' m y => Jstd sc ce rho n0 lo o P a' m y /\ JgB a a') fbB ownbB0 ce
              eq_refl eq_refl eq_refl eq_refl eq_refl eq_refl eq_refl _ _ _ _ _ _ _ eq_refl _ _ _ (fun _ _ _ _ H => H) _
              ws s0 _ sx [] _ gB HB _ (le_n _) EfB).
    - simpl. lia.
    - simpl. unfold hi. intros; lia.
    - simpl. unfold ownbB0, lo, hi in *. intros; lia.
    - simpl; intros; lia.
    - simpl. unfold ownbB0. intros i [Hi|Hi].
      + split; [apply HK1; unfold lo, hi; lia|]. split; [unfold lo, hi in *; lia|unfold hi in *; lia].
      + pose proof (Hkl i Hi). split; [apply HK2; auto|]. split; [unfold lo, hi in *; lia|unfold lo, hi in *; lia].
    - simpl. intros i [].
    - simpl. intros i Hi. apply Hkl in Hi. unfold lo, hi in *. lia.
    - intros p q m y m' y' Hq C Hm. eapply S1'; [|exact Hq|exact C|exact Hm]. simpl; unfold lo, hi; intros; lia.
    - intros a p q Hg C. unfold JgB in *. rewrite <- Hg. symmetry. apply C. simpl. unfold lo. lia.
    - intros a p q m y m' y' [Hq Hg] C Hm. split.
      + eapply (Jstd_chg' _ _ _ _ _ _ lo hi); [exact S1'| |exact Hq|exact C|exact Hm]. simpl; unfold lo, hi; intros; lia.
      + unfold JgB in *. rewrite <- Hg. symmetry. apply C. simpl. unfold lo. lia.
    - (* one source output w, accumulator a *)
      intros w a fk2 vs2 m2 o2 z2 os2 x2 g2 [Hj2 Hg2] Ho2 Ht2 Hfk2 Efb. unfold fbB in Efb. inversion Efb; subst os2 x2 g2. clear Efb.
      rewrite wk_same.
      pose proof (foldgen_last (fst (updf w a)) a) as EfC.
      pose proof (upd_level qu IHu sc cur base Hfr ce pt n2 cp bs n2' q2 s2 cu n3 s3 Ep Hatp Ec1 Hatu nv A4 rho w st (fk2 ++ fx :: F0) K
                (match fk2 with [] => K | _ :: _ => K end) n0 hi o ko P 0
                (fun (_ : jv) u => ([], None, u)) (fun i => i = lo) o2 z2
                (fun a0 a' m y => Jstd sc ce rho n0 lo o P a' m y /\ JgB a0 a')) as HU. cbv zeta in HU. fold lo in HU.
      refine (HU ltac:(lia) (le_n _) Hko Hoo ltac:(simpl in Ho2; lia) HK1 HK2 Hkl S1' _ _ _ _ _ a vs2 m2 Hj2 Hg2 ltac:(simpl in Ho2; lia) _ eq_refl [] None _ EfC).
      + intros i ->. auto.
      + intros rho3 a0 p0 m y [(_ & _ & _ & Hp3) Hg]. split; auto.
      + intros a0 p0 m y Hq Hg. split; auto.
      + intros a0 p0 q m y m' y' [Hq Hg] C Hm. split.
        * eapply (Jstd_chg' _ _ _ _ _ _ lo hi); [exact S1'| |exact Hq|exact C|exact Hm]. simpl; unfold lo, hi in *; simpl in Ho2; intros; lia.
        * unfold JgB in *. rewrite <- Hg. symmetry. apply C. simpl. unfold lo. simpl in Ho2. lia.
      + intros bnds Hpm Hk3 u g3 fk3 vs3 m3 o3 z3 os3 x3 g3' [Hj3 Hg3] Ho3 Ht3 Hfk3 Efc. inversion Efc; subst os3 x3 g3'. clear Efc.
        pose proof Hj3 as (E3 & Hn3 & Hl3 & Hp3).
        destruct (update_some vs3 lo (SV u)) as [vs4 U4]; [unfold lo, hi in *; simpl in Ho2; lia|].
        destruct (update_spec _ _ _ _ U4) as (UL4 & UN4 & UO4).
        eapply G_end; [one st_store; one st_backtrack; apply steps_refl
                      |eapply chg_update; [exact U4|simpl; auto]|cl|reflexivity|].
        apply wk_intro; [intros p0 m y [(_ & _ & _ & Hp3') Hg']; split; auto|].
        split; [|exact UN4].
        eapply Jstd_update_gen; [exact Hj3|exact U4| |].
        * intros Hk. apply Hk3 in Hk. destruct Hk as [Hk|Hk]; [unfold lo in *; lia|apply Hkl in Hk; lia].
        * eapply (Jstd_update _ _ _ _ _ _ lo hi); [exact S1'|exact Hp3|exact U4|unfold lo, hi; lia|lia].
    - split; [exact HJ1|exact UN]. }
  (* the reduction is over: back to the fork of reduce *)
  destruct HGB as (s' & St & Ch & Le & HT). simpl in Ch, Le.
  unfold f0. try rewrite Eds. fold updf. cbv beta iota.
  destruct (Tend_inv _ _ _ _ _ _ _ HT) as [[EF HFu]|(e & vs4 & n4 & g4 & St4 & Ch4 & Le4 & HE4 & ((E4 & Hn4 & Hl4 & HP4) & Hg4))].
  { destruct (reduce_fold updf ws s0) as [acc|ex]; [destruct sx as [ex|]; [|discriminate EF]|]; inversion EF; subst; cbn [fst snd];
      apply G_of_fuel; (eapply Tfuel_pre; [exact St|]); (eapply Tfuel_mono; [|exact HFu]); ctrle. }
  simpl in St4, Ch4. cbn [g_sc g_ce cB] in HE4.
  assert (Ch' : chg (fun i => (i = lo \/ base + n1 <= i < hi) \/ o' <= i) vs1 vs4) by (eapply chg_trans; eauto).
  assert (Le' : cle n' z n4 g4) by (eapply cle_trans; eauto).
  assert (HJ4 : Jstd sc ce rho n0 lo o P vs4 n4 g4 /\ True) by (split; [split|]; auto).
  destruct (reduce_fold updf ws s0) as [acc|ex] eqn:Erf.
  - destruct sx as [ex|]; simpl in HE4; cbn [fst snd].
    + destruct (encR_some _ _ _ _ _ HE4) as (y & ->).
      eapply G_end; [eapply steps_trans; [exact St|eapply steps_trans; [exact St4|eapply fork_transparent; eauto]]
                    |exact Ch'|exact Le'|exact HE4|apply Hin; exact HJ4].
    + subst e. rewrite (HgB acc eq_refl) in Hg4.
      eapply G_single with (vs3 := vs4) (n3 := n4) (o3 := o') (g3 := g4);
        [eapply steps_trans; [exact St|eapply steps_trans; [exact St4|]]|exact Ch'|exact Le'|simpl; destruct Ch' as [L _]; simpl in Ho'; lia|].
      * one st_popfork. one bt_fork_none. one st_pop. one st_load. apply steps_refl.
      * intros vs5 n5 g5 Kp L5. eapply Hwk; [apply Hin; exact HJ4|exact Kp|exact L5].
  - simpl in HE4. cbn [fst snd]. destruct (encR_some _ _ _ _ _ HE4) as (y & ->).
    eapply G_end; [eapply steps_trans; [exact St|eapply steps_trans; [exact St4|eapply fork_transparent; eauto]]
                  |exact Ch'|exact Le'|exact HE4|apply Hin; exact HJ4].
Qed.

Lemma foreach_upd_foldgen : forall (ext : jv -> result) us a,
  foldgen jv (fun (_ : jv) u => (fst (ext u), snd (ext u), u)) us a =
  (fst (fst (foreach_upd ext us a)), snd (fst (foreach_upd ext us a)), snd (foreach_upd ext us a)).
Proof.
  intros ext. induction us; intros a0; simpl; auto.
  destruct (ext a) as [os [e|]]; cbn [fst snd]; auto.
  rewrite IHus. destruct (foreach_upd ext us a) as [[os' x'] acc']. reflexivity.
Qed.

Definition foreach_step (updf : jv -> jv -> result) (extf : jv -> jv -> result) (a w : jv) : list jv * option exn * jv :=
  let r := foreach_upd (extf w) (fst (updf w a)) a in
  (fst (fst r), match snd (fst r) with Some e => Some e | None => snd (updf w a) end, snd r).

Lemma foreach_foldgen : forall updf extf ws a,
  exists g, foldgen jv (foreach_step updf extf) ws a =
            (fst (foreach_fold updf extf ws a), snd (foreach_fold updf extf ws a), g).
Proof.
  intros updf extf. induction ws; intros a0.
  - simpl. eauto.
  - change (foldgen jv (foreach_step updf extf) (a :: ws) a0) with
      (let '(os, x, g') := foreach_step updf extf a0 a in
       match x with
       | Some e => (os, Some e, g')
       | None => let '(os', x', g'') := foldgen jv (foreach_step updf extf) ws g' in (os ++ os', x', g'')
       end).
    unfold foreach_step. simpl foreach_fold.
    destruct (updf a a0) as [us ux]. cbn [fst snd].
    destruct (foreach_upd (extf a) us a0) as [[os [e|]] acc']; cbn [fst snd].
    + eauto.
    + destruct ux as [e|]; cbn [fst snd]; [eauto|].
      destruct (IHws acc') as (g & Hg). unfold foreach_step in Hg. rewrite Hg. exists g.
      destruct (foreach_fold updf extf ws acc') as [os' x']. reflexivity.
Qed.


Lemma impl_foreach : forall qs pt qi qu ext, Impl qs -> Impl qi -> Impl qu -> Popt Impl ext -> Impl (QForeach qs pt qi qu ext).
Proof.
  intros qs pt qi qu ext IHs IHi IHu IHx. impl_intro.
  destruct (comp_foreach_inv _ _ _ _ _ _ _ _ _ _ _ _ _ _ _ Hc) as (Hok & ci & n1 & s1 & cs & n2 & s2 & cp & bs & n2' & cu & n3 & s3 & cx & Ec & Ec0 & Ep & En & Ec1 & Hx & ->). clear Hc.
  cbn [tl_fb] in Hx.
  destruct (comp_mono _ _ _ _ _ _ _ _ _ Ec) as [M1 _]. destruct (comp_mono _ _ _ _ _ _ _ _ _ Ec0) as [M2 _].
  destruct (comp_mono _ _ _ _ _ _ _ _ _ Ec1) as [M3 _]. pose proof (proj1 pcomp_nvars _ _ _ _ _ _ Ep) as Mp.
  assert (M4 : n3 <= nv').
  { destruct ext as [e|]; [exact (proj1 (comp_mono _ _ _ _ _ _ _ _ _ Hx))|destruct Hx as (_ & -> & _); lia]. }
  set (q1 := S pc + length ci) in *.
  replace (pc + 1 + length ci) with q1 in * by (unfold q1; lia).
  replace (q1 + 1) with (S q1) in * by lia.
  set (q2 := S q1 + length cs) in *.
  replace (q2 + length cp + 1) with (S (q2 + length cp)) in * by lia.
  set (q3 := S (q2 + length cp) + length cu) in *.
  replace (q3 + 2) with (S (S q3)) in * by lia.
  set (ce3 := add_vars ce bs) in *.
  std_facts. pose proof (conj S1 S2) as HS. destruct (stable_sub _ _ _ _ _ _ _ _ _ _ _ _ _ _ HS) as [S1' S2'].
  assert (HJ0 : Jstd sc ce rho n0 (base + nv) o P vs n g) by (split; auto).
  uncons Hat A0. destruct (code_at_app _ _ _ _ Hat) as [Hati Hat2]. fold q1 in Hat2.
  uncons Hat2 A1. destruct (code_at_app _ _ _ _ Hat2) as [Hats Hat3]. fold q2 in Hat3.
  destruct (code_at_app _ _ _ _ Hat3) as [Hatp Hat3']. uncons Hat3' A4. destruct (code_at_app _ _ _ _ Hat3') as [Hatu Hat4]. fold q3 in Hat4.
  uncons Hat4 A5. uncons Hat4 A6. rename Hat4 into Hatx.
  subst c.
  match goal with |- context [ctx_of sc (pc + length ?l)] =>
    assert (Epc : pc + length l = S (S q3) + length cx)
      by (simpl; repeat (rewrite app_length; simpl); unfold q3, q2, q1; lia); rewrite Epc in * end.
  set (pend := S (S q3) + length cx) in *.
  set (lo := base + nv) in *. set (hi := base + nv') in *.
  set (c := ctx_of sc pend st fk lo hi o ko K K0 ce n0 (ctr g)).
  cbn [Den.den1].
  set (updf := fun w acc => match pmatch nt pt w with inl bs0 => den qu (bs0 ++ rho) acc | inr e => ([], Some (XErr e)) end).
  set (extf := fun w u => match ext with
                          | Some e => match pmatch nt pt w with inl bs0 => den e (bs0 ++ rho) u | inr e0 => ([], Some (XErr e0)) end
                          | None => ([u], None) end).
  match goal with |- G _ (fst (bind _ ?f)) _ _ => set (f0 := f) end.
  pose proof (impl_inner qi IHi sc cur base Hfr ce (S pc) (S nv) sn ci n1 s1 Ec Hati rho v (SV v :: st) fk vs n n0 o g
                ltac:(eapply envOK_lim; eauto; lia) Hn ltac:(unfold hi in *; lia) Hlen) as HA. cbv zeta in HA. fold q1 in HA.
  eapply G_pre; [one st_dup; apply steps_refl|apply chg_refl|cl|].
  refine (bind_std f0 (fun _ => True) sc q1 (SV v :: st) (base + S nv) (base + n1) pend st fk lo hi o ko K K0 ce n0 (ctr g) rho lo P
            (fun i => i = lo \/ base + n1 <= i < hi) ce HS ltac:(unfold lo; lia) ltac:(unfold hi; lia) Hko Hoo (le_n _) ltac:(unfold lo, hi; lia)
            Hkl HK1 HK2 HK0 _ eq_refl _ _ _ (den qi rho v) _ HA _ (le_n _)).
  { intros i [->|Hi]; unfold lo, hi in *; lia. }
  { auto. }
  { auto. }
  2:{ split; auto. }
  intros s0 fk' vs' n' o' z [Hj _] Ho' Ht' Hfk Hwk Hin. pose proof Hj as (E' & Hn' & Hl' & Hp').
  destruct (update_some vs' lo (SV s0)) as [vs1 U]; [unfold lo, hi in *; lia|].
  destruct (update_spec _ _ _ _ U) as (UL & UN & UO).
  assert (HJ1 : Jstd sc ce rho n0 lo o P vs1 n' z) by (eapply (Jstd_update _ _ _ _ _ _ lo hi); eauto; unfold lo, hi in *; lia).
  set (F0 := fk' ++ fk) in *.
  eapply G_pre; [one st_store; apply steps_refl|eapply chg_update; [exact U|simpl; auto]|cl|].
  pose proof HJ1 as (E1 & Hn1 & Hl1 & Hp1).
  pose proof (impl_inner qs IHs sc cur base Hfr ce (S q1) n1 s1 cs n2 s2 Ec0 Hats rho v st F0 vs1 n' n0 o' z
                ltac:(eapply envOK_lim; eauto; unfold lo; lia) Hn1 ltac:(unfold hi in *; lia) ltac:(lia)) as HB. cbv zeta in HB. fold q2 in HB.
  set (cB := cbody c (fun i => i = lo \/ base + n1 <= i < hi) ce fk' o' (ctr z)).
  set (KB := match fk' with [] => K0 | _ :: _ => K end).
  set (JgB := fun (a : jv) (a' : list sv) => nth_error a' lo = Some (SV a)).
  set (JA := fun a' m (y : gx) => Jstd sc ce rho n0 lo o P a' m y /\ True).
  set (JfA := fun a' m (y : gx) => P a' m y /\ True).
  set (TA := wk fk' JA JfA).
  set (JB := fun (a : jv) a' m (y : gx) => Jstd sc ce rho n0 lo o P a' m y /\ JgB a a').
  (* facts about the invariants of the three levels *)
  assert (HKB : forall i, KB i -> K i) by (intros i Hi; exact (wk_K _ _ _ _ HK0 Hi)).
  assert (JAchg : forall (O : nat -> Prop), (forall i, O i -> lo <= i < hi \/ o <= i) ->
            forall p q m y m' y', JA p m y -> chg O p q -> cle m y m' y' -> JA q m' y').
  { intros O HO p q m y m' y' [Hq _] C Hm. split; auto.
    eapply (Jstd_chg' _ _ _ _ _ _ lo hi); [exact S1'| |exact Hq|exact C|exact Hm]. intros i Hi. split; [auto|]. apply HO in Hi. unfold lo in *. lia. }
  assert (JfAchg : forall (O : nat -> Prop), (forall i, O i -> lo <= i < hi \/ o <= i) ->
            forall p q m y m' y', JfA p m y -> chg O p q -> cle m y m' y' -> JfA q m' y').
  { intros O HO p q m y m' y' [Hq _] C Hm. split; auto. eapply S1'; eauto. }
  assert (TAchg : forall (O : nat -> Prop), (forall i, O i -> lo <= i < hi \/ o <= i) ->
            forall p q m y m' y', TA p m y -> chg O p q -> cle m y m' y' -> TA q m' y').
  { intros O HO. apply wk_chg; [apply JAchg; auto|apply JfAchg; auto]. }
  assert (JAK : forall p q m y m' y', JA p m y -> keepX K p q -> cle m y m' y' -> JA q m' y').
  { intros p q m y m' y' [Hq _] C Hm. split; auto. exact (Jstd_stable_cx _ _ _ _ _ _ _ _ _ _ _ S1' S2' HK2 HK0 _ _ _ _ _ _ Hq C Hm). }
  assert (JfAK : forall p q m y m' y', JfA p m y -> keepX K0 p q -> cle m y m' y' -> JfA q m' y').
  { intros p q m y m' y' [Hq _] C Hm. split; auto. exact (S2' K0 _ _ _ _ _ _ (fun i H => H) Hq C Hm). }
  assert (TAK : forall p q m y m' y', TA p m y -> keepX KB p q -> cle m y m' y' -> TA q m' y').
  { unfold TA, KB. destruct fk'; simpl; auto. }
  assert (JBchg : forall (O : nat -> Prop), (forall i, O i -> lo < i /\ (lo <= i < hi \/ o <= i)) ->
            forall a p q m y m' y', JB a p m y -> chg O p q -> cle m y m' y' -> JB a q m' y').
  { intros O HO a p q m y m' y' [Hq Hg] C Hm. split.
    - eapply (Jstd_chg' _ _ _ _ _ _ lo hi); [exact S1'| |exact Hq|exact C|exact Hm]. intros i Hi. apply HO in Hi. unfold lo in *. split; [tauto|lia].
    - unfold JgB in *. rewrite <- Hg. symmetry. apply C. intro Hi. apply HO in Hi. lia. }
  assert (JBK : forall a p q m y m' y', JB a p m y -> keepX K p q -> cle m y m' y' -> JB a q m' y').
  { intros a p q m y m' y' [Hq Hg] C Hm. split.
    - exact (Jstd_stable_cx _ _ _ _ _ _ _ _ _ _ _ S1' S2' HK2 HK0 _ _ _ _ _ _ Hq C Hm).
    - unfold JgB in *. rewrite <- Hg. symmetry. apply C. apply HK1. unfold lo, hi in *. lia. }
  assert (JBTA : forall a p m y, JB a p m y -> TA p m y).
  { intros a p m y [Hq _]. apply wk_intro; [intros p' m'' y' [(_ & _ & _ & Hp'') _]; split; auto|split; auto]. }
  destruct (den qs rho v) as [ws sx] eqn:Eds. cbn [fst snd] in HB.
  destruct (foreach_foldgen updf extf ws s0) as (gB & EfB).
  assert (HGB : G cB (fst (foreach_fold updf extf ws s0))
                  (Tend cB (match snd (foreach_fold updf extf ws s0) with Some e => Some e | None => sx end) TA)
                  (N sc (S q1) (SV v :: st) F0 vs1 n' o' z)).
  { refine (fold_gen (ctx_of sc q2 st F0 (base + n1) (base + n2) o' o' (fun i => base + n1 <= i < base + n2 \/ kept sc ce i) (fun _ => False) ce n0 (ctr z))
              cB rho lo o P jv JgB (fun _ => TA) (foreach_step updf extf) (fun i => i = lo \/ base + n2 <= i < hi) ce
              eq_refl eq_refl eq_refl eq_refl eq_refl eq_refl eq_refl _ _ _ _ _ _ _ eq_refl _ _ _ JBTA _
              ws s0 _ sx _ _ gB HB _ (le_n _) EfB).
    - simpl. lia.
    - simpl. unfold hi. intros; lia.
    - simpl. unfold lo, hi in *. intros; lia.
    - simpl; intros; lia.
    - simpl. intros i [Hi|Hi].
      + split; [apply HK1; unfold lo, hi; lia|]. split; [unfold lo, hi in *; lia|unfold hi in *; lia].
      + pose proof (Hkl i Hi). split; [apply HK2; auto|]. split; [unfold lo, hi in *; lia|unfold lo, hi in *; lia].
    - simpl. intros i [].
    - simpl. intros i Hi. apply Hkl in Hi. unfold lo, hi in *. lia.
    - intros p q m y m' y' Hq C Hm. eapply S1'; [|exact Hq|exact C|exact Hm]. simpl; unfold lo, hi; intros; lia.
    - intros a p q Hg C. unfold JgB in *. rewrite <- Hg. symmetry. apply C. simpl. unfold lo. lia.
    - intros _ p q m y m' y' Hq C Hm. eapply TAchg; [|exact Hq|exact C|exact Hm]. simpl; unfold lo, hi; intros; lia.
    - (* one source output w, accumulator a *)
      intros w a fk2 vs2 m2 o2 z2 os2 x2 g2 [Hj2 Hg2] Ho2 Ht2 Hfk2 Efb. unfold foreach_step in Efb. simpl in Ho2.
      pose proof (foreach_upd_foldgen (extf w) (fst (updf w a)) a) as EfC.
      inversion Efb; subst os2 x2 g2. clear Efb.
      set (KC := match fk2 with [] => KB | _ :: _ => K end).
      set (TB := fun (a0 : jv) => wk fk2 (JB a0) TA).
      assert (HKC : forall i, KC i -> K i) by (intros i Hi; exact (wk_K _ _ _ _ HKB Hi)).
      assert (TBK : forall a0 p q m y m' y', TB a0 p m y -> keepX KC p q -> cle m y m' y' -> TB a0 q m' y').
      { intros a0. unfold TB, KC. destruct fk2; simpl; [apply TAK|apply JBK]. }
      assert (TBchg : forall (O : nat -> Prop), (forall i, O i -> lo < i /\ (lo <= i < hi \/ o <= i)) ->
                forall a0 p q m y m' y', TB a0 p m y -> chg O p q -> cle m y m' y' -> TB a0 q m' y').
      { intros O HO a0. apply wk_chg; [apply JBchg; auto|apply TAchg; intros i Hi; apply HO in Hi; tauto]. }
      pose proof (upd_level qu IHu sc cur base Hfr ce pt n2 cp bs n2' q2 s2 cu n3 s3 Ep Hatp Ec1 Hatu nv A4 rho w st (fk2 ++ F0) K KC n0 hi o ko P pend
                (fun (_ : jv) u => (fst (extf w u), snd (extf w u), u)) (fun i => i = lo \/ base + n3 <= i < hi) o2 z2 TB) as HU.
      cbv zeta in HU. fold lo in HU.
      refine (HU ltac:(lia) ltac:(unfold hi; lia) Hko Hoo ltac:(simpl in Ho2; lia) HK1 HK2 Hkl S1' _ _ _ _ _ a vs2 m2 Hj2 Hg2 ltac:(simpl in Ho2; lia) _ eq_refl _ _ _ EfC).
      + intros i Hi. exact Hi.
      + intros rho3 a0 p m y [(_ & _ & _ & Hp3) Hg]. apply wk_intro; [apply JBTA|split; auto].
      + intros a0 p m y Hq Hg. apply wk_intro; [apply JBTA|split; auto].
      + intros a0 p q m y m' y' Hq C Hm. eapply TBchg; [|exact Hq|exact C|exact Hm]. simpl. unfold lo, hi in *. intros; lia.
      + (* one update output u: dup; store acc; extract *)
        intros bnds Hpm Hk3 u g3 fk3 vs3 m3 o3 z3 os3 x3 g3' [Hj3 Hg3] Ho3 Ht3 Hfk3 Efc. inversion Efc; subst os3 x3 g3'. clear Efc. simpl in Ho3, Ht3.
        pose proof Hj3 as (E3 & Hn3 & Hl3 & Hp3).
        destruct (update_some vs3 lo (SV u)) as [vs4 U4]; [unfold lo, hi in *; simpl in Ho2; lia|].
        destruct (update_spec _ _ _ _ U4) as (UL4 & UN4 & UO4).
        assert (Hnk : ~ kept sc ce3 lo).
        { intros Hk. apply Hk3 in Hk. destruct Hk as [Hk|Hk]; [unfold lo in *; lia|apply Hkl in Hk; lia]. }
        set (P3 := Jstd sc ce rho n0 lo o P) in *.
        assert (HJ4 : Jstd sc ce3 (bnds ++ rho) n0 (base + n2') o2 P3 vs4 m3 z3).
        { eapply Jstd_update_gen; [exact Hj3|exact U4|exact Hnk|].
          eapply (Jstd_update _ _ _ _ _ _ lo hi); [exact S1'|exact Hp3|exact U4|unfold lo, hi; lia|lia]. }
        eapply G_pre; [one st_dup; one st_store; apply steps_refl|eapply chg_update; [exact U4|simpl; auto]|cl|].
        set (JC := fun a' m (y : gx) => Jstd sc ce3 (bnds ++ rho) n0 (base + n2') o2 P3 a' m y /\ nth_error a' lo = Some (SV u)).
        assert (JCk : forall p q m y m' y', JC p m y -> keepX K p q -> cle m y m' y' -> JC q m' y').
        { intros p q m y m' y' [(Eq & Hnq & Hlq & Hpq) Hgq] Kp Hm. split.
          - split; [eapply envOK_keep; [exact Eq|exact Kp|]|].
            + intros i Hi. apply Hk3 in Hi. destruct Hi as [Hi|Hi]; [apply HK1; unfold lo, hi; lia|auto].
            + split; [destruct Hm; lia|]. split; [destruct Kp; lia|].
              exact (Jstd_stable_cx _ _ _ _ _ _ _ _ _ _ _ S1' S2' HK2 HK0 _ _ _ _ _ _ Hpq Kp Hm).
          - rewrite <- Hgq. symmetry. apply Kp. apply HK1. unfold lo, hi. lia. }
        assert (JCTB : forall p m y, JC p m y -> TB u p m y).
        { intros p m y [(_ & _ & _ & Hp3') Hg]. apply wk_intro; [apply JBTA|split; auto]. }
        set (PD := wk fk3 JC (TB u)).
        assert (PDK : forall p q m y m' y', PD p m y -> keepX (match fk3 with [] => KC | _ :: _ => K end) p q -> cle m y m' y' -> PD q m' y').
        { unfold PD. destruct fk3; simpl; [apply TBK|apply JCk]. }
        assert (PD0 : PD vs4 m3 z3) by (apply wk_intro; [exact JCTB|split; [exact HJ4|exact UN4]]).
        unfold extf. destruct ext as [e|]; [rewrite Hpm|].
        * set (cbx := cbody {| g_sc := sc; g_pc := pend; g_st := st; g_base := fk2 ++ F0;
                               g_own := fun i => i = lo \/ base + n2' <= i < hi \/ o2 <= i;
                               g_keep := K; g_keep0 := KC; g_ce := ce3; g_n0 := n0; g_off := o2; g_koff := ko; g_ctr := ctr z2 |}
                            (fun i => i = lo \/ base + n3 <= i < hi) ce3 fk3 o3 (ctr z3)).
          apply (impl_body fu e IHx sc cur base Hfr ce3 (S (S q3)) n3 s3 cx nv' sn' Hx Hatx cbx
                   (bnds ++ rho) u vs4 m3 o3 z3 PD); subst cbx; simpl.
          -- reflexivity.
          -- reflexivity.
          -- reflexivity.
          -- reflexivity.
          -- intros i [Hi|Hi]; [left; right; unfold hi; lia|right; lia].
          -- intros; apply HK1; unfold lo, hi; lia.
          -- intros i Hi. apply Hk3 in Hi. destruct Hi as [Hi|Hi]; [apply HK1; unfold lo, hi; lia|auto].
          -- intros i Hi. exact (wk_K _ _ _ _ HKC Hi).
          -- destruct HJ4 as (E4 & _). eapply envOK_lim; eauto. lia.
          -- lia.
          -- unfold hi in *. lia.
          -- simpl in Ho2. lia.
          -- lia.
          -- lia.
          -- unfold PD. apply wk_chg.
             ++ intros p q m y m' y' [(Eq & Hnq & Hlq & Hpq) Hgq] C Hm. split.
                ** split; [eapply envOK_chg; [exact Eq|exact C|simpl; intros; unfold hi in *; lia]|]. split; [destruct Hm; lia|]. split; [destruct C; lia|].
                   unfold P3 in *. eapply (Jstd_chg' _ _ _ _ _ _ lo hi); [exact S1'| |exact Hpq|exact C|exact Hm]. simpl; unfold lo, hi; intros; lia.
                ** rewrite <- Hgq. symmetry. apply C. unfold lo. lia.
             ++ intros p q m y m' y' Hq C Hm. eapply TBchg; [|exact Hq|exact C|exact Hm]. simpl. unfold lo, hi in *. simpl in Ho2. intros; lia.
          -- exact PDK.
          -- exact PD0.
        * destruct Hx as (-> & -> & _). cbn [fst snd].
          eapply G_single with (o3 := o3); [simpl g_pc; simpl g_st; simpl g_base; simpl g_sc; unfold pend; simpl; rewrite Nat.add_0_r; apply steps_refl
                           |apply chg_refl|cl|simpl; destruct (update_spec _ _ _ _ U4); lia|].
          intros vs5 n5 g5 Kp L5. exact (PDK _ _ _ _ _ _ PD0 Kp L5).
    - split; [exact HJ1|exact UN]. }
  unfold f0. try rewrite Eds. fold updf. fold extf. cbv beta iota.
  destruct (foreach_fold updf extf ws s0) as [os [ex|]] eqn:Eff; cbn [seq fst snd] in *.
  - exact HGB.
  - rewrite app_nil_r. exact HGB.
Qed.

(* ---- calls: closures (function definitions called through pushpc / callpc) and user-defined functions ---- *)

(* entering a function at its opscope with the locals (callpc, index) = (rpc, idx): the callee runs in a new frame
   above the current offset, linked to the captured scope idx; opret pops the frame, continues after the call and,
   when no fork created since the frame was pushed is pending, gives its variables back.  Whatever the callee's
   code does is given as a generator towards its opret *)
Lemma G_leave : forall sc, sc <> [] -> forall idf o rpc stamp outer pr nvc, at_ pr Iret ->
  forall cx cec (P : list sv -> nat -> gx -> Prop),
    g_sc cx = sc -> g_pc cx = S rpc -> g_off cx <= o -> (forall i, o <= i -> g_own cx i) -> g_koff cx <= o -> g_ctr cx <= stamp ->
    let sc' := Frame idf o rpc stamp sc outer :: sc in
    let K' := fun i => g_keep cx i \/ o <= i < o + nvc in
    let c' := ctx_of sc' pr (g_st cx) (g_base cx) (o + 0) (o + nvc) (o + nvc) (o + nvc) K' (g_keep0 cx) cec (g_n0 cx) (S stamp) in
    (forall vs0 fin e, encR sc' cec vs0 fin e -> encR sc (g_ce cx) vs0 fin e) ->
    forall lb lb', lb' <= S lb ->
    forall ws fin s, G c' ws (TendL lb c' fin P) s -> G cx ws (TendL lb' cx fin P) s.
Proof.
  intros sc Hne idf o rpc stamp outer pr nvc A2 cx cec P Hsc Hpc Hoff Hown Hko Hct sc' K' c' Henc lb lb' Hlb.
  assert (Hoc : forall i, g_own c' i -> g_own cx i) by (simpl; intros i Hi; apply Hown; lia).
  assert (Tc : forall fin s, TendL lb c' fin P s -> TendL lb' cx fin P s).
  { intros fin s HT. destruct (Tend_inv _ _ _ _ _ _ _ HT) as [[-> HFu]|(e & vs4 & n4 & g4 & St4 & Ch4 & Le4 & HE4 & HP4)];
      [apply Tend_fuel; eapply Tfuel_mono; [|exact HFu]; simpl; lia|]. apply Tend_of. exists e, vs4, n4, g4.
    split; [exact St4|]. split; [exact (chg_mono _ _ _ _ Hoc Ch4)|]. split; [exact Le4|]. split; [|exact HP4].
    rewrite Hsc. apply Henc. exact HE4. }
  induction ws as [|w ws IHws]; intros fin s HG.
  - destruct HG as (s' & St & Ch & Le & HT). exists s'. split; [exact St|]. split; [exact (chg_mono _ _ _ _ Hoc Ch)|].
    split; [exact Le|apply Tc; exact HT].
  - simpl in HG. destruct HG as (fk' & vs3 & n3 & o3 & g3 & St & Ch & Le & [Ho Hfk] & R).
    assert (Hfk' : Forall (fun f => g_ctr cx <= f_ctr f) fk').
    { eapply Forall_impl; [|exact Hfk]. simpl. intros f Hf. lia. }
    destruct fk' as [|f0 fk0].
    + destruct R as [E R].
      exists [], vs3, n3, (if (match [] ++ g_base cx with [] => true | f :: _ => f_ctr f <=? stamp end) then o else o3), g3.
      split. { eapply steps_trans; [exact St|]. eapply steps_step; [|apply steps_refl]. rewrite Hsc, Hpc. eapply st_ret; [exact A2|exact Hne]. }
      split; [exact (chg_mono _ _ _ _ Hoc Ch)|]. split; [exact Le|].
      split. { split; [|exact Hfk']. simpl in Ho. destruct (match [] ++ g_base cx with [] => true | f :: _ => f_ctr f <=? stamp end); lia. }
      split; [exact E|]. intros vs2 n2 g2 Kp L2. apply Tc. apply R; [exact Kp|exact L2].
    + assert (Hnf : (f_ctr f0 <=? stamp) = false).
      { apply Nat.leb_gt. inversion Hfk; subst. simpl in H1. lia. }
      exists (f0 :: fk0), vs3, n3, o3, g3.
      split. { eapply steps_trans; [exact St|]. eapply steps_step; [|apply steps_refl]. rewrite Hsc, Hpc.
               etransitivity; [eapply st_ret; [exact A2|exact Hne]|]. simpl. rewrite Hnf. reflexivity. }
      split; [exact (chg_mono _ _ _ _ Hoc Ch)|]. split; [exact Le|].
      split. { split; [|exact Hfk']. simpl in Ho. lia. }
      intros vs2 n2 g2 Kp L2.
      assert (Kp' : keepS c' o3 vs3 vs2).
      { eapply keepX_mono; [|exact Kp]. simpl. unfold K'. simpl in Ho. intros i [[Hi|Hi]|Hi]; [left; auto|right; lia|right; lia]. }
      destruct (R vs2 n2 g2 Kp' L2) as [R1 R2]. split; [apply IHws; exact R1|].
      intros x Hx. destruct (R2 x Hx) as (vs4 & n4 & g4 & St4 & Ch4 & Le4). exists vs4, n4, g4.
      split; [exact St4|]. split; [exact (chg_mono _ _ _ _ Hoc Ch4)|exact Le4].
Qed.

Lemma G_enter : forall sc cur base, frameOK sc cur base ->
  forall idx pe idf nvc na pr, at_ pe (Iscope idf nvc na) -> at_ pr Iret ->
  forall cx cec (P : list sv -> nat -> gx -> Prop) stk vs n o g rpc,
    g_sc cx = sc -> g_pc cx = S rpc -> g_off cx = o ->
    (forall i, o <= i -> g_own cx i) -> g_koff cx <= o -> o <= length vs -> g_ctr cx <= ctr g ->
    creg g = (Some rpc, idx) ->
    let sc' := Frame idf o rpc (ctr g) sc (outer_of sc idf idx) :: sc in
    let vs' := grow vs (o + nvc) in
    let g1 := {| ctr := S (ctr g); creg := creg g |} in
    let K' := fun i => g_keep cx i \/ o <= i < o + nvc in
    let c' := ctx_of sc' pr (g_st cx) (g_base cx) (o + 0) (o + nvc) (o + nvc) (o + nvc) K' (g_keep0 cx) cec (g_n0 cx) (ctr g1) in
    (forall vs0 fin e, encR sc' cec vs0 fin e -> encR sc (g_ce cx) vs0 fin e) ->
    forall lb lb', lb' <= S lb ->
    forall ws fin, G c' ws (TendL lb c' fin P) (N sc' (S pe) stk (g_base cx) vs' n (o + nvc) g1) ->
    G cx ws (TendL lb' cx fin P) (N sc pe stk (g_base cx) vs n o g).
Proof.
  intros sc cur base Hfr idx pe idf nvc na pr A1 A2 cx cec P stk vs n o g rpc Hsc Hpc Hoff Hown Hko Hlen Hct Hcr sc' vs' g1 K' c' Henc lb lb' Hlb ws0 fin0 HG0.
  assert (Hne : sc <> []) by (eapply frameOK_ne; eauto).
  assert (St0 : steps (N sc pe stk (g_base cx) vs n o g) (N sc' (S pe) stk (g_base cx) vs' n (o + nvc) g1)).
  { eapply steps_step; [eapply st_scope; [exact A1|exact Hcr]|]. apply steps_refl. }
  eapply G_pre; [exact St0| |unfold g1; cl|].
  { simpl. split; [apply grow_len_le|]. intros i Hi. symmetry. apply grow_nth.
    destruct (Nat.lt_ge_cases i (length vs)) as [Hl|Hl]; [exact Hl|]. exfalso. apply Hi, Hown. lia. }
  apply (G_leave sc Hne idf o rpc (ctr g) (outer_of sc idf idx) pr nvc A2 cx cec P Hsc Hpc ltac:(lia) Hown Hko Hct Henc lb lb' Hlb). exact HG0.
Qed.

(* the same entry through opcallrec, executed in a frame F1 (an activation of the same function) whose caller is
   described by cx: opscope first pops F1 (giving its slots back when no fork created since its push is pending) and
   pushes the new frame with F1's return pc and saveindex; the callee's outputs go directly to F1's caller *)
Lemma G_enter_rec : forall scR, scR <> [] ->
  forall pe idf nvc na pr, at_ pe (Iscope idf nvc na) -> at_ pr Iret ->
  forall cx cec (P : list sv -> nat -> gx -> Prop) stk vs n o g rpc id1 oF stampF outerF tl idx,
    g_sc cx = scR -> g_pc cx = S rpc -> g_off cx <= oF -> oF <= o ->
    (forall i, oF <= i -> g_own cx i) -> g_koff cx <= oF -> o <= length vs -> g_ctr cx <= ctr g ->
    creg g = (None, idx) ->
    let o2 := if (match g_base cx with [] => true | f :: _ => f_ctr f <=? stampF end) then oF else o in
    let sc' := Frame idf o2 rpc (ctr g) scR (outer_of scR idf idx) :: scR in
    let vs' := grow vs (o2 + nvc) in
    let g1 := {| ctr := S (ctr g); creg := creg g |} in
    let K' := fun i => g_keep cx i \/ o2 <= i < o2 + nvc in
    let c' := ctx_of sc' pr (g_st cx) (g_base cx) (o2 + 0) (o2 + nvc) (o2 + nvc) (o2 + nvc) K' (g_keep0 cx) cec (g_n0 cx) (ctr g1) in
    (forall vs0 fin e, encR sc' cec vs0 fin e -> encR scR (g_ce cx) vs0 fin e) ->
    forall lb lb', lb' <= S lb ->
    forall ws fin, G c' ws (TendL lb c' fin P) (N sc' (S pe) stk (g_base cx) vs' n (o2 + nvc) g1) ->
    G cx ws (TendL lb' cx fin P) (N (Frame id1 oF rpc stampF scR outerF :: tl) pe stk (g_base cx) vs n o g).
Proof.
  intros scR Hne pe idf nvc na pr A1 A2 cx cec P stk vs n o g rpc id1 oF stampF outerF tl idx Hsc Hpc Hoff HoF Hown Hko Hlen Hct Hcr
         o2 sc' vs' g1 K' c' Henc lb lb' Hlb ws0 fin0 HG0.
  assert (Ho2 : oF <= o2 <= o) by (unfold o2; destruct (match g_base cx with [] => true | f :: _ => f_ctr f <=? stampF end); lia).
  assert (St0 : steps (N (Frame id1 oF rpc stampF scR outerF :: tl) pe stk (g_base cx) vs n o g)
                      (N sc' (S pe) stk (g_base cx) vs' n (o2 + nvc) g1)).
  { eapply steps_step; [eapply st_scope_rec; [exact A1|exact Hcr]|]. apply steps_refl. }
  eapply G_pre; [exact St0| |unfold g1; cl|].
  { simpl. split; [apply grow_len_le|]. intros i Hi. symmetry. apply grow_nth.
    destruct (Nat.lt_ge_cases i (length vs)) as [Hl|Hl]; [exact Hl|]. exfalso. apply Hi, Hown. lia. }
  apply (G_leave scR Hne idf o2 rpc (ctr g) (outer_of scR idf idx) pr nvc A2 cx cec P Hsc Hpc ltac:(lia)
           ltac:(intros i Hi; apply Hown; lia) ltac:(lia) Hct Henc lb lb' Hlb). exact HG0.
Qed.

(* the callee is the code of a query (a closure, a parameterless function): its environment ce must be valid in
   the captured scope idx (its slots belong to scopes older than the callee's) *)

(* ---- a call in tail position (optimizeTailRec): local soundness of opcallrec ----
   F1 = Frame id1 oF rpc stampF scR outerF is the frame on top; cx describes F1's caller (scope chain scR, exit after
   the call that created F1).  G_enter_le / G_body_in: the two halves of G_call, the entry with [g_off cx <= o]. *)
Lemma G_enter_le : forall sc cur base, frameOK sc cur base ->
  forall idx pe idf nvc na pr, at_ pe (Iscope idf nvc na) -> at_ pr Iret ->
  forall cx cec (P : list sv -> nat -> gx -> Prop) stk vs n o g rpc,
    g_sc cx = sc -> g_pc cx = S rpc -> g_off cx <= o ->
    (forall i, o <= i -> g_own cx i) -> g_koff cx <= o -> o <= length vs -> g_ctr cx <= ctr g ->
    creg g = (Some rpc, idx) ->
    let sc' := Frame idf o rpc (ctr g) sc (outer_of sc idf idx) :: sc in
    let vs' := grow vs (o + nvc) in
    let g1 := {| ctr := S (ctr g); creg := creg g |} in
    let K' := fun i => g_keep cx i \/ o <= i < o + nvc in
    let c' := ctx_of sc' pr (g_st cx) (g_base cx) (o + 0) (o + nvc) (o + nvc) (o + nvc) K' (g_keep0 cx) cec (g_n0 cx) (ctr g1) in
    (forall vs0 fin e, encR sc' cec vs0 fin e -> encR sc (g_ce cx) vs0 fin e) ->
    forall lb lb', lb' <= S lb ->
    forall ws fin, G c' ws (TendL lb c' fin P) (N sc' (S pe) stk (g_base cx) vs' n (o + nvc) g1) ->
    G cx ws (TendL lb' cx fin P) (N sc pe stk (g_base cx) vs n o g).
Proof.
  intros sc cur base Hfr idx pe idf nvc na pr A1 A2 cx cec P stk vs n o g rpc Hsc Hpc Hoff Hown Hko Hlen Hct Hcr sc' vs' g1 K' c' Henc lb lb' Hlb ws0 fin0 HG0.
  assert (Hne : sc <> []) by (eapply frameOK_ne; eauto).
  assert (St0 : steps (N sc pe stk (g_base cx) vs n o g) (N sc' (S pe) stk (g_base cx) vs' n (o + nvc) g1)).
  { eapply steps_step; [eapply st_scope; [exact A1|exact Hcr]|]. apply steps_refl. }
  eapply G_pre; [exact St0| |unfold g1; cl|].
  { simpl. split; [apply grow_len_le|]. intros i Hi. symmetry. apply grow_nth.
    destruct (Nat.lt_ge_cases i (length vs)) as [Hl|Hl]; [exact Hl|]. exfalso. apply Hi, Hown. lia. }
  apply (G_leave sc Hne idf o rpc (ctr g) (outer_of sc idf idx) pr nvc A2 cx cec P Hsc Hpc Hoff Hown Hko Hct Henc lb lb' Hlb). exact HG0.
Qed.

Lemma G_body_in : forall m q, Lemmas.Impl nt code tco m q ->
  forall idx ce pe idf cb nvc s0 s1, ce_lt ce idf = true ->
  comp q ce idf (S pe) 0 s0 = Some (cb, nvc, s1) -> code_at (S pe) cb ->
  forall sc' o, frameOK sc' idf o -> pushed idx idf sc' ->
  forall (K K0 : nat -> Prop) st fk n0 rho v (P : list sv -> nat -> gx -> Prop) vs vs' n g1 lim,
    envOK idx ce rho vs n0 lim -> lim <= o -> (forall a, a < lim -> nth_error vs' a = nth_error vs a) ->
    n0 <= n -> o + nvc <= length vs' ->
    (forall i, kept idx ce i -> K i) -> (forall i, K0 i -> K i) ->
    let K' := fun i => K i \/ o <= i < o + nvc in
    let c' := ctx_of sc' (S pe + length cb) st fk (o + 0) (o + nvc) (o + nvc) (o + nvc) K' K0 ce n0 (ctr g1) in
    (forall a b m0 x m' x', P a m0 x -> chg (fun i => o <= i) a b -> cle m0 x m' x' -> P b m' x') ->
    (forall a b m0 x m' x', P a m0 x -> keepX K0 a b -> cle m0 x m' x' -> P b m' x') ->
    P vs' n g1 ->
    G c' (fst (den1 nt (call_of nt m) q rho v)) (TendL (lbf tco m) c' (snd (den1 nt (call_of nt m) q rho v)) P)
      (N sc' (S pe) (SV v :: st) fk vs' n (o + nvc) g1).
Proof.
  intros m q IH idx ce pe idf cb nvc s0 s1 Hce Ec Hatc sc' o Hfr' Hps K K0 st fk n0 rho v P vs vs' n g1 lim HE Hlim Hag Hn Hl' HK2 HK0 K' c' HP1 HP2 HP.
  assert (HE' : envOK sc' ce rho vs' n0 (o + 0)).
  { rewrite Nat.add_0_r. eapply envOK_lim; [|exact Hlim]. eapply envOK_pushed; eauto. }
  apply (IH sc' idf o Hfr' ce (S pe) 0 s0 cb nvc s1 Ec Hatc rho v st fk vs' n n0 (o + nvc) (o + nvc) g1 K' K0 P HE' Hn (le_n _) (le_n _) Hl').
  - intros i Hi. right. lia.
  - intros i Hi. left. apply HK2. eapply kept_pushed; eauto.
  - intros i Hi. left. apply HK0. exact Hi.
  - split.
    + intros a b m0 x m' x' Hp C Hm. eapply HP1; [exact Hp| |exact Hm]. eapply chg_mono; [|exact C]. simpl; intros; lia.
    + intros a b m0 x m' x' Hp C Hm. eapply HP2; [exact Hp|exact C|exact Hm].
  - exact HP.
Qed.

(* entered by opcallrec from F1 *)
Lemma G_call_rec : forall m q, Lemmas.Impl nt code tco m q -> forall scR, scR <> [] ->
  forall idx ce pe idf cb nvc s0 s1, ce_lt ce idf = true -> at_ pe (Iscope idf nvc 0) ->
  comp q ce idf (S pe) 0 s0 = Some (cb, nvc, s1) -> code_at (S pe) (cb ++ [Iret]) ->
  forall cx rho v (P : list sv -> nat -> gx -> Prop) vs n o g rpc id1 oF stampF outerF tl,
    g_sc cx = scR -> g_pc cx = S rpc -> g_off cx <= oF -> oF <= o ->
    (forall vs' fin e, encR idx ce vs' fin e -> encR scR (g_ce cx) vs' fin e) ->
    (forall i, oF <= i -> g_own cx i) -> (forall i, kept idx ce i -> g_keep cx i) -> (forall i, g_keep0 cx i -> g_keep cx i) ->
    g_koff cx <= oF -> envOK idx ce rho vs (g_n0 cx) oF -> g_n0 cx <= n -> o <= length vs -> g_ctr cx <= ctr g ->
    creg g = (None, idx) ->
    (forall a b m0 x m' x', P a m0 x -> chg (fun i => oF <= i) a b -> cle m0 x m' x' -> P b m' x') ->
    (forall a b m0 x m' x', P a m0 x -> keepK0 cx a b -> cle m0 x m' x' -> P b m' x') ->
    P vs n g ->
    forall lb', lb' <= S (lbf tco m) ->
    G cx (fst (den1 nt (call_of nt m) q rho v)) (TendL lb' cx (snd (den1 nt (call_of nt m) q rho v)) P)
      (N (Frame id1 oF rpc stampF scR outerF :: tl) pe (SV v :: g_st cx) (g_base cx) vs n o g).
Proof.
  intros m q IH scR Hne idx ce pe idf cb nvc s0 s1 Hce A1 Ec Hat cx rho v P vs n o g rpc id1 oF stampF outerF tl
         Hsc Hpc Hoff HoF Henc Hown HK2 HK0 Hko HE Hn Hlen Hct Hcr HP1 HP2 HP lb' Hlb.
  destruct (code_at_app _ _ _ _ Hat) as [Hatc Hat2]. uncons Hat2 A2.
  set (pr := S pe + length cb) in *.
  set (o2 := if (match g_base cx with [] => true | f :: _ => f_ctr f <=? stampF end) then oF else o).
  assert (Ho2 : oF <= o2 <= o) by (unfold o2; destruct (match g_base cx with [] => true | f :: _ => f_ctr f <=? stampF end); lia).
  set (sc' := Frame idf o2 rpc (ctr g) scR (outer_of scR idf idx) :: scR).
  set (vs' := grow vs (o2 + nvc)).
  set (g1 := {| ctr := S (ctr g); creg := creg g |}).
  assert (Hps : pushed idx idf sc') by (exists o2, rpc, (ctr g), scR, scR; reflexivity).
  refine (G_enter_rec scR Hne pe idf nvc 0 pr A1 A2 cx ce P (SV v :: g_st cx) vs n o g rpc id1 oF stampF outerF tl idx
           Hsc Hpc Hoff HoF Hown Hko Hlen Hct Hcr _ (lbf tco m) lb' Hlb _ _ _).
  - intros vs0 fin e HEn. apply Henc. eapply encR_pushed; eauto.
  - fold o2 sc' vs' g1.
    assert (Hfr' : frameOK sc' idf o2) by (exists rpc, (ctr g), scR, (outer_of scR idf idx), scR; reflexivity).
    apply (G_body_in m q IH idx ce pe idf cb nvc s0 s1 Hce Ec Hatc sc' o2 Hfr' Hps (g_keep cx) (g_keep0 cx) (g_st cx) (g_base cx) (g_n0 cx)
             rho v P vs vs' n g1 oF HE ltac:(lia)); auto.
    + intros a Ha. apply grow_nth. lia.
    + apply grow_len.
    + intros a b m0 x m' x' Hp C Hm. eapply HP1; [exact Hp| |exact Hm]. eapply chg_mono; [|exact C]. simpl; intros; lia.
    + eapply HP1; [exact HP| |unfold g1; cl]. split; [apply grow_len_le|]. intros i Hi. symmetry. apply grow_nth. lia.
Qed.

(* entered by an ordinary call (the [g_off cx <= o] form of G_call) *)
Lemma G_call_le : forall m q, Lemmas.Impl nt code tco m q -> forall sc cur base, frameOK sc cur base ->
  forall idx ce pe idf cb nvc s0 s1, ce_lt ce idf = true -> at_ pe (Iscope idf nvc 0) ->
  comp q ce idf (S pe) 0 s0 = Some (cb, nvc, s1) -> code_at (S pe) (cb ++ [Iret]) ->
  forall cx rho v (P : list sv -> nat -> gx -> Prop) vs n o g rpc,
    g_sc cx = sc -> g_pc cx = S rpc -> g_off cx <= o ->
    (forall vs' fin e, encR idx ce vs' fin e -> encR sc (g_ce cx) vs' fin e) ->
    (forall i, o <= i -> g_own cx i) -> (forall i, kept idx ce i -> g_keep cx i) -> (forall i, g_keep0 cx i -> g_keep cx i) ->
    g_koff cx <= o -> envOK idx ce rho vs (g_n0 cx) o -> g_n0 cx <= n -> o <= length vs -> g_ctr cx <= ctr g ->
    creg g = (Some rpc, idx) ->
    (forall a b m0 x m' x', P a m0 x -> chg (fun i => o <= i) a b -> cle m0 x m' x' -> P b m' x') ->
    (forall a b m0 x m' x', P a m0 x -> keepK0 cx a b -> cle m0 x m' x' -> P b m' x') ->
    P vs n g ->
    forall lb', lb' <= S (lbf tco m) ->
    G cx (fst (den1 nt (call_of nt m) q rho v)) (TendL lb' cx (snd (den1 nt (call_of nt m) q rho v)) P)
      (N sc pe (SV v :: g_st cx) (g_base cx) vs n o g).
Proof.
  intros m q IH sc cur base Hfr idx ce pe idf cb nvc s0 s1 Hce A1 Ec Hat cx rho v P vs n o g rpc Hsc Hpc Hoff Henc Hown HK2 HK0 Hko HE Hn Hlen Hct Hcr HP1 HP2 HP lb' Hlb.
  destruct (code_at_app _ _ _ _ Hat) as [Hatc Hat2]. uncons Hat2 A2.
  set (pr := S pe + length cb) in *.
  set (sc' := Frame idf o rpc (ctr g) sc (outer_of sc idf idx) :: sc).
  set (vs' := grow vs (o + nvc)).
  set (g1 := {| ctr := S (ctr g); creg := creg g |}).
  assert (Hps : pushed idx idf sc') by (exists o, rpc, (ctr g), sc, sc; reflexivity).
  refine (G_enter_le sc cur base Hfr idx pe idf nvc 0 pr A1 A2 cx ce P (SV v :: g_st cx) vs n o g rpc Hsc Hpc Hoff Hown Hko Hlen Hct Hcr _ (lbf tco m) lb' Hlb _ _ _).
  - intros vs0 fin e HEn. apply Henc. eapply encR_pushed; eauto.
  - fold sc' vs' g1.
    assert (Hfr' : frameOK sc' idf o) by (exists rpc, (ctr g), sc, (outer_of sc idf idx), sc; reflexivity).
    apply (G_body_in m q IH idx ce pe idf cb nvc s0 s1 Hce Ec Hatc sc' o Hfr' Hps (g_keep cx) (g_keep0 cx) (g_st cx) (g_base cx) (g_n0 cx)
             rho v P vs vs' n g1 o HE (le_n _)); auto.
    + intros a Ha. apply grow_nth. lia.
    + apply grow_len.
    + eapply HP1; [exact HP| |unfold g1; cl]. split; [apply grow_len_le|]. intros i Hi. symmetry. apply grow_nth. lia.
Qed.

Lemma G_call : forall m q, Lemmas.Impl nt code tco m q -> forall sc cur base, frameOK sc cur base ->
  forall idx ce pe idf cb nvc s0 s1, ce_lt ce idf = true -> at_ pe (Iscope idf nvc 0) ->
  comp q ce idf (S pe) 0 s0 = Some (cb, nvc, s1) -> code_at (S pe) (cb ++ [Iret]) ->
  forall cx rho v (P : list sv -> nat -> gx -> Prop) vs n o g rpc,
    g_sc cx = sc -> g_pc cx = S rpc -> g_off cx = o ->
    (forall vs' fin e, encR idx ce vs' fin e -> encR sc (g_ce cx) vs' fin e) ->
    (forall i, o <= i -> g_own cx i) -> (forall i, kept idx ce i -> g_keep cx i) -> (forall i, g_keep0 cx i -> g_keep cx i) ->
    g_koff cx <= o -> envOK idx ce rho vs (g_n0 cx) o -> g_n0 cx <= n -> o <= length vs -> g_ctr cx <= ctr g ->
    creg g = (Some rpc, idx) ->
    (forall a b m0 x m' x', P a m0 x -> chg (fun i => o <= i) a b -> cle m0 x m' x' -> P b m' x') ->
    (forall a b m0 x m' x', P a m0 x -> keepK0 cx a b -> cle m0 x m' x' -> P b m' x') ->
    P vs n g ->
    forall lb', lb' <= S (lbf tco m) ->
    G cx (fst (den1 nt (call_of nt m) q rho v)) (TendL lb' cx (snd (den1 nt (call_of nt m) q rho v)) P)
      (N sc pe (SV v :: g_st cx) (g_base cx) vs n o g).
Proof.
  intros m q IH sc cur base Hfr idx ce pe idf cb nvc s0 s1 Hce A1 Ec Hat cx rho v P vs n o g rpc Hsc Hpc Hoff Henc Hown HK2 HK0 Hko HE Hn Hlen Hct Hcr HP1 HP2 HP lb' Hlb.
  apply (G_call_le m q IH sc cur base Hfr idx ce pe idf cb nvc s0 s1 Hce A1 Ec Hat cx rho v P vs n o g rpc Hsc Hpc ltac:(lia) Henc Hown HK2 HK0 Hko HE Hn
           Hlen Hct Hcr HP1 HP2 HP lb' Hlb).
Qed.

(* local soundness of the rewrite: in the frame F1 (an activation of the function whose opscope is at pe, body q), at
   a call of that function whose continuation is (through silent steps) F1's opret, the original `opcall pe` and the
   rewritten `opcallrec pe` both give F1's caller the generator of the body *)
Lemma tailcall_local_sound : forall m q, Lemmas.Impl nt code tco m q -> forall scR, scR <> [] ->
  forall ce pe idf cb nvc s0 s1, ce_lt ce idf = true -> at_ pe (Iscope idf nvc 0) ->
  comp q ce idf (S pe) 0 s0 = Some (cb, nvc, s1) -> code_at (S pe) (cb ++ [Iret]) ->
  forall cx rho v (P : list sv -> nat -> gx -> Prop) vs n o g rpc oF stampF outerF pc,
    let sc1 := Frame idf oF rpc stampF scR outerF :: scR in
    g_sc cx = scR -> g_pc cx = S rpc -> g_off cx <= oF -> oF + nvc <= o ->
    (forall vs' fin e, encR sc1 ce vs' fin e -> encR scR (g_ce cx) vs' fin e) ->
    (forall i, oF <= i -> g_own cx i) -> (forall i, kept sc1 ce i -> g_keep cx i) -> (forall i, g_keep0 cx i -> g_keep cx i) ->
    g_koff cx <= oF -> envOK sc1 ce rho vs (g_n0 cx) oF -> g_n0 cx <= n -> o <= length vs ->
    g_ctr cx <= stampF -> stampF < ctr g ->
    (forall a b m0 x m' x', P a m0 x -> chg (fun i => oF <= i) a b -> cle m0 x m' x' -> P b m' x') ->
    (forall a b m0 x m' x', P a m0 x -> keepK0 cx a b -> cle m0 x m' x' -> P b m' x') ->
    P vs n g ->
    forall lb', lb' <= S (lbf tco m) ->
    let r := den1 nt (call_of nt m) q rho v in
    let s := N sc1 pc (SV v :: g_st cx) (g_base cx) vs n o g in
    (* the rewritten instruction *)
    (at_ pc (Icallrec pe) -> G cx (fst r) (TendL lb' cx (snd r) P) s) /\
    (* the original instruction, followed by opret *)
    (at_ pc (Icallf pe) ->
     (forall w f vs0 n0 o0 g0, steps (N sc1 (S pc) (SV w :: g_st cx) f vs0 n0 o0 g0)
                                     (N sc1 (S pe + length cb) (SV w :: g_st cx) f vs0 n0 o0 g0)) ->
     G cx (fst r) (TendL lb' cx (snd r) P) s).
Proof.
  intros m q IH scR Hne ce pe idf cb nvc s0 s1 Hce A1 Ec Hat cx rho v P vs n o g rpc oF stampF outerF pc sc1
         Hsc Hpc Hoff HoF Henc Hown HK2 HK0 Hko HE Hn Hlen Hct Hst HP1 HP2 HP lb' Hlb r s.
  split.
  - (* opcallrec *)
    intros A0. unfold s.
    eapply G_pre; [one st_callrec; apply steps_refl|apply chg_refl|cl|].
    apply (G_call_rec m q IH scR Hne sc1 ce pe idf cb nvc s0 s1 Hce A1 Ec Hat cx rho v P vs n o {| ctr := ctr g; creg := (None, sc1) |}
             rpc idf oF stampF outerF scR); simpl; auto; try lia.
    eapply HP1; [exact HP|apply chg_refl|cl].
  - (* opcall; (jumps;) opret *)
    intros A0 Hjmp. unfold s.
    destruct (code_at_app _ _ _ _ Hat) as [Hatc Hat2]. uncons Hat2 A2.
    set (pr := S pe + length cb) in *.
    set (K1 := fun i => g_keep cx i \/ oF <= i < oF + nvc).
    set (c1 := ctx_of sc1 (S pc) (g_st cx) (g_base cx) (oF + 0) (oF + nvc) (oF + nvc) (oF + nvc) K1 (g_keep0 cx) ce (g_n0 cx) (S stampF)).
    set (c1r := ctx_of sc1 pr (g_st cx) (g_base cx) (oF + 0) (oF + nvc) (oF + nvc) (oF + nvc) K1 (g_keep0 cx) ce (g_n0 cx) (S stampF)).
    apply (G_leave scR Hne idf oF rpc stampF outerF pr nvc A2 cx ce P Hsc Hpc Hoff Hown Hko Hct Henc lb' lb' (le_S _ _ (le_n _))).
    fold sc1 K1 c1r.
    refine (G_sub nt code c1r c1r (TendL lb' c1 (snd r) P) _ eq_refl eq_refl eq_refl eq_refl (fun _ H => H) (fun _ _ _ H => H) (fun _ _ H => H)
              (le_n _) (le_n _) (le_n _) _ _ _ _).
    { intros s3. tsub. }
    apply (G_exit nt code sc1 (S pc) pr (g_st cx) (g_base cx) (g_own c1) K1 (g_keep0 cx) ce (g_n0 cx) (oF + nvc) (oF + nvc) (S stampF)
             (TendL lb' c1 (snd r) P) (TendL lb' c1 (snd r) P) (Hjmp)).
    eapply G_pre; [one st_callf; apply steps_refl|apply chg_refl|cl|].
    assert (Hfr1 : frameOK sc1 idf oF) by (exists rpc, stampF, scR, outerF, scR; reflexivity).
    apply (G_call_le m q IH sc1 idf oF Hfr1 sc1 ce pe idf cb nvc s0 s1 Hce A1 Ec Hat c1 rho v P vs n o {| ctr := ctr g; creg := (Some pc, sc1) |} pc);
      simpl; auto; try lia.
    + intros i Hi. unfold K1. left. apply HK2. exact Hi.
    + intros i Hi. unfold K1. left. apply HK0. exact Hi.
    + eapply envOK_lim; [exact HE|lia].
    + intros a b m0 x m' x' Hp C Hm. eapply HP1; [exact Hp| |exact Hm]. eapply chg_mono; [|exact C]. simpl; intros; lia.
    + eapply HP1; [exact HP|apply chg_refl|cl].
Qed.

(* ---- function definitions and calls ---- *)
Lemma ce_lt_unfold : forall ce sn, ce_lt ce sn = true <->
  (forall e, In e (ce_env ce) -> match snd e with CV y | CP y => fst y < sn | CF _ _ => True end) /\
  (forall e, In e (ce_lbls ce) -> fst (snd e) < sn).
Proof.
  intros ce sn. unfold ce_lt. rewrite andb_true_iff, !forallb_forall. split; intros [H1 H2]; split; intros e He.
  - specialize (H1 e He). destruct (snd e); auto; apply Nat.ltb_lt; auto.
  - apply Nat.ltb_lt. auto.
  - specialize (H1 e He). destruct (snd e); auto; apply Nat.ltb_lt; auto.
  - apply Nat.ltb_lt. auto.
Qed.
Lemma ce_lt_mono : forall ce sn sn', ce_lt ce sn = true -> sn <= sn' -> ce_lt ce sn' = true.
Proof.
  intros ce sn sn' H Hle. apply ce_lt_unfold in H. apply ce_lt_unfold. destruct H as [H1 H2]. split; intros e He.
  - specialize (H1 e He). destruct (snd e); auto; lia.
  - specialize (H2 e He). lia.
Qed.
Lemma ce_lt_fun : forall ce f p n sn G, ce_lt ce sn = true ->
  ce_lt {| ce_env := (f, CF p n) :: ce_env ce; ce_lbls := []; ce_ghost := G |} sn = true.
Proof.
  intros ce f p n sn G H. apply ce_lt_unfold in H. apply ce_lt_unfold. destruct H as [H1 _]. split; simpl.
  - intros e [<-|He]; simpl; auto. apply H1; auto.
  - intros e [].
Qed.
Lemma ce_lt_nolbl : forall ce sn G, ce_lt ce sn = true -> ce_lt {| ce_env := ce_env ce; ce_lbls := []; ce_ghost := G |} sn = true.
Proof.
  intros ce sn G H. apply ce_lt_unfold in H. apply ce_lt_unfold. destruct H as [H1 _]. split; simpl; auto. intros e [].
Qed.

Lemma nth_error_prefix : forall {A} (l r : list A) i x, nth_error l i = Some x -> nth_error (l ++ r) i = Some x.
Proof. intros A l r i x H. rewrite nth_error_app1; auto. apply nth_error_Some. congruence. Qed.

(* a function definition: jump over it; in the rest of the query the function is visible *)
Lemma impl_def : forall f ps body rest, Impl rest -> Impl (QDef f ps body rest).
Proof.
  intros f ps body rest IHr. impl_intro.
  destruct (comp_def_inv _ _ _ _ _ _ _ _ _ _ _ _ Hc) as (Hlt & Hce & cb & nvb & s1 & cr & Eb & Er & ->). cbv zeta in Eb, Er. clear Hc.
  set (pre := prelude sn ps) in *.
  set (l := pc + 2 + length pre + length cb + 1) in *.
  uncons Hat A0. uncons Hat A1.
  assert (Hatf : forall i x, nth_error (pre ++ cb ++ [Iret]) i = Some x -> nth_error code (S pc + 1 + i) = Some x).
  { intros i x Hi. replace (S pc + 1 + i) with (S (S pc) + i) by lia. apply Hat.
    replace (pre ++ cb ++ Iret :: cr) with ((pre ++ cb ++ [Iret]) ++ cr) by (rewrite <- !app_assoc; reflexivity).
    apply nth_error_prefix. exact Hi. }
  assert (Hatr : code_at l cr).
  { intros i x Hi. replace (l + i) with (S (S pc) + (length pre + (length cb + S i))) by (unfold l; lia). apply Hat.
    rewrite nth_error_app2 by lia. replace (length pre + (length cb + S i) - length pre) with (length cb + S i) by lia.
    rewrite nth_error_app2 by lia. replace (length cb + S i - length cb) with (S i) by lia. exact Hi. }
  assert (Epc : pc + length (Ijump l :: Iscope sn nvb (length ps) :: pre ++ cb ++ Iret :: cr) = l + length cr).
  { simpl. rewrite !app_length. simpl. unfold l. lia. }
  subst c. rewrite Epc.
  cbn [Den.den1].
  eapply G_pre; [one st_jump; apply steps_refl|apply chg_refl|cl|].
  refine (G_sub nt code (ctx_of sc (l + length cr) st fk (base + nv) (base + nv') o ko K K0 (add_fun ce f (S pc) (length ps)) n0 (ctr g))
            (ctx_of sc (l + length cr) st fk (base + nv) (base + nv') o ko K K0 ce n0 (ctr g)) _ _
            eq_refl eq_refl eq_refl eq_refl (fun _ H => H) (fun _ _ _ H => H) (fun _ _ H => H) (le_n _) (le_n _) (le_n _) _ _ _
            (IHr sc cur base Hfr (add_fun ce f (S pc) (length ps)) l nv s1 cr nv' sn' Er Hatr ((f, BF ps body) :: rho) v st fk vs n n0 o ko g K K0 P _ Hn Hko Hoo Hlen HK1 _ HK0 _ HP)).
  - intros s0. tsub.
  - apply envOK_add_fun; [exact HE|].
    exists sn, nvb, cb, (S sn), s1. split; [exact A1|]. split; [|split; [exact Hatf|apply ce_lt_fun; exact Hce]].
    intros G. fold pre. replace (S pc + 1 + length pre) with (pc + 2 + length pre) by lia.
    rewrite <- Eb. apply comp_ghost; reflexivity.
  - intros i Hi. apply HK2. eapply kept_add_fun; eauto.
  - split; auto.
Qed.

Lemma suffix_In : forall {A} (pre l : list A) x, In x l -> In x (pre ++ l).
Proof. intros. apply in_or_app. right; auto. Qed.

(* the arguments of a call: every block is jumped over and its closure (entry pc, current scope) pushed; the
   closure of the first argument ends on top *)
Lemma args_run : forall (C : query -> nat -> nat -> res),
  (forall a s p cb nvc s1, C a s p = Some (cb, nvc, s1) -> s <= s1) ->
  forall l p sn cas p' s2, comp_args C l p sn = Some (cas, p', s2) -> code_at p cas ->
  exists pcs, length pcs = length l /\ p' = p + length cas /\ sn <= s2 /\
    (forall sc st fk vs n o g, steps (N sc p st fk vs n o g) (N sc p' (map (fun q => SPc (S q) sc) pcs ++ st) fk vs n o g)) /\
    Forall2 (fun a q => exists id cb nvc s1, sn <= id /\ at_ (S q) (Iscope id nvc 0) /\ C a id q = Some (cb, nvc, s1) /\
                                            code_at (S (S q)) (cb ++ [Iret])) l pcs.
Proof.
  intros C HC. induction l as [|a r IH]; intros p sn cas p' s2 H Hat; simpl in H.
  - inversion H; subst. exists []. simpl. split; [auto|]. split; [lia|]. split; [lia|]. split; [intros; apply steps_refl|constructor].
  - destruct (comp_args C r p sn) as [[[cr p1] s1']|] eqn:Er; [|discriminate].
    destruct (C a s1' p1) as [[[cb nvc] s3]|] eqn:Ea; [|discriminate]. inversion H; subst. clear H.
    destruct (code_at_app _ _ _ _ Hat) as [Hatr Hatb].
    destruct (IH _ _ _ _ _ Er Hatr) as (pcs & Hlen & -> & Hsn & Hst & HF).
    uncons Hatb B0. uncons Hatb B1. destruct (code_at_app _ _ _ _ Hatb) as [Hatc Hat2]. uncons Hat2 B2. uncons Hat2 B3.
    exists ((p + length cr) :: pcs). simpl. split; [lia|]. split; [rewrite !app_length; simpl; rewrite app_length; simpl; lia|].
    split; [apply HC in Ea; lia|]. split.
    + intros sc st fk vs n o g. eapply steps_trans; [apply Hst|]. one st_jump.
      replace (p + length cr + 2 + length cb + 1) with (S (S (S (p + length cr)) + length cb)) by lia.
      one st_pushpc.
      match goal with |- Mach.steps _ _ (Mach.N _ ?a _ _ _ _ _ _) (Mach.N _ ?b _ _ _ _ _ _) => replace b with a; [apply steps_refl|] end.
      repeat (rewrite app_length; simpl). lia.
    + constructor.
      * exists s1', cb, nvc, s2. split; [exact Hsn|]. split; [exact B1|]. split; [exact Ea|].
        intros i x Hi. destruct (Nat.lt_ge_cases i (length cb)) as [Hl|Hl].
        -- rewrite nth_error_app1 in Hi by exact Hl. apply Hatc. exact Hi.
        -- rewrite nth_error_app2 in Hi by exact Hl. destruct (i - length cb) as [|[|?]] eqn:Ei; simpl in Hi; try discriminate.
           inversion Hi; subst x. replace (S (S (p + length cr)) + i) with (S (S (p + length cr)) + length cb) by lia. exact B2.
      * exact HF.
Qed.

(* the prelude of a function with parameters stores the closures found on the stack in the slots 1..n of its frame *)
Lemma stores_run : forall sc' idf o, frameOK sc' idf o ->
  forall xs j pcx st fk vsA n oo g, (forall i, i < length xs -> at_ (pcx + i) (Istore (idf, j + i))) -> o + j + length xs <= length vsA ->
  exists vsB, steps (N sc' pcx (xs ++ st) fk vsA n oo g) (N sc' (pcx + length xs) st fk vsB n oo g) /\
    length vsB = length vsA /\
    (forall i x, nth_error xs i = Some x -> nth_error vsB (o + j + i) = Some x) /\
    (forall k, k < o + j \/ o + j + length xs <= k -> nth_error vsB k = nth_error vsA k).
Proof.
  intros sc' idf o Hfr. pose proof (frameOK_cur _ _ _ Hfr) as Hcur.
  induction xs as [|x r IH]; intros j pcx st fk vsA n oo g Hat Hlen; simpl in *.
  - exists vsA. rewrite Nat.add_0_r. split; [apply steps_refl|]. split; [auto|]. split; [intros [|i] y Hy; discriminate|auto].
  - destruct (update_some vsA (o + j) x) as [vs1 U]; [lia|]. destruct (update_spec _ _ _ _ U) as (UL & UN & UO).
    destruct (IH (S j) (S pcx) st fk vs1 n oo g) as (vsB & St & LB & HB1 & HB2).
    + intros i Hi. replace (S pcx + i) with (pcx + S i) by lia. replace (S j + i) with (j + S i) by lia. apply Hat. lia.
    + lia.
    + exists vsB. split.
      * eapply steps_step; [eapply st_store; [|apply Hcur|exact U]|].
        { pose proof (Hat 0 ltac:(lia)) as H0. rewrite !Nat.add_0_r in H0. exact H0. }
        replace (pcx + S (length r)) with (S pcx + length r) by lia. exact St.
      * split; [lia|]. split.
        -- intros [|i] y Hy; simpl in Hy.
           ++ inversion Hy; subst y. rewrite Nat.add_0_r. rewrite HB2 by lia. exact UN.
           ++ replace (o + j + S i) with (o + S j + i) by lia. apply HB1. exact Hy.
        -- intros k Hk. rewrite HB2 by lia. apply UO. lia.
Qed.


(* the environment of the parameters: closures of the arguments, whose own environment is the caller's *)
Lemma envOKl_params : forall G sc' vs lim sc cur base cel rho lim_a idf o,
  top_frame sc cur base -> frameOK sc' idf o -> lim_a <= lim ->
  envOKl code tco (ce_ghost {| ce_env := cel; ce_lbls := []; ce_ghost := G |}) sc vs lim_a cel rho ->
  (forall i, kept sc {| ce_env := cel; ce_lbls := []; ce_ghost := G |} i -> G i /\ i < lim_a) ->
  forall ps args pcs i cr rr, length ps = length args ->
  Forall2 (fun a q => funOK code tco (S q) [] a cel None) args pcs ->
  (forall k q, nth_error pcs k = Some q -> nth_error vs (o + S (i + k)) = Some (SPc (S q) sc)) ->
  o + S (i + length ps) <= lim ->
  envOKl code tco G sc' vs lim cr rr ->
  envOKl code tco G sc' vs lim (pf_env idf ps i ++ cr) (pf_binds ps args rho ++ rr).
Proof.
  intros G sc' vs lim sc cur base cel rho lim_a idf o Htop Hfr' Hla HEa Hka.
  pose proof (frameOK_cur _ _ _ Hfr') as Hcur'.
  induction ps as [|[g|x] ps IH]; intros args pcs i cr rr Hlen HF Hnth Hlim Hr; simpl in *.
  - destruct args; [exact Hr|discriminate].
  - destruct args as [|a args]; [discriminate|]. inversion HF; subst. rename H1 into Hf.
    rewrite <- !app_assoc. simpl.
    apply (IH args l' (S i)); auto.
    + intros k q Hq. replace (S i + k) with (i + S k) by lia. apply Hnth. exact Hq.
    + lia.
    + apply (EO_par code tco G sc' vs lim g (idf, S i) a rho cr rr (o + S i) (S y) sc cel cur base lim_a G); auto.
      * lia.
      * replace (o + S i) with (o + S (i + 0)) by lia. apply Hnth. reflexivity.
  - (* a value parameter binds no closure name *)
    destruct args as [|a args]; [discriminate|]. inversion HF; subst.
    apply (IH args l' (S i)); auto.
    + intros k q Hq. replace (S i + k) with (i + S k) by lia. apply Hnth. exact Hq.
    + lia.
Qed.

Lemma envOKl_ghost : forall (G G' : nat -> Prop) sc vs lim cel rho, (forall i, G i -> G' i) ->
  envOKl code tco G sc vs lim cel rho -> envOKl code tco G' sc vs lim cel rho.
Proof.
  intros G G' sc vs lim cel rho HG H. induction H.
  - constructor.
  - constructor; auto.
  - constructor; auto.
  - apply (EO_par code tco G' sc vs lim g y a rho_a cr rr addr p idx cel_a cur_a base_a lim_a Ga); auto.
    intros i Hi. destruct (H6 i Hi). auto.
Qed.

Lemma envOKl_suffix_kept : forall sc pre cel G i,
  kept sc {| ce_env := cel; ce_lbls := []; ce_ghost := G |} i -> kept sc {| ce_env := pre ++ cel; ce_lbls := []; ce_ghost := G |} i.
Proof.
  intros sc pre cel G i [(x & y & Hx & Hi)|[(l0 & y & Hx & Hi)|Hg]]; simpl in *.
  - left. exists x, y. split; [|exact Hi]. destruct Hx as [Hx|Hx]; [left|right]; apply suffix_In; exact Hx.
  - discriminate.
  - right. right. exact Hg.
Qed.

Lemma pf_env_In : forall sn ps i x y,
  (In (x, CV y) (pf_env sn ps i) -> False) /\
  (In (x, CP y) (pf_env sn ps i) -> exists j, y = (sn, S j) /\ i <= j < i + length ps).
Proof.
  induction ps as [|[g|z] ps IH]; intros i x y; simpl; split; intros H; try contradiction.
  - apply in_app_or in H. destruct H as [H|[H|[]]]; [apply (proj1 (IH (S i) x y) H)|discriminate].
  - apply in_app_or in H. destruct H as [H|[H|[]]].
    + destruct (proj2 (IH (S i) x y) H) as (j & -> & Hj). exists j. split; [auto|lia].
    + inversion H; subst. exists i. split; [auto|lia].
  - apply (proj1 (IH (S i) x y) H).
  - destruct (proj2 (IH (S i) x y) H) as (j & -> & Hj). exists j. split; [auto|lia].
Qed.

Lemma prelude_at : forall idf p0 ps pp, code_at pp (prelude idf (p0 :: ps)) ->
  at_ pp (Istore (idf, 0)) /\ (forall i, i < S (length ps) -> at_ (S pp + i) (Istore (idf, 1 + i))) /\
  code_at (S pp + S (length ps)) (pv_code idf (S (length ps)) (pv_params (p0 :: ps) 0) 0 ++ [Iload (idf, 0)]) /\
  length (prelude idf (p0 :: ps)) = S (S (length ps)) + length (pv_code idf (S (length ps)) (pv_params (p0 :: ps) 0) 0) + 1.
Proof.
  intros idf p0 ps pp Hat. unfold prelude in *.
  set (n := length (p0 :: ps)) in *. assert (En : n = S (length ps)) by reflexivity.
  set (pvc := pv_code idf n (pv_params (p0 :: ps) 0) 0) in *.
  uncons Hat A0. destruct (code_at_app _ _ _ _ Hat) as [Hm Hl]. rewrite map_length, seq_length in Hl.
  split; [exact A0|]. split; [|split].
  - intros i Hi. apply Hm. assert (Hs : forall k s j, j < k -> nth_error (List.seq s k) j = Some (s + j)).
    { induction k as [|k IH]; intros s j Hj; [lia|]. destruct j; simpl; [rewrite Nat.add_0_r; reflexivity|].
      rewrite IH by lia. f_equal. lia. }
    rewrite nth_error_map, (Hs n 0 i) by lia. reflexivity.
  - rewrite <- En. exact Hl.
  - unfold pvc, n. cbn [length]. rewrite !app_length, map_length, seq_length. cbn [length]. lia.
Qed.

(* ---- value parameters: def f($x): ...  The prelude evaluates the closure of every $x parameter on the input of the
   function and stores each output in turn in the slot of $x: a bind per value parameter ---- *)
Fixpoint bindpv (evi : nat -> result) (k : venv -> result) (pvs : list (nat * vname)) (env : venv) : result :=
  match pvs with
  | [] => k env
  | (i, x) :: r => bind (evi i) (fun w => bindpv evi k r ((x, BV w) :: env))
  end.
Lemma bindpv_ext : forall evi evi' k pvs env, (forall i x, In (i, x) pvs -> evi i = evi' i) ->
  bindpv evi k pvs env = bindpv evi' k pvs env.
Proof.
  induction pvs as [|[i x] r IH]; intros env H; simpl; [reflexivity|].
  rewrite (H i x (or_introl eq_refl)). apply bind_list_ext'. intros w. apply IH. intros i' x' Hin. apply (H i' x'). right. exact Hin.
Qed.
Lemma bindpv_extk : forall evi k k' pvs env, (forall e, k e = k' e) -> bindpv evi k pvs env = bindpv evi k' pvs env.
Proof.
  induction pvs as [|[i x] r IH]; intros env H; simpl; [apply H|]. apply bind_list_ext'. intros w. apply IH. exact H.
Qed.
Lemma pv_params_ge : forall ps i0 i x, In (i, x) (pv_params ps i0) -> i0 <= i < i0 + length ps.
Proof.
  induction ps as [|[g|y] ps IH]; intros i0 i x H; simpl in *; [contradiction| |].
  - apply IH in H. lia.
  - destruct H as [E|H]; [inversion E; subst; lia|apply IH in H; lia].
Qed.
Lemma bindps_pvs : forall ev k ps args i0 env, length ps = length args ->
  bindps ev k ps args env =
  bindpv (fun i => match nth_error args (i - i0) with Some a => ev a | None => ([], None) end) k (pv_params ps i0) env.
Proof.
  induction ps as [|[g|x] ps IH]; intros args i0 env Hl; destruct args as [|a args]; simpl in Hl; try discriminate; simpl.
  - reflexivity.
  - rewrite (IH args (S i0) env) by lia. apply bindpv_ext. intros i y Hin. apply pv_params_ge in Hin.
    replace (i - i0) with (S (i - S i0)) by lia. reflexivity.
  - rewrite Nat.sub_diag. simpl. apply bind_list_ext'. intros w.
    rewrite (IH args (S i0) _) by lia. apply bindpv_ext. intros i y Hin. apply pv_params_ge in Hin.
    replace (i - i0) with (S (i - S i0)) by lia. reflexivity.
Qed.

Lemma kept_fields : forall sc ce ce' i, ce_env ce = ce_env ce' -> ce_lbls ce = ce_lbls ce' -> ce_ghost ce = ce_ghost ce' ->
  kept sc ce i -> kept sc ce' i.
Proof. intros sc ce ce' i H1 H2 H3 Hk. unfold kept in *. rewrite <- H1, <- H2, <- H3. exact Hk. Qed.
Lemma envOK_fields : forall sc ce ce' rho vs n0 lim, ce_env ce = ce_env ce' -> ce_lbls ce = ce_lbls ce' -> ce_ghost ce = ce_ghost ce' ->
  envOK sc ce rho vs n0 lim -> envOK sc ce' rho vs n0 lim.
Proof. intros sc ce ce' rho vs n0 lim H1 H2 H3 HE. unfold Lemmas.envOK in *. rewrite <- H1, <- H2, <- H3. exact HE. Qed.

Lemma pv_loop :
  forall sc cur base, frameOK sc cur base ->
  forall ce rho limc v n0 sc' idf o, frameOK sc' idf o -> pushed sc idf sc' -> limc <= o ->
  let Gc := kept sc (fun_env ce) in
  (forall i, Gc i -> i < limc) ->
  forall args pcs nps, Forall2 (fun a q => funOK code tco (S q) [] a (ce_env ce) None) args pcs -> Forall (fun a => Impl a) args -> length args = nps ->
  forall (z : bool) m body ceF pcb pslots cb nvb s0 s1 st lbm, (z = false -> Lemmas.Impl nt code tco m body) ->
    lbm <= lbf tco fu -> (if z then lbm = 0 else lbm <= lbf tco m) ->
    comp body ceF idf pcb pslots s0 = Some (cb, nvb, s1) -> code_at pcb cb -> at_ (pcb + length cb) Iret ->
    ce_lbls ceF = [] -> ce_ghost ceF = Gc ->
  let evi := fun i => match nth_error args i with Some a => den a rho v | None => ([], None) end in
  (* z: the call itself is out of fuel (the value parameters are evaluated all the same) *)
  let k := fun env => if z then ([], Some XFuel) else den1 nt (call_of nt m) body env v in
  forall pvs j ceJ rhoJ pcx cx (PT : list sv -> nat -> gx -> Prop) vs n oo g,
    ce_env ceF = pv_env idf nps pvs j ++ ce_env ceJ -> ce_lbls ceJ = [] -> ce_ghost ceJ = Gc ->
    o + S nps + j + length pvs = o + pslots ->
    (forall i x, In (i, x) pvs -> i < nps) ->
    code_at pcx (pv_code idf nps pvs j ++ [Iload (idf, 0)]) -> pcx + length (pv_code idf nps pvs j) + 1 = pcb ->
    envOK sc' ceJ rhoJ vs n0 (o + S nps + j) ->
    nth_error vs (o + 0) = Some (SV v) ->
    (forall i q, nth_error pcs i = Some q -> nth_error vs (o + S i) = Some (SPc (S q) sc)) ->
    envOKl code tco Gc sc vs limc (ce_env ce) rho ->
    g_sc cx = sc' -> g_pc cx = pcb + length cb -> g_st cx = st -> g_off cx = oo -> g_ce cx = ceJ -> g_n0 cx = n0 ->
    o + nvb <= g_koff cx -> g_koff cx <= oo -> oo <= length vs -> n0 <= n -> g_ctr cx <= ctr g ->
    (forall i, o + S nps + j <= i < o + nvb \/ oo <= i -> g_own cx i) -> (forall i, g_own cx i -> o + S nps + j <= i) ->
    (forall i, o <= i < o + nvb -> g_keep cx i) -> (forall i, Gc i -> g_keep cx i) -> (forall i, kept sc' ceJ i -> g_keep cx i) ->
    (forall i, g_keep0 cx i -> g_keep cx i) ->
    (forall a b m0 x m' x', PT a m0 x -> chg (fun i => o + S nps + j <= i < o + nvb \/ oo <= i) a b -> cle m0 x m' x' -> PT b m' x') ->
    (forall a b m0 x m' x', PT a m0 x -> keepK0 cx a b -> cle m0 x m' x' -> PT b m' x') ->
    PT vs n g ->
    G cx (fst (bindpv evi k pvs rhoJ)) (TendL lbm cx (snd (bindpv evi k pvs rhoJ)) PT) (N sc' pcx st (g_base cx) vs n oo g).
Proof.
  intros sc cur base Hfr ce rho limc v n0 sc' idf o Hfr' Hps Hlimc Gc HGlt args pcs nps HFa IHargs Hnps
         z m body ceF pcb pslots cb nvb s0 s1 st lbm IHb Hlb1 Hlb2 Hcomp Hatcb Aret HlF HgF evi k.
  pose proof (frameOK_cur _ _ _ Hfr') as Hcur'.
  induction pvs as [|[i x] r IH]; intros j ceJ rhoJ pcx cx PT vs n oo g HeF HlJ HgJ Hsl Hidx Hat Hpcx HE Hv0 Hclos HEc
         Hsc Hpc Hst Hoff Hce Hn0 Hko Hkoo Hlen Hn Hct Hown Hown2 HKf HKg HKk HK0 PT1 PT2 HPT.
  - (* all value parameters are bound: load the input, run the body *)
    simpl in Hat, Hpcx, HeF, Hsl. uncons Hat A0. cbn [bindpv]. unfold k. destruct z; [cbn [fst snd]; subst lbm; apply G_fuel; simpl; lia|].
    specialize (IHb eq_refl).
    eapply G_pre; [eapply steps_step; [eapply st_load; [exact A0|apply Hcur'|exact Hv0]|apply steps_refl]|apply chg_refl|cl|].
    replace (S pcx) with pcb by lia. rewrite <- Hst.
    eapply G_impl; [intros s5 HT5; exact (Tend_lb_mono (lbf tco m) lbm _ _ _ _ Hlb2 HT5)|].
    apply (impl_body m body IHb sc' idf o Hfr' ceF pcb pslots s0 cb nvb s1 Hcomp Hatcb cx rhoJ v vs n oo g PT); auto; try lia.
    + rewrite Hce, HlJ, HlF. reflexivity.
    + intros i Hi. apply Hown. lia.
    + intros i Hi. apply HKf. destruct (comp_mono _ _ _ _ _ _ _ _ _ Hcomp). lia.
    + intros i Hi. apply HKk. eapply kept_fields; [| | |exact Hi]; [rewrite HeF; reflexivity|congruence|congruence].
    + rewrite Hn0. replace (o + pslots) with (o + S nps + j) by lia.
      eapply envOK_fields; [| | |exact HE]; [rewrite HeF; reflexivity|congruence|congruence].
    + intros a b m0 y m' y' Hp C Hm. eapply PT1; [exact Hp| |exact Hm]. eapply chg_mono; [|exact C]. simpl; intros; lia.
  - (* one value parameter: evaluate its closure on the input; for every output store it and go on *)
    simpl pv_code in Hat, Hpcx. simpl pv_env in HeF. simpl length in Hsl, Hpcx.
    simpl app in Hat.
    uncons Hat A0. uncons Hat A1. uncons Hat A2. uncons Hat A3. uncons Hat A4. uncons Hat A5.
    assert (Hi : i < nps) by (apply (Hidx i x); left; reflexivity).
    destruct (comp_mono _ _ _ _ _ _ _ _ _ Hcomp) as [Mb _].
    assert (Hlp : length pcs = nps) by (rewrite <- Hnps; clear - HFa; induction HFa; simpl; auto).
    destruct (nth_error args i) as [a|] eqn:Ea; [|apply nth_error_None in Ea; lia].
    destruct (nth_error pcs i) as [q|] eqn:Eq; [|apply nth_error_None in Eq; lia].
    assert (Hfa : funOK code tco (S q) [] a (ce_env ce) None /\ Impl a).
    { clear - HFa IHargs Ea Eq. revert i pcs HFa Ea Eq. induction args as [|a0 args IHa]; intros [|i] pcs HFa Ea Eq; simpl in *; try discriminate;
        inversion HFa; subst; inversion IHargs; subst; simpl in Eq.
      - inversion Ea; inversion Eq; subst. auto.
      - eapply IHa; eauto. }
    destruct Hfa as [(ida & nva & cba & s0a & s1a & Hsca & Hcba & Hcodea & Hclta) IHa].
    set (cea := {| ce_env := ce_env ce; ce_lbls := []; ce_ghost := Gc |}).
    assert (Hcba' : comp a cea ida (S (S q)) 0 s0a = Some (cba, nva, s1a)).
    { specialize (Hcba Gc). simpl in Hcba. replace (S (q + 1 + 0)) with (S (S q)) in Hcba by lia. exact Hcba. }
    assert (Hata : code_at (S (S q)) (cba ++ [Iret])).
    { intros i0 y Hy. replace (S (S q) + i0) with (S q + 1 + i0) by lia. apply Hcodea. exact Hy. }
    assert (Hclta' : ce_lt cea ida = true) by exact Hclta.
    set (ownb0 := fun i0 => o + S nps + j <= i0 < o + nvb).
    set (g2 := {| ctr := ctr g; creg := (Some (S (S (S pcx))), sc) |}).
    set (c1 := {| g_sc := sc'; g_pc := S (S (S (S pcx))); g_st := st; g_base := g_base cx; g_own := fun i0 => oo <= i0;
                  g_keep := fun i0 => g_keep cx i0 /\ ~ ownb0 i0 /\ i0 < oo; g_keep0 := fun _ => False; g_ce := ceJ; g_n0 := n0;
                  g_off := oo; g_koff := oo; g_ctr := g_ctr cx |}).
    assert (Hkc : forall i0, kept sc cea i0 -> Gc i0).
    { intros i0 [(x0 & y0 & Hx & Hi0)|[(l0 & y0 & Hx & Hi0)|Hg]]; [left; eauto|simpl in Hx; discriminate|exact Hg]. }
    eapply G_pre with (s1 := N sc' (S q) (SV v :: st) (g_base cx) vs n oo g2).
    { eapply steps_step; [eapply st_load; [exact A0|apply Hcur'|exact Hv0]|]. one st_expbegin.
      eapply steps_step; [eapply st_load; [exact A2|apply Hcur'|apply (Hclos i q Eq)]|]. one st_callpc. apply steps_refl. }
    { apply chg_refl. }
    { unfold g2; cl. }
    assert (HA : G c1 (fst (evi i)) (TendL lbm c1 (snd (evi i)) (fun _ _ _ => True)) (N sc' (S q) (SV v :: st) (g_base cx) vs n oo g2)).
    { unfold evi. rewrite Ea.
      apply (G_call fu a IHa sc' idf o Hfr' sc cea (S q) ida cba nva s0a s1a Hclta' Hsca Hcba' Hata c1 rho v (fun _ _ _ => True)
               vs n oo g2 (S (S (S pcx)))); simpl; auto; try lia.
      - intros vs' fin e HEn. destruct fin as [[e0|l0|]|]; simpl in *; auto. destruct HEn as (x0 & k0 & id & Hk & _). discriminate.
      - intros i0 Hi0. apply Hkc in Hi0. split; [apply HKg; exact Hi0|]. pose proof (HGlt _ Hi0). unfold ownb0. split; lia.
      - split; [|split].
        + simpl. eapply envOKl_lim; [exact HEc|lia].
        + simpl. intros l0 y0 Hy. discriminate.
        + simpl. intros i0 Hi0. apply HGlt in Hi0. lia. }
    set (ceJ' := add_var ceJ x (idf, S nps + j)).
    set (f := fun w => bindpv evi k r ((x, BV w) :: rhoJ)).
    set (fb := fun (_ : unit) w => (fst (f w), snd (f w), tt)).
    set (Jg := fun (_ : unit) (a0 : list sv) => nth_error a0 (o + 0) = Some (SV v) /\
                 (forall i0 q0, nth_error pcs i0 = Some q0 -> nth_error a0 (o + S i0) = Some (SPc (S q0) sc)) /\
                 envOKl code tco Gc sc a0 limc (ce_env ce) rho).
    assert (HJgc : forall (O : nat -> Prop) a0 b, (forall i0, O i0 -> o + S nps <= i0) -> Jg tt a0 -> chg O a0 b -> Jg tt b).
    { intros O a0 b HO (H1 & H2 & H3) [_ C]. split; [|split].
      - rewrite <- H1. symmetry. apply C. intro Hc. apply HO in Hc. lia.
      - intros i0 q0 Hq. rewrite <- (H2 i0 q0 Hq). symmetry. apply C. intro Hc. apply HO in Hc.
        assert (i0 < length pcs) by (apply nth_error_Some; congruence). lia.
      - eapply envOKl_same; [exact H3| |].
        + intros x0 y0 k0 Hin Hk. apply C. intro Hc. apply HO in Hc. pose proof (envOKl_kept_lt _ _ _ _ _ _ x0 y0 k0 H3 Hin Hk). lia.
        + intros k0 Hk. apply C. intro Hc. apply HO in Hc. apply HGlt in Hk. lia. }
    assert (HJgk : forall (Kx : nat -> Prop) a0 b, (forall i0, o <= i0 < o + nvb -> Kx i0) -> (forall i0, Gc i0 -> Kx i0) -> Jg tt a0 -> keepX Kx a0 b -> Jg tt b).
    { intros Kx a0 b HK1' HK2' (H1 & H2 & H3) [_ C]. split; [|split].
      - rewrite <- H1. symmetry. apply C. apply HK1'. lia.
      - intros i0 q0 Hq. rewrite <- (H2 i0 q0 Hq). symmetry. apply C. apply HK1'.
        assert (i0 < length pcs) by (apply nth_error_Some; congruence). lia.
      - eapply envOKl_same; [exact H3| |].
        + intros x0 y0 k0 Hin Hk. apply C. apply HK2'. left. exists x0, y0. auto.
        + intros k0 Hk. apply C. apply HK2'. exact Hk. }
    pose proof (fold_gen_lb lbm c1 cx rhoJ (o + S nps + j) oo PT unit Jg (fun _ => PT) fb ownb0 ceJ') as HF. cbv zeta in HF.
    cbn [bindpv]. fold f. unfold bind.
    pose proof (foldgen_bind f (fst (evi i))) as Ef. fold fb in Ef.
    destruct (bind_list (fst (evi i)) f) as [os xe] eqn:Eb. cbn [fst snd] in Ef.
    assert (HG' : G cx os (TendL lbm cx (match xe with Some e => Some e | None => snd (evi i) end) PT) (N sc' (S q) (SV v :: st) (g_base cx) vs n oo g2)).
    { refine (HF (eq_sym Hsc) eq_refl (eq_sym Hce) (eq_sym Hn0) (eq_sym Hoff) eq_refl (eq_sym Hoff) ltac:(lia) _ _ _ _ _ _ _ _ _ _ _ _
                (fst (evi i)) tt _ (snd (evi i)) os xe tt HA _ Hct Ef).
      - simpl. intros i0 Hi0. apply Hown. right. exact Hi0.
      - intros i0 Hi0. unfold ownb0 in Hi0. split; [apply Hown; left; exact Hi0|lia].
      - intros i0 Hi0. apply Hown. right. lia.
      - simpl. intros i0 (H1 & H2 & H3). split; [auto|split; [auto|lia]].
      - simpl. intros i0 [].
      - intros i0 Hi0 Ho. rewrite Hsc, Hce in Hi0. pose proof (kept_lt _ _ _ _ _ _ _ HE Hi0). apply Hown2 in Ho. lia.
      - rewrite Hce. reflexivity.
      - intros a0 b m0 y m' y' Hp C Hm. eapply PT1; [exact Hp| |exact Hm]. eapply chg_mono; [|exact C]. simpl. intros; lia.
      - intros [] a0 b Hg C. eapply HJgc; [|exact Hg|exact C]. simpl. intros; lia.
      - intros [] a0 b m0 y m' y' Hp C Hm. eapply PT1; [exact Hp| |exact Hm]. eapply chg_mono; [|exact C]. simpl. intros; lia.
      - intros [] a0 m0 y [(_ & _ & _ & Hp) _]. exact Hp.
      - (* the body: store the output in the slot of $x, expend, the remaining parameters *)
        intros w [] fk' vs2 n2 o2 x2 os2 xx2 [] [Hj (Hv2 & Hcl2 & HEc2)] Ho2 Ht2 Hfk Efb.
        unfold fb in Efb. inversion Efb; subst os2 xx2. clear Efb.
        rewrite Hsc, Hce, Hn0 in Hj. destruct Hj as (E2 & Hn2 & Hl2 & Hp2). rewrite Hoff in Ho2.
        set (slot := o + S (nps + j)).
        destruct (update_some vs2 slot (SV w)) as [vs3 U3]; [unfold slot; lia|]. destruct (update_spec _ _ _ _ U3) as (UL3 & UN3 & UO3).
        set (J := fun a0 m0 (y : gx) => Jstd sc' ceJ rhoJ n0 (o + S nps + j) oo PT a0 m0 y /\ Jg tt a0).
        assert (EJ : (fun a0 m0 y => Jstd (g_sc cx) (g_ce cx) rhoJ (g_n0 cx) (o + S nps + j) oo PT a0 m0 y /\ Jg tt a0) = J)
          by (unfold J; rewrite Hsc, Hce, Hn0; reflexivity).
        rewrite EJ. rewrite Hsc. cbn [g_pc g_st c1].
        set (PT' := wk fk' J PT).
        assert (HJ2 : J vs2 n2 x2) by (split; [split; auto|split; auto]).
        assert (Jchg : forall (O : nat -> Prop), (forall i0, O i0 -> (o + S nps + j <= i0 < o + nvb \/ oo <= i0)) ->
                  forall a0 b m0 y m' y', J a0 m0 y -> chg O a0 b -> cle m0 y m' y' -> J b m' y').
        { intros O HO a0 b m0 y m' y' [(Ea0 & Hna & Hla & Hpa) Hga] C Hm. split.
          - split; [eapply envOK_chg; [exact Ea0|exact C|intros i0 Hi0; apply HO in Hi0; lia]|]. split; [destruct Hm; lia|].
            split; [destruct C; lia|]. eapply PT1; [exact Hpa| |exact Hm]. eapply chg_mono; [|exact C]. exact HO.
          - eapply HJgc; [|exact Hga|exact C]. intros i0 Hi0. apply HO in Hi0. lia. }
        assert (JK : forall a0 b m0 y m' y', J a0 m0 y -> keepX (g_keep cx) a0 b -> cle m0 y m' y' -> J b m' y').
        { intros a0 b m0 y m' y' [(Ea0 & Hna & Hla & Hpa) Hga] C Hm. split.
          - split; [eapply envOK_keep; [exact Ea0|exact C|exact HKk]|]. split; [destruct Hm; lia|]. split; [destruct C; lia|].
            eapply PT2; [exact Hpa| |exact Hm]. eapply keepX_mono; [|exact C]. exact HK0.
          - eapply HJgk; [| |exact Hga|exact C]; auto. }
        eapply G_pre; [eapply steps_step; [eapply st_store; [exact A4|apply Hcur'|exact U3]|]; one st_expend; apply steps_refl
                      |eapply chg_update; [exact U3|simpl; left; unfold ownb0, slot; lia]|cl|].
        set (cx2 := {| g_sc := sc'; g_pc := g_pc cx; g_st := g_st cx; g_base := fk' ++ g_base cx;
                       g_own := fun i0 => o + S nps + S j <= i0 < o + nvb \/ o2 <= i0; g_keep := g_keep cx;
                       g_keep0 := match fk' with [] => g_keep0 cx | _ :: _ => g_keep cx end;
                       g_ce := ceJ'; g_n0 := g_n0 cx; g_off := o2; g_koff := g_koff cx; g_ctr := ctr x2 |}).
        assert (HJ3 : J vs3 n2 x2).
        { eapply (Jchg (fun i0 => i0 = slot)); [|exact HJ2|eapply chg_update; [exact U3|reflexivity]|cl]. intros i0 ->. unfold slot. lia. }
        refine (G_sub nt code cx2 (cbody cx ownb0 ceJ' fk' o2 (ctr x2)) _ _ (eq_sym Hsc) eq_refl eq_refl eq_refl _
                  (fun _ _ _ H => H) (fun _ _ H => H) (le_n _) (le_n _) (le_n _) _ _ _
                  (IH (S j) ceJ' ((x, BV w) :: rhoJ) (S (S (S (S (S (S pcx)))))) cx2 PT' vs3 n2 o2 x2 _ HlJ HgJ _ _ Hat _ _ _ _ _
                      eq_refl Hpc Hst eq_refl eq_refl Hn0 Hko _ _ Hn2 (le_n _) (fun _ H => H) _ HKf HKg _ _ _ _ _)).
        + simpl. unfold ownb0. intros i0 [Hi0|Hi0]; [left; lia|right; lia].
        + intros s3. apply Tend_sub; auto; try ctrle. simpl. unfold ownb0. intros i0 [Hi0|Hi0]; [left; lia|right; lia].
        + rewrite HeF. unfold ceJ'. simpl. rewrite <- app_assoc. reflexivity.
        + lia.
        + intros i0 x0 Hin. apply (Hidx i0 x0). right. exact Hin.
        + lia.
        + unfold ceJ'. apply envOK_add_var with (a := slot).
          * eapply envOK_lim; [destruct HJ3 as [(E3 & _) _]; exact E3|lia].
          * apply Hcur'.
          * unfold slot. lia.
          * exact UN3.
        + rewrite UO3 by (unfold slot; lia). exact Hv2.
        + intros i0 q0 Hq. rewrite UO3; [apply Hcl2; exact Hq|]. assert (i0 < length pcs) by (apply nth_error_Some; congruence). unfold slot. lia.
        + destruct HJ3 as [_ (_ & _ & H3)]. exact H3.
        + simpl. lia.
        + simpl. lia.
        + simpl. intros i0 Hi0. lia.
        + intros i0 Hi0. unfold ceJ' in Hi0. destruct (kept_add_var _ _ _ _ _ _ (Hcur' (S nps + j)) Hi0) as [->|Hk]; [apply HKf; lia|apply HKk; exact Hk].
        + simpl. intros i0 Hi0. exact (wk_K _ _ _ _ HK0 Hi0).
        + unfold PT'. apply wk_chg.
          * apply Jchg. intros i0 Hi0. lia.
          * intros a0 b m0 y m' y' Hp C Hm. eapply PT1; [exact Hp| |exact Hm]. eapply chg_mono; [|exact C]. simpl. intros; lia.
        + unfold PT'. intros a0 b m0 y m' y' Hw C Hm. destruct fk' as [|f0 fk0]; simpl in *.
          * eapply PT2; [exact Hw|exact C|exact Hm].
          * eapply JK; [exact Hw|exact C|exact Hm].
        + unfold PT'. apply wk_intro; [|exact HJ3]. intros a0 m0 y [(_ & _ & _ & Hp) _]. exact Hp.
      - simpl. split; [|split; [exact Hv0|split; [exact Hclos|exact HEc]]].
        rewrite Hsc, Hce, Hn0. split; [exact HE|]. split; [exact Hn|]. split; [exact Hlen|].
        eapply PT1; [exact HPT|apply chg_refl|unfold g2; cl]. }
    destruct xe as [e|]; exact HG'.
Qed.

(* ---- tail positions (optimizeTailRec) ----
   G_leaveT: a generator of the frame F1 = Frame idf oF rpc stamp scR outer (context c1, exit at F1's opret) seen from
   F1's caller cx; unlike G_leave the caller's context may be one in which F1 is pinned by pending forks (then its
   offset is the current one and it need not own F1's slots) *)
Lemma G_leaveT : forall scR, scR <> [] -> forall idf oF rpc stamp outer pr, at_ pr Iret ->
  forall cx c1 (P : list sv -> nat -> gx -> Prop),
    g_sc cx = scR -> g_pc cx = S rpc ->
    g_sc c1 = Frame idf oF rpc stamp scR outer :: scR -> g_pc c1 = pr -> g_st c1 = g_st cx -> g_base c1 = g_base cx -> g_n0 c1 = g_n0 cx ->
    (forall i, g_own c1 i -> g_own cx i) ->
    g_off cx <= g_off c1 -> oF <= g_off c1 -> (unpin (g_base cx) stamp = true -> g_off cx <= oF) ->
    (forall o3 i, g_off c1 <= o3 -> g_keep c1 i \/ g_koff c1 <= i < o3 -> g_keep cx i \/ g_koff cx <= i < o3) ->
    (forall i, g_keep0 c1 i -> g_keep0 cx i) ->
    stamp < g_ctr c1 -> g_ctr cx <= g_ctr c1 ->
    (forall vs0 fin e, encR (g_sc c1) (g_ce c1) vs0 fin e -> encR scR (g_ce cx) vs0 fin e) ->
    forall lb lb', g_ctr cx + lb' <= g_ctr c1 + lb ->
    forall ws fin s, G c1 ws (TendL lb c1 fin P) s -> G cx ws (TendL lb' cx fin P) s.
Proof.
  intros scR Hne idf oF rpc stamp outer pr A2 cx c1 P Hsc Hpc Hsc1 Hpc1 Hst1 Hb1 Hn01 Hoc Hoff HoF Hunp Hks Hk0 Hst Hcc Henc lb lb' Hlb.
  assert (Tc : forall fin s, TendL lb c1 fin P s -> TendL lb' cx fin P s).
  { intros fin s HT. destruct (Tend_inv _ _ _ _ _ _ _ HT) as [[-> HFu]|(e & vs4 & n4 & g4 & St4 & Ch4 & Le4 & HE4 & HP4)];
      [apply Tend_fuel; eapply Tfuel_mono; [|exact HFu]; lia|]. apply Tend_of. exists e, vs4, n4, g4.
    rewrite <- Hb1. split; [exact St4|]. split; [exact (chg_mono _ _ _ _ Hoc Ch4)|]. split; [exact Le4|]. split; [|exact HP4].
    rewrite Hsc. apply Henc. exact HE4. }
  induction ws as [|w ws IHws]; intros fin s HG.
  - destruct HG as (s' & St & Ch & Le & HT). exists s'. split; [exact St|]. split; [exact (chg_mono _ _ _ _ Hoc Ch)|].
    split; [exact Le|apply Tc; exact HT].
  - simpl in HG. destruct HG as (fk' & vs3 & n3 & o3 & g3 & St & Ch & Le & [Ho Hfk] & R).
    assert (Hfk' : Forall (fun f => g_ctr cx <= f_ctr f) fk').
    { eapply Forall_impl; [|exact Hfk]. simpl. intros f Hf. lia. }
    rewrite Hsc1, Hpc1, Hst1, Hb1 in St.
    destruct fk' as [|f0 fk0].
    + destruct R as [E R].
      exists [], vs3, n3, (if unpin ([] ++ g_base cx) stamp then oF else o3), g3.
      split. { eapply steps_trans; [exact St|]. eapply steps_step; [|apply steps_refl]. rewrite Hsc, Hpc. eapply st_ret; [exact A2|exact Hne]. }
      split; [exact (chg_mono _ _ _ _ Hoc Ch)|]. split; [exact Le|].
      split. { split; [|exact Hfk']. simpl app. destruct (unpin (g_base cx) stamp) eqn:Eu; [specialize (Hunp eq_refl)|]; lia. }
      split; [exact E|]. intros vs2 n2 g2 Kp L2. apply Tc. rewrite <- Hb1. apply R; [|exact L2].
      eapply keepX_mono; [|exact Kp]. exact Hk0.
    + assert (Hnf : (f_ctr f0 <=? stamp) = false).
      { apply Nat.leb_gt. inversion Hfk; subst. lia. }
      exists (f0 :: fk0), vs3, n3, o3, g3.
      split. { eapply steps_trans; [exact St|]. eapply steps_step; [|apply steps_refl]. rewrite Hsc, Hpc.
               etransitivity; [eapply st_ret; [exact A2|exact Hne]|]. simpl. rewrite Hnf. reflexivity. }
      split; [exact (chg_mono _ _ _ _ Hoc Ch)|]. split; [exact Le|].
      split. { split; [|exact Hfk']. lia. }
      intros vs2 n2 g2 Kp L2.
      assert (Kp' : keepS c1 o3 vs3 vs2).
      { eapply keepX_mono; [|exact Kp]. simpl. intros i Hi. apply Hks; [lia|exact Hi]. }
      rewrite <- Hb1. destruct (R vs2 n2 g2 Kp' L2) as [R1 R2]. split; [apply IHws; exact R1|].
      intros x Hx. rewrite <- Hn01 in Hx. destruct (R2 x Hx) as (vs4 & n4 & g4 & St4 & Ch4 & Le4). exists vs4, n4, g4.
      split; [exact St4|]. split; [exact (chg_mono _ _ _ _ Hoc Ch4)|exact Le4].
Qed.

(* entering, by an ordinary call, a parameterless function whose body is compiled in tail mode *)
Lemma G_callT : forall m body, Lemmas.ImplT nt code tco m body -> tco = true -> forall sc cur base, frameOK sc cur base ->
  forall ceF pe idf cb nvb s0 s1, ce_lt ceF idf = true -> ce_lbls ceF = [] -> at_ pe (Iscope idf nvb 0) ->
  compg tco body ceF (Some (pe, Some (Nat.eqb (nvars body) 0))) idf (S pe) 0 s0 = Some (cb, nvb, s1) -> code_at (S pe) (cb ++ [Iret]) ->
  forall cx rho v (P : list sv -> nat -> gx -> Prop) vs n o g rpc,
    g_sc cx = sc -> g_pc cx = S rpc -> g_off cx <= o ->
    (forall i, o <= i -> g_own cx i) -> (forall i, kept sc ceF i -> g_keep cx i) -> (forall i, g_keep0 cx i -> g_keep cx i) ->
    g_koff cx <= o -> envOK sc ceF rho vs (g_n0 cx) o -> g_n0 cx <= n -> o <= length vs -> g_ctr cx <= ctr g ->
    creg g = (Some rpc, sc) -> (forall i, kept sc (g_ce cx) i -> i < o) ->
    stable cx P -> P vs n g ->
    G cx (fst (den1 nt (call_of nt m) body rho v)) (TendL (lbf tco m) cx (snd (den1 nt (call_of nt m) body rho v)) P)
      (N sc pe (SV v :: g_st cx) (g_base cx) vs n o g).
Proof.
  intros m body IHT Htco sc cur base Hfr ceF pe idf cb nvb s0 s1 Hclt HlF A1 Ec Hat cx rho v P vs n o g rpc
         Hsc Hpc Hoff Hown HK2 HK0 Hko HE Hn Hlen Hct Hcr Hklt [S1 S2] HP.
  destruct (code_at_app _ _ _ _ Hat) as [Hatc Hat2]. uncons Hat2 A2.
  assert (Hne : sc <> []) by (eapply frameOK_ne; eauto).
  set (sc' := Frame idf o rpc (ctr g) sc (outer_of sc idf sc) :: sc).
  set (vs' := grow vs (o + nvb)).
  set (g1 := {| ctr := S (ctr g); creg := creg g |}).
  assert (Hps : pushed sc idf sc') by (exists o, rpc, (ctr g), sc, sc; reflexivity).
  eapply G_pre with (s1 := N sc' (S pe) (SV v :: g_st cx) (g_base cx) vs' n (o + nvb) g1).
  { eapply steps_step; [eapply st_scope; [exact A1|exact Hcr]|]. apply steps_refl. }
  { simpl. split; [apply grow_len_le|]. intros i Hi. symmetry. apply grow_nth.
    destruct (Nat.lt_ge_cases i (length vs)) as [Hl|Hl]; [exact Hl|]. exfalso. apply Hi, Hown. lia. }
  { unfold g1; cl. }
  pose proof (comp_nvars _ _ _ _ _ _ _ _ _ _ _ Ec) as Hnv. simpl in Hnv.
  assert (Hagree : forall a, a < o -> nth_error vs' a = nth_error vs a) by (intros a Ha; apply grow_nth; lia).
  refine (IHT Htco sc Hne idf o rpc (ctr g) (outer_of sc idf sc) pe nvb (Nat.eqb (nvars body) 0) A1 _ ceF (S pe) 0 s0 cb nvb s1 Ec Hatc HlF (le_n _)
            (S pe + length cb) A2 cx (fun _ _ _ _ _ _ => steps_refl _ _ _) rho v vs' n (o + nvb) g1 P Hsc Hpc Hklt _ Hn (le_n _) (grow_len _ _)
            ltac:(unfold g1; simpl; lia) ltac:(unfold g1; simpl; lia) ltac:(lia) Hko _ _ _ _ HK0 (conj S1 S2) _).
  - intros E. apply Nat.eqb_eq in E. lia.
  - rewrite Nat.add_0_r. eapply envOK_pushed; eauto.
  - intros i Hi. apply Hown. lia.
  - intros _. split; [exact Hoff|exact Hown].
  - intros x y i Hin Hi. right.
    pose proof (ce_lt_var _ _ _ _ Hclt Hin) as Hlt. rewrite (index_of_pushed _ _ _ _ Hps) in Hi by lia.
    assert (Hk : kept sc ceF i) by (left; exists x, y; split; [exact Hin|exact Hi]).
    split; [apply HK2; exact Hk|exact (kept_lt _ _ _ _ _ _ _ HE Hk)].
  - intros i Hi. assert (Hk : kept sc ceF i) by (right; right; exact Hi).
    split; [apply HK2; exact Hk|exact (kept_lt _ _ _ _ _ _ _ HE Hk)].
  - eapply S1; [exact HP| |unfold g1; cl]. split; [apply grow_len_le|]. intros i Hi. symmetry. apply grow_nth.
    destruct (Nat.lt_ge_cases i (length vs)) as [Hl|Hl]; [exact Hl|]. exfalso. apply Hi, Hown. lia.
Qed.

(* a call: of a user-defined function (opcall pc, with the closures of the arguments pushed before), or of a filter
   parameter (load the closure; callpc).  The callee runs with one unit of fuel less *)
Lemma impl_callf : forall f args, Forall (fun a => Impl a) args -> Impl (QCallF f args).
Proof.
  intros f args IHargs. impl_intro. simpl in Hc.
  destruct (lookup_cf f (length args) (ce_env ce)) as [[y|p nf|y]|] eqn:Ef; try discriminate.
  - (* a defined function *)
    pose proof HE as (Hv & Hl & Hgh).
    destruct (envOKl_fun _ _ _ _ _ _ _ _ _ _ Hv Ef) as (ps & body & cel' & rho' & pre & _ & Hlps & Hlf &
              (idf & nvb & cb & s0 & s1 & Hscp & Hcb & Hcode & Hclt) & Hv' & Epre).
    cbn [Den.den1]. rewrite Hlf.
    (* the callee's environment: its parameters, then the part of the caller's that starts at the function *)
    set (Gc := kept sc {| ce_env := ce_env ce; ce_lbls := []; ce_ghost := ce_ghost ce |}).
    set (ceF := {| ce_env := param_env idf ps ++ cel'; ce_lbls := []; ce_ghost := Gc |}).
    set (pl := prelude idf ps) in *.
    set (pcb := p + 1 + length pl) in *.
    assert (HcbF : compg tco body ceF (tl_body tco p ps body) idf pcb (param_slots ps) s0 = Some (cb, nvb, s1)) by apply Hcb.
    destruct (comp_mono _ _ _ _ _ _ _ _ _ HcbF) as [Mb _].
    assert (HatP : code_at (S p) (pl ++ cb ++ [Iret])).
    { intros i x Hi. replace (S p + i) with (p + 1 + i) by lia. apply Hcode. exact Hi. }
    destruct (code_at_app _ _ _ _ HatP) as [Hatpl Hat2]. destruct (code_at_app _ _ _ _ Hat2) as [Hatcb Hat3]. uncons Hat3 Aret.
    replace (S p + length pl) with pcb in * by (unfold pcb; lia).
    assert (Hkc : forall i, Gc i -> kept sc ce i).
    { intros i [(x & y & Hx & Hi)|[(l0 & y & Hx & Hi)|Hg]]; simpl in *; [left; eauto|discriminate|right; right; exact Hg]. }
    assert (HGlt : forall i, Gc i -> i < base + nv) by (intros i Hi; eapply kept_lt; [exact HE|apply Hkc; exact Hi]).
    destruct args as [|a0 args'].
    + (* no argument: opcall pc *)
      destruct ps as [|p0 ps']; [|discriminate Hlps]. cbn [bindps].
      case_eq fu; [intros Efu|intros m Efu].
      { (* no fuel: nothing is claimed *) cbn [call_of fst snd]. apply G_fuel. unfold c; simpl; lia. }
      cbn [call_of]. assert (Hm : m < fu) by lia.
      inversion Hc; subst cq nv' sn'. clear Hc. uncons Hat A1.
      assert (Epcb : pcb = S p) by (unfold pcb, pl; simpl; lia). rewrite Epcb in *. cbn [param_slots] in HcbF.
      eapply G_pre; [one st_callf; apply steps_refl|apply chg_refl|cl|].
      subst c.
      destruct (Bool.bool_dec tco true) as [Etco|Etco].
      { (* optimizeTailRec on: the body is compiled in tail mode and delivers to this call site by itself *)
        assert (Etl : tl_body tco p [] body = Some (p, Some (Nat.eqb (nvars body) 0))) by (unfold tl_body; rewrite Etco; reflexivity).
        rewrite Etl in HcbF.
        assert (HEb : envOK sc ceF rho' vs n0 o).
        { split; [|split].
          - simpl. eapply envOKl_ghost; [|eapply envOKl_lim; [exact Hv'|lia]]. intros i Hi. right. right. exact Hi.
          - simpl. intros l0 y0 Hy. discriminate.
          - simpl. intros i Hi. apply HGlt in Hi. lia. }
        assert (Hkb : forall i, kept sc ceF i -> kept sc ce i).
        { intros i [(x & y & Hx & Hi)|[(l0 & y & Hx & Hi)|Hg]]; simpl in *; [|discriminate|apply Hkc; exact Hg].
          left. exists x, y. split; [|exact Hi]. rewrite Epre. destruct Hx as [Hx|Hx]; [left|right]; apply suffix_In; exact Hx. }
        eapply G_impl; [intros s5 HT5; refine (Tend_lb_mono (lbf tco m) _ _ _ _ _ _ HT5); rewrite Etco; simpl; lia|].
        apply (G_callT m body (IHfuT m Hm body) Etco sc cur base Hfr ceF p idf cb nvb s0 s1 Hclt eq_refl Hscp HcbF Hat2
                 (ctx_of sc (pc + length [Icallf p]) st fk (base + nv) (base + nv) o ko K K0 ce n0 (ctr g))
                 rho' v P vs n o {| ctr := ctr g; creg := (Some pc, sc) |} pc); simpl; auto; try lia.
        - intros i Hi. pose proof (kept_lt _ _ _ _ _ _ _ HE Hi). lia.
        - split; [exact S1|exact S2].
        - eapply S1; [exact HP|apply chg_refl|cl]. }
      apply Bool.not_true_is_false in Etco.
      assert (Etl : tl_body tco p [] body = None) by (unfold tl_body; rewrite Etco; reflexivity).
      rewrite Etl in HcbF.
      assert (HEb : envOK sc ceF rho' vs n0 o).
      { split; [|split].
        - simpl. eapply envOKl_ghost; [|eapply envOKl_lim; [exact Hv'|lia]]. intros i Hi. right. right. exact Hi.
        - simpl. intros l0 y0 Hy. discriminate.
        - simpl. intros i Hi. apply HGlt in Hi. lia. }
      assert (Hkb : forall i, kept sc ceF i -> kept sc ce i).
      { intros i [(x & y & Hx & Hi)|[(l0 & y & Hx & Hi)|Hg]]; simpl in *; [|discriminate|apply Hkc; exact Hg].
        left. exists x, y. split; [|exact Hi]. rewrite Epre. destruct Hx as [Hx|Hx]; [left|right]; apply suffix_In; exact Hx. }
      apply (G_call m body (IHfu m Hm body) sc cur base Hfr sc ceF p idf cb nvb s0 s1 Hclt Hscp HcbF Hat2
               (ctx_of sc (pc + length [Icallf p]) st fk (base + nv) (base + nv) o ko K K0 ce n0 (ctr g))
               rho' v P vs n o {| ctr := ctr g; creg := (Some pc, sc) |} pc); simpl; auto; try lia; try apply lbf_S.
      * intros vs' fin e HEn. destruct fin as [[e0|l0|]|]; simpl in *; auto.
        destruct HEn as (x & k & id & Hk & _). discriminate.
      * intros a b m0 x m' x' Hp C Hm0. eapply S1; [exact Hp| |exact Hm0]. eapply chg_mono; [|exact C]. simpl. intros; lia.
      * eapply S1; [exact HP|apply chg_refl|cl].
    + (* arguments: store v; the closures; load v; opcall pc *)
      destruct ps as [|p0 ps']; [discriminate Hlps|].
      assert (Etl : tl_body tco p (p0 :: ps') body = None) by (unfold tl_body; simpl; rewrite andb_false_r; reflexivity).
      rewrite Etl in HcbF.
      (* the fuel of the call: none (z) or m for the body *)
      assert (Hz : exists z m, (z = false -> Lemmas.Impl nt code tco m body) /\ fu = (if z then 0 else S m) /\
                 forall env, call_of nt fu body env v = if z then ([], Some XFuel) else den1 nt (call_of nt m) body env v).
      { case_eq fu; [intros Efu; exists true, 0; split; [discriminate|split; reflexivity]|].
        intros m Efu. exists false, m. split; [intros _; apply IHfu; lia|split; reflexivity]. }
      destruct Hz as (z & m & IHb & Hfz & Hkz).
      set (lbm := if z then 0 else lbf tco m).
      assert (HlbS : lbf tco fu <= S lbm) by (rewrite Hfz; unfold lbm; destruct z; [simpl; lia|apply lbf_S]).
      assert (Hlbfu : lbm <= lbf tco fu) by (rewrite Hfz; unfold lbm; destruct z; [lia|destruct tco, m; simpl; lia]).
      assert (Hlbz : if z then lbm = 0 else lbm <= lbf tco m) by (unfold lbm; destruct z; [reflexivity|lia]).
      set (nps := S (length ps')).
      assert (Hnps : length (a0 :: args') = nps) by (unfold nps; simpl in *; lia).
      set (evi := fun i => match nth_error (a0 :: args') i with Some a => den a rho v | None => ([], None) end).
      set (kz := fun env => if z then ([], Some XFuel) else den1 nt (call_of nt m) body env v).
      set (pvs := pv_params (p0 :: ps') 0).
      set (rhoF := pf_binds (p0 :: ps') (a0 :: args') rho ++ rho').
      assert (Eb : bindps (fun a => den a rho v) (fun env => call_of nt fu body env v) (p0 :: ps') (a0 :: args') rhoF
                   = bindpv evi kz pvs rhoF).
      { rewrite (bindps_pvs _ _ _ _ 0 _ Hlps). fold pvs. rewrite (bindpv_extk _ _ kz pvs rhoF Hkz).
        apply bindpv_ext. intros i x _. rewrite Nat.sub_0_r. reflexivity. }
      fold rhoF. rewrite Eb. clear Eb.
      destruct (Nat.ltb_spec cur sn) as [Hlt|]; [|discriminate]. destruct (ce_lt ce sn) eqn:Hce; [|discriminate]. cbn [andb] in Hc.
      match type of Hc with context [comp_args ?C ?l ?p ?s] => destruct (comp_args C l p s) as [[[cas pe] s2]|] eqn:Eas; [|discriminate] end.
      inversion Hc; subst cq nv' sn'. clear Hc.
      uncons Hat A0. destruct (code_at_app _ _ _ _ Hat) as [Hatas Hat4].
      assert (HCm : forall a s p0 cb0 nvc s3, comp a (fun_env ce) s (p0 + 2) 0 (S s) = Some (cb0, nvc, s3) -> s <= s3).
      { intros a s p1 cb0 nvc s3 Hca. apply comp_mono in Hca. lia. }
      destruct (args_run _ HCm _ _ _ _ _ _ Eas Hatas) as (pcs & Hpl & Epe & Hsn2 & Hst & HFa).
      assert (HFa' : Forall2 (fun a q => funOK code tco (S q) [] a (ce_env ce) None) (a0 :: args') pcs).
      { clear - HFa Hce. induction HFa as [|a q la lq (id & cb0 & nvc & s3 & Hid & Hq & Hca & Hatq) HFr IHF]; constructor; [|exact IHF].
        exists id, nvc, cb0, (S id), s3. cbn [prelude param_env pv_env pf_env pv_params param_slots length app]. split; [exact Hq|]. split; [|split].
        - intros G. rewrite <- Hca. replace (S q + 1 + 0) with (q + 2) by lia. apply comp_ghost; reflexivity.
        - intros i x Hi. replace (S q + 1 + i) with (S (S q) + i) by lia. apply Hatq. exact Hi.
        - apply ce_lt_nolbl. eapply ce_lt_mono; [exact Hce|exact Hid]. }
      uncons Hat4 A1. uncons Hat4 A2.
      set (clos := map (fun q => SPc (S q) sc) pcs) in *.
      assert (Hcl : length clos = nps) by (unfold clos; rewrite map_length; lia).
      destruct (prelude_at idf p0 ps' (S p) Hatpl) as (P0 & Pst & Ppv & Plen). fold pl in Plen. fold nps pvs in Ppv, Plen.
      set (pcall := S (S pc + length cas)) in *.
      assert (Epc : pc + length (Istore (cur, nv) :: cas ++ [Iload (cur, nv); Icallf p]) = S pcall).
      { simpl. rewrite app_length. simpl. unfold pcall. lia. }
      subst c. rewrite Epc.
      set (c := ctx_of sc (S pcall) st fk (base + nv) (base + S nv) o ko K K0 ce n0 (ctr g)).
      destruct (update_some vs (base + nv) (SV v)) as [vs1 U]; [lia|]. destruct (update_spec _ _ _ _ U) as (UL & UN & UO).
      set (g' := {| ctr := ctr g; creg := (Some pcall, sc) |}).
      eapply G_pre with (s1 := N sc p (SV v :: clos ++ st) fk vs1 n o g').
      { eapply steps_step; [eapply st_store; [exact A0|apply Hcur|exact U]|]. eapply steps_trans; [apply Hst|]. rewrite Epe.
        eapply steps_step; [eapply st_load; [exact A1|apply Hcur|exact UN]|]. one st_callf. apply steps_refl. }
      { eapply chg_update; [exact U|]. simpl. lia. }
      { unfold g'. cl. }
      set (pr := pcb + length cb) in *.
      apply (G_enter sc cur base Hfr sc p idf nvb (length (p0 :: ps')) pr Hscp Aret c ceF P (SV v :: clos ++ st) vs1 n o g' pcall) with (lb := lbm);
        try (simpl; auto; lia); try exact HlbS.
      { intros vs0 fin e HEn. destruct fin as [[e0|l0|]|]; simpl in *; auto. destruct HEn as (x & k & id & Hk & _). discriminate. }
      set (sc' := Frame idf o pcall (ctr g') sc (outer_of sc idf sc) :: sc).
      set (vs' := grow vs1 (o + nvb)).
      set (g1 := {| ctr := S (ctr g'); creg := creg g' |}).
      set (K' := fun i => g_keep c i \/ o <= i < o + nvb).
      assert (Hfr' : frameOK sc' idf o) by (exists pcall, (ctr g'), sc, (outer_of sc idf sc), sc; reflexivity).
      pose proof (frameOK_cur _ _ _ Hfr') as Hcur'.
      assert (Hps : pushed sc idf sc') by (exists o, pcall, (ctr g'), sc, sc; reflexivity).
      assert (Hl' : o + nvb <= length vs') by apply grow_len.
      assert (Hslots : param_slots (p0 :: ps') = S nps + length pvs) by reflexivity.
      rewrite Hslots in *.
      (* the prelude: store the input and the closures *)
      destruct (update_some vs' (o + 0) (SV v)) as [vsA UA]; [lia|]. destruct (update_spec _ _ _ _ UA) as (UAL & UAN & UAO).
      destruct (stores_run sc' idf o Hfr' clos 1 (S (S p)) st fk vsA n (o + nvb) g1) as (vsB & StB & LB & HB1 & HB2).
      { intros i Hi. apply Pst. unfold nps in Hcl. lia. }
      { lia. }
      assert (HvB : nth_error vsB (o + 0) = Some (SV v)) by (rewrite HB2 by lia; exact UAN).
      assert (Hagree : forall a, a < o -> nth_error vsB a = nth_error vs1 a).
      { intros a Ha. rewrite HB2 by lia. rewrite UAO by lia. unfold vs'. apply grow_nth. lia. }
      assert (Hagree0 : forall a, a < base + nv -> nth_error vsB a = nth_error vs a).
      { intros a Ha. rewrite Hagree by lia. apply UO. lia. }
      set (pcx := S (S p) + nps).
      assert (StP : steps (N sc' (S p) (SV v :: clos ++ st) fk vs' n (o + nvb) g1) (N sc' pcx st fk vsB n (o + nvb) g1)).
      { eapply steps_step; [eapply st_store; [exact P0|apply Hcur'|exact UA]|].
        replace pcx with (S (S p) + length clos) by (unfold pcx; lia). exact StB. }
      eapply G_pre; [exact StP| |cl|].
      { simpl. split; [lia|]. intros i Hi. rewrite HB2, UAO; auto; [lia| ].
        destruct (Nat.lt_ge_cases i (o + 1)); [left; lia|]. destruct (Nat.lt_ge_cases i (o + 1 + length clos)); [|right; lia].
        exfalso. apply Hi. lia. }
      (* the value parameters, then the body, in the environment of the parameters *)
      set (ceJ := {| ce_env := pf_env idf (p0 :: ps') 0 ++ cel'; ce_lbls := []; ce_ghost := Gc |}).
      assert (HEcB : envOKl code tco Gc sc vsB (base + nv) (ce_env ce) rho).
      { eapply envOKl_same; [eapply envOKl_ghost; [|exact Hv]|..].
        * intros i Hi. right. right. exact Hi.
        * intros x y k Hin Hk. symmetry. apply Hagree0. exact (envOKl_kept_lt _ _ _ _ _ _ x y k Hv Hin Hk).
        * intros k Hk. symmetry. apply Hagree0. apply HGlt. exact Hk. }
      assert (HEJ : envOK sc' ceJ rhoF vsB n0 (o + S nps + 0)).
      { split; [|split].
        - unfold ceJ. cbn [ce_env ce_ghost].
          refine (envOKl_params Gc sc' vsB (o + S nps + 0) sc cur base (ce_env ce) rho (base + nv) idf o Hfr Hfr' ltac:(lia) _ _
                    (p0 :: ps') (a0 :: args') pcs 0 cel' rho' Hlps HFa' _ _ _).
          + cbn [ce_ghost]. exact HEcB.
          + intros i Hi. split.
            * destruct Hi as [(x & y & Hx & Hi)|[(l0 & y & Hx & Hi)|Hg]]; simpl in *; [left; eauto|discriminate|exact Hg].
            * apply HGlt. destruct Hi as [(x & y & Hx & Hi)|[(l0 & y & Hx & Hi)|Hg]]; simpl in *; [left; eauto|discriminate|exact Hg].
          + intros k q Hq. replace (o + S (0 + k)) with (o + 1 + k) by lia. apply HB1. unfold clos. rewrite nth_error_map, Hq. reflexivity.
          + unfold nps. simpl. lia.
          + eapply envOKl_lim; [|instantiate (1 := base + nv); lia].
            eapply envOKl_pushed; [exact Hps| |eapply envOKl_ghost; [|exact Hv']|].
            * exact Hagree0.
            * intros i Hi. right. right. exact Hi.
            * intros x y Hin. pose proof (ce_lt_var {| ce_env := cel'; ce_lbls := []; ce_ghost := fun _ => False |} idf x y Hclt Hin). lia.
        - simpl. intros l0 y0 Hy. discriminate.
        - simpl. intros i Hi. apply HGlt in Hi. lia. }
      assert (HKJ : forall i, kept sc' ceJ i -> K' i).
      { intros i Hi. unfold K'.
        destruct Hi as [(x & y & Hx & Hi)|[(l0 & y & Hx & Hi)|Hg]]; [|simpl in Hx; discriminate|left; apply HK2, Hkc; exact Hg].
        unfold ceJ in Hx. cbn [ce_env] in Hx.
        assert (Hy : (exists j, y = (idf, S j) /\ j < nps) \/ ((In (x, CV y) cel' \/ In (x, CP y) cel') /\ fst y < idf)).
        { destruct Hx as [Hx|Hx]; apply in_app_or in Hx; destruct Hx as [Hx|Hx].
          - exfalso. exact (proj1 (pf_env_In idf (p0 :: ps') 0 x y) Hx).
          - right. split; [auto|]. exact (ce_lt_var {| ce_env := cel'; ce_lbls := []; ce_ghost := fun _ => False |} idf x y Hclt (or_introl Hx)).
          - left. destruct (proj2 (pf_env_In idf (p0 :: ps') 0 x y) Hx) as (j & -> & Hj). exists j. simpl in Hj. unfold nps. split; [auto|lia].
          - right. split; [auto|]. exact (ce_lt_var {| ce_env := cel'; ce_lbls := []; ce_ghost := fun _ => False |} idf x y Hclt (or_intror Hx)). }
        destruct Hy as [(j & -> & Hj)|[Hx' Hlt']].
        - rewrite Hcur' in Hi. inversion Hi; subst i. right. lia.
        - rewrite (index_of_pushed _ _ _ _ Hps) in Hi by lia. left. apply HK2. left. exists x, y. split; [|exact Hi].
          rewrite Epre. destruct Hx' as [Hx'|Hx']; [left|right]; apply suffix_In; exact Hx'. }
      set (cx := ctx_of sc' pr st fk (o + S nps + 0) (o + nvb) (o + nvb) (o + nvb) K' K0 ceJ n0 (ctr g1)).
      refine (G_sub nt code cx
                (ctx_of sc' pr st fk (o + 0) (o + nvb) (o + nvb) (o + nvb) K' K0 ceF n0 (ctr g1)) _ _
                eq_refl eq_refl eq_refl eq_refl _ (fun _ _ _ H => H) (fun _ _ H => H) (le_n _) (le_n _) (le_n _) _ _ _
                (pv_loop sc cur base Hfr ce rho (base + nv) v n0 sc' idf o Hfr' Hps ltac:(lia) HGlt (a0 :: args') pcs nps HFa' IHargs Hnps
                   z m body ceF pcb (S nps + length pvs) cb nvb s0 s1 st lbm IHb Hlbfu Hlbz HcbF Hatcb Aret eq_refl eq_refl
                   pvs 0 ceJ rhoF pcx cx P vsB n (o + nvb) g1 _ eq_refl eq_refl _ _ Ppv _ HEJ HvB _ HEcB
                   eq_refl eq_refl eq_refl eq_refl eq_refl eq_refl (le_n _) (le_n _) _ Hn (le_n _) _ _ _ _ HKJ _ _ _ _)).
      { simpl. intros; lia. }
      { intros s3. tsub. }
      { unfold ceF, ceJ, param_env. cbn [ce_env]. rewrite <- app_assoc. reflexivity. }
      { lia. }
      { intros i x Hin. apply pv_params_ge in Hin. unfold nps. simpl in Hin. lia. }
      { unfold pcb, pcx. rewrite Plen. unfold nps. lia. }
      { intros i q Hq. replace (o + S i) with (o + 1 + i) by lia. apply HB1. unfold clos. rewrite nth_error_map, Hq. reflexivity. }
      { lia. }
      { simpl. intros; lia. }
      { simpl. intros; lia. }
      { intros i Hi. unfold K'. right. lia. }
      { intros i Hi. unfold K'. left. apply HK2, Hkc. exact Hi. }
      { intros i Hi. unfold K'. left. apply HK0. exact Hi. }
      { intros a b m0 x m' x' Hp C Hm0. eapply S1; [exact Hp| |exact Hm0]. eapply chg_mono; [|exact C]. simpl; intros; lia. }
      { intros a b m0 x m' x' Hp C Hm0. eapply S2; [exact Hp|exact C|exact Hm0]. }
      { eapply S1; [exact HP| |unfold g1, g'; cl]. simpl. split; [pose proof (grow_len_le vs1 (o + nvb)); fold vs' in H; lia|]. intros i Hi.
        assert (Hi1 : i <> base + nv /\ i < o) by lia.
        rewrite Hagree by lia. symmetry. apply UO. lia. }
  - (* a filter parameter: load the closure; callpc *)
    inversion Hc; subst cq nv' sn'. clear Hc. uncons Hat A0. uncons Hat A1.
    pose proof HE as (Hv & Hl & Hgh).
    assert (Ea0 : length args = 0).
    { destruct args as [|a0 args']; [reflexivity|]. exfalso. clear - Ef. simpl length in Ef.
      induction (ce_env ce) as [|[z [k|q n|k]] r IH]; simpl in Ef; try discriminate; auto.
      - destruct (N.eqb f z && Nat.eqb n (S (length args'))); [discriminate|auto].
      - rewrite andb_false_r in Ef. auto. }
    rewrite Ea0 in Ef.
    destruct (envOKl_par _ _ _ _ _ _ _ _ Hv Ef) as (a & rho_a & rho'' & addr & pa & idx & cel_a & cur_a & base_a & lim_a & Ga & Hlf & Hia & Hal & Hna &
              (ida & nva & cba & s0a & s1a & Hsca & Hcba & Hcodea & Hclta) & Htop & Hla & Hva & Hka).
    cbn [Den.den1]. rewrite Ea0, Hlf.
    case_eq fu; [intros Efu|intros m Efu].
    { cbn [call_of fst snd]. apply G_fuel. unfold c; simpl; lia. }
    cbn [call_of]. assert (Hm : m < fu) by lia.
    set (cea := {| ce_env := cel_a; ce_lbls := []; ce_ghost := Ga |}).
    assert (Hcba' : comp a cea ida (S pa) 0 s0a = Some (cba, nva, s1a)).
    { specialize (Hcba Ga). simpl in Hcba. replace (pa + 1 + 0) with (S pa) in Hcba by lia. exact Hcba. }
    assert (Hata : code_at (S pa) (cba ++ [Iret])).
    { intros i x Hi. replace (S pa + i) with (pa + 1 + i) by lia. apply Hcodea. exact Hi. }
    eapply G_pre; [eapply steps_step; [eapply st_load; [exact A0|exact Hia|exact Hna]|]; one st_callpc; apply steps_refl|apply chg_refl|cl|].
    subst c.
    apply (G_call m a (IHfu m Hm a) sc cur base Hfr idx cea pa ida cba nva s0a s1a Hclta Hsca Hcba' Hata
             (ctx_of sc (pc + length [Iload y; Icallpc]) st fk (base + nv) (base + nv) o ko K K0 ce n0 (ctr g))
             rho_a v P vs n o {| ctr := ctr g; creg := (Some (S pc), idx) |} (S pc)); simpl; auto; try lia; try apply lbf_S.
    + intros vs' fin e HEn. destruct fin as [[e0|l0|]|]; simpl in *; auto.
      destruct HEn as (x & k & id & Hk & _). discriminate.
    + intros i Hi. apply HK2. right. right. apply Hka. exact Hi.
    + split; [|split].
      * simpl. eapply envOKl_lim; [exact Hva|lia].
      * simpl. intros l0 y0 Hy. discriminate.
      * simpl. intros i Hi. assert (i < lim_a) by (apply Hka; right; right; exact Hi). lia.
    + intros a1 b m0 x m' x' Hp C Hm0. eapply S1; [exact Hp| |exact Hm0]. eapply chg_mono; [|exact C]. simpl. intros; lia.
    + eapply S1; [exact HP|apply chg_refl|cl].
Qed.


(* the argument is a closure: jump over it; at the call site load v, push (entry pc, current scope index), callpc *)
Lemma G_arg_closure : forall q, Impl q -> forall sc cur base, frameOK sc cur base ->
  forall ce p sn cb nvc s1 k, cur < sn -> ce_lt ce sn = true -> comp q ce sn (p + 2) 0 (S sn) = Some (cb, nvc, s1) ->
  code_at p (Ijump (p + 2 + length cb + 1) :: Iscope sn nvc 0 :: cb ++ [Iret; Iload (cur, k); Ipushpc (S p); Icallpc]) ->
  forall cx rho v (P : list sv -> nat -> gx -> Prop) vs n o g,
    g_sc cx = sc -> g_pc cx = p + 2 + length cb + 4 -> g_off cx = o -> ce_lbls (g_ce cx) = ce_lbls ce ->
    (forall i, o <= i -> g_own cx i) -> (forall i, kept sc ce i -> g_keep cx i) -> (forall i, g_keep0 cx i -> g_keep cx i) ->
    g_koff cx <= o -> envOK sc ce rho vs (g_n0 cx) o -> g_n0 cx <= n -> o <= length vs -> g_ctr cx <= ctr g ->
    nth_error vs (base + k) = Some (SV v) ->
    (forall a b m x m' x', P a m x -> chg (fun i => o <= i) a b -> cle m x m' x' -> P b m' x') ->
    (forall a b m x m' x', P a m x -> keepK0 cx a b -> cle m x m' x' -> P b m' x') ->
    P vs n g ->
    G cx (fst (den q rho v)) (Tend cx (snd (den q rho v)) P) (N sc p (g_st cx) (g_base cx) vs n o g).
Proof.
  intros q IH sc cur base Hfr ce p sn cb nvc s1 k Hlt Hce Ec Hat cx rho v P vs n o g Hsc Hpc Hoff Hlb Hown HK2 HK0 Hko HE Hn Hlen Hct Hv HP1 HP2 HP.
  pose proof (frameOK_cur _ _ _ Hfr) as Hcur.
  replace (p + 2) with (S (S p)) in * by lia.
  set (pr := S (S p) + length cb) in *.
  replace (pr + 1) with (S pr) in Hat by lia.
  uncons Hat A0. uncons Hat A1.
  assert (Hatb : code_at (S (S p)) (cb ++ [Iret])).
  { intros i x Hi. apply Hat. destruct (Nat.lt_ge_cases i (length cb)) as [Hl|Hl].
    - rewrite nth_error_app1 in Hi by exact Hl. rewrite nth_error_app1 by exact Hl. exact Hi.
    - rewrite nth_error_app2 in Hi by exact Hl. rewrite nth_error_app2 by exact Hl.
      destruct (i - length cb) as [|[|?]]; simpl in *; try discriminate. exact Hi. }
  destruct (code_at_app _ _ _ _ Hat) as [_ Hat2]. fold pr in Hat2.
  uncons Hat2 A2. uncons Hat2 A3. uncons Hat2 A4. uncons Hat2 A5.
  set (pcall := S (S (S pr))) in *.
  eapply G_pre; [one st_jump; eapply steps_step; [eapply st_load; [exact A3|apply Hcur|exact Hv]|]; one st_pushpc; one st_callpc; apply steps_refl
                |apply chg_refl|cl|].
  apply (G_call fu q IH sc cur base Hfr sc ce (S p) sn cb nvc (S sn) s1 Hce A1 Ec Hatb cx rho v P vs n o
           {| ctr := ctr g; creg := (Some pcall, sc) |} pcall); auto.
  - rewrite Hpc. unfold pcall. lia.
  - intros vs' fin e HEn. eapply encR_lbls; [symmetry; exact Hlb|exact HEn].
  - eapply HP1; [exact HP|apply chg_refl|cl].
Qed.

(* an argument in any of its forms: load v (empty body), an inlined instruction (a native generator or a call of
   a user-defined function, executed in the caller's frame), a closure *)
Lemma G_arg : forall q, Impl q -> forall sc cur base, frameOK sc cur base ->
  forall ce p sn cb nvc s1 k, cur < sn -> ce_lt ce sn = true -> comp q ce sn (p + 2) 0 (S sn) = Some (cb, nvc, s1) ->
  code_at p (arg_code (cur, k) p sn cb nvc) ->
  forall cx rho v (P : list sv -> nat -> gx -> Prop) vs n o g nvl,
    g_sc cx = sc -> g_pc cx = p + length (arg_code (cur, k) p sn cb nvc) -> g_off cx = o -> ce_lbls (g_ce cx) = ce_lbls ce ->
    (forall i, o <= i -> g_own cx i) -> (forall i, kept sc ce i -> g_keep cx i) -> (forall i, g_keep0 cx i -> g_keep cx i) ->
    g_koff cx <= o -> envOK sc ce rho vs (g_n0 cx) (base + nvl) -> base + nvl <= g_koff cx ->
    g_n0 cx <= n -> o <= length vs -> g_ctr cx <= ctr g ->
    nth_error vs (base + k) = Some (SV v) ->
    (forall a b m x m' x', P a m x -> chg (fun i => o <= i) a b -> cle m x m' x' -> P b m' x') ->
    (forall a b m x m' x', P a m x -> keepK0 cx a b -> cle m x m' x' -> P b m' x') ->
    P vs n g ->
    G cx (fst (den q rho v)) (Tend cx (snd (den q rho v)) P) (N sc p (g_st cx) (g_base cx) vs n o g).
Proof.
  intros q IH sc cur base Hfr ce p sn cb nvc s1 k Hlt Hce Ec Hat cx rho v P vs n o g nvl Hsc Hpc Hoff Hlb Hown HK2 HK0 Hko HEl Hnvl Hn Hlen Hct Hv HP1 HP2 HP.
  pose proof (frameOK_cur _ _ _ Hfr) as Hcur.
  assert (HE : envOK sc ce rho vs (g_n0 cx) o) by (eapply envOK_lim; [exact HEl|lia]).
  destruct cb as [|x [|x2 r]].
  - (* empty body: load v *)
    destruct (comp_nil _ _ _ _ _ _ _ _ Ec) as (E1 & -> & ->). rewrite (emptycode_den nt _ _ E1). cbn [fst snd].
    simpl in Hat, Hpc. uncons Hat A0.
    eapply G_single with (o3 := o); [rewrite Hsc, Hpc; replace (p + 1) with (S p) by lia;
                       eapply steps_step; [eapply st_load; [exact A0|apply Hcur|exact Hv]|apply steps_refl]
                     |apply chg_refl|cl|rewrite Hoff; lia|].
    intros vs2 n2 g2 Kp L2. eapply HP2; eauto.
  - destruct (Nat.eqb_spec nvc 0) as [->|Hnz].
    + (* one instruction that owns no variable *)
      unfold arg_code in Hat, Hpc. simpl Nat.eqb in Hat, Hpc. cbv iota in Hat, Hpc.
      destruct (comp_single nt (call_of nt fu) _ _ _ _ _ _ _ _ Ec) as [[Hs Hd]|(f & pf & nf & -> & Hlf & Hd)]; rewrite Hd.
      * destruct x; try discriminate Hs; simpl in Hat, Hpc.
        -- (* const *) uncons Hat A0. cbn [den_instr fst snd].
           eapply G_single with (o3 := o); [rewrite Hsc, Hpc; replace (p + 1) with (S p) by lia; one st_push; apply steps_refl
                            |apply chg_refl|cl|rewrite Hoff; lia|].
           intros vs2 n2 g2 Kp L2. eapply HP2; eauto.
        -- (* backtrack *) uncons Hat A0. uncons Hat A1. cbn [den_instr fst snd].
           eapply G_end; [eapply steps_step; [eapply st_load; [exact A0|apply Hcur|exact Hv]|]; rewrite <- Hsc; one st_backtrack; apply steps_refl
                         |apply chg_refl|cl|reflexivity|exact HP].
        -- (* index *) uncons Hat A0. uncons Hat A1. cbn [den_instr].
           eapply G_pre; [eapply steps_step; [eapply st_load; [exact A0|apply Hcur|exact Hv]|apply steps_refl]|apply chg_refl|cl|].
           rewrite <- Hsc. apply G_index with (o := o); auto; try lia.
        -- (* call *) destruct f; try discriminate Hs. uncons Hat A0. uncons Hat A1. cbn [den_instr].
           destruct (n_fn0 nt f v) as [w|e] eqn:E; cbn [of_sum fst snd].
           ++ eapply G_single with (o3 := o); [rewrite Hpc; replace (p + 2) with (S (S p)) by lia;
                               eapply steps_step; [eapply st_load; [exact A0|apply Hcur|exact Hv]|]; rewrite Hsc; one st_call0_ok; apply steps_refl
                              |apply chg_refl|cl|rewrite Hoff; lia|].
              intros vs2 n2 g2 Kp L2. eapply HP2; eauto.
           ++ eapply G_end; [eapply steps_step; [eapply st_load; [exact A0|apply Hcur|exact Hv]|]; one st_call0_err; apply steps_refl
                            |apply chg_refl|cl|reflexivity|exact HP].
        -- (* iter *) uncons Hat A0. uncons Hat A1. cbn [den_instr].
           eapply G_pre; [eapply steps_step; [eapply st_load; [exact A0|apply Hcur|exact Hv]|apply steps_refl]|apply chg_refl|cl|].
           rewrite <- Hsc. apply G_iter with (o := o); auto; try lia.
      * (* a call of a user-defined function, in the caller's frame *)
        simpl in Hat, Hpc. uncons Hat A0.
        eapply G_pre; [eapply steps_step; [eapply st_load; [exact A0|apply Hcur|exact Hv]|apply steps_refl]|apply chg_refl|cl|].
        assert (Ecf : comp (QCallF f []) ce cur (S p) nvl sn = Some ([Icallf pf], nvl, sn)) by (simpl; rewrite Hlf; reflexivity).
        apply (impl_body fu (QCallF f []) (impl_callf f [] (Forall_nil _)) sc cur base Hfr ce (S p) nvl sn [Icallf pf] nvl sn Ecf Hat cx rho v vs n o g P); auto; try lia.
        -- rewrite Hpc. simpl. lia.
        -- intros i [Hi|Hi]; [lia|auto].
        -- intros a b m x m' x' Hp C Hm. eapply HP1; [exact Hp| |exact Hm]. eapply chg_mono; [|exact C]. simpl; intros; lia.
    + (* a closure around one instruction *)
      assert (En : Nat.eqb nvc 0 = false) by (apply Nat.eqb_neq; exact Hnz).
      unfold arg_code in Hat, Hpc. rewrite En in Hat, Hpc.
      apply (G_arg_closure q IH sc cur base Hfr ce p sn [x] nvc s1 k Hlt Hce Ec Hat cx rho v P vs n o g); auto.
      rewrite Hpc. simpl. lia.
  - (* a closure *)
    unfold arg_code in Hat, Hpc.
    apply (G_arg_closure q IH sc cur base Hfr ce p sn (x :: x2 :: r) nvc s1 k Hlt Hce Ec Hat cx rho v P vs n o g); auto.
    rewrite Hpc. simpl. rewrite app_length. simpl. lia.
Qed.

Lemma impl_binop : forall op a b, Impl a -> Impl b -> Impl (QBinop op a b).
Proof.
  intros op a b IHa IHb. impl_intro.
  destruct (comp_binop_inv _ _ _ _ _ _ _ _ _ _ _ Hc) as (Hlt & Hce & cb & nb & s1 & ca & na & Eb & Ea & -> & ->). clear Hc.
  assert (Hce1 : ce_lt ce s1 = true).
  { unfold ce_lt in *. apply andb_true_iff in Hce. destruct Hce as [H1 H2]. destruct (comp_mono _ _ _ _ _ _ _ _ _ Eb) as [_ Ms].
    apply andb_true_iff. split; (eapply forallb_forall; intros e He); [rewrite forallb_forall in H1; specialize (H1 _ He); destruct (snd e); auto; apply Nat.ltb_lt in H1; apply Nat.ltb_lt; lia
      |rewrite forallb_forall in H2; specialize (H2 _ He); apply Nat.ltb_lt in H2; apply Nat.ltb_lt; lia]. }
  set (cb' := arg_code (cur, nv) (S pc) sn cb nb) in *.
  set (ca' := arg_code (cur, nv) (S pc + length cb') s1 ca na) in *.
  destruct (comp_mono _ _ _ _ _ _ _ _ _ Eb) as [_ Ms1].
  std_facts. pose proof (conj S1 S2) as HS. destruct (stable_sub _ _ _ _ _ _ _ _ _ _ _ _ _ _ HS) as [S1' S2'].
  assert (HJ0 : Jstd sc ce rho n0 (base + nv) o P vs n g) by (split; auto).
  uncons Hat A0. destruct (code_at_app _ _ _ _ Hat) as [Hatb Hat2].
  destruct (code_at_app _ _ _ _ Hat2) as [Hata Hat3]. uncons Hat3 A1. uncons Hat3 A2.
  set (pA := S pc + length cb') in *. set (pL := pA + length ca') in *.
  assert (Epc : pc + length (Istore (cur, nv) :: cb' ++ ca' ++ [Iload (cur, nv); Icall (NF2 op)]) = S (S pL)).
  { simpl. rewrite !app_length. simpl. unfold pL, pA. lia. }
  subst c. rewrite Epc in *.
  set (c := ctx_of sc (S (S pL)) st fk (base + nv) (base + S nv) o ko K K0 ce n0 (ctr g)).
  destruct (update_some vs (base + nv) (SV v)) as [vs1 U]; [lia|].
  destruct (update_spec _ _ _ _ U) as (UL & UN & UO).
  assert (HJ1 : Jstd sc ce rho n0 (base + nv) o P vs1 n g) by (eapply Jstd_update; [exact S1'|exact HJ0|exact U|lia|lia]).
  eapply G_pre; [eapply steps_step; [eapply st_store; [exact A0|apply Hcur|exact U]|apply steps_refl]
                |eapply chg_update; [exact U|simpl; lia]|cl|].
  set (Jg := fun p : list sv => nth_error p (base + nv) = Some (SV v)).
  assert (HJgK : forall p q, Jg p -> keepX K p q -> Jg q).
  { intros p q Hg C. unfold Jg in *. rewrite <- Hg. symmetry. apply C. apply HK1. lia. }
  cbn [Den.den1].
  set (f := fun r => bind (den a rho v) (fun l => of_sum (n_fn2 nt op v l r))).
  pose proof HJ1 as (E1 & Hn1 & Hl1 & Hp1).
  refine (bind_std f Jg sc pA st (base + S nv) (base + S nv) (S (S pL)) st fk (base + nv) (base + S nv) o ko K K0 ce n0 (ctr g) rho (base + nv) P
            (fun i => base + S nv <= i < base + S nv) ce
            HS ltac:(lia) (le_n _) Hko Hoo (le_n _) ltac:(lia) Hkl HK1 HK2 HK0 _ eq_refl _ HJgK _ (den b rho v) (N sc (S pc) st fk vs1 n o g) _ _ (le_n _)).
  - intros i Hi. lia.
  - intros p q Hg C. unfold Jg in *. rewrite <- Hg. symmetry. apply C. lia.
  - (* for every output r of the right operand: the left operand, then the call *)
    intros r fk' vs' n' o' x Hj Ho' Ht' Hfk Hwk Hin. pose proof Hj as ((E' & Hn' & Hl' & Hp') & Hg').
    set (J := fun p m y => Jstd sc ce rho n0 (base + nv) o P p m y /\ Jg p) in *.
    set (Jf := fun p m (y : gx) => P p m y /\ True) in *.
    set (P' := wk fk' J Jf).
    set (K0' := match fk' with [] => K0 | _ :: _ => K end).
    assert (HK0' : forall i, K0' i -> K i) by (intros i Hi; exact (wk_K _ _ _ _ HK0 Hi)).
    assert (HS' : stable (ctx_of sc (S (S pL)) st (fk' ++ fk) (base + S nv) (base + S nv) o' ko K K0' ce n0 (ctr x)) P').
    { split.
      - apply wk_chg.
        + intros p q m y m' y' [Hq Hg] C Hm. split.
          * eapply (Jstd_chg' _ _ _ _ _ _ (base + nv) (base + S nv)); [exact S1'| |exact Hq|exact C|exact Hm]. simpl; intros; lia.
          * unfold Jg in *. rewrite <- Hg. symmetry. apply C. simpl. lia.
        + intros p q m y m' y' [Hq _] C Hm. split; auto. eapply (S1' _ p q m y m' y'); [|exact Hq|exact C|exact Hm]. simpl; intros; lia.
      - exact Hwk. }
    assert (HJ' : Jstd sc ce rho n0 (base + nv) o' P' vs' n' x /\ Jg vs').
    { split; [|exact Hg']. split; [exact E'|]. split; [exact Hn'|]. split; [lia|]. apply Hin. exact Hj. }
    pose proof (bind_std (fun l => of_sum (n_fn2 nt op v l r)) Jg sc pL (SV r :: st) (base + S nv) (base + S nv) (S (S pL)) st (fk' ++ fk)
                  (base + S nv) (base + S nv) o' ko K K0' ce n0 (ctr x) rho (base + nv) P' (fun _ => False) ce
                  HS' (le_n _) (le_n _) Hko ltac:(lia) ltac:(lia) (le_n _) Hkl) as HI. cbv zeta in HI.
    refine (HI _ HK2 HK0' _ eq_refl _ HJgK _ (den a rho v) (N sc pA (SV r :: st) (fk' ++ fk) vs' n' o' x) _ HJ' (le_n _)).
    + intros i Hi. lia.
    + intros i [].
    + intros p q Hg C. unfold Jg in *. rewrite <- Hg. symmetry. apply C. lia.
    + intros l fk'' vs'' n'' o'' x'' Hj'' Ho'' Ht'' Hfk'' Hwk2 Hin2. pose proof Hj'' as (_ & Hg'').
      destruct (n_fn2 nt op v l r) as [w|e] eqn:E; cbn [of_sum fst snd].
      * eapply G_single with (o3 := o''); [simpl g_pc; simpl g_st; simpl g_base; simpl g_sc;
                            eapply steps_step; [eapply st_load; [exact A1|apply Hcur|exact Hg'']|]; one st_call2_ok; apply steps_refl
                         |apply chg_refl|cl|simpl; lia|].
        intros vs2 n2 g2 Kp L2. eapply Hwk2; [apply Hin2; exact Hj''|exact Kp|exact L2].
      * eapply G_end; [eapply steps_step; [eapply st_load; [exact A1|apply Hcur|exact Hg'']|]; one st_call2_err; apply steps_refl
                      |apply chg_refl|cl|reflexivity|apply Hin2; exact Hj''].
    + (* the left operand *)
      apply (G_arg a IHa sc cur base Hfr ce pA s1 ca na sn' nv ltac:(lia) Hce1 Ea Hata
               (ctx_of sc pL (SV r :: st) (fk' ++ fk) (base + S nv) (base + S nv) o' o'
                  (fun i => base + S nv <= i < base + S nv \/ kept sc ce i) (fun _ => False) ce n0 (ctr x))
               rho v (fun _ _ _ => True) vs' n' o' x nv); simpl; auto; try lia.
  - (* the right operand *)
    apply (G_arg b IHb sc cur base Hfr ce (S pc) sn cb nb s1 nv Hlt Hce Eb Hatb
             (ctx_of sc pA st fk (base + S nv) (base + S nv) o o
                (fun i => base + S nv <= i < base + S nv \/ kept sc ce i) (fun _ => False) ce n0 (ctr g))
             rho v (fun _ _ _ => True) vs1 n o g nv); simpl; auto; try lia.
  - split; [exact HJ1|exact UN].
Qed.



(* ---- computed index and slices: compileCallInternal with indexing = 1 ---- *)

(* an argument of an internal call in continuation form: the outputs w of q (an argument in any of its forms, run on the
   saved input v of slot k) are pushed on st1 and the continuation f w runs from there *)
Lemma arg_step : forall q, Impl q -> forall sc cur base, frameOK sc cur base ->
  forall ce p sn cb nvc s1 k, cur < sn -> ce_lt ce sn = true -> comp q ce sn (p + 2) 0 (S sn) = Some (cb, nvc, s1) ->
  code_at p (arg_code (cur, k) p sn cb nvc) ->
  forall (f : jv -> result) (v : jv) rho pcE st st1 fk nvq hi o ko (K K0 : nat -> Prop) n0 lim
         (P : list sv -> nat -> gx -> Prop) vs n g,
  let c := ctx_of sc pcE st fk (base + nvq) hi o ko K K0 ce n0 (ctr g) in
  let Jg := fun p : list sv => nth_error p (base + k) = Some (SV v) in
  stable c P -> Jstd sc ce rho n0 lim o P vs n g -> Jg vs ->
  base + nvq <= hi -> hi <= ko -> ko <= o -> lim <= base + nvq -> k < nvq -> K (base + k) ->
  (forall i, base + nvq <= i < hi -> K i) -> (forall i, kept sc ce i -> K i) -> (forall i, K0 i -> K i) ->
  (forall w fk2 vs2 n2 o2 g2 (K02 : nat -> Prop) (P2 : list sv -> nat -> gx -> Prop),
      let c2 := ctx_of sc pcE st fk2 (base + nvq) hi o2 ko K K02 ce n0 (ctr g2) in
      stable c2 P2 -> Jstd sc ce rho n0 lim o2 P2 vs2 n2 g2 -> Jg vs2 -> (forall i, K02 i -> K i) -> ko <= o2 ->
      G c2 (fst (f w)) (Tend c2 (snd (f w)) P2) (N sc (p + length (arg_code (cur, k) p sn cb nvc)) (SV w :: st1) fk2 vs2 n2 o2 g2)) ->
  G c (fst (bind (den q rho v) f)) (Tend c (snd (bind (den q rho v) f)) P) (N sc p st1 fk vs n o g).
Proof.
  intros q IH sc cur base Hfr ce p sn cb nvc s1 k Hlt Hce Ec Hat f v rho pcE st st1 fk nvq hi o ko K K0 n0 lim P vs n g c Jg
         HS HJ HG Hhi Hko Hoo Hlim Hk HKk HK1 HK2 HK0 Hcont.
  pose proof (frameOK_cur _ _ _ Hfr) as Hcur.
  pose proof HJ as (HE & Hn & Hlen & HP).
  assert (Hkl : forall i, kept sc ce i -> i < lim) by (intros; eapply kept_lt; eauto).
  destruct (stable_sub _ _ _ _ _ _ _ _ _ _ _ _ _ _ HS) as [S1' S2'].
  assert (HJgK : forall p q, Jg p -> keepX K p q -> Jg q).
  { intros p0 q0 Hg C. unfold Jg in *. rewrite <- Hg. symmetry. apply C. exact HKk. }
  set (pA := p + length (arg_code (cur, k) p sn cb nvc)) in *.
  assert (HA : G (ctx_of sc pA st1 fk (base + nvq) (base + nvq) o o (fun i => base + nvq <= i < base + nvq \/ kept sc ce i) (fun _ => False) ce n0 (ctr g))
                 (fst (den q rho v))
                 (Tend (ctx_of sc pA st1 fk (base + nvq) (base + nvq) o o (fun i => base + nvq <= i < base + nvq \/ kept sc ce i) (fun _ => False) ce n0 (ctr g))
                    (snd (den q rho v)) (fun _ _ _ => True))
                 (N sc p st1 fk vs n o g)).
  { assert (HEl : envOK sc ce rho vs n0 (base + nvq)) by (eapply envOK_lim; [exact HE|lia]).
    apply (G_arg q IH sc cur base Hfr ce p sn cb nvc s1 k Hlt Hce Ec Hat
             (ctx_of sc pA st1 fk (base + nvq) (base + nvq) o o (fun i => base + nvq <= i < base + nvq \/ kept sc ce i) (fun _ => False) ce n0 (ctr g))
             rho v (fun _ _ _ => True) vs n o g nvq); simpl; auto; try lia. }
  refine (bind_std f Jg sc pA st1 (base + nvq) (base + nvq) pcE st fk (base + nvq) hi o ko K K0 ce n0 (ctr g) rho lim P
            (fun i => base + nvq <= i < hi) ce
            HS (le_n _) Hhi Hko Hoo Hlim Hhi Hkl HK1 HK2 HK0 _ eq_refl _ HJgK _ (den q rho v) _ HA _ (le_n _)).
  - intros i Hi. lia.
  - intros p0 q0 Hg C. unfold Jg in *. rewrite <- Hg. symmetry. apply C. lia.
  - intros w fk' vs' n' o' x Hj Ho' Ht' Hfk Hwk Hin. pose proof Hj as ((E' & Hn' & Hl' & Hp') & Hg').
    set (J := fun p m y => Jstd sc ce rho n0 lim o P p m y /\ Jg p) in *.
    set (Jf := fun p m (y : gx) => P p m y /\ True) in *.
    set (P' := wk fk' J Jf).
    set (K0' := match fk' with [] => K0 | _ :: _ => K end).
    assert (HK0' : forall i, K0' i -> K i) by (intros i Hi; exact (wk_K _ _ _ _ HK0 Hi)).
    assert (HS' : stable (ctx_of sc pcE st (fk' ++ fk) (base + nvq) hi o' ko K K0' ce n0 (ctr x)) P').
    { split.
      - apply wk_chg.
        + intros p0 q0 m y m' y' [Hq Hg] C Hm. split.
          * eapply (Jstd_chg' _ _ _ _ _ _ (base + nvq) hi); [exact S1'| |exact Hq|exact C|exact Hm]. simpl; intros; lia.
          * unfold Jg in *. rewrite <- Hg. symmetry. apply C. simpl. lia.
        + intros p0 q0 m y m' y' [Hq _] C Hm. split; auto. eapply (S1' _ p0 q0 m y m' y'); [|exact Hq|exact C|exact Hm]. simpl; intros; lia.
      - exact Hwk. }
    assert (HJ' : Jstd sc ce rho n0 lim o' P' vs' n' x).
    { split; [exact E'|]. split; [exact Hn'|]. split; [lia|]. apply Hin. exact Hj. }
    exact (Hcont w (fk' ++ fk) vs' n' o' x K0' P' HS' HJ' Hg' HK0' ltac:(lia)).
  - split; [exact HJ|exact HG].
Qed.

Lemma wrap_exp_long : forall c, 2 <= length c -> wrap_exp c = Iexpbegin :: c ++ [Iexpend].
Proof. intros [|a [|b r]] H; simpl in *; try lia. reflexivity. Qed.
Lemma arg_code_cases : forall v p sn cb nvc,
  (cb = [] /\ arg_code v p sn cb nvc = [Iload v]) \/
  (exists c, cb = [Iconst c] /\ nvc = 0 /\ arg_code v p sn cb nvc = [Ipush c]) \/
  2 <= length (arg_code v p sn cb nvc).
Proof.
  intros v p sn cb nvc. unfold arg_code. destruct cb as [|x [|y r]]; [left; auto| |right; right; simpl; lia].
  destruct (Nat.eqb_spec nvc 0) as [->|Hn]; [|right; right; simpl; lia].
  destruct x; try (right; right; simpl; lia). right; left. eauto.
Qed.
Lemma ce_lt_comp : forall q ce ce' tp cur pc nv sn cq nv' sn' sn0, compg tco q ce' tp cur pc nv sn = Some (cq, nv', sn') ->
  ce_lt ce sn0 = true -> sn0 <= sn -> ce_lt ce sn' = true.
Proof.
  intros q ce ce' tp cur pc nv sn cq nv' sn' sn0 Ec H Hle. destruct (comp_mono _ _ _ _ _ _ _ _ _ Ec) as [_ M].
  eapply ce_lt_mono; [exact H|lia].
Qed.

(* the last argument of _index / _slice (the term t), then  push null; call *)
Lemma impl_indexq : forall t q, Impl t -> Impl q -> Impl (QIndexQ t q).
Proof.
  intros t q IHt IHq. impl_intro.
  destruct (comp_indexq_inv _ _ _ _ _ _ _ _ _ _ _ _ Hc) as (Hkc & Hlt & Hce & cb & nb & s1 & ca & na & Eb & Ea & -> & ->). clear Hc.
  assert (Hce1 : ce_lt ce s1 = true) by (eapply ce_lt_comp; [exact Eb|exact Hce|lia]).
  destruct (comp_mono _ _ _ _ _ _ _ _ _ Eb) as [_ Ms1].
  set (cb' := arg_code (cur, nv) (S (S pc)) sn cb nb) in *.
  set (wq := wrap_exp cb') in *.
  set (ca' := arg_code (cur, nv) (S pc + length wq) s1 ca na) in *.
  std_facts. pose proof (conj S1 S2) as HS. destruct (stable_sub _ _ _ _ _ _ _ _ _ _ _ _ _ _ HS) as [S1' S2'].
  assert (HJ0 : Jstd sc ce rho n0 (base + nv) o P vs n g) by (split; auto).
  uncons Hat A0. destruct (code_at_app _ _ _ _ Hat) as [Hatq Hat2].
  destruct (code_at_app _ _ _ _ Hat2) as [Hata Hat3]. uncons Hat3 A1. uncons Hat3 A2.
  set (pA := S pc + length wq) in *. set (pL := pA + length ca') in *.
  assert (Epc : pc + length (Istore (cur, nv) :: wq ++ ca' ++ [Ipush VNull; Icall NIndex2]) = S (S pL)).
  { simpl. rewrite !app_length. simpl. unfold pL, pA. lia. }
  subst c. rewrite Epc in *.
  set (c := ctx_of sc (S (S pL)) st fk (base + nv) (base + S nv) o ko K K0 ce n0 (ctr g)).
  destruct (update_some vs (base + nv) (SV v)) as [vs1 U]; [lia|].
  destruct (update_spec _ _ _ _ U) as (UL & UN & UO).
  assert (HJ1 : Jstd sc ce rho n0 (base + nv) o P vs1 n g) by (eapply Jstd_update; [exact S1'|exact HJ0|exact U|lia|lia]).
  eapply G_pre; [eapply steps_step; [eapply st_store; [exact A0|apply Hcur|exact U]|apply steps_refl]
                |eapply chg_update; [exact U|simpl; lia]|cl|].
  set (cbx := ctx_of sc (S (S pL)) st fk (base + S nv) (base + S nv) o ko K K0 ce n0 (ctr g)).
  assert (HSb : stable cbx P).
  { split.
    - intros a b m g0 m' g' Hp C Hm. eapply S1; [exact Hp| |exact Hm]. eapply chg_mono; [|exact C]. subst cbx; simpl. intros; lia.
    - exact S2. }
  cbn [Den.den1].
  set (Jg := fun p : list sv => nth_error p (base + nv) = Some (SV v)).
  (* the term, then the call *)
  assert (Htail : forall r fk2 vs2 n2 o2 g2 (K02 : nat -> Prop) (P2 : list sv -> nat -> gx -> Prop),
            let c2 := ctx_of sc (S (S pL)) st fk2 (base + S nv) (base + S nv) o2 ko K K02 ce n0 (ctr g2) in
            stable c2 P2 -> Jstd sc ce rho n0 (base + nv) o2 P2 vs2 n2 g2 -> Jg vs2 -> (forall i, K02 i -> K i) -> ko <= o2 ->
            G c2 (fst (bind (den t rho v) (fun w => of_sum (n_index nt w r)))) (Tend c2 (snd (bind (den t rho v) (fun w => of_sum (n_index nt w r)))) P2)
              (N sc pA (SV r :: st) fk2 vs2 n2 o2 g2)).
  { intros r fk2 vs2 n2 o2 g2 K02 P2 c2 HS2 HJ2 HG2 HK02 Hko2.
    refine (arg_step t IHt sc cur base Hfr ce pA s1 ca na sn' nv ltac:(lia) Hce1 Ea Hata
              (fun w => of_sum (n_index nt w r)) v rho (S (S pL)) st (SV r :: st) fk2 (S nv) (base + S nv) o2 ko K K02 n0 (base + nv) P2 vs2 n2 g2
              HS2 HJ2 HG2 (le_n _) Hko Hko2 ltac:(lia) ltac:(lia) ltac:(apply HK1; lia) ltac:(intros; lia) HK2 HK02 _).
    intros w fk3 vs3 n3 o3 g3 K03 P3 c3 [S31 S32] HJ3 HG3 HK03 Hko3. pose proof HJ3 as (_ & _ & Hl3 & HP3).
    fold ca'. fold pL.
    destruct (n_index nt w r) as [u|e] eqn:E; cbn [of_sum fst snd].
    - apply G_single with (vs3 := vs3) (n3 := n3) (o3 := o3) (g3 := g3).
      + subst c3; simpl. one st_push. one st_index2_ok. apply steps_refl.
      + apply chg_refl.
      + cl.
      + simpl; lia.
      + intros vs4 n4 g4 Kp L. eapply S32; eauto.
    - eapply G_end; [one st_push; one st_index2_err; apply steps_refl|apply chg_refl|cl|reflexivity|exact HP3]. }
  assert (HT : G cbx (fst (bind (den q rho v) (fun k => bind (den t rho v) (fun w => of_sum (n_index nt w k)))))
                 (Tend cbx (snd (bind (den q rho v) (fun k => bind (den t rho v) (fun w => of_sum (n_index nt w k))))) P)
                 (N sc (S pc) st fk vs1 n o g)).
  { destruct (arg_code_cases (cur, nv) (S (S pc)) sn cb nb) as [[-> Earg]|[(k0 & -> & -> & Earg)|Hlong]]; fold cb' in Earg || fold cb' in Hlong.
    - (* the index is `.`: load v *)
      destruct (comp_nil _ _ _ _ _ _ _ _ Eb) as (E1 & _ & _). rewrite (emptycode_den nt _ _ E1), bind_single.
      assert (Hatq' : code_at (S pc) [Iload (cur, nv)]) by (unfold wq in Hatq; rewrite Earg in Hatq; exact Hatq). uncons Hatq' B0.
      eapply G_pre; [eapply steps_step; [eapply st_load; [exact B0|apply Hcur|exact UN]|apply steps_refl]|apply chg_refl|cl|].
      replace (S (S pc)) with pA by (unfold pA, wq; rewrite Earg; simpl; lia).
      exact (Htail v fk vs1 n o g K0 P HSb HJ1 UN HK0 Hoo).
    - (* a constant index: push c *)
      rewrite (comp_const1 nt _ _ _ _ _ _ _ _ _ _ Eb rho v), bind_single.
      assert (Hatq' : code_at (S pc) [Ipush k0]) by (unfold wq in Hatq; rewrite Earg in Hatq; exact Hatq). uncons Hatq' B0.
      eapply G_pre; [one st_push; apply steps_refl|apply chg_refl|cl|].
      replace (S (S pc)) with pA by (unfold pA, wq; rewrite Earg; simpl; lia).
      exact (Htail k0 fk vs1 n o g K0 P HSb HJ1 UN HK0 Hoo).
    - (* expbegin; the argument; expend *)
      assert (Hatq' : code_at (S pc) (Iexpbegin :: cb' ++ [Iexpend])) by (unfold wq in Hatq; rewrite (wrap_exp_long _ Hlong) in Hatq; exact Hatq).
      uncons Hatq' B0. destruct (code_at_app _ _ _ _ Hatq') as [Hatq1 Hatq2]. uncons Hatq2 B1.
      eapply G_pre; [one st_expbegin; apply steps_refl|apply chg_refl|cl|].
      refine (arg_step q IHq sc cur base Hfr ce (S (S pc)) sn cb nb s1 nv Hlt Hce Eb Hatq1
                (fun k => bind (den t rho v) (fun w => of_sum (n_index nt w k))) v rho (S (S pL)) st st fk (S nv) (base + S nv) o ko K K0 n0 (base + nv) P vs1 n g
                HSb HJ1 UN (le_n _) Hko Hoo ltac:(lia) ltac:(lia) ltac:(apply HK1; lia) ltac:(intros; lia) HK2 HK0 _).
      intros r fk2 vs2 n2 o2 g2 K02 P2 c2 HS2 HJ2 HG2 HK02 Hko2. fold cb'.
      eapply G_pre; [one st_expend; apply steps_refl|apply chg_refl|cl|].
      replace (S (S (S pc) + length cb')) with pA by (unfold pA, wq; rewrite (wrap_exp_long _ Hlong); simpl; rewrite app_length; simpl; lia).
      exact (Htail r fk2 vs2 n2 o2 g2 K02 P2 HS2 HJ2 HG2 HK02 Hko2). }
  refine (G_sub nt code cbx c _ _ eq_refl eq_refl eq_refl eq_refl _ _ _ (le_n _) (le_n _) (le_n _) _ _ _ HT).
  - subst cbx c; simpl. intros; lia.
  - intros o3 a b Kp. exact Kp.
  - intros a b Kp. exact Kp.
  - intros s0. apply Tend_sub; auto. subst cbx c; simpl. intros; lia.
Qed.

(* a native with one argument: store v; argument a; load v; call *)
Lemma impl_call1 : forall f a, Impl a -> Impl (QCall1 f a).
Proof.
  intros f a IHa. impl_intro.
  destruct (comp_call1_inv _ _ _ _ _ _ _ _ _ _ _ _ Hc) as (Hlt & Hce & cb & nb & Eb & -> & ->). clear Hc.
  set (cb' := arg_code (cur, nv) (S pc) sn cb nb) in *.
  std_facts. pose proof (conj S1 S2) as HS. destruct (stable_sub _ _ _ _ _ _ _ _ _ _ _ _ _ _ HS) as [S1' S2'].
  assert (HJ0 : Jstd sc ce rho n0 (base + nv) o P vs n g) by (split; auto).
  uncons Hat A0. destruct (code_at_app _ _ _ _ Hat) as [Hata Hat3]. uncons Hat3 A1. uncons Hat3 A2.
  set (pL := S pc + length cb') in *.
  assert (Epc : pc + length (Istore (cur, nv) :: cb' ++ [Iload (cur, nv); Icall (NF1 f)]) = S (S pL)).
  { simpl. rewrite !app_length. simpl. unfold pL. lia. }
  subst c. rewrite Epc in *.
  set (c := ctx_of sc (S (S pL)) st fk (base + nv) (base + S nv) o ko K K0 ce n0 (ctr g)).
  destruct (update_some vs (base + nv) (SV v)) as [vs1 U]; [lia|].
  destruct (update_spec _ _ _ _ U) as (UL & UN & UO).
  assert (HJ1 : Jstd sc ce rho n0 (base + nv) o P vs1 n g) by (eapply Jstd_update; [exact S1'|exact HJ0|exact U|lia|lia]).
  eapply G_pre; [eapply steps_step; [eapply st_store; [exact A0|apply Hcur|exact U]|apply steps_refl]
                |eapply chg_update; [exact U|simpl; lia]|cl|].
  set (cbx := ctx_of sc (S (S pL)) st fk (base + S nv) (base + S nv) o ko K K0 ce n0 (ctr g)).
  assert (HSb : stable cbx P).
  { split.
    - intros a0 b m g0 m' g' Hp C Hm. eapply S1; [exact Hp| |exact Hm]. eapply chg_mono; [|exact C]. subst cbx; simpl. intros; lia.
    - exact S2. }
  cbn [Den.den1].
  assert (HT : G cbx (fst (bind (den a rho v) (fun w => of_sum (n_fn1 nt f v w))))
                 (Tend cbx (snd (bind (den a rho v) (fun w => of_sum (n_fn1 nt f v w)))) P)
                 (N sc (S pc) st fk vs1 n o g)).
  { refine (arg_step a IHa sc cur base Hfr ce (S pc) sn cb nb sn' nv Hlt Hce Eb Hata
              (fun w => of_sum (n_fn1 nt f v w)) v rho (S (S pL)) st st fk (S nv) (base + S nv) o ko K K0 n0 (base + nv) P vs1 n g
              HSb HJ1 UN (le_n _) Hko Hoo ltac:(lia) ltac:(lia) ltac:(apply HK1; lia) ltac:(intros; lia) HK2 HK0 _).
    intros w fk3 vs3 n3 o3 g3 K03 P3 c3 [S31 S32] HJ3 HG3 HK03 Hko3. pose proof HJ3 as (_ & _ & Hl3 & HP3).
    fold cb'. fold pL.
    destruct (n_fn1 nt f v w) as [u|e] eqn:E; cbn [of_sum fst snd].
    - apply G_single with (vs3 := vs3) (n3 := n3) (o3 := o3) (g3 := g3).
      + subst c3; simpl. eapply steps_step; [eapply st_load; [exact A1|apply Hcur|exact HG3]|]. one st_call1_ok. apply steps_refl.
      + apply chg_refl.
      + cl.
      + simpl; lia.
      + intros vs4 n4 g4 Kp L. eapply S32; eauto.
    - eapply G_end; [eapply steps_step; [eapply st_load; [exact A1|apply Hcur|exact HG3]|]; one st_call1_err; apply steps_refl
                    |apply chg_refl|cl|reflexivity|exact HP3]. }
  refine (G_sub nt code cbx c _ _ eq_refl eq_refl eq_refl eq_refl _ _ _ (le_n _) (le_n _) (le_n _) _ _ _ HT).
  - subst cbx c; simpl. intros; lia.
  - intros o3 a0 b Kp. exact Kp.
  - intros a0 b Kp. exact Kp.
  - intros s0. apply Tend_sub; auto. subst cbx c; simpl. intros; lia.
Qed.

Lemma impl_slice : forall t a b, Impl t -> Impl a -> Impl b -> Impl (QSlice t a b).
Proof.
  intros t a b IHt IHa IHb. impl_intro.
  destruct (comp_slice_inv _ _ _ _ _ _ _ _ _ _ _ _ _ Hc) as (Hkc & Hlt & Hce & ca & na & s1 & cb & nb & s2 & ct & nt0 & Ea & Eb & Et & -> & ->). clear Hc.
  cbv zeta in Ea, Eb, Et.
  assert (Hce1 : ce_lt ce s1 = true) by (eapply ce_lt_comp; [exact Ea|exact Hce|lia]).
  destruct (comp_mono _ _ _ _ _ _ _ _ _ Ea) as [_ Ms1].
  assert (Hce2 : ce_lt ce s2 = true) by (eapply ce_lt_comp; [exact Eb|exact Hce1|lia]).
  destruct (comp_mono _ _ _ _ _ _ _ _ _ Eb) as [_ Ms2].
  set (ca' := arg_code (cur, nv) (S (S pc)) sn ca na) in *.
  set (cb' := arg_code (cur, nv) (S (S pc) + length ca') s1 cb nb) in *.
  set (pB := S (S pc) + length ca') in *. set (pE := pB + length cb') in *.
  subst c. rewrite (Nat.add_1_r pE) in *.
  set (ct' := arg_code (cur, nv) (S pE) s2 ct nt0) in *.
  std_facts. pose proof (conj S1 S2) as HS. destruct (stable_sub _ _ _ _ _ _ _ _ _ _ _ _ _ _ HS) as [S1' S2'].
  assert (HJ0 : Jstd sc ce rho n0 (base + nv) o P vs n g) by (split; auto).
  uncons Hat A0. uncons Hat A1. destruct (code_at_app _ _ _ _ Hat) as [Hata Hat2].
  destruct (code_at_app _ _ _ _ Hat2) as [Hatb Hat3]. uncons Hat3 A2.
  destruct (code_at_app _ _ _ _ Hat3) as [Hatt Hat4]. uncons Hat4 A3. uncons Hat4 A4.
  set (pL := S pE + length ct') in *.
  assert (Epc : pc + length (Istore (cur, nv) :: Iexpbegin :: ca' ++ cb' ++ Iexpend :: ct' ++ [Ipush VNull; Icall NSlice3]) = S (S pL)).
  { simpl. rewrite !app_length. simpl. rewrite !app_length. simpl. unfold pL, pE, pB. lia. }
  rewrite Epc in *.
  set (c := ctx_of sc (S (S pL)) st fk (base + nv) (base + S nv) o ko K K0 ce n0 (ctr g)).
  destruct (update_some vs (base + nv) (SV v)) as [vs1 U]; [lia|].
  destruct (update_spec _ _ _ _ U) as (UL & UN & UO).
  assert (HJ1 : Jstd sc ce rho n0 (base + nv) o P vs1 n g) by (eapply Jstd_update; [exact S1'|exact HJ0|exact U|lia|lia]).
  eapply G_pre; [eapply steps_step; [eapply st_store; [exact A0|apply Hcur|exact U]|]; one st_expbegin; apply steps_refl
                |eapply chg_update; [exact U|simpl; lia]|cl|].
  set (cbx := ctx_of sc (S (S pL)) st fk (base + S nv) (base + S nv) o ko K K0 ce n0 (ctr g)).
  assert (HSb : stable cbx P).
  { split.
    - intros a0 b0 m g0 m' g' Hp C Hm. eapply S1; [exact Hp| |exact Hm]. eapply chg_mono; [|exact C]. subst cbx; simpl. intros; lia.
    - exact S2. }
  cbn [Den.den1].
  set (Jg := fun p : list sv => nth_error p (base + nv) = Some (SV v)).
  assert (HT : G cbx (fst (bind (den a rho v) (fun s => bind (den b rho v) (fun e => bind (den t rho v) (fun w => of_sum (n_slice nt w e s))))))
                 (Tend cbx (snd (bind (den a rho v) (fun s => bind (den b rho v) (fun e => bind (den t rho v) (fun w => of_sum (n_slice nt w e s)))))) P)
                 (N sc (S (S pc)) st fk vs1 n o g)).
  { refine (arg_step a IHa sc cur base Hfr ce (S (S pc)) sn ca na s1 nv Hlt Hce Ea Hata
              (fun s => bind (den b rho v) (fun e => bind (den t rho v) (fun w => of_sum (n_slice nt w e s)))) v rho (S (S pL)) st st fk (S nv) (base + S nv) o ko K K0 n0 (base + nv) P vs1 n g
              HSb HJ1 UN (le_n _) Hko Hoo ltac:(lia) ltac:(lia) ltac:(apply HK1; lia) ltac:(intros; lia) HK2 HK0 _).
    intros s fk2 vs2 n2 o2 g2 K02 P2 c2 HS2 HJ2 HG2 HK02 Hko2. fold ca'. fold pB.
    refine (arg_step b IHb sc cur base Hfr ce pB s1 cb nb s2 nv ltac:(lia) Hce1 Eb Hatb
              (fun e => bind (den t rho v) (fun w => of_sum (n_slice nt w e s))) v rho (S (S pL)) st (SV s :: st) fk2 (S nv) (base + S nv) o2 ko K K02 n0 (base + nv) P2 vs2 n2 g2
              HS2 HJ2 HG2 (le_n _) Hko Hko2 ltac:(lia) ltac:(lia) ltac:(apply HK1; lia) ltac:(intros; lia) HK2 HK02 _).
    intros e fk3 vs3 n3 o3 g3 K03 P3 c3 HS3 HJ3 HG3 HK03 Hko3. fold cb'. fold pE.
    eapply G_pre; [one st_expend; apply steps_refl|apply chg_refl|cl|].
    refine (arg_step t IHt sc cur base Hfr ce (S pE) s2 ct nt0 sn' nv ltac:(lia) Hce2 Et Hatt
              (fun w => of_sum (n_slice nt w e s)) v rho (S (S pL)) st (SV e :: SV s :: st) fk3 (S nv) (base + S nv) o3 ko K K03 n0 (base + nv) P3 vs3 n3 g3
              HS3 HJ3 HG3 (le_n _) Hko Hko3 ltac:(lia) ltac:(lia) ltac:(apply HK1; lia) ltac:(intros; lia) HK2 HK03 _).
    intros w fk4 vs4 n4 o4 g4 K04 P4 c4 [S41 S42] HJ4 HG4 HK04 Hko4. pose proof HJ4 as (_ & _ & Hl4 & HP4).
    fold ct'. fold pL.
    destruct (n_slice nt w e s) as [u|x] eqn:E; cbn [of_sum fst snd].
    - apply G_single with (vs3 := vs4) (n3 := n4) (o3 := o4) (g3 := g4).
      + subst c4; simpl. one st_push. one st_slice3_ok. apply steps_refl.
      + apply chg_refl.
      + cl.
      + simpl; lia.
      + intros vs5 n5 g5 Kp L. eapply S42; eauto.
    - eapply G_end; [one st_push; one st_slice3_err; apply steps_refl|apply chg_refl|cl|reflexivity|exact HP4]. }
  refine (G_sub nt code cbx c _ _ eq_refl eq_refl eq_refl eq_refl _ _ _ (le_n _) (le_n _) (le_n _) _ _ _ HT).
  - subst cbx c; simpl. intros; lia.
  - intros o3 a0 b0 Kp. exact Kp.
  - intros a0 b0 Kp. exact Kp.
  - intros s0. apply Tend_sub; auto. subst cbx c; simpl. intros; lia.
Qed.

(* ---- object construction ---- *)

(* a bind whose continuation runs on a deeper stack: the outputs w of q (run on SV v' :: st1) are left on top of
   st1 and the continuation f w runs from there in the rest of the segment's own range.  k: a slot below the
   range that holds the value v during the whole composition (the input saved by compileObject) *)
Lemma obj_step : forall q, Impl q -> forall sc cur base, frameOK sc cur base ->
  forall ce pcq nvq sn cq nvq' sn', comp q ce cur pcq nvq sn = Some (cq, nvq', sn') -> code_at pcq cq ->
  forall (f : jv -> result) (k : nat) (v v' : jv) rho pcE st st1 fk hi o ko (K K0 : nat -> Prop) n0 lim
         (P : list sv -> nat -> gx -> Prop) vs n g,
  let c := ctx_of sc pcE st fk (base + nvq) hi o ko K K0 ce n0 (ctr g) in
  let Jg := fun p : list sv => nth_error p (base + k) = Some (SV v) in
  stable c P -> Jstd sc ce rho n0 lim o P vs n g -> Jg vs ->
  base + nvq' <= hi -> hi <= ko -> ko <= o -> lim <= base + nvq -> k < nvq -> K (base + k) ->
  (forall i, base + nvq <= i < hi -> K i) -> (forall i, kept sc ce i -> K i) -> (forall i, K0 i -> K i) ->
  (forall w fk2 vs2 n2 o2 g2 (K02 : nat -> Prop) (P2 : list sv -> nat -> gx -> Prop),
      let c2 := ctx_of sc pcE st fk2 (base + nvq') hi o2 ko K K02 ce n0 (ctr g2) in
      stable c2 P2 -> Jstd sc ce rho n0 lim o2 P2 vs2 n2 g2 -> Jg vs2 -> (forall i, K02 i -> K i) -> ko <= o2 ->
      G c2 (fst (f w)) (Tend c2 (snd (f w)) P2) (N sc (pcq + length cq) (SV w :: st1) fk2 vs2 n2 o2 g2)) ->
  G c (fst (bind (den q rho v') f)) (Tend c (snd (bind (den q rho v') f)) P) (N sc pcq (SV v' :: st1) fk vs n o g).
Proof.
  intros q IH sc cur base Hfr ce pcq nvq sn cq nvq' sn' Ec Hat f k v v' rho pcE st st1 fk hi o ko K K0 n0 lim P vs n g c Jg
         HS HJ HG Hhi Hko Hoo Hlim Hk HKk HK1 HK2 HK0 Hcont.
  pose proof (frameOK_cur _ _ _ Hfr) as Hcur.
  destruct (comp_mono _ _ _ _ _ _ _ _ _ Ec) as [M1 _].
  pose proof HJ as (HE & Hn & Hlen & HP).
  assert (Hkl : forall i, kept sc ce i -> i < lim) by (intros; eapply kept_lt; eauto).
  destruct (stable_sub _ _ _ _ _ _ _ _ _ _ _ _ _ _ HS) as [S1' S2'].
  assert (HJgK : forall p q, Jg p -> keepX K p q -> Jg q).
  { intros p q0 Hg C. unfold Jg in *. rewrite <- Hg. symmetry. apply C. exact HKk. }
  assert (HEq : envOK sc ce rho vs n0 (base + nvq)) by (eapply envOK_lim; [exact HE|lia]).
  pose proof (impl_inner q IH sc cur base Hfr ce pcq nvq sn cq nvq' sn' Ec Hat rho v' st1 fk vs n n0 o g HEq Hn ltac:(lia) Hlen) as HA.
  cbv zeta in HA.
  refine (bind_std f Jg sc (pcq + length cq) st1 (base + nvq) (base + nvq') pcE st fk (base + nvq) hi o ko K K0 ce n0 (ctr g) rho lim P
            (fun i => base + nvq' <= i < hi) ce
            HS (le_n _) Hhi Hko Hoo Hlim ltac:(lia) Hkl HK1 HK2 HK0 _ eq_refl _ HJgK _ (den q rho v') _ HA _ (le_n _)).
  - intros i Hi. lia.
  - intros p q0 Hg C. unfold Jg in *. rewrite <- Hg. symmetry. apply C. lia.
  - intros w fk' vs' n' o' x Hj Ho' Ht' Hfk Hwk Hin. pose proof Hj as ((E' & Hn' & Hl' & Hp') & Hg').
    set (J := fun p m y => Jstd sc ce rho n0 lim o P p m y /\ Jg p) in *.
    set (Jf := fun p m (y : gx) => P p m y /\ True) in *.
    set (P' := wk fk' J Jf).
    set (K0' := match fk' with [] => K0 | _ :: _ => K end).
    assert (HK0' : forall i, K0' i -> K i) by (intros i Hi; exact (wk_K _ _ _ _ HK0 Hi)).
    assert (HS' : stable (ctx_of sc pcE st (fk' ++ fk) (base + nvq') hi o' ko K K0' ce n0 (ctr x)) P').
    { split.
      - apply wk_chg.
        + intros p q0 m y m' y' [Hq Hg] C Hm. split.
          * eapply (Jstd_chg' _ _ _ _ _ _ (base + nvq) hi); [exact S1'| |exact Hq|exact C|exact Hm]. simpl; intros; lia.
          * unfold Jg in *. rewrite <- Hg. symmetry. apply C. simpl. lia.
        + intros p q0 m y m' y' [Hq _] C Hm. split; auto. eapply (S1' _ p q0 m y m' y'); [|exact Hq|exact C|exact Hm]. simpl; intros; lia.
      - exact Hwk. }
    assert (HJ' : Jstd sc ce rho n0 lim o' P' vs' n' x).
    { split; [exact E'|]. split; [exact Hn'|]. split; [lia|]. apply Hin. exact Hj. }
    exact (Hcont w (fk' ++ fk) vs' n' o' x K0' P' HS' HJ' Hg' HK0' ltac:(lia)).
  - split; [exact HJ|exact HG].
Qed.

(* the same after  load v  (v: the saved input of the object, in slot k) *)
Lemma obj_lstep : forall q, Impl q -> forall sc cur base, frameOK sc cur base ->
  forall ce pl nvq sn cq nvq' sn' k, comp q ce cur (S pl) nvq sn = Some (cq, nvq', sn') -> at_ pl (Iload (cur, k)) -> code_at (S pl) cq ->
  forall (f : jv -> result) (v : jv) rho pcE st st1 fk hi o ko (K K0 : nat -> Prop) n0 lim
         (P : list sv -> nat -> gx -> Prop) vs n g,
  let c := ctx_of sc pcE st fk (base + nvq) hi o ko K K0 ce n0 (ctr g) in
  let Jg := fun p : list sv => nth_error p (base + k) = Some (SV v) in
  stable c P -> Jstd sc ce rho n0 lim o P vs n g -> Jg vs ->
  base + nvq' <= hi -> hi <= ko -> ko <= o -> lim <= base + nvq -> k < nvq -> K (base + k) ->
  (forall i, base + nvq <= i < hi -> K i) -> (forall i, kept sc ce i -> K i) -> (forall i, K0 i -> K i) ->
  (forall w fk2 vs2 n2 o2 g2 (K02 : nat -> Prop) (P2 : list sv -> nat -> gx -> Prop),
      let c2 := ctx_of sc pcE st fk2 (base + nvq') hi o2 ko K K02 ce n0 (ctr g2) in
      stable c2 P2 -> Jstd sc ce rho n0 lim o2 P2 vs2 n2 g2 -> Jg vs2 -> (forall i, K02 i -> K i) -> ko <= o2 ->
      G c2 (fst (f w)) (Tend c2 (snd (f w)) P2) (N sc (S pl + length cq) (SV w :: st1) fk2 vs2 n2 o2 g2)) ->
  G c (fst (bind (den q rho v) f)) (Tend c (snd (bind (den q rho v) f)) P) (N sc pl st1 fk vs n o g).
Proof.
  intros q IH sc cur base Hfr ce pl nvq sn cq nvq' sn' k Ec A0 Hat f v rho pcE st st1 fk hi o ko K K0 n0 lim P vs n g c Jg
         HS HJ HG Hhi Hko Hoo Hlim Hk HKk HK1 HK2 HK0 Hcont.
  pose proof (frameOK_cur _ _ _ Hfr) as Hcur.
  eapply G_pre; [eapply steps_step; [eapply st_load; [exact A0|apply Hcur|exact HG]|apply steps_refl]|apply chg_refl|cl|].
  exact (obj_step q IH sc cur base Hfr ce (S pl) nvq sn cq nvq' sn' Ec Hat f k v v rho pcE st st1 fk hi o ko K K0 n0 lim P vs n g
           HS HJ HG Hhi Hko Hoo Hlim Hk HKk HK1 HK2 HK0 Hcont).
Qed.

(* the entries not yet evaluated, then opobject; acc: the pairs already on the stack *)
Lemma obj_tail : forall (es : list ent), Forall (EntP (fun a => Impl a)) es ->
  forall sc cur base, frameOK sc cur base ->
  forall ce k ntot pcE st rho v n0 ko (K : nat -> Prop) lim hi,
  forall p nvi sni cs nv' sn',
    comp_ents (fun a p n s => comp a ce cur p n s) (cur, k) es p nvi sni = Some (cs, nv', sn') ->
    code_at p (concat cs ++ [Iobject ntot]) -> pcE = p + length (concat cs) + 1 ->
  forall acc, length acc + length es = ntot ->
  forall fk vs n o g (K0 : nat -> Prop) (P : list sv -> nat -> gx -> Prop),
    let c := ctx_of sc pcE st fk (base + nvi) hi o ko K K0 ce n0 (ctr g) in
    let Jg := fun p : list sv => nth_error p (base + k) = Some (SV v) in
    stable c P -> Jstd sc ce rho n0 lim o P vs n g -> Jg vs ->
    base + nv' <= hi -> hi <= ko -> ko <= o -> lim <= base + nvi -> k < nvi -> K (base + k) ->
    (forall i, base + nvi <= i < hi -> K i) -> (forall i, kept sc ce i -> K i) -> (forall i, K0 i -> K i) ->
    G c (fst (den_ents (fun a => den a rho v) es acc)) (Tend c (snd (den_ents (fun a => den a rho v) es acc)) P)
      (N sc p (stk_of acc ++ st) fk vs n o g).
Proof.
  induction es as [|[k0 qv] r IHr]; intros HF sc cur base Hfr ce k ntot pcE st rho v n0 ko K lim hi p nvi sni cs nv' sn' Hc Hat HpcE acc Hlen
    fk vs n o g K0 P c Jg HS HJ HG Hhi Hko Hoo Hlim Hk HKk HK1 HK2 HK0;
    pose proof (frameOK_cur _ _ _ Hfr) as Hcur; simpl in Hc.
  - (* opobject *)
    inversion Hc; subst cs nv' sn'. clear Hc. simpl in Hat, HpcE. uncons Hat A0. cbn [den_ents].
    destruct HS as [S1 S2]. pose proof HJ as (HE & Hn & Hl & HP).
    assert (Htk : take_pairs ntot (stk_of acc ++ st) [] = Some (acc, st)).
    { simpl in Hlen. rewrite Nat.add_0_r in Hlen. subst ntot. rewrite take_pairs_stk, app_nil_r. reflexivity. }
    destruct (mk_obj acc) as [w|e] eqn:Em; cbn [of_sum fst snd].
    + apply G_single with (vs3 := vs) (n3 := n) (o3 := o) (g3 := g).
      * subst c; simpl. rewrite HpcE. replace (p + 0 + 1) with (S p) by lia.
        eapply steps_step; [eapply st_object_ok; eauto|apply steps_refl].
      * apply chg_refl.
      * cl.
      * simpl; lia.
      * intros vs2 n2 g2 Kp L. eapply S2; eauto.
    + eapply G_end; [eapply steps_step; [eapply st_object_err; eauto|apply steps_refl]|apply chg_refl|cl|reflexivity|exact HP].
  - pose proof (Forall_inv HF) as [Hkq Hqv]. pose proof (Forall_inv_tail HF) as HF'. simpl in Hkq, Hqv. cbn [den_ents].
    destruct k0 as [str|kq].
    + (* push k; load v; value *)
      destruct (comp qv ce cur (p + length [Ipush (VStr str)] + 1) nvi sni) as [[[cv n2] s2]|] eqn:Ev; [|discriminate].
      match type of Hc with context [comp_ents ?C ?x r ?pp n2 s2] => destruct (comp_ents C x r pp n2 s2) as [[[cr n3] s3]|] eqn:Er; [|discriminate] end.
      inversion Hc; subst cs nv' sn'. clear Hc.
      simpl length in Ev, Er. replace (p + 1 + 1) with (S (S p)) in Ev, Er by lia.
      cbn [concat app] in Hat. rewrite <- app_assoc in Hat. uncons Hat A0. uncons Hat A1.
      destruct (code_at_app _ _ _ _ Hat) as [Hatv Hatr].
      rewrite bind_single.
      destruct (comp_mono _ _ _ _ _ _ _ _ _ Ev) as [Mv _].
      assert (Mr : n2 <= n3).
      { apply comp_ents_mono in Er; [lia|]. eapply Forall_EntP_impl; [|exact HF']. simpl. intros a _ p0 n1 s c0 n' s' H. eapply comp_mono; eauto. }
      eapply G_pre; [eapply steps_step; [eapply st_push; exact A0|apply steps_refl]|apply chg_refl|cl|].
      refine (obj_lstep qv Hqv sc cur base Hfr ce (S p) nvi sni cv n2 s2 k Ev A1 Hatv
                (fun w => den_ents (fun a => den a rho v) r (acc ++ [(VStr str, w)])) v rho pcE st (SV (VStr str) :: stk_of acc ++ st)
                fk hi o ko K K0 n0 lim P vs n g HS HJ HG ltac:(lia) Hko Hoo Hlim Hk HKk HK1 HK2 HK0 _).
      intros w fk2 vs2 n2' o2 g2 K02 P2 c2 HS2 HJ2 HG2 HK02 Hko2.
      change (SV w :: SV (VStr str) :: stk_of acc ++ st) with ((SV w :: SV (VStr str) :: stk_of acc) ++ st).
      rewrite <- stk_of_snoc.
      refine (IHr HF' sc cur base Hfr ce k ntot pcE st rho v n0 ko K lim hi (S (S p) + length cv) n2 s2 cr n3 s3 Er Hatr _
                (acc ++ [(VStr str, w)]) _ fk2 vs2 n2' o2 g2 K02 P2 HS2 HJ2 HG2 Hhi Hko Hko2 ltac:(lia) ltac:(lia) HKk _ HK2 HK02).
      * rewrite HpcE. cbn [concat app length]. rewrite !app_length. simpl. lia.
      * rewrite app_length. simpl in *. lia.
      * intros i Hi. apply HK1. lia.
    + (* load v; key; load v; value *)
      destruct (comp kq ce cur (S p) nvi sni) as [[[ck n1] s1]|] eqn:Ek; [|discriminate].
      destruct (comp qv ce cur (p + length (Iload (cur, k) :: ck) + 1) n1 s1) as [[[cv n2] s2]|] eqn:Ev; [|discriminate].
      match type of Hc with context [comp_ents ?C ?x r ?pp n2 s2] => destruct (comp_ents C x r pp n2 s2) as [[[cr n3] s3]|] eqn:Er; [|discriminate] end.
      inversion Hc; subst cs nv' sn'. clear Hc.
      simpl length in Ev, Er. replace (p + S (length ck) + 1) with (S (S p + length ck)) in Ev, Er by lia.
      cbn [concat app] in Hat. rewrite <- !app_assoc in Hat. uncons Hat A0.
      destruct (code_at_app _ _ _ _ Hat) as [Hatk Hat2]. cbn [app] in Hat2. uncons Hat2 A1.
      destruct (code_at_app _ _ _ _ Hat2) as [Hatv Hatr].
      destruct (comp_mono _ _ _ _ _ _ _ _ _ Ek) as [Mk _].
      destruct (comp_mono _ _ _ _ _ _ _ _ _ Ev) as [Mv _].
      assert (Mr : n2 <= n3).
      { apply comp_ents_mono in Er; [lia|]. eapply Forall_EntP_impl; [|exact HF']. simpl. intros a _ p0 n1' s c0 n' s' H. eapply comp_mono; eauto. }
      refine (obj_lstep kq Hkq sc cur base Hfr ce p nvi sni ck n1 s1 k Ek A0 Hatk
                (fun kv => bind (den qv rho v) (fun w => den_ents (fun a => den a rho v) r (acc ++ [(kv, w)]))) v rho pcE st (stk_of acc ++ st)
                fk hi o ko K K0 n0 lim P vs n g HS HJ HG ltac:(lia) Hko Hoo Hlim Hk HKk HK1 HK2 HK0 _).
      intros kv fk1 vs1 n1' o1 g1 K01 P1 c1 HS1 HJ1 HG1 HK01 Hko1.
      refine (obj_lstep qv Hqv sc cur base Hfr ce (S p + length ck) n1 s1 cv n2 s2 k Ev A1 Hatv
                (fun w => den_ents (fun a => den a rho v) r (acc ++ [(kv, w)])) v rho pcE st (SV kv :: stk_of acc ++ st)
                fk1 hi o1 ko K K01 n0 lim P1 vs1 n1' g1 HS1 HJ1 HG1 ltac:(lia) Hko Hko1 ltac:(lia) ltac:(lia) HKk _ HK2 HK01 _).
      * intros i Hi. apply HK1. lia.
      * intros w fk2 vs2 n2' o2 g2 K02 P2 c2 HS2 HJ2 HG2 HK02 Hko2.
        change (SV w :: SV kv :: stk_of acc ++ st) with ((SV w :: SV kv :: stk_of acc) ++ st).
        rewrite <- stk_of_snoc.
        refine (IHr HF' sc cur base Hfr ce k ntot pcE st rho v n0 ko K lim hi (S (S p + length ck) + length cv) n2 s2 cr n3 s3 Er Hatr _
                  (acc ++ [(kv, w)]) _ fk2 vs2 n2' o2 g2 K02 P2 HS2 HJ2 HG2 Hhi Hko Hko2 ltac:(lia) ltac:(lia) HKk _ HK2 HK02).
        -- rewrite HpcE. cbn [concat app length]. repeat (rewrite app_length; cbn [length app]). lia.
        -- rewrite app_length. simpl in *. lia.
        -- intros i Hi. apply HK1. lia.
Qed.

Lemma Forall_EntP_all : forall (Q : query -> Prop) (es : list ent), (forall a, Q a) -> Forall (EntP Q) es.
Proof. intros Q es H. induction es as [|[k qv] r IH]; constructor; auto. split; [destruct k; simpl; auto|simpl; auto]. Qed.

Lemma impl_object : forall es, Forall (EntP (fun a => Impl a)) es -> Impl (QObject es).
Proof.
  intros es HF. impl_intro. change (comp_object (fun a p n s => comp a ce cur p n s) (cur, nv) es pc nv sn = Some (cq, nv', sn')) in Hc.
  destruct es as [|e es].
  - (* {} *) simpl in Hc. inversion Hc; subst cq nv' sn'. cbn [Den.den1 den_ents of_sum mk_obj mk_obj_rev rev fst snd]. uncons Hat A1.
    apply G_single with (vs3 := vs) (n3 := n) (o3 := o) (g3 := g).
    + subst c; simpl. replace (pc + 1) with (S pc) by lia. one st_const. constructor.
    + apply chg_refl.
    + cl.
    + simpl; lia.
    + intros vs2 n2 g2 Kp L. eapply S2; eauto.
  - destruct (comp_object_inv _ _ _ _ _ _ _ _ _ _ Hc) as (cs & E & [(kcs & w & Hk & Hm & ->)|[Hk ->]]).
    + (* a constant object *)
      pose proof (ents_const_den _ (fun a => den a rho v) _ _ _ _ _ _ _ _ _ E Hk
                 (Forall_EntP_all _ _ (fun a p0 n1 s n' s' k0 H => comp_const1 nt _ a ce _ _ _ _ _ _ _ H rho v)) []) as X.
      assert (X' : den (QObject (e :: es)) rho v = of_sum (mk_obj ([] ++ kcs))) by exact X. rewrite X'. clear X X'.
      simpl app. rewrite Hm. cbn [of_sum fst snd]. uncons Hat A1.
      apply G_single with (vs3 := vs) (n3 := n) (o3 := o) (g3 := g).
      * subst c; simpl. replace (pc + 1) with (S pc) by lia. one st_const. constructor.
      * apply chg_refl.
      * cl.
      * simpl; lia.
      * intros vs2 n2 g2 Kp L. eapply S2; eauto.
    + (* store v; the entries; opobject *)
      assert (Mn : S nv <= nv').
      { apply comp_ents_mono in E; [lia|]. eapply Forall_EntP_impl; [|exact HF]. simpl. intros a _ p0 n1 s c0 n' s' H. eapply comp_mono; eauto. }
      std_facts. pose proof (conj S1 S2) as HS. destruct (stable_sub _ _ _ _ _ _ _ _ _ _ _ _ _ _ HS) as [S1' S2'].
      assert (HJ0 : Jstd sc ce rho n0 (base + nv) o P vs n g) by (split; auto).
      uncons Hat A0.
      destruct (update_some vs (base + nv) (SV v)) as [vs1 U]; [lia|].
      destruct (update_spec _ _ _ _ U) as (UL & UN & UO).
      assert (HJ1 : Jstd sc ce rho n0 (base + nv) o P vs1 n g) by (eapply Jstd_update; [exact S1'|exact HJ0|exact U|lia|lia]).
      eapply G_pre; [eapply steps_step; [eapply st_store; [exact A0|apply Hcur|exact U]|apply steps_refl]
                    |eapply chg_update; [exact U|subst c; simpl; lia]|cl|].
      change (den (QObject (e :: es)) rho v) with (den_ents (fun a => den a rho v) (e :: es) []).
      set (pcE := pc + length (Istore (cur, nv) :: concat cs ++ [Iobject (length (e :: es))])) in *.
      set (cb := ctx_of sc pcE st fk (base + S nv) (base + nv') o ko K K0 ce n0 (ctr g)).
      assert (HSb : stable cb P).
      { split.
        - intros a b m g0 m' g' Hp C Hm. eapply S1; [exact Hp| |exact Hm]. eapply chg_mono; [|exact C]. subst cb c; simpl. intros; lia.
        - exact S2. }
      pose proof (obj_tail (e :: es) HF sc cur base Hfr ce nv (length (e :: es)) pcE st rho v n0 ko K (base + nv) (base + nv')
                    (S pc) (S nv) sn cs nv' sn' E Hat ltac:(subst pcE; simpl; rewrite app_length; simpl; lia) [] eq_refl
                    fk vs1 n o g K0 P HSb HJ1 UN (le_n _) Hko Hoo ltac:(lia) ltac:(lia) ltac:(apply HK1; lia)
                    ltac:(intros; apply HK1; lia) HK2 HK0) as HT.
      cbv zeta in HT. fold cb in HT. simpl app in HT.
      refine (G_sub nt code cb c _ _ eq_refl eq_refl eq_refl eq_refl _ _ _ (le_n _) (le_n _) (le_n _) _ _ _ HT).
      * subst cb c; simpl. intros; lia.
      * intros o3 a b Kp. exact Kp.
      * intros a b Kp. exact Kp.
      * intros s0. apply Tend_sub; auto. subst cb c; simpl. intros; lia.
Qed.


(* ---- destructuring patterns ---- *)

Lemma impl_bindp : forall qs p qb, Impl qs -> Impl qb -> Impl (QBindP qs p qb).
Proof.
  intros qs p qb IHs IHb. impl_intro.
  destruct (comp_bindp_inv _ _ _ _ _ _ _ _ _ _ _ _ _ Hc) as (Hpv & Hok & cs & n1 & s1 & cp & bs & n2 & cb & Es & Ep & En & Eb & ->). clear Hc.
  cbn [tl_fb] in Eb.
  destruct (comp_mono _ _ _ _ _ _ _ _ _ Es) as [M1 _]. destruct (comp_mono _ _ _ _ _ _ _ _ _ Eb) as [M2 _].
  pose proof (proj1 pcomp_nvars _ _ _ _ _ _ Ep) as Mp.
  std_facts. pose proof (conj S1 S2) as HS. destruct (stable_sub _ _ _ _ _ _ _ _ _ _ _ _ _ _ HS) as [S1' S2'].
  assert (HJ0 : Jstd sc ce rho n0 (base + nv) o P vs n g) by (split; auto).
  cbn [Den.den1].
  uncons Hat A0. uncons Hat A1. destruct (code_at_app _ _ _ _ Hat) as [Hats Hat2].
  destruct (code_at_app _ _ _ _ Hat2) as [Hatp Hat3]. uncons Hat3 A2.
  replace (S (S pc)) with (pc + 2) in * by lia.
  set (pcp := pc + 2 + length cs) in *. set (pcb := S (pcp + length cp)) in *.
  assert (Epc : pc + length (Idup :: Iexpbegin :: cs ++ cp ++ Iexpend :: cb) = pcb + length cb).
  { simpl. rewrite !app_length. simpl. unfold pcb, pcp. lia. }
  subst c. rewrite Epc in *.
  assert (Epb : pcp + length cp + 1 = pcb) by (unfold pcb; lia). rewrite Epb in Eb.
  pose proof (impl_inner qs IHs sc cur base Hfr ce (pc + 2) nv sn cs n1 s1 Es Hats rho v (SV v :: st) fk vs n n0 o g HE Hn ltac:(lia) Hlen) as HA.
  cbv zeta in HA.
  refine (bind_std (fun w => match pmatch nt p w with inl bnds => den qb (bnds ++ rho) v | inr e => ([], Some (XErr e)) end)
            (fun _ => True) sc pcp (SV v :: st) (base + nv) (base + n1)
            (pcb + length cb) st fk (base + nv) (base + nv') o ko K K0 ce n0 (ctr g) rho (base + nv) P
            (fun i => base + n1 <= i < base + nv') ce HS (le_n _) ltac:(lia) Hko Hoo (le_n _) ltac:(lia) Hkl HK1 HK2 HK0 _ eq_refl _ _ _ (den qs rho v)
            (N sc pc (SV v :: st) fk vs n o g) _ _ (le_n _)).
  - intros i Hi. lia.
  - auto.
  - auto.
  - intros w fk' vs' n' o' z Hj0 Ho' Ht' Hfk Hwk Hin. pose proof Hj0 as [Hj _]. pose proof Hj as (E' & Hn' & Hl' & Hp').
    pose proof (proj1 (pat_run sc cur base Hfr) p n1 cp bs n2 Ep pcp Hatp w (SV v :: st) (fk' ++ fk) vs' n' o' z ltac:(lia)) as HR.
    destruct (pmatch nt p w) as [bnds|e]; unfold pat_res in HR.
    + destruct HR as (vs'' & St & Ch & Hb).
      assert (Hj'' : Jstd sc ce rho n0 (base + nv) o P vs'' n' z).
      { eapply (Jstd_chg' _ _ _ _ _ _ (base + nv) (base + nv')); [exact S1'| |exact Hj|exact Ch|apply cle_refl]. simpl; intros; lia. }
      eapply G_pre; [eapply steps_trans; [exact St|]; one st_expend; apply steps_refl|eapply chg_mono; [|exact Ch]; simpl; intros; lia|cl|].
      fold pcb.
      apply (std_body qb IHb sc cur base Hfr (add_vars ce bs) pcb n2 s1 cb nv' sn' Eb Hat3 (pcb + length cb) st fk (base + nv) (base + nv') o ko K K0 ce n0 (ctr g)
               (fun i => base + n1 <= i < base + nv') ce fk' o' z (bnds ++ rho) rho (base + nv) P (fun _ => True) (fun _ => True) v vs'' n' eq_refl); auto; try lia.
      * rewrite add_vars_lbls. reflexivity.
      * intros i Hi. split; [lia|apply HK1; lia].
      * intros i Hi. destruct (kept_add_vars sc cur base Hcur bs bnds ce vs'' n1 n2 i Hb Hi) as [(k & Hk & ->)|Hi']; [apply HK1; lia|auto].
      * eapply envOK_add_vars; [exact Hcur|exact Hb|lia|]. eapply envOK_lim; [exact (proj1 Hj'')|lia].
      * destruct Ch; lia.
    + destruct HR as (vs'' & St & Ch).
      eapply G_end; [exact St|eapply chg_mono; [|exact Ch]; simpl; intros; lia|cl|reflexivity|].
      apply Hin. split; [|exact I].
      eapply (Jstd_chg' _ _ _ _ _ _ (base + nv) (base + nv')); [exact S1'| |exact Hj|exact Ch|apply cle_refl]. simpl; intros; lia.
  - eapply G_pre; [one st_dup; one st_expbegin; apply steps_refl|apply chg_refl|cl|].
    replace (S (S pc)) with (pc + 2) by lia. exact HA.
  - split; auto.
Qed.

(* ---- queries in tail position ---- *)

(* the slots visible from a query compiled in F1: F1's own variables below nv, or slots the caller keeps *)
Lemma keptT : forall scR idf oF rpc stampF outerF ce rho vs n0 nv (K : nat -> Prop),
  let sc1 := Frame idf oF rpc stampF scR outerF :: scR in
  ce_lbls ce = [] -> envOK sc1 ce rho vs n0 (oF + nv) ->
  (forall x y i, In (x, CV y) (ce_env ce) \/ In (x, CP y) (ce_env ce) -> index_of sc1 y = Some i -> fst y = idf \/ K i) ->
  (forall i, ce_ghost ce i -> K i) ->
  forall i, kept sc1 ce i -> K i \/ oF <= i < oF + nv.
Proof.
  intros scR idf oF rpc stampF outerF ce rho vs n0 nv K sc1 Hlb HE HK Hgh i Hk.
  pose proof (kept_lt _ _ _ _ _ _ _ HE Hk) as Hlt.
  destruct Hk as [(x & y & Hx & Hi)|[(l0 & y & Hx & Hi)|Hg]].
  - destruct (HK x y i Hx Hi) as [Ey|Hki]; [|left; exact Hki]. right. destruct y as [a k]. simpl in Ey. subst a.
    unfold sc1 in Hi. simpl in Hi. rewrite Nat.eqb_refl in Hi. inversion Hi; subst. lia.
  - rewrite Hlb in Hx. discriminate.
  - left. apply Hgh. exact Hg.
Qed.

(* a query whose code is the one of the ordinary mode: run it towards F1's opret, then leave F1 *)
Lemma implT_core : forall q, Impl q ->
  forall scR, scR <> [] -> forall idf oF rpc stampF outerF nvF,
  let sc1 := Frame idf oF rpc stampF scR outerF :: scR in
  forall ce pc nv sn cq nv' sn', comp q ce idf pc nv sn = Some (cq, nv', sn') -> code_at pc cq ->
  ce_lbls ce = [] -> nv' <= nvF ->
  forall pr, at_ pr Iret ->
  forall cx, (forall w f vs n o g, steps (N sc1 (pc + length cq) (SV w :: g_st cx) f vs n o g) (N sc1 pr (SV w :: g_st cx) f vs n o g)) ->
  forall rho v vs n o g (P : list sv -> nat -> gx -> Prop),
    g_sc cx = scR -> g_pc cx = S rpc ->
    envOK sc1 ce rho vs (g_n0 cx) (oF + nv) -> g_n0 cx <= n -> oF + nvF <= o -> o <= length vs ->
    g_ctr cx <= ctr g -> stampF < ctr g ->
    g_off cx <= o -> g_koff cx <= oF ->
    (forall i, oF + nv <= i < oF + nvF \/ o <= i -> g_own cx i) ->
    (unpin (g_base cx) stampF = true -> g_off cx <= oF /\ forall i, oF <= i -> g_own cx i) ->
    (forall x y i, In (x, CV y) (ce_env ce) \/ In (x, CP y) (ce_env ce) -> index_of sc1 y = Some i -> fst y = idf \/ (g_keep cx i /\ i < oF)) ->
    (forall i, ce_ghost ce i -> g_keep cx i /\ i < oF) ->
    (forall i, g_keep0 cx i -> g_keep cx i) ->
    stable cx P -> P vs n g ->
    G cx (fst (den q rho v)) (Tend cx (snd (den q rho v)) P) (N sc1 pc (SV v :: g_st cx) (g_base cx) vs n o g).
Proof.
  intros q IH scR Hne idf oF rpc stampF outerF nvF sc1 ce pc nv sn cq nv' sn' Hc Hat Hlb Hnv pr A2 cx Hjmp rho v vs n o g P
         Hsc Hpc HE Hn Ho Hlen Hct Hst Hoff Hko Hown Hunp HK Hgh HK0 [S1 S2] HP.
  destruct (comp_mono _ _ _ _ _ _ _ _ _ Hc) as [M1 _].
  assert (Hfr1 : frameOK sc1 idf oF) by (exists rpc, stampF, scR, outerF, scR; reflexivity).
  set (K1 := fun i => g_keep cx i \/ oF <= i < oF + nv').
  pose proof (keptT scR idf oF rpc stampF outerF ce rho vs (g_n0 cx) nv (fun i => g_keep cx i /\ i < oF) Hlb HE HK Hgh) as HkT. fold sc1 in HkT.
  pose proof (IH sc1 idf oF Hfr1 ce pc nv sn cq nv' sn' Hc Hat rho v (g_st cx) (g_base cx) vs n (g_n0 cx) o o g K1 (g_keep0 cx) P
                HE Hn ltac:(lia) (le_n _) Hlen) as HI. cbv zeta in HI.
  set (c1 := ctx_of sc1 (pc + length cq) (g_st cx) (g_base cx) (oF + nv) (oF + nv') o o K1 (g_keep0 cx) ce (g_n0 cx) (ctr g)) in HI.
  set (c1r := ctx_of sc1 pr (g_st cx) (g_base cx) (oF + nv) (oF + nv') o o K1 (g_keep0 cx) ce (g_n0 cx) (ctr g)).
  refine (G_leaveT scR Hne idf oF rpc stampF outerF pr A2 cx c1r P Hsc Hpc eq_refl eq_refl eq_refl eq_refl eq_refl _ Hoff ltac:(simpl; lia) _ _ _
            ltac:(simpl; lia) Hct _ (lbf tco fu) (lbf tco fu) ltac:(simpl; lia) _ _ _ _).
  - simpl. intros i Hi. apply Hown. lia.
  - intros Hu. exact (proj1 (Hunp Hu)).
  - simpl. intros o3 i Ho3 [[Hi|Hi]|Hi]; [left; exact Hi|right; lia|right; lia].
  - simpl. intros i Hi. exact Hi.
  - simpl. intros vs0 fin e HEn. destruct fin as [[e0|l0|]|]; simpl in *; auto. destruct HEn as (x & k & id & Hk & _). rewrite Hlb in Hk. discriminate.
  - refine (G_sub nt code c1r c1r (Tend c1 (snd (den q rho v)) P) _ eq_refl eq_refl eq_refl eq_refl (fun _ H => H) (fun _ _ _ H => H) (fun _ _ H => H)
              (le_n _) (le_n _) (le_n _) _ _ _ _).
    { intros s3. tsub. }
    apply (G_exit nt code sc1 (pc + length cq) pr (g_st cx) (g_base cx) (g_own c1) K1 (g_keep0 cx) ce (g_n0 cx) o o (ctr g)
             (Tend c1 (snd (den q rho v)) P) (Tend c1 (snd (den q rho v)) P) Hjmp).
    apply HI.
    + intros i Hi. unfold K1. right. lia.
    + intros i Hi. unfold K1. destruct (HkT i Hi) as [[Hk _]|Hk]; [left; exact Hk|right; lia].
    + intros i Hi. unfold K1. left. apply HK0. exact Hi.
    + split.
      * intros a b m0 x m' x' Hp C Hm. eapply S1; [exact Hp| |exact Hm]. eapply chg_mono; [|exact C]. simpl. intros i Hi. apply Hown. lia.
      * exact S2.
    + exact HP.
Qed.

Lemma implT_nt : forall q, Impl q ->
  (forall ce pe cj cur pc nv sn r, compg tco q ce (Some (pe, Some cj)) cur pc nv sn = Some r -> comp q ce cur pc nv sn = Some r) -> ImplT q.
Proof.
  intros q IH Hcomp Htco scR Hne idf oF rpc stampF outerF pe nvF cj sc1 A1 Hcj ce pc nv sn cq nv' sn' Hc Hat Hlb Hnv pr A2 cx Hjmp rho v vs n o g P
         Hsc Hpc Hklt HE Hn Ho Hlen Hct Hst Hoff Hko Hown Hunp HK Hgh HK0 HS HP.
  apply Hcomp in Hc.
  exact (implT_core q IH scR Hne idf oF rpc stampF outerF nvF ce pc nv sn cq nv' sn' Hc Hat Hlb Hnv pr A2 cx Hjmp rho v vs n o g P
           Hsc Hpc HE Hn Ho Hlen Hct Hst Hoff Hko Hown Hunp HK Hgh HK0 HS HP).
Qed.

(* the context of a body of a composition in tail position of F1 (slots [oF, oF + nvF)), delivering to F1's caller cx:
   after an inner output that left forks behind (fk'), F1 is pinned: the body owns its lexical slots and the area
   above the current offset, and everything the caller keeps plus F1's slots is kept; after a forkless inner output
   the body is in the caller's own situation *)
Definition cbT (cx : gctx) (oF nvF : nat) (ownb0 : nat -> Prop) (fk' : list fork) (o t : nat) : gctx :=
  match fk' with
  | [] => {| g_sc := g_sc cx; g_pc := g_pc cx; g_st := g_st cx; g_base := g_base cx; g_own := g_own cx; g_keep := g_keep cx;
             g_keep0 := g_keep0 cx; g_ce := ce_empty; g_n0 := g_n0 cx; g_off := g_off cx; g_koff := g_koff cx; g_ctr := t |}
  | _ => {| g_sc := g_sc cx; g_pc := g_pc cx; g_st := g_st cx; g_base := fk' ++ g_base cx; g_own := fun i => ownb0 i \/ o <= i;
            g_keep := fun i => g_keep cx i \/ oF <= i < oF + nvF; g_keep0 := fun i => g_keep cx i \/ oF <= i < oF + nvF;
            g_ce := ce_empty; g_n0 := g_n0 cx; g_off := o; g_koff := g_koff cx; g_ctr := t |}
  end.

Lemma encR_nolbl : forall sc ce sc' ce' vs fin e, ce_lbls ce = [] -> encR sc ce vs fin e -> encR sc' ce' vs fin e.
Proof.
  intros sc ce sc' ce' vs fin e Hl HE. destruct fin as [[e0|l0|]|]; simpl in *; auto.
  destruct HE as (x & k & id & Hk & _). rewrite Hl in Hk. discriminate.
Qed.

Lemma bind_tail : forall (f : jv -> result) scR idf oF rpc stampF outerF nvF,
  let sc1 := Frame idf oF rpc stampF scR outerF :: scR in
  forall cx ce rho nv n1 pc1 st1 o t (P : list sv -> nat -> gx -> Prop),
  let c1 := ctx_of sc1 pc1 st1 (g_base cx) (oF + nv) (oF + n1) o o (fun i => oF + nv <= i < oF + n1 \/ kept sc1 ce i) (fun _ => False) ce (g_n0 cx) t in
  let J := fun a m x => Jstd sc1 ce rho (g_n0 cx) (oF + nv) o P a m x in
  let ownb0 := fun i => oF + n1 <= i < oF + nvF in
  ce_lbls ce = [] -> nv <= n1 -> n1 <= nvF -> oF + nvF <= o ->
  g_ctr cx <= t -> g_off cx <= o -> g_koff cx <= oF ->
  (forall i, oF + nv <= i < oF + nvF \/ o <= i -> g_own cx i) ->
  (forall x y i, In (x, CV y) (ce_env ce) \/ In (x, CP y) (ce_env ce) -> index_of sc1 y = Some i -> fst y = idf \/ (g_keep cx i /\ i < oF)) ->
  (forall i, ce_ghost ce i -> g_keep cx i /\ i < oF) ->
  (forall i, kept (g_sc cx) (g_ce cx) i -> i < oF) ->
  stable cx P ->
  (forall w fk' vs n o' x, J vs n x -> o <= o' <= length vs -> t <= ctr x -> Forall (fun f => t <= f_ctr f) fk' ->
     G (cbT cx oF nvF ownb0 fk' o' (ctr x)) (fst (f w)) (Tend (cbT cx oF nvF ownb0 fk' o' (ctr x)) (snd (f w)) (wk fk' J P))
       (N sc1 pc1 (SV w :: st1) (fk' ++ g_base cx) vs n o' x)) ->
  forall r s, G c1 (fst r) (Tend c1 (snd r) (fun _ _ _ => True)) s -> J (vars_of s) (lbl_of s) (gx_of s) -> t <= ctr (gx_of s) ->
    G cx (fst (bind r f)) (Tend cx (snd (bind r f)) P) s.
Proof.
  intros f scR idf oF rpc stampF outerF nvF sc1 cx ce rho nv n1 pc1 st1 o t P c1 J ownb0 Hlb Hn1 HnF HoF Hct Hoff Hko Hown HK Hgh Hklt [S1 S2] Hbody r s HA HJ Hcs.
  set (fb := fun (_ : unit) w => (fst (f w), snd (f w), tt)).
  unfold bind.
  pose proof (foldgen_bind f (fst r)) as Ef. fold fb in Ef.
  destruct (bind_list (fst r) f) as [os x] eqn:Eb. cbn [fst snd] in Ef.
  assert (HkT : forall a m y, J a m y -> forall i, kept sc1 ce i -> g_keep cx i \/ oF <= i < oF + nv).
  { intros a m y (E & _) i Hi. destruct (keptT scR idf oF rpc stampF outerF ce rho a (g_n0 cx) nv (fun i => g_keep cx i /\ i < oF) Hlb E HK Hgh i Hi) as [[Hk _]|Hk]; auto. }
  assert (HkT0 : forall i, kept sc1 ce i -> g_keep cx i \/ oF <= i < oF + nv) by (exact (HkT _ _ _ HJ)).
  assert (HG' : G cx os (Tend cx (match x with Some e => Some e | None => snd r end) P) s).
  { refine (G_foldG nt code (lbf tco fu) c1 cx unit (fun _ => J) (fun _ => P) fb (cbT cx oF nvF ownb0)
              eq_refl _ eq_refl Hoff Hct _ _ _ _ _ _ _ _ _ _ _ _ _ _ _ _ _ _ _ _ (fst r) tt s (snd r) os x tt HA HJ Hcs Ef).
    all: try (intros [|f0 fk0] o' t'; reflexivity).
    - intros vs0 fin e. apply encR_nolbl. exact Hlb.
    - simpl. intros i Hi. apply Hown. lia.
    - intros [|f0 fk0] o' t' i Ho' Hi; unfold c1 in Ho'; simpl in *; [exact Hi|]. apply Hown. unfold ownb0 in Hi. lia.
    - intros [|f0 fk0] o' t' o'' a b Ho' Ho'' Kp; [exact Kp|]. unfold c1 in Ho'. simpl in Ho', Ho''.
      eapply keepX_mono; [|exact Kp]. simpl. intros i [[Hi|Hi]|Hi]; [left; exact Hi|right; lia|right; exact Hi].
    - intros [|f0 fk0] o' t' o'' a b Ho' Ho'' Kp; [exact Kp|]. unfold c1 in Ho'. simpl in Ho', Ho'', Kp.
      eapply keepX_mono; [|exact Kp]. simpl. intros i [Hi|Hi]; [left; exact Hi|right; lia].
    - intros [|f0 fk0] o' t' Ho'; unfold c1 in Ho'; simpl in *; lia.
    - intros fk' o' t' vs0 fin e. destruct fk'; apply encR_nolbl; reflexivity.
    - (* the body does not touch what the inner generator needs *)
      intros [|f0 fk0] o3 t' a b x0 Ho3 Kp C; unfold c1 in Ho3, Kp |- *; simpl in *.
      + destruct Kp as [L _], C as [L' _]. split; [lia|]. intros i [].
      + destruct Kp as [L Kq], C as [L' C]. split; [lia|]. intros i Hi. rewrite (Kq i Hi). apply C. unfold ownb0. cbv beta. simpl in Hi.
        destruct Hi as [[Hi|Hi]|Hi]; [clear - Hi Ho3 HnF HoF; lia| |clear - Hi Ho3 HnF HoF; lia].
        pose proof (kept_lt _ _ _ _ _ _ _ (proj1 HJ) Hi) as Hkl. clear - Hkl Ho3 HnF HoF Hn1. lia.
    - (* nor does the caller's continuation *)
      intros [|f0 fk0] o3 t' o'' f1 a b x0 Ho3 Ho'' Kp C; unfold c1 in Ho3, Kp |- *; simpl in *.
      + destruct Kp as [L _]. assert (length a <= length b) by (destruct f1; simpl in C; destruct C; lia). split; [lia|]. intros i [].
      + assert (C' : keepS cx o'' a b) by (destruct f1; simpl in C; exact C).
        destruct Kp as [L Kq], C' as [L' C']. split; [lia|]. intros i Hi. rewrite (Kq i Hi). apply C'. simpl in Hi |- *.
        destruct Hi as [[Hi|Hi]|Hi]; [right; lia| |right; lia]. destruct (HkT0 i Hi); [left; auto|right; lia].
    - intros i Hi. apply Hklt in Hi. simpl. lia.
    - intros _ a b m y m' y' Hj C Hm. unfold J in *.
      eapply Jstd_chg; [|  |exact Hj|exact C|exact Hm].
      + intros p q k h k' h' Hp Cq Hk. eapply S1; [exact Hp| |exact Hk]. eapply chg_mono; [|exact Cq]. simpl. intros i Hi. apply Hown. lia.
      + simpl. intros; lia.
    - intros _ a b m y m' y' Hp C Hm. eapply S1; [exact Hp| |exact Hm]. eapply chg_mono; [|exact C]. simpl. intros i Hi. apply Hown. lia.
    - intros _ a m y (_ & _ & _ & Hp). exact Hp.
    - intros _ a m y fk' o' t' _ l0 x0 Hl. destruct fk'; simpl in Hl; discriminate.
    - intros w g0 fk' vs' n' o' x0 os' x' g' Hj Ho' Ht' Hfk Efb. unfold fb in Efb. inversion Efb; subst os' x' g'.
      apply Hbody; auto. }
  destruct x as [e|]; exact HG'.
Qed.

(* an ImplT used as a body of a composition in tail position (the analogue of std_body) *)
Lemma tail_body : forall q, ImplT q -> tco = true -> forall scR, scR <> [] -> forall idf oF rpc stampF outerF pe nvF cj,
  let sc1 := Frame idf oF rpc stampF scR outerF :: scR in
  at_ pe (Iscope idf nvF 0) -> (cj = true -> nvF = 0) ->
  forall cx ce rho nv nb n1 o t (P : list sv -> nat -> gx -> Prop),
  let J := fun a m x => Jstd sc1 ce rho (g_n0 cx) (oF + nv) o P a m x in
  let ownb0 := fun i => oF + nb <= i < oF + nvF in
  g_sc cx = scR -> g_pc cx = S rpc -> (forall i, kept scR (g_ce cx) i -> i < oF) ->
  oF + nvF <= o -> g_off cx <= o -> g_koff cx <= oF -> stampF < t ->
  (forall i, oF + nv <= i < oF + nvF \/ o <= i -> g_own cx i) ->
  (unpin (g_base cx) stampF = true -> g_off cx <= oF /\ forall i, oF <= i -> g_own cx i) ->
  (forall i, g_keep0 cx i -> g_keep cx i) -> stable cx P -> nv <= nb -> nb <= n1 ->
  (forall x y i, In (x, CV y) (ce_env ce) \/ In (x, CP y) (ce_env ce) -> index_of sc1 y = Some i -> fst y = idf \/ (g_keep cx i /\ i < oF)) ->
  (forall i, ce_ghost ce i -> g_keep cx i /\ i < oF) -> ce_lbls ce = [] ->
  forall ceq rhoq pcq sn cq nvq' sn', compg tco q ceq (Some (pe, Some cj)) idf pcq n1 sn = Some (cq, nvq', sn') -> code_at pcq cq ->
  ce_lbls ceq = [] -> nvq' <= nvF ->
  forall pr, at_ pr Iret ->
  (forall w f vs n o g, steps (N sc1 (pcq + length cq) (SV w :: g_st cx) f vs n o g) (N sc1 pr (SV w :: g_st cx) f vs n o g)) ->
  (forall x y i, In (x, CV y) (ce_env ceq) \/ In (x, CP y) (ce_env ceq) -> index_of sc1 y = Some i -> fst y = idf \/ (g_keep cx i /\ i < oF)) ->
  (forall i, ce_ghost ceq i -> g_keep cx i /\ i < oF) ->
  forall w fk' vs' n' o' x, J vs' n' x -> envOK sc1 ceq rhoq vs' (g_n0 cx) (oF + n1) -> o <= o' <= length vs' -> t <= ctr x ->
    g_ctr cx <= ctr x -> Forall (fun f => t <= f_ctr f) fk' ->
    G (cbT cx oF nvF ownb0 fk' o' (ctr x)) (fst (den q rhoq w)) (Tend (cbT cx oF nvF ownb0 fk' o' (ctr x)) (snd (den q rhoq w)) (wk fk' J P))
      (N sc1 pcq (SV w :: g_st cx) (fk' ++ g_base cx) vs' n' o' x).
Proof.
  intros q IHT Htco scR Hne idf oF rpc stampF outerF pe nvF cj sc1 A1 Hcj cx ce rho nv nb n1 o t P J ownb0 Hsc Hpc Hklt HoF Hoff Hko Hst Hown Hunp HK0 [S1 S2] Hnb Hn1
         HK Hgh Hlb ceq rhoq pcq sn cq nvq' sn' Ec Hat Hlbq Hnq pr A2 Hjmp HKq Hghq w fk' vs' n' o' x Hj HEq Ho' Ht' Hcx Hfk.
  pose proof Hj as (E' & Hn' & Hl' & Hp'). destruct (comp_mono _ _ _ _ _ _ _ _ _ Ec) as [Mq _].
  assert (HkT : forall i, kept sc1 ce i -> g_keep cx i \/ oF <= i < oF + nv)
    by (intros i Hi; destruct (keptT scR idf oF rpc stampF outerF ce rho vs' (g_n0 cx) nv (fun i => g_keep cx i /\ i < oF) Hlb E' HK Hgh i Hi) as [[Hk _]|Hk]; auto).
  destruct fk' as [|f0 fk0].
  - (* the inner generator is over: the caller's own situation *)
    refine (IHT Htco scR Hne idf oF rpc stampF outerF pe nvF cj A1 Hcj ceq pcq n1 sn cq nvq' sn' Ec Hat Hlbq Hnq pr A2
              (cbT cx oF nvF ownb0 [] o' (ctr x)) Hjmp rhoq w vs' n' o' x (wk [] J P) Hsc Hpc _ HEq Hn' ltac:(lia) (proj2 Ho')
              (le_n _) ltac:(lia) ltac:(simpl; lia) Hko _ Hunp HKq Hghq HK0 (conj S1 S2) Hp').
    + simpl. intros i [(x0 & y0 & [[]|[]] & _)|[(l0 & y0 & Hx & _)|[]]]. discriminate.
    + simpl. intros i Hi. apply Hown. lia.
  - (* F1 is pinned by the forks of the inner generator *)
    assert (Hf0 : stampF < f_ctr f0) by (inversion Hfk; subst; lia).
    refine (IHT Htco scR Hne idf oF rpc stampF outerF pe nvF cj A1 Hcj ceq pcq n1 sn cq nvq' sn' Ec Hat Hlbq Hnq pr A2
              (cbT cx oF nvF ownb0 (f0 :: fk0) o' (ctr x)) Hjmp rhoq w vs' n' o' x (wk (f0 :: fk0) J P) Hsc Hpc _ HEq Hn' ltac:(lia) (proj2 Ho')
              (le_n _) ltac:(lia) (le_n _) Hko _ _ _ _ (fun _ H => H) _ Hj).
    + simpl. intros i [(x0 & y0 & [[]|[]] & _)|[(l0 & y0 & Hx & _)|[]]]. discriminate.
    + simpl. unfold ownb0. intros i Hi. lia.
    + simpl. intros Hu. apply Nat.leb_le in Hu. lia.
    + simpl. intros x0 y0 i Hin Hi. destruct (HKq x0 y0 i Hin Hi) as [Hq|[Hq Hq']]; [left; auto|right; split; [left; auto|exact Hq']].
    + simpl. intros i Hi. destruct (Hghq i Hi) as [Hq Hq']. split; [left; exact Hq|exact Hq'].
    + split.
      * intros a b m y m' y' Hja C Hm. unfold J in *. simpl in C.
        eapply Jstd_chg; [| |exact Hja|exact C|exact Hm].
        -- intros p q0 k h k' h' Hp Cq Hk. eapply S1; [exact Hp| |exact Hk]. eapply chg_mono; [|exact Cq]. unfold ownb0. intros i Hi. apply Hown. lia.
        -- unfold ownb0. intros i Hi. lia.
      * intros a b m y m' y' Hja C Hm. unfold J in *. unfold keepK0 in C. simpl in C.
        refine (Jstd_keep _ _ _ _ _ _ _ _ _ _ _ _ _ _ _ _ Hja C Hm).
        -- intros p q0 k h k' h' Hp Kq Hk. eapply S2; [exact Hp| |exact Hk]. unfold keepK0. eapply keepX_mono; [|exact Kq].
           intros i Hi. left. apply HK0. exact Hi.
        -- intros i Hi. destruct (HkT i Hi) as [Hk|Hk]; [left; exact Hk|right; lia].
Qed.

(* the code of a transparent query: jumps over the definitions *)
Lemma transparent_steps : forall q, transparent q = true -> forall ce tp cur pc nv sn cq nv' sn', compg tco q ce tp cur pc nv sn = Some (cq, nv', sn') ->
  code_at pc cq -> forall sc st fk vs n o g, steps (N sc pc st fk vs n o g) (N sc (pc + length cq) st fk vs n o g).
Proof.
  induction q; intros Ht ce tp cur pc nv sn cq nv' sn' Hc Hat sc st fk vs n oo g; simpl in Ht; try discriminate.
  - simpl in Hc. inversion Hc; subst. simpl. rewrite Nat.add_0_r. apply steps_refl.
  - apply andb_true_iff in Ht. destruct Ht as [H1 H2]. simpl in Hc.
    match type of Hc with context [compg tco q1 ?ce0 ?t0 ?c0 ?p0 ?n0 ?s0] =>
      destruct (compg tco q1 ce0 t0 c0 p0 n0 s0) as [[[ca n1] s1]|] eqn:Ea; [|discriminate] end.
    destruct (compg tco q2 ce tp cur (pc + length ca) n1 s1) as [[[cb n2] s2]|] eqn:Eb; [|discriminate]. inversion Hc; subst.
    destruct (code_at_app _ _ _ _ Hat) as [Hata Hatb]. rewrite app_length, Nat.add_assoc.
    eapply steps_trans; [eapply IHq1; eauto|eapply IHq2; eauto].
  - destruct (comp_def_inv _ _ _ _ _ _ _ _ _ _ _ _ Hc) as (_ & _ & cb & nvb & s1 & cr & Eb & Er & ->). cbv zeta in Eb, Er.
    uncons Hat A0.
    assert (Hatr : code_at (pc + 2 + length (prelude sn ps) + length cb + 1) cr).
    { intros i x Hi. replace (pc + 2 + length (prelude sn ps) + length cb + 1 + i) with (S pc + (1 + (length (prelude sn ps) + (length cb + S i)))) by lia. apply Hat.
      simpl. rewrite nth_error_app2 by lia. replace (length (prelude sn ps) + (length cb + S i) - length (prelude sn ps)) with (length cb + S i) by lia.
      rewrite nth_error_app2 by lia. replace (length cb + S i - length cb) with (S i) by lia. exact Hi. }
    eapply steps_step; [eapply st_jump; exact A0|].
    match goal with |- Mach.steps _ _ _ (Mach.N _ ?b _ _ _ _ _ _) => replace b with (pc + 2 + length (prelude sn ps) + length cb + 1 + length cr) by (simpl; rewrite !app_length; simpl; lia) end.
    eapply IHq2; eauto.
Qed.

Lemma implT_pipe : forall a b, Impl a -> ImplT a -> ImplT b -> ImplT (QPipe a b).
Proof.
  intros a b IHa IHaT IHbT Htco scR Hne idf oF rpc stampF outerF pe nvF cj sc1 A1 Hcj ce pc nv sn cq nv' sn' Hc Hat Hlb Hnv pr A2 cx Hjmp rho v vs n o g P
         Hsc Hpc Hklt HE Hn Ho Hlen Hct Hst Hoff Hko Hown Hunp HK Hgh HK0 HS HP.
  cbn -[transparent] in Hc. destruct (transparent b) eqn:Eb.
  - (* the right side only jumps over definitions: the left side is in tail position *)
    destruct (compg tco a ce (Some (pe, Some cj)) idf pc nv sn) as [[[ca n1] s1]|] eqn:Ec; [|discriminate].
    destruct (compg tco b ce (Some (pe, Some cj)) idf (pc + length ca) n1 s1) as [[[cb n2] s2]|] eqn:Ec0; [|discriminate].
    inversion Hc; subst cq nv' sn'. clear Hc.
    destruct (code_at_app _ _ _ _ Hat) as [Hata Hatb].
    pose proof (comp_nvars _ _ _ _ _ _ _ _ _ _ _ Ec0) as Hn2. rewrite (transparent_nvars b Eb) in Hn2.
    rewrite (den_pipe_rt nt _ a b Eb).
    refine (IHaT Htco scR Hne idf oF rpc stampF outerF pe nvF cj A1 Hcj ce pc nv sn ca n1 s1 Ec Hata Hlb ltac:(lia) pr A2 cx _ rho v vs n o g P
             Hsc Hpc Hklt HE Hn Ho Hlen Hct Hst Hoff Hko Hown Hunp HK Hgh HK0 HS HP).
    intros w f vs0 n0' o0 g0. eapply steps_trans; [exact (transparent_steps b Eb _ _ _ _ _ _ _ _ _ Ec0 Hatb _ _ _ _ _ _ _)|].
    rewrite app_length, Nat.add_assoc in Hjmp. apply Hjmp.
  - destruct (comp a ce idf pc nv sn) as [[[ca n1] s1]|] eqn:Ec; [|discriminate].
    destruct (compg tco b ce (Some (pe, Some cj)) idf (pc + length ca) n1 s1) as [[[cb n2] s2]|] eqn:Ec0; [|discriminate].
    inversion Hc; subst cq nv' sn'. clear Hc.
    destruct (code_at_app _ _ _ _ Hat) as [Hata Hatb].
    destruct (comp_mono _ _ _ _ _ _ _ _ _ Ec) as [M1 _]. destruct (comp_mono _ _ _ _ _ _ _ _ _ Ec0) as [M2 _].
    assert (Hfr1 : frameOK sc1 idf oF) by (exists rpc, stampF, scR, outerF, scR; reflexivity).
    pose proof (impl_inner a IHa sc1 idf oF Hfr1 ce pc nv sn ca n1 s1 Ec Hata rho v (g_st cx) (g_base cx) vs n (g_n0 cx) o g HE Hn ltac:(lia) Hlen) as HA.
    cbv zeta in HA. cbn [Den.den1].
    rewrite app_length, Nat.add_assoc in Hjmp.
    refine (bind_tail (den b rho) scR idf oF rpc stampF outerF nvF cx ce rho nv n1 (pc + length ca) (g_st cx) o (ctr g) P
              Hlb M1 ltac:(lia) Ho Hct Hoff Hko Hown HK Hgh _ HS _ (den a rho v) _ HA _ (le_n _)).
    + rewrite Hsc. exact Hklt.
    + intros w fk' vs' n' o' x Hj Ho' Ht' Hfk. pose proof Hj as (E' & _).
      refine (tail_body b IHbT Htco scR Hne idf oF rpc stampF outerF pe nvF cj A1 Hcj cx ce rho nv n1 n1 o (ctr g) P
                Hsc Hpc Hklt Ho Hoff Hko Hst Hown Hunp HK0 HS M1 (le_n _) HK Hgh Hlb ce rho (pc + length ca) s1 cb n2 s2 Ec0 Hatb Hlb Hnv pr A2 Hjmp HK Hgh
                w fk' vs' n' o' x Hj _ Ho' Ht' ltac:(lia) Hfk).
      eapply envOK_lim; [exact E'|lia].
    + split; [exact HE|]. split; [exact Hn|]. split; [exact Hlen|exact HP].
Qed.

Lemma implT_def : forall f ps body rest, ImplT rest -> ImplT (QDef f ps body rest).
Proof.
  intros f ps body rest IHrT Htco scR Hne idf oF rpc stampF outerF pe nvF cj sc1 A1 Hcj ce pc nv sn cq nv' sn' Hc Hat Hlb Hnv pr A2 cx Hjmp rho v vs n o g P
         Hsc Hpc Hklt HE Hn Ho Hlen Hct Hst Hoff Hko Hown Hunp HK Hgh HK0 HS HP.
  destruct (comp_def_inv _ _ _ _ _ _ _ _ _ _ _ _ Hc) as (Hlt & Hce & cb & nvb & s1 & cr & Eb & Er & ->). cbv zeta in Eb, Er. clear Hc.
  set (pre := prelude sn ps) in *.
  set (l := pc + 2 + length pre + length cb + 1) in *.
  uncons Hat A0. uncons Hat A1'.
  assert (Hatf : forall i x, nth_error (pre ++ cb ++ [Iret]) i = Some x -> nth_error code (S pc + 1 + i) = Some x).
  { intros i x Hi. replace (S pc + 1 + i) with (S (S pc) + i) by lia. apply Hat.
    replace (pre ++ cb ++ Iret :: cr) with ((pre ++ cb ++ [Iret]) ++ cr) by (rewrite <- !app_assoc; reflexivity).
    apply nth_error_prefix. exact Hi. }
  assert (Hatr : code_at l cr).
  { intros i x Hi. replace (l + i) with (S (S pc) + (length pre + (length cb + S i))) by (unfold l; lia). apply Hat.
    rewrite nth_error_app2 by lia. replace (length pre + (length cb + S i) - length pre) with (length cb + S i) by lia.
    rewrite nth_error_app2 by lia. replace (length cb + S i - length cb) with (S i) by lia. exact Hi. }
  assert (Epc : pc + length (Ijump l :: Iscope sn nvb (length ps) :: pre ++ cb ++ Iret :: cr) = l + length cr).
  { simpl. rewrite !app_length. simpl. unfold l. lia. }
  rewrite Epc in Hjmp.
  cbn [Den.den1].
  eapply G_pre; [one st_jump; apply steps_refl|apply chg_refl|cl|].
  refine (IHrT Htco scR Hne idf oF rpc stampF outerF pe nvF cj A1 Hcj (add_fun ce f (S pc) (length ps)) l nv s1 cr nv' sn' Er Hatr Hlb Hnv pr A2 cx Hjmp
            ((f, BF ps body) :: rho) v vs n o g P Hsc Hpc Hklt _ Hn Ho Hlen Hct Hst Hoff Hko Hown Hunp _ Hgh HK0 HS HP).
  - apply envOK_add_fun; [exact HE|].
    exists sn, nvb, cb, (S sn), s1. split; [exact A1'|]. split; [|split; [exact Hatf|apply ce_lt_fun; exact Hce]].
    intros G. fold pre. replace (S pc + 1 + length pre) with (pc + 2 + length pre) by lia.
    rewrite <- Eb. apply comp_ghost; reflexivity.
  - simpl. intros x y i [[E|Hin]|[E|Hin]] Hi; try discriminate; apply (HK x y i); auto.
Qed.

Lemma implT_bind : forall qs x qb, Impl qs -> ImplT qb -> ImplT (QBind qs x qb).
Proof.
  intros qs x qb IHs IHbT Htco scR Hne idf oF rpc stampF outerF pe nvF cj sc1 A1 Hcj ce pc nv sn cq nv' sn' Hc Hat Hlb Hnv pr A2 cx Hjmp rho v vs n o g P
         Hsc Hpc Hklt HE Hn Ho Hlen Hct Hst Hoff Hko Hown Hunp HK Hgh HK0 HS HP.
  destruct (comp_bind_inv _ _ _ _ _ _ _ _ _ _ _ _ Hc) as (cs & n1 & s1 & cb & Es & Eb & ->). clear Hc.
  destruct (comp_mono _ _ _ _ _ _ _ _ _ Es) as [M1 _]. destruct (comp_mono _ _ _ _ _ _ _ _ _ Eb) as [M2 _].
  assert (Hfr1 : frameOK sc1 idf oF) by (exists rpc, stampF, scR, outerF, scR; reflexivity).
  pose proof (frameOK_cur _ _ _ Hfr1) as Hcur.
  assert (HJ0 : Jstd sc1 ce rho (g_n0 cx) (oF + nv) o P vs n g) by (split; auto).
  assert (Hklt' : forall i, kept (g_sc cx) (g_ce cx) i -> i < oF) by (rewrite Hsc; exact Hklt).
  cbn [Den.den1].
  destruct (code_at_app _ _ _ _ Hat) as [Hpre Hatb].
  rewrite app_length, Nat.add_assoc in Hjmp.
  set (pcb := pc + length (bind_pre cs (idf, n1))) in *.
  (* the body: store the output in the slot of x, then the bound query, in tail position *)
  assert (Hbody : forall pcs, at_ pcs (Istore (idf, n1)) ->
            (forall st0 f vs0 n0' o0 g0, steps (N sc1 (S pcs) st0 f vs0 n0' o0 g0) (N sc1 pcb st0 f vs0 n0' o0 g0)) ->
            forall w fk' vs' n' o' z, Jstd sc1 ce rho (g_n0 cx) (oF + nv) o P vs' n' z -> o <= o' <= length vs' -> ctr g <= ctr z ->
              Forall (fun f => ctr g <= f_ctr f) fk' ->
              G (cbT cx oF nvF (fun i => oF + n1 <= i < oF + nvF) fk' o' (ctr z)) (fst (den qb ((x, BV w) :: rho) v))
                (Tend (cbT cx oF nvF (fun i => oF + n1 <= i < oF + nvF) fk' o' (ctr z)) (snd (den qb ((x, BV w) :: rho) v))
                   (wk fk' (Jstd sc1 ce rho (g_n0 cx) (oF + nv) o P) P))
                (N sc1 pcs (SV w :: SV v :: g_st cx) (fk' ++ g_base cx) vs' n' o' z)).
  { intros pcs As Hst2 w fk' vs' n' o' z Hj Ho' Ht' Hfk. pose proof Hj as (E' & Hn' & Hl' & Hp').
    destruct (update_some vs' (oF + n1) (SV w)) as [vs'' U]; [lia|].
    destruct (update_spec _ _ _ _ U) as (UL & UN & UO).
    assert (Hj'' : Jstd sc1 ce rho (g_n0 cx) (oF + nv) o P vs'' n' z).
    { destruct HS as [S1 S2]. split; [|split; [exact Hn'|split; [lia|]]].
      - eapply envOK_same; [exact E'|]. intros k Hk. symmetry. apply UO. pose proof (kept_lt _ _ _ _ _ _ _ E' Hk). lia.
      - eapply S1; [exact Hp'| |apply cle_refl]. eapply chg_update; [exact U|]. apply Hown. lia. }
    eapply G_pre; [eapply steps_step; [eapply st_store; [exact As|apply Hcur|exact U]|apply Hst2]| |cl|].
    { destruct fk'; simpl; (eapply chg_update; [exact U|]); [apply Hown; lia|left; lia]. }
    refine (tail_body qb IHbT Htco scR Hne idf oF rpc stampF outerF pe nvF cj A1 Hcj cx ce rho nv n1 (S n1) o (ctr g) P
              Hsc Hpc Hklt Ho Hoff Hko Hst Hown Hunp HK0 HS M1 (le_S _ _ (le_n _)) HK Hgh Hlb (add_var ce x (idf, n1)) ((x, BV w) :: rho) pcb s1 cb nv' sn' Eb Hatb Hlb Hnv pr A2 Hjmp _ Hgh
              v fk' vs'' n' o' z Hj'' _ ltac:(lia) Ht' ltac:(lia) Hfk).
    - simpl. intros x0 y0 i [[E|Hin]|[E|Hin]] Hi; try discriminate; [inversion E; subst; left; reflexivity|apply (HK x0 y0 i); auto|apply (HK x0 y0 i); auto].
    - eapply envOK_add_var; [eapply envOK_lim; [exact (proj1 Hj'')|lia]|apply Hcur|lia|exact UN]. }
  destruct cs as [|i0 cs'].
  - (* the source emits no code: dup; nop; store x *)
    destruct (comp_nil _ _ _ _ _ _ _ _ Es) as (E1 & -> & ->). unfold bind_pre in Hpre. simpl in pcb.
    uncons Hpre B0. uncons Hpre B1. uncons Hpre B2.
    rewrite (emptycode_den nt _ _ E1).
    refine (bind_tail (fun w => den qb ((x, BV w) :: rho) v) scR idf oF rpc stampF outerF nvF cx ce rho nv nv (S (S pc)) (SV v :: g_st cx) o (ctr g) P
              Hlb (le_n _) ltac:(lia) Ho Hct Hoff Hko Hown HK Hgh Hklt' HS _ ([v], None) (N sc1 pc (SV v :: g_st cx) (g_base cx) vs n o g) _ HJ0 (le_n _)).
    + intros w fk' vs' n' o' z Hj Ho' Ht' Hfk.
      apply (Hbody (S (S pc)) B2); auto. intros. replace (S (S (S pc))) with pcb by (unfold pcb; lia). apply steps_refl.
    + cbn [fst snd]. eapply G_single; [one st_dup; one st_nop; apply steps_refl|apply chg_refl|cl|simpl; lia|auto].
  - (* dup; expbegin; source; store x; expend *)
    remember (i0 :: cs') as cs eqn:Ecs.
    assert (Epre : bind_pre cs (idf, n1) = Idup :: Iexpbegin :: cs ++ [Istore (idf, n1); Iexpend]) by (subst cs; reflexivity).
    rewrite Epre in Hpre. uncons Hpre B0. uncons Hpre B1.
    destruct (code_at_app _ _ _ _ Hpre) as [Hats Hpre2]. uncons Hpre2 B2. uncons Hpre2 B3.
    replace (S (S pc)) with (pc + 2) in * by lia.
    assert (Epcb : pcb = S (S (pc + 2 + length cs))).
    { unfold pcb. rewrite Epre. simpl. rewrite app_length. simpl. lia. }
    pose proof (impl_inner qs IHs sc1 idf oF Hfr1 ce (pc + 2) nv sn cs n1 s1 Es Hats rho v (SV v :: g_st cx) (g_base cx) vs n (g_n0 cx) o g HE Hn ltac:(lia) Hlen) as HA.
    cbv zeta in HA.
    refine (bind_tail (fun w => den qb ((x, BV w) :: rho) v) scR idf oF rpc stampF outerF nvF cx ce rho nv n1 (pc + 2 + length cs) (SV v :: g_st cx) o (ctr g) P
              Hlb M1 ltac:(lia) Ho Hct Hoff Hko Hown HK Hgh Hklt' HS _ (den qs rho v) (N sc1 pc (SV v :: g_st cx) (g_base cx) vs n o g) _ HJ0 (le_n _)).
    + intros w fk' vs' n' o' z Hj Ho' Ht' Hfk.
      apply (Hbody (pc + 2 + length cs) B2); auto. intros. one st_expend. rewrite Epcb. apply steps_refl.
    + eapply G_pre; [one st_dup; one st_expbegin; apply steps_refl|apply chg_refl|cl|].
      replace (S (S pc)) with (pc + 2) by lia. exact HA.
Qed.

Lemma implT_id : ImplT QId.
Proof. apply (implT_nt QId impl_id). intros ce pe cj cur pc nv sn r H. exact H. Qed.

Lemma implT_if : forall qc qa qb, Impl qc -> ImplT qa -> ImplT qb -> ImplT (QIf qc qa qb).
Proof.
  intros qc qa qb IHc IHaT IHbT Htco scR Hne idf oF rpc stampF outerF pe nvF cj sc1 A1 Hcj ce pc nv sn cq nv' sn' Hc Hat Hlb Hnv pr A2 cx Hjmp rho v vs n o g P
         Hsc Hpc Hklt HE Hn Ho Hlen Hct Hst Hoff Hko Hown Hunp HK Hgh HK0 HS HP.
  destruct (comp_if_inv _ _ _ _ _ _ _ _ _ _ _ _ Hc) as (cc & n1 & s1 & ca & n2 & s2 & cb & Ec & Ea & Eb & Hcq). cbv zeta in *. clear Hc.
  set (pcc := pc + length (if_pre cc)) in *. set (e := pcc + 1 + length ca + 1) in *.
  destruct (comp_mono _ _ _ _ _ _ _ _ _ Ec) as [M1 _]. destruct (comp_mono _ _ _ _ _ _ _ _ _ Ea) as [M2 _].
  destruct (comp_mono _ _ _ _ _ _ _ _ _ Eb) as [M3 _].
  assert (Hfr1 : frameOK sc1 idf oF) by (exists rpc, stampF, scR, outerF, scR; reflexivity).
  assert (HJ0 : Jstd sc1 ce rho (g_n0 cx) (oF + nv) o P vs n g) by (split; auto).
  assert (Hklt' : forall i, kept (g_sc cx) (g_ce cx) i -> i < oF) by (rewrite Hsc; exact Hklt).
  cbn [Den.den1].
  destruct Hcq as [(x & y & -> & -> & ->)| ->].
  - (* constant results: nop ... jumpifnot; push x; jump; push y *)
    change (Inop :: tl (if_pre cc) ++ [Ijumpifnot e; Ipush x; Ijump (e + 1); Ipush y])
      with ((Inop :: tl (if_pre cc)) ++ [Ijumpifnot e; Ipush x; Ijump (e + 1); Ipush y]) in *.
    destruct (code_at_app _ _ _ _ Hat) as [Hpre Hat2].
    assert (Elen : pc + length (Inop :: tl (if_pre cc)) = pcc).
    { unfold pcc. rewrite (if_pre_cons cc) at 2. reflexivity. }
    rewrite Elen in Hat2. uncons Hat2 Aj. uncons Hat2 Ax. uncons Hat2 Ajmp. uncons Hat2 Ay.
    assert (Epc : pc + length ((Inop :: tl (if_pre cc)) ++ [Ijumpifnot e; Ipush x; Ijump (e + 1); Ipush y]) = e + 1).
    { rewrite app_length, Nat.add_assoc, Elen. unfold e. simpl. lia. }
    assert (Ee : e = S (S (S pcc))) by (unfold e; simpl; lia).
    rewrite Epc in Hjmp.
    pose proof (if_cond qc IHc sc1 idf oF Hfr1 ce pc nv sn cc n1 s1 Ec Inop Hpre rho v (g_st cx) (g_st cx) (g_base cx) vs n (g_n0 cx) o g) as HA. cbv zeta in HA.
    assert (A0 : at_ pc Inop) by (destruct (code_at_cons _ _ _ _ Hpre); auto).
    specialize (HA (fun f vs n o g => st_nop nt code sc1 pc _ f vs n o g A0) HE Hn ltac:(lia) Hlen). fold pcc in HA.
    rewrite (comp_const1 nt _ _ _ _ _ _ _ _ _ _ Ea), (comp_const1 nt _ _ _ _ _ _ _ _ _ _ Eb).
    refine (bind_tail (fun w => if truthy w then ([x], None) else ([y], None)) scR idf oF rpc stampF outerF nvF cx ce rho nv n1 pcc (g_st cx) o (ctr g) P
              Hlb M1 ltac:(lia) Ho Hct Hoff Hko Hown HK Hgh Hklt' HS _ _ _ HA HJ0 (le_n _)).
    intros w fk' vs' n' o' z Hj Ho' Ht' Hfk. pose proof Hj as (E' & _).
    assert (HB : forall u, G (cbT cx oF nvF (fun i => oF + n1 <= i < oF + nvF) fk' o' (ctr z)) [u]
                            (Tend (cbT cx oF nvF (fun i => oF + n1 <= i < oF + nvF) fk' o' (ctr z)) None (wk fk' (Jstd sc1 ce rho (g_n0 cx) (oF + nv) o P) P))
                            (N sc1 (e + 1) (SV u :: g_st cx) (fk' ++ g_base cx) vs' n' o' z)).
    { intros u.
      refine (tail_body QId implT_id Htco scR Hne idf oF rpc stampF outerF pe nvF cj A1 Hcj cx ce rho nv n1 n1 o (ctr g) P
                Hsc Hpc Hklt Ho Hoff Hko Hst Hown Hunp HK0 HS M1 (le_n _) HK Hgh Hlb ce rho (e + 1) sn [] n1 sn eq_refl _ Hlb ltac:(lia) pr A2 _ HK Hgh
                u fk' vs' n' o' z Hj _ Ho' Ht' ltac:(lia) Hfk).
      - intros i0 x0 Hi0. destruct i0; discriminate.
      - simpl length. rewrite Nat.add_0_r. exact Hjmp.
      - eapply envOK_lim; [exact E'|lia]. }
    eapply G_pre; [one st_jumpifnot; apply steps_refl|apply chg_refl|cl|].
    destruct (truthy w); cbn [fst snd].
    + eapply G_pre; [one st_push; one st_jump; apply steps_refl|apply chg_refl|cl|]. apply HB.
    + eapply G_pre; [rewrite Ee in *; one st_push; replace (S (S (S (S pcc)))) with (S (S (S pcc)) + 1) by lia; apply steps_refl|apply chg_refl|cl|].
      rewrite Ee in HB. apply HB.
  - (* general *)
    destruct (code_at_app _ _ _ _ Hat) as [Hpre Hat2]. fold pcc in Hat2.
    uncons Hat2 Aj. destruct (code_at_app _ _ _ _ Hat2) as [Hata Hat3]. uncons Hat3 Ajmp.
    replace (S (S pcc + length ca)) with e in Hat3 by (unfold e; lia). rename Hat3 into Hatb.
    assert (Epc : pc + length (if_pre cc ++ Ijumpifnot e :: ca ++ Ijump (e + length cb) :: cb) = e + length cb).
    { rewrite app_length. simpl. rewrite app_length. simpl. unfold e, pcc. lia. }
    rewrite Epc in Hjmp.
    rewrite (if_pre_cons cc) in Hpre.
    pose proof (if_cond qc IHc sc1 idf oF Hfr1 ce pc nv sn cc n1 s1 Ec Idup Hpre rho v (g_st cx) (SV v :: g_st cx) (g_base cx) vs n (g_n0 cx) o g) as HA. cbv zeta in HA.
    assert (A0 : at_ pc Idup) by (destruct (code_at_cons _ _ _ _ Hpre); auto).
    specialize (HA (fun f vs n o g => st_dup nt code sc1 pc _ _ f vs n o g A0) HE Hn ltac:(lia) Hlen). fold pcc in HA.
    refine (bind_tail (fun w => if truthy w then den qa rho v else den qb rho v) scR idf oF rpc stampF outerF nvF cx ce rho nv n1 pcc (SV v :: g_st cx) o (ctr g) P
              Hlb M1 ltac:(lia) Ho Hct Hoff Hko Hown HK Hgh Hklt' HS _ _ _ HA HJ0 (le_n _)).
    intros w fk' vs' n' o' z Hj Ho' Ht' Hfk. pose proof Hj as (E' & _).
    eapply G_pre; [one st_jumpifnot; apply steps_refl|apply chg_refl|cl|].
    destruct (truthy w).
    + (* then-branch, followed by the jump over the else-branch *)
      refine (tail_body qa IHaT Htco scR Hne idf oF rpc stampF outerF pe nvF cj A1 Hcj cx ce rho nv n1 n1 o (ctr g) P
                Hsc Hpc Hklt Ho Hoff Hko Hst Hown Hunp HK0 HS M1 (le_n _) HK Hgh Hlb ce rho (S pcc) s1 ca n2 s2 Ea Hata Hlb ltac:(lia) pr A2 _ HK Hgh
                v fk' vs' n' o' z Hj _ Ho' Ht' ltac:(lia) Hfk).
      * intros w' f vs2 n2' o2 g2. eapply steps_step; [eapply st_jump; exact Ajmp|]. apply Hjmp.
      * eapply envOK_lim; [exact E'|lia].
    + refine (tail_body qb IHbT Htco scR Hne idf oF rpc stampF outerF pe nvF cj A1 Hcj cx ce rho nv n1 n2 o (ctr g) P
                Hsc Hpc Hklt Ho Hoff Hko Hst Hown Hunp HK0 HS M1 M2 HK Hgh Hlb ce rho e s2 cb nv' sn' Eb Hatb Hlb Hnv pr A2 Hjmp HK Hgh
                v fk' vs' n' o' z Hj _ Ho' Ht' ltac:(lia) Hfk).
      eapply envOK_lim; [exact E'|lia].
Qed.

(* the standard invariant is stable in the context of a body that runs while F1 is pinned *)
Lemma stable_cbT : forall scR idf oF rpc stampF outerF nvF cx ce rho nv nb o (P : list sv -> nat -> gx -> Prop) f0 fk0 o' t,
  let sc1 := Frame idf oF rpc stampF scR outerF :: scR in
  stable cx P -> (forall i, oF + nv <= i < oF + nvF \/ o <= i -> g_own cx i) -> (forall i, g_keep0 cx i -> g_keep cx i) ->
  (forall i, kept sc1 ce i -> g_keep cx i \/ oF <= i < oF + nv) -> nv <= nb -> nb <= nvF -> o <= o' -> oF + nvF <= o ->
  stable (cbT cx oF nvF (fun i => oF + nb <= i < oF + nvF) (f0 :: fk0) o' t) (Jstd sc1 ce rho (g_n0 cx) (oF + nv) o P).
Proof.
  intros scR idf oF rpc stampF outerF nvF cx ce rho nv nb o P f0 fk0 o' t sc1 [S1 S2] Hown HK0 HkT Hnb HnF Ho' HoF. split.
  - intros a b m y m' y' Hja C Hm. simpl in C.
    eapply Jstd_chg; [| |exact Hja|exact C|exact Hm].
    + intros p q0 k h k' h' Hp Cq Hk. eapply S1; [exact Hp| |exact Hk]. eapply chg_mono; [|exact Cq]. intros i Hi. simpl in Hi. apply Hown. lia.
    + intros i Hi. simpl in Hi. lia.
  - intros a b m y m' y' Hja C Hm. unfold keepK0 in C. simpl in C.
    refine (Jstd_keep _ _ _ _ _ _ _ _ _ _ _ _ _ _ _ _ Hja C Hm).
    + intros p q0 k h k' h' Hp Kq Hk. eapply S2; [exact Hp| |exact Hk]. unfold keepK0. eapply keepX_mono; [|exact Kq].
      intros i Hi. left. apply HK0. exact Hi.
    + intros i Hi. destruct (HkT i Hi) as [Hk|Hk]; [left; exact Hk|right; lia].
Qed.

Lemma implT_comma : forall a b, ImplT a -> ImplT b -> ImplT (QComma a b).
Proof.
  intros a b IHaT IHbT Htco scR Hne idf oF rpc stampF outerF pe nvF cj sc1 A1 Hcj ce pc nv sn cq nv' sn' Hc Hat Hlb Hnv pr A2 cx Hjmp rho v vs n o g P
         Hsc Hpc Hklt HE Hn Ho Hlen Hct Hst Hoff Hko Hown Hunp HK Hgh HK0 HS HP.
  simpl in Hc.
  destruct (compg tco a ce (Some (pe, Some cj)) idf (S pc) nv sn) as [[[ca n1] s1]|] eqn:Ec; [|discriminate].
  destruct (compg tco b ce (Some (pe, Some cj)) idf (pc + 1 + length ca + 1) n1 s1) as [[[cb n2] s2]|] eqn:Ec0; [|discriminate].
  inversion Hc; subst cq nv' sn'. clear Hc.
  uncons Hat B1. destruct (code_at_app _ _ _ _ Hat) as [Hata Hat2]. uncons Hat2 B2. rename Hat2 into Hatb.
  destruct (comp_mono _ _ _ _ _ _ _ _ _ Ec) as [M1 _]. destruct (comp_mono _ _ _ _ _ _ _ _ _ Ec0) as [M2 _].
  set (L := pc + 1 + length ca + 1) in *.
  replace (S (S pc + length ca)) with L in Hatb by (unfold L; lia).
  assert (Epc : pc + length (Ifork L :: ca ++ Ijump (L + length cb) :: cb) = L + length cb).
  { simpl. rewrite app_length. simpl. unfold L. lia. }
  rewrite Epc in Hjmp.
  pose proof HS as [S1 S2].
  set (fx := F sc1 pc (SV v :: g_st cx) o (ctr g)).
  set (Pa := Jstd sc1 ce rho (g_n0 cx) (oF + nv) o P).
  set (ca' := cbT cx oF nvF (fun i => oF + nv <= i < oF + nvF) [fx] o (ctr g)).
  assert (HkT : forall i, kept sc1 ce i -> g_keep cx i \/ oF <= i < oF + nv).
  { intros i Hi. destruct (keptT scR idf oF rpc stampF outerF ce rho vs (g_n0 cx) nv (fun i => g_keep cx i /\ i < oF) Hlb HE HK Hgh i Hi) as [[Hk _]|Hk]; auto. }
  (* a, in tail position as well, with the fork of the comma below its forks *)
  assert (HA : G ca' (fst (den a rho v)) (Tend ca' (snd (den a rho v)) Pa) (N sc1 (S pc) (SV v :: g_st cx) (fx :: g_base cx) vs n o g)).
  { refine (IHaT Htco scR Hne idf oF rpc stampF outerF pe nvF cj A1 Hcj ce (S pc) nv sn ca n1 s1 Ec Hata Hlb ltac:(lia) pr A2 ca' _ rho v vs n o g Pa
              Hsc Hpc _ HE Hn Ho Hlen (le_n _) Hst (le_n _) Hko _ _ _ _ (fun _ H => H) _ _).
    - intros w f vs0 n0' o0 g0. eapply steps_step; [eapply st_jump; replace (S pc + length ca) with (S (pc + length ca)) by lia; exact B2|]. apply Hjmp.
    - simpl. intros i [(x0 & y0 & [[]|[]] & _)|[(l0 & y0 & Hx & _)|[]]]. discriminate.
    - simpl. intros i Hi. lia.
    - simpl. intros Hu. apply Nat.leb_le in Hu. lia.
    - simpl. intros x0 y0 i Hin Hi. destruct (HK x0 y0 i Hin Hi) as [Hq|[Hq Hq']]; [left; auto|right; split; [left; auto|exact Hq']].
    - simpl. intros i Hi. destruct (Hgh i Hi) as [Hq Hq']. split; [left; exact Hq|exact Hq'].
    - apply (stable_cbT scR idf oF rpc stampF outerF nvF cx ce rho nv nv o P fx [] o (ctr g) HS Hown HK0 HkT (le_n _) ltac:(lia) (le_n _) Ho).
    - split; auto. }
  eapply G_pre; [eapply steps_step; [eapply st_fork; exact B1|apply steps_refl]|apply chg_refl|cl|].
  assert (Hfx : Forall (fun f => g_ctr cx <= f_ctr f) [fx]) by (constructor; [simpl; lia|constructor]).
  assert (Htr : forall x vs' n' g', (fun _ _ gg => ctr g <= ctr gg) vs' n' g' -> okerr (g_n0 cx) x -> exists vs4 n4 g4,
            steps (B (Some x) ([fx] ++ g_base cx) vs' n' g') (B (Some x) (g_base cx) vs4 n4 g4) /\ chg (g_own cx) vs' vs4 /\ cle n' g' n4 g4).
  { intros x vs' n' g' _ _. exists vs', n', g'. split; [eapply fork_transparent; exact B1|]. split; [apply chg_refl|cl]. }
  assert (Hoc : forall i, g_own ca' i -> g_own cx i) by (simpl; intros i Hi; apply Hown; lia).
  assert (Hks : forall o0 p q, g_off ca' <= o0 -> keepS cx o0 p q -> keepS ca' o0 p q).
  { intros o0 p q Ho0 Kp. simpl in Ho0. eapply keepX_mono; [|exact Kp]. simpl. intros i [[Hi|Hi]|Hi]; [left; exact Hi|right; lia|right; exact Hi]. }
  assert (Hk0' : forall o0 p q, g_off ca' <= o0 -> keepS' cx o0 [fx] p q -> keepK0 ca' p q).
  { intros o0 p q Ho0 Kp. simpl in Ho0, Kp. unfold keepK0. simpl. eapply keepX_mono; [|exact Kp]. simpl. intros i [Hi|Hi]; [left; exact Hi|right; lia]. }
  cbn [Den.den1]. destruct (den a rho v) as [wsa [xa|]] eqn:Ea; cbn [seq fst snd] in *.
  - (* a raised: the fork propagates the error *)
    assert (Hm : forall z1, ctr g <= ctr (gx_of z1) -> Tend ca' (Some xa) Pa z1 -> Tend cx (Some xa) P z1).
    { intros z1 _ HT. destruct (Tend_inv _ _ _ _ _ _ _ HT) as [[EF HFu]|(e & vs4 & n4 & g4 & St4 & Ch4 & Le4 & HE4 & HP4)].
      - inversion EF; subst. apply Tend_fuel. eapply Tfuel_mono; [|exact HFu]. simpl. lia.
      - destruct (encR_some _ _ _ _ _ HE4) as (y & ->). simpl in St4, Ch4.
        apply Tend_of. exists (Some y), vs4, n4, g4. split; [eapply steps_trans; [exact St4|eapply fork_transparent; exact B1]|].
        split; [exact (chg_mono _ _ _ _ Hoc Ch4)|]. split; [auto|]. split; [eapply encR_nolbl; [|exact HE4]; reflexivity|apply HP4]. }
    match type of HA with G2 _ ?w0 _ _ ?st0 => refine (G_ctxo nt code ca' cx [fx] (fun _ _ gg => ctr g <= ctr gg) _ _ _ _ eq_refl eq_refl eq_refl eq_refl Hoc Hks Hk0' (le_n _) Hoff Hct Hfx _ _ Htr Hm Hm w0 st0 (le_n _) HA) end;
      try (intros; unfold cle in *; simpl in *; lia).
  - (* a ended: the fork resumes at b *)
    apply G_app.
    assert (Hm : forall z1, ctr g <= ctr (gx_of z1) -> Tend ca' None Pa z1 ->
                   G cx (fst (den b rho v)) (Tend cx (snd (den b rho v)) P) z1).
    { intros z1 HQz HT. destruct (Tend_inv _ _ _ _ _ _ _ HT) as [[EF _]|(e & vs4 & n4 & g4 & St4 & Ch4 & Le4 & HE4 & (E4 & Hn4 & Hl4 & HP4))]; [discriminate EF|].
      simpl in St4, Ch4, HE4. subst e.
      eapply G_pre; [eapply steps_trans; [exact St4|eapply steps_step; [apply st_popfork|]; eapply steps_step; [eapply bt_fork_none; exact B1|]; apply steps_refl]
                    |exact (chg_mono _ _ _ _ Hoc Ch4)|exact Le4|].
      assert (Hg4 : ctr g <= ctr g4) by (destruct Le4; simpl in *; lia).
      refine (IHbT Htco scR Hne idf oF rpc stampF outerF pe nvF cj A1 Hcj ce L n1 s1 cb n2 s2 Ec0 Hatb Hlb Hnv pr A2 cx Hjmp rho v vs4 n4 o g4 P
                Hsc Hpc Hklt _ Hn4 Ho Hl4 ltac:(lia) ltac:(lia) Hoff Hko _ Hunp HK Hgh HK0 HS HP4).
      - eapply envOK_lim; [exact E4|lia].
      - intros i Hi. apply Hown. lia. }
    match type of HA with G2 _ ?w0 _ _ ?st0 => refine (G_ctxo nt code ca' cx [fx] (fun _ _ gg => ctr g <= ctr gg) _ _ _ _ eq_refl eq_refl eq_refl eq_refl Hoc Hks Hk0' (le_n _) Hoff Hct Hfx _ _ Htr Hm Hm w0 st0 (le_n _) HA) end;
      try (intros; unfold cle in *; simpl in *; lia).
Qed.

(* a call in tail position: of the enclosing function itself (jump / opcallrec), or any other call *)
Lemma implT_callf : forall f args, Forall (fun a => Impl a) args -> ImplT (QCallF f args).
Proof.
  intros f args IHargs Htco scR Hne idf oF rpc stampF outerF pe nvF cj sc1 A1 Hcj ce pc nv sn cq nv' sn' Hc Hat Hlb Hnv pr A2 cx Hjmp rho v vs n o g P
         Hsc Hpc Hklt HE Hn Ho Hlen Hct Hst Hoff Hko Hown Hunp HK Hgh HK0 HS HP.
  (* every case but the call of the enclosing function itself emits the code of the ordinary mode *)
  assert (Hnt : comp (QCallF f args) ce idf pc nv sn = Some (cq, nv', sn') ->
                G cx (fst (den (QCallF f args) rho v)) (Tend cx (snd (den (QCallF f args) rho v)) P) (N sc1 pc (SV v :: g_st cx) (g_base cx) vs n o g)).
  { intros Hc'. exact (implT_core (QCallF f args) (impl_callf f args IHargs) scR Hne idf oF rpc stampF outerF nvF ce pc nv sn cq nv' sn' Hc' Hat Hlb Hnv pr A2 cx Hjmp
                         rho v vs n o g P Hsc Hpc HE Hn Ho Hlen Hct Hst Hoff Hko Hown Hunp HK Hgh HK0 HS HP). }
  simpl in Hc, Hnt.
  destruct (lookup_cf f (length args) (ce_env ce)) as [[y|p nf|y]|] eqn:Ef; try discriminate; [|apply Hnt; exact Hc].
  destruct args as [|a0 args']; [|apply Hnt; exact Hc].
  unfold tail_call in Hc. destruct (Nat.eqb_spec pe p) as [Epe|Epe]; [|apply Hnt; exact Hc]. subst p. clear Hnt.
  (* the function: its body was compiled in tail mode *)
  pose proof HE as (Hv & Hl & Hgh0).
  destruct (envOKl_fun _ _ _ _ _ _ _ _ _ _ Hv Ef) as (ps & body & cel' & rho' & pre & _ & Hlps & Hlf &
            (idf' & nvb & cb & s0 & s1 & Hscp & Hcb & Hcode & Hclt) & Hv' & Epre).
  destruct ps as [|p0 ps']; [|discriminate Hlps].
  unfold Mach.at_ in A1. rewrite A1 in Hscp. inversion Hscp; subst idf' nvb. clear Hscp.
  assert (Etl : tl_body tco pe [] body = Some (pe, Some (Nat.eqb (nvars body) 0))) by (unfold tl_body; rewrite Htco; reflexivity).
  set (ceF := {| ce_env := cel'; ce_lbls := []; ce_ghost := ce_ghost ce |}).
  assert (HcbF : compg tco body ceF (Some (pe, Some (Nat.eqb (nvars body) 0))) idf (S pe) 0 s0 = Some (cb, nvF, s1)).
  { specialize (Hcb (ce_ghost ce)). rewrite Etl in Hcb. simpl in Hcb. replace (pe + 1 + 0) with (S pe) in Hcb by lia. exact Hcb. }
  assert (Hatb : code_at (S pe) (cb ++ [Iret])).
  { intros i x Hi. replace (S pe + i) with (pe + 1 + i) by lia. apply Hcode. exact Hi. }
  destruct (code_at_app _ _ _ _ Hatb) as [Hatcb Hat3]. uncons Hat3 Aret.
  pose proof (comp_nvars _ _ _ _ _ _ _ _ _ _ _ HcbF) as Hnvb. simpl in Hnvb.
  assert (Hcj' : Nat.eqb (nvars body) 0 = true -> nvF = 0) by (intros E; apply Nat.eqb_eq in E; lia).
  assert (HKF : forall x y i, In (x, CV y) cel' \/ In (x, CP y) cel' -> index_of sc1 y = Some i -> g_keep cx i /\ i < oF).
  { intros x y i Hin Hi. pose proof (ce_lt_var {| ce_env := cel'; ce_lbls := []; ce_ghost := fun _ => False |} idf x y Hclt Hin) as Hlt.
    destruct (HK x y i) as [E|Hk]; [rewrite Epre; destruct Hin as [Hin|Hin]; [left|right]; apply suffix_In; exact Hin|exact Hi|lia|exact Hk]. }
  cbn [Den.den1]. rewrite Hlf. cbn [bindps].
  case_eq fu; [intros Efu|intros m Efu].
  { cbn [call_of fst snd]. apply G_fuel. simpl. lia. }
  cbn [call_of]. assert (Hm : m < fu) by lia.
  assert (Hfr1 : frameOK sc1 idf oF) by (exists rpc, stampF, scR, outerF, scR; reflexivity).
  destruct (comp_mono _ _ _ _ _ _ _ _ _ HcbF) as [_ Msn].
  pose proof HS as [S1 S2].
  eapply G_impl; [intros s5 HT5; refine (Tend_lb_mono (lbf tco m) _ _ _ _ _ _ HT5); rewrite Htco; simpl; lia|].
  destruct cj.
  - (* no variable in the function's scope: jump to its body, in the same frame *)
    specialize (Hcj eq_refl). inversion Hc; subst cq nv' sn'. clear Hc. uncons Hat B0.
    assert (Env : nv = 0) by lia. subst nv nvF.
    eapply G_pre; [eapply steps_step; [eapply st_jump; exact B0|apply steps_refl]|apply chg_refl|cl|].
    refine (IHfuT m Hm body Htco scR Hne idf oF rpc stampF outerF pe 0 (Nat.eqb (nvars body) 0) A1 Hcj' ceF (S pe) 0 s0 cb 0 s1 HcbF Hatcb eq_refl (le_n _)
              (S pe + length cb) Aret cx (fun _ _ _ _ _ _ => steps_refl _ _ _) rho' v vs n o g P Hsc Hpc Hklt _ Hn Ho Hlen Hct Hst Hoff Hko _ Hunp _ Hgh HK0 HS HP).
    + split; [|split]; simpl.
      * exact Hv'.
      * intros l0 y0 Hy. discriminate.
      * exact Hgh0.
    + intros i [Hi|Hi]; [lia|]. apply Hown. right. exact Hi.
    + simpl. intros x y i Hin Hi. right. exact (HKF x y i Hin Hi).
  - (* opcallrec: the frame is replaced *)
    inversion Hc; subst cq nv' sn'. clear Hc. uncons Hat B0.
    set (g' := {| ctr := ctr g; creg := (None, sc1) |}).
    set (o2 := if unpin (g_base cx) stampF then oF else o).
    assert (Ho2 : oF <= o2 <= o) by (unfold o2; destruct (unpin (g_base cx) stampF); lia).
    assert (Hoff2 : g_off cx <= o2).
    { unfold o2. destruct (unpin (g_base cx) stampF) eqn:Eu; [exact (proj1 (Hunp eq_refl))|exact Hoff]. }
    assert (Hown2 : forall i, o2 <= i -> g_own cx i).
    { unfold o2. destruct (unpin (g_base cx) stampF) eqn:Eu; [exact (proj2 (Hunp eq_refl))|]. intros i Hi. apply Hown. right. exact Hi. }
    set (sc' := Frame idf o2 rpc (ctr g') scR (outer_of scR idf sc1) :: scR).
    set (vs' := grow vs (o2 + nvF)).
    set (g1 := {| ctr := S (ctr g'); creg := creg g' |}).
    assert (Hps : pushed sc1 idf sc') by (exists o2, rpc, (ctr g'), scR, scR; reflexivity).
    assert (Hgrow : chg (g_own cx) vs vs').
    { split; [apply grow_len_le|]. intros i Hi. symmetry. apply grow_nth.
      destruct (Nat.lt_ge_cases i (length vs)) as [Hl0|Hl0]; [exact Hl0|]. exfalso. apply Hi, Hown2. lia. }
    eapply G_pre with (s1 := N sc' (S pe) (SV v :: g_st cx) (g_base cx) vs' n (o2 + nvF) g1).
    { eapply steps_step; [eapply st_callrec; exact B0|]. eapply steps_step; [|apply steps_refl].
      unfold sc1. etransitivity; [eapply (st_scope_rec nt code idf oF rpc stampF scR outerF scR pe idf nvF 0); [exact A1|reflexivity]|]. reflexivity. }
    { exact Hgrow. }
    { unfold g1, g'. cl. }
    refine (IHfuT m Hm body Htco scR Hne idf o2 rpc (ctr g') (outer_of scR idf sc1) pe nvF (Nat.eqb (nvars body) 0) A1 Hcj' ceF (S pe) 0 s0 cb nvF s1 HcbF Hatcb eq_refl (le_n _)
              (S pe + length cb) Aret cx (fun _ _ _ _ _ _ => steps_refl _ _ _) rho' v vs' n (o2 + nvF) g1 P Hsc Hpc _ _ Hn (le_n _) (grow_len _ _)
              ltac:(unfold g1, g'; simpl; lia) ltac:(unfold g1, g'; simpl; lia) ltac:(lia) ltac:(lia) _ _ _ _ HK0 HS _).
    + intros i Hi. apply Hklt in Hi. lia.
    + (* the function's environment in the new chain, below the new frame *)
      split; [|split]; simpl.
      * rewrite Nat.add_0_r.
        assert (Hne' : forall x y, In (x, CV y) cel' \/ In (x, CP y) cel' -> fst y <> idf).
        { intros x y Hin. pose proof (ce_lt_var {| ce_env := cel'; ce_lbls := []; ce_ghost := fun _ => False |} idf x y Hclt Hin). lia. }
        eapply envOKl_lower; [eapply envOKl_pushed; [exact Hps| |exact Hv'|exact Hne']| |].
        -- intros a Ha. apply grow_nth. lia.
        -- intros x y i Hin Hi. change (index_of sc' y = Some i) in Hi. rewrite (index_of_pushed _ _ _ _ Hps (Hne' x y Hin)) in Hi. destruct (HKF x y i Hin Hi). lia.
        -- intros i Hi. destruct (Hgh i Hi). lia.
      * intros l0 y0 Hy. discriminate.
      * intros i Hi. destruct (Hgh i Hi). lia.
    + intros i Hi. apply Hown2. lia.
    + intros _. split; [exact Hoff2|exact Hown2].
    + simpl. intros x y i Hin Hi. right.
      assert (Hney : fst y <> idf) by (pose proof (ce_lt_var {| ce_env := cel'; ce_lbls := []; ce_ghost := fun _ => False |} idf x y Hclt Hin); lia).
      change (index_of sc' y = Some i) in Hi. rewrite (index_of_pushed _ _ _ _ Hps Hney) in Hi. destruct (HKF x y i Hin Hi). split; [auto|lia].
    + simpl. intros i Hi. destruct (Hgh i Hi). split; [auto|lia].
    + eapply S1; [exact HP|exact Hgrow|unfold g1, g'; cl].
Qed.

(* the constructs that hand no tail position on, or hand on one the theorem does not cover (Compile.tl_fb): in tail
   mode they compile, if at all, to the code of the ordinary mode *)
Ltac nt_comp :=
  let H := fresh "H" in
  intros ? ? ? ? ? ? ? ? H; cbn -[Nat.add Nat.ltb Nat.eqb ce_lt prelude param_env param_slots comp_args tl_body emptycode transparent] in H |- *;
  try exact H;
  repeat match goal with
  | H : context [match compg ?t ?q0 ?ce0 ?tp ?c ?p ?n ?s with _ => _ end] |- _ =>
      let E := fresh "E" in destruct (compg t q0 ce0 tp c p n s) as [[[? ?] ?]|] eqn:E; [|discriminate H];
      try (apply comp_forbid in E); try rewrite E
  end; try exact H.

Theorem impl_all : forall q, Impl q /\ ImplT q.
Proof.
  intros q. qind q.
  - split; [apply impl_id|apply implT_id].
  - split; [apply impl_const|apply implT_nt; [apply impl_const|nt_comp]].
  - destruct IHa, IHb. split; [apply impl_pipe; auto|apply implT_pipe; auto].
  - destruct IHa, IHb. split; [apply impl_comma; auto|apply implT_comma; auto].
  - split; [apply impl_empty|apply implT_nt; [apply impl_empty|nt_comp]].
  - destruct IHt. split; [apply impl_iter; auto|apply implT_nt; [apply impl_iter; auto|nt_comp]].
  - destruct IHt. split; [apply impl_index; auto|apply implT_nt; [apply impl_index; auto|nt_comp]].
  - destruct IHc, IHa, IHb. split; [apply impl_if; auto|apply implT_if; auto].
  - destruct IHa, IHb. split; [apply impl_alt; auto|apply implT_nt; [apply impl_alt; auto|nt_comp]].
  - destruct IHa as [Ia _].
    assert (Ih : Popt (fun q => Impl q) h) by (destruct h; simpl in *; [exact (proj1 IHh)|exact I]).
    split; [apply impl_try; auto|apply implT_nt; [apply impl_try; auto|]].
    destruct h as [h|]; nt_comp.
  - destruct IHq. split; [apply impl_array; auto|apply implT_nt; [apply impl_array; auto|nt_comp]].
  - destruct IHs, IHi, IHu. split; [apply impl_reduce; auto|apply implT_nt; [apply impl_reduce; auto|nt_comp]].
  - destruct IHs, IHi, IHu.
    assert (Ie : Popt (fun q => Impl q) e) by (destruct e; simpl in *; [exact (proj1 IHe)|exact I]).
    split; [apply impl_foreach; auto|apply implT_nt; [apply impl_foreach; auto|]].
    intros ce pe cj cur pc nv sn [[cq nv'] sn'] Hc.
    destruct (comp_foreach_inv _ _ _ _ _ _ _ _ _ _ _ _ _ _ _ Hc) as (Hok & ci & n1 & s1 & cs & n2 & s2 & cp & bs & n2' & cu & n3 & s3 & cx & Ec & Ec0 & Ep & En & Ec1 & Hx & ->).
    change (compg tco (QForeach s x i u e) ce None cur pc nv sn = Some (Idup :: ci ++ Istore (cur, nv) :: cs ++ cp ++ Iload (cur, nv) :: cu ++ Idup :: Istore (cur, nv) :: cx, nv', sn')).
    cbn [compg]. rewrite Ec, Ec0, Ep, Hok, En. cbn [andb]. rewrite Ec1.
    destruct e as [e|]; [cbn [tl_fb] in Hx; apply comp_forbid in Hx; cbn [tl_fb]; rewrite Hx; reflexivity|destruct Hx as (-> & -> & ->); reflexivity].
  - destruct IHb. split; [apply impl_label; auto|apply implT_nt; [apply impl_label; auto|nt_comp]].
  - split; [apply impl_break|apply implT_nt; [apply impl_break|nt_comp]].
  - destruct IHs, IHb. split; [apply impl_bind; auto|apply implT_bind; auto].
  - split; [apply impl_var|apply implT_nt; [apply impl_var|nt_comp]].
  - split; [apply impl_call0|apply implT_nt; [apply impl_call0|nt_comp]].
  - destruct IHa, IHb. split; [apply impl_binop; auto|apply implT_nt; [apply impl_binop; auto|nt_comp]].
  - destruct IHrest. split; [apply impl_def; auto|apply implT_def; auto].
  - assert (Ia : Forall (fun a => Impl a) args) by (eapply Forall_impl; [|exact IHargs]; intros a [H _]; exact H).
    split; [apply impl_callf; auto|apply implT_callf; auto].
  - assert (Ie : Forall (EntP (fun a => Impl a)) es).
    { eapply Forall_impl; [|exact IHes]. intros [k qv] [Hk [Hv _]]. split; [destruct k; simpl in *; [exact I|exact (proj1 Hk)]|exact Hv]. }
    split; [apply impl_object; auto|apply implT_nt; [apply impl_object; auto|]].
    intros ? ? ? ? ? ? ? ? H. exact H.
  - destruct IHs, IHb. split; [apply impl_bindp; auto|apply implT_nt; [apply impl_bindp; auto|]].
    intros ce pe cj cur pc nv sn [[cq nv'] sn'] Hc.
    destruct (comp_bindp_inv _ _ _ _ _ _ _ _ _ _ _ _ _ Hc) as (Hpv & Hok & cs & n1 & s1 & cp & bs & n2 & cb & Es & Ep & En & Eb & ->).
    cbn [tl_fb] in Eb. apply comp_forbid in Eb.
    change (compg tco (QBindP s p b) ce None cur pc nv sn = Some (Idup :: Iexpbegin :: cs ++ cp ++ Iexpend :: cb, nv', sn')).
    cbn [compg]. rewrite Hpv, Hok. cbn [negb andb]. rewrite Es, Ep, En. cbn [tl_fb]. rewrite Eb. reflexivity.
  - destruct IHt, IHq. split; [apply impl_indexq; auto|apply implT_nt; [apply impl_indexq; auto|]].
    intros ? ? ? ? ? ? ? ? Hcc. exact Hcc.
  - destruct IHt, IHa, IHb. split; [apply impl_slice; auto|apply implT_nt; [apply impl_slice; auto|]].
    intros ? ? ? ? ? ? ? ? Hcc. exact Hcc.
  - destruct IHa. split; [apply impl_call1; auto|apply implT_nt; [apply impl_call1; auto|]].
    intros ? ? ? ? ? ? ? ? Hcc. exact Hcc.
Qed.

End C.

(* every segment implements the denotation, for every fuel, in the ordinary and in the tail mode *)
Theorem impl_all_fu : forall nt code tco fu q, Lemmas.Impl nt code tco fu q /\ Lemmas.ImplT nt code tco fu q.
Proof.
  intros nt code tco fu. induction fu as [fu IH] using lt_wf_ind. intros q.
  apply (impl_all nt code tco fu (fun m Hm q' => proj1 (IH m Hm q')) (fun m Hm q' => proj2 (IH m Hm q'))).
Qed.

(* ---- whole programs ---- *)
Section Top.
Variable nt : natives.

Lemma run_steps : forall code s s', steps nt code s s' -> forall f R, run nt code f s' = R -> exists f', run nt code f' s = R.
Proof.
  induction 1; intros f R HR; eauto.
  destruct (IHsteps f R HR) as (f' & Hf'). exists (S f'). simpl. rewrite H. exact Hf'.
Qed.

(* how a whole run ends, given the ending of the denotation (nothing is claimed when the denotation ran out of fuel) *)
Definition run_is (r : result) (o : list jv * ending) : Prop :=
  match snd r with
  | None => o = (fst r, End)
  | Some (XErr e) => o = (fst r, Error (VE (err_of e)))
  | Some (XBrk _) => False              (* a closed program cannot end with a break *)
  | Some XFuel => True
  end.

Lemma run_S : forall code f s, run nt code (S f) s =
  match step nt code s with
  | Next s' => run nt code f s'
  | Emit v s' => let '(o, e) := run nt code f s' in (v :: o, e)
  | Halt None => ([], End)
  | Halt (Some e) => ([], Error e)
  | Stuck => ([], IsStuck)
  end.
Proof. reflexivity. Qed.

(* the ghost push counter grows by at most one per step: reaching a state in which N more frames have been pushed
   takes at least N steps *)
Definition octr (o : outcome) (n : nat) : Prop :=
  match o with Next s' | Emit _ s' => ctr (gx_of s') <= n | _ => True end.
Lemma ctr_step : forall code s, octr (step nt code s) (S (ctr (gx_of s))).
Proof.
  intros code [pc bt e m|e fk vs l g]; cbn [step].
  - destruct (nth_error code pc) as [x|]; [|simpl; auto].
    destruct x; unfold brk, set_stk, set_vars, pushfork;
      repeat (match goal with
              | |- octr (match ?e with _ => _ end) _ => destruct e eqn:?
              | |- octr (if ?e then _ else _) _ => destruct e eqn:?
              | |- octr (let _ := _ in _) _ => cbv zeta
              end); simpl; auto; try lia.
  - destruct fk; simpl; auto.
Qed.

Inductive reach (code : list instr) : state -> state -> Prop :=
| reach_refl : forall s, reach code s s
| reach_next : forall s s1 s', step nt code s = Next s1 -> reach code s1 s' -> reach code s s'
| reach_emit : forall s v s1 s', step nt code s = Emit v s1 -> reach code s1 s' -> reach code s s'.
Lemma reach_trans : forall code a b c, reach code a b -> reach code b c -> reach code a c.
Proof. induction 1; intros; auto; [eapply reach_next|eapply reach_emit]; eauto. Qed.
Lemma steps_reach : forall code s s', steps nt code s s' -> reach code s s'.
Proof. induction 1; [apply reach_refl|eapply reach_next; eauto]. Qed.
Lemma reach_nohalt : forall code s s', reach code s s' ->
  forall N, ctr (gx_of s) + N <= ctr (gx_of s') -> forall f, f <= N -> snd (run nt code f s) = OutOfFuel.
Proof.
  induction 1; intros N HN f Hf.
  - assert (f = 0) by lia. subst. reflexivity.
  - destruct f; [reflexivity|]. rewrite run_S, H. pose proof (ctr_step code s) as Hc. rewrite H in Hc. simpl in Hc.
    apply (IHreach (N - 1)); lia.
  - destruct f; [reflexivity|]. rewrite run_S, H. pose proof (ctr_step code s) as Hc. rewrite H in Hc. simpl in Hc.
    specialize (IHreach (N - 1) ltac:(lia) f ltac:(lia)). destruct (run nt code f s1) as [o e']. exact IHreach.
Qed.

(* run is monotone in the fuel once it has an ending *)
Lemma run_mono : forall code f s o e, run nt code f s = (o, e) -> e <> OutOfFuel -> forall f', f <= f' -> run nt code f' s = (o, e).
Proof.
  induction f; intros s o e H He f' Hf; [simpl in H; inversion H; subst; congruence|].
  destruct f' as [|f']; [lia|]. rewrite run_S in *.
  destruct (step nt code s) as [s1|v s1|[x|]|]; auto.
  - apply (IHf s1 o e H He). lia.
  - destruct (run nt code f s1) as [o1 e1] eqn:E1. inversion H; subst. rewrite (IHf s1 o1 e E1 He f') by lia. reflexivity.
Qed.

Section RunG.
Variables (code : list instr) (rpc : nat) (c : gctx) (P : list sv -> nat -> gx -> Prop) (fin : option exn)
          (id off stamp : nat) (outer : list frame) (lb : nat).
Hypothesis Hrpc : rpc = length code - 1.
Hypothesis Hret : nth_error code rpc = Some Iret.
Hypothesis Hsc : g_sc c = [Frame id off rpc stamp [] outer].
Hypothesis Hpc : g_pc c = rpc.
Hypothesis Hst : g_st c = [].
Hypothesis Hbase : g_base c = [].
Hypothesis Hce : g_ce c = ce_empty.

Lemma run_tend : forall s, Tend nt code lb c fin P s -> exists f, run_is ([], fin) (run nt code f s).
Proof.
  intros s HT. destruct (Tend_inv _ _ _ _ _ _ _ HT) as [[-> _]|(e & vs & n & g & St & _ & _ & HE & _)]; [exists 0; exact I|].
  rewrite Hbase in St. rewrite Hce in HE.
  assert (HR : exists f, run_is ([], fin) (run nt code f (B e [] vs n g))).
  { exists 1. unfold run_is. simpl. destruct fin as [[e0|l|]|]; simpl in HE.
    - subst e. reflexivity.
    - destruct HE as (y & k & i & Hk & _). simpl in Hk. discriminate.
    - exact I.
    - subst e. reflexivity. }
  destruct HR as (f & Hf).
  destruct (run_steps _ _ _ St f _ eq_refl) as (f' & Hf'). exists f'. rewrite Hf'. exact Hf.
Qed.

Lemma run_G : forall ws s, Gen.G2 nt code c ws (Tend nt code lb c fin P) (Tend nt code lb c fin P) s ->
  exists f, run_is (ws, fin) (run nt code f s).
Proof.
  induction ws as [|a ws IHws]; intros s HG.
  - simpl in HG. destruct HG as (s' & St & _ & _ & HT).
    destruct (run_tend _ HT) as (f & Hf).
    destruct (run_steps _ _ _ St f _ eq_refl) as (f' & Hf'). exists f'. rewrite Hf'. exact Hf.
  - simpl in HG. destruct HG as (fk' & vs3 & n3 & o3 & g3 & St & _ & _ & _ & R).
    rewrite Hsc, Hpc, Hst, Hbase in St.
    set (o4 := if (match fk' ++ [] with [] => true | f :: _ => f_ctr f <=? stamp end) then off else o3).
    set (g4 := {| ctr := ctr g3; creg := (Some (length code - 1), []) |}).
    (* ret emits a; the next call of Next re-executes ret in backtrack mode *)
    assert (E1 : step nt code (N [Frame id off rpc stamp [] outer] rpc (SV a :: []) (fk' ++ []) vs3 n3 o3 g3) =
                 Emit a (Run rpc true None (mk [] [] (fk' ++ []) vs3 n3 o4 g4))).
    { apply st_ret_main. exact Hret. }
    assert (E2 : step nt code (Run rpc true None (mk [] [] (fk' ++ []) vs3 n3 o4 g4)) = Next (B None (fk' ++ []) vs3 n3 g4)).
    { unfold mk. cbn [step]. rewrite Hret. reflexivity. }
    assert (HR0 : exists f, run_is (ws, fin) (run nt code f (B None (fk' ++ []) vs3 n3 g4))).
    { destruct fk' as [|f0 fk0].
      - destruct R as [E R]. subst ws. rewrite Hbase in R. apply run_tend. apply R; [apply keepK0_refl|unfold cle; simpl; lia].
      - rewrite Hbase in R. destruct (R vs3 n3 g4 (keepS_refl _ _ _) ltac:(unfold cle; simpl; lia)) as [R1 _].
        apply IHws. exact R1. }
    destruct HR0 as (f & Hf).
    assert (HR : exists f', run_is (a :: ws, fin) (run nt code f' (N [Frame id off rpc stamp [] outer] rpc (SV a :: []) (fk' ++ []) vs3 n3 o3 g3))).
    { exists (S (S f)).
      change (run nt code (S (S f)) (N [Frame id off rpc stamp [] outer] rpc [SV a] (fk' ++ []) vs3 n3 o3 g3)) with
        (match step nt code (N [Frame id off rpc stamp [] outer] rpc [SV a] (fk' ++ []) vs3 n3 o3 g3) with
         | Next s' => run nt code (S f) s'
         | Emit v s' => let '(o, e) := run nt code (S f) s' in (v :: o, e)
         | Halt None => ([], End) | Halt (Some e) => ([], Error e) | Stuck => ([], IsStuck) end).
      rewrite E1.
      change (run nt code (S f) (Run rpc true None (mk [] [] (fk' ++ []) vs3 n3 o4 g4))) with
        (match step nt code (Run rpc true None (mk [] [] (fk' ++ []) vs3 n3 o4 g4)) with
         | Next s' => run nt code f s'
         | Emit v s' => let '(o, e) := run nt code f s' in (v :: o, e)
         | Halt None => ([], End) | Halt (Some e) => ([], Error e) | Stuck => ([], IsStuck) end).
      rewrite E2.
      unfold run_is in *. cbn [fst snd] in *. destruct (run nt code f (B None (fk' ++ []) vs3 n3 g4)) as [o e'].
      destruct fin as [[e0|l|]|]; auto; inversion Hf; subst; reflexivity. }
    destruct HR as (f' & Hf').
    destruct (run_steps _ _ _ St f' _ eq_refl) as (f'' & Hf''). exists f''. rewrite Hf''. exact Hf'.
Qed.

(* the denotation ran out of fuel: the machine reaches a state in which lb frames have been pushed *)
Lemma run_G_fuel : fin = Some XFuel -> forall ws s, Gen.G2 nt code c ws (Tend nt code lb c fin P) (Tend nt code lb c fin P) s ->
  exists s', reach code s s' /\ g_ctr c + lb <= ctr (gx_of s').
Proof.
  intros EF. subst fin. induction ws as [|a ws IHws]; intros s HG.
  - simpl in HG. destruct HG as (s' & St & _ & _ & (s2 & St2 & Hc)). exists s2.
    split; [apply steps_reach; eapply steps_trans; eauto|exact Hc].
  - simpl in HG. destruct HG as (fk' & vs3 & n3 & o3 & g3 & St & _ & _ & _ & R).
    rewrite Hsc, Hpc, Hst, Hbase in St.
    set (o4 := if (match fk' ++ [] with [] => true | f :: _ => f_ctr f <=? stamp end) then off else o3).
    set (g4 := {| ctr := ctr g3; creg := (Some (length code - 1), []) |}).
    assert (E1 : step nt code (N [Frame id off rpc stamp [] outer] rpc (SV a :: []) (fk' ++ []) vs3 n3 o3 g3) =
                 Emit a (Run rpc true None (mk [] [] (fk' ++ []) vs3 n3 o4 g4))).
    { apply st_ret_main. exact Hret. }
    assert (E2 : step nt code (Run rpc true None (mk [] [] (fk' ++ []) vs3 n3 o4 g4)) = Next (B None (fk' ++ []) vs3 n3 g4)).
    { unfold mk. cbn [step]. rewrite Hret. reflexivity. }
    assert (HR0 : exists s', reach code (B None (fk' ++ []) vs3 n3 g4) s' /\ g_ctr c + lb <= ctr (gx_of s')).
    { destruct fk' as [|f0 fk0].
      - destruct R as [E R]. subst ws. rewrite Hbase in R.
        destruct (R vs3 n3 g4 (keepK0_refl _ _) ltac:(unfold cle; simpl; lia)) as (s2 & St2 & Hc).
        exists s2. split; [apply steps_reach; exact St2|exact Hc].
      - rewrite Hbase in R. destruct (R vs3 n3 g4 (keepS_refl _ _ _) ltac:(unfold cle; simpl; lia)) as [R1 _].
        apply IHws. exact R1. }
    destruct HR0 as (s' & Rs & Hc). exists s'. split; [|exact Hc].
    eapply reach_trans; [apply steps_reach; exact St|]. eapply reach_emit; [exact E1|]. eapply reach_next; [exact E2|exact Rs].
Qed.
End RunG.

(* for every fuel on which the denotation terminates, the machine terminates with the same observation; when the
   denotation runs out of fuel fu, the machine is still running after fu + 1 steps *)
Lemma compile_raw_both : forall tco q code, compile_raw_g tco q = Some code ->
  forall fu v, (exists fuel, run_is (den nt fu q [] v) (run nt code fuel (init code v))) /\
               (tco = false -> snd (den nt fu q [] v) = Some XFuel -> forall f, f <= S fu -> snd (run nt code f (init code v)) = OutOfFuel).
Proof.
  intros tco q code Hc fu v. unfold compile_raw_g in Hc.
  destruct (compg tco q ce_empty None mainscope 1 0 2) as [[[c nv] sn']|] eqn:Ec; [|discriminate]. inversion Hc; subst code. clear Hc.
  set (code := Iscope mainscope nv 0 :: c ++ [Iret]).
  set (rpc := length code - 1).
  assert (Hlen : length code = S (S (length c))) by (unfold code; simpl; rewrite app_length; simpl; lia).
  assert (Hrpc : rpc = 1 + length c) by (unfold rpc; lia).
  assert (Hret : nth_error code rpc = Some Iret).
  { rewrite Hrpc. unfold code. simpl. rewrite nth_error_app2 by lia. replace (length c - length c) with 0 by lia. reflexivity. }
  assert (Hat : code_at code 1 c).
  { intros i x Hi. unfold code. simpl. rewrite nth_error_app1; auto. apply nth_error_Some. congruence. }
  set (vs0 := grow [] (0 + nv)).
  set (sc0 := [Frame mainscope 0 rpc 0 [] []]).
  set (g1 := {| ctr := 1; creg := (Some rpc, @nil frame) |}).
  assert (E0 : step nt code (init code v) = Next (N sc0 1 [SV v] [] vs0 0 (0 + nv) g1)).
  { unfold init. fold rpc. change (Run 0 false None {| stk := [SV v]; scopes := []; forks := []; vars := []; lbl := 0; offset := 0;
                                     gxs := {| ctr := 0; creg := (Some rpc, []) |} |})
      with (N [] 0 [SV v] [] [] 0 0 {| ctr := 0; creg := (Some rpc, @nil frame) |}).
    rewrite (st_scope nt code [] 0 mainscope nv 0 _ _ _ _ _ _ rpc []); [reflexivity|reflexivity|reflexivity]. }
  assert (Hfr : frameOK sc0 mainscope 0) by (exists rpc, 0, [], [], []; reflexivity).
  pose proof (proj1 (impl_all_fu nt code tco fu q) sc0 mainscope 0 Hfr ce_empty 1 0 2 c nv sn' Ec Hat [] v [] [] vs0 0 0 (0 + nv) (0 + nv) g1
                (fun _ => True) (fun _ => True) (fun _ _ _ => True)) as HI.
  cbv zeta in HI.
  set (c0 := ctx_of sc0 (1 + length c) [] [] (0 + 0) (0 + nv) (0 + nv) (0 + nv) (fun _ => True) (fun _ => True) ce_empty 0 (ctr g1)) in HI.
  assert (HG : Gen.G2 nt code c0 (fst (den nt fu q [] v)) (Tend nt code (lbf tco fu) c0 (snd (den nt fu q [] v)) (fun _ _ _ => True))
                 (Tend nt code (lbf tco fu) c0 (snd (den nt fu q [] v)) (fun _ _ _ => True)) (N sc0 1 [SV v] [] vs0 0 (0 + nv) g1)).
  { apply HI; auto.
    - split; [constructor|split; [intros a k Hk; simpl in Hk; discriminate|intros i []]].
    - unfold vs0. apply grow_len.
    - split; auto. }
  split.
  2:{ intros Etco EF f Hf. subst tco. rewrite lbf_false in HG.
      destruct (run_G_fuel code rpc c0 (fun _ _ _ => True) (snd (den nt fu q [] v)) mainscope 0 0 [] fu eq_refl Hret eq_refl
                  ltac:(simpl; lia) eq_refl eq_refl EF _ _ HG) as (s' & Rs & Hc).
      apply (reach_nohalt code (init code v) s' (reach_next _ _ _ _ E0 Rs) (S fu)); [|exact Hf].
      simpl in Hc. simpl. lia. }
  destruct (run_G code rpc c0 (fun _ _ _ => True) (snd (den nt fu q [] v)) mainscope 0 0 [] (lbf tco fu) eq_refl Hret eq_refl
              ltac:(simpl; lia) eq_refl eq_refl eq_refl _ _ HG) as (f & Hf).
  exists (S f).
  change (run nt code (S f) (init code v)) with
    (match step nt code (init code v) with
     | Next s' => run nt code f s'
     | Emit v s' => let '(o, e) := run nt code f s' in (v :: o, e)
     | Halt None => ([], End) | Halt (Some e) => ([], Error e) | Stuck => ([], IsStuck) end).
  rewrite E0. destruct (den nt fu q [] v) as [ws fin]. exact Hf.
Qed.

(* with or without optimizeTailRec *)
Theorem compile_raw_g_correct : forall tco q code, compile_raw_g tco q = Some code ->
  forall fu v, exists fuel, run_is (den nt fu q [] v) (run nt code fuel (init code v)).
Proof. intros tco q code Hc fu v. exact (proj1 (compile_raw_both tco q code Hc fu v)). Qed.

Theorem compile_raw_correct : forall q code, compile_raw q = Some code ->
  forall fu v, exists fuel, run_is (den nt fu q [] v) (run nt code fuel (init code v)).
Proof. intros q code Hc fu v. exact (compile_raw_g_correct false q code Hc fu v). Qed.

(* optimizeTailRec is sound: whenever the denotation terminates, the code compiled with and without the pass have
   the same observation (the one of the denotation) *)
Theorem tailrec_sound : forall q c c', compile_raw_g false q = Some c -> compile_raw_g true q = Some c' ->
  forall fu v, snd (den nt fu q [] v) <> Some XFuel ->
  exists f f' o, run nt c f (init c v) = o /\ run nt c' f' (init c' v) = o /\ run_is (den nt fu q [] v) o.
Proof.
  intros q c c' Hc Hc' fu v Hnf.
  destruct (compile_raw_g_correct false q c Hc fu v) as (f & Hf).
  destruct (compile_raw_g_correct true q c' Hc' fu v) as (f' & Hf').
  exists f, f', (run nt c f (init c v)). split; [reflexivity|]. split; [|exact Hf].
  unfold run_is in *. destruct (snd (den nt fu q [] v)) as [[x|l|]|]; try contradiction; try congruence.
Qed.

Theorem compile_raw_fuel : forall q code, compile_raw q = Some code ->
  forall fu v, snd (den nt fu q [] v) = Some XFuel -> forall f, f <= S fu -> snd (run nt code f (init code v)) = OutOfFuel.
Proof. intros q code Hc fu v. exact (proj2 (compile_raw_both false q code Hc fu v) eq_refl). Qed.

(* the converse: whenever the machine ends (with any ending other than running out of its own fuel), the denotation
   terminates on that much fuel, with the same observation; in particular the machine never gets stuck *)
Theorem compile_raw_converse : forall q code, compile_raw q = Some code ->
  forall v f outs e, run nt code f (init code v) = (outs, e) -> e <> OutOfFuel ->
  snd (den nt f q [] v) <> Some XFuel /\ run_is (den nt f q [] v) (outs, e).
Proof.
  intros q code Hc v f outs e Hr He.
  assert (Hnf : snd (den nt f q [] v) <> Some XFuel).
  { intros EF. pose proof (compile_raw_fuel q code Hc f v EF f ltac:(lia)) as H. rewrite Hr in H. simpl in H. congruence. }
  split; [exact Hnf|].
  destruct (compile_raw_correct q code Hc f v) as (f2 & H2).
  destruct (run nt code f2 (init code v)) as [o2 e2] eqn:E2.
  assert (He2 : e2 <> OutOfFuel).
  { unfold run_is in H2. destruct (snd (den nt f q [] v)) as [[x|l|]|]; try contradiction; try congruence; inversion H2; subst; discriminate. }
  pose proof (run_mono code f _ _ _ Hr He (Nat.max f f2) (Nat.le_max_l _ _)) as M1.
  pose proof (run_mono code f2 _ _ _ E2 He2 (Nat.max f f2) (Nat.le_max_r _ _)) as M2.
  rewrite M1 in M2. inversion M2; subst. exact H2.
Qed.

Corollary compile_raw_never_stuck : forall q code, compile_raw q = Some code ->
  forall v f, snd (run nt code f (init code v)) <> IsStuck.
Proof.
  intros q code Hc v f H. destruct (run nt code f (init code v)) as [outs e] eqn:Er. simpl in H. subst e.
  destruct (compile_raw_converse q code Hc v f outs IsStuck Er ltac:(discriminate)) as [Hnf Hri].
  unfold run_is in Hri. destruct (snd (den nt f q [] v)) as [[x|l|]|]; try contradiction; try congruence; inversion Hri.
Qed.
End Top.
