(* C01vm — bytecode of /repo/code.go restricted to the opcodes emitted for fragment F. *)
From Coq Require Import List NArith ZArith Bool.
From Verif Require Import c01vm2.Syntax.
Import ListNotations.

Definition var := (nat * nat)%type.      (* [2]int{scope id, index} *)

Inductive native := NF0 (f : fn0) | NF2 (o : binop) | NBreak | NIndex2 | NSlice3 | NF1 (f : fn1).   (* opcall [3]any{fn, argc, name} *)

Inductive instr :=
| Inop | Ipush (c : jv) | Ipop | Idup | Iconst (c : jv)
| Iload (x : var) | Istore (x : var) | Iappend (x : var)
| Ifork (t : nat) | Iforktrybegin (t : nat) | Iforktryend | Iforklabel (x : var)
| Ibacktrack | Ijump (t : nat) | Ijumpifnot (t : nat)
| Iindex (k : jv) | Icall (f : native)
| Iscope (id nvars nargs : nat) | Iret | Iiter | Iexpbegin | Iexpend
| Ipushpc (p : nat) | Icallpc
| Icallf (p : nat)            (* opcall with a pc: a user-defined function *)
| Icallrec (p : nat)          (* opcallrec: a self-recursive tail call that replaces the current frame *)
| Iobject (n : nat)           (* opobject: pops n (key, value) pairs, pushes the object *)
| Iindexarray (i : nat).      (* opindexarray: index by a constant position; an error unless the value is an array or null *)

(* abstract natives: total functions returning a value or an error *)
Record natives := {
  n_index : jv -> jv -> jv + err0;             (* funcIndex2(nil, v, k) *)
  n_iter  : jv -> list jv + err0;              (* opiter on a value: elements / values by sorted key / iteratorError *)
  n_fn0   : fn0 -> jv -> jv + err0;            (* fn(x, []) *)
  n_fn2   : binop -> jv -> jv -> jv -> jv + err0;  (* fn(x, [l, r]) *)
  n_slice : jv -> jv -> jv -> jv + err0;           (* funcSlice(nil, v, end, start) *)
  n_fn1   : fn1 -> jv -> jv -> jv + err0           (* fn(x, [a]) *)
}.
