(* C19b — a native function is the jq-defined function with value parameters and the built-in argument order.

   The native call `a OP b` (QBinop o a b, operands arbitrary queries, compiled by compileCallInternal) evaluates its
   LAST argument in the OUTERMOST loop: (1,2) + (10,20) = 11 12 21 22.  A jq-defined function binds its `$` parameters
   from the first to the last, the FIRST one in the outermost loop (the prelude emitted by compileFuncDef): the two orders
   are opposite (as in jq).  So the jq-defined function that is interchangeable with the native call is the one whose
   value parameters are declared in the order the native evaluates its arguments:

       a OP b   ==   def d($y; $x): $x OP $y; d(b; a)

   in every environment, on every input, in every context (the two denotations are EQUAL: same outputs in order, same
   ending -- an error or a break raised by an operand, an error of the operator), for every instance of the natives,
   at every fuel >= 1 (the call of d costs one unit; the operands are evaluated with the caller's fuel on both sides).
   With the parameters declared the other way round the outputs come in a different order (native_vs_def_order). *)
From Coq Require Import List NArith ZArith Bool Arith Lia.
From Verif Require Import c01vm2.Syntax c01vm2.Code c01vm2.VM c01vm2.Den c01vm2.Compile c01vm2.Natives
                          c01vm2.Mach c01vm2.Gen c01vm2.Lemmas c01vm2.Static c01vm2.Correct c01vm2.Peep.
Import ListNotations.

(* the jq-defined counterpart of the native operator o *)
Definition def_binop (d : fname) (x y : vname) (o : binop) (a b : query) : query :=
  QDef d [PV y; PV x] (QBinop o (QVar x) (QVar y)) (QCallF d [b; a]).
Definition def_call0 (d : fname) (f : fn0) : query := QDef d [] (QCall0 f) (QCallF d []).

Section NativeAsDef.
Variable nt : natives.

(* d is fresh for q in rho: binding d to a function does not change what q means (e.g. q has no call at all:
   nocall_fresh below; in general: q and the functions it reaches do not mention d) *)
Definition fresh_for (fu : nat) (d : fname) (q : query) (rho : venv) (v : jv) : Prop :=
  forall ps body, den nt fu q ((d, BF ps body) :: rho) v = den nt fu q rho v.

Theorem binop_as_def : forall (o : binop) (a b : query) (d : fname) (x y : vname) (rho : venv) (v : jv) (m : nat),
  x <> y -> fresh_for (S m) d a rho v -> fresh_for (S m) d b rho v ->
  den nt (S m) (def_binop d x y o a b) rho v = den nt (S m) (QBinop o a b) rho v.
Proof.
  intros o a b d x y rho v m Hxy Ha Hb. unfold def_binop, den.
  cbn [den1 length lookup_f]. rewrite N.eqb_refl. cbn [andb Nat.eqb length pf_binds app bindps].
  unfold fresh_for, den in Ha, Hb. rewrite Hb, Ha.
  apply bind_list_ext'. intros wy. apply bind_list_ext'. intros wx.
  cbn [call_of den1 lookup_v].
  assert (E1 : N.eqb y x = false) by (apply N.eqb_neq; congruence).
  rewrite E1, !N.eqb_refl. rewrite !bind_single. reflexivity.
Qed.

Theorem call0_as_def : forall (f : fn0) (d : fname) (rho : venv) (v : jv) (m : nat),
  den nt (S m) (def_call0 d f) rho v = den nt (S m) (QCall0 f) rho v.
Proof.
  intros f d rho v m. unfold def_call0, den. cbn [den1 length lookup_f]. rewrite N.eqb_refl. cbn [andb Nat.eqb length pf_binds app bindps call_of den1].
  reflexivity.
Qed.

(* with no fuel at all the jq-defined function cannot be called: its operands are evaluated all the same, and the
   result is the native's unless a call was due (then XFuel) *)
Lemma binop_as_def_0 : forall o a b d x y rho v,
  den nt 0 (def_binop d x y o a b) rho v =
  bind (den nt 0 b ((d, BF [PV y; PV x] (QBinop o (QVar x) (QVar y))) :: rho) v)
       (fun _ => bind (den nt 0 a ((d, BF [PV y; PV x] (QBinop o (QVar x) (QVar y))) :: rho) v) (fun _ => ([], Some XFuel))).
Proof.
  intros. unfold def_binop, den. cbn [den1 length lookup_f]. rewrite N.eqb_refl. cbn [andb Nat.eqb length pf_binds app bindps call_of]. reflexivity.
Qed.

(* ---- a syntactic sufficient condition for freshness: the operand calls no user-defined function ---- *)
Fixpoint nocall (q : query) : bool :=
  match q with
  | QId | QConst _ | QEmpty | QBreak _ | QVar _ | QCall0 _ => true
  | QPipe a b | QComma a b | QAlt a b | QBinop _ a b => nocall a && nocall b
  | QIter t | QIndex t _ | QArray t | QLabel _ t => nocall t
  | QIf c a b => nocall c && nocall a && nocall b
  | QTry a h => nocall a && match h with Some h' => nocall h' | None => true end
  | QReduce s _ i u => nocall s && nocall i && nocall u
  | QForeach s _ i u e => nocall s && nocall i && nocall u && match e with Some e' => nocall e' | None => true end
  | QBind s _ b => nocall s && nocall b
  | QDef _ _ body rest => nocall rest        (* the body is never run *)
  | QCallF _ _ => false
  | QObject _ | QBindP _ _ _ | QIndexQ _ _ | QSlice _ _ _ | QCall1 _ _ => false        (* not needed by the operands this condition is used for *)
  end.

Lemma lookup_v_skip : forall x pre d ps body rho, lookup_v x (pre ++ (d, BF ps body) :: rho) = lookup_v x (pre ++ rho).
Proof.
  induction pre as [|[z [w|ps' b'|a' e']] r IH]; intros d ps body rho; simpl; auto.
  destruct (N.eqb x z); auto.
Qed.
Lemma reduce_fold_ext : forall (f g : jv -> jv -> result) ws acc, (forall w a, f w a = g w a) -> reduce_fold f ws acc = reduce_fold g ws acc.
Proof. intros f g ws. induction ws; intros acc H; simpl; auto. rewrite H. destruct (g a acc) as [us [e|]]; auto. Qed.
Lemma foreach_upd_ext : forall (f g : jv -> result) us acc, (forall u, f u = g u) -> foreach_upd f us acc = foreach_upd g us acc.
Proof. intros f g us. induction us; intros acc H; simpl; auto. rewrite H. destruct (g a) as [os [e|]]; auto. rewrite IHus by exact H. reflexivity. Qed.
Lemma foreach_fold_ext : forall (u u' : jv -> jv -> result) (e e' : jv -> jv -> result) ws acc,
  (forall w a, u w a = u' w a) -> (forall w a, e w a = e' w a) -> foreach_fold u e ws acc = foreach_fold u' e' ws acc.
Proof.
  intros u u' e e' ws. induction ws; intros acc Hu He; simpl; auto. rewrite Hu.
  destruct (u' a acc) as [us ux]. rewrite (foreach_upd_ext (e a) (e' a) us acc (He a)).
  destruct (foreach_upd (e' a) us acc) as [[os [x|]] acc']; auto. destruct ux; auto. rewrite IHws; auto.
Qed.

Lemma nocall_skip : forall call q, nocall q = true -> forall pre d ps body rho v,
  den1 nt call q (pre ++ (d, BF ps body) :: rho) v = den1 nt call q (pre ++ rho) v.
Proof.
  intros call. qind q; intros Hn pre d ps0 body0 rho v; cbn [nocall] in Hn; try discriminate; cbn [den1];
    repeat match goal with H : _ && _ = true |- _ => apply andb_true_iff in H; destruct H end;
    try reflexivity.
  - rewrite IHa by auto. apply bind_list_ext'. intros w. apply IHb; auto.
  - rewrite IHa, IHb by auto. reflexivity.
  - rewrite IHt by auto. reflexivity.
  - rewrite IHt by auto. reflexivity.
  - rewrite IHc by auto. apply bind_list_ext'. intros w. rewrite IHa, IHb by auto. reflexivity.
  - rewrite IHa, IHb by auto. reflexivity.
  - rewrite IHa by auto. destruct (den1 nt call a (pre ++ rho) v) as [ws [[e|l|]|]]; try reflexivity.
    destruct h as [h|]; [|reflexivity]. simpl in IHh, H0. rewrite (IHh H0 pre d ps0 body0 rho (errval e)). reflexivity.
  - rewrite IHq by auto. reflexivity.
  - rewrite IHi by auto. apply bind_list_ext'. intros s0. rewrite IHs by auto.
    destruct (den1 nt call s (pre ++ rho) v) as [ws sx].
    rewrite (reduce_fold_ext _ (fun w acc => match pmatch nt x w with
                                             | inl bs => den1 nt call u (bs ++ pre ++ rho) acc
                                             | inr e0 => ([], Some (XErr e0)) end)); [reflexivity|].
    intros w acc. destruct (pmatch nt x w) as [bs|e0]; [|reflexivity]. rewrite !app_assoc. exact (IHu H0 (bs ++ pre) d ps0 body0 rho acc).
  - rewrite IHi by auto. apply bind_list_ext'. intros s0. rewrite IHs by auto.
    destruct (den1 nt call s (pre ++ rho) v) as [ws sx].
    rewrite (foreach_fold_ext _ (fun w acc => match pmatch nt x w with
                                              | inl bs => den1 nt call u (bs ++ pre ++ rho) acc
                                              | inr e0 => ([], Some (XErr e0)) end) _
               (fun w u0 => match e with
                            | Some e0 => match pmatch nt x w with
                                         | inl bs => den1 nt call e0 (bs ++ pre ++ rho) u0
                                         | inr e1 => ([], Some (XErr e1)) end
                            | None => ([u0], None) end)); [reflexivity| |].
    + intros w acc. destruct (pmatch nt x w) as [bs|e0]; [|reflexivity]. rewrite !app_assoc. exact (IHu H1 (bs ++ pre) d ps0 body0 rho acc).
    + intros w u0. destruct e as [e0|]; [|reflexivity]. simpl in IHe. destruct (pmatch nt x w) as [bs|e1]; [|reflexivity].
      rewrite !app_assoc. exact (IHe H0 (bs ++ pre) d ps0 body0 rho u0).
  - rewrite IHb by auto. reflexivity.
  - rewrite IHs by auto. apply bind_list_ext'. intros w. exact (IHb H0 ((x, BV w) :: pre) d ps0 body0 rho v).
  - rewrite lookup_v_skip. reflexivity.
  - rewrite IHb by auto. apply bind_list_ext'. intros r. rewrite IHa by auto. reflexivity.
  - exact (IHrest Hn ((f, BF ps body) :: pre) d ps0 body0 rho v).
Qed.

Lemma nocall_fresh : forall fu d q rho v, nocall q = true -> fresh_for fu d q rho v.
Proof. intros fu d q rho v H ps body. exact (nocall_skip (call_of nt fu) q H [] d ps body rho v). Qed.

Corollary binop_as_def_nocall : forall o a b d x y rho v m, x <> y -> nocall a = true -> nocall b = true ->
  den nt (S m) (def_binop d x y o a b) rho v = den nt (S m) (QBinop o a b) rho v.
Proof. intros. apply binop_as_def; auto using nocall_fresh. Qed.

(* ---- lifted to the compiled code (final code: optimizeTailRec when tco is on, optimizeCodeOps) ---- *)
Theorem binop_as_def_compiled : forall tco o a b d x y c1 c2,
  option_map peephole (compile_raw_g tco (QBinop o a b)) = Some c1 ->
  option_map peephole (compile_raw_g tco (def_binop d x y o a b)) = Some c2 ->
  x <> y -> forall m v, fresh_for (S m) d a [] v -> fresh_for (S m) d b [] v ->
  exists f1 f2, run_is (den nt (S m) (QBinop o a b) [] v) (run nt c1 f1 (init c1 v)) /\
                run_is (den nt (S m) (QBinop o a b) [] v) (run nt c2 f2 (init c2 v)).
Proof.
  intros tco o a b d x y c1 c2 H1 H2 Hxy m v Ha Hb.
  destruct (compile_g_correct nt tco _ c1 H1 (S m) v) as (f1 & Hf1).
  destruct (compile_g_correct nt tco _ c2 H2 (S m) v) as (f2 & Hf2).
  rewrite (binop_as_def o a b d x y [] v m Hxy Ha Hb) in Hf2. exists f1, f2. split; assumption.
Qed.

Theorem call0_as_def_compiled : forall tco f d c1 c2,
  option_map peephole (compile_raw_g tco (QCall0 f)) = Some c1 ->
  option_map peephole (compile_raw_g tco (def_call0 d f)) = Some c2 ->
  forall m v, exists f1 f2, run_is (den nt (S m) (QCall0 f) [] v) (run nt c1 f1 (init c1 v)) /\
                            run_is (den nt (S m) (QCall0 f) [] v) (run nt c2 f2 (init c2 v)).
Proof.
  intros tco f d c1 c2 H1 H2 m v.
  destruct (compile_g_correct nt tco _ c1 H1 (S m) v) as (f1 & Hf1).
  destruct (compile_g_correct nt tco _ c2 H2 (S m) v) as (f2 & Hf2).
  rewrite (call0_as_def f d [] v m) in Hf2. exists f1, f2. split; assumption.
Qed.

End NativeAsDef.

(* the two argument orders differ (as in jq): the native enumerates its LAST argument in the outermost loop, a
   jq-defined function its FIRST `$` parameter.  (1,2) + (10,20)  vs  def d($x; $y): $x + $y; d(1,2; 10,20) *)
Example native_vs_def_order :
  let num z := QConst (VNum z) in
  let a := QComma (num 1%Z) (num 2%Z) in
  let b := QComma (num 10%Z) (num 20%Z) in
  let same_order := QDef 7%N [PV 1%N; PV 2%N] (QBinop OAdd (QVar 1%N) (QVar 2%N)) (QCallF 7%N [a; b]) in
  den cnat 3 (QBinop OAdd a b) [] VNull = (map VNum [11; 12; 21; 22]%Z, None) /\
  den cnat 3 (def_binop 7%N 1%N 2%N OAdd a b) [] VNull = (map VNum [11; 12; 21; 22]%Z, None) /\
  den cnat 3 same_order [] VNull = (map VNum [11; 21; 12; 22]%Z, None).
Proof. vm_compute. repeat split; reflexivity. Qed.
