(* C01vm — denotational generator semantics of fragment F: a total function.
   F has no recursion and no function definitions, so every generator is finite and an eager
   list semantics is adequate (laziness only matters for infinite generators / early exit, which
   are outside F).  A result is the list of outputs in order followed by how the enumeration
   ended: normally, with an error (errors stop everything up to the nearest try), or with a break. *)
From Coq Require Import List NArith ZArith Bool.
From Verif Require Import c01vm2.Syntax c01vm2.Code.
Import ListNotations.

Inductive exn := XErr (e : err0) | XBrk (l : lname).
Definition result := (list jv * option exn)%type.
Definition venv := list (vname * jv).

(* sequencing: r, and if r ended normally then k () *)
Definition seq (r : result) (k : result) : result :=
  match r with
  | (ws, None) => (ws ++ fst k, snd k)
  | (ws, Some x) => (ws, Some x)
  end.

(* for each output of ws (in order) run f; stop at the first exception *)
Fixpoint bind_list (ws : list jv) (f : jv -> result) : result :=
  match ws with
  | [] => ([], None)
  | w :: r => seq (f w) (bind_list r f)
  end.
Definition bind (r : result) (f : jv -> result) : result :=
  match bind_list (fst r) f with
  | (os, Some x) => (os, Some x)
  | (os, None) => (os, snd r)         (* the generator's own ending comes last *)
  end.

Definition of_sum (r : jv + err0) : result :=
  match r with inl w => ([w], None) | inr e => ([], Some (XErr e)) end.

Definition last_or (l : list jv) (d : jv) : jv := last l d.

Section Den.
Variable nt : natives.

Definition iter_res (w : jv) : result :=
  match n_iter nt w with inl l => (l, None) | inr e => ([], Some (XErr e)) end.

(* reduce: fold the outputs of the source; each step runs the update on the accumulator and
   keeps its LAST output (the accumulator is unchanged when the update is empty) *)
Fixpoint reduce_fold (upd : jv -> jv -> result) (ws : list jv) (acc : jv) : jv + exn :=
  match ws with
  | [] => inl acc
  | w :: r => match upd w acc with
              | (us, None) => reduce_fold upd r (last_or us acc)
              | (_, Some x) => inr x
              end
  end.

(* foreach: for every source output w and every update output u (on the current accumulator):
   the accumulator becomes u and the extraction of u is emitted *)
Fixpoint foreach_upd (ext : jv -> result) (us : list jv) (acc : jv) : result * jv :=
  match us with
  | [] => (([], None), acc)
  | u :: r => match ext u with
              | (os, None) => let '((os', x), acc') := foreach_upd ext r u in ((os ++ os', x), acc')
              | (os, Some x) => ((os, Some x), u)
              end
  end.
Fixpoint foreach_fold (upd : jv -> jv -> result) (ext : jv -> jv -> result) (ws : list jv) (acc : jv) : result :=
  match ws with
  | [] => ([], None)
  | w :: r =>
      let '(us, ux) := upd w acc in
      match foreach_upd (ext w) us acc with
      | ((os, Some x), _) => (os, Some x)
      | ((os, None), acc') =>
          match ux with
          | Some x => (os, Some x)
          | None => seq (os, None) (foreach_fold upd ext r acc')
          end
      end
  end.

Fixpoint den (q : query) (rho : venv) (v : jv) : result :=
  match q with
  | QId => ([v], None)
  | QConst c => ([c], None)
  | QPipe a b => bind (den a rho v) (den b rho)
  | QComma a b => seq (den a rho v) (den b rho v)
  | QEmpty => ([], None)
  | QIter t => bind (den t rho v) iter_res
  | QIndex t k => bind (den t rho v) (fun w => of_sum (n_index nt w k))
  | QIf c a b => bind (den c rho v) (fun w => if truthy w then den a rho v else den b rho v)
  | QAlt a b =>
      let '(ws, x) := den a rho v in
      let ts := filter truthy ws in
      match x with
      | Some e => (ts, Some e)                 (* gojq: an error of the left operand propagates *)
      | None => match ts with [] => den b rho v | _ => (ts, None) end
      end
  | QTry a h =>
      match den a rho v with
      | (ws, Some (XErr e)) =>
          match h with
          | Some h => seq (ws, None) (den h rho (errval e))
          | None => (ws, None)
          end
      | r => r                                 (* a break is not caught by try *)
      end
  | QArray q =>
      match den q rho v with
      | (ws, None) => ([VArr ws], None)
      | (_, Some x) => ([], Some x)
      end
  | QReduce src x init upd =>
      bind (den init rho v) (fun s0 =>
        let '(ws, sx) := den src rho v in
        match reduce_fold (fun w acc => den upd ((x, w) :: rho) acc) ws s0 with
        | inr e => ([], Some e)
        | inl acc => match sx with Some e => ([], Some e) | None => ([acc], None) end
        end)
  | QForeach src x init upd ext =>
      bind (den init rho v) (fun s0 =>
        let '(ws, sx) := den src rho v in
        seq (foreach_fold (fun w acc => den upd ((x, w) :: rho) acc)
               (fun w u => match ext with Some e => den e ((x, w) :: rho) u | None => ([u], None) end)
               ws s0)
            ([], sx))
  | QLabel l body =>
      match den body rho v with
      | (ws, Some (XBrk l')) => if N.eqb l l' then (ws, None) else (ws, Some (XBrk l'))
      | r => r
      end
  | QBreak l => ([], Some (XBrk l))
  | QBind src x body => bind (den src rho v) (fun w => den body ((x, w) :: rho) v)
  | QVar x => match lookup x rho with Some w => ([w], None) | None => ([], None) end
  | QCall0 f => of_sum (n_fn0 nt f v)
  | QBinop o a b =>
      (* the RIGHT operand is the outer loop (compileCallInternal evaluates the last argument first) *)
      bind (den b rho v) (fun r => bind (den a rho v) (fun l => of_sum (n_fn2 nt o v l r)))
  end.

End Den.
