(* C01vm — denotational generator semantics: a total function of a fuel, the query, the environment and the input.
   Generators of terminating programs are finite, so an eager list semantics is adequate (laziness only matters for
   infinite generators / early exit).  A result is the list of outputs in order followed by how the enumeration
   ended: normally, with an error (errors stop everything up to the nearest try), with a break, or because the
   fuel ran out (every call of a user-defined function costs one unit; XFuel is caught by nothing, the theorem says
   nothing about what the machine does after that point). *)
From Coq Require Import List NArith ZArith Bool.
From Verif Require Import c01vm2.Syntax c01vm2.Code.
Import ListNotations.

Inductive exn := XErr (e : err0) | XBrk (l : lname) | XFuel.
Definition result := (list jv * option exn)%type.
(* the environment, innermost binding first: $x is bound to a value, f to the body of a definition whose
   environment is the part of the list that starts at its own entry (so f can call itself and everything
   visible at its definition, and nothing defined later) *)
(* ... a filter parameter g to the argument query together with the environment of the call site *)
Inductive binding := BV (w : jv) | BF (ps : list param) (body : query) | BP (a : query) (rho : list (N * binding)).
Definition venv := list (N * binding).
Fixpoint lookup_v (x : vname) (rho : venv) : option jv :=
  match rho with
  | [] => None
  | (y, BV w) :: r => if N.eqb x y then Some w else lookup_v x r
  | _ :: r => lookup_v x r
  end.
Fixpoint lookup_f (f : fname) (argc : nat) (rho : venv) : option (binding * venv) :=
  match rho with
  | [] => None
  | (g, BF ps b) :: r => if N.eqb f g && Nat.eqb (length ps) argc then Some (BF ps b, rho) else lookup_f f argc r
  | (g, BP a e) :: r => if N.eqb f g && Nat.eqb argc 0 then Some (BP a e, rho) else lookup_f f argc r
  | _ :: r => lookup_f f argc r
  end.
(* the closures of the filter parameters, innermost (last) first *)
Fixpoint pf_binds (ps : list param) (args : list query) (rho : venv) : venv :=
  match ps, args with
  | PF g :: ps', a :: args' => pf_binds ps' args' rho ++ [(g, BP a rho)]
  | PV _ :: ps', _ :: args' => pf_binds ps' args' rho
  | _, _ => []
  end.

(* sequencing: r, and if r ended normally then k () *)
Definition seq (r : result) (k : result) : result :=
  match r with
  | (ws, None) => (ws ++ fst k, snd k)
  | (ws, Some x) => (ws, Some x)
  end.

(* for each output of ws (in order) run f; stop at the first exception *)
Fixpoint bind_list (ws : list jv) (f : jv -> result) : result :=
  match ws with
  | [] => ([], None)
  | w :: r => seq (f w) (bind_list r f)
  end.
Definition bind (r : result) (f : jv -> result) : result :=
  match bind_list (fst r) f with
  | (os, Some x) => (os, Some x)
  | (os, None) => (os, snd r)         (* the generator's own ending comes last *)
  end.

Definition of_sum (r : jv + err0) : result :=
  match r with inl w => ([w], None) | inr e => ([], Some (XErr e)) end.

Definition last_or (l : list jv) (d : jv) : jv := last l d.

(* the $x parameters of a call are evaluated in order (ev: an argument on the input of the call, in the
   environment of the call); k: the body in the completed environment *)
Section BindPs.
Variables (ev : query -> result) (k : venv -> result).
Fixpoint bindps (ps : list param) (args : list query) (env : venv) {struct args} : result :=
  match ps, args with
  | PV x :: ps', a :: args' => bind (ev a) (fun w => bindps ps' args' ((x, BV w) :: env))
  | PF _ :: ps', _ :: args' => bindps ps' args' env
  | _, _ => k env
  end.
End BindPs.

(* destructuring: the bindings a pattern makes on a value (the last one first), or the error of the failing access *)
Section PMatch.
Variable nt : natives.
Definition index_arr (w : jv) (i : nat) : jv + err0 :=
  match w with
  | VNull | VArr _ => n_index nt w (VNum (Z.of_nat i))
  | _ => inr (EMsg [])                    (* expectedArrayError *)
  end.
Fixpoint pmatch (p : pattern) (w : jv) : venv + err0 :=
  match p with
  | PVar x => inl [(x, BV w)]
  | PArr l => parr_match l 0 w
  | PObj l => pobj_match l w
  end
with parr_match (l : parr) (i : nat) (w : jv) : venv + err0 :=
  match l with
  | ANil => inl []
  | ACons p r =>
      match index_arr w i with
      | inl wi => match pmatch p wi with
                  | inl b1 => match parr_match r (S i) w with inl b2 => inl (b2 ++ b1) | inr e => inr e end
                  | inr e => inr e end
      | inr e => inr e
      end
  end
with pobj_match (l : pobj) (w : jv) : venv + err0 :=
  match l with
  | ONil => inl []
  | OKey k p r =>
      match n_index nt w (VStr k) with
      | inl wk => match pmatch p wk with
                  | inl b1 => match pobj_match r w with inl b2 => inl (b2 ++ b1) | inr e => inr e end
                  | inr e => inr e end
      | inr e => inr e
      end
  | OKeyVar k x p r =>
      match n_index nt w (VStr k) with
      | inl wk => match pmatch p wk with
                  | inl b1 => match pobj_match r w with inl b2 => inl (b2 ++ b1 ++ [(x, BV wk)]) | inr e => inr e end
                  | inr e => inr e end
      | inr e => inr e
      end
  end.
End PMatch.

(* object construction: the entries in order, an earlier entry in an outer loop, the key before the value;
   acc: the pairs of the entries already evaluated *)
Section DenEnts.
Variable ev : query -> result.
Fixpoint den_ents (es : list ((list N + query) * query)) (acc : list (jv * jv)) : result :=
  match es with
  | [] => of_sum (mk_obj acc)
  | (k, qv) :: r =>
      bind (match k with inl s => ([VStr s], None) | inr kq => ev kq end)
           (fun kv => bind (ev qv) (fun w => den_ents r (acc ++ [(kv, w)])))
  end.
End DenEnts.

Section Den.
Variable nt : natives.

Definition iter_res (w : jv) : result :=
  match n_iter nt w with inl l => (l, None) | inr e => ([], Some (XErr e)) end.

(* reduce: fold the outputs of the source; each step runs the update on the accumulator and
   keeps its LAST output (the accumulator is unchanged when the update is empty) *)
Fixpoint reduce_fold (upd : jv -> jv -> result) (ws : list jv) (acc : jv) : jv + exn :=
  match ws with
  | [] => inl acc
  | w :: r => match upd w acc with
              | (us, None) => reduce_fold upd r (last_or us acc)
              | (_, Some x) => inr x
              end
  end.

(* foreach: for every source output w and every update output u (on the current accumulator):
   the accumulator becomes u and the extraction of u is emitted *)
Fixpoint foreach_upd (ext : jv -> result) (us : list jv) (acc : jv) : result * jv :=
  match us with
  | [] => (([], None), acc)
  | u :: r => match ext u with
              | (os, None) => let '((os', x), acc') := foreach_upd ext r u in ((os ++ os', x), acc')
              | (os, Some x) => ((os, Some x), u)
              end
  end.
Fixpoint foreach_fold (upd : jv -> jv -> result) (ext : jv -> jv -> result) (ws : list jv) (acc : jv) : result :=
  match ws with
  | [] => ([], None)
  | w :: r =>
      let '(us, ux) := upd w acc in
      match foreach_upd (ext w) us acc with
      | ((os, Some x), _) => (os, Some x)
      | ((os, None), acc') =>
          match ux with
          | Some x => (os, Some x)
          | None => seq (os, None) (foreach_fold upd ext r acc')
          end
      end
  end.

(* [call] is the meaning of the body of a called function (the semantics with one unit of fuel less) *)
Fixpoint den1 (call : query -> venv -> jv -> result) (q : query) (rho : venv) (v : jv) {struct q} : result :=
  let go := den1 call in
  match q with
  | QId => ([v], None)
  | QConst c => ([c], None)
  | QPipe a b => bind (go a rho v) (go b rho)
  | QComma a b => seq (go a rho v) (go b rho v)
  | QEmpty => ([], None)
  | QIter t => bind (go t rho v) iter_res
  | QIndex t k => bind (go t rho v) (fun w => of_sum (n_index nt w k))
  | QIf c a b => bind (go c rho v) (fun w => if truthy w then go a rho v else go b rho v)
  | QAlt a b =>
      let '(ws, x) := go a rho v in
      let ts := filter truthy ws in
      match x with
      | Some e => (ts, Some e)                 (* gojq: an error of the left operand propagates *)
      | None => match ts with [] => go b rho v | _ => (ts, None) end
      end
  | QTry a h =>
      match go a rho v with
      | (ws, Some (XErr e)) =>
          match h with
          | Some h => seq (ws, None) (go h rho (errval e))
          | None => (ws, None)
          end
      | r => r                                 (* a break is not caught by try *)
      end
  | QArray q =>
      match go q rho v with
      | (ws, None) => ([VArr ws], None)
      | (_, Some x) => ([], Some x)
      end
  | QReduce src p init upd =>
      (* a pattern that does not match a source output raises its error inside the fold *)
      bind (go init rho v) (fun s0 =>
        let '(ws, sx) := go src rho v in
        match reduce_fold (fun w acc => match pmatch nt p w with
                                        | inl bs => go upd (bs ++ rho) acc
                                        | inr e => ([], Some (XErr e)) end) ws s0 with
        | inr e => ([], Some e)
        | inl acc => match sx with Some e => ([], Some e) | None => ([acc], None) end
        end)
  | QForeach src p init upd ext =>
      bind (go init rho v) (fun s0 =>
        let '(ws, sx) := go src rho v in
        seq (foreach_fold (fun w acc => match pmatch nt p w with
                                        | inl bs => go upd (bs ++ rho) acc
                                        | inr e => ([], Some (XErr e)) end)
               (fun w u => match ext with
                           | Some e => match pmatch nt p w with
                                       | inl bs => go e (bs ++ rho) u
                                       | inr e => ([], Some (XErr e))    (* not reached: the update raised e on this w and had no output *)
                                       end
                           | None => ([u], None) end)
               ws s0)
            ([], sx))
  | QLabel l body =>
      match go body rho v with
      | (ws, Some (XBrk l')) => if N.eqb l l' then (ws, None) else (ws, Some (XBrk l'))
      | r => r
      end
  | QBreak l => ([], Some (XBrk l))
  | QBind src x body => bind (go src rho v) (fun w => go body ((x, BV w) :: rho) v)
  | QVar x => match lookup_v x rho with Some w => ([w], None) | None => ([], None) end
  | QCall0 f => of_sum (n_fn0 nt f v)
  | QBinop o a b =>
      (* the RIGHT operand is the outer loop (compileCallInternal evaluates the last argument first) *)
      bind (go b rho v) (fun r => bind (go a rho v) (fun l => of_sum (n_fn2 nt o v l r)))
  | QDef f ps body rest => go rest ((f, BF ps body) :: rho) v
  | QCallF f args =>
      match lookup_f f (length args) rho with
      | Some (BF ps body, rho_d) =>
          (* the $x parameters are evaluated in order on the input of the call, in the environment of the call *)
          bindps (fun a => go a rho v) (fun env => call body env v) ps args (pf_binds ps args rho ++ rho_d)
      | Some (BP a rho_a, _) => call a rho_a v
      | _ => ([], None)
      end
  | QObject es => den_ents (fun a => go a rho v) es []
  (* t[q], t[a:b]: the index / the bounds are enumerated before the term (start, then end, then t) *)
  | QIndexQ t q => bind (go q rho v) (fun k => bind (go t rho v) (fun w => of_sum (n_index nt w k)))
  | QSlice t a b =>
      bind (go a rho v) (fun s => bind (go b rho v) (fun e => bind (go t rho v) (fun w => of_sum (n_slice nt w e s))))
  | QCall1 f a => bind (go a rho v) (fun w => of_sum (n_fn1 nt f v w))
  | QBindP src p body =>
      bind (go src rho v) (fun w => match pmatch nt p w with
                                    | inl bs => go body (bs ++ rho) v
                                    | inr e => ([], Some (XErr e))
                                    end)
  end.

Fixpoint call_of (fu : nat) : query -> venv -> jv -> result :=
  match fu with
  | O => fun _ _ _ => ([], Some XFuel)
  | S m => den1 (call_of m)
  end.
Definition den (fu : nat) : query -> venv -> jv -> result := den1 (call_of fu).

End Den.
