(* C01vm correspondence: one harness line -> verdict.  Definitions only.
     (code <ast> (<instr>...))                       compile q = the implementation's instruction list
     (run <ast> <input> (<output>...) <ending>)      implementation = VM model on compile q = den
   wrapped as (spec (run ...)): implementation against den only (the property's oracle).
   AST: id | (c v) | (pipe a b) | (comma a b) | empty | (iter t) | (index t v) | (if c a b) | (alt a b)
      | (try a) | (try a h) | (arr q) | (reduce src x init upd) | (foreach src x init upd [ext])
      | (label l body) | (break l) | (bind src x body) | (var x) | (call0 f) | (binop o a b)
      | (def f body rest) | (defp f ((pf g) | (pv x) ...) body rest) | (callf f arg...)
      | (indexq t q)  t[q] | (slice t a b)  t[a:b], an absent bound is (c null)
      | (bindp src pat body)   pat: (pv x) | (pa pat...) | (po (k hexkey pat) | (kv hexkey x pat) ...)
      | (obj (k hexkey val) | (q keyquery val) ...)      {k: v, "k": v, k, $x} / {(q): v, $x: v}
   sarg: id | (c v) | (index v) | iter | empty | (call0 f)
   values: null true false (i z) (s hex) (a v...) (o (hexkey v)...) ; ending: end | (val v) | msg *)
From Coq Require Import List ZArith NArith Bool String.
From Verif Require Import common.Sexp c01vm2.Syntax c01vm2.Code c01vm2.VM c01vm2.Den c01vm2.Compile c01vm2.Natives.
Import ListNotations.

Fixpoint dec_val (e : sexp) : option jv :=
  match e with
  | Atom _ => if atom_is "null" e then Some VNull else if atom_is "true" e then Some (VBool true)
              else if atom_is "false" e then Some (VBool false) else None
  | SList (t :: rest) =>
      if atom_is "i" t then match rest with [Atom z] => option_map VNum (parse_Z z) | _ => None end
      else if atom_is "s" t then match rest with [Atom h] => option_map VStr (parse_hexs h) | _ => None end
      else if atom_is "a" t then
        option_map VArr ((fix go (l : list sexp) : option (list jv) :=
           match l with [] => Some []
           | x :: r => match dec_val x, go r with Some v, Some vs => Some (v :: vs) | _, _ => None end end) rest)
      else if atom_is "o" t then
        option_map (fun l => VObj (obj_norm l)) ((fix go (l : list sexp) : option (list (list N * jv)) :=
           match l with [] => Some []
           | SList [Atom k; x] :: r =>
               match parse_hexs k, dec_val x, go r with Some k, Some v, Some vs => Some ((k, v) :: vs) | _, _, _ => None end
           | _ => None end) rest)
      else None
  | _ => None
  end.

Fixpoint enc_val (v : jv) : sexp :=
  match v with
  | VNull => A "null" | VBool true => A "true" | VBool false => A "false"
  | VNum z => SList [A "i"; Atom (print_Z z)]
  | VStr s => SList [A "s"; Atom (print_hexs s)]
  | VArr l => SList (A "a" :: map enc_val l)
  | VObj l => SList (A "o" :: map (fun kv => SList [Atom (print_hexs (fst kv)); enc_val (snd kv)]) l)
  end.

Definition dec_fn0 (e : sexp) : option fn0 :=
  if atom_is "error" e then Some F0Error else if atom_is "length" e then Some F0Length
  else if atom_is "tostring" e then Some F0ToString else if atom_is "tojson" e then Some F0ToJson
  else if atom_is "tohtml" e then Some F0ToHtml else if atom_is "touri" e then Some F0ToUri
  else if atom_is "tocsv" e then Some F0ToCsv else if atom_is "totsv" e then Some F0ToTsv
  else if atom_is "tosh" e then Some F0ToSh else if atom_is "tobase64" e then Some F0ToBase64
  else if atom_is "keys" e then Some F0Keys else if atom_is "type" e then Some F0Type else None.
Definition dec_binop (e : sexp) : option binop :=
  if atom_is "add" e then Some OAdd else if atom_is "sub" e then Some OSub
  else if atom_is "eq" e then Some OEq else if atom_is "ne" e then Some ONe
  else if atom_is "lt" e then Some OLt else if atom_is "le" e then Some OLe
  else if atom_is "gt" e then Some OGt else if atom_is "ge" e then Some OGe else None.

Definition dec_name (e : sexp) : option N := match e with Atom a => parse_N a | _ => None end.

(* patterns: (pv x) | (pa p...) | (po (k hexkey p) | (kv hexkey x p) ...) *)
Fixpoint dec_pat (e : sexp) : option pattern :=
  match e with
  | SList [t; x] => if atom_is "pv" t then option_map PVar (dec_name x) else
                    if atom_is "pa" t then match dec_pat x with Some p => Some (PArr (ACons p ANil)) | None => None end else
                    if atom_is "po" t then
                      match x with
                      | SList [kd; Atom h; y] =>
                          if atom_is "k" kd then match parse_hexs h, dec_pat y with Some k, Some p => Some (PObj (OKey k p ONil)) | _, _ => None end
                          else None
                      | SList [kd; Atom h; xn; y] =>
                          if atom_is "kv" kd then match parse_hexs h, dec_name xn, dec_pat y with Some k, Some xv, Some p => Some (PObj (OKeyVar k xv p ONil)) | _, _, _ => None end
                          else None
                      | _ => None
                      end
                    else None
  | SList (t :: args) =>
      if atom_is "pa" t then
        option_map PArr ((fix go (l : list sexp) : option parr :=
           match l with
           | [] => Some ANil
           | x :: r => match dec_pat x, go r with Some p, Some rr => Some (ACons p rr) | _, _ => None end
           end) args)
      else if atom_is "po" t then
        option_map PObj ((fix go (l : list sexp) : option pobj :=
           match l with
           | [] => Some ONil
           | SList [kd; Atom h; y] :: r =>
               if atom_is "k" kd then
                 match parse_hexs h, dec_pat y, go r with Some k, Some p, Some rr => Some (OKey k p rr) | _, _, _ => None end
               else None
           | SList [kd; Atom h; xn; y] :: r =>
               if atom_is "kv" kd then
                 match parse_hexs h, dec_name xn, dec_pat y, go r with
                 | Some k, Some xv, Some p, Some rr => Some (OKeyVar k xv p rr) | _, _, _, _ => None end
               else None
           | _ => None
           end) args)
      else None
  | _ => None
  end.

(* the pattern of reduce / foreach: a bare name is $name *)
Definition dec_pn (e : sexp) : option pattern := match e with Atom _ => option_map PVar (dec_name e) | _ => dec_pat e end.

Fixpoint dec_q (e : sexp) : option query :=
  match e with
  | Atom _ => if atom_is "id" e then Some QId else if atom_is "empty" e then Some QEmpty else None
  | SList (t :: args) =>
      if atom_is "obj" t then
        option_map QObject
          ((fix go (l : list sexp) : option (list ((list N + query) * query)) :=
              match l with
              | [] => Some []
              | SList [kind; k; x] :: r =>
                  match dec_q x, go r with
                  | Some qv, Some es =>
                      if atom_is "k" kind then
                        match k with Atom h => match parse_hexs h with Some s => Some ((inl s, qv) :: es) | None => None end | _ => None end
                      else if atom_is "q" kind then
                        match dec_q k with Some kq => Some ((inr kq, qv) :: es) | None => None end
                      else None
                  | _, _ => None
                  end
              | _ => None
              end) args)
      else
      if atom_is "callf" t then
        match args with
        | f :: rest =>
            match dec_name f,
                  (fix go (l : list sexp) : option (list query) :=
                     match l with [] => Some []
                     | x :: r => match dec_q x, go r with Some a, Some as_ => Some (a :: as_) | _, _ => None end end) rest with
            | Some f, Some as_ => Some (QCallF f as_)
            | _, _ => None
            end
        | [] => None
        end
      else
      match args with
      | [x] =>
          if atom_is "c" t then option_map QConst (dec_val x)
          else if atom_is "iter" t then option_map QIter (dec_q x)
          else if atom_is "try" t then option_map (fun a => QTry a None) (dec_q x)
          else if atom_is "arr" t then option_map QArray (dec_q x)
          else if atom_is "break" t then option_map QBreak (dec_name x)
          else if atom_is "var" t then option_map QVar (dec_name x)
          else if atom_is "call0" t then option_map QCall0 (dec_fn0 x)
          else None
      | [x; y] =>
          if atom_is "pipe" t then match dec_q x, dec_q y with Some a, Some b => Some (QPipe a b) | _, _ => None end
          else if atom_is "comma" t then match dec_q x, dec_q y with Some a, Some b => Some (QComma a b) | _, _ => None end
          else if atom_is "alt" t then match dec_q x, dec_q y with Some a, Some b => Some (QAlt a b) | _, _ => None end
          else if atom_is "try" t then match dec_q x, dec_q y with Some a, Some b => Some (QTry a (Some b)) | _, _ => None end
          else if atom_is "index" t then match dec_q x, dec_val y with Some a, Some k => Some (QIndex a k) | _, _ => None end
          else if atom_is "label" t then match dec_name x, dec_q y with Some l, Some b => Some (QLabel l b) | _, _ => None end
          else if atom_is "indexq" t then match dec_q x, dec_q y with Some a, Some b => Some (QIndexQ a b) | _, _ => None end
          (* `if c then a end` (e.Else == nil, also at the end of an elif chain): compileIf emits the then-branch, the
             jump over the (absent) else and nothing more -- the code of `else .`, whose compileQuery appends nothing *)
          else if atom_is "call1" t then (if atom_is "error" x then option_map (QCall1 F1Error) (dec_q y) else None)
          else if atom_is "ifn" t then match dec_q x, dec_q y with Some c, Some a => Some (QIf c a QId) | _, _ => None end
          else None
      | [x; y; z] =>
          if atom_is "if" t then match dec_q x, dec_q y, dec_q z with Some c, Some a, Some b => Some (QIf c a b) | _, _, _ => None end
          else if atom_is "bind" t then match dec_q x, dec_name y, dec_q z with Some s, Some n, Some b => Some (QBind s n b) | _, _, _ => None end
          else if atom_is "binop" t then match dec_binop x, dec_q y, dec_q z with Some o, Some a, Some b => Some (QBinop o a b) | _, _, _ => None end
          else if atom_is "def" t then match dec_name x, dec_q y, dec_q z with Some f, Some b, Some r => Some (QDef f [] b r) | _, _, _ => None end
          else if atom_is "slice" t then match dec_q x, dec_q y, dec_q z with Some a, Some b, Some c => Some (QSlice a b c) | _, _, _ => None end
          else if atom_is "bindp" t then match dec_q x, dec_pat y, dec_q z with Some s, Some p, Some b => Some (QBindP s p b) | _, _, _ => None end
          else None
      | [x; SList ps; z; u] =>
          if atom_is "defp" t then
            match dec_name x,
                  (fix go (l : list sexp) : option (list param) :=
                     match l with [] => Some []
                     | SList [k; n] :: r =>
                         match dec_name n, go r with
                         | Some n, Some ps => if atom_is "pf" k then Some (PF n :: ps) else if atom_is "pv" k then Some (PV n :: ps) else None
                         | _, _ => None end
                     | _ => None end) ps,
                  dec_q z, dec_q u with
            | Some f, Some ps, Some b, Some r => Some (QDef f ps b r)
            | _, _, _, _ => None
            end
          else
          match dec_q x, dec_pat (SList ps), dec_q z, dec_q u with
          | Some s, Some n, Some i, Some up =>
              if atom_is "reduce" t then Some (QReduce s n i up)
              else if atom_is "foreach" t then Some (QForeach s n i up None) else None
          | _, _, _, _ => None
          end
      | [x; y; z; u] =>
          match dec_q x, dec_pn y, dec_q z, dec_q u with
          | Some s, Some n, Some i, Some up =>
              if atom_is "reduce" t then Some (QReduce s n i up)
              else if atom_is "foreach" t then Some (QForeach s n i up None) else None
          | _, _, _, _ => None
          end
      | [x; y; z; u; w] =>
          match dec_q x, dec_pn y, dec_q z, dec_q u, dec_q w with
          | Some s, Some n, Some i, Some up, Some ex =>
              if atom_is "foreach" t then Some (QForeach s n i up (Some ex)) else None
          | _, _, _, _, _ => None
          end
      | _ => None
      end
  | _ => None
  end.

Definition nat_atom (n : nat) : sexp := Atom (print_N (N.of_nat n)).
Definition enc_var (x : var) : list sexp := [nat_atom (fst x); nat_atom (snd x)].
Definition enc_instr (i : instr) : sexp :=
  match i with
  | Inop => A "nop" | Ipush c => SList [A "push"; enc_val c] | Ipop => A "pop" | Idup => A "dup"
  | Iconst c => SList [A "const"; enc_val c]
  | Iload x => SList (A "load" :: enc_var x) | Istore x => SList (A "store" :: enc_var x)
  | Iappend x => SList (A "append" :: enc_var x)
  | Ifork t => SList [A "fork"; nat_atom t] | Iforktrybegin t => SList [A "forktrybegin"; nat_atom t]
  | Iforktryend => A "forktryend" | Iforklabel x => SList (A "forklabel" :: enc_var x)
  | Ibacktrack => A "backtrack" | Ijump t => SList [A "jump"; nat_atom t]
  | Ijumpifnot t => SList [A "jumpifnot"; nat_atom t]
  | Iindex k => SList [A "index"; enc_val k]
  | Icall (NF0 F0Error) => SList [A "call"; A "error"; A "0"]
  | Icall (NF0 F0Length) => SList [A "call"; A "length"; A "0"]
  | Icall (NF0 F0ToString) => SList [A "call"; A "tostring"; A "0"]
  | Icall (NF0 F0ToJson) => SList [A "call"; A "tojson"; A "0"]
  | Icall (NF0 F0ToHtml) => SList [A "call"; A "_tohtml"; A "0"]
  | Icall (NF0 F0ToUri) => SList [A "call"; A "_touri"; A "0"]
  | Icall (NF0 F0ToCsv) => SList [A "call"; A "_tocsv"; A "0"]
  | Icall (NF0 F0ToTsv) => SList [A "call"; A "_totsv"; A "0"]
  | Icall (NF0 F0ToSh) => SList [A "call"; A "_tosh"; A "0"]
  | Icall (NF0 F0ToBase64) => SList [A "call"; A "_tobase64"; A "0"]
  | Icall (NF0 F0Keys) => SList [A "call"; A "keys"; A "0"]
  | Icall (NF0 F0Type) => SList [A "call"; A "type"; A "0"]
  | Icall (NF2 o) => SList [A "call";
        match o with OAdd => A "_add" | OSub => A "_subtract" | OEq => A "_equal" | ONe => A "_notequal"
                   | OLt => A "_less" | OLe => A "_lesseq" | OGt => A "_greater" | OGe => A "_greatereq" end; A "2"]
  | Icall NBreak => SList [A "call"; A "_break"; A "0"]
  | Icall (NF1 F1Error) => SList [A "call"; A "error"; A "1"]
  | Icall NIndex2 => SList [A "call"; A "_index"; A "2"]
  | Icall NSlice3 => SList [A "call"; A "_slice"; A "3"]
  | Iscope id n a => SList [A "scope"; nat_atom id; nat_atom n; nat_atom a]
  | Iret => A "ret" | Iiter => A "iter" | Iexpbegin => A "expbegin" | Iexpend => A "expend"
  | Ipushpc p => SList [A "pushpc"; nat_atom p] | Icallpc => A "callpc"
  | Icallf p => SList [A "call"; nat_atom p] | Icallrec p => SList [A "callrec"; nat_atom p]
  | Iobject n => SList [A "object"; nat_atom n]
  | Iindexarray i => SList [A "indexarray"; SList [A "i"; nat_atom i]]
  end.

Definition sexp_eqb (a b : sexp) : bool := list_N_eqb (print a) (print b).

(* observations *)
Definition enc_end_vm (e : ending) : sexp :=
  match e with
  | End => A "end"
  | Error (VE (EV v)) => SList [A "val"; enc_val v]
  | Error (VE (EM _)) => A "msg"
  | Error (VE (EB _)) => A "brk"
  | Error (VT _) => A "tryend"
  | IsStuck => A "stuck"
  | OutOfFuel => A "fuel"
  end.
Definition enc_end_den (x : option exn) : sexp :=
  match x with
  | None => A "end"
  | Some (XErr (EVal v)) => SList [A "val"; enc_val v]
  | Some (XErr (EMsg _)) => A "msg"
  | Some (XBrk _) => A "brk"
  | Some XFuel => A "denfuel"
  end.
Definition enc_obs (outs : list jv) (e : sexp) : sexp := SList [SList (map enc_val outs); e].

Definition big_fuel : nat := 1000 * 1000.

Definition obs_vm (q : query) (v : jv) : option sexp :=
  match compile q with
  | Some c => let '(o, e) := run cnat c big_fuel (init c v) in Some (enc_obs o (enc_end_vm e))
  | None => None
  end.
Definition obs_vm_raw (q : query) (v : jv) : option sexp :=
  match compile_raw q with
  | Some c => let '(o, e) := run cnat c big_fuel (init c v) in Some (enc_obs o (enc_end_vm e))
  | None => None
  end.
Definition den_fuel : nat := 400.
Definition obs_den (q : query) (v : jv) : sexp :=
  let '(o, x) := den cnat den_fuel q [] v in enc_obs o (enc_end_den x).

Definition bad (what : string) (e : sexp) : sexp := SList [A "bad"; A what; e].

Definition run_sexp (spec : bool) (e : sexp) : sexp :=
  match e with
  | SList [k; ast; SList impl] =>
      if atom_is "code" k then
        match dec_q ast with
        | Some q =>
            match compile q, option_map (fun c => peephole_arr (tailrec c)) (compile_raw q), compile_tco q with
            | Some c, Some c2, Some c3 =>
                        let mine := SList (map enc_instr c) in
                        if negb (match compile_raw_g true q, compile_raw q with
                                 | Some r1, Some r2 => side_okb r1 && side_okb r2 | _, _ => false end)
                        then bad "model-peephole-side-conditions" mine else
                        if negb (sexp_eqb mine (SList (map enc_instr c2))) then bad "model-peephole-variants-differ" mine
                        else if negb (sexp_eqb mine (SList (map enc_instr c3))) then bad "model-tailrec-variants-differ" (SList (map enc_instr c3))
                        else if sexp_eqb mine (SList impl) then A "ok" else bad "code" mine
            | _, _, _ => A "notinfragment"
            end
        | None => A "undecodable"
        end
      else A "undecodable"
  | SList [k; ast; inp; outs; fin] =>
      (* runb: the outputs are those of the program with the jq-defined builtins compiled on demand from builtin.jq; the
         AST is the same program with the definitions written in front of it (harness/c01vm2/builtins.go) *)
      if atom_is "run" k || atom_is "runb" k then
        match dec_q ast, dec_val inp with
        | Some q, Some v =>
            let impl := SList [outs; fin] in
            let d := obs_den q v in
            if spec then (if sexp_eqb d impl then A "ok" else bad "den" d)
            else match obs_vm q v, obs_vm_raw q v with
                 | Some m, Some r =>
                     if negb (sexp_eqb m d) then bad "model-vm-differs-from-den" m
                     else if negb (sexp_eqb r d) then bad "model-rawvm-differs-from-den" r
                     else if sexp_eqb m impl then A "ok" else bad "vm" m
                 | _, _ => A "notinfragment"
                 end
        | _, _ => A "undecodable"
        end
      else A "undecodable"
  | _ => A "undecodable"
  end.

Definition run_line (l : list N) : list N :=
  match parse l with
  | Some (SList [k; e]) => if atom_is "spec" k then print (run_sexp true e) else print (run_sexp false (SList [k; e]))
  | Some e => print (run_sexp false e)
  | None => codes "unparsable"
  end.
