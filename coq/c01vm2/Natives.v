(* C01vm — a concrete instance of the abstract natives, used only by the executable correspondence
   (Run.v).  The theorems hold for every instance.  Integers only, ASCII strings, objects kept
   sorted by key.  Error message texts are not modelled (the property projects them away): every
   message error carries the empty text, and the harness never lets a message become data. *)
From Coq Require Import List NArith ZArith Bool.
From Verif Require Import common.Sexp c01vm2.Syntax c01vm2.Code.
Import ListNotations.

Definition type_ix (v : jv) : nat :=
  match v with
  | VNull => 0 | VBool false => 1 | VBool true => 2 | VNum _ => 3 | VStr _ => 4 | VArr _ => 5 | VObj _ => 6
  end.

Fixpoint keys_cmp (a b : list (list N * jv)) : comparison :=
  match a, b with
  | [], [] => Eq | [], _ => Lt | _, [] => Gt
  | (x, _) :: ra, (y, _) :: rb => match str_cmp x y with Eq => keys_cmp ra rb | c => c end
  end.

(* gojq.Compare *)
Fixpoint jcmp (a b : jv) : comparison :=
  match a, b with
  | VNum x, VNum y => Z.compare x y
  | VStr x, VStr y => str_cmp x y
  | VArr la, VArr lb =>
      (fix go (la lb : list jv) : comparison :=
         match la, lb with
         | [], [] => Eq | [], _ => Lt | _, [] => Gt
         | x :: ra, y :: rb => match jcmp x y with Eq => go ra rb | c => c end
         end) la lb
  | VObj la, VObj lb =>
      match keys_cmp la lb with
      | Eq => (fix go (la lb : list (list N * jv)) : comparison :=
                 match la, lb with
                 | [], [] => Eq | [], _ => Lt | _, [] => Gt
                 | (_, x) :: ra, (_, y) :: rb => match jcmp x y with Eq => go ra rb | c => c end
                 end) la lb
      | c => c
      end
  | _, _ => Nat.compare (type_ix a) (type_ix b)
  end.

Fixpoint obj_get (k : list N) (l : list (list N * jv)) : jv :=
  match l with
  | [] => VNull
  | (k', v) :: r => if str_eqb k k' then v else obj_get k r
  end.
Definition obj_norm (l : list (list N * jv)) : list (list N * jv) :=
  fold_left (fun acc kv => obj_put (fst kv) (snd kv) acc) l [].

Definition merr : err0 := EMsg [].

(* funcSlice on arrays and (ASCII) strings: clampIndex, start from 0 when null, end from the length when null *)
Definition clamp (i mn mx : Z) : Z :=
  let i' := if (i <? 0)%Z then (i + mx)%Z else i in
  if (i' <? mn)%Z then mn else if (i' <? mx)%Z then i' else mx.
Definition c_slice_list {A} (l : list A) (e s : jv) : list A + err0 :=
  let n := Z.of_nat (length l) in
  match (match s with VNull => inl 0%Z | VNum i => inl (clamp i 0 n) | _ => inr merr end) with
  | inl st =>
      match (match e with VNull => inl n | VNum i => inl (clamp i st n) | _ => inr merr end) with
      | inl en => inl (firstn (Z.to_nat (en - st)) (skipn (Z.to_nat st) l))
      | inr x => inr x
      end
  | inr x => inr x
  end.
Definition c_slice (v e s : jv) : jv + err0 :=
  match v with
  | VNull => inl VNull
  | VArr l => match c_slice_list l e s with inl r => inl (VArr r) | inr x => inr x end
  | VStr l => match c_slice_list l e s with inl r => inl (VStr r) | inr x => inr x end
  | _ => inr merr
  end.

Definition c_index (v k : jv) : jv + err0 :=
  match k with
  | VStr s => match v with
              | VNull => inl VNull
              | VObj l => inl (obj_get s l)
              | _ => inr merr end
  | VNum i => match v with
              | VNull => inl VNull
              | VArr l =>
                  let n := Z.of_nat (length l) in
                  let j := if (i <? 0)%Z then (i + n)%Z else i in
                  if ((0 <=? j) && (j <? n))%Z then inl (nth (Z.to_nat j) l VNull) else inl VNull
              | VStr s =>
                  let n := Z.of_nat (length s) in
                  let j := if (i <? 0)%Z then (i + n)%Z else i in
                  if ((0 <=? j) && (j <? n))%Z then inl (VStr [nth (Z.to_nat j) s 0%N]) else inl VNull
              | _ => inr merr end
  | VArr xs =>
      (* funcIndex2 with an array key: the positions at which xs occurs in v (indices) *)
      match v with
      | VNull => inl VNull
      | VArr vs =>
          inl (VArr (match xs with
                     | [] => []
                     | _ => if Nat.ltb (length vs) (length xs) then []
                            else map (fun i => VNum (Z.of_nat i))
                                   (filter (fun i => match jcmp (VArr (firstn (length xs) (skipn i vs))) (VArr xs) with Eq => true | _ => false end)
                                      (seq 0 (S (length vs - length xs))))
                     end))
      | _ => inr merr
      end
  | VObj ks =>
      (* funcIndex2 with a map key: a slice {"start": s, "end": e} *)
      match v with
      | VNull => inl VNull
      | _ => if obj_has [115; 116; 97; 114; 116]%N ks && obj_has [101; 110; 100]%N ks
             then c_slice v (obj_get [101; 110; 100]%N ks) (obj_get [115; 116; 97; 114; 116]%N ks)
             else inr merr
      end
  | _ => inr merr
  end.

Definition c_iter (v : jv) : list jv + err0 :=
  match v with
  | VArr l => inl l
  | VObj l => inl (map snd l)
  | _ => inr merr
  end.

(* compact JSON text (encoding/json's Marshal for the values of the model: integers, ASCII strings in which only the
   quote and the backslash need escaping, sorted keys) *)
Definition json_str (s : list N) : list N :=
  34%N :: flat_map (fun c => if N.eqb c 34 then [92; 34]%N else if N.eqb c 92 then [92; 92]%N else [c]) s ++ [34%N].
Fixpoint to_json (v : jv) : list N :=
  match v with
  | VNull => [110; 117; 108; 108]%N
  | VBool true => [116; 114; 117; 101]%N
  | VBool false => [102; 97; 108; 115; 101]%N
  | VNum z => print_Z z
  | VStr s => json_str s
  | VArr l => 91%N :: (fix go (l : list jv) (first : bool) : list N :=
                         match l with
                         | [] => []
                         | x :: r => (if first then [] else [44%N]) ++ to_json x ++ go r false
                         end) l true ++ [93%N]
  | VObj l => 123%N :: (fix go (l : list (list N * jv)) (first : bool) : list N :=
                          match l with
                          | [] => []
                          | (k, x) :: r => (if first then [] else [44%N]) ++ json_str k ++ 58%N :: to_json x ++ go r false
                          end) l true ++ [125%N]
  end.

(* ---- the formats (func.go funcToHTML, funcToURI, funcToCSV, funcToTSV, funcToSh, funcToBase64) on ASCII strings ---- *)
Definition to_string (v : jv) : list N := match v with VStr s => s | _ => to_json v end.
(* htmlEscaper: the five characters less-than, greater-than, ampersand, apostrophe, double quote *)
Definition html_esc (s : list N) : list N :=
  flat_map (fun c => if N.eqb c 60 then [38; 108; 116; 59]%N else if N.eqb c 62 then [38; 103; 116; 59]%N
                     else if N.eqb c 38 then [38; 97; 109; 112; 59]%N else if N.eqb c 39 then [38; 97; 112; 111; 115; 59]%N
                     else if N.eqb c 34 then [38; 113; 117; 111; 116; 59]%N else [c]) s.
(* url.QueryEscape with the plus sign replaced by %20: everything but A-Z a-z 0-9 - _ . ~ is %XX (upper-case hex) *)
Definition hexd (n : N) : N := if N.ltb n 10 then (48 + n)%N else (55 + n)%N.
Definition uri_unreserved (c : N) : bool :=
  (N.leb 48 c && N.leb c 57) || (N.leb 65 c && N.leb c 90) || (N.leb 97 c && N.leb c 122) ||
  N.eqb c 45 || N.eqb c 95 || N.eqb c 46 || N.eqb c 126.
Definition uri_esc (s : list N) : list N :=
  flat_map (fun c => if uri_unreserved c then [c] else [37%N; hexd (N.div c 16); hexd (N.modulo c 16)]) s.
(* csvEscaper / tsvEscaper / shEscaper *)
Definition csv_esc (s : list N) : list N :=
  34%N :: flat_map (fun c => if N.eqb c 34 then [34; 34]%N else if N.eqb c 0 then [92; 48]%N else [c]) s ++ [34%N].
Definition tsv_esc (s : list N) : list N :=
  flat_map (fun c => if N.eqb c 9 then [92; 116]%N else if N.eqb c 13 then [92; 114]%N else if N.eqb c 10 then [92; 110]%N
                     else if N.eqb c 92 then [92; 92]%N else if N.eqb c 0 then [92; 48]%N else [c]) s.
Definition sh_esc (s : list N) : list N :=
  39%N :: flat_map (fun c => if N.eqb c 39 then [39; 92; 39; 39]%N else if N.eqb c 0 then [92; 48]%N else [c]) s ++ [39%N].
(* formatJoin: the input must be an array of scalars; strings are escaped, other scalars are their JSON text, except
   that null is the empty string (not for @sh) *)
Fixpoint join_sep (sep : list N) (l : list (list N)) : list N :=
  match l with [] => [] | [x] => x | x :: r => x ++ sep ++ join_sep sep r end.
Definition format_join (sh : bool) (sep : list N) (esc : list N -> list N) (v : jv) : jv + err0 :=
  match v with
  | VArr l =>
      match (fix go (l : list jv) : option (list (list N)) :=
               match l with
               | [] => Some []
               | x :: r =>
                   match (match x with
                          | VArr _ | VObj _ => None
                          | VStr s => Some (esc s)
                          | VNull => Some (if sh then to_json VNull else [])
                          | _ => Some (to_json x)
                          end), go r with
                   | Some a, Some b => Some (a :: b)
                   | _, _ => None
                   end
               end) l with
      | Some ss => inl (VStr (join_sep sep ss))
      | None => inr (EMsg [])
      end
  | _ => inr (EMsg [])
  end.
(* base64.StdEncoding *)
Definition b64c (n : N) : N :=
  if N.ltb n 26 then (65 + n)%N else if N.ltb n 52 then (97 + (n - 26))%N else if N.ltb n 62 then (48 + (n - 52))%N
  else if N.eqb n 62 then 43%N else 47%N.
Fixpoint b64 (l : list N) : list N :=
  match l with
  | a :: b :: c :: r =>
      [b64c (N.div a 4); b64c (N.modulo a 4 * 16 + N.div b 16); b64c (N.modulo b 16 * 4 + N.div c 64); b64c (N.modulo c 64)] ++ b64 r
  | [a; b] => [b64c (N.div a 4); b64c (N.modulo a 4 * 16 + N.div b 16); b64c (N.modulo b 16 * 4); 61%N]
  | [a] => [b64c (N.div a 4); b64c (N.modulo a 4 * 16); 61%N; 61%N]
  | [] => []
  end.
Definition type_name (v : jv) : list N :=
  match v with
  | VNull => [110; 117; 108; 108]%N | VBool _ => [98; 111; 111; 108; 101; 97; 110]%N | VNum _ => [110; 117; 109; 98; 101; 114]%N
  | VStr _ => [115; 116; 114; 105; 110; 103]%N | VArr _ => [97; 114; 114; 97; 121]%N | VObj _ => [111; 98; 106; 101; 99; 116]%N
  end.

Definition c_fn0 (f : fn0) (v : jv) : jv + err0 :=
  match f with
  | F0ToHtml => inl (VStr (html_esc (to_string v)))
  | F0ToUri => inl (VStr (uri_esc (to_string v)))
  | F0ToCsv => format_join false [44%N] csv_esc v
  | F0ToTsv => format_join false [9%N] tsv_esc v
  | F0ToSh => format_join true [32%N] sh_esc (match v with VArr _ => v | _ => VArr [v] end)
  | F0ToBase64 => inl (VStr (b64 (to_string v)))
  | F0Keys =>          (* funcKeys: the indices of an array, the sorted keys of an object *)
      match v with
      | VArr l => inl (VArr (map (fun i => VNum (Z.of_nat i)) (seq 0 (length l))))
      | VObj l => inl (VArr (map (fun kv => VStr (fst kv)) l))
      | _ => inr (EMsg [])
      end
  | F0Type => inl (VStr (type_name v))
  | F0Error => inr (EVal v)
  | F0ToString => match v with VStr _ => inl v | _ => inl (VStr (to_json v)) end
  | F0ToJson => inl (VStr (to_json v))
  | F0Length =>
      match v with
      | VNull => inl (VNum 0)
      | VBool _ => inr merr
      | VNum z => inl (VNum (Z.abs z))
      | VStr s => inl (VNum (Z.of_nat (length s)))
      | VArr l => inl (VNum (Z.of_nat (length l)))
      | VObj l => inl (VNum (Z.of_nat (length l)))
      end
  end.

Definition jeqb (a b : jv) : bool := match jcmp a b with Eq => true | _ => false end.

Definition c_fn2 (o : binop) (x l r : jv) : jv + err0 :=
  match o with
  | OAdd =>
      match l, r with
      | VNum a, VNum b => inl (VNum (a + b))
      | VStr a, VStr b => inl (VStr (a ++ b))
      | VArr a, VArr b => inl (VArr (a ++ b))
      | VObj a, VObj b => inl (VObj (fold_left (fun acc kv => obj_put (fst kv) (snd kv) acc) b a))
      | VNull, _ => inl r
      | _, VNull => inl l
      | _, _ => inr merr
      end
  | OSub =>
      match l, r with
      | VNum a, VNum b => inl (VNum (a - b))
      | VArr a, VArr b => inl (VArr (filter (fun x => negb (existsb (jeqb x) b)) a))
      | _, _ => inr merr
      end
  | OEq => inl (VBool (jeqb l r))
  | ONe => inl (VBool (negb (jeqb l r)))
  | OLt => inl (VBool (match jcmp l r with Lt => true | _ => false end))
  | OLe => inl (VBool (match jcmp l r with Gt => false | _ => true end))
  | OGt => inl (VBool (match jcmp l r with Gt => true | _ => false end))
  | OGe => inl (VBool (match jcmp l r with Lt => false | _ => true end))
  end.

(* error(a): funcError(v, [a]) raises a with whatever input (exitCodeError{a, 5}: a ValueError with payload a) *)
Definition c_fn1 (f : fn1) (x a : jv) : jv + err0 := match f with F1Error => inr (EVal a) end.
Definition cnat : natives := {| n_index := c_index; n_iter := c_iter; n_fn0 := c_fn0; n_fn2 := c_fn2; n_slice := c_slice; n_fn1 := c_fn1 |}.
