(* C01vm — a concrete instance of the abstract natives, used only by the executable correspondence
   (Run.v).  The theorems hold for every instance.  Integers only, ASCII strings, objects kept
   sorted by key.  Error message texts are not modelled (the property projects them away): every
   message error carries the empty text, and the harness never lets a message become data. *)
From Coq Require Import List NArith ZArith Bool.
From Verif Require Import c01vm2.Syntax c01vm2.Code.
Import ListNotations.

Fixpoint str_cmp (a b : list N) : comparison :=
  match a, b with
  | [], [] => Eq | [], _ => Lt | _, [] => Gt
  | x :: ra, y :: rb => match N.compare x y with Eq => str_cmp ra rb | c => c end
  end.
Definition str_eqb (a b : list N) : bool := match str_cmp a b with Eq => true | _ => false end.

Definition type_ix (v : jv) : nat :=
  match v with
  | VNull => 0 | VBool false => 1 | VBool true => 2 | VNum _ => 3 | VStr _ => 4 | VArr _ => 5 | VObj _ => 6
  end.

Fixpoint keys_cmp (a b : list (list N * jv)) : comparison :=
  match a, b with
  | [], [] => Eq | [], _ => Lt | _, [] => Gt
  | (x, _) :: ra, (y, _) :: rb => match str_cmp x y with Eq => keys_cmp ra rb | c => c end
  end.

(* gojq.Compare *)
Fixpoint jcmp (a b : jv) : comparison :=
  match a, b with
  | VNum x, VNum y => Z.compare x y
  | VStr x, VStr y => str_cmp x y
  | VArr la, VArr lb =>
      (fix go (la lb : list jv) : comparison :=
         match la, lb with
         | [], [] => Eq | [], _ => Lt | _, [] => Gt
         | x :: ra, y :: rb => match jcmp x y with Eq => go ra rb | c => c end
         end) la lb
  | VObj la, VObj lb =>
      match keys_cmp la lb with
      | Eq => (fix go (la lb : list (list N * jv)) : comparison :=
                 match la, lb with
                 | [], [] => Eq | [], _ => Lt | _, [] => Gt
                 | (_, x) :: ra, (_, y) :: rb => match jcmp x y with Eq => go ra rb | c => c end
                 end) la lb
      | c => c
      end
  | _, _ => Nat.compare (type_ix a) (type_ix b)
  end.

Fixpoint obj_get (k : list N) (l : list (list N * jv)) : jv :=
  match l with
  | [] => VNull
  | (k', v) :: r => if str_eqb k k' then v else obj_get k r
  end.
Fixpoint obj_put (k : list N) (v : jv) (l : list (list N * jv)) : list (list N * jv) :=
  match l with
  | [] => [(k, v)]
  | (k', v') :: r => match str_cmp k k' with
                     | Lt => (k, v) :: l
                     | Eq => (k, v) :: r
                     | Gt => (k', v') :: obj_put k v r
                     end
  end.
Definition obj_norm (l : list (list N * jv)) : list (list N * jv) :=
  fold_left (fun acc kv => obj_put (fst kv) (snd kv) acc) l [].

Definition merr : err0 := EMsg [].

Definition c_index (v k : jv) : jv + err0 :=
  match k with
  | VStr s => match v with
              | VNull => inl VNull
              | VObj l => inl (obj_get s l)
              | _ => inr merr end
  | VNum i => match v with
              | VNull => inl VNull
              | VArr l =>
                  let n := Z.of_nat (length l) in
                  let j := if (i <? 0)%Z then (i + n)%Z else i in
                  if ((0 <=? j) && (j <? n))%Z then inl (nth (Z.to_nat j) l VNull) else inl VNull
              | VStr s =>
                  let n := Z.of_nat (length s) in
                  let j := if (i <? 0)%Z then (i + n)%Z else i in
                  if ((0 <=? j) && (j <? n))%Z then inl (VStr [nth (Z.to_nat j) s 0%N]) else inl VNull
              | _ => inr merr end
  | _ => inr merr
  end.

Definition c_iter (v : jv) : list jv + err0 :=
  match v with
  | VArr l => inl l
  | VObj l => inl (map snd l)
  | _ => inr merr
  end.

Definition c_fn0 (f : fn0) (v : jv) : jv + err0 :=
  match f with
  | F0Error => inr (EVal v)
  | F0Length =>
      match v with
      | VNull => inl (VNum 0)
      | VBool _ => inr merr
      | VNum z => inl (VNum (Z.abs z))
      | VStr s => inl (VNum (Z.of_nat (length s)))
      | VArr l => inl (VNum (Z.of_nat (length l)))
      | VObj l => inl (VNum (Z.of_nat (length l)))
      end
  end.

Definition jeqb (a b : jv) : bool := match jcmp a b with Eq => true | _ => false end.

Definition c_fn2 (o : binop) (x l r : jv) : jv + err0 :=
  match o with
  | OAdd =>
      match l, r with
      | VNum a, VNum b => inl (VNum (a + b))
      | VStr a, VStr b => inl (VStr (a ++ b))
      | VArr a, VArr b => inl (VArr (a ++ b))
      | VObj a, VObj b => inl (VObj (fold_left (fun acc kv => obj_put (fst kv) (snd kv) acc) b a))
      | VNull, _ => inl r
      | _, VNull => inl l
      | _, _ => inr merr
      end
  | OSub =>
      match l, r with
      | VNum a, VNum b => inl (VNum (a - b))
      | VArr a, VArr b => inl (VArr (filter (fun x => negb (existsb (jeqb x) b)) a))
      | _, _ => inr merr
      end
  | OEq => inl (VBool (jeqb l r))
  | ONe => inl (VBool (negb (jeqb l r)))
  | OLt => inl (VBool (match jcmp l r with Lt => true | _ => false end))
  | OLe => inl (VBool (match jcmp l r with Gt => false | _ => true end))
  | OGt => inl (VBool (match jcmp l r with Gt => true | _ => false end))
  | OGe => inl (VBool (match jcmp l r with Lt => false | _ => true end))
  end.

Definition cnat : natives := {| n_index := c_index; n_iter := c_iter; n_fn0 := c_fn0; n_fn2 := c_fn2 |}.
