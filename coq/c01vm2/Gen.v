(* C01vm — proof infrastructure: "state s generates the outputs ws towards (pc', stack, base forks)".
   G c ws T s: from s the machine reaches the exit pc of context c once per element of ws, in order,
   each time with new forks pushed on top of the base forks; backtracking into those forks (after the
   continuation ran and possibly changed variables it owns) resumes the enumeration; an error coming
   from downstream passes through them unchanged; after the last output the tail T describes the
   state.  Stores: a generator writes only the variables it owns and the area above the offset it was
   entered with (frames of the closures it calls); the continuation must preserve the generator's
   variables, the visible ones (kept) and the area between the entry offset and the offset at the emission
   (frames that pending forks of the generator may re-enter). *)
From Coq Require Import List NArith ZArith Bool Arith Lia.
From Verif Require Import c01vm2.Syntax c01vm2.Code c01vm2.VM c01vm2.Den c01vm2.Compile c01vm2.Mach.
Import ListNotations.

Definition chg (P : nat -> Prop) (s s' : list sv) : Prop :=
  length s <= length s' /\ forall i, ~ P i -> nth_error s i = nth_error s' i.
Lemma chg_refl : forall P s, chg P s s.
Proof. split; auto. Qed.
Lemma chg_trans : forall P a b c, chg P a b -> chg P b c -> chg P a c.
Proof. intros P a b c [L1 H1] [L2 H2]. split; [lia|]. intros i Hi. rewrite H1, H2; auto. Qed.
Lemma chg_mono : forall (P P' : nat -> Prop) a b, (forall i, P i -> P' i) -> chg P a b -> chg P' a b.
Proof. intros P P' a b HP [L H]. split; auto. Qed.
Lemma chg_update : forall (P : nat -> Prop) s k v s', update s k v = Some s' -> P k -> chg P s s'.
Proof.
  intros P s k v s' U Hk. destruct (update_spec _ _ _ _ U) as (L & _ & O).
  split; [lia|]. intros i Hi. symmetry. apply O. intro; subst; auto.
Qed.

Record gctx := { g_sc : list frame; g_pc : nat; g_st : list sv; g_base : list fork; g_own : nat -> Prop;
                 g_keep : nat -> Prop; g_keep0 : nat -> Prop; g_ce : cenv; g_n0 : nat; g_off : nat; g_koff : nat;
                 g_ctr : nat }.

(* counters that never decrease: env.label and the ghost push counter *)
Definition cle (n : nat) (g : gx) (n' : nat) (g' : gx) : Prop := n <= n' /\ ctr g <= ctr g'.
Lemma cle_refl : forall n g, cle n g n g.
Proof. split; lia. Qed.
Lemma cle_trans : forall a b c d e f, cle a b c d -> cle c d e f -> cle a b e f.
Proof. unfold cle; intros; lia. Qed.

(* what a continuation promises: the slots in K are not written (the store may grow) *)
Definition keepX (K : nat -> Prop) (s s' : list sv) : Prop :=
  length s <= length s' /\ forall i, K i -> nth_error s i = nth_error s' i.
Lemma keepX_refl : forall K s, keepX K s s.
Proof. split; auto. Qed.
Lemma keepX_mono : forall (K K' : nat -> Prop) s s', (forall i, K' i -> K i) -> keepX K s s' -> keepX K' s s'.
Proof. intros K K' s s' H [L C]. split; auto. Qed.
Lemma keepX_trans : forall K a b c, keepX K a b -> keepX K b c -> keepX K a c.
Proof. intros K a b c [L1 H1] [L2 H2]. split; [lia|]. intros i Hi. rewrite H1, H2; auto. Qed.

(* while the generator has pending forks of its own, the continuation keeps the slots g_keep and the area
   between the keep offset and the offset at the emission (frames of closures that those forks may re-enter) *)
Definition keepS (c : gctx) (o3 : nat) : list sv -> list sv -> Prop :=
  keepX (fun i => g_keep c i \/ g_koff c <= i < o3).
Definition keepK (c : gctx) : list sv -> list sv -> Prop := keepX (g_keep c).
(* after an emission that leaves no fork of the generator behind, the generator is over: the continuation
   only keeps the slots g_keep0 (the frames of the closures the generator called may have been freed and reused) *)
Definition keepK0 (c : gctx) : list sv -> list sv -> Prop := keepX (g_keep0 c).
Definition keepS' (c : gctx) (o3 : nat) (fk' : list fork) : list sv -> list sv -> Prop :=
  match fk' with [] => keepK0 c | _ => keepS c o3 end.
Lemma keepS_K : forall c o s s', keepS c o s s' -> keepK c s s'.
Proof. intros c o s s' [L H]. split; auto. Qed.
Lemma keepK_refl : forall c s, keepK c s s.
Proof. split; auto. Qed.
Lemma keepK0_refl : forall c s, keepK0 c s s.
Proof. split; auto. Qed.
Lemma keepS_refl : forall c o s, keepS c o s s.
Proof. split; auto. Qed.

Definition okerr (n0 : nat) (x : verr) : Prop := match x with VE (EB n) => n < n0 | _ => True end.

(* the address of a variable reference in a scope chain *)
Definition encR (sc : list frame) (ce : cenv) (vs : list sv) (fin : option exn) (e : option verr) : Prop :=
  match fin with
  | None => e = None
  | Some (XErr e0) => e = Some (VE (err_of e0))
  | Some (XBrk l) => exists x k id, lookup l (ce_lbls ce) = Some x /\ index_of sc x = Some k /\
                                    nth_error vs k = Some (SLbl id) /\ e = Some (VE (EB id))
  | Some XFuel => False
  end.

Definition lblOK (sc : list frame) (ce : cenv) (vs : list sv) (n0 : nat) : Prop :=
  forall l x, lookup l (ce_lbls ce) = Some x -> exists k id, index_of sc x = Some k /\ nth_error vs k = Some (SLbl id) /\ id < n0.

(* the slots of all value variables in the compile-time environment, shadowed ones included (a function defined
   while a variable was visible still refers to it after the name has been rebound), and of the visible labels *)
Definition kept (sc : list frame) (ce : cenv) (k : nat) : Prop :=
  (exists x y, (In (x, CV y) (ce_env ce) \/ In (x, CP y) (ce_env ce)) /\ index_of sc y = Some k) \/
  (exists l y, lookup l (ce_lbls ce) = Some y /\ index_of sc y = Some k) \/
  ce_ghost ce k.

Lemma encR_okerr : forall sc ce vs n0 fin x, lblOK sc ce vs n0 -> encR sc ce vs fin (Some x) -> okerr n0 x.
Proof.
  intros sc ce vs n0 fin x HL HE. destruct fin as [[e0|l|]|]; simpl in HE.
  - inversion HE; subst. destruct e0; simpl; auto.
  - destruct HE as (y & k & id & Hk & Hi & Hn & E). inversion E; subst. simpl.
    destruct (HL _ _ Hk) as (k' & id' & Hi' & Hn' & Hlt). congruence.
  - contradiction.
  - discriminate.
Qed.

Lemma encR_stable : forall sc ce vs vs' fin e,
  (forall k, kept sc ce k -> nth_error vs k = nth_error vs' k) -> encR sc ce vs fin e -> encR sc ce vs' fin e.
Proof.
  intros sc ce vs vs' fin e H HE. destruct fin as [[e0|l|]|]; simpl in *; auto.
  destruct HE as (y & k & id & Hk & Hi & Hn & E). exists y, k, id. repeat split; auto.
  rewrite <- H; auto. right. eauto.
Qed.

Section Gen.
Variable nt : natives.
Variable code : list instr.

Notation steps := (steps nt code).

(* T: the state after the enumeration ended by backtracking; Tw: the state when the machine comes back to
   the base forks after a last output that left no fork of the generator behind *)
Fixpoint G2 (c : gctx) (ws : list jv) (T Tw : state -> Prop) (s : state) : Prop :=
  match ws with
  | [] => exists s', steps s s' /\ chg (g_own c) (vars_of s) (vars_of s') /\
                     cle (lbl_of s) (gx_of s) (lbl_of s') (gx_of s') /\ T s'
  | w :: ws' => exists fk' vs3 n3 o3 g3,
       steps s (N (g_sc c) (g_pc c) (SV w :: g_st c) (fk' ++ g_base c) vs3 n3 o3 g3) /\
       chg (g_own c) (vars_of s) vs3 /\ cle (lbl_of s) (gx_of s) n3 g3 /\
       (g_off c <= o3 <= length vs3 /\ Forall (fun f => g_ctr c <= f_ctr f) fk') /\
       match fk' with
       | [] => ws' = [] /\
               forall vs2 n2 g2, keepK0 c vs3 vs2 -> cle n3 g3 n2 g2 -> Tw (B None (g_base c) vs2 n2 g2)
       | _ :: _ =>
           forall vs2 n2 g2, keepS c o3 vs3 vs2 -> cle n3 g3 n2 g2 ->
             G2 c ws' T Tw (B None (fk' ++ g_base c) vs2 n2 g2) /\
             (forall x, okerr (g_n0 c) x -> exists vs4 n4 g4,
                 steps (B (Some x) (fk' ++ g_base c) vs2 n2 g2) (B (Some x) (g_base c) vs4 n4 g4) /\
                 chg (g_own c) vs2 vs4 /\ cle n2 g2 n4 g4)
       end
  end.

Notation G c ws T := (G2 c ws T T).

(* the end of an enumeration: the machine backtracks into the base forks with the error state of fin.  When the
   denotation ran out of fuel nothing is claimed *)
Definition TendX (c : gctx) (fin : option exn) (P : list sv -> nat -> gx -> Prop) (s : state) : Prop :=
  exists e vs n g, steps s (B e (g_base c) vs n g) /\ chg (g_own c) (vars_of s) vs /\
                   cle (lbl_of s) (gx_of s) n g /\ encR (g_sc c) (g_ce c) vs fin e /\ P vs n g.
(* ... out of fuel (lb = the fuel of the denotation): the machine reaches a state in which at least lb frames have
   been pushed since the context was entered (every call of a closure or function costs one unit of fuel and pushes
   one frame, and the ghost counter ctr counts the pushes) -- so it makes at least lb steps *)
Definition Tfuel (lb : nat) (c : gctx) (s : state) : Prop :=
  exists s', steps s s' /\ g_ctr c + lb <= ctr (gx_of s').
Definition Tend (lb : nat) (c : gctx) (fin : option exn) (P : list sv -> nat -> gx -> Prop) (s : state) : Prop :=
  match fin with Some XFuel => Tfuel lb c s | _ => TendX c fin P s end.
Lemma Tend_inv : forall lb c fin P s, Tend lb c fin P s -> (fin = Some XFuel /\ Tfuel lb c s) \/ TendX c fin P s.
Proof. intros lb c [[e0|l|]|] P s H; auto. Qed.
Lemma Tend_of : forall lb c fin P s, TendX c fin P s -> Tend lb c fin P s.
Proof. intros lb c [[e0|l|]|] P s H; simpl; auto. destruct H as (e & vs & n & g & _ & _ & _ & HE & _). simpl in HE. contradiction. Qed.
Lemma Tfuel_mono : forall lb lb' c c' s, g_ctr c' + lb' <= g_ctr c + lb -> Tfuel lb c s -> Tfuel lb' c' s.
Proof. intros lb lb' c c' s H (s' & St & Hc). exists s'. split; [exact St|lia]. Qed.
Lemma Tfuel_pre : forall lb c s s', steps s s' -> Tfuel lb c s' -> Tfuel lb c s.
Proof. intros lb c s s' St (s2 & St2 & Hc). exists s2. split; [eapply steps_trans; eauto|exact Hc]. Qed.
Lemma Tend_fuel : forall lb c P s, Tfuel lb c s -> Tend lb c (Some XFuel) P s.
Proof. intros. exact H. Qed.

Lemma G_pre : forall c ws T Tw s s1,
  steps s s1 -> chg (g_own c) (vars_of s) (vars_of s1) -> cle (lbl_of s) (gx_of s) (lbl_of s1) (gx_of s1) ->
  G2 c ws T Tw s1 -> G2 c ws T Tw s.
Proof.
  intros c ws T Tw s s1 St Ch Le HG. destruct ws; simpl in *.
  - destruct HG as (s' & St' & Ch' & Le' & HT). exists s'.
    split; [eapply steps_trans; eauto|]. split; [eapply chg_trans; eauto|]. split; [eapply cle_trans; eauto|auto].
  - destruct HG as (fk' & vs3 & n3 & o3 & g3 & St' & Ch' & Le' & R). exists fk', vs3, n3, o3, g3.
    split; [eapply steps_trans; eauto|]. split; [eapply chg_trans; eauto|]. split; [eapply cle_trans; eauto|auto].
Qed.

Lemma G2_impl : forall c (T T' Tw Tw' : state -> Prop) ws s,
  (forall s, T s -> T' s) -> (forall s, Tw s -> Tw' s) -> G2 c ws T Tw s -> G2 c ws T' Tw' s.
Proof.
  intros c T T' Tw Tw' ws. induction ws; simpl; intros s HT HTw HG.
  - destruct HG as (s' & ? & ? & ? & ?). exists s'. auto.
  - destruct HG as (fk' & vs3 & n3 & o3 & g3 & St & Ch & Le & Ho & R). exists fk', vs3, n3, o3, g3.
    split; [auto|]. split; [auto|]. split; [auto|]. split; [auto|].
    destruct fk' as [|f0 fk0].
    + destruct R as [E R]. split; auto.
    + intros vs2 n2 g2 K L2. destruct (R vs2 n2 g2 K L2) as [R1 R2]. split; auto.
Qed.
Lemma G_impl : forall c (T T' : state -> Prop) ws s, (forall s, T s -> T' s) -> G c ws T s -> G c ws T' s.
Proof. intros. eapply G2_impl; eauto. Qed.

(* sequencing.  The first enumeration may end with a forkless output only if nothing follows *)
Lemma G_app : forall c ws1 ws2 T s, G2 c ws1 (G2 c ws2 T T) (fun s => ws2 = [] /\ T s) s -> G c (ws1 ++ ws2) T s.
Proof.
  intros c ws1. induction ws1; simpl; intros ws2 T s HG.
  - destruct HG as (s' & St & Ch & Le & H). eapply G_pre; eauto.
  - destruct HG as (fk' & vs3 & n3 & o3 & g3 & St & Ch & Le & Ho & R). exists fk', vs3, n3, o3, g3.
    split; [auto|]. split; [auto|]. split; [auto|]. split; [auto|].
    destruct fk' as [|f0 fk0].
    + destruct R as [E R]. subst ws1. simpl.
      destruct (R vs3 n3 g3 (keepK0_refl _ _) (cle_refl _ _)) as [E2 _]. split; [exact E2|].
      intros vs2 n2 g2 K L2. apply (R vs2 n2 g2 K L2).
    + intros vs2 n2 g2 K L2. destruct (R vs2 n2 g2 K L2) as [R1 R2]. split; auto.
Qed.
Lemma G_app_nil : forall c ws T s, G c [] (G2 c ws T T) s -> G c ws T s.
Proof. intros c ws T s (s' & St & Ch & Le & H). eapply G_pre; eauto. Qed.

(* change of context: the forks fx that lie between the two bases are transparent to errors.  When fx is not
   empty no output in the target context is forkless, so its second tail is arbitrary *)
Lemma G_ctxo : forall cb c fx (Q : list sv -> nat -> gx -> Prop) (T Tw T' Tw' : state -> Prop),
  g_sc cb = g_sc c -> g_pc cb = g_pc c -> g_st cb = g_st c -> g_base cb = fx ++ g_base c ->
  (forall i, g_own cb i -> g_own c i) ->
  (forall o a b, g_off cb <= o -> keepS c o a b -> keepS cb o a b) -> (forall o a b, g_off cb <= o -> keepS' c o fx a b -> keepK0 cb a b) ->
  g_n0 c <= g_n0 cb -> g_off c <= g_off cb -> g_ctr c <= g_ctr cb -> Forall (fun f => g_ctr c <= f_ctr f) fx ->
  (forall a b n g n' g', Q a n g -> chg (g_own cb) a b -> cle n g n' g' -> Q b n' g') ->
  (forall o f a b n g n' g', g_off cb <= o -> Q a n g -> keepS' c o (f ++ fx) a b -> cle n g n' g' -> Q b n' g') ->
  (forall x vs n g, Q vs n g -> okerr (g_n0 c) x -> exists vs4 n4 g4,
      steps (B (Some x) (fx ++ g_base c) vs n g) (B (Some x) (g_base c) vs4 n4 g4) /\ chg (g_own c) vs vs4 /\ cle n g n4 g4) ->
  (forall s, Q (vars_of s) (lbl_of s) (gx_of s) -> T s -> T' s) ->
  (forall s, Q (vars_of s) (lbl_of s) (gx_of s) -> Tw s -> match fx with [] => Tw' s | _ => T' s end) ->
  forall ws s, Q (vars_of s) (lbl_of s) (gx_of s) -> G2 cb ws T Tw s -> G2 c ws T' Tw' s.
Proof.
  intros cb c fx Q T Tw T' Tw' Hsc Hpc Hst Hbase Hown Hkeep HkeepK Hn0 Hoff Hctr Hfx Q1 Q2 Htr Hmap Hmapw.
  induction ws; simpl; intros s HQ HG.
  - destruct HG as (s' & St & Ch & Le & HT). exists s'.
    split; [auto|]. split; [eapply chg_mono; eauto|]. split; [auto|].
    apply Hmap; auto. eapply Q1; eauto.
  - destruct HG as (fk' & vs3 & n3 & o3 & g3 & St & Ch & Le & [Ho Hfk] & R).
    exists (fk' ++ fx), vs3, n3, o3, g3. rewrite <- app_assoc, <- Hbase, <- Hpc, <- Hst, <- Hsc.
    split; [auto|]. split; [eapply chg_mono; eauto|]. split; [auto|].
    split; [split; [lia|]; apply Forall_app; split; [eapply Forall_impl; [|exact Hfk]; simpl; intros; lia|exact Hfx]|].
    assert (HQ3 : Q vs3 n3 g3) by (eapply Q1; [exact HQ|exact Ch|exact Le]).
    destruct fk' as [|f0 fk0].
    + destruct R as [E R]. subst ws. simpl app.
      destruct fx as [|x0 fx0].
      * split; [reflexivity|]. intros vs2 n2 g2 K L2.
        assert (HQ2 : Q vs2 n2 g2) by (eapply (Q2 o3 []); [exact (proj1 Ho)|exact HQ3|exact K|exact L2]).
        simpl in Hbase. rewrite <- Hbase. apply Hmapw; [exact HQ2|]. apply R; [|exact L2]. apply (HkeepK o3 _ _ (proj1 Ho)). exact K.
      * intros vs2 n2 g2 K L2.
        assert (HQ2 : Q vs2 n2 g2) by (eapply (Q2 o3 []); [exact (proj1 Ho)|exact HQ3|exact K|exact L2]).
        split.
        -- simpl. exists (B None (g_base cb) vs2 n2 g2). split; [apply steps_refl|]. split; [apply chg_refl|]. split; [apply cle_refl|].
           apply Hmapw; [exact HQ2|]. apply R; [|exact L2]. apply (HkeepK o3 _ _ (proj1 Ho)). exact K.
        -- intros x Hx. rewrite Hbase. apply Htr; auto.
    + simpl app. intros vs2 n2 g2 K L2.
      assert (HQ2 : Q vs2 n2 g2) by (eapply (Q2 o3 (f0 :: fk0)); [exact (proj1 Ho)|exact HQ3|exact K|exact L2]).
      destruct (R vs2 n2 g2 (Hkeep _ _ _ (proj1 Ho) K) L2) as [R1 R2]. split.
      * apply (IHws (B None ((f0 :: fk0) ++ g_base cb) vs2 n2 g2)); auto.
      * intros x Hx.
        assert (Hx' : okerr (g_n0 cb) x). { destruct x as [[]|]; simpl in *; auto. lia. }
        destruct (R2 x Hx') as (vs4 & n4 & g4 & St4 & Ch4 & Le4).
        assert (HQ4 : Q vs4 n4 g4) by (eapply Q1; eauto).
        rewrite Hbase in St4.
        destruct (Htr x vs4 n4 g4 HQ4 Hx) as (vs5 & n5 & g5 & St5 & Ch5 & Le5).
        exists vs5, n5, g5. rewrite Hbase. split; [exact (steps_trans _ _ _ _ _ St4 St5)|]. split; [|eapply cle_trans; eauto].
        eapply chg_trans; [eapply chg_mono; eauto|auto].
Qed.
Lemma G_ctx : forall cb c fx (Q : list sv -> nat -> gx -> Prop) (T Tw T' Tw' : state -> Prop),
  g_sc cb = g_sc c -> g_pc cb = g_pc c -> g_st cb = g_st c -> g_base cb = fx ++ g_base c ->
  (forall i, g_own cb i -> g_own c i) ->
  (forall o a b, keepS c o a b -> keepS cb o a b) -> (forall o a b, keepS' c o fx a b -> keepK0 cb a b) ->
  g_n0 c <= g_n0 cb -> g_off c <= g_off cb -> g_ctr c <= g_ctr cb -> Forall (fun f => g_ctr c <= f_ctr f) fx ->
  (forall a b n g n' g', Q a n g -> chg (g_own cb) a b -> cle n g n' g' -> Q b n' g') ->
  (forall o f a b n g n' g', g_off cb <= o -> Q a n g -> keepS' c o (f ++ fx) a b -> cle n g n' g' -> Q b n' g') ->
  (forall x vs n g, Q vs n g -> okerr (g_n0 c) x -> exists vs4 n4 g4,
      steps (B (Some x) (fx ++ g_base c) vs n g) (B (Some x) (g_base c) vs4 n4 g4) /\ chg (g_own c) vs vs4 /\ cle n g n4 g4) ->
  (forall s, Q (vars_of s) (lbl_of s) (gx_of s) -> T s -> T' s) ->
  (forall s, Q (vars_of s) (lbl_of s) (gx_of s) -> Tw s -> match fx with [] => Tw' s | _ => T' s end) ->
  forall ws s, Q (vars_of s) (lbl_of s) (gx_of s) -> G2 cb ws T Tw s -> G2 c ws T' Tw' s.
Proof.
  intros cb c fx Q T Tw T' Tw' Hsc Hpc Hst Hbase Hown Hkeep HkeepK Hn0 Hoff Hctr Hfx Q1 Q2 Htr Hmap Hmapw.
  apply (G_ctxo cb c fx Q T Tw T' Tw' Hsc Hpc Hst Hbase Hown (fun o a b _ H => Hkeep o a b H) (fun o a b _ H => HkeepK o a b H)
           Hn0 Hoff Hctr Hfx Q1 Q2 Htr Hmap Hmapw).
Qed.

Lemma encR_some : forall sc ce vs ex e, encR sc ce vs (Some ex) e -> exists y, e = Some y.
Proof. intros sc ce vs [e0|l|] e H; simpl in H; [eauto| |contradiction]. destruct H as (? & ? & ? & ? & ? & ? & ?). eauto. Qed.
Lemma encR_lbls : forall sc ce ce' vs fin e, ce_lbls ce = ce_lbls ce' -> encR sc ce vs fin e -> encR sc ce' vs fin e.
Proof. intros sc ce ce' vs [[e0|l|]|] e H HE; simpl in *; auto. rewrite <- H. auto. Qed.

(* the generic composition: an inner generator (context c1) whose every output starts a body that is
   itself a generator towards the outer exit (context c), with a ghost state g evolving along the way
   and an invariant J g on the store.  Jf g is the part of the invariant that survives a continuation
   that runs after the last fork of the composition is gone *)
Section Fold.
Variable lb : nat.
Variables (c1 c : gctx) (X : Type) (J Jf : X -> list sv -> nat -> gx -> Prop)
          (fb : X -> jv -> list jv * option exn * X)
          (ownb0 : nat -> Prop) (ceb : cenv).
(* the body entered at offset o with push counter t, the inner generator having left the forks fk' behind: it
   writes its lexical slots ownb0 and the area from o on; while fk' is pending even a forkless output of the
   body is followed by a continuation that keeps everything the composition needs *)
Definition cbody (fk' : list fork) (o : nat) (t : nat) : gctx :=
  {| g_sc := g_sc c; g_pc := g_pc c; g_st := g_st c; g_base := fk' ++ g_base c;
     g_own := fun i => ownb0 i \/ o <= i; g_keep := g_keep c;
     g_keep0 := match fk' with [] => g_keep0 c | _ => g_keep c end;
     g_ce := ceb; g_n0 := g_n0 c; g_off := o; g_koff := g_koff c; g_ctr := t |}.
Definition wk (fk' : list fork) (P Pf : list sv -> nat -> gx -> Prop) : list sv -> nat -> gx -> Prop :=
  match fk' with [] => Pf | _ => P end.

Fixpoint foldgen (ws : list jv) (g : X) : list jv * option exn * X :=
  match ws with
  | [] => ([], None, g)
  | w :: r => let '(os, x, g') := fb g w in
      match x with
      | Some e => (os, Some e, g')
      | None => let '(os', x', g'') := foldgen r g' in (os ++ os', x', g'')
      end
  end.

Hypothesis Hsc : g_sc c1 = g_sc c.
Hypothesis Hbase : g_base c1 = g_base c.
Hypothesis Hce : g_ce c1 = g_ce c.
Hypothesis Hn0 : g_n0 c1 = g_n0 c.
Hypothesis Hoff : g_off c1 = g_off c.
Hypothesis Hctr : g_ctr c1 = g_ctr c.
Hypothesis Hkoff1 : g_koff c1 = g_off c.
Hypothesis Hkoff : g_koff c <= g_off c.
Hypothesis Hown1 : forall i, g_own c1 i -> g_own c i.
Hypothesis Hownb0 : forall i, ownb0 i -> g_own c i /\ i < g_off c.
Hypothesis Hoffown : forall i, g_off c <= i -> g_own c i.
Hypothesis Hk1 : forall i, g_keep c1 i -> g_keep c i /\ ~ ownb0 i /\ i < g_off c.
Hypothesis Hk01 : forall i, g_keep0 c1 i -> g_keep0 c i /\ g_keep c i /\ ~ ownb0 i /\ i < g_off c.
Hypothesis Hkept : forall i, kept (g_sc c) (g_ce c) i -> ~ g_own c i.
Hypothesis Hlbls : ce_lbls ceb = ce_lbls (g_ce c).
Hypothesis J1 : forall g a b n x n' x', J g a n x -> chg (g_own c1) a b -> cle n x n' x' -> J g b n' x'.
Hypothesis Jf1 : forall g a b n x n' x', Jf g a n x -> chg (g_own c1) a b -> cle n x n' x' -> Jf g b n' x'.
Hypothesis JJf : forall g a n x, J g a n x -> Jf g a n x.
Hypothesis Jlbl : forall g a n x, J g a n x -> lblOK (g_sc c) (g_ce c) a (g_n0 c).
Hypothesis Hbody : forall w g fk' vs n o x os xx g', J g vs n x -> g_off c <= o <= length vs -> g_ctr c <= ctr x ->
   Forall (fun f => g_ctr c <= f_ctr f) fk' -> fb g w = (os, xx, g') ->
   G (cbody fk' o (ctr x)) os (Tend lb (cbody fk' o (ctr x)) xx (wk fk' (J g') (Jf g')))
     (N (g_sc c) (g_pc c1) (SV w :: g_st c1) (fk' ++ g_base c) vs n o x).

Lemma G_fold : forall ws1 g s fin1 os x g',
  G c1 ws1 (Tend lb c1 fin1 (fun _ _ _ => True)) s -> J g (vars_of s) (lbl_of s) (gx_of s) ->
  g_ctr c <= ctr (gx_of s) ->
  foldgen ws1 g = (os, x, g') ->
  G c os (Tend lb c (match x with Some e => Some e | None => fin1 end) (Jf g')) s.
Proof.
  induction ws1; intros g s fin1 os x g' HG HJ Hcs HF; simpl in HF.
  - inversion HF; subst. simpl in HG. destruct HG as (s' & St & Ch & Le & HT).
    simpl. exists s. split; [constructor|]. split; [apply chg_refl|]. split; [apply cle_refl|].
    destruct (Tend_inv _ _ _ _ _ HT) as [[-> HFu]|(e & vs & n & gg & St2 & Ch2 & Le2 & HE & _)];
      [apply Tend_fuel; eapply Tfuel_pre; [exact St|]; eapply Tfuel_mono; [|exact HFu]; lia|]. apply Tend_of.
    exists e, vs, n, gg. rewrite <- Hbase, <- Hce, <- Hsc.
    assert (C : chg (g_own c1) (vars_of s) vs) by (eapply chg_trans; eauto).
    assert (L : cle (lbl_of s) (gx_of s) n gg) by (eapply cle_trans; eauto).
    split; [eapply steps_trans; eauto|]. split; [exact (chg_mono _ _ _ _ Hown1 C)|]. split; [exact L|]. split; [auto|].
    apply JJf. eapply J1; eauto.
  - simpl in HG. destruct HG as (fk' & vs3 & n3 & o3 & g3 & St & Ch & Le & [Ho Hfk] & R).
    assert (HJ3 : J g vs3 n3 g3) by (eapply J1; eauto).
    rewrite Hbase, Hsc in St. rewrite Hoff in Ho. rewrite Hctr in Hfk. assert (Ho1 : g_off c <= o3) by lia.
    assert (Hc3 : g_ctr c <= ctr g3) by (destruct Le; lia).
    destruct (fb g a) as [[os1 x1] g1] eqn:Efb.
    pose proof (Hbody a g fk' vs3 n3 o3 g3 os1 x1 g1 HJ3 Ho Hc3 Hfk Efb) as Hb.
    set (Q := fun (a : list sv) (n : nat) (gg : gx) => keepS' c1 o3 fk' vs3 a /\ cle n3 g3 n gg).
    assert (Q1 : forall a b n gg n' gg', Q a n gg -> chg (fun i => ownb0 i \/ o3 <= i) a b -> cle n gg n' gg' -> Q b n' gg').
    { intros p q n gg n' gg' [HK Hn] [L' C] Hn'. split; [|eapply cle_trans; eauto].
      destruct fk' as [|f0 fk0]; simpl in *.
      - destruct HK as [L K]. split; [lia|]. intros i Hi. rewrite K by auto. apply C.
        intros [Hb0|Hb1]; [apply Hk01 in Hi; tauto|apply Hk01 in Hi; lia].
      - destruct HK as [L K]. split; [lia|]. intros i Hi. rewrite K by auto. apply C. rewrite Hkoff1 in Hi. intros [Hb0|Hb1].
        + destruct Hi as [Hi|Hi]; [apply Hk1 in Hi; tauto|]. apply Hownb0 in Hb0. lia.
        + destruct Hi as [Hi|Hi]; [apply Hk1 in Hi; lia|lia]. }
    assert (Q2 : forall o f a b n gg n' gg', o3 <= o -> Q a n gg -> keepS' c o (f ++ fk') a b -> cle n gg n' gg' -> Q b n' gg').
    { intros o f p q n gg n' gg' Hoo [HK Hn] HC Hn'. split; [|eapply cle_trans; eauto].
      destruct fk' as [|f0 fk0]; simpl in *.
      - rewrite app_nil_r in HC. destruct HK as [L K]. destruct f as [|f1 f]; simpl in HC; destruct HC as [L' C]; (split; [lia|]);
          intros i Hi; rewrite K by auto; apply C; [apply Hk01; auto|left; apply Hk01; auto].
      - assert (HC' : keepS c o p q) by (destruct f; simpl in HC; exact HC).
        destruct HK as [L K], HC' as [L' C]. split; [lia|].
        intros i Hi. rewrite K by auto. apply C. rewrite Hkoff1 in Hi.
        destruct Hi as [Hi|Hi]; [left; apply Hk1; auto|right; lia]. }
    assert (HQ0 : Q vs3 n3 g3) by (split; [destruct fk'; simpl; [apply keepK0_refl|apply keepS_refl]|apply cle_refl]).
    assert (Hob : forall i, g_own (cbody fk' o3 (ctr g3)) i -> g_own c i).
    { simpl. intros i [Hi|Hi]; [apply Hownb0; auto|apply Hoffown; lia]. }
    assert (Hks : forall o p q, keepS c o p q -> keepS (cbody fk' o3 (ctr g3)) o p q).
    { intros o p q H. exact H. }
    assert (Hk0 : forall o p q, keepS' c o fk' p q -> keepK0 (cbody fk' o3 (ctr g3)) p q).
    { intros o p q H. destruct fk'; simpl in *; [exact H|exact (keepS_K _ _ _ _ H)]. }
    destruct fk' as [|f0 fk0].
    + (* the inner generator is over *)
      destruct R as [E R]. subst ws1. simpl in HF.
      assert (Hfin : forall s1, Q (vars_of s1) (lbl_of s1) (gx_of s1) ->
                Tend lb (cbody [] o3 (ctr g3)) x1 (Jf g1) s1 ->
                Tend lb c (match x1 with Some e => Some e | None => fin1 end) (Jf g1) s1).
      { intros s1 HQ1 HT1. destruct (Tend_inv _ _ _ _ _ HT1) as [[-> HFu]|(e & vs4 & n4 & g4 & St4 & Ch4 & Le4 & HE & HJ4)];
          [apply Tend_fuel; eapply Tfuel_mono; [|exact HFu]; simpl; lia|].
        simpl in St4, Ch4. cbn [cbody g_sc g_ce] in HE.
        apply encR_lbls with (ce' := g_ce c) in HE; auto.
        destruct x1 as [ex|].
        - apply Tend_of. exists e, vs4, n4, g4. split; [exact St4|]. split; [exact (chg_mono _ _ _ _ Hob Ch4)|]. split; [exact Le4|]. split; [exact HE|exact HJ4].
        - simpl in HE. subst e.
          assert (HQ4 : Q vs4 n4 g4) by (eapply Q1; eauto). destruct HQ4 as [K4 Hn4]. simpl in K4.
          destruct (Tend_inv _ _ _ _ _ (R vs4 n4 g4 K4 Hn4)) as [[-> HFu]|(e5 & vs5 & n5 & g5 & St5 & Ch5 & Le5 & HE5 & _)];
            [apply Tend_fuel; eapply Tfuel_pre; [exact St4|]; rewrite Hbase in HFu; eapply Tfuel_mono; [|exact HFu]; lia|].
          simpl in St5, Ch5. rewrite Hbase in St5. apply Tend_of.
          exists e5, vs5, n5, g5. split; [eapply steps_trans; eauto|].
          split; [exact (chg_trans _ _ _ _ (chg_mono _ _ _ _ Hob Ch4) (chg_mono _ _ _ _ Hown1 Ch5))|]. split; [eapply cle_trans; eauto|].
          split; [rewrite <- Hsc, <- Hce; exact HE5|]. eapply Jf1; eauto. }
      assert (HG1 : G c os1 (Tend lb c (match x1 with Some e => Some e | None => fin1 end) (Jf g1))
                      (N (g_sc c) (g_pc c1) (SV a :: g_st c1) ([] ++ g_base c) vs3 n3 o3 g3)).
      { match type of Hb with G2 _ ?o _ _ ?st0 =>
          refine (G_ctx (cbody [] o3 (ctr g3)) c [] Q _ _ _ _ eq_refl eq_refl eq_refl eq_refl Hob Hks Hk0 (le_n _) Ho1 Hc3 Hfk Q1 Q2 _ Hfin Hfin o st0 HQ0 Hb) end.
        intros y vs n gg _ _. exists vs, n, gg. split; [apply steps_refl|]. split; [apply chg_refl|apply cle_refl]. }
      eapply G_pre; [exact St|exact (chg_mono _ _ _ _ Hown1 Ch)|exact Le|].
      destruct x1 as [ex|]; inversion HF; subst; [exact HG1|]. rewrite app_nil_r. exact HG1.
    + assert (Qtr : forall y vs n gg, Q vs n gg -> okerr (g_n0 c) y -> exists vs4 n4 g4,
               steps (B (Some y) ((f0 :: fk0) ++ g_base c) vs n gg) (B (Some y) (g_base c) vs4 n4 g4) /\
               chg (g_own c) vs vs4 /\ cle n gg n4 g4).
      { intros y vs n gg [K Hn] Hy. destruct (R vs n gg K Hn) as [_ R2]. rewrite Hn0 in R2.
        destruct (R2 y Hy) as (vs4 & n4 & g4 & St4 & Ch4 & Le4). rewrite Hbase in St4.
        exists vs4, n4, g4. split; [auto|]. split; [exact (chg_mono _ _ _ _ Hown1 Ch4)|auto]. }
      destruct x1 as [ex|].
      * inversion HF; subst.
        eapply G_pre; [exact St|exact (chg_mono _ _ _ _ Hown1 Ch)|exact Le|].
        assert (Hfin : forall s1, Q (vars_of s1) (lbl_of s1) (gx_of s1) ->
                  Tend lb (cbody (f0 :: fk0) o3 (ctr g3)) (Some ex) (wk (f0 :: fk0) (J g') (Jf g')) s1 -> Tend lb c (Some ex) (Jf g') s1).
        { intros s1 HQ1 HT1. destruct (Tend_inv _ _ _ _ _ HT1) as [[E HFu]|(e & vs4 & n4 & g4 & St4 & Ch4 & Le4 & HE & HJ4)];
            [inversion E; subst ex; apply Tend_fuel; eapply Tfuel_mono; [|exact HFu]; simpl; lia|].
          simpl in St4, Ch4, HJ4. cbn [cbody g_sc g_ce] in HE. apply Tend_of.
          destruct (encR_some _ _ _ _ _ HE) as (y & ->).
          apply encR_lbls with (ce' := g_ce c) in HE; auto.
          assert (Hy : okerr (g_n0 c) y) by (eapply encR_okerr; eauto).
          assert (HQ4 : Q vs4 n4 g4) by (eapply Q1; eauto).
          destruct HQ4 as [K4 Hn4]. simpl in K4. destruct (R vs4 n4 g4 K4 Hn4) as [_ R2]. rewrite Hn0 in R2.
          destruct (R2 y Hy) as (vs5 & n5 & g5 & St5 & Ch5 & Le5). rewrite Hbase in St5.
          exists (Some y), vs5, n5, g5.
          split; [eapply steps_trans; eauto|].
          split; [exact (chg_trans _ _ _ _ (chg_mono _ _ _ _ Hob Ch4) (chg_mono _ _ _ _ Hown1 Ch5))|]. split; [eapply cle_trans; eauto|].
          split; [|apply JJf; eapply J1; eauto].
          eapply encR_stable; [|exact HE]. intros k Hk. apply Ch5. intro Hoo. apply (Hkept k Hk). auto. }
        match type of Hb with G2 _ ?o _ _ ?st0 =>
          refine (G_ctx (cbody (f0 :: fk0) o3 (ctr g3)) c (f0 :: fk0) Q _ _ _ _ eq_refl eq_refl eq_refl eq_refl Hob Hks Hk0 (le_n _) Ho1 Hc3 Hfk Q1 Q2 Qtr Hfin Hfin o st0 HQ0 Hb) end.
      * destruct (foldgen ws1 g1) as [[os2 x2] g2] eqn:Efg. inversion HF; subst.
        eapply G_pre; [exact St|exact (chg_mono _ _ _ _ Hown1 Ch)|exact Le|].
        apply G_app.
        assert (Hfin : forall s1, Q (vars_of s1) (lbl_of s1) (gx_of s1) ->
                  Tend lb (cbody (f0 :: fk0) o3 (ctr g3)) None (wk (f0 :: fk0) (J g1) (Jf g1)) s1 ->
                  G c os2 (Tend lb c (match x with Some e => Some e | None => fin1 end) (Jf g')) s1).
        { intros s1 HQ1 HT1. destruct (Tend_inv _ _ _ _ _ HT1) as [[E _]|(e & vs4 & n4 & g4 & St4 & Ch4 & Le4 & HE & HJ4)]; [discriminate E|].
          simpl in St4, Ch4, HE, HJ4. subst e.
          assert (HQ4 : Q vs4 n4 g4) by (eapply Q1; eauto).
          destruct HQ4 as [K4 Hn4]. simpl in K4. destruct (R vs4 n4 g4 K4 Hn4) as [R1 _]. rewrite Hbase in R1.
          eapply G_pre; [exact St4|exact (chg_mono _ _ _ _ Hob Ch4)|exact Le4|].
          eapply IHws1; eauto. simpl. destruct Hn4, Le; lia. }
        match type of Hb with G2 _ ?o _ _ ?st0 =>
          refine (G_ctx (cbody (f0 :: fk0) o3 (ctr g3)) c (f0 :: fk0) Q _ _ _ _ eq_refl eq_refl eq_refl eq_refl Hob Hks Hk0 (le_n _) Ho1 Hc3 Hfk Q1 Q2 Qtr Hfin Hfin o st0 HQ0 Hb) end.
Qed.
End Fold.

(* the same composition with the body contexts as a parameter: the inner generator may live in another scope chain
   than the one the composition delivers to (a query in tail position of a function: the inner generator runs in
   the function's frame, the bodies deliver to the function's caller) *)
Section FoldG.
Variable lb : nat.
Variables (c1 c : gctx) (X : Type) (J Jf : X -> list sv -> nat -> gx -> Prop)
          (fb : X -> jv -> list jv * option exn * X)
          (cb : list fork -> nat -> nat -> gctx).
Hypothesis Hbase : g_base c1 = g_base c.
Hypothesis Henc1 : forall vs fin e, encR (g_sc c1) (g_ce c1) vs fin e -> encR (g_sc c) (g_ce c) vs fin e.
Hypothesis Hn0 : g_n0 c1 = g_n0 c.
Hypothesis Hoff : g_off c <= g_off c1.
Hypothesis Hctr : g_ctr c <= g_ctr c1.
Hypothesis Hown1 : forall i, g_own c1 i -> g_own c i.
Hypothesis Cb_sc : forall fk' o t, g_sc (cb fk' o t) = g_sc c.
Hypothesis Cb_pc : forall fk' o t, g_pc (cb fk' o t) = g_pc c.
Hypothesis Cb_st : forall fk' o t, g_st (cb fk' o t) = g_st c.
Hypothesis Cb_base : forall fk' o t, g_base (cb fk' o t) = fk' ++ g_base c.
Hypothesis Cb_own : forall fk' o t i, g_off c1 <= o -> g_own (cb fk' o t) i -> g_own c i.
Hypothesis Cb_ks : forall fk' o t o' a b, g_off c1 <= o -> g_off (cb fk' o t) <= o' -> keepS c o' a b -> keepS (cb fk' o t) o' a b.
Hypothesis Cb_k0 : forall fk' o t o' a b, g_off c1 <= o -> g_off (cb fk' o t) <= o' -> keepS' c o' fk' a b -> keepK0 (cb fk' o t) a b.
Hypothesis Cb_n0 : forall fk' o t, g_n0 c <= g_n0 (cb fk' o t).
Hypothesis Cb_off : forall fk' o t, g_off c1 <= o -> g_off c <= g_off (cb fk' o t).
Hypothesis Cb_ctr : forall fk' o t, g_ctr (cb fk' o t) = t.
Hypothesis Cb_enc : forall fk' o t vs fin e, encR (g_sc (cb fk' o t)) (g_ce (cb fk' o t)) vs fin e -> encR (g_sc c) (g_ce c) vs fin e.
Hypothesis Cb_q1 : forall fk' o3 t a b x, g_off c1 <= o3 -> keepS' c1 o3 fk' x a -> chg (g_own (cb fk' o3 t)) a b -> keepS' c1 o3 fk' x b.
Hypothesis Cb_q2 : forall fk' o3 t o f a b x, g_off c1 <= o3 -> g_off (cb fk' o3 t) <= o ->
   keepS' c1 o3 fk' x a -> keepS' c o (f ++ fk') a b -> keepS' c1 o3 fk' x b.
Hypothesis Hkept : forall i, kept (g_sc c) (g_ce c) i -> ~ g_own c1 i.
Hypothesis J1 : forall g a b n x n' x', J g a n x -> chg (g_own c1) a b -> cle n x n' x' -> J g b n' x'.
Hypothesis Jf1 : forall g a b n x n' x', Jf g a n x -> chg (g_own c1) a b -> cle n x n' x' -> Jf g b n' x'.
Hypothesis JJf : forall g a n x, J g a n x -> Jf g a n x.
Hypothesis Jlbl : forall g a n x fk' o t, J g a n x -> lblOK (g_sc (cb fk' o t)) (g_ce (cb fk' o t)) a (g_n0 c).
Hypothesis Hbody : forall w g fk' vs n o x os xx g', J g vs n x -> g_off c1 <= o <= length vs -> g_ctr c1 <= ctr x ->
   Forall (fun f => g_ctr c1 <= f_ctr f) fk' -> fb g w = (os, xx, g') ->
   G (cb fk' o (ctr x)) os (Tend lb (cb fk' o (ctr x)) xx (wk fk' (J g') (Jf g')))
     (N (g_sc c1) (g_pc c1) (SV w :: g_st c1) (fk' ++ g_base c) vs n o x).

Lemma G_foldG : forall ws1 g s fin1 os x g',
  G c1 ws1 (Tend lb c1 fin1 (fun _ _ _ => True)) s -> J g (vars_of s) (lbl_of s) (gx_of s) ->
  g_ctr c1 <= ctr (gx_of s) ->
  foldgen X fb ws1 g = (os, x, g') ->
  G c os (Tend lb c (match x with Some e => Some e | None => fin1 end) (Jf g')) s.
Proof.
  induction ws1; intros g s fin1 os x g' HG HJ Hcs HF; simpl in HF.
  - inversion HF; subst. simpl in HG. destruct HG as (s' & St & Ch & Le & HT).
    simpl. exists s. split; [constructor|]. split; [apply chg_refl|]. split; [apply cle_refl|].
    destruct (Tend_inv _ _ _ _ _ HT) as [[-> HFu]|(e & vs & n & gg & St2 & Ch2 & Le2 & HE & _)];
      [apply Tend_fuel; eapply Tfuel_pre; [exact St|]; eapply Tfuel_mono; [|exact HFu]; lia|]. apply Tend_of.
    exists e, vs, n, gg. rewrite <- Hbase.
    assert (C : chg (g_own c1) (vars_of s) vs) by (eapply chg_trans; eauto).
    assert (L : cle (lbl_of s) (gx_of s) n gg) by (eapply cle_trans; eauto).
    split; [eapply steps_trans; eauto|]. split; [exact (chg_mono _ _ _ _ Hown1 C)|]. split; [exact L|]. split; [auto|].
    apply JJf. eapply J1; eauto.
  - simpl in HG. destruct HG as (fk' & vs3 & n3 & o3 & g3 & St & Ch & Le & [Ho Hfk] & R).
    assert (HJ3 : J g vs3 n3 g3) by (eapply J1; eauto).
    rewrite Hbase in St. assert (Ho1 : g_off c <= o3) by lia.
    assert (Hc31 : g_ctr c1 <= ctr g3) by (destruct Le; lia).
    assert (Hc3 : g_ctr c <= ctr g3) by lia.
    assert (Hfkc : Forall (fun f => g_ctr c <= f_ctr f) fk') by (eapply Forall_impl; [|exact Hfk]; simpl; intros; lia).
    destruct (fb g a) as [[os1 x1] g1] eqn:Efb.
    pose proof (Hbody a g fk' vs3 n3 o3 g3 os1 x1 g1 HJ3 Ho Hc31 Hfk Efb) as Hb.
    set (cbb := cb fk' o3 (ctr g3)) in *.
    set (Q := fun (a : list sv) (n : nat) (gg : gx) => keepS' c1 o3 fk' vs3 a /\ cle n3 g3 n gg).
    assert (Q1 : forall a b n gg n' gg', Q a n gg -> chg (g_own cbb) a b -> cle n gg n' gg' -> Q b n' gg').
    { intros p q n gg n' gg' [HK Hn] C Hn'. split; [|eapply cle_trans; eauto]. eapply Cb_q1; [exact (proj1 Ho)|exact HK|exact C]. }
    assert (Q2 : forall o f a b n gg n' gg', g_off cbb <= o -> Q a n gg -> keepS' c o (f ++ fk') a b -> cle n gg n' gg' -> Q b n' gg').
    { intros o f p q n gg n' gg' Hoo [HK Hn] HC Hn'. split; [|eapply cle_trans; eauto]. eapply Cb_q2; [exact (proj1 Ho)|exact Hoo|exact HK|exact HC]. }
    assert (HQ0 : Q vs3 n3 g3) by (split; [destruct fk'; simpl; [apply keepK0_refl|apply keepS_refl]|apply cle_refl]).
    assert (Hob : forall i, g_own cbb i -> g_own c i) by (intros i; apply Cb_own; exact (proj1 Ho)).
    assert (Hks : forall o p q, g_off cbb <= o -> keepS c o p q -> keepS cbb o p q) by (intros o p q Hoo H; apply Cb_ks; [exact (proj1 Ho)|exact Hoo|exact H]).
    assert (Hk0 : forall o p q, g_off cbb <= o -> keepS' c o fk' p q -> keepK0 cbb p q) by (intros o p q Hoo H; eapply Cb_k0; [exact (proj1 Ho)|exact Hoo|exact H]).
    assert (Hcb3 : g_ctr c <= g_ctr cbb) by (unfold cbb; rewrite Cb_ctr; exact Hc3).
    assert (Hbb : g_base cbb = fk' ++ g_base c) by apply Cb_base.
    destruct fk' as [|f0 fk0].
    + (* the inner generator is over *)
      destruct R as [E R]. subst ws1. simpl in HF.
      assert (Hfin : forall s1, Q (vars_of s1) (lbl_of s1) (gx_of s1) ->
                Tend lb cbb x1 (Jf g1) s1 ->
                Tend lb c (match x1 with Some e => Some e | None => fin1 end) (Jf g1) s1).
      { intros s1 HQ1 HT1. destruct (Tend_inv _ _ _ _ _ HT1) as [[-> HFu]|(e & vs4 & n4 & g4 & St4 & Ch4 & Le4 & HE & HJ4)];
          [apply Tend_fuel; eapply Tfuel_mono; [|exact HFu]; lia|].
        rewrite Hbb in St4. simpl in St4. apply Cb_enc in HE.
        destruct x1 as [ex|].
        - apply Tend_of. exists e, vs4, n4, g4. split; [exact St4|]. split; [exact (chg_mono _ _ _ _ Hob Ch4)|]. split; [exact Le4|]. split; [exact HE|exact HJ4].
        - simpl in HE. subst e.
          assert (HQ4 : Q vs4 n4 g4) by (eapply Q1; eauto). destruct HQ4 as [K4 Hn4]. simpl in K4.
          destruct (Tend_inv _ _ _ _ _ (R vs4 n4 g4 K4 Hn4)) as [[-> HFu]|(e5 & vs5 & n5 & g5 & St5 & Ch5 & Le5 & HE5 & _)];
            [apply Tend_fuel; eapply Tfuel_pre; [exact St4|]; rewrite Hbase in HFu; eapply Tfuel_mono; [|exact HFu]; lia|].
          simpl in St5, Ch5. rewrite Hbase in St5. apply Tend_of.
          exists e5, vs5, n5, g5. split; [eapply steps_trans; eauto|].
          split; [exact (chg_trans _ _ _ _ (chg_mono _ _ _ _ Hob Ch4) (chg_mono _ _ _ _ Hown1 Ch5))|]. split; [eapply cle_trans; eauto|].
          split; [apply Henc1; exact HE5|]. eapply Jf1; eauto. }
      assert (HG1 : G c os1 (Tend lb c (match x1 with Some e => Some e | None => fin1 end) (Jf g1))
                      (N (g_sc c1) (g_pc c1) (SV a :: g_st c1) ([] ++ g_base c) vs3 n3 o3 g3)).
      { match type of Hb with G2 _ ?o _ _ ?st0 =>
          refine (G_ctxo cbb c [] Q _ _ _ _ (Cb_sc _ _ _) (Cb_pc _ _ _) (Cb_st _ _ _) Hbb Hob Hks Hk0 (Cb_n0 _ _ _) (Cb_off _ _ _ (proj1 Ho)) Hcb3 Hfkc Q1 Q2 _ Hfin Hfin o st0 HQ0 Hb) end.
        intros y vs n gg _ _. exists vs, n, gg. split; [apply steps_refl|]. split; [apply chg_refl|apply cle_refl]. }
      eapply G_pre; [exact St|exact (chg_mono _ _ _ _ Hown1 Ch)|exact Le|].
      destruct x1 as [ex|]; inversion HF; subst; [exact HG1|]. rewrite app_nil_r. exact HG1.
    + assert (Qtr : forall y vs n gg, Q vs n gg -> okerr (g_n0 c) y -> exists vs4 n4 g4,
               steps (B (Some y) ((f0 :: fk0) ++ g_base c) vs n gg) (B (Some y) (g_base c) vs4 n4 g4) /\
               chg (g_own c) vs vs4 /\ cle n gg n4 g4).
      { intros y vs n gg [K Hn] Hy. destruct (R vs n gg K Hn) as [_ R2]. rewrite Hn0 in R2.
        destruct (R2 y Hy) as (vs4 & n4 & g4 & St4 & Ch4 & Le4). rewrite Hbase in St4.
        exists vs4, n4, g4. split; [auto|]. split; [exact (chg_mono _ _ _ _ Hown1 Ch4)|auto]. }
      destruct x1 as [ex|].
      * inversion HF; subst.
        eapply G_pre; [exact St|exact (chg_mono _ _ _ _ Hown1 Ch)|exact Le|].
        assert (Hfin : forall s1, Q (vars_of s1) (lbl_of s1) (gx_of s1) ->
                  Tend lb cbb (Some ex) (wk (f0 :: fk0) (J g') (Jf g')) s1 -> Tend lb c (Some ex) (Jf g') s1).
        { intros s1 HQ1 HT1. destruct (Tend_inv _ _ _ _ _ HT1) as [[E HFu]|(e & vs4 & n4 & g4 & St4 & Ch4 & Le4 & HE & HJ4)];
            [inversion E; subst ex; apply Tend_fuel; eapply Tfuel_mono; [|exact HFu]; lia|].
          rewrite Hbb in St4. simpl in HJ4.
          destruct (encR_some _ _ _ _ _ HE) as (y & ->).
          assert (Hy : okerr (g_n0 c) y) by (eapply encR_okerr; [eapply Jlbl; exact HJ4|exact HE]).
          apply Cb_enc in HE. apply Tend_of.
          assert (HQ4 : Q vs4 n4 g4) by (eapply Q1; eauto).
          destruct HQ4 as [K4 Hn4]. simpl in K4. destruct (R vs4 n4 g4 K4 Hn4) as [_ R2]. rewrite Hn0 in R2.
          destruct (R2 y Hy) as (vs5 & n5 & g5 & St5 & Ch5 & Le5). rewrite Hbase in St5.
          exists (Some y), vs5, n5, g5.
          split; [eapply steps_trans; eauto|].
          split; [exact (chg_trans _ _ _ _ (chg_mono _ _ _ _ Hob Ch4) (chg_mono _ _ _ _ Hown1 Ch5))|]. split; [eapply cle_trans; eauto|].
          split; [|apply JJf; eapply J1; eauto].
          eapply encR_stable; [|exact HE]. intros k Hk. apply Ch5. apply Hkept. exact Hk. }
        match type of Hb with G2 _ ?o _ _ ?st0 =>
          refine (G_ctxo cbb c (f0 :: fk0) Q _ _ _ _ (Cb_sc _ _ _) (Cb_pc _ _ _) (Cb_st _ _ _) Hbb Hob Hks Hk0 (Cb_n0 _ _ _) (Cb_off _ _ _ (proj1 Ho)) Hcb3 Hfkc Q1 Q2 Qtr Hfin Hfin o st0 HQ0 Hb) end.
      * destruct (foldgen X fb ws1 g1) as [[os2 x2] g2] eqn:Efg. inversion HF; subst.
        eapply G_pre; [exact St|exact (chg_mono _ _ _ _ Hown1 Ch)|exact Le|].
        apply G_app.
        assert (Hfin : forall s1, Q (vars_of s1) (lbl_of s1) (gx_of s1) ->
                  Tend lb cbb None (wk (f0 :: fk0) (J g1) (Jf g1)) s1 ->
                  G c os2 (Tend lb c (match x with Some e => Some e | None => fin1 end) (Jf g')) s1).
        { intros s1 HQ1 HT1. destruct (Tend_inv _ _ _ _ _ HT1) as [[E _]|(e & vs4 & n4 & g4 & St4 & Ch4 & Le4 & HE & HJ4)]; [discriminate E|].
          rewrite Hbb in St4. simpl in HE, HJ4. subst e.
          assert (HQ4 : Q vs4 n4 g4) by (eapply Q1; eauto).
          destruct HQ4 as [K4 Hn4]. simpl in K4. destruct (R vs4 n4 g4 K4 Hn4) as [R1 _]. rewrite Hbase in R1.
          eapply G_pre; [exact St4|exact (chg_mono _ _ _ _ Hob Ch4)|exact Le4|].
          eapply IHws1; eauto. simpl. destruct Hn4, Le; lia. }
        match type of Hb with G2 _ ?o _ _ ?st0 =>
          refine (G_ctxo cbb c (f0 :: fk0) Q _ _ _ _ (Cb_sc _ _ _) (Cb_pc _ _ _) (Cb_st _ _ _) Hbb Hob Hks Hk0 (Cb_n0 _ _ _) (Cb_off _ _ _ (proj1 Ho)) Hcb3 Hfkc Q1 Q2 Qtr Hfin Hfin o st0 HQ0 Hb) end.
Qed.
End FoldG.

End Gen.
