(* C01vm — proof infrastructure: machine reachability and one lemma per opcode. *)
From Coq Require Import List NArith ZArith Bool Arith Lia.
From Verif Require Import c01vm2.Syntax c01vm2.Code c01vm2.VM c01vm2.Den c01vm2.Compile.
Import ListNotations.

Lemma update_some : forall {A} (l : list A) k a, k < length l -> exists l', update l k a = Some l'.
Proof.
  induction l; intros k x Hk; simpl in *; [lia|].
  destruct k; [eauto|]. destruct (IHl k x) as [l' E]; [lia|]. rewrite E. eauto.
Qed.
Lemma update_spec : forall {A} (l : list A) k a l', update l k a = Some l' ->
  length l' = length l /\ nth_error l' k = Some a /\ forall j, j <> k -> nth_error l' j = nth_error l j.
Proof.
  induction l; intros k x l' H; simpl in *; [discriminate|].
  destruct k.
  - inversion H; subst. repeat split; auto. intros [|j] Hj; [congruence|reflexivity].
  - destruct (update l k x) eqn:E; [|discriminate]. inversion H; subst.
    destruct (IHl _ _ _ E) as (L & Nk & O). repeat split; simpl; auto.
    intros [|j] Hj; [reflexivity|]. apply O. congruence.
Qed.

(* the stack built by the entries of an object already evaluated (the last value on top) *)
Definition stk_of (acc : list (jv * jv)) : list sv := flat_map (fun kv => [SV (snd kv); SV (fst kv)]) (rev acc).
Lemma stk_of_snoc : forall acc k v, stk_of (acc ++ [(k, v)]) = SV v :: SV k :: stk_of acc.
Proof. intros. unfold stk_of. rewrite rev_app_distr. reflexivity. Qed.
Lemma take_pairs_stk : forall a r b, take_pairs (length a) (stk_of a ++ r) b = Some (a ++ b, r).
Proof.
  induction a as [|[k v] a IH] using rev_ind; intros r b; [reflexivity|].
  rewrite stk_of_snoc, app_length. simpl length. rewrite Nat.add_1_r. cbn [take_pairs app].
  rewrite IH, <- app_assoc. reflexivity.
Qed.

Section Mach.
Variable nt : natives.
Variable code : list instr.

Definition mk (sc : list frame) (st : list sv) (fk : list fork) (vs : list sv) (l o : nat) (g : gx) : mem :=
  {| stk := st; scopes := sc; forks := fk; vars := vs; lbl := l; offset := o; gxs := g |}.
Definition N (sc : list frame) (pc : nat) (st : list sv) (fk : list fork) (vs : list sv) (l o : nat) (g : gx) : state :=
  Run pc false None (mk sc st fk vs l o g).
Definition B (e : option verr) (fk : list fork) (vs : list sv) (l : nat) (g : gx) : state := Brk e fk vs l g.
Definition F (sc : list frame) (pc : nat) (st : list sv) (o t : nat) : fork :=
  {| f_pc := pc; f_stk := st; f_scopes := sc; f_off := o; f_ctr := t |}.

Definition vars_of (s : state) : list sv := match s with Run _ _ _ m => vars m | Brk _ _ v _ _ => v end.
Definition lbl_of (s : state) : nat := match s with Run _ _ _ m => lbl m | Brk _ _ _ l _ => l end.
Definition gx_of (s : state) : gx := match s with Run _ _ _ m => gxs m | Brk _ _ _ _ g => g end.

Inductive steps : state -> state -> Prop :=
| steps_refl : forall s, steps s s
| steps_step : forall s s' s'', step nt code s = Next s' -> steps s' s'' -> steps s s''.

Lemma steps_trans : forall a b c, steps a b -> steps b c -> steps a c.
Proof. induction 1; intros; auto. econstructor; eauto. Qed.
Lemma steps_one : forall a b, step nt code a = Next b -> steps a b.
Proof. intros. econstructor; eauto. constructor. Qed.

Definition at_ (pc : nat) (i : instr) : Prop := nth_error code pc = Some i.

Ltac stp H := unfold N, B, mk, at_ in *; cbn [step]; rewrite H; cbn; try reflexivity.

Section Fr.
Variable sc : list frame.
Notation N := (N sc).
Notation F := (F sc).

Lemma st_nop : forall pc st fk vs l o g, at_ pc Inop -> step nt code (N pc st fk vs l o g) = Next (N (S pc) st fk vs l o g).
Proof. intros. stp H. Qed.
Lemma st_expbegin : forall pc st fk vs l o g, at_ pc Iexpbegin -> step nt code (N pc st fk vs l o g) = Next (N (S pc) st fk vs l o g).
Proof. intros. stp H. Qed.
Lemma st_expend : forall pc st fk vs l o g, at_ pc Iexpend -> step nt code (N pc st fk vs l o g) = Next (N (S pc) st fk vs l o g).
Proof. intros. stp H. Qed.
Lemma st_push : forall pc c st fk vs l o g, at_ pc (Ipush c) ->
  step nt code (N pc st fk vs l o g) = Next (N (S pc) (SV c :: st) fk vs l o g).
Proof. intros. stp H. Qed.
Lemma st_pop : forall pc x st fk vs l o g, at_ pc Ipop ->
  step nt code (N pc (x :: st) fk vs l o g) = Next (N (S pc) st fk vs l o g).
Proof. intros. stp H. Qed.
Lemma st_dup : forall pc x st fk vs l o g, at_ pc Idup ->
  step nt code (N pc (x :: st) fk vs l o g) = Next (N (S pc) (x :: x :: st) fk vs l o g).
Proof. intros. stp H. Qed.
Lemma st_const : forall pc c x st fk vs l o g, at_ pc (Iconst c) ->
  step nt code (N pc (x :: st) fk vs l o g) = Next (N (S pc) (SV c :: st) fk vs l o g).
Proof. intros. stp H. Qed.
Lemma st_load : forall pc y k x st fk vs l o g, at_ pc (Iload y) -> index_of sc y = Some k -> nth_error vs k = Some x ->
  step nt code (N pc st fk vs l o g) = Next (N (S pc) (x :: st) fk vs l o g).
Proof. intros. stp H. rewrite H0. cbn. rewrite H1. reflexivity. Qed.
Lemma st_store : forall pc y k x st fk vs vs' l o g, at_ pc (Istore y) -> index_of sc y = Some k -> update vs k x = Some vs' ->
  step nt code (N pc (x :: st) fk vs l o g) = Next (N (S pc) st fk vs' l o g).
Proof. intros. stp H. rewrite H0. cbn. rewrite H1. reflexivity. Qed.
Lemma st_append : forall pc y k x a st fk vs vs' l o g, at_ pc (Iappend y) -> index_of sc y = Some k ->
  nth_error vs k = Some (SV (VArr a)) -> update vs k (SV (VArr (a ++ [x]))) = Some vs' ->
  step nt code (N pc (SV x :: st) fk vs l o g) = Next (N (S pc) st fk vs' l o g).
Proof. intros. stp H. rewrite H0. cbn. rewrite H1, H2. reflexivity. Qed.
Lemma st_jump : forall pc t st fk vs l o g, at_ pc (Ijump t) ->
  step nt code (N pc st fk vs l o g) = Next (N t st fk vs l o g).
Proof. intros. stp H. Qed.
Lemma st_jumpifnot : forall pc t v st fk vs l o g, at_ pc (Ijumpifnot t) ->
  step nt code (N pc (SV v :: st) fk vs l o g) = Next (N (if truthy v then S pc else t) st fk vs l o g).
Proof. intros. stp H. destruct v as [| [] | | | |]; reflexivity. Qed.
Lemma st_backtrack : forall pc st fk vs l o g, at_ pc Ibacktrack ->
  step nt code (N pc st fk vs l o g) = Next (B None fk vs l g).
Proof. intros. stp H. Qed.
Lemma st_fork : forall pc t st fk vs l o g, at_ pc (Ifork t) ->
  step nt code (N pc st fk vs l o g) = Next (N (S pc) st (F pc st o (ctr g) :: fk) vs l o g).
Proof. intros. stp H. Qed.
Lemma st_forktrybegin : forall pc t st fk vs l o g, at_ pc (Iforktrybegin t) ->
  step nt code (N pc st fk vs l o g) = Next (N (S pc) st (F pc st o (ctr g) :: fk) vs l o g).
Proof. intros. stp H. Qed.
Lemma st_forktryend : forall pc st fk vs l o g, at_ pc Iforktryend ->
  step nt code (N pc st fk vs l o g) = Next (N (S pc) st (F pc st o (ctr g) :: fk) vs l o g).
Proof. intros. stp H. Qed.
Lemma st_forklabel : forall pc y k st fk vs vs' l o g, at_ pc (Iforklabel y) -> index_of sc y = Some k ->
  update vs k (SLbl l) = Some vs' ->
  step nt code (N pc st fk vs l o g) = Next (N (S pc) st (F pc (SLbl l :: st) o (ctr g) :: fk) vs' (S l) o g).
Proof. intros. stp H. rewrite H0. cbn. rewrite H1. reflexivity. Qed.
Lemma st_index_ok : forall pc k v w st fk vs l o g, at_ pc (Iindex k) -> n_index nt v k = inl w ->
  step nt code (N pc (SV v :: st) fk vs l o g) = Next (N (S pc) (SV w :: st) fk vs l o g).
Proof. intros. stp H. rewrite H0. reflexivity. Qed.
Lemma st_index_err : forall pc k v e st fk vs l o g, at_ pc (Iindex k) -> n_index nt v k = inr e ->
  step nt code (N pc (SV v :: st) fk vs l o g) = Next (B (Some (VE (err_of e))) fk vs l g).
Proof. intros. stp H. rewrite H0. reflexivity. Qed.
Lemma st_call0_ok : forall pc f v w st fk vs l o g, at_ pc (Icall (NF0 f)) -> n_fn0 nt f v = inl w ->
  step nt code (N pc (SV v :: st) fk vs l o g) = Next (N (S pc) (SV w :: st) fk vs l o g).
Proof. intros. stp H. rewrite H0. reflexivity. Qed.
Lemma st_call0_err : forall pc f v e st fk vs l o g, at_ pc (Icall (NF0 f)) -> n_fn0 nt f v = inr e ->
  step nt code (N pc (SV v :: st) fk vs l o g) = Next (B (Some (VE (err_of e))) fk vs l g).
Proof. intros. stp H. rewrite H0. reflexivity. Qed.
Lemma st_call2_ok : forall pc op x a b w st fk vs l o g, at_ pc (Icall (NF2 op)) -> n_fn2 nt op x a b = inl w ->
  step nt code (N pc (SV x :: SV a :: SV b :: st) fk vs l o g) = Next (N (S pc) (SV w :: st) fk vs l o g).
Proof. intros. stp H. rewrite H0. reflexivity. Qed.
Lemma st_call2_err : forall pc op x a b e st fk vs l o g, at_ pc (Icall (NF2 op)) -> n_fn2 nt op x a b = inr e ->
  step nt code (N pc (SV x :: SV a :: SV b :: st) fk vs l o g) = Next (B (Some (VE (err_of e))) fk vs l g).
Proof. intros. stp H. rewrite H0. reflexivity. Qed.
Lemma st_call1_ok : forall pc f x a w st fk vs l o g, at_ pc (Icall (NF1 f)) -> n_fn1 nt f x a = inl w ->
  step nt code (N pc (SV x :: SV a :: st) fk vs l o g) = Next (N (S pc) (SV w :: st) fk vs l o g).
Proof. intros. stp H. rewrite H0. reflexivity. Qed.
Lemma st_call1_err : forall pc f x a e st fk vs l o g, at_ pc (Icall (NF1 f)) -> n_fn1 nt f x a = inr e ->
  step nt code (N pc (SV x :: SV a :: st) fk vs l o g) = Next (B (Some (VE (err_of e))) fk vs l g).
Proof. intros. stp H. rewrite H0. reflexivity. Qed.
Lemma st_indexarray_ok : forall pc i v w st fk vs l o g, at_ pc (Iindexarray i) -> index_arr nt v i = inl w ->
  step nt code (N pc (SV v :: st) fk vs l o g) = Next (N (S pc) (SV w :: st) fk vs l o g).
Proof. intros. stp H. unfold index_arr in H0. destruct v; try discriminate; rewrite H0; reflexivity. Qed.
Lemma st_indexarray_err : forall pc i v e st fk vs l o g, at_ pc (Iindexarray i) -> index_arr nt v i = inr e ->
  step nt code (N pc (SV v :: st) fk vs l o g) = Next (B (Some (VE (err_of e))) fk vs l g).
Proof. intros. stp H. unfold index_arr in H0. destruct v; try (inversion H0; subst; reflexivity); rewrite H0; reflexivity. Qed.
Lemma st_object_ok : forall pc n ps w st0 st fk vs l o g, at_ pc (Iobject n) -> take_pairs n st0 [] = Some (ps, st) -> mk_obj ps = inl w ->
  step nt code (N pc st0 fk vs l o g) = Next (N (S pc) (SV w :: st) fk vs l o g).
Proof. intros. stp H. rewrite H0, H1. reflexivity. Qed.
Lemma st_object_err : forall pc n ps e st0 st fk vs l o g, at_ pc (Iobject n) -> take_pairs n st0 [] = Some (ps, st) -> mk_obj ps = inr e ->
  step nt code (N pc st0 fk vs l o g) = Next (B (Some (VE (err_of e))) fk vs l g).
Proof. intros. stp H. rewrite H0, H1. reflexivity. Qed.
Lemma st_index2_ok : forall pc x a b w st fk vs l o g, at_ pc (Icall NIndex2) -> n_index nt a b = inl w ->
  step nt code (N pc (SV x :: SV a :: SV b :: st) fk vs l o g) = Next (N (S pc) (SV w :: st) fk vs l o g).
Proof. intros. stp H. rewrite H0. reflexivity. Qed.
Lemma st_index2_err : forall pc x a b e st fk vs l o g, at_ pc (Icall NIndex2) -> n_index nt a b = inr e ->
  step nt code (N pc (SV x :: SV a :: SV b :: st) fk vs l o g) = Next (B (Some (VE (err_of e))) fk vs l g).
Proof. intros. stp H. rewrite H0. reflexivity. Qed.
Lemma st_slice3_ok : forall pc x a b c w st fk vs l o g, at_ pc (Icall NSlice3) -> n_slice nt a b c = inl w ->
  step nt code (N pc (SV x :: SV a :: SV b :: SV c :: st) fk vs l o g) = Next (N (S pc) (SV w :: st) fk vs l o g).
Proof. intros. stp H. rewrite H0. reflexivity. Qed.
Lemma st_slice3_err : forall pc x a b c e st fk vs l o g, at_ pc (Icall NSlice3) -> n_slice nt a b c = inr e ->
  step nt code (N pc (SV x :: SV a :: SV b :: SV c :: st) fk vs l o g) = Next (B (Some (VE (err_of e))) fk vs l g).
Proof. intros. stp H. rewrite H0. reflexivity. Qed.
Lemma st_break : forall pc n st fk vs l o g, at_ pc (Icall NBreak) ->
  step nt code (N pc (SLbl n :: st) fk vs l o g) = Next (B (Some (VE (EB n))) fk vs l g).
Proof. intros. stp H. Qed.
Lemma st_pushpc : forall pc p st fk vs l o g, at_ pc (Ipushpc p) ->
  step nt code (N pc st fk vs l o g) = Next (N (S pc) (SPc p sc :: st) fk vs l o g).
Proof. intros. stp H. Qed.
Lemma st_callpc : forall pc p sc' st fk vs l o g, at_ pc Icallpc ->
  step nt code (N pc (SPc p sc' :: st) fk vs l o g) = Next (N p st fk vs l o {| ctr := ctr g; creg := (Some pc, sc') |}).
Proof. intros. stp H. Qed.

Definition grow (vs : list sv) (off : nat) : list sv :=
  if length vs <? off then vs ++ repeat (SV VNull) (2 * off - length vs) else vs.
Definition outer_of (sc : list frame) (id : nat) (idx : list frame) : list frame :=
  match idx with
  | Frame i _ _ _ _ out :: _ => if Nat.eqb i id then out else idx
  | [] => []
  end.
Lemma st_scope : forall pc id nv na st fk vs l o g cpc idx, at_ pc (Iscope id nv na) -> creg g = (Some cpc, idx) ->
  step nt code (N pc st fk vs l o g) =
  Next (VM.Run (S pc) false None (mk (Frame id o cpc (ctr g) sc (outer_of sc id idx) :: sc) st fk
                                     (grow vs (o + nv)) l (o + nv) {| ctr := S (ctr g); creg := creg g |})).
Proof. intros. stp H. rewrite H0. reflexivity. Qed.
Lemma st_callf : forall pc p st fk vs l o g, at_ pc (Icallf p) ->
  step nt code (N pc st fk vs l o g) = Next (N p st fk vs l o {| ctr := ctr g; creg := (Some pc, sc) |}).
Proof. intros. stp H. Qed.

(* popfork *)
Lemma st_popfork : forall e pc st o t fk vs l g,
  step nt code (B e (F pc st o t :: fk) vs l g) = Next (Run pc true e (mk sc st fk vs l o g)).
Proof. reflexivity. Qed.

(* fork-like instructions resumed by a backtrack *)
Lemma bt_fork_none : forall pc t st fk vs l o g, at_ pc (Ifork t) ->
  step nt code (Run pc true None (mk sc st fk vs l o g)) = Next (N t st fk vs l o g).
Proof. intros. stp H. Qed.
Lemma bt_fork_err : forall pc t x st fk vs l o g, at_ pc (Ifork t) ->
  step nt code (Run pc true (Some x) (mk sc st fk vs l o g)) = Next (B (Some x) fk vs l g).
Proof. intros. stp H. Qed.
Lemma bt_tryend : forall pc e st fk vs l o g, at_ pc Iforktryend ->
  step nt code (Run pc true e (mk sc st fk vs l o g)) = Next (B (option_map VT e) fk vs l g).
Proof. intros. stp H. Qed.
Lemma bt_trybegin_none : forall pc t st fk vs l o g, at_ pc (Iforktrybegin t) ->
  step nt code (Run pc true None (mk sc st fk vs l o g)) = Next (B None fk vs l g).
Proof. intros. stp H. Qed.
Lemma bt_trybegin_vt : forall pc t x st fk vs l o g, at_ pc (Iforktrybegin t) ->
  step nt code (Run pc true (Some (VT x)) (mk sc st fk vs l o g)) = Next (B (Some x) fk vs l g).
Proof. intros. stp H. Qed.
Lemma bt_trybegin_brk : forall pc t n st fk vs l o g, at_ pc (Iforktrybegin t) ->
  step nt code (Run pc true (Some (VE (EB n))) (mk sc st fk vs l o g)) = Next (B (Some (VE (EB n))) fk vs l g).
Proof. intros. stp H. Qed.
Lemma bt_trybegin_catch : forall pc t e x st fk vs l o g, at_ pc (Iforktrybegin t) ->
  step nt code (Run pc true (Some (VE (err_of e))) (mk sc (x :: st) fk vs l o g)) = Next (N t (SV (errval e) :: st) fk vs l o g).
Proof. intros. stp H. destruct e; reflexivity. Qed.
Lemma bt_label : forall pc y e n st fk vs l o g, at_ pc (Iforklabel y) ->
  step nt code (Run pc true e (mk sc (SLbl n :: st) fk vs l o g)) =
  Next (B (match e with Some (VE (EB m)) => if Nat.eqb m n then None else e | _ => e end) fk vs l g).
Proof. intros. stp H. destruct e as [[[]|]|]; try reflexivity. destruct (Nat.eqb n0 n); reflexivity. Qed.

(* opiter *)
Definition iter_state (pc : nat) (xs : list jv) (st : list sv) fk vs l o g : state :=
  match xs with
  | [] => B None fk vs l g
  | [x] => N (S pc) (SV x :: st) fk vs l o g
  | x :: r => N (S pc) (SV x :: st) (F pc (SIt r :: st) o (ctr g) :: fk) vs l o g
  end.
Lemma iter_state_vars : forall pc xs st fk vs l o g, vars_of (iter_state pc xs st fk vs l o g) = vs.
Proof. intros. destruct xs as [|? [|]]; reflexivity. Qed.
Lemma iter_state_lbl : forall pc xs st fk vs l o g, lbl_of (iter_state pc xs st fk vs l o g) = l.
Proof. intros. destruct xs as [|? [|]]; reflexivity. Qed.
Lemma iter_state_gx : forall pc xs st fk vs l o g, gx_of (iter_state pc xs st fk vs l o g) = g.
Proof. intros. destruct xs as [|? [|]]; reflexivity. Qed.
Lemma st_iter_ok : forall pc v xs st fk vs l o g, at_ pc Iiter -> n_iter nt v = inl xs ->
  step nt code (N pc (SV v :: st) fk vs l o g) = Next (iter_state pc xs st fk vs l o g).
Proof. intros. stp H. rewrite H0. destruct xs as [|x [|y r]]; reflexivity. Qed.
Lemma st_iter_err : forall pc v e st fk vs l o g, at_ pc Iiter -> n_iter nt v = inr e ->
  step nt code (N pc (SV v :: st) fk vs l o g) = Next (B (Some (VE (err_of e))) fk vs l g).
Proof. intros. stp H. rewrite H0. reflexivity. Qed.
Lemma bt_iter_none : forall pc x r st fk vs l o g, at_ pc Iiter ->
  step nt code (Run pc true None (mk sc (SIt (x :: r) :: st) fk vs l o g)) = Next (iter_state pc (x :: r) st fk vs l o g).
Proof. intros. stp H. destruct r; reflexivity. Qed.
Lemma bt_iter_err : forall pc x st fk vs l o g, at_ pc Iiter ->
  step nt code (Run pc true (Some x) (mk sc st fk vs l o g)) = Next (B (Some x) fk vs l g).
Proof. intros. stp H. Qed.
End Fr.

(* opret in a frame that was entered by a call: popscope, continue after the call *)
Lemma st_ret : forall id off rpc stamp save outer sc' pc st fk vs l o g, at_ pc Iret -> save <> [] ->
  step nt code (N (Frame id off rpc stamp save outer :: sc') pc st fk vs l o g) =
  Next (N save (S rpc) st fk vs l
          (if (match fk with [] => true | f :: _ => f_ctr f <=? stamp end) then off else o) g).
Proof. intros. stp H. destruct save; [congruence|reflexivity]. Qed.
(* opcallrec: the locals become (callpc, index) = (-1, scopes.index); the opscope it jumps to then pops the current
   frame (popscope, with its free test) and pushes the new one with the popped frame's return pc and saveindex *)
Lemma st_callrec : forall sc pc p st fk vs l o g, at_ pc (Icallrec p) ->
  step nt code (N sc pc st fk vs l o g) = Next (N sc p st fk vs l o {| ctr := ctr g; creg := (None, sc) |}).
Proof. intros. stp H. Qed.
Lemma st_scope_rec : forall id1 off1 rpc1 stamp1 save1 out1 tl pc id nv na st fk vs l o g idx,
  at_ pc (Iscope id nv na) -> creg g = (None, idx) ->
  step nt code (N (Frame id1 off1 rpc1 stamp1 save1 out1 :: tl) pc st fk vs l o g) =
  Next (N (Frame id (if (match fk with [] => true | f :: _ => f_ctr f <=? stamp1 end) then off1 else o) rpc1 (ctr g) save1
             (outer_of save1 id idx) :: save1) (S pc) st fk
          (grow vs ((if (match fk with [] => true | f :: _ => f_ctr f <=? stamp1 end) then off1 else o) + nv)) l
          ((if (match fk with [] => true | f :: _ => f_ctr f <=? stamp1 end) then off1 else o) + nv)
          {| ctr := S (ctr g); creg := creg g |}).
Proof. intros. stp H. rewrite H0. reflexivity. Qed.
(* opret in the main frame: Next returns the value *)
Lemma st_ret_main : forall id off rpc stamp outer pc v st fk vs l o g, at_ pc Iret ->
  step nt code (N [Frame id off rpc stamp [] outer] pc (SV v :: st) fk vs l o g) =
  Emit v (Run rpc true None (mk [] st fk vs l
            (if (match fk with [] => true | f :: _ => f_ctr f <=? stamp end) then off else o)
            {| ctr := ctr g; creg := (Some (length code - 1), []) |})).
Proof. intros. stp H. Qed.

Lemma grow_len : forall vs o, o <= length (grow vs o).
Proof.
  intros vs o. unfold grow. destruct (Nat.ltb_spec (length vs) o); [|lia].
  rewrite app_length, repeat_length. lia.
Qed.
Lemma grow_nth : forall vs o i, i < length vs -> nth_error (grow vs o) i = nth_error vs i.
Proof. intros vs o i H. unfold grow. destruct (length vs <? o); [|reflexivity]. apply nth_error_app1. exact H. Qed.
Lemma grow_len_le : forall vs o, length vs <= length (grow vs o).
Proof. intros vs o. unfold grow. destruct (length vs <? o); [|lia]. rewrite app_length. lia. Qed.

End Mach.
