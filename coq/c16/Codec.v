(* C16: transport encoding of documents, tokens and events (definitions only). *)
From Coq Require Import List NArith Bool String.
From Verif Require Import common.Sexp c16.Stream.
Import ListNotations.
Open Scope N_scope.

Fixpoint sexp_eqb (a b : sexp) : bool :=
  match a, b with
  | Atom x, Atom y => list_N_eqb x y
  | SList l, SList m =>
      (fix go (l m : list sexp) : bool :=
         match l, m with
         | [], [] => true
         | x :: l', y :: m' => sexp_eqb x y && go l' m'
         | _, _ => false
         end) l m
  | _, _ => false
  end.

(* tail-recursive hex printing (strings of 10^5 bytes); = Sexp.print_hexs, see print_hexs_tr_spec *)
Fixpoint print_hex_acc (l : list N) (acc : list N) : list N :=
  match l with
  | [] => rev_append acc []
  | b :: r => print_hex_acc r (hex_digit (b mod 16) :: hex_digit (b / 16) :: acc)
  end.
Definition print_hexs_tr (l : list N) : list N := match l with [] => [45] | _ => print_hex_acc l [] end.

Lemma print_hex_acc_spec : forall l acc, print_hex_acc l acc = rev acc ++ print_hex l.
Proof.
  induction l as [|b r IH]; intros acc; cbn [print_hex_acc print_hex].
  - now rewrite <- rev_alt, app_nil_r.
  - rewrite IH. cbn [rev]. now rewrite <- !app_assoc.
Qed.
Lemma print_hexs_tr_spec : forall l, print_hexs_tr l = print_hexs l.
Proof. intros [|b r]; [reflexivity|]. unfold print_hexs_tr, print_hexs. now rewrite print_hex_acc_spec. Qed.

Definition enc_scalar (s : scalar) : sexp :=
  match s with
  | SNull => A "null" | STrue => A "true" | SFalse => A "false"
  | SNum l => SList [A "l"; Atom (print_hexs_tr l)]
  | SStr s => SList [A "s"; Atom (print_hexs_tr s)]
  end.

Definition dec_scalar (e : sexp) : option scalar :=
  match e with
  | SList [t; Atom h] =>
      if atom_is "l" t then option_map SNum (parse_hexs h)
      else if atom_is "s" t then option_map SStr (parse_hexs h)
      else None
  | _ => if atom_is "null" e then Some SNull else if atom_is "true" e then Some STrue
         else if atom_is "false" e then Some SFalse else None
  end.

(* tokens: ab ae ob oe = [ ] { } ; scalars as values *)
Definition dec_token (e : sexp) : option token :=
  if atom_is "ab" e then Some (TD LB) else if atom_is "ae" e then Some (TD RB)
  else if atom_is "ob" e then Some (TD LC) else if atom_is "oe" e then Some (TD RC)
  else option_map TS (dec_scalar e).

Fixpoint dec_list {X} (f : sexp -> option X) (l : list sexp) : option (list X) :=
  match l with
  | [] => Some []
  | e :: r => match f e, dec_list f r with Some x, Some xs => Some (x :: xs) | _, _ => None end
  end.

(* documents: objects in the order given *)
Fixpoint enc_value (v : value) : sexp :=
  match v with
  | VS s => enc_scalar s
  | VArr l => SList (A "a" :: enc_vlist l)
  | VObj m => SList (A "o" :: enc_mlist m)
  end
with enc_vlist (l : vlist) : list sexp :=
  match l with VNil => [] | VCons v r => enc_value v :: enc_vlist r end
with enc_mlist (m : mlist) : list sexp :=
  match m with MNil => [] | MCons k v r => SList [Atom (print_hexs k); enc_value v] :: enc_mlist r end.

(* path elements and events as the values gojq prints: index = number literal, key = string *)
Definition enc_pelem (p : pelem) : sexp :=
  match p with
  | PIdx n => SList [A "l"; Atom (print_hexs (print_N n))]
  | PKey t => enc_scalar t
  end.
Definition enc_leaf (v : leafval) : sexp :=
  match v with LS s => enc_scalar s | LEmptyArr => SList [A "a"] | LEmptyObj => SList [A "o"] end.
Definition enc_event (e : event) : sexp :=
  match e with
  | Leaf p v => SList [A "a"; SList (A "a" :: map enc_pelem p); enc_leaf v]
  | Close p => SList [A "a"; SList (A "a" :: map enc_pelem p)]
  end.

Definition enc_final (t : trace) : sexp :=
  match t with End => A "end" | Err => A "err" | Panic => A "panic" | Ev _ _ => A "ev" end.

(* token list -> documents (used by the declarative oracle only) *)
Fixpoint parse_value (fuel : nat) (ts : list token) : option (value * list token) :=
  match fuel with
  | O => None
  | S f =>
    match ts with
    | TS s :: r => Some (VS s, r)
    | TD LB :: r =>
        option_map (fun p : vlist * list token => (VArr (fst p), snd p))
        ((fix elems (g : nat) (ts : list token) : option (vlist * list token) :=
           match g with
           | O => None
           | S g' =>
             match ts with
             | TD RB :: r => Some (VNil, r)
             | _ => match parse_value f ts with
                    | Some (v, r) => match elems g' r with
                                     | Some (l, r') => Some (VCons v l, r')
                                     | None => None end
                    | None => None end
             end
           end) (S (List.length r)) r)
    | TD LC :: r =>
        option_map (fun p : mlist * list token => (VObj (fst p), snd p))
        ((fix membs (g : nat) (ts : list token) : option (mlist * list token) :=
           match g with
           | O => None
           | S g' =>
             match ts with
             | TD RC :: r => Some (MNil, r)
             | TS (SStr k) :: r =>
                 match parse_value f r with
                 | Some (v, r1) => match membs g' r1 with
                                   | Some (m, r') => Some (MCons k v m, r')
                                   | None => None end
                 | None => None end
             | _ => None
             end
           end) (S (List.length r)) r)
    | _ => None
    end
  end.

Fixpoint parse_docs (fuel : nat) (ts : list token) : option (list value) :=
  match fuel with
  | O => None
  | S f => match ts with
           | [] => Some []
           | _ => match parse_value (S (List.length ts)) ts with
                  | Some (v, r) => option_map (cons v) (parse_docs f r)
                  | None => None end
           end
  end.

(* transport value -> document (objects keep the order given) *)
Fixpoint dec_value (e : sexp) : option value :=
  match e with
  | SList (t :: l) =>
      if atom_is "a" t then
        option_map VArr
          ((fix go (l : list sexp) : option vlist :=
              match l with
              | [] => Some VNil
              | x :: r => match dec_value x, go r with
                          | Some v, Some vs => Some (VCons v vs)
                          | _, _ => None end
              end) l)
      else if atom_is "o" t then
        option_map VObj
          ((fix go (l : list sexp) : option mlist :=
              match l with
              | [] => Some MNil
              | SList [Atom k; x] :: r =>
                  match parse_hexs k, dec_value x, go r with
                  | Some k, Some v, Some m => Some (MCons k v m)
                  | _, _, _ => None end
              | _ => None
              end) l)
      else option_map VS (dec_scalar e)
  | _ => option_map VS (dec_scalar e)
  end.
