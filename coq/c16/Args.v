(* C16 model, part 3: the named / positional argument flags.
   cli/flags.go parseFlags (the fragment that handles boolean flags, the four map flags --arg,
   --argjson, --slurpfile, --rawfile with the global mapKeys set, the positional flags --args and
   --jsonargs with positionalVal, `--`, and plain words) and cli/cli.go runInternal (argnames /
   argvalues, the `named` map, the positional merge of opts.Args and opts.JSONArgs).
   Definitions only. *)
From Coq Require Import List NArith Bool String Arith.
From Verif Require Import common.Sexp.
Import ListNotations.
Open Scope N_scope.

Definition str := list N.

Inductive mapflag := MArg | MArgJSON | MSlurpFile | MRawFile.
Inductive posflag := PArgs | PJSONArgs.

(* ---- recognition of one word (the switch at the top of the loop of parseFlags) ------------- *)
Inductive wclass :=
| CBool (short : bool)          (* a boolean flag: long, or a group of boolean short flags *)
| CMap (f : mapflag)
| CPos (f : posflag)
| CDashDash
| CPlain
| CUnknown                      (* parseFlags returns an error *)
| CUnmodelled.                  (* flags with one argument (-L, --indent, --xxx=yyy): outside this model *)

Definition str_eqb := list_N_eqb.
Definition is_str (s : string) (w : str) : bool := str_eqb w (codes s).
Fixpoint mem_str (w : str) (l : list string) : bool :=
  match l with [] => false | s :: r => is_str s w || mem_str w r end.

Definition long_bools : list string :=
  ["raw-output"; "raw-output0"; "join-output"; "compact-output"; "tab"; "yaml-output"; "color-output";
   "monochrome-output"; "null-input"; "raw-input"; "stream"; "yaml-input"; "slurp"; "from-file";
   "exit-status"; "version"; "help"]%string.

(* r j c C M n R s f e v h *)
Definition short_bool (c : N) : bool :=
  existsb (N.eqb c) [114; 106; 99; 67; 77; 110; 82; 115; 102; 101; 118; 104].
Definition is_letter (c : N) : bool := ((65 <=? c) && (c <=? 90)) || ((97 <=? c) && (c <=? 122)).

Definition classify (w : str) : wclass :=
  match w with
  | 45 :: 45 :: [] => CDashDash
  | 45 :: 45 :: name =>
      if is_str "arg" name then CMap MArg else if is_str "argjson" name then CMap MArgJSON
      else if is_str "slurpfile" name then CMap MSlurpFile else if is_str "rawfile" name then CMap MRawFile
      else if is_str "args" name then CPos PArgs else if is_str "jsonargs" name then CPos PJSONArgs
      else if mem_str name long_bools then CBool false
      else if is_str "indent" name || is_str "library-path" name then CUnmodelled
      else if existsb (N.eqb 61) name then CUnmodelled
      else CUnknown
  | 45 :: c :: r =>
      (* short options: every character a boolean short flag -> they are all set;
         a character that is not a letter -> the word is not an option *)
      if forallb short_bool (c :: r) then CBool true
      else if negb (forallb is_letter (c :: r)) then
        (* the Go loop stops at the first non-letter only if no non-boolean flag was met before; we
           model the cases without -L *)
        if existsb (N.eqb 76) (c :: r) then CUnmodelled else CPlain
      else if existsb (N.eqb 76) (c :: r) then CUnmodelled
      else CUnknown
  | _ => CPlain
  end.

(* ---- parseFlags ----------------------------------------------------------------------------- *)
Record pstate := mkp {
  p_rest : list str;                          (* rest, in order *)
  p_keys : list str;                          (* mapKeys *)
  p_maps : list (mapflag * str * str);        (* the entries set in the four map fields, oldest first *)
  p_args : list (option str);                 (* opts.Args ([]any; None = nil padding) *)
  p_jargs : list (option str);                (* opts.JSONArgs *)
  p_pos : option posflag;                     (* positionalVal (None = invalid) *)
  p_bools : list str                          (* boolean flags seen *)
}.
Definition p0 : pstate := mkp [] [] [] [] [] None [].

Inductive pres := POk (s : pstate) | PError | PUnmodelled.

Definition pos_list (s : pstate) (f : posflag) : list (option str) :=
  match f with PArgs => p_args s | PJSONArgs => p_jargs s end.
Definition set_pos_list (s : pstate) (f : posflag) (l : list (option str)) : pstate :=
  match f with
  | PArgs => mkp (p_rest s) (p_keys s) (p_maps s) l (p_jargs s) (p_pos s) (p_bools s)
  | PJSONArgs => mkp (p_rest s) (p_keys s) (p_maps s) (p_args s) l (p_pos s) (p_bools s)
  end.

(* for positionalVal.Len() > val.Len() { val = append(val, nil) } *)
Definition pad_to (n : nat) (l : list (option str)) : list (option str) :=
  l ++ repeat None (n - List.length l).

(* a word that is not a flag: positional value once a positional flag is active and the query is known *)
Definition plain_word (s : pstate) (w : str) : pstate :=
  match p_pos s, p_rest s with
  | Some f, _ :: _ => set_pos_list s f (pos_list s f ++ [Some w])
  | _, _ => mkp (p_rest s ++ [w]) (p_keys s) (p_maps s) (p_args s) (p_jargs s) (p_pos s) (p_bools s)
  end.

Fixpoint pf (done : bool) (s : pstate) (ws : list str) : pres :=
  match ws with
  | [] => POk s
  | w :: r =>
      if done then pf true (plain_word s w) r
      else match classify w with
           | CDashDash => pf true s r
           | CPlain => pf false (plain_word s w) r
           | CBool _ => pf false (mkp (p_rest s) (p_keys s) (p_maps s) (p_args s) (p_jargs s) (p_pos s)
                                      (p_bools s ++ [w])) r
           | CMap f =>
               match r with
               | name :: val :: r' =>
                   let s' := if existsb (str_eqb name) (p_keys s) then s
                             else mkp (p_rest s) (p_keys s ++ [name]) (p_maps s ++ [(f, name, val)])
                                      (p_args s) (p_jargs s) (p_pos s) (p_bools s) in
                   pf false s' r'
               | _ => PError                      (* expected 2 arguments for flag *)
               end
           | CPos f =>
               let val := match p_pos s with
                          | Some g => pad_to (List.length (pos_list s g)) (pos_list s f)
                          | None => pos_list s f end in
               let s1 := set_pos_list s f val in
               pf false (mkp (p_rest s1) (p_keys s1) (p_maps s1) (p_args s1) (p_jargs s1) (Some f) (p_bools s1)) r
           | CUnknown => PError
           | CUnmodelled => PUnmodelled
           end
  end.

(* ---- runInternal: $name, $ARGS.named, $ARGS.positional ------------------------------------- *)
(* a bound value before the file system / JSON decoder is consulted *)
Inductive aval :=
| AStr (s : str)               (* --arg, --args: the string itself *)
| AJson (text : str)           (* --argjson, --jsonargs: first JSON value of the text *)
| ASlurp (file : str)          (* --slurpfile: array of the JSON values of the file *)
| ARaw (file : str).           (* --rawfile: the contents of the file *)

Definition aval_of (f : mapflag) (v : str) : aval :=
  match f with MArg => AStr v | MArgJSON => AJson v | MSlurpFile => ASlurp v | MRawFile => ARaw v end.

(* argnames / argvalues: the loops over opts.Arg, opts.ArgJSON, opts.SlurpFile, opts.RawFile in this
   order (Go map iteration order inside one family is arbitrary; names are unique, see
   ArgsProofs.named_nodup, so the `named` map does not depend on it) *)
Definition family (f : mapflag) (m : list (mapflag * str * str)) : list (str * aval) :=
  flat_map (fun e => match e with (g, n, v) =>
     match f, g with
     | MArg, MArg | MArgJSON, MArgJSON | MSlurpFile, MSlurpFile | MRawFile, MRawFile => [(n, aval_of g v)]
     | _, _ => [] end end) m.
Definition arg_bindings (s : pstate) : list (str * aval) :=
  family MArg (p_maps s) ++ family MArgJSON (p_maps s) ++ family MSlurpFile (p_maps s)
  ++ family MRawFile (p_maps s).

(* named := map; for i, name := range argnames { named[name[1:]] = argvalues[i] }: a later entry
   overwrites an earlier one *)
Fixpoint named_map (bs : list (str * aval)) (acc : list (str * aval)) : list (str * aval) :=
  match bs with
  | [] => acc
  | (n, v) :: r =>
      named_map r (if existsb (fun e => str_eqb (fst e) n) acc
                   then map (fun e => if str_eqb (fst e) n then (n, v) else e) acc
                   else acc ++ [(n, v)])
  end.

Fixpoint lookup (n : str) (m : list (str * aval)) : option aval :=
  match m with [] => None | (k, v) :: r => if str_eqb k n then Some v else lookup n r end.

(* positional := opts.Args; for i, v := range opts.JSONArgs { if v != nil { … positional[i] = val or append } } *)
Fixpoint set_nth {X} (i : nat) (x : X) (l : list X) : list X :=
  match l, i with
  | [], _ => []
  | _ :: r, O => x :: r
  | y :: r, S i' => y :: set_nth i' x r
  end.

Fixpoint merge_loop (i : nat) (jargs : list (option str)) (positional : list (option aval)) : list (option aval) :=
  match jargs with
  | [] => positional
  | v :: r =>
      merge_loop (S i) r
        match v with
        | Some t => if (i <? List.length positional)%nat then set_nth i (Some (AJson t)) positional
                    else positional ++ [Some (AJson t)]
        | None => positional
        end
  end.

Definition positional_of (s : pstate) : list (option aval) :=
  merge_loop 0 (p_jargs s) (map (option_map AStr) (p_args s)).

Inductive ares :=
| AOk (rest : list str) (named : list (str * aval)) (positional : list (option aval)) (bools : list str)
| AError | AUnmodelled.

Definition parse_args (ws : list str) : ares :=
  match pf false p0 ws with
  | POk s => AOk (p_rest s) (named_map (arg_bindings s) []) (positional_of s) (p_bools s)
  | PError => AError
  | PUnmodelled => AUnmodelled
  end.

(* ---- declarative reading of a command line -------------------------------------------------- *)
(* the same lexical grouping as parseFlags (a map flag swallows two words, `--` ends the options) *)
Inductive item := IMap (f : mapflag) (name val : str) | IPos (f : posflag) | IBool (w : str) | IPlain (w : str).

Fixpoint items (done : bool) (ws : list str) : option (list item) :=
  match ws with
  | [] => Some []
  | w :: r =>
      if done then option_map (cons (IPlain w)) (items true r)
      else match classify w with
           | CDashDash => items true r
           | CPlain => option_map (cons (IPlain w)) (items false r)
           | CBool _ => option_map (cons (IBool w)) (items false r)
           | CMap f => match r with
                       | name :: val :: r' => option_map (cons (IMap f name val)) (items false r')
                       | _ => None end
           | CPos f => option_map (cons (IPos f)) (items false r)
           | _ => None
           end
  end.

(* first binding of a name *)
Fixpoint first_binding (n : str) (its : list item) : option aval :=
  match its with
  | [] => None
  | IMap f k v :: r => if str_eqb k n then Some (aval_of f v) else first_binding n r
  | _ :: r => first_binding n r
  end.

(* positional values: the plain words after the first one (the query), each read in the mode of the
   nearest preceding --args / --jsonargs; plain words before any such flag are file operands *)
Fixpoint positional_spec (seen_query : bool) (mode : option posflag) (its : list item) : list aval :=
  match its with
  | [] => []
  | IPos f :: r => positional_spec seen_query (Some f) r
  | IPlain w :: r =>
      match mode, seen_query with
      | Some PArgs, true => AStr w :: positional_spec true mode r
      | Some PJSONArgs, true => AJson w :: positional_spec true mode r
      | _, _ => positional_spec true mode r
      end
  | _ :: r => positional_spec seen_query mode r
  end.

Fixpoint rest_spec (seen_query : bool) (mode : option posflag) (its : list item) : list str :=
  match its with
  | [] => []
  | IPos f :: r => rest_spec seen_query (Some f) r
  | IPlain w :: r =>
      match mode, seen_query with
      | Some _, true => rest_spec true mode r
      | _, _ => w :: rest_spec true mode r
      end
  | _ :: r => rest_spec seen_query mode r
  end.
