(* C16 correspondence: one harness line -> verdict ("ok" or (bad <expected>)).
   Line forms (harness/c16/main.go):
     (stream <end> <k> (<tok>…) <implfin> (<event>…))
        the first k tokens of the token list were delivered by Decoder.Token on the (possibly
        truncated) input, which then ended with <end> = eof | err; the whole token list is the token
        sequence of complete documents of which the input is a prefix.  <implfin> = end | err and the
        events are what `gojq --stream -c .` printed / how it ended.
        model: Stream.stream_events on the first k tokens;
        spec : the documents parsed from the whole token list, declarative tostream in document
               order, the events determined by the first k tokens (StreamPos.events_before).
     (inputs …) (raw …) (args …): see below.
   (spec <line>) selects the declarative oracle. *)
From Coq Require Import List NArith Bool String.
From Verif Require Import common.Sexp c16.Stream c16.StreamPos c16.Codec.
Import ListNotations.
Open Scope N_scope.

Definition dec_ending (e : sexp) : option ending :=
  if atom_is "eof" e then Some EndEOF else if atom_is "err" e then Some EndErr else None.

Definition judge (expected got : sexp) : sexp :=
  if sexp_eqb expected got then A "ok" else SList [A "bad"; expected].

Definition stream_line (spec : bool) (e : sexp) : sexp :=
  match e with
  | SList [_; en; Atom k; SList toks; implfin; SList evs] =>
      match dec_ending en, parse_N k, dec_list dec_token toks with
      | Some en, Some k, Some toks =>
          let k := N.to_nat k in
          let got := SList [implfin; SList evs] in
          if spec then
            match parse_docs (S (List.length toks)) toks with
            | Some ds =>
                let fin := match en with
                           | EndEOF => if Nat.eqb k (List.length toks) then End else Err
                           | EndErr => Err end in
                judge (SList [enc_final fin; SList (map enc_event (events_before k ds))]) got
            | None => A "undecodable-docs"
            end
          else
            let t := stream_events (firstn k toks) en in
            judge (SList [enc_final (final_of t); SList (map enc_event (events_of t))]) got
      | _, _, _ => A "undecodable"
      end
  | _ => A "undecodable"
  end.

(* STUBS-BEGIN *)
Definition inputs_line (spec : bool) (e : sexp) : sexp := A "unimplemented".
Definition raw_line (spec : bool) (e : sexp) : sexp := A "unimplemented".
Definition args_line (spec : bool) (e : sexp) : sexp := A "unimplemented".
(* STUBS-END *)

Definition run_sexp (spec : bool) (e : sexp) : sexp :=
  match e with
  | SList (k :: _) =>
      if atom_is "stream" k then stream_line spec e
      else if atom_is "inputs" k then inputs_line spec e
      else if atom_is "raw" k then raw_line spec e
      else if atom_is "args" k then args_line spec e
      else A "undecodable"
  | _ => A "undecodable"
  end.

Definition run_line (l : list N) : list N :=
  match parse l with
  | Some (SList [k; e]) => if atom_is "spec" k then print (run_sexp true e) else print (run_sexp false (SList [k; e]))
  | Some e => print (run_sexp false e)
  | None => codes "unparsable"
  end.
