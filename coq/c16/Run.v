(* C16 correspondence: one harness line -> verdict ("ok" or (bad <expected>)).
   Line forms (harness/c16/main.go):
     (stream <end> <k> (<tok>…) <implfin> (<event>…))
        the first k tokens of the token list were delivered by Decoder.Token on the (possibly
        truncated) input, which then ended with <end> = eof | err; the whole token list is the token
        sequence of complete documents of which the input is a prefix.  <implfin> = end | err and the
        events are what `gojq --stream -c .` printed / how it ended.
        model: Stream.stream_events on the first k tokens;
        spec : the documents parsed from the whole token list, declarative tostream in document
               order, the events determined by the first k tokens (StreamPos.events_before).
     (inputs …) (args …): see below.
   (spec <line>) selects the declarative oracle. *)
From Coq Require Import List NArith Bool String.
From Verif Require Import common.Sexp c16.Stream c16.StreamPos c16.Codec c16.Inputs c16.InputsSpec c16.Args c16.Fromstream c16.Lex.
Import ListNotations.
Open Scope N_scope.

Definition dec_ending (e : sexp) : option ending :=
  if atom_is "eof" e then Some EndEOF else if atom_is "err" e then Some EndErr else None.

Definition judge (expected got : sexp) : sexp :=
  if sexp_eqb expected got then A "ok" else SList [A "bad"; expected].

Definition stream_line (spec : bool) (e : sexp) : sexp :=
  match e with
  | SList [_; en; Atom k; SList toks; implfin; SList evs] =>
      match dec_ending en, parse_N k, dec_list dec_token toks with
      | Some en, Some k, Some toks =>
          let k := N.to_nat k in
          let got := SList [implfin; SList evs] in
          if spec then
            match parse_docs (S (List.length toks)) toks with
            | Some ds =>
                let fin := match en with
                           | EndEOF => if Nat.eqb k (List.length toks) then End else Err
                           | EndErr => Err end in
                (* on a complete stream also: the transcription of jq's fromstream rebuilds the documents
                   from these events (proved in general: C16_fromstream_events; here it is replayed on the concrete case) *)
                let fs_ok := match fin with
                             | End => if forallb nodup_keys ds then
                                        match fromstream_model (events_before k ds) with
                                        | Some ds' => sexp_eqb (SList (map enc_value ds')) (SList (map enc_value ds))
                                        | None => false end
                                      else true
                             | _ => true end in
                if fs_ok then judge (SList [enc_final fin; SList (map enc_event (events_before k ds))]) got
                else A "fromstream-model-does-not-rebuild"
            | None => A "undecodable-docs"
            end
          else
            let t := stream_events (firstn k toks) en in
            judge (SList [enc_final (final_of t); SList (map enc_event (events_of t))]) got
      | _, _, _ => A "undecodable"
      end
  | _ => A "undecodable"
  end.

(* ---- (inputs (mode <r> <t> <s> <n>) <query> <stdin> (<src>…) (<out>…)) ---------------------
   <r> <t> <s> <n> = 0|1 for -R --stream -s -n;  <query> = id | pair | inputs | (inputk <k>) | iter | (prog <stage>…),
   <stage> = (take k) | rest | first | (takerep k) | input | isempty | (redcount k) | (foreach k) | inputfilter | until
   <stdin>, <src> = missing | (d <hex text> <ok|bad> (<value>…) <eof|err> (<tok>…))
   <out> = e | (v <value>): what the command printed, stdout values and stderr error lines in order.
   model: the iterator state machines of Inputs.v composed by create_top, the slurp wrappers, cli.process;
   spec : InputsSpec (per-input contributions concatenated in argument order, slurp_spec, …). *)
Definition dec_bit (e : sexp) : option bool :=
  if atom_is "1" e then Some true else if atom_is "0" e then Some false else None.

Definition dec_data (e : sexp) : option (fsrc fdata) :=
  match e with
  | SList [t; Atom tx; b; SList vs; en; SList toks] =>
      if atom_is "d" t then
        match parse_hexs tx, dec_list dec_value vs, dec_ending en, dec_list dec_token toks with
        | Some tx, Some vs, Some en, Some toks =>
            Some (FData (mkfd tx vs (atom_is "bad" b) toks en))
        | _, _, _, _ => None
        end
      else None
  | _ => if atom_is "missing" e then Some FMissing else None
  end.

Inductive qkind := QId | QPair | QInputs | QInputK (k : nat) | QProg (sts : list stage) | QIter.
Definition dec_nat (k : list N) : option nat := option_map N.to_nat (parse_N k).
Definition dec_stage (e : sexp) : option stage :=
  match e with
  | SList [t; Atom k] =>
      if atom_is "take" t then option_map StTake (dec_nat k)
      else if atom_is "takerep" t then option_map StTakeRepeat (dec_nat k)
      else if atom_is "redcount" t then option_map StReduceCount (dec_nat k)
      else if atom_is "foreach" t then option_map StForeach (dec_nat k)
      else None
  | _ => if atom_is "rest" e then Some StRest else if atom_is "first" e then Some StFirst
         else if atom_is "input" e then Some StInput else if atom_is "isempty" e then Some StIsEmpty
         else if atom_is "inputfilter" e then Some StInputFilter else if atom_is "until" e then Some StUntil
         else None
  end.

Definition dec_query (e : sexp) : option qkind :=
  match e with
  | SList (t :: sts) =>
      if atom_is "prog" t then option_map QProg (dec_list dec_stage sts)
      else match sts with
           | [Atom k] => if atom_is "inputk" t then option_map QInputK (dec_nat k) else None
           | _ => None
           end
  | _ => if atom_is "id" e then Some QId else if atom_is "pair" e then Some QPair
         else if atom_is "inputs" e then Some QInputs else if atom_is "iter" e then Some QIter else None
  end.

Definition enc_out (o : out) : sexp :=
  match o with OVal v => SList [A "v"; enc_value v] | OErr => A "e" | OPanic => A "panic" end.

Section RunMode.
  Variables (I : Type) (inext : I -> option out * I).
  Definition the_query (fuel : nat) (q : qkind) : query I :=
    match q with
    | QId => q_id I | QPair => q_pair I inext | QInputs => q_inputs I inext fuel
    | QInputK k => q_input_k I inext k
    | QProg sts => q_prog I inext fuel sts
    | QIter => q_iter_input I inext
    end.
  Definition run_mode (fuel : nat) (null : bool) (q : qkind) (i : I) : option (list out) :=
    if null then Some (process_null I (the_query fuel q) i) else process I inext fuel (the_query fuel q) i.
End RunMode.

Definition model_inputs (fuel : nat) (m : mode) (null : bool) (q : qkind) (stdin : fdata)
           (srcs : list (fsrc fdata)) : option (list out) :=
  let t := create_top m stdin srcs in
  if m_slurp m then
    if m_raw m then run_mode _ (slurpraw_it top top_next fuel) fuel null q (t, false)
    else run_mode _ (slurp_it top top_next fuel) fuel null q (t, false)
  else run_mode _ top_next fuel null q t.

Definition spec_inputs (fuel : nat) (m : mode) (null : bool) (q : qkind) (stdin : fdata)
           (srcs : list (fsrc fdata)) : option (list out) :=
  let all := all_outs_fast m stdin srcs in   (* = all_outs: InputsProofs.all_outs_fast_spec *)
  let all' := if m_slurp m then (if m_raw m then [slurpraw_spec all []] else [slurp_spec all []]) else all in
  match null, q with
  | false, QId => Some all'
  | true, QId => Some [OVal (VS SNull)]
  | true, QInputs => Some [match inputs_spec all' [] with Some a => OVal (varr a) | None => OErr end]
  | true, QInputK k => Some (inputk_spec k all')
  | false, QPair => Some (pair_spec fuel all')
  | _, QProg _ | _, QIter =>                  (* the same consumers over the declarative list of outputs *)
      run_mode (list out) list_next fuel null q all'
  | _, _ => None                              (* no independent description: the model stands *)
  end.

Definition inputs_line (fuel : nat) (spec : bool) (e : sexp) : sexp :=
  match e with
  | SList [_; SList [_; r; t; s; n]; q; stdin; SList srcs; SList outs] =>
      match dec_bit r, dec_bit t, dec_bit s, dec_bit n, dec_query q, dec_data stdin, dec_list dec_data srcs with
      | Some r, Some t, Some s, Some n, Some q, Some (FData stdin), Some srcs =>
          let m := mkmode r t s in
          let res := if spec then spec_inputs fuel m n q stdin srcs else model_inputs fuel m n q stdin srcs in
          match res with
          | Some os => judge (SList (map enc_out os)) (SList outs)
          | None => if spec then A "ok" else A "model-out-of-fuel"
          end
      | _, _, _, _, _, _, _ => A "undecodable"
      end
  | _ => A "undecodable"
  end.

(* ---- (args (<hex word>…) (<dict>…) <impl>) ----------------------------------------------------
   the words of the command line (among them the query `$ARGS` and -n -c);
   <dict> = (json <hex text> <value>|err) | (slurp <hex file> <value>|err) | (raw <hex file> <value>|err):
   what encoding/json / the file system give for the texts and files mentioned;
   <impl> = (out <value>) | err.
   model: Args.parse_args (parseFlags + runInternal); spec: Args.items + first_binding/positional_spec. *)
Fixpoint dict_find (kind : string) (key : str) (d : list sexp) : option sexp :=
  match d with
  | [] => None
  | SList [t; Atom k; v] :: r =>
      if atom_is kind t && (match parse_hexs k with Some k => str_eqb k key | None => false end)
      then Some v else dict_find kind key r
  | _ :: r => dict_find kind key r
  end.

(* None = the binding makes the command fail *)
Definition resolve (d : list sexp) (a : aval) : option sexp :=
  match a with
  | AStr s => Some (SList [A "s"; Atom (print_hexs s)])
  | AJson t => match dict_find "json" t d with
               | Some v => if atom_is "err" v then None else Some v
               | None => None end
  | ASlurp f => match dict_find "slurp" f d with
                | Some v => if atom_is "err" v then None else Some v
                | None => None end
  | ARaw f => match dict_find "raw" f d with
              | Some v => if atom_is "err" v then None else Some v
              | None => None end
  end.

Fixpoint resolve_all {K} (d : list sexp) (l : list (K * option aval)) : option (list (K * sexp)) :=
  match l with
  | [] => Some []
  | (k, Some a) :: r => match resolve d a, resolve_all d r with
                        | Some v, Some vs => Some ((k, v) :: vs)
                        | _, _ => None end
  | (k, None) :: r => option_map (cons (k, A "null")) (resolve_all d r)
  end.

(* order-insensitive comparison of the expected named bindings with the printed object *)
Definition named_matches (exp : list (str * sexp)) (got : list sexp) : bool :=
  Nat.eqb (List.length exp) (List.length got)
  && forallb (fun kv => existsb (fun g => match g with
                                          | SList [Atom k; v] =>
                                              match parse_hexs k with
                                              | Some k => str_eqb k (fst kv) && sexp_eqb v (snd kv)
                                              | None => false end
                                          | _ => false end) got) exp.

Fixpoint distinct_names (its : list item) (seen : list str) : list str :=
  match its with
  | [] => []
  | IMap _ n _ :: r => if existsb (str_eqb n) seen then distinct_names r seen
                       else n :: distinct_names r (n :: seen)
  | _ :: r => distinct_names r seen
  end.

Definition args_expect (spec : bool) (ws : list str) : option (option (list str * list (str * option aval) * list (unit * option aval))) :=
  if spec then
    match items false ws with
    | Some its =>
        Some (Some (rest_spec false None its,
                    map (fun n => (n, first_binding n its)) (distinct_names its []),
                    map (fun a => (tt, Some a)) (positional_spec false None its)))
    | None => Some None
    end
  else
    match parse_args ws with
    | AOk rest named pos _ => Some (Some (rest, map (fun e => (fst e, Some (snd e))) named, map (fun a => (tt, a)) pos))
    | AError => Some None
    | AUnmodelled => None
    end.

Definition args_line (spec : bool) (e : sexp) : sexp :=
  match e with
  | SList [_; SList ws; SList dict; impl] =>
      match dec_list (fun w => match w with Atom h => parse_hexs h | _ => None end) ws with
      | Some ws =>
          match args_expect spec ws with
          | None => A "unmodelled"
          | Some None => judge (A "err") impl
          | Some (Some (rest, named, pos)) =>
              if negb (match rest with [q] => is_str "$ARGS" q | _ => false end) then A "unexpected-rest"
              else match resolve_all dict named, resolve_all dict pos with
                   | Some named, Some pos =>
                       let exp := SList [A "expected"; SList (map (fun kv => SList [Atom (print_hexs (fst kv)); snd kv]) named);
                                         SList (map snd pos)] in
                       match impl with
                       | SList [o; SList [oo; SList [_; SList (o1 :: gn)]; SList [_; SList (a1 :: gp)]]] =>
                           if atom_is "out" o && atom_is "o" oo && atom_is "o" o1 && atom_is "a" a1
                              && named_matches named gn && sexp_eqb (SList (map snd pos)) (SList gp)
                           then A "ok" else SList [A "bad"; exp]
                       | _ => SList [A "bad"; exp]
                       end
                   | _, _ => judge (A "err") impl
                   end
          end
      | None => A "undecodable"
      end
  | _ => A "undecodable"
  end.


Definition run_sexp (fuel : nat) (spec : bool) (e : sexp) : sexp :=
  match e with
  | SList (k :: _) =>
      if atom_is "stream" k then stream_line spec e
      else if atom_is "inputs" k then inputs_line fuel spec e
      else if atom_is "args" k then args_line spec e
      else A "undecodable"
  | _ => A "undecodable"
  end.

(* tail-recursive length (List.length overflows the OCaml stack on lines of 10^6 characters) *)
Fixpoint len_tr (l : list N) (acc : nat) : nat := match l with [] => acc | _ :: r => len_tr r (S acc) end.

Definition run_line (l : list N) : list N :=
  match parse_fast l with            (* = Sexp.parse l: Lex.parse_fast_spec *)
  | Some (SList [k; e]) =>
      if atom_is "spec" k then print (run_sexp (len_tr l 2) true e)
      else print (run_sexp (len_tr l 2) false (SList [k; e]))
  | Some e => print (run_sexp (len_tr l 2) false e)
  | None => codes "unparsable"
  end.
