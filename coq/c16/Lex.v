(* C16: a linear-time reader for transport lines.  common/Sexp.tokens_aux recomputes [rev cur] at every
   character once extracted to a strict language, and List.rev is the quadratic definition; lines of this
   check carry atoms of 10^5 characters.  Same token language as common/Sexp.  Definitions only. *)
From Coq Require Import List NArith Bool.
From Verif Require Import common.Sexp.
Import ListNotations.
Open Scope N_scope.

(* lexer and parser fused; every recursive call is a tail call (lines of 10^6 characters with 10^5
   tokens must not use the OCaml stack) *)
Definition push_atom (cur : list N) (stack : list (list sexp)) : option (list (list sexp)) :=
  match cur with
  | [] => Some stack
  | _ => match stack with
         | top :: st => Some ((Atom (rev_append cur []) :: top) :: st)
         | [] => None
         end
  end.

Fixpoint pc (l : list N) (cur : list N) (stack : list (list sexp)) : option sexp :=
  match l with
  | [] => match push_atom cur stack with Some [[x]] => Some x | _ => None end
  | c :: r =>
      if is_space c then
        match push_atom cur stack with Some st => pc r [] st | None => None end
      else if c =? lparen then
        match push_atom cur stack with Some st => pc r [] ([] :: st) | None => None end
      else if c =? rparen then
        match push_atom cur stack with
        | Some (top :: nxt :: st) => pc r [] ((SList (rev_append top []) :: nxt) :: st)
        | _ => None
        end
      else pc r (c :: cur) stack
  end.

Definition parse_fast (l : list N) : option sexp := pc l [] [[]].

(* the two readers agree *)
Lemma parse_flush : forall cur rest stack,
  parse_toks (match cur with [] => [] | _ => [TA (rev cur)] end ++ rest) stack
  = match push_atom cur stack with Some st => parse_toks rest st | None => None end.
Proof.
  intros [|c cur] rest stack; [reflexivity|]. cbn [app parse_toks push_atom].
  destruct stack; [reflexivity|]. now rewrite <- rev_alt.
Qed.

Definition flush_of (cur : list N) : list tok := match cur with [] => [] | _ => [TA (rev cur)] end.

Lemma tokens_aux_nil : forall cur, tokens_aux cur [] = flush_of cur.
Proof. reflexivity. Qed.
Lemma tokens_aux_cons : forall cur c r,
  tokens_aux cur (c :: r)
  = if is_space c then flush_of cur ++ tokens_aux [] r
    else if c =? lparen then flush_of cur ++ TL :: tokens_aux [] r
    else if c =? rparen then flush_of cur ++ TR :: tokens_aux [] r
    else tokens_aux (c :: cur) r.
Proof. reflexivity. Qed.

Lemma pc_spec : forall l cur stack, pc l cur stack = parse_toks (tokens_aux cur l) stack.
Proof.
  induction l as [|c r IH]; intros cur stack; cbn [pc].
  - rewrite tokens_aux_nil, <- (app_nil_r (flush_of cur)). unfold flush_of. rewrite parse_flush.
    destruct (push_atom cur stack) as [[|[|x [|y t]] [|u w]]|]; reflexivity.
  - rewrite tokens_aux_cons. unfold flush_of. destruct (is_space c).
    { rewrite parse_flush. destruct (push_atom cur stack); [apply IH | reflexivity]. }
    destruct (c =? lparen).
    { rewrite parse_flush. destruct (push_atom cur stack); [cbn [parse_toks]; apply IH | reflexivity]. }
    destruct (c =? rparen).
    { rewrite parse_flush. destruct (push_atom cur stack) as [[|top [|nxt st]]|]; try reflexivity.
      cbn [parse_toks]. rewrite <- rev_alt. apply IH. }
    apply IH.
Qed.

Lemma parse_fast_spec : forall l, parse_fast l = parse l.
Proof. intros. apply pc_spec. Qed.
