(* C16: a linear-time reader for transport lines.  common/Sexp.tokens_aux recomputes [rev cur] at every
   character once extracted to a strict language, and List.rev is the quadratic definition; lines of this
   check carry atoms of 10^5 characters.  Same token language as common/Sexp.  Definitions only. *)
From Coq Require Import List NArith Bool.
From Verif Require Import common.Sexp.
Import ListNotations.
Open Scope N_scope.

Definition atom_of (cur : list N) : list tok :=
  match cur with [] => [] | _ => [TA (rev_append cur [])] end.

Fixpoint tokens_fast (cur : list N) (l : list N) : list tok :=
  match l with
  | [] => atom_of cur
  | c :: r =>
      if is_space c then
        match cur with [] => tokens_fast [] r | _ => atom_of cur ++ tokens_fast [] r end
      else if c =? lparen then
        match cur with [] => TL :: tokens_fast [] r | _ => atom_of cur ++ TL :: tokens_fast [] r end
      else if c =? rparen then
        match cur with [] => TR :: tokens_fast [] r | _ => atom_of cur ++ TR :: tokens_fast [] r end
      else tokens_fast (c :: cur) r
  end.

Fixpoint parse_toks_fast (ts : list tok) (stack : list (list sexp)) : option sexp :=
  match ts with
  | [] => match stack with [[x]] => Some x | _ => None end
  | TA s :: r => match stack with
                 | top :: st => parse_toks_fast r ((Atom s :: top) :: st)
                 | [] => None end
  | TL :: r => parse_toks_fast r ([] :: stack)
  | TR :: r => match stack with
               | top :: nxt :: st => parse_toks_fast r ((SList (rev_append top []) :: nxt) :: st)
               | _ => None end
  end.

Definition parse_fast (l : list N) : option sexp := parse_toks_fast (tokens_fast [] l) [[]].

(* the two readers agree *)
Lemma atom_of_spec : forall cur, atom_of cur = match cur with [] => [] | _ => [TA (rev cur)] end.
Proof. intros. unfold atom_of. destruct cur; [reflexivity|]. now rewrite <- rev_alt. Qed.

Lemma tokens_fast_spec : forall l cur, tokens_fast cur l = tokens_aux cur l.
Proof.
  induction l as [|c r IH]; intros cur; cbn [tokens_fast tokens_aux]; rewrite ?atom_of_spec; [reflexivity|].
  destruct (is_space c); [destruct cur; rewrite IH; reflexivity|].
  destruct (c =? lparen); [destruct cur; rewrite IH; reflexivity|].
  destruct (c =? rparen); [destruct cur; rewrite IH; reflexivity|]. apply IH.
Qed.

Lemma parse_toks_fast_spec : forall ts st, parse_toks_fast ts st = parse_toks ts st.
Proof.
  induction ts as [|[| |s] r IH]; intros st; cbn; try reflexivity.
  - apply IH.
  - destruct st as [|top [|nxt st']]; try reflexivity. rewrite <- rev_alt. apply IH.
  - destruct st; [reflexivity | apply IH].
Qed.

Lemma parse_fast_spec : forall l, parse_fast l = parse l.
Proof. intros. unfold parse_fast, parse, tokens. now rewrite tokens_fast_spec, parse_toks_fast_spec. Qed.
