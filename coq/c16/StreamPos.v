(* C16: declarative "events before the cut".  Every tostream event of a document is determined by
   one token of its text: a scalar leaf by the scalar, an empty-container leaf and a closing event
   by the closing bracket.  pos_* tag each event of ts_* with the index of that token.
   Definitions only. *)
From Coq Require Import List NArith Bool Arith.
From Verif Require Import c16.Stream.
Import ListNotations.
Open Scope nat_scope.

Fixpoint ntok (v : value) : nat :=
  match v with
  | VS _ => 1
  | VArr l => 2 + ntok_l l
  | VObj m => 2 + ntok_m m
  end
with ntok_l (l : vlist) : nat := match l with VNil => 0 | VCons v r => ntok v + ntok_l r end
with ntok_m (m : mlist) : nat := match m with MNil => 0 | MCons _ v r => 1 + ntok v + ntok_m r end.

(* n = index of the first token of the value *)
Fixpoint pos_val (rp : list pelem) (n : nat) (v : value) : list (nat * event) :=
  match v with
  | VS s => [(n, Leaf (rev rp) (LS s))]
  | VArr VNil => [(n + 1, Leaf (rev rp) LEmptyArr)]
  | VObj MNil => [(n + 1, Leaf (rev rp) LEmptyObj)]
  | VArr l => pos_elems rp 0%N (n + 1) l
  | VObj m => pos_membs rp (n + 1) m
  end
with pos_elems (rp : list pelem) (i : N) (n : nat) (l : vlist) : list (nat * event) :=
  match l with
  | VNil => []
  | VCons v VNil => pos_val (PIdx i :: rp) n v ++ [(n + ntok v, Close (rev (PIdx i :: rp)))]
  | VCons v r => pos_val (PIdx i :: rp) n v ++ pos_elems rp (i + 1)%N (n + ntok v) r
  end
with pos_membs (rp : list pelem) (n : nat) (m : mlist) : list (nat * event) :=
  match m with
  | MNil => []
  | MCons k v MNil => pos_val (PKey (SStr k) :: rp) (n + 1) v
                      ++ [(n + 1 + ntok v, Close (rev (PKey (SStr k) :: rp)))]
  | MCons k v r => pos_val (PKey (SStr k) :: rp) (n + 1) v ++ pos_membs rp (n + 1 + ntok v) r
  end.

Fixpoint pos_docs (n : nat) (ds : list value) : list (nat * event) :=
  match ds with [] => [] | d :: r => pos_val [] n d ++ pos_docs (n + ntok d) r end.

(* the events of the documents ds that are determined by the first k tokens *)
Definition events_before (k : nat) (ds : list value) : list event :=
  map snd (filter (fun pe => fst pe <? k) (pos_docs 0 ds)).

(* the same machine as Stream.runf, each event tagged with the index of the token that produced it *)
Fixpoint runf_pos (n : nat) (s : sm) (ts : list token) : list (nat * event) :=
  match ts with
  | [] => []
  | t :: r =>
      match step s t with
      | SCont s1 => runf_pos (S n) s1 r
      | SEmit ev s1 => (n, ev) :: match pre s1 r with Some s2 => runf_pos (S n) s2 r | None => [] end
      | SPanic => []
      end
  end.
