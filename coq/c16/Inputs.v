(* C16 model, part 2: the input iterators of cli/inputs.go as state machines (one function per Next
   method), createInputIter's selection (cli/cli.go), funcInput / inputs sharing the iterator
   (compiler.go, builtin.jq) and the main loop cli.process.  Definitions only. *)
From Coq Require Import List NArith Bool.
From Verif Require Import common.Sexp c16.Stream.
Import ListNotations.
Open Scope N_scope.

(* what an iterator's Next returns with ok = true: a value or an error value *)
Inductive out := OVal (v : value) | OErr | OPanic.

Definition vstr (s : list N) : value := VS (SStr s).
Fixpoint vlist_of (l : list value) : vlist := match l with [] => VNil | v :: r => VCons v (vlist_of r) end.
Definition varr (l : list value) : value := VArr (vlist_of l).

(* ---- jsonInputIter (next = dec.Decode) ---------------------------------------------------- *)
(* the decoder over a file is abstracted as the values it will deliver and whether a malformed
   document follows them (encoding/json is trusted base) *)
Record jiter := mkj { jvals : list value; jbad : bool; jerr : bool }.

Definition json_next (i : jiter) : option out * jiter :=
  if jerr i then (None, i)                                   (* if i.err != nil { return nil, false } *)
  else match jvals i with
       | v :: r => (Some (OVal v), mkj r (jbad i) false)
       | [] => if jbad i then (Some OErr, mkj [] (jbad i) true)   (* i.err = &jsonParseError; return i.err, true *)
               else (None, mkj [] false true)                     (* io.EOF: i.err = err; return nil, false *)
       end.

(* ---- jsonInputIter with next = jsonStream.next (newStreamInputIter) ----------------------- *)
Record siter := mks { ssm : sm; stoks : list token; send : ending; serr : bool }.

Definition pelem_value (p : pelem) : value :=
  match p with PIdx n => VS (SNum (print_N n)) | PKey t => VS t end.
Definition leaf_value (l : leafval) : value :=
  match l with LS s => VS s | LEmptyArr => VArr VNil | LEmptyObj => VObj MNil end.
Definition event_value (e : event) : value :=
  match e with
  | Leaf p v => varr [varr (map pelem_value p); leaf_value v]
  | Close p => varr [varr (map pelem_value p)]
  end.

Definition stream_next (i : siter) : option out * siter :=
  if serr i then (None, i)
  else match next (ssm i) (stoks i) (send i) with
       | NEmit ev s1 r => (Some (OVal (event_value ev)), mks s1 r (send i) false)
       | NStop End => (None, mks (ssm i) [] (send i) true)
       | NStop Err => (Some OErr, mks (ssm i) [] (send i) true)
       | NStop _ => (Some OPanic, mks (ssm i) [] (send i) true)
       end.

(* ---- rawInputIter -------------------------------------------------------------------------- *)
(* bufio.Reader.ReadString('\n'): bytes up to and including the first \n; found=false = io.EOF *)
Fixpoint read_string (t : list N) : list N * list N * bool :=
  match t with
  | [] => ([], [], false)
  | c :: r => if c =? 10 then ([c], r, true)
              else let '(l, rest, f) := read_string r in (c :: l, rest, f)
  end.

(* strings.TrimSuffix(line, "\n") *)
Fixpoint trim_nl (l : list N) : list N :=
  match l with
  | [] => []
  | [c] => if c =? 10 then [] else [c]
  | c :: r => c :: trim_nl r
  end.

Record riter := mkr { rtext : list N; rerr : bool }.

Definition raw_next (i : riter) : option out * riter :=
  if rerr i then (None, i)
  else let '(line, rest, found) := read_string (rtext i) in
       if found then (Some (OVal (vstr (trim_nl line))), mkr rest false)
       else (* err == io.EOF: i.err = err *)
         match line with
         | [] => (None, mkr rest true)
         | _ => (Some (OVal (vstr (trim_nl line))), mkr rest true)
         end.

(* ---- readAllIter --------------------------------------------------------------------------- *)
Record aiter := mka { atext : list N; aerr : bool }.
Definition all_next (i : aiter) : option out * aiter :=
  if aerr i then (None, i) else (Some (OVal (vstr (atext i))), mka (atext i) true).

(* ---- nullInputIter ------------------------------------------------------------------------- *)
Definition null_next (done : bool) : option out * bool :=
  if done then (None, true) else (Some (OVal (VS SNull)), true).

(* ---- the per-file iterator chosen by createInputIter --------------------------------------- *)
Inductive fmt := FJson | FStream | FRaw | FAll.

(* everything the model needs to know about one input (file or stdin) *)
Record fdata := mkfd { ftext : list N; fvals : list value; fbad : bool; ftoks : list token; fend : ending }.

Inductive inner := IJ (i : jiter) | IS (i : siter) | IR (i : riter) | IA (i : aiter).

Definition new_inner (f : fmt) (d : fdata) : inner :=
  match f with
  | FJson => IJ (mkj (fvals d) (fbad d) false)
  | FStream => IS (mks init (ftoks d) (fend d) false)
  | FRaw => IR (mkr (ftext d) false)
  | FAll => IA (mka (ftext d) false)
  end.

Definition inner_next (i : inner) : option out * inner :=
  match i with
  | IJ j => let (o, j') := json_next j in (o, IJ j')
  | IS j => let (o, j') := stream_next j in (o, IS j')
  | IR j => let (o, j') := raw_next j in (o, IR j')
  | IA j => let (o, j') := all_next j in (o, IA j')
  end.

(* ---- filesInputIter, generic in the per-file iterator -------------------------------------- *)
Inductive fsrc (D : Type) := FMissing | FData (d : D).
Arguments FMissing {D}.
Arguments FData {D} d.

Section Files.
  Variables (D I : Type) (mkI : D -> I) (inext : I -> option out * I).

  (* cur = Some it  <->  i.file != nil *)
  Record fstate := mkf { ffs : list (fsrc D); fcur : option I; ferr : bool }.

  (* the for loop entered with i.file == nil *)
  Fixpoint files_open (fs : list (fsrc D)) : option out * fstate :=
    match fs with
    | [] => (None, mkf [] None true)                       (* i.err = io.EOF; return nil, false *)
    | FMissing :: r => (Some OErr, mkf r None false)       (* os.Open failed: return err, true *)
    | FData d :: r =>
        match inext (mkI d) with
        | (Some o, it) => (Some o, mkf r (Some it) false)
        | (None, _) => files_open r                        (* close; i.file = nil; loop *)
        end
    end.

  Definition files_next (s : fstate) : option out * fstate :=
    if ferr s then (None, s)
    else match fcur s with
         | Some it => match inext it with
                      | (Some o, it') => (Some o, mkf (ffs s) (Some it') false)
                      | (None, _) => files_open (ffs s)
                      end
         | None => files_open (ffs s)
         end.
End Files.
Arguments mkf {D I}.
Arguments ffs {D I}.
Arguments fcur {D I}.
Arguments ferr {D I}.

(* ---- slurpInputIter / slurpRawInputIter, generic in the wrapped iterator ------------------- *)
Section Slurp.
  Variables (I : Type) (inext : I -> option out * I).

  (* the for loop of slurpInputIter.Next; fuel bounds the number of inner Next calls *)
  Fixpoint slurp_loop (fuel : nat) (i : I) (vs : list value) : option (out * I) :=
    match fuel with
    | O => None
    | S f => match inext i with
             | (None, i') => Some (OVal (varr vs), i')          (* i.err = io.EOF; return vs, true *)
             | (Some (OVal v), i') => slurp_loop f i' (vs ++ [v])
             | (Some e, i') => Some (e, i')                     (* i.err = the error; return it *)
             end
    end.

  Definition slurp_next (fuel : nat) (s : I * bool) : option (option out * (I * bool)) :=
    if snd s then Some (None, s)
    else match slurp_loop fuel (fst s) [] with
         | Some (o, i') => Some (Some o, (i', true))
         | None => None
         end.

  (* slurpRawInputIter: strings.Join(vs, "") *)
  Definition str_of (v : value) : option (list N) := match v with VS (SStr s) => Some s | _ => None end.
  Fixpoint slurpraw_loop (fuel : nat) (i : I) (acc : list N) : option (out * I) :=
    match fuel with
    | O => None
    | S f => match inext i with
             | (None, i') => Some (OVal (vstr acc), i')
             | (Some (OVal v), i') =>
                 match str_of v with
                 | Some s => slurpraw_loop f i' (acc ++ s)
                 | None => Some (OPanic, i')                    (* v.(string) would panic *)
                 end
             | (Some e, i') => Some (e, i')
             end
    end.

  Definition slurpraw_next (fuel : nat) (s : I * bool) : option (option out * (I * bool)) :=
    if snd s then Some (None, s)
    else match slurpraw_loop fuel (fst s) [] with
         | Some (o, i') => Some (Some o, (i', true))
         | None => None
         end.

  (* the slurp wrappers as iterators of their own (fuel exhaustion shows up as OPanic) *)
  Definition slurp_it (fuel : nat) (s : I * bool) : option out * (I * bool) :=
    match slurp_next fuel s with Some r => r | None => (Some OPanic, s) end.
  Definition slurpraw_it (fuel : nat) (s : I * bool) : option out * (I * bool) :=
    match slurpraw_next fuel s with Some r => r | None => (Some OPanic, s) end.

  (* ---- funcInput and builtin.jq's inputs over the shared iterator ------------------------- *)
  (* input: the next value; at the end the error "break"; an error value is raised *)
  Inductive inres := InVal (v : value) | InBreak | InErr.
  Definition func_input (i : I) : inres * I :=
    match inext i with
    | (None, i') => (InBreak, i')
    | (Some (OVal v), i') => (InVal v, i')
    | (Some _, i') => (InErr, i')
    end.

  (* def inputs: try repeat(input) catch if . == "break" then empty else error end;
     collected by [ ... ]: Some vs = the array, None = the query failed with an error *)
  Fixpoint inputs_loop (fuel : nat) (i : I) (vs : list value) : option (option (list value) * I) :=
    match fuel with
    | O => None
    | S f => match func_input i with
             | (InVal v, i') => inputs_loop f i' (vs ++ [v])
             | (InBreak, i') => Some (Some vs, i')
             | (InErr, i') => Some (None, i')
             end
    end.

  (* k successive calls of input *)
  Fixpoint input_calls (k : nat) (i : I) : list inres :=
    match k with
    | O => []
    | S k' => let (r, i') := func_input i in r :: input_calls k' i'
    end.

  (* ---- cli.process: the main loop; a query consumes the shared iterator ------------------- *)
  (* printed: a value on stdout or one error line on stderr *)
  Definition query := value -> I -> list out * I.

  Fixpoint process (fuel : nat) (q : query) (i : I) : option (list out) :=
    match fuel with
    | O => None
    | S f => match inext i with
             | (None, _) => Some []
             | (Some (OVal v), i') =>
                 let (printed, i'') := q v i' in
                 option_map (app printed) (process f q i'')
             | (Some e, i') => option_map (cons e) (process f q i')
             end
    end.

  (* -n: the main loop sees nullInputIter; the query reads the real iterator *)
  Definition process_null (q : query) (i : I) : list out := fst (q (VS SNull) i).

  Definition q_id : query := fun v i => ([OVal v], i).
  (* [., input] *)
  Definition q_pair : query := fun v i =>
    match func_input i with
    | (InVal w, i') => ([OVal (varr [v; w])], i')
    | (_, i') => ([OErr], i')
    end.
  (* [inputs] *)
  Definition q_inputs (fuel : nat) : query := fun _ i =>
    match inputs_loop fuel i [] with
    | Some (Some vs, i') => ([OVal (varr vs)], i')
    | Some (None, i') => ([OErr], i')
    | None => ([OPanic], i)
    end.
  (* input, input, …, input (k times): the values, and the first error ends the query *)
  Fixpoint q_input_k (k : nat) : query := fun v i =>
    match k with
    | O => ([], i)
    | S k' => match func_input i with
              | (InVal w, i') => let (r, i'') := q_input_k k' v i' in (OVal w :: r, i'')
              | (_, i') => ([OErr], i')
              end
    end.

  (* ---- programs that consume PART of the shared iterator through a laziness construct and then go on
     (the number of items each construct pulls is part of the property: input/inputs deliver every
     value exactly once).  Transcribed from builtin.jq:
       limit($n; g)  = label $out | foreach g as $item ($n; . - 1; $item, if . <= 0 then break $out else empty end)
                       ($n = 0: empty): pulls exactly n items
       first(g)      = label $out | g | ., break $out            : pulls one item
       isempty(g)    = label $out | (g | false, break $out), true : pulls one item
       until(c; f)   = def _until: if c then . else f | _until end : one item per round
       repeat(input) : one item per round, the error "break" at the end is NOT caught *)
  Inductive stage :=
  | StTake (k : nat)        (* [limit(k; inputs)] *)
  | StRest                  (* [inputs] *)
  | StFirst                 (* first(inputs)   and   (label $o | inputs | ., break $o) *)
  | StTakeRepeat (k : nat)  (* [limit(k; repeat(input))] *)
  | StInput                 (* input *)
  | StIsEmpty               (* isempty(inputs) *)
  | StReduceCount (k : nat) (* reduce limit(k; inputs) as $x (0; . + 1) *)
  | StForeach (k : nat)     (* [foreach limit(k; inputs) as $x (0; . + 1; [., $x])] *)
  | StInputFilter           (* (input as $a | [inputs | select(type == ($a | type))]) *)
  | StUntil.                (* (null | until(. != null; input)) *)

  (* limit(k; g) over g = inputs (brk = false: the end of the input ends g) or g = repeat(input)
     (brk = true: the end of the input is the uncaught error "break") *)
  Fixpoint take_loop (brk : bool) (k : nat) (i : I) (vs : list value) : option (list value) * I :=
    match k with
    | O => (Some vs, i)
    | S k' => match func_input i with
              | (InVal v, i') => take_loop brk k' i' (vs ++ [v])
              | (InBreak, i') => (if brk then None else Some vs, i')
              | (InErr, i') => (None, i')
              end
    end.

  Inductive vtype := TNull | TBool | TNumber | TString | TArray | TObject.
  Definition type_of (v : value) : vtype :=
    match v with
    | VS SNull => TNull | VS STrue | VS SFalse => TBool | VS (SNum _) => TNumber | VS (SStr _) => TString
    | VArr _ => TArray | VObj _ => TObject
    end.
  Definition vtype_eqb (a b : vtype) : bool :=
    match a, b with
    | TNull, TNull | TBool, TBool | TNumber, TNumber | TString, TString | TArray, TArray | TObject, TObject => true
    | _, _ => false
    end.

  Definition vnat (n : nat) : value := VS (SNum (print_N (N.of_nat n))).
  Fixpoint numbered (n : nat) (vs : list value) : list value :=
    match vs with [] => [] | v :: r => varr [vnat n; v] :: numbered (S n) r end.

  Fixpoint until_loop (fuel : nat) (i : I) : option (option value * I) :=
    match fuel with
    | O => None
    | S f => match func_input i with
             | (InVal (VS SNull), i') => until_loop f i'
             | (InVal v, i') => Some (Some v, i')
             | (_, i') => Some (None, i')
             end
    end.

  (* what the stage prints (None = it fails with an error) and the iterator afterwards *)
  Definition run_stage (fuel : nat) (st : stage) (i : I) : option (list value) * I :=
    match st with
    | StTake k => let (r, i') := take_loop false k i [] in (option_map (fun vs => [varr vs]) r, i')
    | StTakeRepeat k => let (r, i') := take_loop true k i [] in (option_map (fun vs => [varr vs]) r, i')
    | StReduceCount k => let (r, i') := take_loop false k i [] in (option_map (fun vs => [vnat (List.length vs)]) r, i')
    | StForeach k => let (r, i') := take_loop false k i [] in (option_map (fun vs => [varr (numbered 1 vs)]) r, i')
    | StRest => match inputs_loop fuel i [] with
                | Some (Some vs, i') => (Some [varr vs], i')
                | Some (None, i') => (None, i')
                | None => (None, i)
                end
    | StFirst => match func_input i with
                 | (InVal v, i') => (Some [v], i')
                 | (InBreak, i') => (Some [], i')
                 | (InErr, i') => (None, i')
                 end
    | StInput => match func_input i with
                 | (InVal v, i') => (Some [v], i')
                 | (_, i') => (None, i')
                 end
    | StIsEmpty => match func_input i with
                   | (InVal _, i') => (Some [VS SFalse], i')
                   | (InBreak, i') => (Some [VS STrue], i')
                   | (InErr, i') => (None, i')
                   end
    | StInputFilter =>
        match func_input i with
        | (InVal a, i') =>
            match inputs_loop fuel i' [] with
            | Some (Some vs, i'') => (Some [varr (filter (fun v => vtype_eqb (type_of v) (type_of a)) vs)], i'')
            | Some (None, i'') => (None, i'')
            | None => (None, i')
            end
        | (_, i') => (None, i')
        end
    | StUntil => match until_loop fuel i with
                 | Some (Some v, i') => (Some [v], i')
                 | Some (None, i') => (None, i')
                 | None => (None, i)
                 end
    end.

  (* st1, st2, … : the outputs in order; the first failing stage ends the query with one error *)
  Fixpoint run_prog (fuel : nat) (sts : list stage) (i : I) : list out * I :=
    match sts with
    | [] => ([], i)
    | st :: r => match run_stage fuel st i with
                 | (Some vs, i') => let (o, i'') := run_prog fuel r i' in (map OVal vs ++ o, i'')
                 | (None, i') => ([OErr], i')
                 end
    end.
  Definition q_prog (fuel : nat) (sts : list stage) : query := fun _ i => run_prog fuel sts i.

  (* [.[]?, input] without -n: the elements of the main value, then the next value *)
  Fixpoint vlist_to_list (l : vlist) : list value := match l with VNil => [] | VCons v r => v :: vlist_to_list r end.
  Fixpoint mlist_values (m : mlist) : list value := match m with MNil => [] | MCons _ v r => v :: mlist_values r end.
  Definition iter_values (v : value) : list value :=
    match v with VArr l => vlist_to_list l | VObj m => mlist_values m | VS _ => [] end.
  Definition q_iter_input : query := fun v i =>
    match func_input i with
    | (InVal w, i') => ([OVal (varr (iter_values v ++ [w]))], i')
    | (_, i') => ([OErr], i')
    end.
End Slurp.

(* ---- createInputIter ------------------------------------------------------------------------ *)
Record mode := mkmode { m_raw : bool; m_stream : bool; m_slurp : bool }.

Definition fmt_of (m : mode) : fmt :=
  if m_raw m then (if m_slurp m then FAll else FRaw)
  else if m_stream m then FStream else FJson.

(* without file arguments: newIter(cli.inStream); otherwise filesInputIter, "-" = stdin *)
Inductive top := TInner (i : inner) | TFiles (f : fmt) (s : @fstate fdata inner).

Definition top_next (t : top) : option out * top :=
  match t with
  | TInner i => let (o, i') := inner_next i in (o, TInner i')
  | TFiles f s => let (o, s') := files_next fdata inner (new_inner f) inner_next s in (o, TFiles f s')
  end.

(* args = the file operands; stdin = what "-" or no operand reads *)
Definition create_top (m : mode) (stdin : fdata) (args : list (fsrc fdata)) : top :=
  match args with
  | [] => TInner (new_inner (fmt_of m) stdin)
  | _ => TFiles (fmt_of m) (mkf args None false)
  end.
