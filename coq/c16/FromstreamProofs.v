(* C16: the transcription of jq's fromstream (Fromstream.v) rebuilds every document with duplicate-free
   keys from its tostream events in document order. *)
From Coq Require Import List NArith Bool Arith Lia.
From Verif Require Import common.Sexp c16.Stream c16.StreamProofs c16.Fromstream.
Import ListNotations.
Open Scope nat_scope.

(* ---- update at a path --------------------------------------------------------------------------- *)
Fixpoint upd (p : list pelem) (f : value -> option value) (V : value) : option value :=
  match p with
  | [] => f V
  | PIdx i :: q =>
      match V with
      | VArr l => option_map (fun c => VArr (set_index (N.to_nat i) c l)) (upd q f (nth_v (N.to_nat i) l))
      | VS SNull => option_map (fun c => VArr (set_index (N.to_nat i) c VNil)) (upd q f vnull)
      | _ => None
      end
  | PKey (SStr k) :: q =>
      match V with
      | VObj m => option_map (fun c => VObj (set_key k c m)) (upd q f (get_key k m))
      | VS SNull => option_map (fun c => VObj (MCons k c MNil)) (upd q f vnull)
      | _ => None
      end
  | PKey _ :: _ => None
  end.

Definition kc (f g : value -> option value) : value -> option value :=
  fun c => match f c with Some c' => g c' | None => None end.

Lemma setpath_upd : forall p x V, setpath p x V = upd p (fun _ => Some x) V.
Proof.
  induction p as [|a q IH]; intros x V; [reflexivity|].
  destruct a as [i|[]]; try reflexivity; destruct V as [[]| |]; cbn; rewrite ?IH; reflexivity.
Qed.

Lemma upd_app : forall p q f V, upd (p ++ q) f V = upd p (upd q f) V.
Proof.
  induction p as [|a p IH]; intros q f V; [reflexivity|].
  destruct a as [i|[]]; try reflexivity; destruct V as [[]| |]; cbn; rewrite ?IH; reflexivity.
Qed.

Lemma nth_set : forall i c l, nth_v i (set_index i c l) = c.
Proof. induction i as [|i IH]; intros c [|y r]; cbn; auto. Qed.

Lemma set_set : forall i c c' l, set_index i c' (set_index i c l) = set_index i c' l.
Proof. induction i as [|i IH]; intros c c' [|y r]; cbn; auto; now rewrite IH. Qed.

Lemma list_N_eqb_refl : forall k, list_N_eqb k k = true.
Proof. induction k; cbn; [reflexivity|]. now rewrite N.eqb_refl. Qed.

Lemma list_N_eqb_eq : forall a b, list_N_eqb a b = true -> a = b.
Proof.
  induction a as [|x a IH]; destruct b as [|y b]; cbn; intros H; try congruence.
  apply andb_true_iff in H. destruct H as [H1 H2]. apply N.eqb_eq in H1. apply IH in H2. congruence.
Qed.

Lemma get_set_key : forall k c m, get_key k (set_key k c m) = c.
Proof.
  induction m as [|k' y r IH]; cbn.
  - now rewrite list_N_eqb_refl.
  - destruct (list_N_eqb k k') eqn:E; cbn; [now rewrite list_N_eqb_refl | now rewrite E].
Qed.

Lemma set_set_key : forall k c c' m, set_key k c' (set_key k c m) = set_key k c' m.
Proof.
  induction m as [|k' y r IH]; cbn.
  - now rewrite list_N_eqb_refl.
  - destruct (list_N_eqb k k') eqn:E; cbn; [now rewrite list_N_eqb_refl | now rewrite E, IH].
Qed.

Lemma upd_comp : forall p f g V V1, upd p f V = Some V1 -> upd p g V1 = upd p (kc f g) V.
Proof.
  induction p as [|a q IH]; intros f g V V1 H.
  - cbn in *. unfold kc. now rewrite H.
  - destruct a as [i|[]]; try discriminate; destruct V as [[]| |]; try discriminate; cbn in H |- *.
    + destruct (upd q f vnull) as [c|] eqn:E; [|discriminate]. inversion H; subst. cbn.
      rewrite nth_set, (IH _ _ _ _ E). destruct (upd q (kc f g) vnull); cbn; [now rewrite set_set | reflexivity].
    + destruct (upd q f (nth_v (N.to_nat i) l)) as [c|] eqn:E; [|discriminate]. inversion H; subst. cbn.
      rewrite nth_set, (IH _ _ _ _ E). destruct (upd q (kc f g) _); cbn; [now rewrite set_set | reflexivity].
    + destruct (upd q f vnull) as [c|] eqn:E; [|discriminate]. inversion H; subst. cbn.
      rewrite list_N_eqb_refl, (IH _ _ _ _ E). destruct (upd q (kc f g) vnull); cbn; rewrite ?list_N_eqb_refl; reflexivity.
    + destruct (upd q f (get_key s m)) as [c|] eqn:E; [|discriminate]. inversion H; subst. cbn.
      rewrite get_set_key, (IH _ _ _ _ E). destruct (upd q (kc f g) _); cbn; [now rewrite set_set_key | reflexivity].
Qed.

Lemma upd_comp_none : forall p f g V, upd p f V = None -> upd p (kc f g) V = None.
Proof.
  induction p as [|a q IH]; intros f g V H.
  - cbn in *. unfold kc. now rewrite H.
  - destruct a as [i|[]]; try reflexivity; destruct V as [[]| |]; try reflexivity; cbn in H |- *.
    + destruct (upd q f vnull) eqn:E; [discriminate|]. now rewrite (IH _ _ _ E).
    + destruct (upd q f (nth_v (N.to_nat i) l)) eqn:E; [discriminate|]. now rewrite (IH _ _ _ E).
    + destruct (upd q f vnull) eqn:E; [discriminate|]. now rewrite (IH _ _ _ E).
    + destruct (upd q f (get_key s m)) eqn:E; [discriminate|]. now rewrite (IH _ _ _ E).
Qed.

(* two updates below the same path, in sequence *)
Lemma upd_seq : forall p f g V,
  match upd p f V with Some V1 => upd p g V1 | None => None end = upd p (kc f g) V.
Proof.
  intros. destruct (upd p f V) eqn:E; [now apply upd_comp | symmetry; now apply upd_comp_none].
Qed.

(* ---- the leaf events alone ----------------------------------------------------------------------- *)
Fixpoint fold_leaves (evs : list event) (V : value) : option value :=
  match evs with
  | [] => Some V
  | Leaf p v :: r => match setpath p (leaf_val v) V with Some V1 => fold_leaves r V1 | None => None end
  | Close _ :: r => fold_leaves r V
  end.

Lemma fold_leaves_app : forall a b V,
  fold_leaves (a ++ b) V = match fold_leaves a V with Some V1 => fold_leaves b V1 | None => None end.
Proof.
  induction a as [|[p v|p] a IH]; intros b V; cbn; [reflexivity| |apply IH].
  destruct (setpath p (leaf_val v) V); [apply IH | reflexivity].
Qed.

(* ---- lists ---------------------------------------------------------------------------------------- *)
Fixpoint len_v (l : vlist) : nat := match l with VNil => 0 | VCons _ r => S (len_v r) end.
Fixpoint app_v (a b : vlist) : vlist := match a with VNil => b | VCons x r => VCons x (app_v r b) end.
Fixpoint app_m (a b : mlist) : mlist := match a with MNil => b | MCons k x r => MCons k x (app_m r b) end.

Lemma nth_v_len : forall pre, nth_v (len_v pre) pre = vnull.
Proof. induction pre; cbn; auto. Qed.
Lemma set_index_len : forall pre x, set_index (len_v pre) x pre = app_v pre (VCons x VNil).
Proof. induction pre; intros; cbn; [reflexivity | now rewrite IHpre]. Qed.
Lemma app_v_snoc : forall pre x r, app_v (app_v pre (VCons x VNil)) r = app_v pre (VCons x r).
Proof. induction pre; intros; cbn; [reflexivity | now rewrite IHpre]. Qed.
Lemma len_v_snoc : forall pre x, len_v (app_v pre (VCons x VNil)) = S (len_v pre).
Proof. induction pre; intros; cbn; [reflexivity | now rewrite IHpre]. Qed.
Lemma app_m_snoc : forall pre k x r, app_m (app_m pre (MCons k x MNil)) r = app_m pre (MCons k x r).
Proof. induction pre; intros; cbn; [reflexivity | now rewrite IHpre]. Qed.
Lemma get_key_none : forall k pre, has_key k pre = false -> get_key k pre = vnull.
Proof.
  induction pre as [|k' y r IH]; cbn; intros H; [reflexivity|].
  apply orb_false_iff in H. destruct H as [H1 H2]. rewrite H1. now apply IH.
Qed.
Lemma set_key_fresh : forall k x pre, has_key k pre = false -> set_key k x pre = app_m pre (MCons k x MNil).
Proof.
  induction pre as [|k' y r IH]; cbn; intros H; [reflexivity|].
  apply orb_false_iff in H. destruct H as [H1 H2]. rewrite H1. now rewrite IH.
Qed.
Lemma has_key_app : forall k a b, has_key k (app_m a b) = has_key k a || has_key k b.
Proof. induction a as [|k' y r IH]; intros; cbn; [reflexivity | now rewrite IH, orb_assoc]. Qed.

(* ---- the events of a value, seen from its own root ------------------------------------------------ *)
Definition B_value (v : value) : Prop :=
  nodup_keys v = true ->
  exists f, (forall rp V, fold_leaves (ts_val rp v) V = upd (rev rp) f V) /\ f vnull = Some v.

Definition B_vlist (l : vlist) : Prop :=
  nodup_keys_l l = true -> l <> VNil -> forall i,
  exists f, (forall rp V, fold_leaves (ts_elems rp i l) V = upd (rev rp) f V)
         /\ (forall pre, len_v pre = N.to_nat i -> f (VArr pre) = Some (VArr (app_v pre l)))
         /\ (N.to_nat i = 0 -> f vnull = Some (VArr l)).

Definition B_mlist (m : mlist) : Prop :=
  nodup_keys_m m = true -> m <> MNil ->
  exists f, (forall rp V, fold_leaves (ts_membs rp m) V = upd (rev rp) f V)
         /\ (forall pre, (forall k, has_key k pre = true -> has_key k m = false) ->
               f (VObj pre) = Some (VObj (app_m pre m)))
         /\ f vnull = Some (VObj m).

Lemma rev_cons_app : forall (a : pelem) rp, rev (a :: rp) = rev rp ++ [a].
Proof. reflexivity. Qed.

Lemma fold_val_close : forall evs c V, fold_leaves (evs ++ [Close c]) V = fold_leaves evs V.
Proof. intros. rewrite fold_leaves_app. destruct (fold_leaves evs V); reflexivity. Qed.

Lemma fromstream_gen : (forall v, B_value v) /\ (forall l, B_vlist l) /\ (forall m, B_mlist m).
Proof.
  apply value_vlist_mlist_ind; unfold B_value, B_vlist, B_mlist.
  - (* scalar *)
    intros s _. exists (fun _ => Some (VS s)). split; [|reflexivity].
    intros rp V. cbn. rewrite setpath_upd. destruct (upd (rev rp) _ V); reflexivity.
  - (* array *)
    intros l IH ND. destruct l as [|x r].
    + exists (fun _ => Some (VArr VNil)). split; [|reflexivity].
      intros rp V. cbn. rewrite setpath_upd. destruct (upd (rev rp) _ V); reflexivity.
    + destruct (IH ND ltac:(discriminate) 0%N) as [f [F1 [F2 F3]]].
      exists f. split; [|now apply F3]. intros rp V. apply F1.
  - (* object *)
    intros m IH ND. destruct m as [|k x r].
    + exists (fun _ => Some (VObj MNil)). split; [|reflexivity].
      intros rp V. cbn. rewrite setpath_upd. destruct (upd (rev rp) _ V); reflexivity.
    + destruct (IH ND ltac:(discriminate)) as [f [F1 [F2 F3]]].
      exists f. split; [|exact F3]. intros rp V. apply F1.
  - intros _ H. congruence.
  - (* VCons *)
    intros x IHx r IHr ND _ i. cbn [nodup_keys_l] in ND. apply andb_true_iff in ND. destruct ND as [NDx NDr].
    destruct (IHx NDx) as [fx [X1 X2]].
    assert (HEAD : forall pre, len_v pre = N.to_nat i ->
              upd [PIdx i] fx (VArr pre) = Some (VArr (app_v pre (VCons x VNil)))).
    { intros pre L. cbn. rewrite <- L, nth_v_len, X2. cbn. now rewrite set_index_len. }
    destruct r as [|x' r'].
    + exists (upd [PIdx i] fx). repeat split.
      * intros rp V. cbn [ts_elems]. rewrite fold_val_close, X1, rev_cons_app. apply upd_app.
      * exact HEAD.
      * intros Z. unfold vnull. cbn [upd]. rewrite Z, X2. reflexivity.
    + destruct (IHr NDr ltac:(discriminate) (i + 1)%N) as [fr [R1 [R2 R3]]].
      exists (kc (upd [PIdx i] fx) fr). repeat split.
      * intros rp V. change (ts_elems rp i (VCons x (VCons x' r')))
          with (ts_val (PIdx i :: rp) x ++ ts_elems rp (i + 1)%N (VCons x' r')).
        rewrite fold_leaves_app, X1, rev_cons_app, upd_app.
        rewrite <- upd_seq. destruct (upd (rev rp) (upd [PIdx i] fx) V); [apply R1 | reflexivity].
      * intros pre L. unfold kc. rewrite (HEAD pre L). rewrite R2.
        -- now rewrite app_v_snoc.
        -- rewrite len_v_snoc, L, N2Nat.inj_add. cbn. lia.
      * intros Z. unfold kc, vnull. cbn [upd]. rewrite Z, X2. cbn [option_map set_index].
        rewrite (R2 (VCons x VNil)); [reflexivity | rewrite N2Nat.inj_add, Z; reflexivity].
  - intros _ H. congruence.
  - (* MCons *)
    intros k x IHx r IHr ND _. cbn [nodup_keys_m] in ND.
    apply andb_true_iff in ND. destruct ND as [ND NDr]. apply andb_true_iff in ND. destruct ND as [NK NDx].
    apply negb_true_iff in NK.
    destruct (IHx NDx) as [fx [X1 X2]].
    assert (HEAD : forall pre, has_key k pre = false ->
              upd [PKey (SStr k)] fx (VObj pre) = Some (VObj (app_m pre (MCons k x MNil)))).
    { intros pre L. cbn. rewrite (get_key_none _ _ L), X2. cbn. now rewrite set_key_fresh. }
    assert (FRESH : forall pre, (forall k0, has_key k0 pre = true -> has_key k0 (MCons k x r) = false) ->
              has_key k pre = false).
    { intros pre H. destruct (has_key k pre) eqn:E; [|reflexivity].
      specialize (H k E). cbn in H. now rewrite list_N_eqb_refl in H. }
    destruct r as [|k' x' r'].
    + exists (upd [PKey (SStr k)] fx). repeat split.
      * intros rp V. cbn [ts_membs]. rewrite fold_val_close, X1, rev_cons_app. apply upd_app.
      * intros pre H. apply HEAD, FRESH, H.
      * unfold vnull. cbn [upd]. rewrite X2. reflexivity.
    + destruct (IHr NDr ltac:(discriminate)) as [fr [R1 [R2 R3]]].
      assert (NEXT : forall pre, (forall k0, has_key k0 pre = true -> has_key k0 (MCons k x (MCons k' x' r')) = false) ->
                forall k0, has_key k0 (app_m pre (MCons k x MNil)) = true -> has_key k0 (MCons k' x' r') = false).
      { intros pre H k0 H0. rewrite has_key_app in H0. apply orb_true_iff in H0. destruct H0 as [H0|H0].
        - specialize (H k0 H0). cbn [has_key] in H. apply orb_false_iff in H. tauto.
        - cbn in H0. rewrite orb_false_r in H0. apply list_N_eqb_eq in H0. subst k0. exact NK. }
      exists (kc (upd [PKey (SStr k)] fx) fr). repeat split.
      * intros rp V. change (ts_membs rp (MCons k x (MCons k' x' r')))
          with (ts_val (PKey (SStr k) :: rp) x ++ ts_membs rp (MCons k' x' r')).
        rewrite fold_leaves_app, X1, rev_cons_app, upd_app.
        rewrite <- upd_seq. destruct (upd (rev rp) (upd [PKey (SStr k)] fx) V); [apply R1 | reflexivity].
      * intros pre H. unfold kc. rewrite (HEAD pre (FRESH pre H)). rewrite R2 by (apply NEXT, H).
        now rewrite app_m_snoc.
      * unfold kc, vnull. cbn [upd]. rewrite X2. cbn [option_map].
        rewrite (R2 (MCons k x MNil)); [reflexivity|].
        intros k0 H0. apply (NEXT MNil); [intros ? X; discriminate | exact H0].
Qed.

(* ---- depth of the events below a path ------------------------------------------------------------- *)
Definition deep (n : nat) (ev : event) : Prop :=
  match ev with Leaf p _ => n <= List.length p | Close p => S n <= List.length p end.

Lemma deep_mono : forall n m ev, n <= m -> deep m ev -> deep n ev.
Proof. intros n m [p v|p] L H; cbn in *; lia. Qed.

Lemma Forall_deep_mono : forall n m evs, n <= m -> Forall (deep m) evs -> Forall (deep n) evs.
Proof. intros. eapply Forall_impl; [|eassumption]. intros. eapply deep_mono; eauto. Qed.

Lemma ts_deep : (forall v rp, Forall (deep (List.length rp)) (ts_val rp v))
  /\ (forall l rp i, Forall (deep (List.length rp)) (ts_elems rp i l))
  /\ (forall m rp, Forall (deep (List.length rp)) (ts_membs rp m)).
Proof.
  apply value_vlist_mlist_ind.
  - intros s rp. repeat constructor. cbn. now rewrite rev_length.
  - intros l IH rp. destruct l; [|apply IH]. repeat constructor. cbn. now rewrite rev_length.
  - intros m IH rp. destruct m; [|apply IH]. repeat constructor. cbn. now rewrite rev_length.
  - constructor.
  - intros x IHx r IHr rp i.
    assert (H : Forall (deep (List.length rp)) (ts_val (PIdx i :: rp) x)).
    { eapply Forall_deep_mono; [|apply IHx]. cbn. lia. }
    destruct r as [|x' r'].
    + cbn [ts_elems]. apply Forall_app. split; [exact H|]. repeat constructor.
      cbn [deep]. rewrite rev_length. cbn. lia.
    + change (ts_elems rp i (VCons x (VCons x' r')))
        with (ts_val (PIdx i :: rp) x ++ ts_elems rp (i + 1)%N (VCons x' r')).
      apply Forall_app. split; [exact H | apply IHr].
  - constructor.
  - intros k x IHx r IHr rp.
    assert (H : Forall (deep (List.length rp)) (ts_val (PKey (SStr k) :: rp) x)).
    { eapply Forall_deep_mono; [|apply IHx]. cbn. lia. }
    destruct r as [|k' x' r'].
    + cbn [ts_membs]. apply Forall_app. split; [exact H|]. repeat constructor.
      cbn [deep]. rewrite rev_length. cbn. lia.
    + change (ts_membs rp (MCons k x (MCons k' x' r')))
        with (ts_val (PKey (SStr k) :: rp) x ++ ts_membs rp (MCons k' x' r')).
      apply Forall_app. split; [exact H | apply IHr].
Qed.

(* a non-empty container: the events of the children, then one closing event one level down *)
Lemma elems_split : forall l rp i, l <> VNil ->
  exists body j, ts_elems rp i l = body ++ [Close (rev (PIdx j :: rp))]
                 /\ Forall (deep (S (List.length rp))) body.
Proof.
  induction l as [|x r IH]; intros rp i H; [congruence|].
  destruct ts_deep as [D _]. destruct r as [|x' r'].
  - exists (ts_val (PIdx i :: rp) x), i. split; [reflexivity | apply (D x (PIdx i :: rp))].
  - destruct (IH rp (i + 1)%N ltac:(discriminate)) as [body [j [E F]]].
    exists (ts_val (PIdx i :: rp) x ++ body), j. split.
    + change (ts_elems rp i (VCons x (VCons x' r')))
        with (ts_val (PIdx i :: rp) x ++ ts_elems rp (i + 1)%N (VCons x' r')).
      rewrite E. now rewrite app_assoc.
    + apply Forall_app. split; [apply (D x (PIdx i :: rp)) | exact F].
Qed.

Lemma membs_split : forall m rp, m <> MNil ->
  exists body j, ts_membs rp m = body ++ [Close (rev (PKey (SStr j) :: rp))]
                 /\ Forall (deep (S (List.length rp))) body.
Proof.
  induction m as [|k x r IH]; intros rp H; [congruence|].
  destruct ts_deep as [D _]. destruct r as [|k' x' r'].
  - exists (ts_val (PKey (SStr k) :: rp) x), k. split; [reflexivity | apply (D x (PKey (SStr k) :: rp))].
  - destruct (IH rp ltac:(discriminate)) as [body [j [E F]]].
    exists (ts_val (PKey (SStr k) :: rp) x ++ body), j. split.
    + change (ts_membs rp (MCons k x (MCons k' x' r')))
        with (ts_val (PKey (SStr k) :: rp) x ++ ts_membs rp (MCons k' x' r')).
      rewrite E. now rewrite app_assoc.
    + apply Forall_app. split; [apply (D x (PKey (SStr k) :: rp)) | exact F].
Qed.

(* ---- fromstream on events that neither complete nor close a top-level value ------------------------ *)
Lemma fs_quiet : forall evs V tl, Forall (deep 1) evs ->
  fs_run (V, false) (evs ++ tl)
  = match fold_leaves evs V with Some V' => fs_run (V', false) tl | None => None end.
Proof.
  induction evs as [|ev evs IH]; intros V tl F; [reflexivity|].
  inversion F as [|? ? D F']; subst. cbn [app fs_run fold_leaves]. destruct ev as [p v|p].
  - cbn [fs_step fst snd]. destruct (setpath p (leaf_val v) V) as [V1|]; [|reflexivity].
    destruct p as [|a p']; [cbn in D; lia|]. rewrite IH by exact F'.
    destruct (fold_leaves evs V1); [|reflexivity]. destruct (fs_run _ tl); reflexivity.
  - cbn [fs_step fst snd]. destruct p as [|a [|b p']]; [cbn in D; lia | cbn in D; lia |].
    rewrite IH by exact F'. destruct (fold_leaves evs V); [|reflexivity]. destruct (fs_run _ tl); reflexivity.
Qed.

Lemma fs_run_reset : forall V evs, fs_run (V, true) evs = fs_run (vnull, false) evs.
Proof. intros V [|ev r]; reflexivity. Qed.

Lemma one_doc : forall d rest st, nodup_keys d = true -> st = (vnull, false) \/ snd st = true ->
  fs_run st (tostream_doc_order d ++ rest) = option_map (cons d) (fs_run (d, true) rest).
Proof.
  intros d rest st ND ST.
  assert (R : fs_run st (tostream_doc_order d ++ rest) = fs_run (vnull, false) (tostream_doc_order d ++ rest)).
  { destruct ST as [->|E]; [reflexivity|]. destruct st as [V e]. cbn in E. subst e. apply fs_run_reset. }
  rewrite R. clear R ST st. unfold tostream_doc_order.
  destruct fromstream_gen as [B _]. destruct (B d ND) as [f [F1 F2]].
  assert (CLOSE : forall body c, ts_val [] d = body ++ [Close [c]] -> Forall (deep 1) body ->
            fs_run (vnull, false) (ts_val [] d ++ rest) = option_map (cons d) (fs_run (d, true) rest)).
  { intros body c E D. rewrite E, <- app_assoc, fs_quiet by exact D.
    rewrite <- (fold_val_close body [c]), <- E, F1. cbn [rev upd]. rewrite F2.
    cbn [app fs_run fs_step fst snd]. destruct (fs_run (d, true) rest); reflexivity. }
  destruct d as [s|[|x r]|[|k x r]].
  - cbn. destruct (fs_run _ rest); reflexivity.
  - cbn. destruct (fs_run _ rest); reflexivity.
  - destruct (elems_split (VCons x r) [] 0%N ltac:(discriminate)) as [body [j [E D]]].
    eapply CLOSE; [exact E | exact D].
  - cbn. destruct (fs_run _ rest); reflexivity.
  - destruct (membs_split (MCons k x r) [] ltac:(discriminate)) as [body [j [E D]]].
    eapply CLOSE; [exact E | exact D].
Qed.

Lemma fromstream_docs : forall ds st, forallb nodup_keys ds = true -> st = (vnull, false) \/ snd st = true ->
  fs_run st (flat_map tostream_doc_order ds) = Some ds.
Proof.
  induction ds as [|d ds IH]; intros st ND ST; [reflexivity|].
  cbn [forallb] in ND. apply andb_true_iff in ND. destruct ND as [N1 N2].
  cbn [flat_map]. rewrite one_doc by assumption. rewrite IH; [reflexivity | exact N2 | now right].
Qed.

Lemma fromstream_events_lemma : forall ds, forallb nodup_keys ds = true ->
  fromstream_model (flat_map tostream_doc_order ds) = Some ds.
Proof. intros. apply fromstream_docs; [assumption | now left]. Qed.

(* … applied to what --stream emits *)
Lemma fromstream_stream_lemma : forall ds, forallb nodup_keys ds = true ->
  fromstream_model (events_of (stream_events (tokens_docs ds) EndEOF)) = Some ds.
Proof.
  intros ds H. rewrite stream_tostream_lemma, events_trace_of. cbn [events_of]. rewrite app_nil_r.
  now apply fromstream_events_lemma.
Qed.
