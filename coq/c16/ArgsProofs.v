(* C16 proofs about Args.v: parseFlags + runInternal against the declarative reading of a command
   line (items / first_binding / positional_spec / rest_spec). *)
From Coq Require Import List NArith Bool Arith Lia.
From Verif Require Import common.Sexp c16.Args.
Import ListNotations.

(* ---- strings --------------------------------------------------------------------------------- *)
Lemma str_eqb_eq : forall a b, str_eqb a b = true <-> a = b.
Proof.
  unfold str_eqb. induction a as [|x a IH]; destruct b as [|y b]; cbn; split; intros H; try congruence.
  - apply andb_true_iff in H. destruct H as [H1 H2]. apply N.eqb_eq in H1. apply IH in H2. congruence.
  - inversion H; subst. apply andb_true_iff. split; [apply N.eqb_refl | now apply IH].
Qed.

Lemma str_eqb_refl : forall a, str_eqb a a = true.
Proof. intros. now apply str_eqb_eq. Qed.

Lemma existsb_str : forall n l, existsb (str_eqb n) l = true <-> In n l.
Proof.
  intros. rewrite existsb_exists. split.
  - intros [x [H1 H2]]. apply str_eqb_eq in H2. now subst.
  - intros H. exists n. split; [assumption | apply str_eqb_refl].
Qed.

(* ---- parseFlags = fold of the item semantics over the lexical grouping ----------------------- *)
Definition apply_item (s : pstate) (it : item) : pstate :=
  match it with
  | IMap f name val =>
      if existsb (str_eqb name) (p_keys s) then s
      else mkp (p_rest s) (p_keys s ++ [name]) (p_maps s ++ [(f, name, val)])
               (p_args s) (p_jargs s) (p_pos s) (p_bools s)
  | IPos f =>
      let val := match p_pos s with
                 | Some g => pad_to (List.length (pos_list s g)) (pos_list s f)
                 | None => pos_list s f end in
      let s1 := set_pos_list s f val in
      mkp (p_rest s1) (p_keys s1) (p_maps s1) (p_args s1) (p_jargs s1) (Some f) (p_bools s1)
  | IBool w => mkp (p_rest s) (p_keys s) (p_maps s) (p_args s) (p_jargs s) (p_pos s) (p_bools s ++ [w])
  | IPlain w => plain_word s w
  end.

Lemma pf_items_n : forall n ws done s its, (List.length ws <= n)%nat ->
  items done ws = Some its -> pf done s ws = POk (fold_left apply_item its s).
Proof.
  induction n as [|n IH]; intros ws done s its L H.
  - destruct ws; [|cbn in L; lia]. cbn in H. inversion H. reflexivity.
  - destruct ws as [|w r]; [cbn in H; inversion H; reflexivity|].
    cbn [List.length] in L. cbn [items pf] in *. destruct done.
    + destruct (items true r) as [its'|] eqn:E; [|discriminate]. inversion H; subst.
      cbn [fold_left apply_item]. apply IH; [lia | assumption].
    + destruct (classify w).
      * destruct (items false r) as [its'|] eqn:E; [|discriminate]. inversion H; subst.
        cbn [fold_left apply_item]. apply IH; [lia | assumption].
      * destruct r as [|name [|val r']]; try discriminate.
        destruct (items false r') as [its'|] eqn:E; [|discriminate]. inversion H; subst.
        cbn [fold_left apply_item]. cbn [List.length] in L. apply IH; [lia | assumption].
      * destruct (items false r) as [its'|] eqn:E; [|discriminate]. inversion H; subst.
        cbn [fold_left apply_item]. apply IH; [lia | assumption].
      * apply IH; [lia | assumption].
      * destruct (items false r) as [its'|] eqn:E; [|discriminate]. inversion H; subst.
        cbn [fold_left apply_item]. apply IH; [lia | assumption].
      * discriminate.
      * discriminate.
Qed.

Lemma pf_items : forall ws its, items false ws = Some its ->
  pf false p0 ws = POk (fold_left apply_item its p0).
Proof. intros. eapply pf_items_n; eauto. Qed.

(* ---- named arguments --------------------------------------------------------------------------- *)
Definition entry_name (e : mapflag * str * str) : str := snd (fst e).
Fixpoint lookup_maps (n : str) (m : list (mapflag * str * str)) : option aval :=
  match m with
  | [] => None
  | (f, k, v) :: r => if str_eqb k n then Some (aval_of f v) else lookup_maps n r
  end.

Definition keys_inv (s : pstate) : Prop := p_keys s = map entry_name (p_maps s) /\ NoDup (p_keys s).

Lemma lookup_maps_app : forall n a b,
  lookup_maps n (a ++ b) = match lookup_maps n a with Some v => Some v | None => lookup_maps n b end.
Proof.
  induction a as [|[[f k] v] a IH]; intros; cbn; [reflexivity|]. destruct (str_eqb k n); auto.
Qed.

Lemma lookup_maps_none : forall n m, ~ In n (map entry_name m) -> lookup_maps n m = None.
Proof.
  induction m as [|[[f k] v] m IH]; intros H; cbn; [reflexivity|].
  destruct (str_eqb k n) eqn:E.
  - apply str_eqb_eq in E. subst. elim H. now left.
  - apply IH. intros X. apply H. now right.
Qed.

Lemma lookup_maps_some : forall n m, In n (map entry_name m) -> lookup_maps n m <> None.
Proof.
  induction m as [|[[f k] v] m IH]; intros H; cbn in *; [contradiction|].
  destruct (str_eqb k n) eqn:E; [discriminate|].
  destruct H as [H|H]; [subst; rewrite str_eqb_refl in E; discriminate | now apply IH].
Qed.

Lemma NoDup_snoc : forall (X : Type) (l : list X) x, NoDup l -> ~ In x l -> NoDup (l ++ [x]).
Proof.
  induction l as [|y l IH]; intros x N H; cbn.
  - constructor; [intros []|constructor].
  - inversion N; subst. constructor.
    + rewrite in_app_iff. intros [X0|[X0|[]]]; [contradiction|]. subst. apply H. now left.
    + apply IH; [assumption|]. intros X0. apply H. now right.
Qed.

Lemma apply_item_keys : forall s it, keys_inv s -> keys_inv (apply_item s it).
Proof.
  intros s it [K N]. destruct it; cbn [apply_item]; try (split; assumption).
  - destruct (existsb (str_eqb name) (p_keys s)) eqn:E; [split; assumption|].
    split; cbn.
    + rewrite map_app, K. reflexivity.
    + apply NoDup_snoc; [assumption|]. intros X. apply existsb_str in X. congruence.
  - destruct f; cbn; split; assumption.
  - unfold plain_word. destruct (p_pos s) as [[]|]; destruct (p_rest s); cbn; split; assumption.
Qed.

Lemma apply_item_maps_other : forall s it,
  (forall f n v, it <> IMap f n v) -> p_maps (apply_item s it) = p_maps s.
Proof.
  intros s it H. destruct it; cbn [apply_item].
  - now elim (H f name val).
  - destruct f; reflexivity.
  - reflexivity.
  - unfold plain_word. destruct (p_pos s) as [[]|]; destruct (p_rest s); reflexivity.
Qed.

Lemma fold_keys_inv : forall its s, keys_inv s -> keys_inv (fold_left apply_item its s).
Proof. induction its; intros; cbn; [assumption | apply IHits, apply_item_keys; assumption]. Qed.

Lemma fold_lookup : forall its s n, keys_inv s ->
  lookup_maps n (p_maps (fold_left apply_item its s))
  = match lookup_maps n (p_maps s) with Some v => Some v | None => first_binding n its end.
Proof.
  induction its as [|it its IH]; intros s n K.
  - cbn. destruct (lookup_maps n (p_maps s)); reflexivity.
  - cbn [fold_left]. rewrite IH by (apply apply_item_keys; assumption).
    destruct it as [f k v| | |].
    + cbn [apply_item first_binding]. destruct (existsb (str_eqb k) (p_keys s)) eqn:E.
      * destruct (lookup_maps n (p_maps s)) eqn:L; [reflexivity|].
        destruct (str_eqb k n) eqn:E2; [|reflexivity].
        apply str_eqb_eq in E2. subst k. apply existsb_str in E. destruct K as [K _]. rewrite K in E.
        now elim (lookup_maps_some _ _ E).
      * cbn [p_maps]. rewrite lookup_maps_app. destruct (lookup_maps n (p_maps s)); [reflexivity|].
        cbn. destruct (str_eqb k n); reflexivity.
    + rewrite apply_item_maps_other by discriminate. reflexivity.
    + rewrite apply_item_maps_other by discriminate. reflexivity.
    + rewrite apply_item_maps_other by discriminate. reflexivity.
Qed.

(* the `named` map built from argnames/argvalues *)
From Coq Require Import Permutation.

Definition conv (e : mapflag * str * str) : str * aval :=
  match e with (f, n, v) => (n, aval_of f v) end.

Lemma family_cons : forall f g n v m,
  family f ((g, n, v) :: m)
  = match f, g with
    | MArg, MArg | MArgJSON, MArgJSON | MSlurpFile, MSlurpFile | MRawFile, MRawFile => [(n, aval_of g v)]
    | _, _ => [] end ++ family f m.
Proof. reflexivity. Qed.

Lemma bindings_perm : forall m,
  Permutation (family MArg m ++ family MArgJSON m ++ family MSlurpFile m ++ family MRawFile m) (map conv m).
Proof.
  induction m as [|[[f n] v] m IH]; [constructor|].
  rewrite !family_cons. cbn [map conv].
  generalize dependent (family MArg m). generalize dependent (family MArgJSON m).
  generalize dependent (family MSlurpFile m). generalize dependent (family MRawFile m).
  intros D C B A IH.
  destruct f; cbn [app].
  - constructor. exact IH.
  - etransitivity; [|apply perm_skip, IH]. symmetry. apply Permutation_middle.
  - etransitivity; [|apply perm_skip, IH]. symmetry.
    rewrite (app_assoc A B). etransitivity; [apply Permutation_middle|]. rewrite <- app_assoc. reflexivity.
  - etransitivity; [|apply perm_skip, IH]. symmetry.
    rewrite (app_assoc A B), (app_assoc (A ++ B) C).
    etransitivity; [apply Permutation_middle|]. rewrite <- !app_assoc. reflexivity.
Qed.

Lemma lookup_in : forall l n v, NoDup (map fst l) -> (lookup n l = Some v <-> In (n, v) l).
Proof.
  induction l as [|[k w] l IH]; intros n v N; cbn; [split; [discriminate|intros []]|].
  inversion N; subst. destruct (str_eqb k n) eqn:E.
  - apply str_eqb_eq in E. subst k. split.
    + intros H; inversion H; now left.
    + intros [H|H]; [congruence|]. elim H1. change n with (fst (n, v)). now apply in_map.
  - rewrite IH by assumption. split; [now right|].
    intros [H|H]; [|assumption]. inversion H; subst. rewrite str_eqb_refl in E. discriminate.
Qed.

Lemma lookup_perm : forall l1 l2 n, Permutation l1 l2 -> NoDup (map fst l1) -> lookup n l1 = lookup n l2.
Proof.
  intros l1 l2 n P N.
  assert (N2 : NoDup (map fst l2)) by (eapply Permutation_NoDup; [apply Permutation_map, P | exact N]).
  destruct (lookup n l1) as [v|] eqn:E1.
  - symmetry. apply lookup_in; [assumption|]. eapply Permutation_in; [exact P|]. now apply lookup_in.
  - destruct (lookup n l2) as [v|] eqn:E2; [|reflexivity].
    apply lookup_in in E2; [|assumption]. apply Permutation_sym in P.
    apply (Permutation_in _ P) in E2. apply lookup_in in E2; [congruence | assumption].
Qed.

Lemma lookup_conv : forall m n, lookup n (map conv m) = lookup_maps n m.
Proof. induction m as [|[[f k] v] m IH]; intros; cbn; [reflexivity|]. now rewrite IH. Qed.

Lemma map_fst_conv : forall m, map fst (map conv m) = map entry_name m.
Proof. induction m as [|[[f k] v] m IH]; cbn; [reflexivity | now rewrite IH]. Qed.

(* no name is bound twice, so named[...] = … never overwrites: the map is the list of bindings *)
Lemma named_map_nodup : forall bs acc,
  NoDup (map fst (acc ++ bs)) -> named_map bs acc = acc ++ bs.
Proof.
  induction bs as [|[n v] bs IH]; intros acc N; cbn [named_map]; [now rewrite app_nil_r|].
  assert (E : existsb (fun e => str_eqb (fst e) n) acc = false).
  { destruct (existsb (fun e : str * aval => str_eqb (fst e) n) acc) eqn:X; [|exact X]. exfalso. apply existsb_exists in X.
    destruct X as [[k w] [I Q]]. cbn in Q. apply str_eqb_eq in Q. subst k.
    rewrite map_app in N. cbn in N. apply NoDup_remove_2 in N. apply N.
    rewrite in_app_iff. left. change n with (fst (n, w)). now apply in_map. }
  rewrite E. rewrite IH; rewrite <- app_assoc; [reflexivity | exact N].
Qed.

Definition named_of (s : pstate) : list (str * aval) := named_map (arg_bindings s) [].

Lemma named_of_spec : forall s, keys_inv s ->
  NoDup (map fst (named_of s)) /\ forall n, lookup n (named_of s) = lookup_maps n (p_maps s).
Proof.
  intros s [K N]. unfold named_of, arg_bindings.
  pose proof (bindings_perm (p_maps s)) as P.
  assert (ND : NoDup (map fst (family MArg (p_maps s) ++ family MArgJSON (p_maps s)
                               ++ family MSlurpFile (p_maps s) ++ family MRawFile (p_maps s)))).
  { eapply Permutation_NoDup; [apply Permutation_map, Permutation_sym, P|].
    rewrite map_fst_conv, <- K. exact N. }
  rewrite named_map_nodup by exact ND. cbn [app]. split; [exact ND|].
  intros n. rewrite (lookup_perm _ _ n P ND). apply lookup_conv.
Qed.

Lemma keys_inv_p0 : keys_inv p0.
Proof. split; [reflexivity | constructor]. Qed.

Lemma args_named_lemma : forall ws its rest named pos bools,
  items false ws = Some its -> parse_args ws = AOk rest named pos bools ->
  NoDup (map fst named) /\ forall n, lookup n named = first_binding n its.
Proof.
  intros ws its rest named pos bools I P. unfold parse_args in P.
  rewrite (pf_items _ _ I) in P. inversion P; subst. clear P.
  pose proof (fold_keys_inv its p0 keys_inv_p0) as K.
  destruct (named_of_spec _ K) as [N L]. split; [exact N|].
  intros n. unfold named_of in L. rewrite L. rewrite fold_lookup by apply keys_inv_p0. reflexivity.
Qed.

(* parseFlags succeeds exactly on the command lines that have a reading *)
Lemma args_parses_lemma : forall ws its, items false ws = Some its -> exists rest named pos bools,
  parse_args ws = AOk rest named pos bools.
Proof. intros ws its I. unfold parse_args. rewrite (pf_items _ _ I). eauto. Qed.

(* ---- positional arguments ---------------------------------------------------------------------- *)
Definition pentry := (posflag * str)%type.
Definition canonA (P : list pentry) : list (option str) :=
  map (fun e : pentry => match fst e with PArgs => Some (snd e) | PJSONArgs => None end) P.
Definition canonJ (P : list pentry) : list (option str) :=
  map (fun e : pentry => match fst e with PJSONArgs => Some (snd e) | PArgs => None end) P.
Definition to_aval (e : pentry) : aval :=
  match fst e with PArgs => AStr (snd e) | PJSONArgs => AJson (snd e) end.
Definition is_flag (f : posflag) (e : pentry) : Prop := fst e = f.

Definition pos_inv (s : pstate) (P : list pentry) : Prop :=
  match p_pos s with
  | None => p_args s = [] /\ p_jargs s = [] /\ P = []
  | Some PArgs => p_args s = canonA P /\ exists k, (k <= List.length P)%nat
                  /\ p_jargs s = firstn k (canonJ P) /\ Forall (is_flag PArgs) (skipn k P)
  | Some PJSONArgs => p_jargs s = canonJ P /\ exists k, (k <= List.length P)%nat
                  /\ p_args s = firstn k (canonA P) /\ Forall (is_flag PJSONArgs) (skipn k P)
  end.

Lemma firstn_app_le : forall (X : Type) k (l x : list X), (k <= List.length l)%nat -> firstn k (l ++ x) = firstn k l.
Proof.
  intros. rewrite firstn_app. replace (k - List.length l)%nat with 0%nat by lia.
  cbn. now rewrite app_nil_r.
Qed.

Lemma skipn_app_le : forall (X : Type) k (l x : list X), (k <= List.length l)%nat -> skipn k (l ++ x) = skipn k l ++ x.
Proof.
  intros. rewrite skipn_app. replace (k - List.length l)%nat with 0%nat by lia. reflexivity.
Qed.

Lemma canonJ_allA : forall Q, Forall (is_flag PArgs) Q -> canonJ Q = repeat None (List.length Q).
Proof.
  induction Q as [|[f w] Q IH]; intros H; [reflexivity|]. inversion H; subst.
  unfold is_flag in H2. cbn in H2. subst f. cbn. f_equal. now apply IH.
Qed.

Lemma canonA_allJ : forall Q, Forall (is_flag PJSONArgs) Q -> canonA Q = repeat None (List.length Q).
Proof.
  induction Q as [|[f w] Q IH]; intros H; [reflexivity|]. inversion H; subst.
  unfold is_flag in H2. cbn in H2. subst f. cbn. f_equal. now apply IH.
Qed.

Lemma pad_canonJ : forall P k, (k <= List.length P)%nat -> Forall (is_flag PArgs) (skipn k P) ->
  pad_to (List.length (canonA P)) (firstn k (canonJ P)) = canonJ P.
Proof.
  intros P k L F. unfold pad_to. unfold canonA at 1. rewrite map_length.
  rewrite firstn_length. unfold canonJ at 2. rewrite map_length. rewrite Nat.min_l by exact L.
  rewrite <- (firstn_skipn k (canonJ P)) at 2. f_equal.
  unfold canonJ at 1. rewrite skipn_map. fold (canonJ (skipn k P)).
  rewrite canonJ_allA by exact F. rewrite skipn_length. reflexivity.
Qed.

Lemma pad_canonA : forall P k, (k <= List.length P)%nat -> Forall (is_flag PJSONArgs) (skipn k P) ->
  pad_to (List.length (canonJ P)) (firstn k (canonA P)) = canonA P.
Proof.
  intros P k L F. unfold pad_to. unfold canonJ at 1. rewrite map_length.
  rewrite firstn_length. unfold canonA at 2. rewrite map_length. rewrite Nat.min_l by exact L.
  rewrite <- (firstn_skipn k (canonA P)) at 2. f_equal.
  unfold canonA at 1. rewrite skipn_map. fold (canonA (skipn k P)).
  rewrite canonA_allJ by exact F. rewrite skipn_length. reflexivity.
Qed.

Lemma pad_self : forall l, pad_to (List.length l) l = l.
Proof. intros. unfold pad_to. rewrite Nat.sub_diag. cbn. apply app_nil_r. Qed.

Definition seen (s : pstate) : bool := match p_rest s with [] => false | _ => true end.

Lemma pos_step : forall its s P, pos_inv s P ->
  exists P', pos_inv (fold_left apply_item its s) P'
   /\ map to_aval P' = map to_aval P ++ positional_spec (seen s) (p_pos s) its
   /\ p_rest (fold_left apply_item its s) = p_rest s ++ rest_spec (seen s) (p_pos s) its.
Proof.
  induction its as [|it its IH]; intros s P INV.
  - exists P. cbn. rewrite !app_nil_r. auto.
  - cbn [fold_left]. destruct it as [f k v|f|w|w].
    + (* map flag: untouched *)
      assert (E : pos_inv (apply_item s (IMap f k v)) P
                  /\ seen (apply_item s (IMap f k v)) = seen s
                  /\ p_pos (apply_item s (IMap f k v)) = p_pos s
                  /\ p_rest (apply_item s (IMap f k v)) = p_rest s).
      { cbn [apply_item]. destruct (existsb (str_eqb k) (p_keys s)); auto. }
      destruct E as [E1 [E2 [E3 E4]]]. destruct (IH _ _ E1) as [P' [A [B C]]].
      exists P'. rewrite E2, E3, E4 in *. auto.
    + (* --args / --jsonargs *)
      set (s' := apply_item s (IPos f)).
      assert (E : pos_inv s' P /\ seen s' = seen s /\ p_pos s' = Some f /\ p_rest s' = p_rest s).
      { subst s'. unfold pos_inv in INV |- *. cbn [apply_item].
        destruct (p_pos s) as [[]|] eqn:PP; destruct f;
          cbn [set_pos_list pos_list p_args p_jargs p_pos p_rest p_keys p_maps p_bools]; unfold seen;
          cbn [set_pos_list pos_list p_args p_jargs p_pos p_rest p_keys p_maps p_bools].
        - (* args -> args *) rewrite pad_self. repeat split; try tauto.
        - (* args -> jsonargs *)
          destruct INV as [A [k [L [J F]]]]. rewrite A, J, pad_canonJ by assumption.
          repeat split. exists (List.length P). repeat split; [lia | | ].
          + rewrite firstn_all2; [reflexivity | unfold canonA; rewrite map_length; lia].
          + rewrite skipn_all. constructor.
        - (* jsonargs -> args *)
          destruct INV as [J [k [L [A F]]]]. rewrite A, J, pad_canonA by assumption.
          repeat split. exists (List.length P). repeat split; [lia | | ].
          + rewrite firstn_all2; [reflexivity | unfold canonJ; rewrite map_length; lia].
          + rewrite skipn_all. constructor.
        - (* jsonargs -> jsonargs *) rewrite pad_self. repeat split; try tauto.
        - destruct INV as [A [J ->]]. rewrite A, J. repeat split. exists 0%nat. cbn. repeat split; auto.
        - destruct INV as [A [J ->]]. rewrite A, J. repeat split. exists 0%nat. cbn. repeat split; auto. }
      destruct E as [E1 [E2 [E3 E4]]]. destruct (IH _ _ E1) as [P' [A [B C]]].
      exists P'. rewrite E2, E3, E4 in *. cbn [positional_spec rest_spec]. auto.
    + (* boolean flag *)
      destruct (IH (apply_item s (IBool w)) P INV) as [P' [A [B C]]]. exists P'. auto.
    + (* plain word *)
      cbn [apply_item]. unfold plain_word.
      destruct (p_pos s) as [f|] eqn:PP; [destruct (p_rest s) as [|q rest] eqn:PR|].
      * (* the query *)
        set (s' := mkp ([] ++ [w]) (p_keys s) (p_maps s) (p_args s) (p_jargs s) (Some f) (p_bools s)).
        assert (E1 : pos_inv s' P) by (unfold pos_inv in INV |- *; subst s'; cbn; rewrite PP in INV; exact INV).
        destruct (IH _ _ E1) as [P' [A [B C]]]. exists P'. split; [exact A|].
        unfold seen. rewrite PR. cbn [positional_spec rest_spec].
        replace (match f with PArgs | _ => positional_spec true (Some f) its end)
          with (positional_spec true (Some f) its) by (destruct f; reflexivity).
        split; [exact B|]. rewrite C. reflexivity.
      * (* a positional value *)
        set (s' := set_pos_list s f (pos_list s f ++ [Some w])).
        assert (E : pos_inv s' (P ++ [(f, w)]) /\ seen s' = true /\ p_pos s' = Some f /\ p_rest s' = p_rest s).
        { subst s'. unfold pos_inv in INV |- *. rewrite PP in INV.
          destruct f; cbn [set_pos_list pos_list p_args p_jargs p_pos p_rest p_keys p_maps p_bools]; rewrite PP; unfold seen;
          cbn [set_pos_list pos_list p_args p_jargs p_pos p_rest p_keys p_maps p_bools]; rewrite PR.
          - destruct INV as [A [k [L [J F]]]]. repeat split.
            + rewrite A. unfold canonA. rewrite map_app. reflexivity.
            + exists k. rewrite app_length. repeat split; [lia | | ].
              * rewrite J. unfold canonJ. rewrite map_app. rewrite firstn_app_le; [reflexivity | rewrite map_length; exact L].
              * rewrite skipn_app_le by exact L. apply Forall_app. split; [exact F | repeat constructor].
          - destruct INV as [J [k [L [A F]]]]. repeat split.
            + rewrite J. unfold canonJ. rewrite map_app. reflexivity.
            + exists k. rewrite app_length. repeat split; [lia | | ].
              * rewrite A. unfold canonA. rewrite map_app. rewrite firstn_app_le; [reflexivity | rewrite map_length; exact L].
              * rewrite skipn_app_le by exact L. apply Forall_app. split; [exact F | repeat constructor]. }
        destruct E as [E1 [E2 [E3 E4]]]. destruct (IH _ _ E1) as [P' [A [B C]]].
        exists P'. split; [exact A|]. rewrite E2, E3, E4 in *. unfold seen. rewrite PR.
        cbn [positional_spec rest_spec]. rewrite map_app in B. cbn [map] in B. rewrite <- app_assoc in B.
        split; [|rewrite PR in C; exact C].
        rewrite B. destruct f; reflexivity.
      * (* no positional flag yet: query or file operand *)
        set (s' := mkp (p_rest s ++ [w]) (p_keys s) (p_maps s) (p_args s) (p_jargs s) None (p_bools s)).
 assert (E1 : pos_inv s' P) by (unfold pos_inv in INV |- *; subst s'; cbn; rewrite PP in INV; exact INV).
        destruct (IH _ _ E1) as [P' [A [B C]]]. exists P'. split; [exact A|].
        assert (S' : seen s' = true) by (subst s'; unfold seen; cbn; destruct (p_rest s); reflexivity).
        rewrite S' in *. cbn [p_pos s'] in *. cbn [positional_spec rest_spec].
        replace (match seen s with true | _ => positional_spec true None its end)
          with (positional_spec true None its) by (destruct (seen s); reflexivity).
        split; [exact B|]. rewrite C. subst s'. cbn [p_rest]. rewrite <- app_assoc. reflexivity.
Qed.

(* ---- the merge of opts.Args and opts.JSONArgs --------------------------------------------------- *)
Fixpoint zmerge (pos : list (option aval)) (j : list (option str)) : list (option aval) :=
  match pos, j with
  | p :: pr, v :: jr => (match v with Some t => Some (AJson t) | None => p end) :: zmerge pr jr
  | pr, [] => pr
  | [], v :: jr => (match v with Some t => [Some (AJson t)] | None => [] end) ++ zmerge [] jr
  end.

Lemma set_nth_app : forall (X : Type) (pre : list X) x p pr,
  set_nth (List.length pre) x (pre ++ p :: pr) = pre ++ x :: pr.
Proof. induction pre as [|y pre IH]; intros; cbn; [reflexivity | now rewrite IH]. Qed.

Lemma merge_loop_zmerge : forall j pre post i,
  (List.length pre = i \/ (post = [] /\ (List.length pre <= i)%nat)) ->
  merge_loop i j (pre ++ post) = pre ++ zmerge post j.
Proof.
  induction j as [|v jr IH]; intros pre post i H.
  - cbn. destruct post; reflexivity.
  - cbn [merge_loop]. destruct post as [|p pr].
    + (* only appends from here on *)
      rewrite app_nil_r. assert (L : (List.length pre <= i)%nat) by (destruct H as [H|[_ H]]; lia).
      destruct v as [t|].
      * replace (i <? List.length pre)%nat with false by (symmetry; apply Nat.ltb_ge; exact L).
        rewrite <- (app_nil_r (pre ++ [Some (AJson t)])). rewrite IH.
        -- cbn [zmerge]. rewrite <- app_assoc. reflexivity.
        -- right. split; [reflexivity|]. rewrite app_length. cbn. lia.
      * rewrite <- (app_nil_r pre) at 1. rewrite IH by (right; split; [reflexivity | lia]).
        reflexivity.
    + destruct H as [H|[H _]]; [|discriminate]. subst i. destruct v as [t|].
      * replace (List.length pre <? List.length (pre ++ p :: pr))%nat with true
          by (symmetry; apply Nat.ltb_lt; rewrite app_length; cbn; lia).
        rewrite set_nth_app.
        change (pre ++ Some (AJson t) :: pr) with (pre ++ [Some (AJson t)] ++ pr).
        rewrite app_assoc. rewrite IH by (left; rewrite app_length; cbn; lia).
        cbn [zmerge]. rewrite <- app_assoc. reflexivity.
      * change (pre ++ p :: pr) with (pre ++ [p] ++ pr).
        rewrite app_assoc. rewrite IH by (left; rewrite app_length; cbn; lia).
        cbn [zmerge]. rewrite <- app_assoc. reflexivity.
Qed.

Lemma zmerge_A : forall P k, (k <= List.length P)%nat -> Forall (is_flag PArgs) (skipn k P) ->
  zmerge (map (option_map AStr) (canonA P)) (firstn k (canonJ P)) = map Some (map to_aval P).
Proof.
  induction P as [|[f w] P IH]; intros k L F.
  - destruct k; reflexivity.
  - destruct k as [|k].
    + cbn [firstn]. cbn [skipn] in F.
      assert (E : forall Q, Forall (is_flag PArgs) Q ->
                  zmerge (map (option_map AStr) (canonA Q)) [] = map Some (map to_aval Q)).
      { clear. intros Q H. replace (zmerge (map (option_map AStr) (canonA Q)) [])
          with (map (option_map AStr) (canonA Q)) by (destruct (map (option_map AStr) (canonA Q)); reflexivity).
        induction Q as [|[f w] Q IH]; [reflexivity|]. inversion H; subst.
        unfold is_flag in H2. cbn in H2. subst f. cbn. f_equal. now apply IH. }
      apply E, F.
    + cbn [List.length] in L. cbn [skipn] in F. specialize (IH k (le_S_n _ _ L) F).
      destruct f; cbn; rewrite <- IH; reflexivity.
Qed.

Lemma zmerge_J : forall P k, (k <= List.length P)%nat -> Forall (is_flag PJSONArgs) (skipn k P) ->
  zmerge (map (option_map AStr) (firstn k (canonA P))) (canonJ P) = map Some (map to_aval P).
Proof.
  induction P as [|[f w] P IH]; intros k L F.
  - destruct k; reflexivity.
  - destruct k as [|k].
    + cbn [firstn map]. cbn [skipn] in F.
      assert (E : forall Q, Forall (is_flag PJSONArgs) Q ->
                  zmerge [] (canonJ Q) = map Some (map to_aval Q)).
      { clear. induction Q as [|[f w] Q IH]; intros H; [reflexivity|]. inversion H; subst.
        unfold is_flag in H2. cbn in H2. subst f. specialize (IH H3).
        change (zmerge [] (canonJ ((PJSONArgs, w) :: Q))) with (Some (AJson w) :: zmerge [] (canonJ Q)).
        rewrite IH. reflexivity. }
      apply E, F.
    + cbn [List.length] in L. cbn [skipn] in F. specialize (IH k (le_S_n _ _ L) F).
      destruct f; cbn; rewrite <- IH; reflexivity.
Qed.

Lemma positional_of_inv : forall s P, pos_inv s P -> positional_of s = map Some (map to_aval P).
Proof.
  intros s P INV. unfold positional_of.
  rewrite <- (app_nil_l (map (option_map AStr) (p_args s))).
  rewrite merge_loop_zmerge by (left; reflexivity). cbn [app].
  unfold pos_inv in INV. destruct (p_pos s) as [[]|].
  - destruct INV as [A [k [L [J F]]]]. rewrite A, J. now apply zmerge_A.
  - destruct INV as [J [k [L [A F]]]]. rewrite A, J. now apply zmerge_J.
  - destruct INV as [A [J ->]]. rewrite A, J. reflexivity.
Qed.

Lemma args_positional_lemma : forall ws its rest named pos bools,
  items false ws = Some its -> parse_args ws = AOk rest named pos bools ->
  pos = map Some (positional_spec false None its) /\ rest = rest_spec false None its.
Proof.
  intros ws its rest named pos bools I P. unfold parse_args in P.
  rewrite (pf_items _ _ I) in P. inversion P; subst. clear P.
  assert (INV0 : pos_inv p0 []) by (cbn; auto).
  destruct (pos_step its p0 [] INV0) as [P' [A [B C]]].
  cbn in B, C. split; [|exact C].
  rewrite (positional_of_inv _ _ A). now rewrite B.
Qed.
