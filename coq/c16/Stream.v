(* C16 model, part 1: the --stream event generator (cli/stream.go: jsonStream.next, copyPath)
   transcribed state by state over the token sequence delivered by encoding/json's Decoder.Token,
   JSON documents with objects in DOCUMENT key order, their token sequences, and the declarative
   tostream in document order.  Definitions only (proofs: StreamProofs.v). *)
From Coq Require Import List NArith Bool.
Import ListNotations.
Open Scope N_scope.

(* ---- documents --------------------------------------------------------------------------- *)
(* scalars as Decoder.Token (UseNumber) delivers them: nil, bool, json.Number (literal text), string *)
Inductive scalar := SNull | STrue | SFalse | SNum (lit : list N) | SStr (s : list N).

(* a JSON document; object members in the order they are written in the text *)
Inductive value :=
| VS (s : scalar)
| VArr (l : vlist)
| VObj (m : mlist)
with vlist := VNil | VCons (v : value) (l : vlist)
with mlist := MNil | MCons (k : list N) (v : value) (m : mlist).

Scheme value_mind := Induction for value Sort Prop
  with vlist_mind := Induction for vlist Sort Prop
  with mlist_mind := Induction for mlist Sort Prop.
Combined Scheme value_vlist_mlist_ind from value_mind, vlist_mind, mlist_mind.

(* ---- tokens ------------------------------------------------------------------------------ *)
Inductive delim := LB | RB | LC | RC.          (* [ ] { } *)
Inductive token := TD (d : delim) | TS (s : scalar).   (* object keys arrive as TS (SStr k) *)

Fixpoint tokens (v : value) : list token :=
  match v with
  | VS s => [TS s]
  | VArr l => TD LB :: tokens_l l ++ [TD RB]
  | VObj m => TD LC :: tokens_m m ++ [TD RC]
  end
with tokens_l (l : vlist) : list token :=
  match l with VNil => [] | VCons v r => tokens v ++ tokens_l r end
with tokens_m (m : mlist) : list token :=
  match m with MNil => [] | MCons k v r => TS (SStr k) :: tokens v ++ tokens_m r end.

Definition tokens_docs (ds : list value) : list token := flat_map tokens ds.

(* ---- events ------------------------------------------------------------------------------ *)
(* path elements: int index (s.path = append(s.path, 0), +1) or the key TOKEN (append(s.path, token)) *)
Inductive pelem := PIdx (n : N) | PKey (t : scalar).
(* the second component of a [path, leaf] event: a scalar token, []any{} or map[string]any{} *)
Inductive leafval := LS (s : scalar) | LEmptyArr | LEmptyObj.
Inductive event := Leaf (p : list pelem) (v : leafval) | Close (p : list pelem).

(* ---- jsonStream -------------------------------------------------------------------------- *)
Inductive st := TopValue | ArrayStart | ArrayValue | ArrayEnd | ArrayEmptyEnd
              | ObjectStart | ObjectKey | ObjectValue | ObjectEnd | ObjectEmptyEnd.

(* both stacks are kept REVERSED: head = s.path[len-1] / s.states[len-1] *)
Record sm := mk { path : list pelem; states : list st }.
Definition init : sm := mk [] [TopValue].
Definition copyPath (s : sm) : list pelem := rev (path s).

(* first switch of next(): leave the End state of the previous call.
   None = Go would panic (index out of range on an empty slice). *)
Definition pop_end (s : sm) : option sm :=
  match states s with
  | [] => None
  | ArrayEnd :: r | ObjectEnd :: r =>
      match path s with _ :: p => Some (mk p r) | [] => None end
  | ArrayEmptyEnd :: r | ObjectEmptyEnd :: r => Some (mk (path s) r)
  | _ => Some s
  end.

(* dec.More(): the next non-space byte exists and is neither ] nor } *)
Definition more (ts : list token) : bool :=
  match ts with [] => false | TD RB :: _ => false | TD RC :: _ => false | _ => true end.

(* if s.dec.More() { switch top { case ArrayValue: path[last]++ ; case ObjectValue: path = path[:last] } } *)
Definition more_adj (s : sm) (ts : list token) : option sm :=
  if more ts then
    match states s with
    | [] => None
    | ArrayValue :: _ =>
        match path s with PIdx i :: p => Some (mk (PIdx (i + 1) :: p) (states s)) | _ => None end
    | ObjectValue :: _ =>
        match path s with _ :: p => Some (mk p (states s)) | [] => None end
    | _ => Some s
    end
  else Some s.

(* everything next() does before its token loop *)
Definition pre (s : sm) (ts : list token) : option sm :=
  match pop_end s with Some s1 => more_adj s1 ts | None => None end.

Inductive stepres := SCont (s : sm) | SEmit (e : event) (s : sm) | SPanic.

Definition set_top (x : st) (s : sm) : sm :=
  mk (path s) (match states s with _ :: r => x :: r | [] => [] end).

(* one iteration of the for loop of next() on a successfully read token *)
Definition step (s : sm) (t : token) : stepres :=
  match states s with
  | [] => SPanic
  | top :: _ =>
    match t with
    | TD LB | TD LC =>
        let s1 := match top with
                  | ArrayStart => set_top ArrayValue s
                  | ObjectKey => set_top ObjectValue s
                  | _ => s end in
        match t with
        | TD LB => SCont (mk (PIdx 0 :: path s1) (ArrayStart :: states s1))
        | _ => SCont (mk (path s1) (ObjectStart :: states s1))
        end
    | TD RB =>
        match top with
        | ArrayStart =>
            match path s with
            | _ :: p => let s1 := mk p (states (set_top ArrayEmptyEnd s)) in SEmit (Leaf (copyPath s1) LEmptyArr) s1
            | [] => SPanic
            end
        | _ => let s1 := set_top ArrayEnd s in SEmit (Close (copyPath s1)) s1
        end
    | TD RC =>
        match top with
        | ObjectStart => let s1 := set_top ObjectEmptyEnd s in SEmit (Leaf (copyPath s1) LEmptyObj) s1
        | _ => let s1 := set_top ObjectEnd s in SEmit (Close (copyPath s1)) s1
        end
    | TS tok =>
        match top with
        | ArrayStart => let s1 := set_top ArrayValue s in SEmit (Leaf (copyPath s1) (LS tok)) s1
        | ArrayValue => SEmit (Leaf (copyPath s) (LS tok)) s
        | ObjectStart | ObjectValue =>
            let s1 := set_top ObjectKey s in SCont (mk (PKey tok :: path s1) (states s1))
        | ObjectKey => let s1 := set_top ObjectValue s in SEmit (Leaf (copyPath s1) (LS tok)) s1
        | _ => let s1 := set_top TopValue s in SEmit (Leaf (copyPath s1) (LS tok)) s1
        end
    end
  end.

(* how the token sequence ends: clean io.EOF from Decoder.Token, or any other error
   (syntax error, unexpected EOF inside a token) *)
Inductive ending := EndEOF | EndErr.

(* what jsonInputIter delivers: events, then end of input (End), or one error and end of input (Err);
   Panic = the Go code would panic *)
Inductive trace := Ev (e : event) (t : trace) | End | Err | Panic.

(* Token() failed: io.EOF is turned into io.ErrUnexpectedEOF unless the top state is TopValue;
   jsonInputIter.Next: io.EOF = end of input, any other error = one error value, then end *)
Definition at_end (s : sm) (e : ending) : trace :=
  match e with
  | EndErr => Err
  | EndEOF => match states s with [] => Panic | TopValue :: _ => End | _ => Err end
  end.

(* the for loop of next() fused with jsonInputIter calling next() again after each event *)
Fixpoint runf (s : sm) (ts : list token) (e : ending) : trace :=
  match ts with
  | [] => at_end s e
  | t :: r =>
      match step s t with
      | SCont s1 => runf s1 r e
      | SEmit ev s1 => Ev ev (match pre s1 r with Some s2 => runf s2 r e | None => Panic end)
      | SPanic => Panic
      end
  end.

Definition run (s : sm) (ts : list token) (e : ending) : trace :=
  match pre s ts with Some s1 => runf s1 ts e | None => Panic end.

(* --stream over a whole input (any number of documents) *)
Definition stream_events (ts : list token) (e : ending) : trace := run init ts e.

(* next() itself, as one call: for documentation and for the lemma run_next *)
Inductive nextres := NEmit (e : event) (s : sm) (rest : list token) | NStop (t : trace).
Fixpoint next_loop (s : sm) (ts : list token) (e : ending) : nextres :=
  match ts with
  | [] => NStop (at_end s e)
  | t :: r => match step s t with
              | SCont s1 => next_loop s1 r e
              | SEmit ev s1 => NEmit ev s1 r
              | SPanic => NStop Panic
              end
  end.
Definition next (s : sm) (ts : list token) (e : ending) : nextres :=
  match pre s ts with Some s1 => next_loop s1 ts e | None => NStop Panic end.

(* ---- declarative tostream, keys in document order ---------------------------------------- *)
(* rp = REVERSED path of the value.  jq: every path in post-order; a value without children gives
   [path, value]; a value with children gives the closing event [path + [last child key]]. *)
Fixpoint ts_val (rp : list pelem) (v : value) : list event :=
  match v with
  | VS s => [Leaf (rev rp) (LS s)]
  | VArr VNil => [Leaf (rev rp) LEmptyArr]
  | VObj MNil => [Leaf (rev rp) LEmptyObj]
  | VArr l => ts_elems rp 0 l
  | VObj m => ts_membs rp m
  end
(* elements from index i on, then the closing event naming the last index *)
with ts_elems (rp : list pelem) (i : N) (l : vlist) : list event :=
  match l with
  | VNil => []
  | VCons v VNil => ts_val (PIdx i :: rp) v ++ [Close (rev (PIdx i :: rp))]
  | VCons v r => ts_val (PIdx i :: rp) v ++ ts_elems rp (i + 1) r
  end
with ts_membs (rp : list pelem) (m : mlist) : list event :=
  match m with
  | MNil => []
  | MCons k v MNil => ts_val (PKey (SStr k) :: rp) v ++ [Close (rev (PKey (SStr k) :: rp))]
  | MCons k v r => ts_val (PKey (SStr k) :: rp) v ++ ts_membs rp r
  end.

Definition tostream_doc_order (d : value) : list event := ts_val [] d.

Fixpoint trace_of (evs : list event) (fin : trace) : trace :=
  match evs with [] => fin | e :: r => Ev e (trace_of r fin) end.

Fixpoint events_of (t : trace) : list event := match t with Ev e r => e :: events_of r | _ => [] end.
Fixpoint final_of (t : trace) : trace := match t with Ev _ r => final_of r | x => x end.
