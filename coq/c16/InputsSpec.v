(* C16: declarative descriptions of what the input iterators deliver (the "abstraction functions" of
   InputsProofs.v) and of what the command prints in each mode.  Definitions only. *)
From Coq Require Import List NArith Bool.
From Verif Require Import common.Sexp c16.Stream c16.Inputs.
Import ListNotations.
Open Scope N_scope.

Definition json_abs (i : jiter) : list out :=
  if jerr i then [] else map OVal (jvals i) ++ (if jbad i then [OErr] else []).


Fixpoint trace_outs (t : trace) : list out :=
  match t with
  | Ev e r => OVal (event_value e) :: trace_outs r
  | End => []
  | Err => [OErr]
  | Panic => [OPanic]
  end.

Definition stream_abs (i : siter) : list out :=
  if serr i then [] else trace_outs (run (ssm i) (stoks i) (send i)).


(* the lines of a text: maximal runs without \n; a final run without \n counts when non-empty *)
Fixpoint lines_aux (cur : list N) (t : list N) : list (list N) :=
  match t with
  | [] => match cur with [] => [] | _ => [rev cur] end
  | c :: r => if c =? 10 then rev cur :: lines_aux [] r else lines_aux (c :: cur) r
  end.
Definition lines (t : list N) : list (list N) := lines_aux [] t.

Definition raw_abs (i : riter) : list out :=
  if rerr i then [] else map (fun l => OVal (vstr l)) (lines (rtext i)).


Definition ends_nl (t : list N) : bool := match rev t with c :: _ => c =? 10 | [] => true end.
Definition terminate (t : list N) : list N :=
  match t with [] => [] | _ => if ends_nl t then t else t ++ [10] end.


Definition all_abs (i : aiter) : list out := if aerr i then [] else [OVal (vstr (atext i))].

Definition inner_abs (i : inner) : list out :=
  match i with IJ j => json_abs j | IS j => stream_abs j | IR j => raw_abs j | IA j => all_abs j end.


Definition inres_of (o : out) : inres := match o with OVal v => InVal v | _ => InErr end.

(* k calls of input return the first k of: the outputs in order, then "break" for ever *)
Fixpoint calls_spec (k : nat) (l : list out) : list inres :=
  match k with
  | O => []
  | S k' => match l with
            | [] => InBreak :: calls_spec k' []
            | o :: r => inres_of o :: calls_spec k' r
            end
  end.

(* slurp: the array of all values, or the first error (values before it are dropped) *)
Fixpoint slurp_spec (l : list out) (vs : list value) : out :=
  match l with
  | [] => OVal (varr vs)
  | OVal v :: r => slurp_spec r (vs ++ [v])
  | e :: _ => e
  end.

(* [inputs]: Some array, or None when an error value is met *)
Fixpoint inputs_spec (l : list out) (vs : list value) : option (list value) :=
  match l with
  | [] => Some vs
  | OVal v :: r => inputs_spec r (vs ++ [v])
  | _ :: _ => None
  end.


(* what each input contributes, declaratively *)
Definition data_outs (f : fmt) (d : fdata) : list out :=
  match f with
  | FJson => map OVal (fvals d) ++ (if fbad d then [OErr] else [])
  | FStream => trace_outs (stream_events (ftoks d) (fend d))
  | FRaw => map (fun l => OVal (vstr l)) (lines (ftext d))
  | FAll => [OVal (vstr (ftext d))]
  end.


Definition src_outs (f : fmt) (s : fsrc fdata) : list out :=
  match s with FMissing => [OErr] | FData d => data_outs f d end.


(* -Rs: the concatenation of the texts, or the first error *)
Fixpoint slurpraw_spec (l : list out) (acc : list N) : out :=
  match l with
  | [] => OVal (vstr acc)
  | OVal v :: r => match str_of v with Some s => slurpraw_spec r (acc ++ s) | None => OPanic end
  | e :: _ => e
  end.

(* -n 'input, input, …' (k times): the values in order; the first failure ends the query *)
Fixpoint inputk_spec (k : nat) (l : list out) : list out :=
  match k with
  | O => []
  | S k' => match l with
            | OVal v :: r => OVal v :: inputk_spec k' r
            | _ => [OErr]
            end
  end.

(* '[., input]' without -n: values are consumed in pairs; an odd last value or an error value
   fails that evaluation, an error met by the main loop is reported by the main loop *)
Fixpoint pair_spec (fuel : nat) (l : list out) : list out :=
  match fuel with
  | O => []
  | S f => match l with
           | [] => []
           | OVal v :: OVal w :: r => OVal (varr [v; w]) :: pair_spec f r
           | OVal v :: _ :: r => OErr :: pair_spec f r
           | [OVal v] => [OErr]
           | e :: r => e :: pair_spec f r
           end
  end.

(* everything the selected iterator will deliver: per input, in argument order *)
Definition all_outs (m : mode) (stdin : fdata) (args : list (fsrc fdata)) : list out :=
  match args with [] => data_outs (fmt_of m) stdin | _ => flat_map (src_outs (fmt_of m)) args end.

(* linear-time versions for the extracted oracle (List.rev is quadratic); InputsProofs.all_outs_fast_spec *)
Fixpoint lines_fast_aux (cur : list N) (t : list N) : list (list N) :=
  match t with
  | [] => match cur with [] => [] | _ => [rev_append cur []] end
  | c :: r => if c =? 10 then rev_append cur [] :: lines_fast_aux [] r else lines_fast_aux (c :: cur) r
  end.
Definition data_outs_fast (f : fmt) (d : fdata) : list out :=
  match f with
  | FRaw => map (fun l => OVal (vstr l)) (lines_fast_aux [] (ftext d))
  | _ => data_outs f d
  end.
Definition all_outs_fast (m : mode) (stdin : fdata) (args : list (fsrc fdata)) : list out :=
  match args with
  | [] => data_outs_fast (fmt_of m) stdin
  | _ => flat_map (fun s => match s with FMissing => [OErr] | FData d => data_outs_fast (fmt_of m) d end) args
  end.

(* a list of outputs is itself an iterator: the declarative oracle runs the consumers over all_outs *)
Definition list_next (l : list out) : option out * list out :=
  match l with [] => (None, []) | o :: r => (Some o, r) end.
