(* C16 proofs about the --stream state machine of Stream.v *)
From Coq Require Import List NArith Bool Lia.
From Verif Require Import c16.Stream.
Import ListNotations.
Open Scope N_scope.

(* ---- small facts ------------------------------------------------------------------------- *)
Lemma trace_of_app : forall a b t, trace_of (a ++ b) t = trace_of a (trace_of b t).
Proof. induction a; simpl; intros; [reflexivity | now rewrite IHa]. Qed.

Lemma events_trace_of : forall evs t, events_of (trace_of evs t) = evs ++ events_of t.
Proof. induction evs; simpl; intros; [reflexivity | now rewrite IHevs]. Qed.

Lemma final_trace_of : forall evs t, final_of (trace_of evs t) = final_of t.
Proof. induction evs; simpl; intros; [reflexivity | now rewrite IHevs]. Qed.

(* the first token of a value never closes a container *)
Lemma more_tokens : forall v rest, more (tokens v ++ rest) = true.
Proof. destruct v as [[]| |]; reflexivity. Qed.

Lemma more_tokens_l : forall v r rest, more (tokens_l (VCons v r) ++ rest) = true.
Proof. intros. simpl. rewrite <- app_assoc. apply more_tokens. Qed.

(* states in which the machine is about to read a value, and the state it is in afterwards *)
Inductive vtop : st -> Prop :=
| vt_top : vtop TopValue | vt_as : vtop ArrayStart | vt_av : vtop ArrayValue | vt_ok : vtop ObjectKey.

Definition adv (t : st) : st :=
  match t with ArrayStart => ArrayValue | ObjectKey => ObjectValue | x => x end.

(* the rest of a next() call that starts in an already popped state *)
Definition runf_after (s : sm) (r : list token) (e : ending) : trace :=
  match more_adj s r with Some s2 => runf s2 r e | None => Panic end.

(* ---- the generalised statement ----------------------------------------------------------- *)
Definition P_value (v : value) : Prop :=
  forall rp top tail rest e, vtop top ->
    runf (mk rp (top :: tail)) (tokens v ++ rest) e
    = trace_of (ts_val rp v) (runf_after (mk rp (adv top :: tail)) rest e).

Definition P_vlist (l : vlist) : Prop :=
  forall rp i top tail rest e, top = ArrayStart \/ top = ArrayValue -> l <> VNil ->
    runf (mk (PIdx i :: rp) (top :: tail)) (tokens_l l ++ TD RB :: rest) e
    = trace_of (ts_elems rp i l) (runf_after (mk rp tail) rest e).

Definition P_mlist (m : mlist) : Prop :=
  forall rp top tail rest e, top = ObjectStart \/ top = ObjectValue -> m <> MNil ->
    runf (mk rp (top :: tail)) (tokens_m m ++ TD RC :: rest) e
    = trace_of (ts_membs rp m) (runf_after (mk rp tail) rest e).

Lemma ts_elems_cons2 : forall rp i v v' r,
  ts_elems rp i (VCons v (VCons v' r)) = ts_val (PIdx i :: rp) v ++ ts_elems rp (i + 1) (VCons v' r).
Proof. reflexivity. Qed.

Lemma ts_membs_cons2 : forall rp k v k' v' r,
  ts_membs rp (MCons k v (MCons k' v' r))
  = ts_val (PKey (SStr k) :: rp) v ++ ts_membs rp (MCons k' v' r).
Proof. reflexivity. Qed.

Lemma stream_gen : (forall v, P_value v) /\ (forall l, P_vlist l) /\ (forall m, P_mlist m).
Proof.
  apply value_vlist_mlist_ind; unfold P_value, P_vlist, P_mlist.
  - (* scalar *)
    intros s rp top tail rest e H. destruct H; reflexivity.
  - (* array *)
    intros l IH rp top tail rest e H. destruct l as [|v r].
    + destruct H; reflexivity.
    + change (tokens (VArr (VCons v r)) ++ rest)
        with (TD LB :: (tokens_l (VCons v r) ++ [TD RB]) ++ rest).
      rewrite <- app_assoc. cbn [app].
      assert (E : forall s, s = mk rp (top :: tail) ->
                runf s (TD LB :: tokens_l (VCons v r) ++ TD RB :: rest) e
                = runf (mk (PIdx 0 :: rp) (ArrayStart :: adv top :: tail))
                       (tokens_l (VCons v r) ++ TD RB :: rest) e).
      { intros s ->. destruct H; reflexivity. }
      rewrite (E _ eq_refl). rewrite IH by (auto; discriminate). reflexivity.
  - (* object *)
    intros m IH rp top tail rest e H. destruct m as [|k v r].
    + destruct H; reflexivity.
    + change (tokens (VObj (MCons k v r)) ++ rest)
        with (TD LC :: (tokens_m (MCons k v r) ++ [TD RC]) ++ rest).
      rewrite <- app_assoc. cbn [app].
      assert (E : forall s, s = mk rp (top :: tail) ->
                runf s (TD LC :: tokens_m (MCons k v r) ++ TD RC :: rest) e
                = runf (mk rp (ObjectStart :: adv top :: tail))
                       (tokens_m (MCons k v r) ++ TD RC :: rest) e).
      { intros s ->. destruct H; reflexivity. }
      rewrite (E _ eq_refl). rewrite IH by (auto; discriminate). reflexivity.
  - (* VNil *) intros. congruence.
  - (* VCons *)
    intros v IHv r IHr rp i top tail rest e H _.
    cbn [tokens_l]. rewrite <- app_assoc.
    rewrite IHv by (destruct H; subst; constructor).
    assert (A : adv top = ArrayValue) by (destruct H; subst; reflexivity). rewrite A.
    destruct r as [|v' r'].
    + (* last element: ] follows *)
      cbn [tokens_l app ts_elems]. rewrite trace_of_app. f_equal.
    + unfold runf_after at 1. unfold more_adj. rewrite more_tokens_l. cbn [states path].
      rewrite ts_elems_cons2, trace_of_app. f_equal.
      apply IHr; [auto | discriminate].
  - (* MNil *) intros. congruence.
  - (* MCons *)
    intros k v IHv r IHr rp top tail rest e H _.
    cbn [tokens_m]. rewrite <- app_comm_cons, <- app_assoc.
    assert (E : forall s, s = mk rp (top :: tail) ->
              runf s (TS (SStr k) :: tokens v ++ tokens_m r ++ TD RC :: rest) e
              = runf (mk (PKey (SStr k) :: rp) (ObjectKey :: tail))
                     (tokens v ++ tokens_m r ++ TD RC :: rest) e).
    { intros s ->. destruct H; subst; reflexivity. }
    rewrite (E _ eq_refl). rewrite IHv by constructor. cbn [adv].
    destruct r as [|k' v' r'].
    + cbn [tokens_m app ts_membs]. rewrite trace_of_app. f_equal.
    + unfold runf_after at 1.
      assert (M : more (tokens_m (MCons k' v' r') ++ TD RC :: rest) = true) by reflexivity.
      unfold more_adj. rewrite M. cbn [states path].
      rewrite ts_membs_cons2, trace_of_app. f_equal.
      apply IHr; [auto | discriminate].
Qed.

(* ---- whole inputs ------------------------------------------------------------------------ *)
Lemma run_init : forall ts e, run init ts e = runf_after init ts e.
Proof. reflexivity. Qed.

Lemma docs_gen : forall ds e,
  runf_after init (tokens_docs ds) e = trace_of (flat_map tostream_doc_order ds) (at_end init e).
Proof.
  induction ds as [|d ds IH]; intros e.
  - reflexivity.
  - cbn [tokens_docs flat_map]. unfold runf_after at 1, more_adj. rewrite more_tokens.
    cbn [states init]. destruct stream_gen as [Hv _].
    rewrite (Hv d [] TopValue [] _ e vt_top). cbn [adv].
    rewrite trace_of_app. f_equal. apply IH.
Qed.

Lemma stream_tostream_lemma : forall ds,
  stream_events (tokens_docs ds) EndEOF = trace_of (flat_map tostream_doc_order ds) End.
Proof. intros. unfold stream_events. rewrite run_init. apply docs_gen. Qed.

(* one document, the form quoted in the property *)
Lemma stream_tostream_doc_lemma : forall d,
  stream_events (tokens d) EndEOF = trace_of (tostream_doc_order d) End.
Proof.
  intros. pose proof (stream_tostream_lemma [d]) as H. cbn [tokens_docs flat_map] in H.
  rewrite !app_nil_r in H. exact H.
Qed.

(* ---- run is the iteration of next() ------------------------------------------------------ *)
Lemma runf_next_loop : forall ts s e,
  runf s ts e = match next_loop s ts e with
                | NEmit ev s1 r => Ev ev (run s1 r e)
                | NStop t => t
                end.
Proof.
  induction ts as [|t r IH]; intros; cbn [runf next_loop]; [reflexivity|].
  destruct (step s t); [apply IH | reflexivity | reflexivity].
Qed.

Lemma run_next_lemma : forall s ts e,
  run s ts e = match next s ts e with
               | NEmit ev s1 r => Ev ev (run s1 r e)
               | NStop t => t
               end.
Proof. intros. unfold run at 1, next. destruct (pre s ts); [apply runf_next_loop | reflexivity]. Qed.

(* ---- truncation -------------------------------------------------------------------------- *)
Lemma trace_split : forall t, t = trace_of (events_of t) (final_of t).
Proof. induction t; simpl; congruence. Qed.

Lemma events_at_end : forall s e, events_of (at_end s e) = [].
Proof. intros. unfold at_end. destruct e; [destruct (states s) as [|[] ?]|]; reflexivity. Qed.

Lemma pre_app : forall s t r ts2, pre s ((t :: r) ++ ts2) = pre s (t :: r).
Proof. reflexivity. Qed.

Lemma runf_prefix : forall ts1 s ts2 e e',
  exists tl, events_of (runf s (ts1 ++ ts2) e) = events_of (runf s ts1 e') ++ tl.
Proof.
  induction ts1 as [|t r IH]; intros.
  - cbn [runf app]. rewrite events_at_end. eexists; reflexivity.
  - cbn [app runf]. destruct (step s t) as [s1|ev s1|].
    + apply IH.
    + destruct r as [|t' r'].
      * cbn [app]. eexists (events_of _). cbn [events_of]. f_equal.
        destruct (pre s1 []); cbn [runf]; [rewrite events_at_end|]; reflexivity.
      * rewrite pre_app. destruct (pre s1 (t' :: r')).
        -- destruct (IH s0 ts2 e e') as [tl H]. exists tl. cbn [events_of]. now rewrite H.
        -- exists []. reflexivity.
    + exists []. reflexivity.
Qed.

Lemma pre_nil_none : forall s ts, pre s [] = None -> pre s ts = None.
Proof. unfold pre. intros s ts. destruct (pop_end s); [discriminate | reflexivity]. Qed.

Lemma runf_prefix_final : forall ts1 s ts2 e,
  final_of (runf s (ts1 ++ ts2) e) <> Panic -> final_of (runf s ts1 EndErr) = Err.
Proof.
  induction ts1 as [|t r IH]; intros s ts2 e H.
  - reflexivity.
  - cbn [app runf] in *. destruct (step s t) as [s1|ev s1|].
    + eapply IH; eauto.
    + cbn [final_of] in *. destruct r as [|t' r'].
      * cbn [app] in H. destruct (pre s1 []) eqn:E; [reflexivity|].
        rewrite (pre_nil_none _ ts2 E) in H. now elim H.
      * rewrite pre_app in H. destruct (pre s1 (t' :: r')); [eapply IH; eauto | now elim H].
    + now elim H.
Qed.

Lemma stream_truncated_lemma : forall ds ts1 ts2,
  tokens_docs ds = ts1 ++ ts2 ->
  exists evs tl, stream_events ts1 EndErr = trace_of evs Err
              /\ flat_map tostream_doc_order ds = evs ++ tl.
Proof.
  intros ds ts1 ts2 H. pose proof (stream_tostream_lemma ds) as F. rewrite H in F.
  unfold stream_events in *. destruct ts1 as [|t r].
  - exists [], (flat_map tostream_doc_order ds). split; reflexivity.
  - unfold run in *. rewrite pre_app in F. destruct (pre init (t :: r)) as [s|].
    + exists (events_of (runf s (t :: r) EndErr)).
      destruct (runf_prefix (t :: r) s ts2 EndEOF EndErr) as [tl P].
      rewrite F, events_trace_of in P. cbn [events_of] in P. rewrite app_nil_r in P.
      exists tl. split; [|exact P].
      rewrite (trace_split (runf s (t :: r) EndErr)) at 1. f_equal.
      eapply runf_prefix_final with (ts2 := ts2) (e := EndEOF).
      rewrite F, final_trace_of. discriminate.
    + destruct (flat_map tostream_doc_order ds); discriminate.
Qed.

(* ---- clean EOF from the tokenizer strictly inside a document is an error ------------------ *)
Lemma docs_gen_rest : forall ds rest e,
  runf_after init (tokens_docs ds ++ rest) e
  = trace_of (flat_map tostream_doc_order ds) (runf_after init rest e).
Proof.
  induction ds as [|d ds IH]; intros rest e.
  - reflexivity.
  - cbn [tokens_docs flat_map]. rewrite <- app_assoc. unfold runf_after at 1, more_adj. rewrite more_tokens.
    cbn [states init]. destruct stream_gen as [Hv _].
    rewrite (Hv d [] TopValue [] _ e vt_top). cbn [adv].
    rewrite trace_of_app. f_equal. apply IH.
Qed.

Lemma more_head : forall t a b, more (t :: a) = more (t :: b).
Proof. intros [[]|] a b; reflexivity. Qed.

Lemma more_prefix : forall v x l0 ts2, l0 <> [] -> tokens v ++ x = l0 ++ ts2 -> more l0 = true.
Proof.
  intros v x [|t l0'] ts2 H E; [congruence|].
  pose proof (more_tokens v x) as M. rewrite E in M. cbn [app] in M.
  now rewrite (more_head t l0' (l0' ++ ts2)).
Qed.

Definition R_value (v : value) : Prop :=
  forall rp top tail ts1 ts2, vtop top -> tokens v = ts1 ++ ts2 -> ts1 <> [] -> ts2 <> [] ->
    final_of (runf (mk rp (top :: tail)) ts1 EndEOF) = Err.
Definition R_vlist (l : vlist) : Prop :=
  forall rp i top tail ts1 ts2, top = ArrayStart \/ top = ArrayValue ->
    tokens_l l ++ [TD RB] = ts1 ++ ts2 -> ts2 <> [] ->
    final_of (runf (mk (PIdx i :: rp) (top :: tail)) ts1 EndEOF) = Err.
Definition R_mlist (m : mlist) : Prop :=
  forall rp top tail ts1 ts2, top = ObjectStart \/ top = ObjectValue ->
    tokens_m m ++ [TD RC] = ts1 ++ ts2 -> ts2 <> [] ->
    final_of (runf (mk rp (top :: tail)) ts1 EndEOF) = Err.

Lemma single_split : forall (X : Type) (x : X) a b, [x] = a ++ b -> b <> [] -> a = [].
Proof.
  intros X x [|y a] b E H; [reflexivity|]. destruct a; destruct b; cbn in E; try congruence.
  all: inversion E.
Qed.

Lemma eof_inside_gen : (forall v, R_value v) /\ (forall l, R_vlist l) /\ (forall m, R_mlist m).
Proof.
  apply value_vlist_mlist_ind; unfold R_value, R_vlist, R_mlist.
  - (* scalar: no proper non-empty prefix *)
    intros s rp top tail ts1 ts2 _ E H1 H2. cbn in E.
    apply single_split in E; [contradiction | assumption].
  - intros l IH rp top tail ts1 ts2 V E H1 H2.
    destruct ts1 as [|t ts1']; [congruence|]. cbn [tokens app] in E. inversion E; subst t.
    assert (S1 : forall s, s = mk rp (top :: tail) ->
              runf s (TD LB :: ts1') EndEOF
              = runf (mk (PIdx 0 :: rp) (ArrayStart :: adv top :: tail)) ts1' EndEOF).
    { intros s ->. destruct V; reflexivity. }
    rewrite (S1 _ eq_refl). eapply IH; eauto.
  - intros m IH rp top tail ts1 ts2 V E H1 H2.
    destruct ts1 as [|t ts1']; [congruence|]. cbn [tokens app] in E. inversion E; subst t.
    assert (S1 : forall s, s = mk rp (top :: tail) ->
              runf s (TD LC :: ts1') EndEOF
              = runf (mk rp (ObjectStart :: adv top :: tail)) ts1' EndEOF).
    { intros s ->. destruct V; reflexivity. }
    rewrite (S1 _ eq_refl). eapply IH; eauto.
  - (* VNil *)
    intros rp i top tail ts1 ts2 V E H2. cbn [tokens_l app] in E.
    apply single_split in E; [|assumption]. subst ts1. destruct V; subst; reflexivity.
  - (* VCons *)
    intros v IHv r IHr rp i top tail ts1 ts2 V E H2.
    cbn [tokens_l] in E. rewrite <- app_assoc in E.
    assert (VT : vtop top) by (destruct V; subst; constructor).
    assert (A : adv top = ArrayValue) by (destruct V; subst; reflexivity).
    assert (AFTER : forall l0, tokens_l r ++ [TD RB] = l0 ++ ts2 ->
              final_of (runf (mk (PIdx i :: rp) (top :: tail)) (tokens v ++ l0) EndEOF) = Err).
    { intros l0 E2. destruct stream_gen as [Hv _]. rewrite (Hv v _ _ _ _ _ VT), final_trace_of, A.
      unfold runf_after. destruct l0 as [|t l0'].
      - reflexivity.
      - destruct r as [|v' r'].
        + exfalso. cbn [tokens_l app] in E2. inversion E2 as [[T E3]].
          symmetry in E3. apply app_eq_nil in E3. destruct E3; contradiction.
        + unfold more_adj. cbn [tokens_l] in E2. rewrite <- app_assoc in E2.
          rewrite (more_prefix v' (tokens_l r' ++ [TD RB]) (t :: l0') ts2 ltac:(discriminate) E2).
          cbn [states path].
          eapply IHr; [auto | cbn [tokens_l]; rewrite <- app_assoc; exact E2 | exact H2]. }
    apply app_eq_app in E. destruct E as [l0 [[E1 E2]|[E1 E2]]]; [|subst ts1; apply AFTER; exact E2].
    (* tokens v = ts1 ++ l0 *)
    destruct ts1 as [|t ts1'].
    + destruct V; subst; reflexivity.
    + destruct l0 as [|t0 l0'].
      * rewrite app_nil_r in E1. rewrite <- E1. rewrite <- (app_nil_r (tokens v)). apply AFTER.
        cbn [app] in E2. rewrite E2. reflexivity.
      * eapply IHv; eauto; discriminate.
  - (* MNil *)
    intros rp top tail ts1 ts2 V E H2. cbn [tokens_m app] in E.
    apply single_split in E; [|assumption]. subst ts1. destruct V; subst; reflexivity.
  - (* MCons *)
    intros k v IHv r IHr rp top tail ts1 ts2 V E H2.
    destruct ts1 as [|t ts1'].
    { destruct V; subst; reflexivity. }
    cbn [tokens_m app] in E. inversion E as [[T E']]. subst t. clear E. rewrite <- app_assoc in E'.
    assert (S1 : forall s, s = mk rp (top :: tail) ->
              runf s (TS (SStr k) :: ts1') EndEOF
              = runf (mk (PKey (SStr k) :: rp) (ObjectKey :: tail)) ts1' EndEOF).
    { intros s ->. destruct V; subst; reflexivity. }
    rewrite (S1 _ eq_refl).
    assert (AFTER : forall l0, tokens_m r ++ [TD RC] = l0 ++ ts2 ->
              final_of (runf (mk (PKey (SStr k) :: rp) (ObjectKey :: tail)) (tokens v ++ l0) EndEOF) = Err).
    { intros l0 E2. destruct stream_gen as [Hv _]. rewrite (Hv v _ _ _ _ _ vt_ok), final_trace_of. cbn [adv].
      unfold runf_after. destruct l0 as [|t l0'].
      - reflexivity.
      - destruct r as [|k' v' r'].
        + exfalso. cbn [tokens_m app] in E2. inversion E2 as [[T E3]].
          symmetry in E3. apply app_eq_nil in E3. destruct E3; contradiction.
        + unfold more_adj. cbn [tokens_m app] in E2. inversion E2 as [[T E3]]. subst t.
          cbn [more states path]. eapply IHr; eauto. }
    apply app_eq_app in E'. destruct E' as [l0 [[E1 E2]|[E1 E2]]]; [|subst ts1'; apply AFTER; exact E2].
    destruct ts1' as [|t ts1''].
    + reflexivity.
    + destruct l0 as [|t0 l0'].
      * rewrite app_nil_r in E1. rewrite <- E1. rewrite <- (app_nil_r (tokens v)). apply AFTER.
        cbn [app] in E2. rewrite E2. reflexivity.
      * eapply IHv; eauto; try discriminate. constructor.
Qed.

Lemma stream_truncated_eof_lemma : forall ds1 d ts1 ts2,
  tokens d = ts1 ++ ts2 -> ts1 <> [] -> ts2 <> [] ->
  final_of (stream_events (tokens_docs ds1 ++ ts1) EndEOF) = Err.
Proof.
  intros ds1 d ts1 ts2 E H1 H2. unfold stream_events. rewrite run_init, docs_gen_rest, final_trace_of.
  unfold runf_after, more_adj.
  rewrite (more_prefix d [] ts1 ts2) by (assumption || (rewrite app_nil_r; assumption)).
  cbn [states init]. destruct eof_inside_gen as [Hv _].
  eapply (Hv d); eauto. constructor.
Qed.
