(* C16: "all events before the cut".  The machine of Stream.v emits each event while consuming the
   token that determines it (see StreamPos), so the run on any prefix of the token sequence yields
   exactly the events determined by that prefix. *)
From Coq Require Import List NArith Bool Arith Lia.
From Verif Require Import c16.Stream c16.StreamProofs c16.StreamPos.
Import ListNotations.
Open Scope nat_scope.

Definition runf_pos_after (n : nat) (s : sm) (r : list token) : list (nat * event) :=
  match more_adj s r with Some s2 => runf_pos n s2 r | None => [] end.

Lemma ntok_tokens : (forall v, List.length (tokens v) = ntok v)
  /\ (forall l, List.length (tokens_l l) = ntok_l l) /\ (forall m, List.length (tokens_m m) = ntok_m m).
Proof.
  apply value_vlist_mlist_ind; intros; cbn [tokens tokens_l tokens_m ntok ntok_l ntok_m List.length];
    rewrite ?app_length; cbn [List.length]; try lia.
Qed.

Definition Q_value (v : value) : Prop :=
  forall rp top tail rest n, vtop top ->
    runf_pos n (mk rp (top :: tail)) (tokens v ++ rest)
    = pos_val rp n v ++ runf_pos_after (n + ntok v) (mk rp (adv top :: tail)) rest.

Definition Q_vlist (l : vlist) : Prop :=
  forall rp i top tail rest n, top = ArrayStart \/ top = ArrayValue -> l <> VNil ->
    runf_pos n (mk (PIdx i :: rp) (top :: tail)) (tokens_l l ++ TD RB :: rest)
    = pos_elems rp i n l ++ runf_pos_after (n + ntok_l l + 1) (mk rp tail) rest.

Definition Q_mlist (m : mlist) : Prop :=
  forall rp top tail rest n, top = ObjectStart \/ top = ObjectValue -> m <> MNil ->
    runf_pos n (mk rp (top :: tail)) (tokens_m m ++ TD RC :: rest)
    = pos_membs rp n m ++ runf_pos_after (n + ntok_m m + 1) (mk rp tail) rest.

Lemma pos_elems_cons2 : forall rp i n v v' r,
  pos_elems rp i n (VCons v (VCons v' r))
  = pos_val (PIdx i :: rp) n v ++ pos_elems rp (i + 1)%N (n + ntok v) (VCons v' r).
Proof. reflexivity. Qed.

Lemma pos_membs_cons2 : forall rp n k v k' v' r,
  pos_membs rp n (MCons k v (MCons k' v' r))
  = pos_val (PKey (SStr k) :: rp) (n + 1) v ++ pos_membs rp (n + 1 + ntok v) (MCons k' v' r).
Proof. reflexivity. Qed.

Lemma pos_gen : (forall v, Q_value v) /\ (forall l, Q_vlist l) /\ (forall m, Q_mlist m).
Proof.
  apply value_vlist_mlist_ind; unfold Q_value, Q_vlist, Q_mlist.
  - intros s rp top tail rest n H. cbn [ntok]. replace (n + 1) with (S n) by lia. destruct H; reflexivity.
  - intros l IH rp top tail rest n H. destruct l as [|v r].
    + cbn [ntok ntok_l pos_val]. replace (n + (2 + 0)) with (S (S n)) by lia. rewrite !Nat.add_1_r. destruct H; reflexivity.
    + change (tokens (VArr (VCons v r)) ++ rest)
        with (TD LB :: (tokens_l (VCons v r) ++ [TD RB]) ++ rest).
      rewrite <- app_assoc. cbn [app].
      assert (E : forall s, s = mk rp (top :: tail) ->
                runf_pos n s (TD LB :: tokens_l (VCons v r) ++ TD RB :: rest)
                = runf_pos (S n) (mk (PIdx 0 :: rp) (ArrayStart :: adv top :: tail))
                       (tokens_l (VCons v r) ++ TD RB :: rest)).
      { intros s ->. destruct H; reflexivity. }
      rewrite (E _ eq_refl). rewrite IH by (auto; discriminate).
      change (pos_val rp n (VArr (VCons v r))) with (pos_elems rp 0%N (n + 1) (VCons v r)).
      replace (S n) with (n + 1) by lia. f_equal. f_equal. cbn [ntok]. lia.
  - intros m IH rp top tail rest n H. destruct m as [|k v r].
    + cbn [ntok ntok_m pos_val]. replace (n + (2 + 0)) with (S (S n)) by lia. rewrite !Nat.add_1_r. destruct H; reflexivity.
    + change (tokens (VObj (MCons k v r)) ++ rest)
        with (TD LC :: (tokens_m (MCons k v r) ++ [TD RC]) ++ rest).
      rewrite <- app_assoc. cbn [app].
      assert (E : forall s, s = mk rp (top :: tail) ->
                runf_pos n s (TD LC :: tokens_m (MCons k v r) ++ TD RC :: rest)
                = runf_pos (S n) (mk rp (ObjectStart :: adv top :: tail))
                       (tokens_m (MCons k v r) ++ TD RC :: rest)).
      { intros s ->. destruct H; reflexivity. }
      rewrite (E _ eq_refl). rewrite IH by (auto; discriminate).
      change (pos_val rp n (VObj (MCons k v r))) with (pos_membs rp (n + 1) (MCons k v r)).
      replace (S n) with (n + 1) by lia. f_equal. f_equal. cbn [ntok]. lia.
  - intros. congruence.
  - intros v IHv r IHr rp i top tail rest n H _.
    cbn [tokens_l]. rewrite <- app_assoc.
    rewrite IHv by (destruct H; subst; constructor).
    assert (A : adv top = ArrayValue) by (destruct H; subst; reflexivity). rewrite A.
    destruct r as [|v' r'].
    + cbn [tokens_l app pos_elems ntok_l]. rewrite <- app_assoc. f_equal.
      unfold runf_pos_after at 1. cbn [more_adj more]. cbn [runf_pos step states path set_top copyPath].
      cbn [app]. f_equal. unfold pre. cbn [pop_end states path].
      unfold runf_pos_after. replace (S (n + ntok v)) with (n + (ntok v + 0) + 1) by lia. reflexivity.
    + unfold runf_pos_after at 1. unfold more_adj. rewrite more_tokens_l. cbn [states path].
      rewrite pos_elems_cons2, <- app_assoc. f_equal.
      rewrite IHr by (auto; discriminate). f_equal. f_equal.
      change (ntok_l (VCons v (VCons v' r'))) with (ntok v + ntok_l (VCons v' r')). lia.
  - intros. congruence.
  - intros k v IHv r IHr rp top tail rest n H _.
    cbn [tokens_m]. rewrite <- app_comm_cons, <- app_assoc.
    assert (E : forall s, s = mk rp (top :: tail) ->
              runf_pos n s (TS (SStr k) :: tokens v ++ tokens_m r ++ TD RC :: rest)
              = runf_pos (S n) (mk (PKey (SStr k) :: rp) (ObjectKey :: tail))
                     (tokens v ++ tokens_m r ++ TD RC :: rest)).
    { intros s ->. destruct H; subst; reflexivity. }
    rewrite (E _ eq_refl). rewrite IHv by constructor. cbn [adv].
    replace (S n) with (n + 1) by lia.
    destruct r as [|k' v' r'].
    + cbn [tokens_m app pos_membs ntok_m]. rewrite <- app_assoc. f_equal.
      unfold runf_pos_after at 1. cbn [more_adj more]. cbn [runf_pos step states path set_top copyPath].
      cbn [app]. f_equal. unfold pre. cbn [pop_end states path].
      unfold runf_pos_after. replace (S (n + 1 + ntok v)) with (n + (1 + ntok v + 0) + 1) by lia. reflexivity.
    + unfold runf_pos_after at 1.
      assert (M : more (tokens_m (MCons k' v' r') ++ TD RC :: rest) = true) by reflexivity.
      unfold more_adj. rewrite M. cbn [states path].
      rewrite pos_membs_cons2, <- app_assoc. f_equal.
      rewrite IHr by (auto; discriminate). f_equal. f_equal.
      change (ntok_m (MCons k v (MCons k' v' r'))) with (1 + ntok v + ntok_m (MCons k' v' r')). lia.
Qed.

Lemma pos_docs_gen : forall ds n, runf_pos_after n init (tokens_docs ds) = pos_docs n ds.
Proof.
  induction ds as [|d ds IH]; intros n; [reflexivity|].
  cbn [tokens_docs flat_map pos_docs]. unfold runf_pos_after at 1, more_adj. rewrite more_tokens.
  cbn [states init]. destruct pos_gen as [Hv _].
  rewrite (Hv d [] TopValue [] _ n vt_top). cbn [adv]. f_equal. apply IH.
Qed.

(* tags never lie before the starting index *)
Lemma runf_pos_ge : forall ts n s, Forall (fun pe => n <= fst pe) (runf_pos n s ts).
Proof.
  induction ts as [|t r IH]; intros n s; cbn [runf_pos]; [constructor|].
  destruct (step s t) as [s1|ev s1|].
  - eapply Forall_impl; [|apply IH]. cbn. intros; lia.
  - constructor; [cbn; lia|]. destruct (pre s1 r); [|constructor].
    eapply Forall_impl; [|apply IH]. cbn. intros; lia.
  - constructor.
Qed.

Lemma filter_none : forall (l : list (nat * event)) k,
  Forall (fun pe => k <= fst pe) l -> filter (fun pe => fst pe <? k) l = [].
Proof.
  induction l as [|x l IH]; intros k F; [reflexivity|]. inversion F; subst. cbn [filter].
  replace (fst x <? k) with false by (symmetry; apply Nat.ltb_ge; assumption). now apply IH.
Qed.

Lemma runf_prefix_pos : forall ts1 ts2 s n e,
  events_of (runf s ts1 e)
  = map snd (filter (fun pe => fst pe <? n + List.length ts1) (runf_pos n s (ts1 ++ ts2))).
Proof.
  induction ts1 as [|t r IH]; intros ts2 s n e.
  - cbn [runf app List.length]. rewrite events_at_end, Nat.add_0_r.
    rewrite filter_none by apply runf_pos_ge. reflexivity.
  - cbn [app runf runf_pos List.length]. destruct (step s t) as [s1|ev s1|].
    + rewrite (IH ts2 s1 (S n) e). replace (S n + List.length r) with (n + S (List.length r)) by lia.
      reflexivity.
    + cbn [filter fst]. replace (n <? n + S (List.length r)) with true by (symmetry; apply Nat.ltb_lt; lia).
      cbn [map snd events_of]. f_equal.
      destruct r as [|t' r'].
      * cbn [app List.length].
        replace (events_of match pre s1 [] with Some s2 => runf s2 [] e | None => Panic end) with (@nil event)
          by (destruct (pre s1 []); cbn [runf]; [rewrite events_at_end|]; reflexivity).
        destruct (pre s1 ts2); [|reflexivity].
        rewrite filter_none; [reflexivity|].
        eapply Forall_impl; [|apply runf_pos_ge]. cbn. intros; lia.
      * rewrite pre_app. destruct (pre s1 (t' :: r')); [|reflexivity].
        rewrite (IH ts2 s0 (S n) e).
        replace (S n + List.length (t' :: r')) with (n + S (List.length (t' :: r'))) by lia. reflexivity.
    + reflexivity.
Qed.

(* the events of a run on the first k tokens are exactly the events determined by those tokens *)
Lemma stream_truncated_exact_lemma : forall ds k e, k <= List.length (tokens_docs ds) ->
  events_of (stream_events (firstn k (tokens_docs ds)) e) = events_before k ds.
Proof.
  intros ds k e L. unfold stream_events, events_before.
  rewrite <- pos_docs_gen.
  set (ts := tokens_docs ds) in *.
  rewrite <- (firstn_skipn k ts) at 2.
  assert (LK : List.length (firstn k ts) = k) by (rewrite firstn_length; lia).
  destruct (firstn k ts) as [|t r] eqn:E.
  - cbn [List.length] in LK. subst k. cbn [app].
    rewrite filter_none by (apply Forall_forall; intros; lia).
    unfold run, pre. cbn [pop_end init states more_adj more runf]. now rewrite events_at_end.
  - unfold run, runf_pos_after. change (pre init (t :: r)) with (more_adj init (t :: r)).
    change (more_adj init ((t :: r) ++ skipn k ts)) with (more_adj init (t :: r)).
    destruct (more_adj init (t :: r)); [|reflexivity].
    rewrite (runf_prefix_pos (t :: r) (skipn k ts) s 0 e). rewrite LK. reflexivity.
Qed.
