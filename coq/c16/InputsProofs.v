(* C16 proofs about the input iterators of Inputs.v.  Every iterator is shown to be a "list iterator":
   an abstraction function gives the list of outputs still to come, and Next pops its head. *)
From Coq Require Import List NArith Bool Lia.
From Verif Require Import common.Sexp c16.Stream c16.StreamProofs c16.Inputs c16.InputsSpec.
Import ListNotations.
Open Scope N_scope.

Section IterSpec.
  Variables (I : Type) (inext : I -> option out * I) (abs : I -> list out).
  Definition iter_ok : Prop :=
    forall i, match inext i with
              | (Some o, i') => abs i = o :: abs i'
              | (None, i') => abs i = [] /\ abs i' = []
              end.
End IterSpec.

(* ---- jsonInputIter ------------------------------------------------------------------------- *)
Lemma json_ok : iter_ok jiter json_next json_abs.
Proof.
  intros [vs bad err]. unfold json_next, json_abs; cbn.
  destruct err; [auto|]. destruct vs as [|v r]; cbn; [|reflexivity].
  destruct bad; cbn; auto.
Qed.

(* ---- stream iterator ------------------------------------------------------------------------ *)
Lemma at_end_cases : forall s e, at_end s e = End \/ at_end s e = Err \/ at_end s e = Panic.
Proof. intros. unfold at_end. destruct e; [destruct (states s) as [|[] ?]|]; auto. Qed.

Lemma next_loop_stop : forall ts s e t, next_loop s ts e = NStop t -> t = End \/ t = Err \/ t = Panic.
Proof.
  induction ts as [|x r IH]; intros s e t H; cbn in H.
  - inversion H. apply at_end_cases.
  - destruct (step s x); [eauto | discriminate | inversion H; auto].
Qed.

Lemma next_stop : forall s ts e t, next s ts e = NStop t -> t = End \/ t = Err \/ t = Panic.
Proof.
  unfold next. intros s ts e t H. destruct (pre s ts); [eapply next_loop_stop; eauto | inversion H; auto].
Qed.

Lemma stream_ok : iter_ok siter stream_next stream_abs.
Proof.
  intros [s ts e err]. unfold stream_next, stream_abs; cbn.
  destruct err; [auto|]. rewrite run_next_lemma.
  destruct (next s ts e) as [ev s1 r|t] eqn:E; cbn; [reflexivity|].
  destruct (next_stop _ _ _ _ E) as [->|[->| ->]]; cbn; auto.
Qed.

(* ---- rawInputIter --------------------------------------------------------------------------- *)
Lemma trim_nl_snoc : forall l, Forall (fun c => (c =? 10) = false) l -> trim_nl (l ++ [10]) = l.
Proof.
  induction l as [|c r IH]; intros H; [reflexivity|].
  inversion H; subst. cbn [app]. destruct r as [|c' r'].
  - cbn. reflexivity.
  - change (trim_nl (c :: (c' :: r') ++ [10])) with (c :: trim_nl ((c' :: r') ++ [10])).
    now rewrite IH.
Qed.

Lemma trim_nl_id : forall l, Forall (fun c => (c =? 10) = false) l -> trim_nl l = l.
Proof.
  induction l as [|c r IH]; intros H; [reflexivity|]. inversion H; subst.
  destruct r as [|c' r']; cbn.
  - now rewrite H2.
  - f_equal. now apply IH.
Qed.

(* read_string in terms of the accumulator of lines_aux *)
Lemma read_string_spec : forall t cur,
  match read_string t with
  | (line, rest, true) =>
      exists body, line = body ++ [10] /\ Forall (fun c => (c =? 10) = false) body
                   /\ lines_aux cur t = rev (rev body ++ cur) :: lines_aux [] rest
  | (line, rest, false) =>
      rest = [] /\ Forall (fun c => (c =? 10) = false) line
      /\ lines_aux cur t = match rev line ++ cur with [] => [] | x => [rev x] end
  end.
Proof.
  induction t as [|c r IH]; intros cur.
  - cbn. repeat split; auto. destruct cur; reflexivity.
  - cbn [read_string lines_aux]. destruct (c =? 10) eqn:E.
    + apply N.eqb_eq in E. subst c. exists []. repeat split; auto.
    + specialize (IH (c :: cur)). destruct (read_string r) as [[l rest] f]. destruct f.
      * destruct IH as [body [-> [F L]]]. exists (c :: body). repeat split; auto.
        rewrite L. cbn [rev]. now rewrite <- app_assoc.
      * destruct IH as [-> [F L]]. repeat split; auto.
        rewrite L. cbn [rev]. now rewrite <- app_assoc.
Qed.

Lemma raw_ok : iter_ok riter raw_next raw_abs.
Proof.
  intros [t err]. unfold raw_next, raw_abs; cbn.
  destruct err; [auto|]. unfold lines.
  pose proof (read_string_spec t []) as H. destruct (read_string t) as [[line rest] f]. destruct f.
  - destruct H as [body [-> [F L]]]. cbn. rewrite L, app_nil_r, rev_involutive.
    rewrite trim_nl_snoc by assumption. reflexivity.
  - destruct H as [-> [F L]]. rewrite app_nil_r in L. destruct line as [|c l].
    + cbn in *. rewrite L. auto.
    + cbn [rerr rtext]. rewrite L. rewrite trim_nl_id by assumption.
      destruct (rev (c :: l)) eqn:R.
      * apply (f_equal (@List.length N)) in R. rewrite rev_length in R. discriminate.
      * rewrite <- R, rev_involutive. reflexivity.
Qed.

(* the law of lines: every line is free of \n, and terminating each line with \n gives back the text,
   plus one \n when the text is non-empty and does not end with one *)
Lemma ends_nl_app : forall x r, r <> [] -> ends_nl (x ++ r) = ends_nl r.
Proof.
  intros x r H. unfold ends_nl. rewrite rev_app_distr.
  destruct (rev r) eqn:R; [|reflexivity].
  apply (f_equal (@rev N)) in R. rewrite rev_involutive in R. now elim H.
Qed.

Lemma terminate_nl : forall x r, terminate (x ++ 10 :: r) = x ++ 10 :: terminate r.
Proof.
  intros x r. unfold terminate at 1.
  destruct (x ++ 10 :: r) eqn:E; [destruct x; discriminate|]. rewrite <- E. clear E.
  destruct r as [|c r'].
  - change (x ++ [10]) with (x ++ [10]). unfold ends_nl. rewrite rev_app_distr. reflexivity.
  - change (10 :: c :: r') with ([10] ++ c :: r'). rewrite app_assoc.
    rewrite ends_nl_app by discriminate. unfold terminate.
    destruct (ends_nl (c :: r')); rewrite <- ?app_assoc; reflexivity.
Qed.

Lemma lines_aux_law : forall t cur,
  Forall (fun c => (c =? 10) = false) cur ->
  Forall (Forall (fun c => (c =? 10) = false)) (lines_aux cur t)
  /\ concat (map (fun l => l ++ [10]) (lines_aux cur t)) = terminate (rev cur ++ t).
Proof.
  induction t as [|c r IH]; intros cur F.
  - cbn [lines_aux]. rewrite app_nil_r. destruct cur as [|a cur'].
    + cbn. auto.
    + split; [repeat constructor; now apply Forall_rev|].
      cbn [map concat]. rewrite app_nil_r. unfold terminate.
      destruct (rev (a :: cur')) eqn:R.
      * apply (f_equal (@List.length N)) in R. rewrite rev_length in R. discriminate.
      * rewrite <- R. unfold ends_nl. rewrite rev_involutive. inversion F; subst. now rewrite H1.
  - cbn [lines_aux]. destruct (c =? 10) eqn:E.
    + apply N.eqb_eq in E. subst c. destruct (IH [] (Forall_nil _)) as [A B]. split.
      * constructor; [now apply Forall_rev | exact A].
      * cbn [map concat]. rewrite B. cbn [rev app]. rewrite terminate_nl.
        rewrite <- app_assoc. reflexivity.
    + assert (F' : Forall (fun c => (c =? 10) = false) (c :: cur)) by (constructor; assumption).
      destruct (IH (c :: cur) F') as [A B]. split; [exact A|].
      rewrite B. cbn [rev]. rewrite <- app_assoc. reflexivity.
Qed.

(* the law of lines: no line contains \n, and terminating every line with \n gives back the text
   (plus one \n when the text is non-empty and does not end with one) *)
Lemma raw_lines_law_lemma : forall t,
  Forall (Forall (fun c => (c =? 10) = false)) (lines t)
  /\ concat (map (fun l => l ++ [10]) (lines t)) = terminate t.
Proof. intros. apply (lines_aux_law t [] (Forall_nil _)). Qed.

(* ---- readAllIter ---------------------------------------------------------------------------- *)
Lemma all_ok : iter_ok aiter all_next all_abs.
Proof. intros [t err]. unfold all_next, all_abs; cbn. destruct err; auto. Qed.

(* ---- the per-file iterators together -------------------------------------------------------- *)
Lemma inner_ok : iter_ok inner inner_next inner_abs.
Proof.
  intros [j|j|j|j]; cbn.
  - pose proof (json_ok j) as H. destruct (json_next j) as [[o|] j']; exact H.
  - pose proof (stream_ok j) as H. destruct (stream_next j) as [[o|] j']; exact H.
  - pose proof (raw_ok j) as H. destruct (raw_next j) as [[o|] j']; exact H.
  - pose proof (all_ok j) as H. destruct (all_next j) as [[o|] j']; exact H.
Qed.

(* ---- filesInputIter -------------------------------------------------------------------------- *)
Section FilesProofs.
  Variables (D I : Type) (mkI : D -> I) (inext : I -> option out * I) (abs : I -> list out).
  Hypothesis inner_is_ok : iter_ok I inext abs.

  Definition src_abs (f : fsrc D) : list out :=
    match f with FMissing => [OErr] | FData d => abs (mkI d) end.

  (* file by file, in argument order *)
  Definition files_abs (s : @fstate D I) : list out :=
    if ferr s then []
    else (match fcur s with Some it => abs it | None => [] end) ++ flat_map src_abs (ffs s).

  Lemma files_open_ok : forall fs,
    match files_open D I mkI inext fs with
    | (Some o, s') => flat_map src_abs fs = o :: files_abs s'
    | (None, s') => flat_map src_abs fs = [] /\ files_abs s' = []
    end.
  Proof.
    induction fs as [|f r IH]; cbn [files_open].
    - split; reflexivity.
    - destruct f as [|d].
      + reflexivity.
      + pose proof (inner_is_ok (mkI d)) as H. destruct (inext (mkI d)) as [[o|] it].
        * cbn [flat_map src_abs]. rewrite H. reflexivity.
        * destruct H as [H _]. cbn [flat_map src_abs]. rewrite H. exact IH.
  Qed.

  Lemma files_ok : iter_ok _ (files_next D I mkI inext) files_abs.
  Proof.
    intros [fs cur err]. unfold files_next; cbn [ferr fcur ffs].
    destruct err; [split; reflexivity|].
    assert (K : forall pre, pre = [] ->
      match files_open D I mkI inext fs with
      | (Some o, s') => pre ++ flat_map src_abs fs = o :: files_abs s'
      | (None, s') => pre ++ flat_map src_abs fs = [] /\ files_abs s' = []
      end).
    { intros pre ->. exact (files_open_ok fs). }
    destruct cur as [it|].
    - pose proof (inner_is_ok it) as H. destruct (inext it) as [[o|] it'].
      + unfold files_abs; cbn. now rewrite H.
      + destruct H as [H _]. specialize (K (abs it) H).
        destruct (files_open D I mkI inext fs) as [[o|] s']; exact K.
    - specialize (K [] eq_refl). destruct (files_open D I mkI inext fs) as [[o|] s']; exact K.
  Qed.
End FilesProofs.

(* ---- consequences for any list iterator ------------------------------------------------------ *)
Section Consumers.
  Variables (I : Type) (inext : I -> option out * I) (abs : I -> list out).
  Hypothesis ok : iter_ok I inext abs.

  Lemma input_calls_spec : forall k i, input_calls I inext k i = calls_spec k (abs i).
  Proof.
    induction k as [|k IH]; intros i; [reflexivity|].
    cbn [input_calls calls_spec]. unfold func_input. pose proof (ok i) as H.
    destruct (inext i) as [[o|] i'].
    - rewrite H. destruct o; cbn [inres_of]; rewrite IH; reflexivity.
    - destruct H as [H H']. rewrite H, IH, H'. reflexivity.
  Qed.

  Lemma slurp_loop_spec : forall fuel i vs, (List.length (abs i) < fuel)%nat ->
    exists i', slurp_loop I inext fuel i vs = Some (slurp_spec (abs i) vs, i').
  Proof.
    induction fuel as [|f IH]; intros i vs L; [lia|].
    cbn [slurp_loop]. pose proof (ok i) as H. destruct (inext i) as [[o|] i'].
    - rewrite H in *. cbn [List.length] in L. destruct o; cbn [slurp_spec]; eauto.
      apply IH. lia.
    - destruct H as [H _]. rewrite H. eauto.
  Qed.

  Lemma inputs_loop_spec : forall fuel i vs, (List.length (abs i) < fuel)%nat ->
    exists i', inputs_loop I inext fuel i vs = Some (inputs_spec (abs i) vs, i').
  Proof.
    induction fuel as [|f IH]; intros i vs L; [lia|].
    cbn [inputs_loop]. unfold func_input. pose proof (ok i) as H. destruct (inext i) as [[o|] i'].
    - rewrite H in *. cbn [List.length] in L. destruct o; cbn [inputs_spec]; eauto.
      apply IH. lia.
    - destruct H as [H _]. rewrite H. eauto.
  Qed.

  Lemma slurp_inputs_spec : forall l vs, ~ In OPanic l ->
    slurp_spec l vs = match inputs_spec l vs with Some a => OVal (varr a) | None => OErr end.
  Proof.
    induction l as [|o r IH]; intros vs NP; [reflexivity|].
    destruct o; cbn [slurp_spec inputs_spec].
    - apply IH. intros X. apply NP. now right.
    - reflexivity.
    - elim NP. now left.
  Qed.

  (* the main loop with the query [.]: every output of the iterator, in order *)
  Lemma process_id_spec : forall fuel i, (List.length (abs i) < fuel)%nat ->
    process I inext fuel (q_id I) i = Some (abs i).
  Proof.
    induction fuel as [|f IH]; intros i L; [lia|].
    cbn [process]. pose proof (ok i) as H. destruct (inext i) as [[o|] i'].
    - rewrite H in *. cbn [List.length] in L. destruct o; cbn [q_id]; rewrite IH by lia; reflexivity.
    - destruct H as [H _]. now rewrite H.
  Qed.

  (* `-s .` prints what `-n [inputs]` prints *)
  Lemma slurp_eq_inputs_lemma : forall fuel i, (List.length (abs i) < fuel)%nat -> ~ In OPanic (abs i) ->
    process (I * bool) (slurp_it I inext fuel) 2 (q_id _) (i, false)
    = Some (process_null I (q_inputs I inext fuel) i).
  Proof.
    intros fuel i L NP. unfold process_null, q_inputs.
    destruct (slurp_loop_spec fuel i [] L) as [i1 S1].
    destruct (inputs_loop_spec fuel i [] L) as [i2 S2]. rewrite S2.
    cbn [process]. unfold slurp_it at 1, slurp_next. cbn [fst snd]. rewrite S1.
    rewrite (slurp_inputs_spec _ _ NP).
    destruct (inputs_spec (abs i) []); cbn; reflexivity.
  Qed.
End Consumers.

(* ---- the whole input of a run: file by file, in argument order ------------------------------- *)
Definition top_abs (t : top) : list out :=
  match t with
  | TInner i => inner_abs i
  | TFiles f s => files_abs fdata inner (new_inner f) inner_abs s
  end.

Lemma top_ok : iter_ok top top_next top_abs.
Proof.
  intros [i|f s]; cbn.
  - pose proof (inner_ok i) as H. destruct (inner_next i) as [[o|] i']; exact H.
  - pose proof (files_ok fdata inner (new_inner f) inner_next inner_abs inner_ok s) as H.
    destruct (files_next fdata inner (new_inner f) inner_next s) as [[o|] s']; exact H.
Qed.

Lemma new_inner_abs : forall f d, inner_abs (new_inner f d) = data_outs f d.
Proof. destruct f; reflexivity. Qed.

Lemma create_top_abs : forall m stdin args,
  top_abs (create_top m stdin args)
  = match args with [] => data_outs (fmt_of m) stdin | _ => flat_map (src_outs (fmt_of m)) args end.
Proof.
  intros m stdin [|a r]; cbn [create_top top_abs].
  - apply new_inner_abs.
  - unfold files_abs. cbn [ferr fcur ffs app].
    apply flat_map_ext. intros [|d]; cbn; [reflexivity | apply new_inner_abs].
Qed.

(* ---- statements about the iterator selected by createInputIter -------------------------------- *)
Lemma create_top_all : forall m stdin args, top_abs (create_top m stdin args) = all_outs m stdin args.
Proof. exact create_top_abs. Qed.

Lemma inputs_order_lemma : forall m stdin args k,
  input_calls top top_next k (create_top m stdin args) = calls_spec k (all_outs m stdin args).
Proof. intros. rewrite (input_calls_spec top top_next top_abs top_ok). now rewrite create_top_all. Qed.

Lemma plain_mode_lemma : forall m stdin args fuel,
  (List.length (all_outs m stdin args) < fuel)%nat ->
  process top top_next fuel (q_id top) (create_top m stdin args) = Some (all_outs m stdin args).
Proof.
  intros. rewrite <- create_top_all in *. now apply (process_id_spec top top_next top_abs top_ok).
Qed.

Lemma slurp_mode_lemma : forall m stdin args fuel,
  (List.length (all_outs m stdin args) < fuel)%nat -> ~ In OPanic (all_outs m stdin args) ->
  process (top * bool) (slurp_it top top_next fuel) 2 (q_id _) (create_top m stdin args, false)
  = Some (process_null top (q_inputs top top_next fuel) (create_top m stdin args)).
Proof.
  intros. rewrite <- create_top_all in *.
  now apply (slurp_eq_inputs_lemma top top_next top_abs top_ok).
Qed.

Lemma slurp_value_lemma : forall m stdin args fuel,
  (List.length (all_outs m stdin args) < fuel)%nat ->
  exists t', slurp_loop top top_next fuel (create_top m stdin args) []
             = Some (slurp_spec (all_outs m stdin args) [], t').
Proof.
  intros. rewrite <- create_top_all in *. now apply (slurp_loop_spec top top_next top_abs top_ok).
Qed.

(* -Rs *)
Section SlurpRaw.
  Variables (I : Type) (inext : I -> option out * I) (abs : I -> list out).
  Hypothesis ok : iter_ok I inext abs.
  Lemma slurpraw_loop_spec : forall fuel i acc, (List.length (abs i) < fuel)%nat ->
    exists i', slurpraw_loop I inext fuel i acc = Some (slurpraw_spec (abs i) acc, i').
  Proof.
    induction fuel as [|f IH]; intros i acc L; [lia|].
    cbn [slurpraw_loop]. pose proof (ok i) as H. destruct (inext i) as [[o|] i'].
    - rewrite H in *. cbn [List.length] in L. destruct o; cbn [slurpraw_spec]; eauto.
      destruct (str_of v); eauto. apply IH. lia.
    - destruct H as [H _]. rewrite H. eauto.
  Qed.
End SlurpRaw.

Fixpoint concat_texts (l : list (fsrc fdata)) : option (list N) :=
  match l with
  | [] => Some []
  | FMissing :: _ => None
  | FData d :: r => option_map (app (ftext d)) (concat_texts r)
  end.

Lemma slurpraw_all : forall l acc,
  slurpraw_spec (flat_map (src_outs FAll) l) acc
  = match concat_texts l with Some t => OVal (vstr (acc ++ t)) | None => OErr end.
Proof.
  induction l as [|[|d] r IH]; intros acc; cbn.
  - now rewrite app_nil_r.
  - reflexivity.
  - rewrite IH. destruct (concat_texts r); cbn; [now rewrite app_assoc | reflexivity].
Qed.

(* -Rs with file operands: one string, the concatenation of the files' texts (or the open error) *)
Lemma raw_slurp_lemma : forall stdin a args fuel,
  (List.length (a :: args) < fuel)%nat ->
  exists t', slurpraw_loop top top_next fuel (create_top (mkmode true false true) stdin (a :: args)) []
             = Some (match concat_texts (a :: args) with Some t => OVal (vstr t) | None => OErr end, t').
Proof.
  intros stdin a args fuel L.
  pose proof (slurpraw_loop_spec top top_next top_abs top_ok fuel
                (create_top (mkmode true false true) stdin (a :: args)) []) as H.
  rewrite create_top_all in H. unfold all_outs, fmt_of in H. cbn [m_raw m_slurp] in H.
  rewrite slurpraw_all in H. cbn [app] in H. apply H.
  clear H. revert L. generalize (a :: args). intros l L.
  assert (E : List.length (flat_map (src_outs FAll) l) = List.length l).
  { clear. induction l as [|[|d] r IH]; cbn; auto. }
  rewrite E. exact L.
Qed.

Lemma raw_slurp_stdin_lemma : forall stdin fuel, (1 < fuel)%nat ->
  exists t', slurpraw_loop top top_next fuel (create_top (mkmode true false true) stdin []) []
             = Some (OVal (vstr (ftext stdin)), t').
Proof.
  intros stdin fuel L.
  pose proof (slurpraw_loop_spec top top_next top_abs top_ok fuel
                (create_top (mkmode true false true) stdin []) []) as H.
  rewrite create_top_all in H. apply H. cbn. exact L.
Qed.

(* the linear-time oracle used by Run.v is the declarative one *)
Lemma lines_fast_spec : forall t cur, lines_fast_aux cur t = lines_aux cur t.
Proof.
  induction t as [|c r IH]; intros cur; cbn [lines_fast_aux lines_aux].
  - destruct cur; [reflexivity | now rewrite <- rev_alt].
  - destruct (c =? 10); [now rewrite <- rev_alt, IH | apply IH].
Qed.

Lemma data_outs_fast_spec : forall f d, data_outs_fast f d = data_outs f d.
Proof. destruct f; try reflexivity. intros. cbn. unfold lines. now rewrite lines_fast_spec. Qed.

Lemma all_outs_fast_spec : forall m stdin args, all_outs_fast m stdin args = all_outs m stdin args.
Proof.
  intros m stdin [|a r]; unfold all_outs_fast, all_outs; [apply data_outs_fast_spec|].
  apply flat_map_ext. intros [|d]; [reflexivity | apply data_outs_fast_spec].
Qed.

(* ---- partial consumption: every consumer built from input sees the iterator as the list of its outputs --- *)
Section Simulation.
  Variables (I : Type) (inext : I -> option out * I) (abs : I -> list out).
  Hypothesis ok : iter_ok I inext abs.

  (* run on the list and run on the iterator: same result, and the rest of the list is the abstraction
     of the iterator left behind *)
  Definition sim {X} (r : X * I) (l : X * list out) : Prop := l = (fst r, abs (snd r)).

  Lemma func_input_sim : forall i, sim (func_input I inext i) (func_input _ list_next (abs i)).
  Proof.
    intros i. unfold sim, func_input. pose proof (ok i) as H. destruct (inext i) as [[o|] i'].
    - rewrite H. cbn. destruct o; reflexivity.
    - destruct H as [H H']. rewrite H. cbn. now rewrite H'.
  Qed.

  Lemma take_loop_sim : forall brk k i vs,
    sim (take_loop I inext brk k i vs) (take_loop _ list_next brk k (abs i) vs).
  Proof.
    induction k as [|k IH]; intros i vs; [reflexivity|]. cbn [take_loop].
    pose proof (func_input_sim i) as F. unfold sim in F. rewrite F.
    destruct (func_input I inext i) as [[v| |] i']; cbn [fst snd]; [apply IH | reflexivity | reflexivity].
  Qed.

  Lemma inputs_loop_sim : forall fuel i vs,
    inputs_loop _ list_next fuel (abs i) vs
    = option_map (fun r => (fst r, abs (snd r))) (inputs_loop I inext fuel i vs).
  Proof.
    induction fuel as [|f IH]; intros i vs; [reflexivity|]. cbn [inputs_loop].
    pose proof (func_input_sim i) as F. unfold sim in F. rewrite F.
    destruct (func_input I inext i) as [[v| |] i']; cbn [fst snd]; [apply IH | reflexivity | reflexivity].
  Qed.

  Lemma until_loop_sim : forall fuel i,
    until_loop _ list_next fuel (abs i)
    = option_map (fun r => (fst r, abs (snd r))) (until_loop I inext fuel i).
  Proof.
    induction fuel as [|f IH]; intros i; [reflexivity|]. cbn [until_loop].
    pose proof (func_input_sim i) as F. unfold sim in F. rewrite F.
    destruct (func_input I inext i) as [[[[]| |]| |] i']; cbn [fst snd]; try reflexivity. apply IH.
  Qed.

  Lemma run_stage_sim : forall fuel st i,
    sim (run_stage I inext fuel st i) (run_stage _ list_next fuel st (abs i)).
  Proof.
    intros fuel st i. unfold sim. destruct st; cbn [run_stage].
    - pose proof (take_loop_sim false k i []) as T. unfold sim in T. rewrite T.
      destruct (take_loop I inext false k i []); reflexivity.
    - rewrite inputs_loop_sim. destruct (inputs_loop I inext fuel i []) as [[[vs|] i']|]; reflexivity.
    - pose proof (func_input_sim i) as F. unfold sim in F. rewrite F.
      destruct (func_input I inext i) as [[v| |] i']; reflexivity.
    - pose proof (take_loop_sim true k i []) as T. unfold sim in T. rewrite T.
      destruct (take_loop I inext true k i []); reflexivity.
    - pose proof (func_input_sim i) as F. unfold sim in F. rewrite F.
      destruct (func_input I inext i) as [[v| |] i']; reflexivity.
    - pose proof (func_input_sim i) as F. unfold sim in F. rewrite F.
      destruct (func_input I inext i) as [[v| |] i']; reflexivity.
    - pose proof (take_loop_sim false k i []) as T. unfold sim in T. rewrite T.
      destruct (take_loop I inext false k i []); reflexivity.
    - pose proof (take_loop_sim false k i []) as T. unfold sim in T. rewrite T.
      destruct (take_loop I inext false k i []); reflexivity.
    - pose proof (func_input_sim i) as F. unfold sim in F. rewrite F.
      destruct (func_input I inext i) as [[a| |] i']; cbn [fst snd] in *; try reflexivity.
      rewrite inputs_loop_sim. destruct (inputs_loop I inext fuel i' []) as [[[vs|] i'']|]; reflexivity.
    - rewrite until_loop_sim. destruct (until_loop I inext fuel i) as [[[v|] i']|]; reflexivity.
  Qed.

  Lemma run_prog_sim : forall fuel sts i,
    sim (run_prog I inext fuel sts i) (run_prog _ list_next fuel sts (abs i)).
  Proof.
    induction sts as [|st r IH]; intros i; [reflexivity|].
    unfold sim. cbn [run_prog]. pose proof (run_stage_sim fuel st i) as S. unfold sim in S. rewrite S.
    destruct (run_stage I inext fuel st i) as [[vs|] i']; cbn [fst snd] in *; [|reflexivity].
    specialize (IH i'). unfold sim in IH. rewrite IH.
    destruct (run_prog I inext fuel r i'); reflexivity.
  Qed.
End Simulation.

Lemma partial_consumption_lemma : forall m stdin args fuel sts,
  fst (run_prog top top_next fuel sts (create_top m stdin args))
  = fst (run_prog _ list_next fuel sts (all_outs m stdin args)).
Proof.
  intros m stdin args fuel sts.
  pose proof (run_prog_sim top top_next top_abs top_ok fuel sts (create_top m stdin args)) as S. unfold sim in S.
  rewrite create_top_all in S. now rewrite S.
Qed.

(* the consumers on an error-free list: limit(k; inputs) takes the first k, [inputs] the rest *)
Lemma take_list : forall brk k vs acc, (brk = false \/ (k <= List.length vs)%nat) ->
  take_loop _ list_next brk k (map OVal vs) acc = (Some (acc ++ firstn k vs), map OVal (skipn k vs)).
Proof.
  induction k as [|k IH]; intros vs acc H; cbn [take_loop firstn skipn].
  - now rewrite app_nil_r.
  - destruct vs as [|v r]; cbn.
    + destruct H as [->|H]; [now rewrite app_nil_r | cbn in H; lia].
    + rewrite IH; [now rewrite <- app_assoc | destruct H; [now left | right; cbn in *; lia]].
Qed.

Lemma inputs_list : forall fuel vs acc, (List.length vs < fuel)%nat ->
  inputs_loop _ list_next fuel (map OVal vs) acc = Some (Some (acc ++ vs), []).
Proof.
  induction fuel as [|f IH]; intros vs acc L; [lia|]. destruct vs as [|v r]; cbn.
  - now rewrite app_nil_r.
  - rewrite IH by (cbn in L; lia). now rewrite <- app_assoc.
Qed.

(* `[limit(k; inputs)], [inputs]` under -n on an error-free input: the first k values and then all the
   others — nothing lost, nothing twice, across files and stdin *)
Lemma take_then_rest_lemma : forall m stdin args vs k fuel,
  all_outs m stdin args = map OVal vs -> (List.length vs < fuel)%nat ->
  fst (run_prog top top_next fuel [StTake k; StRest] (create_top m stdin args))
  = [OVal (varr (firstn k vs)); OVal (varr (skipn k vs))].
Proof.
  intros m stdin args vs k fuel E L. rewrite partial_consumption_lemma, E.
  cbn [run_prog run_stage]. rewrite take_list by now left. cbn [option_map app fst snd].
  rewrite inputs_list by (rewrite skipn_length; lia). reflexivity.
Qed.

(* `[limit(k; repeat(input))], [inputs]`: the same for k values available; "break" escapes when k exceeds them *)
Lemma takerep_then_rest_lemma : forall m stdin args vs k fuel,
  all_outs m stdin args = map OVal vs -> (List.length vs < fuel)%nat -> (k <= List.length vs)%nat ->
  fst (run_prog top top_next fuel [StTakeRepeat k; StRest] (create_top m stdin args))
  = [OVal (varr (firstn k vs)); OVal (varr (skipn k vs))].
Proof.
  intros m stdin args vs k fuel E L K. rewrite partial_consumption_lemma, E.
  cbn [run_prog run_stage]. rewrite take_list by now right. cbn [option_map app fst snd].
  rewrite inputs_list by (rewrite skipn_length; lia). reflexivity.
Qed.
