(* C16: Gallina transcription of builtin.jq's fromstream together with the setpath it needs
   (func.go funcSetpath / updatePaths restricted to non-negative indices and string keys), over
   documents with objects in document order (a new key is appended).  Definitions only.

   def fromstream(f): foreach f as $pv (null;
       if .e then null end |
       $pv as [$p, $v] |
       if $pv | length == 2 then setpath(["v"] + $p; $v) | setpath(["e"]; $p | length == 0)
       else setpath(["e"]; $p | length == 1) end;
       if .e then .v else empty end); *)
From Coq Require Import List NArith Bool.
From Verif Require Import common.Sexp c16.Stream.
Import ListNotations.

Definition vnull : value := VS SNull.

Fixpoint nth_v (i : nat) (l : vlist) : value :=
  match l, i with
  | VNil, _ => vnull
  | VCons y _, O => y
  | VCons _ r, S i' => nth_v i' r
  end.

(* index beyond the end: the array is padded with null *)
Fixpoint set_index (i : nat) (x : value) (l : vlist) : vlist :=
  match i, l with
  | O, VNil => VCons x VNil
  | O, VCons _ r => VCons x r
  | S i', VNil => VCons vnull (set_index i' x VNil)
  | S i', VCons y r => VCons y (set_index i' x r)
  end.

Fixpoint get_key (k : list N) (m : mlist) : value :=
  match m with
  | MNil => vnull
  | MCons k' y r => if list_N_eqb k k' then y else get_key k r
  end.

Fixpoint set_key (k : list N) (x : value) (m : mlist) : mlist :=
  match m with
  | MNil => MCons k x MNil
  | MCons k' y r => if list_N_eqb k k' then MCons k x r else MCons k' y (set_key k x r)
  end.

(* None = type error *)
Fixpoint setpath (p : list pelem) (x : value) (V : value) : option value :=
  match p with
  | [] => Some x
  | PIdx i :: q =>
      match V with
      | VArr l => option_map (fun c => VArr (set_index (N.to_nat i) c l)) (setpath q x (nth_v (N.to_nat i) l))
      | VS SNull => option_map (fun c => VArr (set_index (N.to_nat i) c VNil)) (setpath q x vnull)
      | _ => None
      end
  | PKey (SStr k) :: q =>
      match V with
      | VObj m => option_map (fun c => VObj (set_key k c m)) (setpath q x (get_key k m))
      | VS SNull => option_map (fun c => VObj (MCons k c MNil)) (setpath q x vnull)
      | _ => None
      end
  | PKey _ :: _ => None
  end.

Definition leaf_val (l : leafval) : value :=
  match l with LS s => VS s | LEmptyArr => VArr VNil | LEmptyObj => VObj MNil end.

(* the foreach state {"v": V, "e": e}; the initial null behaves as (null, false) *)
Definition fs_step (st : value * bool) (ev : event) : option ((value * bool) * list value) :=
  let V0 := if snd st then vnull else fst st in        (* if .e then null end *)
  match ev with
  | Leaf p v =>
      match setpath p (leaf_val v) V0 with
      | Some V1 => let e := match p with [] => true | _ => false end in
                   Some ((V1, e), if e then [V1] else [])
      | None => None
      end
  | Close p =>
      let e := match p with [_] => true | _ => false end in
      Some ((V0, e), if e then [V0] else [])
  end.

Fixpoint fs_run (st : value * bool) (evs : list event) : option (list value) :=
  match evs with
  | [] => Some []
  | ev :: r => match fs_step st ev with
               | Some (st', out) => option_map (app out) (fs_run st' r)
               | None => None
               end
  end.

Definition fromstream_model (evs : list event) : option (list value) := fs_run (vnull, false) evs.

(* duplicate-free keys at every object *)
Fixpoint has_key (k : list N) (m : mlist) : bool :=
  match m with MNil => false | MCons k' _ r => list_N_eqb k k' || has_key k r end.
Fixpoint nodup_keys (v : value) : bool :=
  match v with
  | VS _ => true
  | VArr l => nodup_keys_l l
  | VObj m => nodup_keys_m m
  end
with nodup_keys_l (l : vlist) : bool :=
  match l with VNil => true | VCons v r => nodup_keys v && nodup_keys_l r end
with nodup_keys_m (m : mlist) : bool :=
  match m with MNil => true | MCons k v r => negb (has_key k r) && nodup_keys v && nodup_keys_m r end.
